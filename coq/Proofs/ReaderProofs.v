(* Proofs/ReaderProofs.v — lemmas behind Props/C14.v *)
From AV Require Import Base.Prelude Base.Lemmas Gen.ReaderPrims Model.Reader.
From Coq Require Import ZifyBool ZifyNat.
Ltac Zify.zify_post_hook ::= Z.div_mod_to_equations.
Open Scope Z_scope.

(* ---------- obligations on the generated primitives (re-checked against the source each run) *)
Definition prim_ok (p : prim) : bool :=
  forallb (fun k => (0 <=? k) && (k <? checked_avail p)) (unchecked_idx p)
  && forallb (fun k => (0 <=? k) && (k <? prim_size p)) (unchecked_idx p)
  && (unchecked_adv p =? prim_size p)
  && (checked_avail p =? prim_size p)
  && (0 <? prim_size p)
  && zlist_eqb (unchecked_idx p) (range 0 (Z.to_nat (prim_size p))).
Definition all_prims := [PU8; PI8; PU16; PI16; PU24; PU32; PI32; PU64; PI64].

Lemma prims_ok : forallb prim_ok all_prims = true.
Proof. vm_compute. reflexivity. Qed.

Lemma prim_ok_all p : prim_ok p = true.
Proof.
  pose proof prims_ok as H. rewrite forallb_forall in H. apply H.
  destruct p; cbn; tauto.
Qed.

Lemma unsafe_census_ok :
  unsafe_files_outside_model = 0 /\ unsafe_blocks_of_unknown_shape = 0.
Proof. split; reflexivity. Qed.

Lemma prim_size_pos p : 0 < prim_size p.
Proof. destruct p; reflexivity. Qed.

Lemma ty_size_cons p t : ty_size (p :: t) = prim_size p + ty_size t.
Proof. reflexivity. Qed.

Lemma ty_size_nonneg t : 0 <= ty_size t.
Proof.
  induction t as [|p t IH]; [cbv; discriminate|].
  rewrite ty_size_cons. pose proof (prim_size_pos p). lia.
Qed.

(* ---------- invariants *)
Definition sinv (s : scope) : Prop := dlen s < USIZE.   (* Rust slices are at most isize::MAX long *)
Definition cinv (c : ctxt) : Prop := 0 <= off c <= dlen (sc c) /\ sinv (sc c).
Definition ainv (a : rarray) : Prop :=
  0 <= a_len a /\ 0 < ty_size (a_ty a) <= a_stride a /\ dlen (a_sc a) = a_len a * a_stride a.
Definition rinv (st : rstate) : Prop :=
  sinv (scp st) /\ cinv (cur st) /\ ainv (arr st) /\ sinv (a_sc (arr st)).

Lemma dlen_nonneg s : 0 <= dlen s.
Proof. apply len_nonneg. Qed.

(* ---------- the unchecked primitives under a sufficient check *)
Lemma read_unchecked_ok p c :
  0 <= off c -> off c + prim_size p <= dlen (sc c) ->
  read_unchecked p c =
    Ok (unchecked_val p (fun k => nthZ (data (sc c)) (off c + k)),
        {| sc := sc c; off := off c + prim_size p |}).
Proof.
  intros H0 H1. unfold read_unchecked.
  pose proof (prim_ok_all p) as Hp. unfold prim_ok in Hp.
  repeat rewrite andb_true_iff in Hp. destruct Hp as [[[[[_ Hidx] Hadv] _] _] _].
  replace (forallb (in_slice c) (unchecked_idx p)) with true.
  - apply Z.eqb_eq in Hadv. rewrite Hadv. reflexivity.
  - symmetry. rewrite forallb_forall in *. intros k Hk. specialize (Hidx k Hk).
    unfold in_slice. lia.
Qed.

Lemma read_unchecked_ty_ok t : forall c,
  0 <= off c -> off c + ty_size t <= dlen (sc c) ->
  exists vs, read_unchecked_ty t c = Ok (vs, {| sc := sc c; off := off c + ty_size t |}).
Proof.
  induction t as [|p t IH]; intros c H0 H1.
  - cbn. exists []. destruct c; cbn. repeat f_equal. lia.
  - rewrite ty_size_cons in H1. pose proof (prim_size_pos p). pose proof (ty_size_nonneg t).
    cbn [read_unchecked_ty]. rewrite read_unchecked_ok by lia. cbn [bind]; cbv beta iota.
    destruct (IH {| sc := sc c; off := off c + prim_size p |}) as [vs Hvs]; cbn [off sc]; try lia.
    rewrite Hvs. cbn [bind sc off]; cbv beta iota. eexists.
    rewrite ty_size_cons.
    replace (off c + (prim_size p + ty_size t)) with (off c + prim_size p + ty_size t) by lia.
    reflexivity.
Qed.

Lemma check_avail_true c n :
  0 <= off c -> 0 <= n -> check_avail c n = true -> off c + n <= dlen (sc c).
Proof.
  unfold check_avail, checked_add. intros. destruct (off c + n <? USIZE); [lia|discriminate].
Qed.

Lemma check_avail_false c n :
  0 <= off c -> 0 <= n -> dlen (sc c) < USIZE -> check_avail c n = false -> off c + n > dlen (sc c).
Proof.
  unfold check_avail, checked_add. intros. destruct (off c + n <? USIZE) eqn:E; lia.
Qed.

(* ---------- sub-scopes *)
Lemma offset_length_ok m s o l s' :
  0 <= o -> 0 <= l -> offset_length m s o l = Ok s' ->
  o + l <= dlen s /\ data s' = take l (drop o (data s)) /\ dlen s' = l
  \/ (l = 0 /\ dlen s < o /\ data s' = []).
Proof.
  unfold offset_length. intros Ho Hl.
  destruct ((o <? dlen s) || (l =? 0)) eqn:E; [|discriminate].
  destruct (l <=? len (slice_from (data s) o)) eqn:E2; [|discriminate].
  intros H. apply bind_ok in H. destruct H as [b [_ Hb]]. injection Hb as <-. cbn [data].
  rewrite len_slice_from in E2 by lia. unfold dlen in *.
  destruct (o <=? len (data s)) eqn:E3.
  - left. rewrite slice_from_drop by lia. split; [lia|]. split; [reflexivity|].
    apply len_take. rewrite len_drop by lia. lia.
  - right. assert (l = 0) by lia. subst l. split; [reflexivity|]. split; [lia|].
    unfold slice_from. replace (o <=? len (data s)) with false. reflexivity.
Qed.

Lemma offset_length_dlen m s o l s' :
  0 <= o -> 0 <= l -> offset_length m s o l = Ok s' -> dlen s' = l.
Proof.
  intros Ho Hl H. destruct (offset_length_ok _ _ _ _ _ Ho Hl H) as [[_ [_ H1]]|[-> [_ H1]]]; auto.
  unfold dlen; rewrite H1; reflexivity.
Qed.

Lemma offset_length_not_oob m s o l : offset_length m s o l <> OOB.
Proof.
  unfold offset_length. destruct ((o <? dlen s) || (l =? 0)); [|congruence].
  destruct (l <=? _); [|congruence]. apply bind_not_oob; [apply wadd_not_oob|]. congruence.
Qed.

(* offset_length succeeds exactly on in-range windows (given no overflow of the bookkeeping base) *)
Lemma offset_length_complete m s o l :
  0 <= o -> 0 <= l -> o + l <= dlen s -> 0 <= base s -> base s + o < USIZE ->
  offset_length m s o l = Ok {| base := base s + o; data := take l (drop o (data s)) |}.
Proof.
  intros Ho Hl Hle Hb0 Hb. unfold offset_length, dlen in *.
  replace ((o <? len (data s)) || (l =? 0)) with true by lia.
  rewrite slice_from_drop by lia.
  rewrite len_drop by lia. replace (l <=? len (data s) - o) with true by lia.
  unfold wadd. rewrite Z.mod_small by lia. reflexivity.
Qed.

Lemma offset_length_rejects m s o l :
  0 <= o -> 0 < l -> dlen s < o + l ->
  exists e, offset_length m s o l = Err e.
Proof.
  intros Ho Hl Hgt. unfold offset_length, dlen in *.
  destruct ((o <? len (data s)) || (l =? 0)) eqn:E; [|eauto].
  rewrite len_slice_from by lia.
  destruct (o <=? len (data s)) eqn:E1.
  - replace (l <=? len (data s) - o) with false by lia. eauto.
  - replace (l <=? 0) with false by lia. eauto.
Qed.

(* ---------- no operation of the machine yields OOB, and the invariant is preserved *)
Lemma read_prim_not_oob p c : cinv c -> read_prim p c <> OOB.
Proof.
  intros Hc. unfold read_prim. destruct (check_avail c (checked_avail p)) eqn:E; [|congruence].
  pose proof (prim_ok_all p) as Hp. unfold prim_ok in Hp. repeat rewrite andb_true_iff in Hp.
  destruct Hp as [[[[[_ _] _] Hchk] _] _].
  apply check_avail_true in E; [|unfold cinv in Hc; lia|pose proof (prim_size_pos p); lia].
  rewrite read_unchecked_ok by (unfold cinv in Hc; lia). congruence.
Qed.

Lemma read_ty_not_oob t c : cinv c -> read_ty t c <> OOB.
Proof.
  intros Hc. unfold read_ty. destruct (check_avail c (ty_size t)) eqn:E; [|congruence].
  apply check_avail_true in E; [|unfold cinv in Hc; lia|apply ty_size_nonneg].
  destruct (read_unchecked_ty_ok t c) as [vs ->]; [unfold cinv in Hc; lia|lia|congruence].
Qed.

Lemma read_scope_not_oob m c l : read_scope m c l <> OOB.
Proof.
  unfold read_scope. pose proof (offset_length_not_oob m (sc c) (off c) l).
  destruct (offset_length m (sc c) (off c) l); try congruence.
  apply bind_not_oob; [apply uadd_not_oob|congruence].
Qed.

Lemma read_scope_inv m c l s c' :
  cinv c -> 0 <= l -> read_scope m c l = Ok (s, c') ->
  sc c' = sc c /\ off c' = off c + l /\ cinv c' /\ dlen s = l
  /\ data s = take l (drop (off c) (data (sc c))).
Proof.
  intros [Hc Hs] Hl. unfold read_scope. destruct (offset_length m (sc c) (off c) l) eqn:E; try discriminate.
  intros H. apply bind_ok in H. destruct H as [o' [Ho' H]]. injection H as <- <-. cbn [sc off].
  unfold cinv, sinv in *.
  assert (0 <= off c) as Hoff by lia.
  destruct (offset_length_ok _ _ _ _ _ Hoff Hl E) as [[H1 [H2 H3]]|[-> [H1 H2]]]; [|lia].
  unfold uadd in Ho'. replace (off c + l <? USIZE) with true in Ho' by lia.
  injection Ho' as <-. cbn [sc off]. repeat split; auto; lia.
Qed.

(* ---------- exact decoding: the specification side is written by hand, independent of Gen *)
Definition spec_size (p : prim) : Z :=
  match p with PU8 | PI8 => 1 | PU16 | PI16 => 2 | PU24 => 3 | PU32 | PI32 => 4 | PU64 | PI64 => 8 end.
Definition prim_signed (p : prim) : bool :=
  match p with PI8 | PI16 | PI32 | PI64 => true | _ => false end.
(* big-endian (two's complement for the signed types) value of exactly spec_size bytes *)
Definition decode_prim (p : prim) (bs : list Z) : Z :=
  let u := be_val bs in if prim_signed p then to_signed (8 * spec_size p) u else u.
Fixpoint decode_ty (t : ty) (bs : list Z) : list Z :=
  match t with
  | [] => []
  | p :: r => decode_prim p (take (spec_size p) bs) :: decode_ty r (drop (spec_size p) bs)
  end.

Lemma prim_size_spec p : prim_size p = spec_size p.
Proof. destruct p; reflexivity. Qed.

Lemma u16_val a b : 0 <= a < 256 -> 0 <= b < 256 ->
  Z.lor (wrap 16 (Z.shiftl a 8)) b = a * 256 + b.
Proof.
  intros. rewrite shiftl_mul by lia. change (2 ^ 8) with 256.
  rewrite wrap_small by (cbn; lia). rewrite (lor_disjoint_add _ _ 8) by (cbn; lia). lia.
Qed.

Lemma u24_val a b c : 0 <= a < 256 -> 0 <= b < 256 -> 0 <= c < 256 ->
  Z.lor (Z.lor (wrap 32 (Z.shiftl a 16)) (wrap 32 (Z.shiftl b 8))) c = (a * 256 + b) * 256 + c.
Proof.
  intros. rewrite !shiftl_mul by lia. change (2 ^ 8) with 256. change (2 ^ 16) with 65536.
  rewrite !wrap_small by (cbn; lia).
  rewrite (lor_disjoint_add (a * 65536) (b * 256) 16) by (cbn; lia).
  rewrite (lor_disjoint_add _ c 8) by (cbn; lia). lia.
Qed.

Lemma u32_val a b c d : 0 <= a < 256 -> 0 <= b < 256 -> 0 <= c < 256 -> 0 <= d < 256 ->
  Z.lor (Z.lor (Z.lor (wrap 32 (Z.shiftl a 24)) (wrap 32 (Z.shiftl b 16))) (wrap 32 (Z.shiftl c 8))) d
  = ((a * 256 + b) * 256 + c) * 256 + d.
Proof.
  intros. rewrite !shiftl_mul by lia.
  change (2 ^ 8) with 256. change (2 ^ 16) with 65536. change (2 ^ 24) with 16777216.
  rewrite !wrap_small by (cbn; lia).
  rewrite (lor_disjoint_add (a * 16777216) (b * 65536) 24) by (cbn; lia).
  rewrite (lor_disjoint_add _ (c * 256) 16) by (cbn; lia).
  rewrite (lor_disjoint_add _ d 8) by (cbn; lia). lia.
Qed.

Lemma u64_val hi lo : 0 <= hi < 4294967296 -> 0 <= lo < 4294967296 ->
  Z.lor (wrap 64 (Z.shiftl hi 32)) lo = hi * 4294967296 + lo.
Proof.
  intros. rewrite shiftl_mul by lia. change (2 ^ 32) with 4294967296.
  rewrite wrap_small by (cbn; lia). rewrite (lor_disjoint_add _ _ 32) by (cbn; lia). lia.
Qed.

Lemma unchecked_val_exact p (g : Z -> Z) :
  (forall k, 0 <= k < spec_size p -> 0 <= g k < 256) ->
  unchecked_val p g = decode_prim p (map g (range 0 (Z.to_nat (spec_size p)))).
Proof.
  intros Hg.
  destruct p; cbv [unchecked_val decode_prim prim_signed spec_size] in *;
    try pose proof (Hg 0 ltac:(lia)); try pose proof (Hg 1 ltac:(lia));
    try pose proof (Hg 2 ltac:(lia)); try pose proof (Hg 3 ltac:(lia));
    try pose proof (Hg 4 ltac:(lia)); try pose proof (Hg 5 ltac:(lia));
    try pose proof (Hg 6 ltac:(lia)); try pose proof (Hg 7 ltac:(lia)).
  - change (map g (range 0 (Z.to_nat 1))) with [g 0]. cbv [be_val fold_left]. lia.
  - change (map g (range 0 (Z.to_nat 1))) with [g 0]. cbv [be_val fold_left]. f_equal.
  - change (map g (range 0 (Z.to_nat 2))) with [g 0; g (0 + 1)]. cbv [be_val fold_left].
    rewrite u16_val by assumption. reflexivity.
  - change (map g (range 0 (Z.to_nat 2))) with [g 0; g (0 + 1)]. cbv [be_val fold_left].
    rewrite u16_val by assumption. reflexivity.
  - change (map g (range 0 (Z.to_nat 3))) with [g 0; g (0 + 1); g (0 + 1 + 1)]. cbv [be_val fold_left].
    rewrite u24_val by assumption. reflexivity.
  - change (map g (range 0 (Z.to_nat 4))) with [g 0; g (0 + 1); g (0 + 1 + 1); g (0 + 1 + 1 + 1)].
    cbv [be_val fold_left]. rewrite u32_val by assumption. reflexivity.
  - change (map g (range 0 (Z.to_nat 4))) with [g 0; g (0 + 1); g (0 + 1 + 1); g (0 + 1 + 1 + 1)].
    cbv [be_val fold_left]. rewrite u32_val by assumption. reflexivity.
  - change (map g (range 0 (Z.to_nat 8))) with
      [g 0; g (0 + 1); g (0 + 1 + 1); g (0 + 1 + 1 + 1); g (0 + 1 + 1 + 1 + 1);
       g (0 + 1 + 1 + 1 + 1 + 1); g (0 + 1 + 1 + 1 + 1 + 1 + 1); g (0 + 1 + 1 + 1 + 1 + 1 + 1 + 1)].
    cbv [be_val fold_left]. rewrite !u32_val by assumption. rewrite u64_val by lia. cbn. lia.
  - change (map g (range 0 (Z.to_nat 8))) with
      [g 0; g (0 + 1); g (0 + 1 + 1); g (0 + 1 + 1 + 1); g (0 + 1 + 1 + 1 + 1);
       g (0 + 1 + 1 + 1 + 1 + 1); g (0 + 1 + 1 + 1 + 1 + 1 + 1); g (0 + 1 + 1 + 1 + 1 + 1 + 1 + 1)].
    cbv [be_val fold_left]. rewrite !u32_val by assumption. rewrite u64_val by lia. f_equal. cbn. lia.
Qed.

Lemma read_unchecked_exact p c :
  bytes_ok (data (sc c)) = true -> 0 <= off c -> off c + prim_size p <= dlen (sc c) ->
  read_unchecked p c =
    Ok (decode_prim p (take (spec_size p) (drop (off c) (data (sc c)))),
        {| sc := sc c; off := off c + spec_size p |}).
Proof.
  intros Hb H0 H1. rewrite read_unchecked_ok by assumption. rewrite prim_size_spec in *.
  rewrite unchecked_val_exact.
  - assert (0 <= spec_size p) by (destruct p; cbv; discriminate).
    rewrite map_nth_range by (unfold dlen in *; lia). rewrite Z2Nat.id by lia. reflexivity.
  - intros k Hk. apply bytes_ok_nth; [assumption|unfold dlen in *; lia].
Qed.

(* Theorem (typed reads): a successful read returns the big-endian value at the cursor and
   advances by exactly the encoded size; a failing one is Eof, happens exactly when fewer than
   size bytes remain, and (by construction of rstep) leaves the cursor where it was. *)
Lemma read_prim_exact p c :
  bytes_ok (data (sc c)) = true -> cinv c ->
  (off c + spec_size p <= dlen (sc c) /\
   read_prim p c = Ok (decode_prim p (take (spec_size p) (drop (off c) (data (sc c)))),
                       {| sc := sc c; off := off c + spec_size p |}))
  \/ (dlen (sc c) < off c + spec_size p /\ read_prim p c = Err Eof).
Proof.
  intros Hb [Hc Hs]. unfold read_prim.
  pose proof (prim_ok_all p) as Hp. unfold prim_ok in Hp. repeat rewrite andb_true_iff in Hp.
  destruct Hp as [[[[[_ _] _] Hchk] Hpos] _]. apply Z.eqb_eq in Hchk. rewrite Hchk.
  pose proof (prim_size_spec p) as Hsz. pose proof (prim_size_pos p).
  destruct (check_avail c (prim_size p)) eqn:E.
  - left. apply check_avail_true in E; try lia. split; [lia|].
    apply read_unchecked_exact; auto; lia.
  - right. apply check_avail_false in E; try lia. unfold sinv in Hs. split; [lia|reflexivity].
    exact Hs.
Qed.

Lemma spec_size_nonneg p : 0 <= spec_size p.
Proof. destruct p; cbv; discriminate. Qed.

Lemma read_unchecked_ty_exact t : forall c,
  bytes_ok (data (sc c)) = true -> 0 <= off c -> off c + ty_size t <= dlen (sc c) ->
  read_unchecked_ty t c =
    Ok (decode_ty t (take (ty_size t) (drop (off c) (data (sc c)))),
        {| sc := sc c; off := off c + ty_size t |}).
Proof.
  induction t as [|p t IH]; intros c Hb H0 H1.
  - cbn. destruct c; cbn. repeat f_equal. lia.
  - rewrite ty_size_cons in *. pose proof (prim_size_pos p). pose proof (ty_size_nonneg t).
    pose proof (prim_size_spec p) as Hsz.
    cbn [read_unchecked_ty]. rewrite read_unchecked_exact by (auto; lia). cbn [bind]; cbv beta iota.
    rewrite IH; cbn [sc off]; auto; try lia. cbn [bind]; cbv beta iota.
    cbn [decode_ty]. f_equal. f_equal.
    + f_equal.
      * rewrite take_take by lia. reflexivity.
      * rewrite <- Hsz. rewrite drop_take by lia. rewrite drop_drop by lia.
        rewrite (Z.add_comm (prim_size p) (off c)). reflexivity.
    + f_equal. lia.
Qed.

Lemma read_ty_exact t c :
  bytes_ok (data (sc c)) = true -> cinv c ->
  (off c + ty_size t <= dlen (sc c) /\
   read_ty t c = Ok (decode_ty t (take (ty_size t) (drop (off c) (data (sc c)))),
                     {| sc := sc c; off := off c + ty_size t |}))
  \/ (dlen (sc c) < off c + ty_size t /\ read_ty t c = Err Eof).
Proof.
  intros Hb [Hc Hs]. unfold read_ty. pose proof (ty_size_nonneg t).
  destruct (check_avail c (ty_size t)) eqn:E.
  - left. apply check_avail_true in E; try lia. split; [lia|].
    apply read_unchecked_ty_exact; auto; lia.
  - right. apply check_avail_false in E; try lia. split; [lia|reflexivity]. exact Hs.
Qed.

(* ---------- machine-level invariant and OOB-freedom *)
Definition arg_ok (x : Z) : Prop := 0 <= x < USIZE.
Definition op_wf (o : op) : Prop :=
  match o with
  | OScopeOffset x => arg_ok x
  | OScopeOffsetLength x l => arg_ok x /\ arg_ok l
  | OReadScope l | OReadSlice l => arg_ok l
  | OReadUntilNibble n => 0 <= n < 256
  | OReadArray t n | OReadArrayUpto t n => arg_ok n /\ 0 < ty_size t
  | OReadArrayStride t n s => arg_ok n /\ arg_ok s /\ 0 < ty_size t
  | OArrGet i | OArrReadItem i => arg_ok i
  | _ => True
  end.

Lemma offset_length_dlen' m s o l s' :
  0 <= l -> offset_length m s o l = Ok s' -> dlen s' = l /\ dlen s' <= dlen s.
Proof.
  unfold offset_length. intros Hl.
  destruct ((o <? dlen s) || (l =? 0)); [|discriminate].
  destruct (l <=? len (slice_from (data s) o)) eqn:E2; [|discriminate].
  intros H. apply bind_ok in H. destruct H as [b [_ Hb]]. injection Hb as <-. unfold dlen; cbn [data].
  pose proof (len_slice_from_le (data s) o).
  rewrite len_take by lia. lia.
Qed.

Lemma scope_offset_dlen m s o s' : scope_offset m s o = Ok s' -> dlen s' <= dlen s.
Proof.
  unfold scope_offset. intros H. apply bind_ok in H. destruct H as [b [_ Hb]]. injection Hb as <-.
  unfold dlen; cbn [data]. apply len_slice_from_le.
Qed.

Lemma scope_offset_not_oob m s o : scope_offset m s o <> OOB.
Proof. unfold scope_offset. apply bind_not_oob; [apply wadd_not_oob|congruence]. Qed.

Lemma cinv_new s : sinv s -> cinv (ctxt_new s).
Proof. unfold cinv, sinv, ctxt_new; cbn [off sc]. pose proof (dlen_nonneg s). intros; lia. Qed.

Lemma read_prim_inv p c v c' : cinv c -> read_prim p c = Ok (v, c') -> cinv c'.
Proof.
  intros [Hc Hs]. unfold read_prim. destruct (check_avail c (checked_avail p)) eqn:E; [|discriminate].
  pose proof (prim_ok_all p) as Hp. unfold prim_ok in Hp. repeat rewrite andb_true_iff in Hp.
  destruct Hp as [[[[[_ _] _] Hchk] _] _]. apply Z.eqb_eq in Hchk. rewrite Hchk in E.
  pose proof (prim_size_pos p).
  apply check_avail_true in E; try lia.
  rewrite read_unchecked_ok by lia. intros [= <- <-]. unfold cinv; cbn [sc off]. split; [lia|exact Hs].
Qed.

Lemma read_ty_inv t c v c' : cinv c -> read_ty t c = Ok (v, c') -> cinv c'.
Proof.
  intros [Hc Hs]. unfold read_ty. destruct (check_avail c (ty_size t)) eqn:E; [|discriminate].
  pose proof (ty_size_nonneg t).
  apply check_avail_true in E; try lia.
  destruct (read_unchecked_ty_ok t c) as [vs Hvs]; try lia. rewrite Hvs.
  intros [= <- <-]. unfold cinv; cbn [sc off]. split; [lia|exact Hs].
Qed.

Lemma read_array_stride_inv m t c n st a c' :
  cinv c -> 0 <= n -> 0 <= st -> 0 < ty_size t -> read_array_stride m t c n st = Ok (a, c') ->
  cinv c' /\ ainv a /\ sinv (a_sc a) /\ sc c' = sc c /\ a_len a = n /\ a_stride a = st /\ a_ty a = t
  /\ ty_size t <= st /\ n * st < USIZE /\ off c' = off c + n * st
  /\ data (a_sc a) = take (n * st) (drop (off c) (data (sc c))).
Proof.
  intros Hc Hn Hst Ht. unfold read_array_stride. destruct (st <? ty_size t) eqn:E; [discriminate|].
  intros H.
  apply bind_ok in H. destruct H as [sz [Hsz H]].
  apply bind_ok in H. destruct H as [[s c1] [Hrs H]]. injection H as <- <-.
  apply cmul_ok in Hsz. destruct Hsz as [-> Hlt].
  assert (0 <= n * st) as Hnn by nia.
  destruct (read_scope_inv _ _ _ _ _ Hc Hnn Hrs) as [H1 [H2 [H3 [H4 H5]]]].
  cbn [a_sc a_len a_stride a_ty]. unfold ainv, sinv; cbn [a_sc a_len a_stride a_ty].
  repeat (split; [solve [auto|lia]|]). auto.
Qed.

Lemma read_array_is_stride m t c n :
  read_array m t c n = read_array_stride m t c n (ty_size t).
Proof.
  unfold read_array, read_array_stride. replace (ty_size t <? ty_size t) with false by lia. reflexivity.
Qed.

Lemma read_array_inv m t c n a c' :
  cinv c -> 0 <= n -> 0 < ty_size t -> read_array m t c n = Ok (a, c') ->
  cinv c' /\ ainv a /\ sinv (a_sc a).
Proof.
  intros Hc Hn Ht H. rewrite read_array_is_stride in H.
  apply read_array_stride_inv in H; auto; [tauto|lia].
Qed.

Lemma read_array_not_oob m t c n : read_array m t c n <> OOB.
Proof.
  unfold read_array. apply bind_not_oob; [apply cmul_not_oob|]. intros sz _.
  apply bind_not_oob; [apply read_scope_not_oob|]. intros [s c'] _. congruence.
Qed.

Lemma read_array_stride_not_oob m t c n st : read_array_stride m t c n st <> OOB.
Proof.
  unfold read_array_stride. destruct (st <? ty_size t); [congruence|].
  apply bind_not_oob; [apply cmul_not_oob|]. intros sz _.
  apply bind_not_oob; [apply read_scope_not_oob|]. intros [s c'] _. congruence.
Qed.

Lemma read_slice_not_oob m c l : read_slice m c l <> OOB.
Proof.
  unfold read_slice. apply bind_not_oob; [apply read_scope_not_oob|]. intros [s c'] _. congruence.
Qed.

Lemma find_nibble_range n l i e : 0 <= i -> find_nibble n l i = Some e -> i <= e < i + len l.
Proof.
  revert i; induction l as [|b l IH]; intros i Hi; cbn [find_nibble]; [discriminate|].
  rewrite len_cons. pose proof (len_nonneg l).
  destruct ((Z.shiftr b 4 =? n) || (Z.land b 15 =? n)).
  - intros [= <-]. lia.
  - intros Hf. apply IH in Hf; lia.
Qed.

(* the unchecked tuple read on a fresh window of `stride` bytes with size <= stride is in bounds *)
Lemma window_read_not_oob t s :
  ty_size t <= dlen s -> forall A (f : list Z * ctxt -> outcome A),
  (forall x, f x <> OOB) -> bind (read_unchecked_ty t (ctxt_new s)) f <> OOB.
Proof.
  intros Hle A f Hf. destruct (read_unchecked_ty_ok t (ctxt_new s)) as [vs Hvs]; cbn [ctxt_new off sc]; try lia.
  rewrite Hvs. cbn [bind]. apply Hf.
Qed.

Lemma arr_get_not_oob m a i : ainv a -> arr_get m a i <> OOB.
Proof.
  intros Ha. unfold arr_get. destruct (i <? a_len a); [|congruence].
  apply bind_not_oob; [apply umul_not_oob|]. intros o _.
  pose proof (ty_size_nonneg (a_ty a)). unfold ainv in Ha.
  destruct (offset_length m (a_sc a) o (a_stride a)) eqn:E; try congruence.
  - apply offset_length_dlen' in E; [|lia]. apply window_read_not_oob; [lia|].
    intros [v c]; congruence.
  - exfalso. eapply offset_length_not_oob; eauto.
Qed.

Lemma arr_read_item_not_oob m a i : sinv (a_sc a) -> arr_read_item m a i <> OOB.
Proof.
  intros Hs. unfold arr_read_item. destruct (i <? a_len a); [|congruence].
  apply bind_not_oob; [apply umul_not_oob|]. intros o _.
  pose proof (ty_size_nonneg (a_ty a)).
  destruct (offset_length m (a_sc a) o (ty_size (a_ty a))) eqn:E; try congruence.
  - apply offset_length_dlen' in E; [|lia].
    apply bind_not_oob.
    + apply read_ty_not_oob. apply cinv_new. unfold sinv in *; lia.
    + intros [v c] _; congruence.
  - exfalso. eapply offset_length_not_oob; eauto.
Qed.

Lemma iter_next_not_oob m s st t idx : ty_size t <= st -> iter_next m s st t idx <> OOB.
Proof.
  intros Hle. unfold iter_next.
  apply bind_not_oob; [apply umul_not_oob|]. intros o _.
  apply bind_not_oob; [apply scope_offset_not_oob|]. intros s' _.
  pose proof (ty_size_nonneg t).
  destruct (check_avail (ctxt_new s') st) eqn:E; [|congruence].
  apply check_avail_true in E; cbn [ctxt_new off sc] in *; try lia.
  apply window_read_not_oob; [lia|]. intros [v c]; congruence.
Qed.

Lemma iter_collect_not_oob fuel m s st t : ty_size t <= st -> forall idx,
  iter_collect fuel m s st t idx <> OOB.
Proof.
  intros Hle. induction fuel as [|f IH]; intros idx; cbn [iter_collect]; [congruence|].
  apply bind_not_oob; [apply iter_next_not_oob; assumption|]. intros [v|] _; [|congruence].
  apply bind_not_oob; [apply IH|]. congruence.
Qed.

Lemma read_items_not_oob fuel m a : sinv (a_sc a) -> forall i, read_items_from fuel m a i <> OOB.
Proof.
  intros Hs. induction fuel as [|f IH]; intros i; cbn [read_items_from];
    destruct (a_len a <=? i); try congruence.
  apply bind_not_oob; [apply arr_read_item_not_oob; assumption|]. intros v _.
  apply bind_not_oob; [apply IH|]. congruence.
Qed.

Lemma bsearch_not_oob fuel m a f : ainv a -> forall size left right,
  bsearch fuel m a f size left right <> OOB.
Proof.
  intros Ha. induction fuel as [|fu IH]; intros size left right; cbn [bsearch]; [congruence|].
  destruct (left <? right); [|congruence].
  apply bind_not_oob; [apply umul_not_oob|]. intros o _.
  pose proof (ty_size_nonneg (a_ty a)). unfold ainv in Ha.
  destruct (offset_length m (a_sc a) o (a_stride a)) eqn:E; try congruence.
  - apply offset_length_dlen' in E; [|lia]. apply window_read_not_oob; [lia|].
    intros [v c]. destruct (f v); [congruence|apply IH|apply IH].
  - exfalso. eapply offset_length_not_oob; eauto.
Qed.

Lemma rinit_inv d : len d < USIZE -> rinv (rinit d).
Proof.
  intros H. pose proof (len_nonneg d).
  unfold rinv, rinit, sinv, cinv, ainv, dlen, ctxt_new, scope_new, empty_array;
    cbn [scp cur arr sc off data a_sc a_ty a_stride].
  unfold sinv, dlen, scope_new; cbn [data].
  change (len (@nil Z)) with 0. change (ty_size [PU8]) with 1. unfold USIZE in *.
  cbn [a_len]. repeat split; lia.
Qed.

Lemma read_until_nibble_not_oob m c n : read_until_nibble m c n <> OOB.
Proof.
  unfold read_until_nibble. destruct (off c <=? dlen (sc c)); [|congruence].
  destruct (find_nibble _ _ _); [|congruence].
  apply bind_not_oob; [apply uadd_not_oob|]. intros e1 _. apply read_slice_not_oob.
Qed.

Lemma read_slice_inv m c l d c' : cinv c -> 0 <= l -> read_slice m c l = Ok (d, c') -> cinv c'.
Proof.
  intros Hc Hl H. unfold read_slice in H. apply bind_ok in H. destruct H as [[s c1] [H1 H2]].
  injection H2 as <- <-. eapply read_scope_inv in H1; eauto. tauto.
Qed.

Lemma rinv_intro st : sinv (scp st) -> cinv (cur st) -> ainv (arr st) -> sinv (a_sc (arr st)) -> rinv st.
Proof. unfold rinv; tauto. Qed.

Ltac same_state :=
  first [ exfalso; congruence
        | split; [apply rinv_intro; assumption | congruence] ].
Ltac new_state := apply rinv_intro; cbn [scp cur arr with_scp with_cur with_arr]; try assumption.

Theorem rstep_inv m st o :
  rinv st -> op_wf o ->
  rinv (fst (rstep m st o)) /\ snd (rstep m st o) <> OOB.
Proof.
  intros [Hs [Hc [Ha Has]]] Hwf.
  destruct o; cbn [rstep op_wf] in *; unfold arg_ok in *.
  - (* OScopeOffset *)
    pose proof (scope_offset_not_oob m (scp st) o).
    destruct (scope_offset m (scp st) o) eqn:E; cbn [fst snd]; try same_state.
    apply scope_offset_dlen in E. split; [|congruence]. new_state. unfold sinv in *; lia.
  - (* OScopeOffsetLength *)
    pose proof (offset_length_not_oob m (scp st) o l).
    destruct (offset_length m (scp st) o l) eqn:E; cbn [fst snd]; try same_state.
    apply offset_length_dlen' in E; [|lia]. split; [|congruence]. new_state. unfold sinv in *; lia.
  - (* OCtxt *) cbn [fst snd]. split; [|congruence]. new_state. apply cinv_new; assumption.
  - (* OCtxtScope *)
    unfold ctxt_scope. pose proof (scope_offset_not_oob m (sc (cur st)) (off (cur st))).
    destruct (scope_offset m (sc (cur st)) (off (cur st))) eqn:E; cbn [fst snd]; try same_state.
    apply scope_offset_dlen in E. split; [|congruence]. destruct Hc as [Hc1 Hc2].
    new_state; [unfold sinv in *; lia | split; assumption].
  - (* OBytesAvailable *) cbn [fst snd]. same_state.
  - (* ORead *)
    pose proof (read_prim_not_oob p _ Hc).
    destruct (read_prim p (cur st)) as [[v c]| | |] eqn:E; cbn [fst snd]; try same_state.
    split; [|congruence]. apply read_prim_inv in E; auto. new_state.
  - (* OReadTy *)
    pose proof (read_ty_not_oob t _ Hc).
    destruct (read_ty t (cur st)) as [[v c]| | |] eqn:E; cbn [fst snd]; try same_state.
    split; [|congruence]. apply read_ty_inv in E; auto. new_state.
  - (* OReadScope *)
    pose proof (read_scope_not_oob m (cur st) l).
    destruct (read_scope m (cur st) l) as [[s c]| | |] eqn:E; cbn [fst snd]; try same_state.
    split; [|congruence]. apply (read_scope_inv _ _ _ _ _ Hc (proj1 Hwf)) in E.
    destruct E as [E1 [E2 [E3 [E4 E5]]]]. new_state. unfold sinv; lia.
  - (* OReadSlice *)
    pose proof (read_slice_not_oob m (cur st) l).
    destruct (read_slice m (cur st) l) as [[d c]| | |] eqn:E; cbn [fst snd]; try same_state.
    split; [|congruence]. apply (read_slice_inv _ _ _ _ _ Hc (proj1 Hwf)) in E. new_state.
  - (* OReadUntilNibble *)
    pose proof (read_until_nibble_not_oob m (cur st) n).
    destruct (read_until_nibble m (cur st) n) as [[d c]| | |] eqn:E; cbn [fst snd]; try same_state.
    split; [|congruence]. unfold read_until_nibble in E.
    destruct (off (cur st) <=? dlen (sc (cur st))); [|discriminate].
    destruct (find_nibble n (drop (off (cur st)) (data (sc (cur st)))) 0) eqn:Ef; [|discriminate].
    apply find_nibble_range in Ef; [|lia].
    apply bind_ok in E. destruct E as [e1 [He1 E]].
    assert (0 <= e1) as He by (apply uadd_ok_range in He1; lia).
    apply (read_slice_inv _ _ _ _ _ Hc He) in E. new_state.
  - (* OReadArray *)
    pose proof (read_array_not_oob m t (cur st) n).
    destruct (read_array m t (cur st) n) as [[a c]| | |] eqn:E; cbn [fst snd]; try same_state.
    split; [|congruence]. apply (read_array_inv _ _ _ _ _ _ Hc (proj1 (proj1 Hwf)) (proj2 Hwf)) in E.
    destruct E as [E1 [E2 E3]]. new_state.
  - (* OReadArrayStride *)
    pose proof (read_array_stride_not_oob m t (cur st) n stride).
    destruct (read_array_stride m t (cur st) n stride) as [[a c]| | |] eqn:E; cbn [fst snd]; try same_state.
    split; [|congruence].
    destruct Hwf as [Hw1 [Hw2 Hw3]].
    apply (read_array_stride_inv _ _ _ _ _ _ _ Hc (proj1 Hw1) (proj1 Hw2) Hw3) in E.
    destruct E as [E1 [E2 [E3 _]]]. new_state.
  - (* OReadArrayUpto *)
    assert (read_array_upto_hack m t (cur st) n <> OOB) as Hno.
    { unfold read_array_upto_hack. apply bind_not_oob; [apply usub_not_oob|]. intros av _.
      destruct (ty_size t =? 0); [congruence|]. apply read_array_not_oob. }
    destruct (read_array_upto_hack m t (cur st) n) as [[a c]| | |] eqn:E; cbn [fst snd]; try same_state.
    split; [|congruence]. unfold read_array_upto_hack in E.
    apply bind_ok in E. destruct E as [av [Hav E]].
    destruct (ty_size t =? 0) eqn:Ez; [discriminate|].
    assert (0 <= av) as Hav0.
    { destruct Hc as [Hc1 Hc2]. unfold usub in Hav.
      replace (off (cur st) <=? dlen (sc (cur st))) with true in Hav by lia. injection Hav as <-. lia. }
    pose proof (ty_size_nonneg t) as Hts.
    assert (0 <= Z.min n (av / ty_size t)) as Hmin.
    { assert (0 <= av / ty_size t) by (apply Z.div_pos; lia). lia. }
    apply (read_array_inv _ _ _ _ _ _ Hc Hmin (proj2 Hwf)) in E.
    destruct E as [E1 [E2 E3]]. new_state.
  - (* OArrLen *) cbn [fst snd]. same_state.
  - (* OArrGet *) cbn [fst snd]. split; [apply rinv_intro; assumption|].
    apply bind_not_oob; [apply arr_get_not_oob; assumption|congruence].
  - (* OArrReadItem *) cbn [fst snd]. split; [apply rinv_intro; assumption|].
    apply arr_read_item_not_oob; assumption.
  - (* OArrLast *) cbn [fst snd]. split; [apply rinv_intro; assumption|].
    apply bind_not_oob; [|congruence]. unfold arr_last. destruct (a_len (arr st) <? 1); [congruence|].
    apply arr_get_not_oob; assumption.
  - (* OArrToVec *) cbn [fst snd]. split; [apply rinv_intro; assumption|].
    apply bind_not_oob; [|congruence]. apply iter_collect_not_oob. unfold ainv in Ha; lia.
  - (* OArrSizeHint *) cbn [fst snd]. split; [apply rinv_intro; assumption|].
    apply bind_not_oob; [|congruence]. unfold iter_size_hint. destruct (_ =? 0); congruence.
  - (* OArrReadToVec *) cbn [fst snd]. split; [apply rinv_intro; assumption|].
    apply bind_not_oob; [|congruence]. apply read_items_not_oob; assumption.
  - (* OArrSearch *) cbn [fst snd]. split; [apply rinv_intro; assumption|].
    apply bind_not_oob; [|congruence]. apply bsearch_not_oob; assumption.
Qed.

(* every reachable state of every program over every buffer: invariant holds, no OOB output *)
Theorem rrun_no_oob m ops : forall st,
  rinv st -> Forall op_wf ops ->
  Forall (fun r => fst r <> OOB) (rrun m st ops).
Proof.
  induction ops as [|o ops IH]; intros st Hinv Hwf; cbn [rrun]; [constructor|].
  inversion Hwf as [|? ? Ho Hops]; subst.
  destruct (rstep_inv m st o Hinv Ho) as [Hinv' Hno].
  destruct (rstep m st o) as [st' out] eqn:E. cbn [fst snd] in *.
  constructor; [exact Hno|]. apply IH; assumption.
Qed.

(* ---------- arrays expose exactly the items of their window, in order *)
Definition window_ok (a : rarray) : Prop :=
  0 <= a_len a /\ (0 < ty_size (a_ty a) <= a_stride a /\ a_stride a < USIZE) /\
  dlen (a_sc a) = a_len a * a_stride a /\
  (0 <= base (a_sc a) /\ base (a_sc a) + dlen (a_sc a) < USIZE) /\
  dlen (a_sc a) < USIZE /\ bytes_ok (data (a_sc a)) = true.

(* the i-th item: the first size bytes of the i-th stride-sized cell of the window *)
Definition item (a : rarray) (i : Z) : list Z :=
  decode_ty (a_ty a) (take (ty_size (a_ty a)) (drop (i * a_stride a) (data (a_sc a)))).

Lemma arr_get_exact m a i :
  window_ok a -> 0 <= i < a_len a -> arr_get m a i = Ok (Some (item a i)).
Proof.
  intros [Hl [Hsz [Hw [Hb [Hs Hbytes]]]]] Hi. unfold arr_get.
  replace (i <? a_len a) with true by lia.
  assert (0 <= i * a_stride a /\ i * a_stride a + a_stride a <= dlen (a_sc a)) as [Ho1 Ho2] by nia.
  unfold umul. replace (i * a_stride a <? USIZE) with true by lia. cbn [bind].
  rewrite offset_length_complete by lia.
  rewrite read_unchecked_ty_exact; cbn [ctxt_new sc off data].
  - cbn [bind]. unfold item. rewrite drop_0. rewrite take_take by lia. reflexivity.
  - apply bytes_ok_take, bytes_ok_drop, Hbytes.
  - lia.
  - unfold dlen; cbn [data]. rewrite len_take; [lia|]. rewrite len_drop by (unfold dlen in *; lia).
    unfold dlen in *. lia.
Qed.

Lemma arr_get_outside m a i : a_len a <= i -> arr_get m a i = Ok None.
Proof. intros; unfold arr_get. replace (i <? a_len a) with false by lia. reflexivity. Qed.

Lemma iter_next_exact m a idx :
  window_ok a -> 0 <= idx <= a_len a ->
  iter_next m (a_sc a) (a_stride a) (a_ty a) idx =
    Ok (if idx <? a_len a then Some (item a idx) else None).
Proof.
  intros [Hl [Hsz [Hw [Hb [Hs Hbytes]]]]] Hi. unfold iter_next.
  assert (0 <= idx * a_stride a <= dlen (a_sc a)) as Ho by nia.
  unfold umul. replace (idx * a_stride a <? USIZE) with true by lia. cbn [bind].
  unfold scope_offset, wadd.
  cbn [bind]. rewrite slice_from_drop by (unfold dlen in *; lia).
  unfold check_avail, checked_add, ctxt_new; cbn [off sc].
  replace (0 + a_stride a <? USIZE) with true by lia.
  unfold dlen at 1; cbn [data]. rewrite len_drop by (unfold dlen in *; lia).
  destruct (idx <? a_len a) eqn:E.
  - assert (idx * a_stride a + a_stride a <= dlen (a_sc a)) as Ho2 by nia.
    replace (0 + a_stride a <=? len (data (a_sc a)) - idx * a_stride a) with true by (unfold dlen in *; lia).
    rewrite read_unchecked_ty_exact; cbn [sc off data].
    + cbn [bind]. unfold item. rewrite drop_0. reflexivity.
    + apply bytes_ok_drop, Hbytes.
    + lia.
    + unfold dlen; cbn [data]. rewrite len_drop by (unfold dlen in *; lia). unfold dlen in *; lia.
  - assert (idx = a_len a) by lia. subst idx.
    replace (0 + a_stride a <=? len (data (a_sc a)) - a_len a * a_stride a) with false by (unfold dlen in *; lia).
    reflexivity.
Qed.

Lemma iter_collect_exact m a : window_ok a -> forall fuel idx,
  0 <= idx <= a_len a -> (Z.to_nat (a_len a - idx) < fuel)%nat ->
  iter_collect fuel m (a_sc a) (a_stride a) (a_ty a) idx =
    Ok (map (item a) (range idx (Z.to_nat (a_len a - idx)))).
Proof.
  intros Hw. induction fuel as [|f IH]; intros idx Hi Hf; [lia|].
  cbn [iter_collect]. rewrite iter_next_exact by assumption. cbn [bind].
  destruct (idx <? a_len a) eqn:E.
  - rewrite IH by lia. cbn [bind].
    replace (Z.to_nat (a_len a - idx)) with (S (Z.to_nat (a_len a - (idx + 1)))) by lia.
    reflexivity.
  - replace (Z.to_nat (a_len a - idx)) with O by lia. reflexivity.
Qed.

(* to_vec / iter enumerate exactly the items 0 .. len-1 in order *)
Lemma arr_to_vec_exact m a :
  window_ok a -> arr_to_vec m a = Ok (map (item a) (range 0 (Z.to_nat (a_len a)))).
Proof.
  intros Hw. unfold arr_to_vec. rewrite iter_collect_exact; auto.
  - rewrite Z.sub_0_r. reflexivity.
  - destruct Hw; lia.
  - destruct Hw as [Hl [Hsz [Hd _]]]. rewrite Z.sub_0_r. unfold dlen, len in Hd. nia.
Qed.

(* ---------- binary search *)
Definition sorted_wrt (f : list Z -> comparison) (a : rarray) : Prop :=
  forall j k, 0 <= j <= k -> k < a_len a ->
    (f (item a k) = Lt -> f (item a j) = Lt) /\ (f (item a j) = Gt -> f (item a k) = Gt).

Definition bs_post (f : list Z -> comparison) (a : rarray) (r : bsres) : Prop :=
  match r with
  | Found i => 0 <= i < a_len a /\ f (item a i) = Eq
  | NotFound i => 0 <= i <= a_len a
      /\ (forall j, 0 <= j < i -> f (item a j) = Lt)
      /\ (forall j, i <= j < a_len a -> f (item a j) = Gt)
  end.

Lemma bsearch_spec m a f : window_ok a -> sorted_wrt f a -> forall fuel size left right,
  0 <= left <= right -> right <= a_len a -> size = right - left -> (Z.to_nat size < fuel)%nat ->
  (forall j, 0 <= j < left -> f (item a j) = Lt) ->
  (forall j, right <= j < a_len a -> f (item a j) = Gt) ->
  exists r, bsearch fuel m a f size left right = Ok r /\ bs_post f a r.
Proof.
  intros Hw Hsorted. induction fuel as [|fu IH]; intros size left right Hlr Hr Hsize Hfuel HL HR; [lia|].
  cbn [bsearch]. destruct (left <? right) eqn:E.
  - set (mid := left + size / 2).
    assert (left <= mid < right) as Hmid by (unfold mid; subst size; nia).
    destruct Hw as [Hl [Hsz [Hd [Hb [Hs Hbytes]]]]].
    assert (0 <= mid * a_stride a /\ mid * a_stride a + a_stride a <= dlen (a_sc a)) as [Ho1 Ho2] by nia.
    unfold umul. replace (mid * a_stride a <? USIZE) with true by lia. cbn [bind].
    rewrite offset_length_complete by lia.
    rewrite read_unchecked_ty_exact; cbn [ctxt_new sc off data].
    + cbn [bind]. rewrite drop_0. rewrite take_take by lia. fold (item a mid).
      destruct (f (item a mid)) eqn:Ef.
      * exists (Found mid). split; [reflexivity|]. cbn. split; [lia|exact Ef].
      * apply IH; try lia.
        -- intros j Hj. destruct (Z.lt_ge_cases j left); [apply HL; lia|].
           apply (Hsorted j mid); [lia|lia|exact Ef].
        -- exact HR.
      * apply IH; try lia.
        -- exact HL.
        -- intros j Hj. destruct (Z.lt_ge_cases j right); [|apply HR; lia].
           apply (Hsorted mid j); [lia|lia|exact Ef].
    + apply bytes_ok_take, bytes_ok_drop, Hbytes.
    + lia.
    + unfold dlen; cbn [data]. rewrite len_take; [lia|]. rewrite len_drop by (unfold dlen in *; lia).
      unfold dlen in *. lia.
  - exists (NotFound left). split; [reflexivity|]. cbn. split; [lia|]. split; [exact HL|].
    intros j Hj. apply HR. lia.
Qed.

Lemma arr_binary_search_spec m a f :
  window_ok a -> sorted_wrt f a ->
  exists r, arr_binary_search m a f = Ok r /\ bs_post f a r.
Proof.
  intros Hw Hs. unfold arr_binary_search. pose proof Hw as [Hl [[Hsz Hst] [Hd Hrest]]].
  replace (a_len a <=? dlen (a_sc a)) with true by nia.
  apply bsearch_spec; try lia; auto.
Qed.

Lemma ainv_window_ok a :
  ainv a -> sinv (a_sc a) -> 0 <= base (a_sc a) -> base (a_sc a) + dlen (a_sc a) < USIZE ->
  a_stride a < USIZE -> bytes_ok (data (a_sc a)) = true -> window_ok a.
Proof. unfold ainv, sinv, window_ok. intros; repeat split; try tauto; lia. Qed.

(* ---------- totality: on every reachable state every operation returns a value or an error —
   it never panics (unwrap on an in-range window, arithmetic within usize, fuel sufficient) *)
Definition defined {A} (x : outcome A) : Prop := (exists a, x = Ok a) \/ (exists e, x = Err e).

Lemma defined_ok {A} (a : A) : defined (Ok a).
Proof. left; eauto. Qed.
Lemma defined_err {A} e : defined (@Err A e).
Proof. right; eauto. Qed.
Lemma defined_bind {A B} (x : outcome A) (f : A -> outcome B) :
  defined x -> (forall a, x = Ok a -> defined (f a)) -> defined (bind x f).
Proof. intros [[a ->]|[e ->]] Hf; cbn; [apply Hf; reflexivity|apply defined_err]. Qed.

Lemma offset_length_defined m s o l : defined (offset_length m s o l).
Proof.
  unfold offset_length. destruct ((o <? dlen s) || (l =? 0)); [|apply defined_err].
  destruct (l <=? _); [|apply defined_err]. unfold wadd; cbn [bind]. apply defined_ok.
Qed.

Lemma offset_length_succeeds m s o l :
  0 <= o -> 0 <= l -> o + l <= dlen s ->
  exists s', offset_length m s o l = Ok s' /\ dlen s' = l.
Proof.
  intros Ho Hl Hle.
  destruct (offset_length_defined m s o l) as [[s' H]|[e H]].
  - exists s'. split; [exact H|]. eapply offset_length_dlen'; eauto.
  - exfalso. unfold offset_length, dlen in *.
    replace ((o <? len (data s)) || (l =? 0)) with true in H by lia.
    rewrite slice_from_drop in H by lia. rewrite len_drop in H by lia.
    replace (l <=? len (data s) - o) with true in H by lia. discriminate.
Qed.

Lemma scope_offset_defined m s o : defined (scope_offset m s o).
Proof. unfold scope_offset, wadd; cbn [bind]. apply defined_ok. Qed.

Lemma read_prim_defined p c : cinv c -> defined (read_prim p c).
Proof.
  intros Hc. unfold read_prim. destruct (check_avail c (checked_avail p)) eqn:E; [|apply defined_err].
  pose proof (prim_ok_all p) as Hp. unfold prim_ok in Hp. repeat rewrite andb_true_iff in Hp.
  destruct Hp as [[[[[_ _] _] Hchk] _] _]. apply Z.eqb_eq in Hchk. rewrite Hchk in E.
  pose proof (prim_size_pos p). destruct Hc as [Hc Hs].
  apply check_avail_true in E; try lia. rewrite read_unchecked_ok by lia. apply defined_ok.
Qed.

Lemma read_ty_defined t c : cinv c -> defined (read_ty t c).
Proof.
  intros [Hc Hs]. unfold read_ty. destruct (check_avail c (ty_size t)) eqn:E; [|apply defined_err].
  pose proof (ty_size_nonneg t). apply check_avail_true in E; try lia.
  destruct (read_unchecked_ty_ok t c) as [vs ->]; try lia. apply defined_ok.
Qed.

Lemma read_scope_defined m c l : cinv c -> 0 <= l -> defined (read_scope m c l).
Proof.
  intros [Hc Hs] Hl. unfold read_scope.
  destruct (offset_length m (sc c) (off c) l) eqn:E.
  - assert (0 <= off c) as Ho by lia.
    destruct (offset_length_ok _ _ _ _ _ Ho Hl E) as [[H1 _]|[-> [H1 _]]].
    + unfold uadd, sinv in *. replace (off c + l <? USIZE) with true by lia. cbn [bind]. apply defined_ok.
    + unfold uadd, sinv in *. replace (off c + 0 <? USIZE) with true by lia. cbn [bind]. apply defined_ok.
  - apply defined_err.
  - destruct (offset_length_defined m (sc c) (off c) l) as [[? H]|[? H]]; congruence.
  - destruct (offset_length_defined m (sc c) (off c) l) as [[? H]|[? H]]; congruence.
Qed.

Lemma read_slice_defined m c l : cinv c -> 0 <= l -> defined (read_slice m c l).
Proof.
  intros Hc Hl. unfold read_slice. apply defined_bind; [apply read_scope_defined; assumption|].
  intros [s c'] _. apply defined_ok.
Qed.

Lemma read_array_stride_defined m t c n st : cinv c -> 0 <= n -> 0 <= st ->
  defined (read_array_stride m t c n st).
Proof.
  intros Hc Hn Hst. unfold read_array_stride. destruct (st <? ty_size t); [apply defined_err|].
  unfold cmul. destruct (n * st <? USIZE); [|apply defined_err]. cbn [bind].
  apply defined_bind; [apply read_scope_defined; [assumption|nia]|]. intros [s c'] _. apply defined_ok.
Qed.

Lemma window_read_defined t s :
  ty_size t <= dlen s -> exists vs c, read_unchecked_ty t (ctxt_new s) = Ok (vs, c).
Proof.
  intros Hle. destruct (read_unchecked_ty_ok t (ctxt_new s)) as [vs Hvs]; cbn [ctxt_new off sc]; try lia.
  eauto.
Qed.

Lemma arr_cell m a i :
  ainv a -> sinv (a_sc a) -> 0 <= i < a_len a -> forall l, 0 <= l <= a_stride a ->
  umul m i (a_stride a) = Ok (i * a_stride a) /\
  exists s', offset_length m (a_sc a) (i * a_stride a) l = Ok s' /\ dlen s' = l.
Proof.
  intros [Hl [Hsz Hd]] Hs Hi l Hll. unfold sinv in Hs.
  assert (0 <= i * a_stride a /\ i * a_stride a + a_stride a <= dlen (a_sc a)) as [H1 H2] by nia.
  split.
  - unfold umul. replace (i * a_stride a <? USIZE) with true by lia. reflexivity.
  - apply offset_length_succeeds; lia.
Qed.

Lemma arr_get_defined m a i : ainv a -> sinv (a_sc a) -> 0 <= i -> defined (arr_get m a i).
Proof.
  intros Ha Hs Hi. unfold arr_get. destruct (i <? a_len a) eqn:E; [|apply defined_ok].
  pose proof Ha as [Hl [Hsz Hd]].
  destruct (arr_cell m a i Ha Hs ltac:(lia) (a_stride a) ltac:(lia)) as [Hm [s' [Hs' Hd']]].
  rewrite Hm. cbn [bind]. rewrite Hs'.
  destruct (window_read_defined (a_ty a) s') as [vs [c Hr]]; [lia|]. rewrite Hr. cbn [bind]. apply defined_ok.
Qed.

Lemma arr_read_item_defined m a i : ainv a -> sinv (a_sc a) -> 0 <= i -> defined (arr_read_item m a i).
Proof.
  intros Ha Hs Hi. unfold arr_read_item. destruct (i <? a_len a) eqn:E; [|apply defined_err].
  pose proof Ha as [Hl [Hsz Hd]].
  destruct (arr_cell m a i Ha Hs ltac:(lia) (ty_size (a_ty a)) ltac:(lia)) as [Hm [s' [Hs' Hd']]].
  rewrite Hm. cbn [bind]. rewrite Hs'.
  apply defined_bind.
  - apply read_ty_defined. apply cinv_new. unfold sinv in *. nia.
  - intros [v c] _. apply defined_ok.
Qed.

Lemma arr_read_item_ok m a i : ainv a -> sinv (a_sc a) -> 0 <= i < a_len a ->
  exists v, arr_read_item m a i = Ok v.
Proof.
  intros Ha Hs Hi. unfold arr_read_item. replace (i <? a_len a) with true by lia.
  pose proof Ha as [Hl [Hsz Hd]].
  destruct (arr_cell m a i Ha Hs Hi (ty_size (a_ty a)) ltac:(lia)) as [Hm [s' [Hs' Hd']]].
  rewrite Hm. cbn [bind]. rewrite Hs'. unfold read_ty.
  replace (check_avail (ctxt_new s') (ty_size (a_ty a))) with true.
  - destruct (window_read_defined (a_ty a) s') as [vs [c Hr]]; [lia|]. rewrite Hr. cbn [bind]. eauto.
  - unfold check_avail, checked_add, ctxt_new, sinv in *; cbn [off sc].
    replace (0 + ty_size (a_ty a) <? USIZE) with true by nia. lia.
Qed.

Lemma iter_next_defined m a idx : ainv a -> sinv (a_sc a) -> 0 <= idx <= a_len a ->
  defined (iter_next m (a_sc a) (a_stride a) (a_ty a) idx).
Proof.
  intros [Hl [Hsz Hd]] Hs Hi. unfold iter_next, sinv in *.
  assert (0 <= idx * a_stride a <= dlen (a_sc a)) as Ho by nia.
  unfold umul. replace (idx * a_stride a <? USIZE) with true by lia. cbn [bind].
  unfold scope_offset, wadd; cbn [bind].
  match goal with |- defined (if ?b then _ else _) => destruct b eqn:E end; [|apply defined_ok].
  apply check_avail_true in E; cbn [ctxt_new off sc] in *; try lia.
  match goal with |- context [read_unchecked_ty ?t (ctxt_new ?s)] =>
    destruct (window_read_defined t s) as [vs [c Hr]]; [lia|rewrite Hr] end.
  cbn [bind]. apply defined_ok.
Qed.

Lemma iter_next_end m a : ainv a -> sinv (a_sc a) ->
  iter_next m (a_sc a) (a_stride a) (a_ty a) (a_len a) = Ok None.
Proof.
  intros [Hl [Hsz Hd]] Hs. unfold iter_next, sinv in *. pose proof (dlen_nonneg (a_sc a)) as Hnn.
  unfold umul. replace (a_len a * a_stride a <? USIZE) with true by lia. cbn [bind].
  unfold scope_offset, wadd; cbn [bind].
  unfold check_avail, checked_add, ctxt_new; cbn [off sc]. unfold dlen at 1; cbn [data].
  rewrite slice_from_drop by (unfold dlen in *; lia). rewrite len_drop by (unfold dlen in *; lia).
  destruct (0 + a_stride a <? USIZE); [|reflexivity].
  replace (0 + a_stride a <=? len (data (a_sc a)) - a_len a * a_stride a) with false by (unfold dlen in *; lia).
  reflexivity.
Qed.

Lemma iter_collect_defined m a : ainv a -> sinv (a_sc a) -> forall fuel idx,
  0 <= idx <= a_len a -> defined (iter_collect fuel m (a_sc a) (a_stride a) (a_ty a) idx).
Proof.
  intros Ha Hs. induction fuel as [|f IH]; intros idx Hi; cbn [iter_collect]; [apply defined_ok|].
  destruct (Z.eq_dec idx (a_len a)) as [->|Hne].
  - rewrite iter_next_end by assumption. cbn [bind]. apply defined_ok.
  - apply defined_bind; [apply iter_next_defined; assumption|]. intros [v|] _; [|apply defined_ok].
    apply defined_bind; [apply IH; lia|]. intros; apply defined_ok.
Qed.

Lemma read_items_defined m a : ainv a -> sinv (a_sc a) -> forall fuel i,
  0 <= i -> (Z.to_nat (a_len a - i) <= fuel)%nat -> defined (read_items_from fuel m a i).
Proof.
  intros Ha Hs. induction fuel as [|f IH]; intros i Hi Hf; cbn [read_items_from];
    destruct (a_len a <=? i) eqn:E; try apply defined_ok; [lia|].
  destruct (arr_read_item_ok m a i Ha Hs ltac:(lia)) as [v ->]. cbn [bind].
  apply defined_bind; [apply IH; lia|]. intros; apply defined_ok.
Qed.

Lemma bsearch_defined m a f : ainv a -> sinv (a_sc a) -> forall fuel size left right,
  0 <= left <= right -> right <= a_len a -> size = right - left -> (Z.to_nat size < fuel)%nat ->
  defined (bsearch fuel m a f size left right).
Proof.
  intros Ha Hs. induction fuel as [|fu IH]; intros size left right Hlr Hr Hsize Hfuel; [lia|].
  cbn [bsearch]. destruct (left <? right) eqn:E; [|apply defined_ok].
  set (mid := left + size / 2).
  assert (left <= mid < right) as Hmid by (unfold mid; subst size; nia).
  pose proof Ha as [Hl [Hsz Hd]].
  destruct (arr_cell m a mid Ha Hs ltac:(lia) (a_stride a) ltac:(lia)) as [Hm [s' [Hs' Hd']]].
  rewrite Hm. cbn [bind]. rewrite Hs'.
  destruct (window_read_defined (a_ty a) s') as [vs [c Hrd]]; [lia|]. rewrite Hrd. cbn [bind].
  destruct (f vs); [apply defined_ok|apply IH; lia|apply IH; lia].
Qed.

Theorem rstep_total m st o :
  rinv st -> op_wf o -> defined (snd (rstep m st o)).
Proof.
  intros [Hs [Hc [Ha Has]]] Hwf.
  destruct o; cbn [rstep op_wf] in *; unfold arg_ok in *.
  - pose proof (scope_offset_defined m (scp st) o) as [[s H]|[e H]]; rewrite H; cbn [snd]; [apply defined_ok|apply defined_err].
  - pose proof (offset_length_defined m (scp st) o l) as [[s H]|[e H]]; rewrite H; cbn [snd]; [apply defined_ok|apply defined_err].
  - cbn [snd]. apply defined_ok.
  - unfold ctxt_scope. pose proof (scope_offset_defined m (sc (cur st)) (off (cur st))) as [[s H]|[e H]]; rewrite H; cbn [snd]; [apply defined_ok|apply defined_err].
  - cbn [snd]. apply defined_ok.
  - pose proof (read_prim_defined p _ Hc) as [[[v c] H]|[e H]]; rewrite H; cbn [snd]; [apply defined_ok|apply defined_err].
  - pose proof (read_ty_defined t _ Hc) as [[[v c] H]|[e H]]; rewrite H; cbn [snd]; [apply defined_ok|apply defined_err].
  - pose proof (read_scope_defined m _ l Hc (proj1 Hwf)) as [[[s c] H]|[e H]]; rewrite H; cbn [snd]; [apply defined_ok|apply defined_err].
  - pose proof (read_slice_defined m _ l Hc (proj1 Hwf)) as [[[d c] H]|[e H]]; rewrite H; cbn [snd]; [apply defined_ok|apply defined_err].
  - assert (defined (read_until_nibble m (cur st) n)) as Hd.
    { unfold read_until_nibble. pose proof Hc as [Hc1 Hc2].
      replace (off (cur st) <=? dlen (sc (cur st))) with true by lia.
      destruct (find_nibble n (drop (off (cur st)) (data (sc (cur st)))) 0) eqn:Ef; [|apply defined_err].
      apply find_nibble_range in Ef; [|lia]. rewrite len_drop in Ef by (unfold dlen in *; lia).
      unfold uadd, sinv, dlen in *. replace (z + 1 <? USIZE) with true by lia. cbn [bind].
      apply read_slice_defined; [assumption|lia]. }
    destruct Hd as [[[d c] H]|[e H]]; rewrite H; cbn [snd]; [apply defined_ok|apply defined_err].
  - rewrite read_array_is_stride.
    pose proof (read_array_stride_defined m t (cur st) n (ty_size t) Hc (proj1 (proj1 Hwf)) (ty_size_nonneg t)) as [[[a c] H]|[e H]];
      rewrite H; cbn [snd]; [apply defined_ok|apply defined_err].
  - destruct Hwf as [Hw1 [Hw2 Hw3]].
    pose proof (read_array_stride_defined m t (cur st) n stride Hc (proj1 Hw1) (proj1 Hw2)) as [[[a c] H]|[e H]];
      rewrite H; cbn [snd]; [apply defined_ok|apply defined_err].
  - assert (defined (read_array_upto_hack m t (cur st) n)) as Hd.
    { unfold read_array_upto_hack. pose proof Hc as [Hc1 Hc2]. unfold usub.
      replace (off (cur st) <=? dlen (sc (cur st))) with true by lia. cbn [bind].
      replace (ty_size t =? 0) with false by lia.
      rewrite read_array_is_stride. apply read_array_stride_defined; auto; [|lia].
      assert (0 <= (dlen (sc (cur st)) - off (cur st)) / ty_size t) by (apply Z.div_pos; lia). lia. }
    destruct Hd as [[[a c] H]|[e H]]; rewrite H; cbn [snd]; [apply defined_ok|apply defined_err].
  - cbn [snd]. apply defined_ok.
  - cbn [snd]. apply defined_bind; [apply arr_get_defined; auto; lia|]. intros; apply defined_ok.
  - cbn [snd]. apply arr_read_item_defined; auto; lia.
  - cbn [snd]. apply defined_bind; [|intros; apply defined_ok].
    unfold arr_last. destruct (a_len (arr st) <? 1) eqn:E; [apply defined_ok|].
    apply arr_get_defined; auto; lia.
  - cbn [snd]. apply defined_bind; [|intros; apply defined_ok].
    apply iter_collect_defined; auto. destruct Ha; lia.
  - cbn [snd]. apply defined_bind; [|intros; apply defined_ok].
    unfold iter_size_hint. destruct Ha as [_ [Hsz _]]. replace (a_stride (arr st) =? 0) with false by lia.
    apply defined_ok.
  - cbn [snd]. apply defined_bind; [|intros; apply defined_ok].
    apply read_items_defined; auto; [lia|].
    destruct Ha as [Hl [Hsz Hd]]. unfold dlen, len in Hd. rewrite Z.sub_0_r. nia.
  - cbn [snd]. apply defined_bind; [|intros; apply defined_ok].
    unfold arr_binary_search. pose proof Ha as [Hl [Hsz Hd]].
    replace (a_len (arr st) <=? dlen (a_sc (arr st))) with true by nia.
    apply bsearch_defined; auto; lia.
Qed.

Theorem rrun_total m ops : forall st,
  rinv st -> Forall op_wf ops -> Forall (fun r => defined (fst r)) (rrun m st ops).
Proof.
  induction ops as [|o ops IH]; intros st Hinv Hwf; cbn [rrun]; [constructor|].
  inversion Hwf as [|? ? Ho Hops]; subst.
  destruct (rstep_inv m st o Hinv Ho) as [Hinv' _].
  pose proof (rstep_total m st o Hinv Ho) as Hd.
  destruct (rstep m st o) as [st' out] eqn:E. cbn [fst snd] in *.
  constructor; [exact Hd|]. apply IH; assumption.
Qed.
