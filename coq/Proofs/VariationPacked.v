(* Proofs/VariationPacked.v — packed point numbers and packed deltas (property C12, part b):
   specification encoders for every run encoding and read-after-write theorems for all inputs. *)
From AV Require Import Base.Prelude Base.Lemmas Gen.VariationConsts Model.Variation Proofs.EncodeProofs.
From Coq Require Import Lia ZArith.
Local Open Scope Z_scope.
Ltac Zify.zify_post_hook ::= Z.div_mod_to_equations.

(* ---------------------------------------------------------------------------------------- *)
(* bit tests of the control bytes, by exhaustive evaluation over the 7-bit / 6-bit count field
   (the masks come from the regenerated Gen/VariationConsts.v) *)

Lemma sweep (P : Z -> bool) (n : nat) :
  forallb P (range 0 n) = true -> forall k, 0 <= k < Z.of_nat n -> P k = true.
Proof.
  intros H k Hk. rewrite forallb_forall in H. apply H. apply range_In. lia.
Qed.

Lemma point_cb_bytes k : 0 <= k < 128 ->
  Z.land k POINT_RUN_COUNT_MASK = k /\ (Z.land k POINTS_ARE_WORDS =? POINTS_ARE_WORDS) = false.
Proof.
  intros H.
  pose (P := fun k : Z => (Z.land k POINT_RUN_COUNT_MASK =? k) && negb (Z.land k POINTS_ARE_WORDS =? POINTS_ARE_WORDS)).
  assert (E : P k = true).
  { apply (sweep P 128); [vm_compute; reflexivity|lia]. }
  subst P. cbv beta in E. apply andb_true_iff in E as [A B]. apply Z.eqb_eq in A. apply negb_true_iff in B. split; assumption.
Qed.

Lemma point_cb_words k : 0 <= k < 128 ->
  Z.land (128 + k) POINT_RUN_COUNT_MASK = k /\ (Z.land (128 + k) POINTS_ARE_WORDS =? POINTS_ARE_WORDS) = true.
Proof.
  intros H.
  pose (P := fun k : Z => (Z.land (128 + k) POINT_RUN_COUNT_MASK =? k) && (Z.land (128 + k) POINTS_ARE_WORDS =? POINTS_ARE_WORDS)).
  assert (E : P k = true).
  { apply (sweep P 128); [vm_compute; reflexivity|lia]. }
  subst P. cbv beta in E. apply andb_true_iff in E as [A B]. apply Z.eqb_eq in A. split; assumption.
Qed.

Lemma delta_cb_zero (w : bool) k : 0 <= k < 64 ->
  let cb := 128 + (if w then 64 else 0) + k in
  Z.land cb DELTA_RUN_COUNT_MASK = k /\ (Z.land cb DELTAS_ARE_ZERO =? DELTAS_ARE_ZERO) = true.
Proof.
  intros H cb. subst cb.
  pose (P := fun k : Z => (Z.land (128 + (if w then 64 else 0) + k) DELTA_RUN_COUNT_MASK =? k)
                        && (Z.land (128 + (if w then 64 else 0) + k) DELTAS_ARE_ZERO =? DELTAS_ARE_ZERO)).
  assert (E : P k = true).
  { apply (sweep P 64); [destruct w; vm_compute; reflexivity|lia]. }
  subst P. cbv beta in E. apply andb_true_iff in E as [A B]. apply Z.eqb_eq in A. split; assumption.
Qed.

Lemma delta_cb_bytes k : 0 <= k < 64 ->
  Z.land k DELTA_RUN_COUNT_MASK = k /\ (Z.land k DELTAS_ARE_ZERO =? DELTAS_ARE_ZERO) = false
  /\ (Z.land k DELTAS_ARE_WORDS =? DELTAS_ARE_WORDS) = false.
Proof.
  intros H.
  pose (P := fun k : Z => (Z.land k DELTA_RUN_COUNT_MASK =? k) && negb (Z.land k DELTAS_ARE_ZERO =? DELTAS_ARE_ZERO)
                        && negb (Z.land k DELTAS_ARE_WORDS =? DELTAS_ARE_WORDS)).
  assert (E : P k = true).
  { apply (sweep P 64); [vm_compute; reflexivity|lia]. }
  subst P. cbv beta in E. apply andb_true_iff in E as [E C]. apply andb_true_iff in E as [A B].
  apply Z.eqb_eq in A. apply negb_true_iff in B, C. repeat split; assumption.
Qed.

Lemma delta_cb_words k : 0 <= k < 64 ->
  Z.land (64 + k) DELTA_RUN_COUNT_MASK = k /\ (Z.land (64 + k) DELTAS_ARE_ZERO =? DELTAS_ARE_ZERO) = false
  /\ (Z.land (64 + k) DELTAS_ARE_WORDS =? DELTAS_ARE_WORDS) = true.
Proof.
  intros H.
  pose (P := fun k : Z => (Z.land (64 + k) DELTA_RUN_COUNT_MASK =? k) && negb (Z.land (64 + k) DELTAS_ARE_ZERO =? DELTAS_ARE_ZERO)
                        && (Z.land (64 + k) DELTAS_ARE_WORDS =? DELTAS_ARE_WORDS)).
  assert (E : P k = true).
  { apply (sweep P 64); [vm_compute; reflexivity|lia]. }
  subst P. cbv beta in E. apply andb_true_iff in E as [E C]. apply andb_true_iff in E as [A B].
  apply Z.eqb_eq in A. apply negb_true_iff in B. repeat split; assumption.
Qed.

(* ---------------------------------------------------------------------------------------- *)
(* words and signed values *)

Definition enc16 (v : Z) : list Z := [(v mod 65536) / 256; v mod 256].
Definition enc8 (v : Z) : list Z := [v mod 256].

Lemma words_enc16 : forall l rest_unused : list Z, words (flat_map enc16 l) = map (fun v => v mod 65536) l.
Proof.
  induction l as [|v l IH]; intros r; [reflexivity|].
  cbn [flat_map enc16 app words map]. rewrite (IH r). f_equal. lia.
Qed.

Lemma len_flat_enc16 l : len (flat_map enc16 l) = 2 * len l.
Proof.
  induction l as [|v l IH]; [reflexivity|].
  cbn [flat_map enc16 app]. rewrite !len_cons, IH. lia.
Qed.

Lemma len_flat_enc8 l : len (flat_map enc8 l) = len l.
Proof.
  induction l as [|v l IH]; [reflexivity|].
  cbn [flat_map enc8 app]. rewrite !len_cons, IH. lia.
Qed.

Lemma flat_enc8_map l : flat_map enc8 l = map (fun v => v mod 256) l.
Proof. induction l as [|v l IH]; [reflexivity|]. cbn [flat_map enc8 app map]. rewrite IH. reflexivity. Qed.

Lemma to_signed_mod bits v : 0 < bits -> - 2 ^ (bits - 1) <= v < 2 ^ (bits - 1) -> to_signed bits (v mod 2 ^ bits) = v.
Proof.
  intros Hb Hv. unfold to_signed.
  assert (E : 2 ^ bits = 2 * 2 ^ (bits - 1)).
  { replace bits with (1 + (bits - 1)) at 1 by lia. rewrite Z.pow_add_r by lia. reflexivity. }
  assert (P : 0 < 2 ^ (bits - 1)) by (apply Z.pow_pos_nonneg; lia).
  rewrite Z.mod_mod by lia.
  destruct (Z_lt_le_dec v 0) as [N | N].
  - assert (M : v mod 2 ^ bits = v + 2 ^ bits).
    { symmetry. apply Z.mod_unique with (q := -1); lia. }
    rewrite M. destruct (v + 2 ^ bits <? 2 ^ (bits - 1)) eqn:C; [apply Z.ltb_lt in C; lia|lia].
  - rewrite Z.mod_small by lia. destruct (v <? 2 ^ (bits - 1)) eqn:C; [reflexivity|apply Z.ltb_ge in C; lia].
Qed.

Lemma map_id_in {A} (f : A -> A) (l : list A) : Forall (fun x => f x = x) l -> map f l = l.
Proof. induction 1 as [|x l H _ IH]; [reflexivity|]. cbn [map]. rewrite H, IH. reflexivity. Qed.

Lemma take_bytes_app (a rest : list Z) : take_bytes (len a) (a ++ rest) = Ok (a, rest).
Proof.
  unfold take_bytes. rewrite len_app.
  assert (H : len a <=? len a + len rest = true) by (apply Z.leb_le; pose proof (len_nonneg rest); lia).
  rewrite H, take_app_exact, drop_app_exact. reflexivity.
Qed.

(* ---------------------------------------------------------------------------------------- *)
(* read_count *)

(* the two encodings of a count: one byte (1..127), or two bytes with the high bit set (0..32767) *)
Definition enc_count1 (n : Z) : list Z := [n].
Definition enc_count2 (n : Z) : list Z := [128 + n / 256; n mod 256].

Lemma read_count_1 n rest : 0 < n < 128 -> read_count (enc_count1 n ++ rest) = Ok (n, rest).
Proof.
  intros H. unfold read_count, enc_count1. cbn [app read_u8 bind].
  destruct (n =? 0) eqn:E0; [apply Z.eqb_eq in E0; lia|].
  destruct (n <? 128) eqn:E1; [reflexivity|apply Z.ltb_ge in E1; lia].
Qed.

Lemma read_count_zero rest : read_count (0 :: rest) = Ok (0, rest).
Proof. reflexivity. Qed.

Lemma land_127 a : 0 <= a -> Z.land a 127 = a mod 128.
Proof. intros H. change 127 with (Z.ones 7). rewrite Z.land_ones by lia. reflexivity. Qed.

Lemma read_count_2 n rest : 0 <= n < 32768 -> read_count (enc_count2 n ++ rest) = Ok (n, rest).
Proof.
  intros H. unfold read_count, enc_count2. cbn [app read_u8 bind].
  destruct (128 + n / 256 =? 0) eqn:E0; [apply Z.eqb_eq in E0; lia|].
  destruct (128 + n / 256 <? 128) eqn:E1; [apply Z.ltb_lt in E1; lia|].
  rewrite land_127 by lia.
  replace ((128 + n / 256) mod 128) with (n / 256) by lia.
  rewrite Z.shiftl_mul_pow2 by lia. change (2 ^ 8) with 256.
  rewrite lor_disjoint_add with (n := 8); [f_equal; f_equal; lia|lia|change (2 ^ 8) with 256; lia|change (2 ^ 8) with 256; lia].
Qed.

(* ---------------------------------------------------------------------------------------- *)
(* packed point numbers *)

Inductive prun := RBytes (diffs : list Z) | RWords (diffs : list Z).
Definition prun_diffs (r : prun) : list Z := match r with RBytes d => d | RWords d => d end.
Definition prun_ok (r : prun) : Prop :=
  match r with
  | RBytes d => 1 <= len d <= 128 /\ Forall (fun v => 0 <= v < 256) d
  | RWords d => 1 <= len d <= 128 /\ Forall (fun v => 0 <= v < 65536) d
  end.
Definition enc_prun (r : prun) : list Z :=
  match r with
  | RBytes d => (len d - 1) :: d
  | RWords d => (128 + (len d - 1)) :: flat_map enc16 d
  end.

Definition all_diffs (runs : list prun) : list Z := concat (map prun_diffs runs).

(* point numbers = running sums of the differences *)
Fixpoint psums (prev : Z) (diffs : list Z) : list Z :=
  match diffs with [] => [] | d :: r => (prev + d) :: psums (prev + d) r end.
Definition zsum (l : list Z) : Z := fold_right Z.add 0 l.

Lemma psums_app prev a b : psums prev (a ++ b) = psums prev a ++ psums (prev + zsum a) b.
Proof.
  revert prev. induction a as [|x a IH]; intros prev; cbn [app psums zsum fold_right].
  - rewrite Z.add_0_r. reflexivity.
  - rewrite IH. f_equal. f_equal. f_equal. unfold zsum. lia.
Qed.

Lemma zsum_app a b : zsum (a ++ b) = zsum a + zsum b.
Proof. unfold zsum. induction a as [|x a IH]; cbn [app fold_right]; lia. Qed.

Lemma zsum_nonneg l : Forall (fun v => 0 <= v) l -> 0 <= zsum l.
Proof. unfold zsum. induction 1 as [|x l H _ IH]; cbn [fold_right]; lia. Qed.

Lemma accum_points_ok : forall ds prev,
  Forall (fun v => 0 <= v) ds -> prev + zsum ds < 65536 ->
  accum_points prev ds = Ok (psums prev ds, prev + zsum ds).
Proof.
  induction ds as [|d ds IH]; intros prev Hp Hs; cbn [accum_points psums zsum fold_right].
  - rewrite Z.add_0_r. reflexivity.
  - inversion Hp as [|? ? Hd Hr]; subst. pose proof (zsum_nonneg ds Hr) as Hn.
    cbn [zsum fold_right] in Hs. fold (zsum ds) in Hs.
    destruct (prev + d <? 65536) eqn:E; [|apply Z.ltb_ge in E; lia].
    rewrite IH by (try assumption; lia). cbn [bind]. f_equal. f_equal. unfold zsum. lia.
Qed.

(* a running sum beyond u16 is rejected (the fixed behaviour: BadValue, never a wrapped number) *)
Lemma accum_points_overflow : forall ds prev,
  Forall (fun v => 0 <= v) ds -> 0 <= prev < 65536 -> 65536 <= prev + zsum ds ->
  accum_points prev ds = Err BadValue.
Proof.
  induction ds as [|d ds IH]; intros prev Hp H0 Hs; cbn [accum_points zsum fold_right] in *.
  - lia.
  - inversion Hp as [|? ? Hd Hr]; subst. fold (zsum ds) in Hs.
    destruct (prev + d <? 65536) eqn:E; [|reflexivity]. apply Z.ltb_lt in E.
    rewrite IH; [reflexivity|assumption|lia|lia].
Qed.

Definition nonneg_diffs (l : list Z) : Prop := Forall (fun v => 0 <= v) l.

Lemma prun_ok_nonneg r : prun_ok r -> nonneg_diffs (prun_diffs r).
Proof.
  destruct r as [d|d]; intros [_ H]; cbn [prun_diffs]; unfold nonneg_diffs;
    eapply Forall_impl; [|exact H| |exact H]; cbv beta; intros; lia.
Qed.

Lemma all_diffs_nonneg runs : Forall prun_ok runs -> nonneg_diffs (all_diffs runs).
Proof.
  unfold all_diffs, nonneg_diffs. induction 1 as [|r runs H _ IH]; cbn [map concat]; [constructor|].
  apply Forall_app. split; [apply prun_ok_nonneg; exact H|exact IH].
Qed.

Lemma len_all_diffs_cons r runs : len (all_diffs (r :: runs)) = len (prun_diffs r) + len (all_diffs runs).
Proof. unfold all_diffs. cbn [map concat]. apply len_app. Qed.

(* one run *)
Lemma read_one_prun r rest :
  prun_ok r ->
  exists cb, enc_prun r ++ rest = cb :: (match r with RBytes d => d | RWords d => flat_map enc16 d end) ++ rest
  /\ Z.land cb POINT_RUN_COUNT_MASK + 1 = len (prun_diffs r)
  /\ (if Z.land cb POINTS_ARE_WORDS =? POINTS_ARE_WORDS
      then read_u16s (len (prun_diffs r)) ((match r with RBytes d => d | RWords d => flat_map enc16 d end) ++ rest)
      else read_u8s (len (prun_diffs r)) ((match r with RBytes d => d | RWords d => flat_map enc16 d end) ++ rest))
     = Ok (prun_diffs r, rest).
Proof.
  destruct r as [d|d]; intros [Hl Hv]; cbn [enc_prun prun_diffs app].
  - exists (len d - 1). destruct (point_cb_bytes (len d - 1)) as [A B]; [lia|].
    rewrite A, B. split; [reflexivity|]. split; [lia|].
    unfold read_u8s. apply take_bytes_app.
  - exists (128 + (len d - 1)). destruct (point_cb_words (len d - 1)) as [A B]; [lia|].
    rewrite A, B. split; [reflexivity|]. split; [lia|].
    unfold read_u16s. rewrite <- len_flat_enc16, take_bytes_app. cbn [bind].
    rewrite (words_enc16 d []). f_equal. f_equal. apply map_id_in.
    eapply Forall_impl; [|exact Hv]. cbv beta. intros v Hvv. apply Z.mod_small. exact Hvv.
Qed.

Lemma enc_prun_nonempty r : (1 <= length (enc_prun r))%nat.
Proof. destruct r; cbn [enc_prun length]; lia. Qed.

Lemma length_concat_ge {A} (f : A -> list Z) (l : list A) :
  (forall x, (1 <= length (f x))%nat) -> (length l <= length (concat (map f l)))%nat.
Proof.
  intros H. induction l as [|x l IH]; cbn [map concat length]; [lia|].
  rewrite app_length. specialize (H x). lia.
Qed.

Lemma read_point_runs_enc : forall runs fuel count nread prev acc rest,
  Forall prun_ok runs ->
  prev + zsum (all_diffs runs) < 65536 ->
  count = nread + len (all_diffs runs) ->
  (length runs <= fuel)%nat ->
  read_point_runs fuel count nread prev acc (concat (map enc_prun runs) ++ rest)
  = Ok (acc ++ psums prev (all_diffs runs), rest).
Proof.
  induction runs as [|r runs IH]; intros fuel count nread prev acc rest Hok Hsum Hcount Hfuel.
  - cbn [map concat app]. unfold all_diffs in *. cbn [map concat psums] in *. rewrite app_nil_r.
    change (len (@nil Z)) with 0 in Hcount.
    destruct fuel; cbn [read_point_runs];
      (destruct (nread <? count) eqn:E; [apply Z.ltb_lt in E; lia|reflexivity]).
  - inversion Hok as [|r1 l1 Hr Hrs]; subst r1 l1.
    pose proof (prun_ok_nonneg r Hr) as Nr. pose proof (all_diffs_nonneg runs Hrs) as Nrs.
    assert (Lr : 1 <= len (prun_diffs r)) by (destruct r; destruct Hr as [? _]; cbn [prun_diffs]; lia).
    rewrite len_all_diffs_cons in Hcount.
    assert (Hsplit : all_diffs (r :: runs) = prun_diffs r ++ all_diffs runs) by reflexivity.
    rewrite Hsplit in Hsum. rewrite zsum_app in Hsum.
    pose proof (zsum_nonneg _ Nr) as Zr. pose proof (zsum_nonneg _ Nrs) as Zrs.
    pose proof (len_nonneg (all_diffs runs)) as Ln.
    destruct fuel as [|fuel]; [cbn [length] in Hfuel; lia|].
    cbn [read_point_runs].
    destruct (nread <? count) eqn:E; [|apply Z.ltb_ge in E; lia].
    cbn [map concat]. rewrite <- app_assoc.
    destruct (read_one_prun r (concat (map enc_prun runs) ++ rest) Hr) as (cb & Eenc & Erun & Eread).
    rewrite Eenc. cbn [read_u8 bind]. rewrite Erun, Eread. cbn [bind].
    rewrite (accum_points_ok (prun_diffs r) prev Nr) by lia. cbn [bind].
    rewrite IH; [|exact Hrs|lia|lia|cbn [length] in Hfuel; lia].
    rewrite Hsplit, psums_app, app_assoc. reflexivity.
Qed.

(* read-after-write of packed point numbers, for every well-formed sequence of runs and both
   encodings of the count *)
Lemma packed_points_roundtrip runs cnt rest np :
  Forall prun_ok runs ->
  let ds := all_diffs runs in
  0 < len ds < 32768 -> zsum ds < 65536 ->
  (cnt = enc_count2 (len ds) \/ (len ds < 128 /\ cnt = enc_count1 (len ds))) ->
  read_packed_point_numbers (cnt ++ concat (map enc_prun runs) ++ rest) np
  = Ok (PSpecific (psums 0 ds), rest).
Proof.
  intros Hok ds Hl Hs Hc. unfold read_packed_point_numbers.
  assert (RC : read_count (cnt ++ concat (map enc_prun runs) ++ rest) = Ok (len ds, concat (map enc_prun runs) ++ rest)).
  { destruct Hc as [-> | [Hl2 ->]]; [apply read_count_2; lia|apply read_count_1; lia]. }
  rewrite RC. cbn [bind].
  destruct (len ds =? 0) eqn:E0; [apply Z.eqb_eq in E0; lia|].
  rewrite read_point_runs_enc; [reflexivity|exact Hok|fold ds; lia|fold ds; lia|].
  rewrite app_length. pose proof (length_concat_ge enc_prun runs enc_prun_nonempty). lia.
Qed.

(* the special count 0 (either encoding): deltas for all points, phantom points included *)
Lemma packed_points_all rest np :
  read_packed_point_numbers (0 :: rest) np = Ok (PAll np, rest)
  /\ read_packed_point_numbers (enc_count2 0 ++ rest) np = Ok (PAll np, rest).
Proof. split; reflexivity. Qed.

(* a sequence of runs whose running sum leaves the u16 range is rejected *)
Lemma packed_points_overflow_rejected r rest np :
  prun_ok r -> 65536 <= zsum (prun_diffs r) -> len (prun_diffs r) < 128 ->
  read_packed_point_numbers (enc_count1 (len (prun_diffs r)) ++ enc_prun r ++ rest) np = Err BadValue.
Proof.
  intros Hr Hs Hl. unfold read_packed_point_numbers.
  assert (Lr : 1 <= len (prun_diffs r)) by (destruct r; destruct Hr as [? _]; cbn [prun_diffs]; lia).
  rewrite read_count_1 by lia. cbn [bind].
  destruct (len (prun_diffs r) =? 0) eqn:E0; [apply Z.eqb_eq in E0; lia|].
  cbn [read_point_runs].
  destruct (0 <? len (prun_diffs r)) eqn:E; [|apply Z.ltb_ge in E; lia].
  destruct (read_one_prun r rest Hr) as (cb & Eenc & Erun & Eread).
  rewrite Eenc. cbn [read_u8 bind]. rewrite Erun, Eread. cbn [bind].
  rewrite accum_points_overflow; [reflexivity|apply prun_ok_nonneg; exact Hr|lia|lia].
Qed.

(* every list of point numbers has an encoding: the differences of a non-decreasing list, cut into
   word runs of at most 128 *)
Fixpoint diffs_of (prev : Z) (pts : list Z) : list Z :=
  match pts with [] => [] | p :: r => (p - prev) :: diffs_of p r end.

Lemma psums_diffs_of : forall pts prev, psums prev (diffs_of prev pts) = pts.
Proof.
  induction pts as [|p r IH]; intros prev; cbn [diffs_of psums]; [reflexivity|].
  replace (prev + (p - prev)) with p by lia. rewrite IH. reflexivity.
Qed.

Lemma in_firstn' {A} (x : A) : forall n l, In x (firstn n l) -> In x l.
Proof.
  induction n as [|n IH]; intros l H; [destruct H|].
  destruct l as [|y l]; [destruct H|]. cbn [firstn] in H. destruct H as [->|H]; [left; reflexivity|right; apply IH; exact H].
Qed.
Lemma in_skipn' {A} (x : A) : forall n l, In x (skipn n l) -> In x l.
Proof.
  induction n as [|n IH]; intros l H; [exact H|].
  destruct l as [|y l]; [destruct H|]. cbn [skipn] in H. right. apply IH. exact H.
Qed.

Fixpoint chunk_runs (fuel : nat) (l : list Z) : list prun :=
  match fuel with
  | O => []
  | S f => match l with
           | [] => []
           | _ => RWords (firstn 128 l) :: chunk_runs f (skipn 128 l)
           end
  end.

Lemma chunk_runs_diffs : forall fuel l, (length l <= fuel)%nat -> all_diffs (chunk_runs fuel l) = l.
Proof.
  induction fuel as [|f IH]; intros l H.
  - destruct l; [reflexivity|cbn [length] in H; lia].
  - destruct l as [|x l]; [reflexivity|].
    cbn [chunk_runs]. unfold all_diffs in *. cbn [map concat prun_diffs].
    rewrite IH; [apply firstn_skipn|].
    rewrite skipn_length. cbn [length] in *. lia.
Qed.

Lemma chunk_runs_ok : forall fuel l, Forall (fun v => 0 <= v < 65536) l -> Forall prun_ok (chunk_runs fuel l).
Proof.
  induction fuel as [|f IH]; intros l H; [constructor|].
  destruct l as [|x l]; [constructor|].
  cbn [chunk_runs]. constructor.
  - cbn [prun_ok]. split.
    + unfold len. rewrite firstn_length. cbn [length]. lia.
    + apply Forall_forall. intros v Hv. rewrite Forall_forall in H. apply H.
      eapply in_firstn'; exact Hv.
  - apply IH. apply Forall_forall. intros v Hv. rewrite Forall_forall in H. apply H.
    eapply in_skipn'; exact Hv.
Qed.

Definition encode_points (pts : list Z) : list Z :=
  let ds := diffs_of 0 pts in
  enc_count2 (len pts) ++ concat (map enc_prun (chunk_runs (length ds) ds)).

Fixpoint nondecreasing (prev : Z) (pts : list Z) : Prop :=
  match pts with [] => True | p :: r => prev <= p /\ nondecreasing p r end.

Lemma diffs_of_range : forall pts prev,
  0 <= prev -> nondecreasing prev pts -> Forall (fun p => p < 65536) pts ->
  Forall (fun v => 0 <= v < 65536) (diffs_of prev pts).
Proof.
  induction pts as [|p r IH]; intros prev H0 Hn Hb; cbn [diffs_of]; [constructor|].
  destruct Hn as [Hp Hn]. inversion Hb; subst. constructor; [lia|]. apply IH; [lia|assumption|assumption].
Qed.

Lemma diffs_of_length : forall pts prev, length (diffs_of prev pts) = length pts.
Proof. induction pts as [|p r IH]; intros prev; cbn [diffs_of length]; [reflexivity|]. rewrite IH. reflexivity. Qed.

Lemma last_nonempty_default {A} : forall (l : list A) x d d', last (x :: l) d = last (x :: l) d'.
Proof.
  induction l as [|y l IH]; intros x d d'; [reflexivity|].
  change (last (x :: y :: l) d) with (last (y :: l) d). change (last (x :: y :: l) d') with (last (y :: l) d'). apply IH.
Qed.

Lemma zsum_diffs_of : forall pts prev, zsum (diffs_of prev pts) = last pts prev - prev.
Proof.
  induction pts as [|p r IH]; intros prev; cbn [diffs_of zsum fold_right]; [cbn [last]; lia|].
  fold (zsum (diffs_of p r)). rewrite IH. destruct r as [|q r]; [cbn [last]; lia|].
  change (last (p :: q :: r) prev) with (last (q :: r) prev). rewrite (last_nonempty_default r q prev p). lia.
Qed.

Lemma last_bound : forall (pts : list Z) d, d < 65536 -> Forall (fun p => p < 65536) pts -> last pts d < 65536.
Proof.
  induction pts as [|p r IH]; intros d Hd H; cbn [last]; [exact Hd|].
  inversion H; subst. destruct r; [assumption|]. apply IH; assumption.
Qed.

Lemma encode_points_roundtrip pts rest np :
  0 < len pts < 32768 -> nondecreasing 0 pts -> Forall (fun p => p < 65536) pts ->
  read_packed_point_numbers (encode_points pts ++ rest) np = Ok (PSpecific pts, rest).
Proof.
  intros Hl Hn Hb. unfold encode_points. rewrite <- app_assoc.
  set (ds := diffs_of 0 pts).
  assert (Hd : all_diffs (chunk_runs (length ds) ds) = ds) by (apply chunk_runs_diffs; lia).
  assert (Hlen : len ds = len pts) by (unfold len, ds; rewrite diffs_of_length; reflexivity).
  pose proof (packed_points_roundtrip (chunk_runs (length ds) ds) (enc_count2 (len pts)) rest np) as RT.
  cbv zeta in RT. rewrite Hd in RT. rewrite Hlen in RT.
  rewrite RT.
  - unfold ds. rewrite psums_diffs_of. reflexivity.
  - apply chunk_runs_ok. apply diffs_of_range; [lia|assumption|assumption].
  - exact Hl.
  - unfold ds. rewrite zsum_diffs_of. pose proof (last_bound pts 0 ltac:(lia) Hb). lia.
  - left. reflexivity.
Qed.

(* ---------------------------------------------------------------------------------------- *)
(* packed deltas *)

Inductive drun :=
| DZero (w : bool) (n : Z)     (* no data; `w` = the ignored DELTAS_ARE_WORDS bit *)
| DBytes (l : list Z)
| DWords (l : list Z).

Definition drun_vals (r : drun) : list Z :=
  match r with DZero _ n => repeat 0 (Z.to_nat n) | DBytes l => l | DWords l => l end.
Definition drun_ok (r : drun) : Prop :=
  match r with
  | DZero _ n => 1 <= n <= 64
  | DBytes l => 1 <= len l <= 64 /\ Forall (fun v => -128 <= v < 128) l
  | DWords l => 1 <= len l <= 64 /\ Forall (fun v => -32768 <= v < 32768) l
  end.
Definition enc_drun (r : drun) : list Z :=
  match r with
  | DZero w n => [128 + (if w then 64 else 0) + (n - 1)]
  | DBytes l => (len l - 1) :: flat_map enc8 l
  | DWords l => (64 + (len l - 1)) :: flat_map enc16 l
  end.

Definition all_vals (runs : list drun) : list Z := concat (map drun_vals runs).

Lemma len_drun_vals r : drun_ok r -> 1 <= len (drun_vals r) <= 64.
Proof.
  destruct r as [w n|l|l]; cbn [drun_ok drun_vals].
  - intros H. unfold len. rewrite repeat_length. lia.
  - intros [H _]. exact H.
  - intros [H _]. exact H.
Qed.

(* the loop condition: a run is read while fewer than `num` deltas have been produced *)
Fixpoint runs_cover (num nread : Z) (runs : list drun) : Prop :=
  match runs with
  | [] => num <= nread
  | r :: rs => nread < num /\ runs_cover num (nread + len (drun_vals r)) rs
  end.

Lemma enc_drun_nonempty r : (1 <= length (enc_drun r))%nat.
Proof. destruct r; cbn [enc_drun length]; lia. Qed.

Lemma read_delta_runs_enc : forall runs fuel num nread acc rest,
  Forall drun_ok runs -> runs_cover num nread runs -> (length runs <= fuel)%nat ->
  read_delta_runs fuel num nread acc (concat (map enc_drun runs) ++ rest) = Ok (acc ++ all_vals runs, rest).
Proof.
  induction runs as [|r runs IH]; intros fuel num nread acc rest Hok Hcov Hfuel.
  - cbn [runs_cover] in Hcov. cbn [map concat app]. unfold all_vals. cbn [map concat]. rewrite app_nil_r.
    destruct fuel; cbn [read_delta_runs];
      (destruct (nread <? num) eqn:E; [apply Z.ltb_lt in E; lia|reflexivity]).
  - inversion Hok as [|r1 l1 Hr Hrs]; subst r1 l1. destruct Hcov as [Hlt Hcov].
    destruct fuel as [|fuel]; [cbn [length] in Hfuel; lia|].
    cbn [read_delta_runs]. destruct (nread <? num) eqn:E; [|apply Z.ltb_ge in E; lia].
    cbn [map concat]. rewrite <- app_assoc.
    assert (Hsplit : all_vals (r :: runs) = drun_vals r ++ all_vals runs) by reflexivity.
    rewrite Hsplit, (app_assoc acc (drun_vals r) (all_vals runs)).
    cbn [length] in Hfuel.
    destruct r as [w n|l|l]; cbn [enc_drun drun_vals drun_ok] in *.
    + cbn [app read_u8 bind]. destruct (delta_cb_zero w (n - 1)) as [A B]; [lia|]. cbv zeta in A, B.
      rewrite A, B. replace (n - 1 + 1) with n by lia.
      assert (Ln : len (repeat 0 (Z.to_nat n)) = n) by (unfold len; rewrite repeat_length; lia).
      rewrite Ln in Hcov. apply IH; [exact Hrs|exact Hcov|lia].
    + destruct Hr as [Hl Hv]. cbn [app read_u8 bind].
      destruct (delta_cb_bytes (len l - 1)) as (A & B & C); [lia|]. rewrite A, B, C.
      replace (len l - 1 + 1) with (len l) by lia.
      unfold read_i8s. rewrite <- (len_flat_enc8 l) at 1. rewrite take_bytes_app. cbn [bind].
      rewrite flat_enc8_map, map_map.
      rewrite (map_id_in (fun x => to_signed 8 (x mod 256)) l).
      * apply IH; [exact Hrs|exact Hcov|lia].
      * eapply Forall_impl; [|exact Hv]. cbv beta. intros v Hvv.
        change 256 with (2 ^ 8). apply to_signed_mod; [lia|change (2 ^ (8 - 1)) with 128; lia].
    + destruct Hr as [Hl Hv]. cbn [app read_u8 bind].
      destruct (delta_cb_words (len l - 1)) as (A & B & C); [lia|]. rewrite A, B, C.
      replace (len l - 1 + 1) with (len l) by lia.
      unfold read_i16s. rewrite <- (len_flat_enc16 l). rewrite take_bytes_app. cbn [bind].
      rewrite (words_enc16 l []), map_map.
      rewrite (map_id_in (fun x => to_signed 16 (x mod 65536)) l).
      * apply IH; [exact Hrs|exact Hcov|lia].
      * eapply Forall_impl; [|exact Hv]. cbv beta. intros v Hvv.
        change 65536 with (2 ^ 16). apply to_signed_mod; [lia|change (2 ^ (16 - 1)) with 32768; lia].
Qed.

Lemma runs_cover_exact : forall runs nread,
  Forall drun_ok runs -> runs_cover (nread + len (all_vals runs)) nread runs.
Proof.
  induction runs as [|r runs IH]; intros nread Hok.
  - cbn [runs_cover]. unfold all_vals. cbn [map concat]. change (len (@nil Z)) with 0. lia.
  - inversion Hok as [|? ? Hr Hrs]; subst. cbn [runs_cover].
    assert (Hsplit : all_vals (r :: runs) = drun_vals r ++ all_vals runs) by reflexivity.
    rewrite Hsplit, len_app. pose proof (len_drun_vals r Hr). pose proof (len_nonneg (all_vals runs)).
    split; [lia|]. replace (nread + (len (drun_vals r) + len (all_vals runs))) with (nread + len (drun_vals r) + len (all_vals runs)) by lia.
    apply IH. exact Hrs.
Qed.

(* read-after-write of packed deltas for every well-formed sequence of runs: zero runs (with
   either value of the ignored bit), byte runs and word runs, any run lengths 1..64 *)
Lemma packed_deltas_roundtrip runs rest :
  Forall drun_ok runs ->
  read_packed_deltas (concat (map enc_drun runs) ++ rest) (len (all_vals runs)) = Ok (all_vals runs, rest).
Proof.
  intros Hok. unfold read_packed_deltas.
  rewrite (read_delta_runs_enc runs _ (len (all_vals runs)) 0 [] rest Hok).
  - reflexivity.
  - exact (runs_cover_exact runs 0 Hok).
  - rewrite app_length. pose proof (length_concat_ge enc_drun runs enc_drun_nonempty). lia.
Qed.

(* the reader stops after the run that reaches the requested number: asking for fewer deltas than
   the runs hold returns all the deltas of the runs that were started (the caller truncates) *)
Lemma packed_deltas_overshoot runs rest num :
  Forall drun_ok runs -> runs_cover num 0 runs ->
  read_packed_deltas (concat (map enc_drun runs) ++ rest) num = Ok (all_vals runs, rest).
Proof.
  intros Hok Hc. unfold read_packed_deltas.
  rewrite (read_delta_runs_enc runs _ num 0 [] rest Hok Hc); [reflexivity|].
  rewrite app_length. pose proof (length_concat_ge enc_drun runs enc_drun_nonempty). lia.
Qed.

(* every list of i16 deltas has an encoding (word runs of at most 64) *)
Fixpoint chunk_druns (fuel : nat) (l : list Z) : list drun :=
  match fuel with
  | O => []
  | S f => match l with
           | [] => []
           | _ => DWords (firstn 64 l) :: chunk_druns f (skipn 64 l)
           end
  end.

Lemma chunk_druns_vals : forall fuel l, (length l <= fuel)%nat -> all_vals (chunk_druns fuel l) = l.
Proof.
  induction fuel as [|f IH]; intros l H.
  - destruct l; [reflexivity|cbn [length] in H; lia].
  - destruct l as [|x l]; [reflexivity|].
    cbn [chunk_druns]. unfold all_vals in *. cbn [map concat drun_vals].
    rewrite IH; [apply firstn_skipn|]. rewrite skipn_length. cbn [length] in *. lia.
Qed.

Lemma chunk_druns_ok : forall fuel l, Forall (fun v => -32768 <= v < 32768) l -> Forall drun_ok (chunk_druns fuel l).
Proof.
  induction fuel as [|f IH]; intros l H; [constructor|].
  destruct l as [|x l]; [constructor|].
  cbn [chunk_druns]. constructor.
  - cbn [drun_ok]. split.
    + unfold len. rewrite firstn_length. cbn [length]. lia.
    + apply Forall_forall. intros v Hv. rewrite Forall_forall in H. apply H. eapply in_firstn'; exact Hv.
  - apply IH. apply Forall_forall. intros v Hv. rewrite Forall_forall in H. apply H. eapply in_skipn'; exact Hv.
Qed.

Definition encode_deltas (l : list Z) : list Z := concat (map enc_drun (chunk_druns (length l) l)).

Lemma encode_deltas_roundtrip l rest :
  Forall (fun v => -32768 <= v < 32768) l ->
  read_packed_deltas (encode_deltas l ++ rest) (len l) = Ok (l, rest).
Proof.
  intros H. unfold encode_deltas.
  pose proof (packed_deltas_roundtrip (chunk_druns (length l) l) rest (chunk_druns_ok _ l H)) as RT.
  rewrite chunk_druns_vals in RT by lia. exact RT.
Qed.
