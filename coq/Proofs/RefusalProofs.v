(* Proofs/RefusalProofs.v — "too wide is refused, never truncated": every width guard of the modelled
   writers (U24Be, u16::try_from on counts / lengths / offsets, Pascal strings, glyf coordinate
   deltas).  For each writer: Ok implies every value fitted its field. *)
From AV Require Import Base.Prelude Base.Lemmas Gen.ReaderPrims Model.Reader Model.ReaderExt
  Proofs.ReaderProofs Proofs.EncodeProofs Model.TableLayout Proofs.TableLayoutProofs Proofs.RecordProofs
  Gen.TableLayouts Model.Tables.
From Coq Require Import ZifyBool ZifyNat.
Ltac Zify.zify_post_hook ::= Z.div_mod_to_equations.
Open Scope Z_scope.

(* ---------- U24Be::write *)
Theorem u24_refusal v : 0 <= v ->
  match write_u24 v with
  | Ok b => v <= 16777215 /\ len b = 3 /\ be_val b = v
  | Err e => e = BadValue /\ 16777215 < v
  | _ => False
  end.
Proof.
  intros Hv. unfold write_u24. change u24_max with 16777215.
  destruct (v >? 16777215) eqn:E; [split; [reflexivity|lia]|].
  split; [lia|]. split; [apply len_be_bytes|]. apply be_val_be_bytes. cbn. lia.
Qed.

(* ---------- PascalString::write *)
Theorem pascal_refusal s :
  match pascal_write s with
  | Ok b => len s <= 255 /\ b = len s :: s
  | Err e => e = BadValue /\ 255 < len s
  | _ => False
  end.
Proof.
  unfold pascal_write. change pascal_string_max with 255.
  destruct (len s <=? 255) eqn:E; [split; [lia|reflexivity]|split; [reflexivity|lia]].
Qed.

(* ---------- owned name table *)
Lemma try_u16_ok v r : try_u16 v = Ok r -> r = v /\ 0 <= v <= 65535.
Proof. unfold try_u16. destruct ((0 <=? v) && (v <=? 65535)) eqn:E; [|discriminate]. intros H; injection H as <-. lia. Qed.

Lemma owned_records_fixed_ok recs : forall off b off',
  owned_records_fixed recs off = Ok (b, off') ->
  Forall (fun r => len (snd r) <= 65535) recs /\ off' = off + len (concat (map snd recs)).
Proof.
  induction recs as [|[ids s] r IH]; intros off b off' H.
  - cbn in H. injection H as <- <-. split; [constructor|]. cbn. unfold len; cbn. lia.
  - cbn [owned_records_fixed] in H. destruct (try_u16 (len s)) as [l| | |] eqn:El; try discriminate.
    cbn [bind] in H. destruct (owned_records_fixed r (off + len s)) as [[bs o2]| | |] eqn:Er; try discriminate.
    cbn [bind] in H. injection H as <- <-. destruct (IH _ _ _ Er) as [Hf ->].
    destruct (try_u16_ok _ _ El) as [_ Hl]. split; [constructor; [cbn; lia|exact Hf]|].
    cbn [map concat snd]. rewrite len_app. lia.
Qed.

Lemma owned_langtags_fixed_ok lts : forall off b off',
  owned_langtags_fixed lts off = Ok (b, off') -> Forall (fun s => len s <= 65535) lts.
Proof.
  induction lts as [|s r IH]; intros off b off' H; [constructor|].
  cbn [owned_langtags_fixed] in H. destruct (try_u16 (len s)) as [l| | |] eqn:El; try discriminate.
  cbn [bind] in H. destruct (owned_langtags_fixed r (off + len s)) as [[bs o2]| | |] eqn:Er; try discriminate.
  destruct (try_u16_ok _ _ El) as [_ Hl]. constructor; [lia|]. eapply IH; exact Er.
Qed.

(* where each string starts in the storage area *)
Fixpoint string_offsets (strs : list (list Z)) (off : Z) : list Z :=
  match strs with [] => [] | s :: r => off :: string_offsets r (off + len s) end.
Lemma offsets_fit_spec strs : forall off, offsets_fit strs off = true <-> Forall (fun o => o <= 65535) (string_offsets strs off).
Proof.
  induction strs as [|s r IH]; intros off; cbn [offsets_fit string_offsets]; [split; [constructor|reflexivity]|].
  rewrite andb_true_iff, IH. split.
  - intros [H1 H2]. constructor; [lia|exact H2].
  - intros H. inversion H; subst. split; [lia|assumption].
Qed.

(* Theorem: whenever owned::NameTable::write returns Ok, the record count, every string length,
   every string offset and the offset of the string storage fitted 16 bits.  (Strings past 64K of
   storage make it fail; nothing is written truncated.) *)
Theorem name_owned_refusal written recs lts b :
  name_owned_write written recs lts = Ok b ->
  len recs <= 65535 /\ len lts <= 65535 /\
  Forall (fun r => len (snd r) <= 65535) recs /\ Forall (fun s => len s <= 65535) lts /\
  Forall (fun o => o <= 65535) (string_offsets (map snd recs ++ lts) 0).
Proof.
  unfold name_owned_write. intros H.
  destruct (try_u16 (len recs)) as [cnt| | |] eqn:Ec; try discriminate. cbn [bind] in H.
  destruct (owned_records_fixed recs 0) as [[rb off1]| | |] eqn:Er; try discriminate. cbn [bind] in H.
  destruct (match lts with [] => Ok [] | _ :: _ => c <- try_u16 (len lts);; Ok (write_prim PU16 c) end) as [lc| | |] eqn:El; try discriminate.
  cbn [bind] in H.
  destruct (owned_langtags_fixed lts off1) as [[lb o3]| | |] eqn:Elt; try discriminate. cbn [bind] in H.
  destruct (try_u16 (written + 6 + len rb + len lc + len lb)) as [ss| | |] eqn:Es; try discriminate. cbn [bind] in H.
  destruct (offsets_fit (map snd recs ++ lts) 0) eqn:Eo; [|discriminate].
  destruct (try_u16_ok _ _ Ec) as [_ Hc]. destruct (owned_records_fixed_ok _ _ _ _ Er) as [Hf _].
  split; [lia|]. split.
  - destruct lts as [|s r]; [unfold len; cbn; lia|].
    destruct (try_u16 (len (s :: r))) as [c| | |] eqn:E2; try discriminate. destruct (try_u16_ok _ _ E2). lia.
  - split; [exact Hf|]. split; [eapply owned_langtags_fixed_ok; exact Elt|]. apply offsets_fit_spec. exact Eo.
Qed.

(* ---------- glyf coordinate deltas (SimpleGlyph::write after the fix) *)
Fixpoint deltas (prev : Z) (xs : list Z) : list Z :=
  match xs with [] => [] | x :: r => (x - prev) :: deltas x r end.
Fixpoint undeltas (prev : Z) (ds : list Z) : list Z :=
  match ds with [] => [] | d :: r => (prev + d) :: undeltas (prev + d) r end.

Lemma undeltas_deltas xs : forall prev, undeltas prev (deltas prev xs) = xs.
Proof. induction xs as [|x r IH]; intros prev; [reflexivity|]. cbn. replace (prev + (x - prev)) with x by lia. rewrite IH. reflexivity. Qed.

(* Theorem: the delta writer returns Ok exactly when every delta is an i16, and then the bytes are
   the i16 big-endian deltas: a reader that accumulates them gets the coordinates back. *)
Theorem write_deltas_spec xs : forall prev,
  match write_deltas prev xs with
  | Ok b => Forall (fun d => -32768 <= d <= 32767) (deltas prev xs) /\
            b = enc_recs [PI16] (map (fun d => [d]) (deltas prev xs))
  | Err e => e = BadValue /\ Exists (fun d => d < -32768 \/ 32767 < d) (deltas prev xs)
  | _ => False
  end.
Proof.
  induction xs as [|x r IH]; intros prev; [cbn; split; [constructor|reflexivity]|].
  cbn [write_deltas deltas]. unfold i16_ok. destruct ((-32768 <=? x - prev) && (x - prev <=? 32767)) eqn:E.
  - specialize (IH x). destruct (write_deltas x r) as [rest|e| |]; cbn [bind]; try contradiction.
    + destruct IH as [Hf ->]. split; [constructor; [lia|exact Hf]|].
      unfold enc_recs. cbn [map concat enc_rec]. rewrite app_nil_r. reflexivity.
    + destruct IH as [-> Hex]. split; [reflexivity|]. right. exact Hex.
  - split; [reflexivity|]. left. lia.
Qed.
