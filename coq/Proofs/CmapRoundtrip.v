(* Proofs/CmapRoundtrip.v — C15 for the cmap writers (Model/CmapWrite.v): reading is the inverse of
   writing for every sub-table format and for the whole table, the length / count fields are the
   true sizes or the write is refused, parse-write-parse for arbitrary parsable bytes.
   Built on the C06 reader facts (Proofs/CmapParseProofs.v) and the C08 byte-level lemmas
   (Proofs/CmapWriteProofs.v); neither is changed. *)
From AV Require Import Base.Prelude Base.Lemmas Gen.CmapPrefs Gen.GlyfCmapShapes Model.MacRoman Model.Cmap Model.CmapSpec
  Model.CmapSubset Model.CmapWrite Proofs.CmapProofs Proofs.CmapParseProofs Proofs.CmapWriteProofs.
Require Import ZifyBool.
Ltac Zify.zify_post_hook ::= Z.div_mod_to_equations.
Open Scope Z_scope.

(* ------------------------------------------------------------------------------------------- *)
(* sizes and "fits"                                                                              *)

Definition sub_size (st : subtable) : Z :=
  match st with
  | F0 _ g => 6 + len g
  | F2 _ _ _ _ => 0
  | F4 _ e s d r g => 16 + 2 * (len e + len s + len d + len r + len g)
  | F6 _ _ g => 10 + 2 * len g
  | F10 _ _ g => 20 + 2 * len g
  | F12 _ gs => 16 + 12 * len gs
  end.

(* every count and the length of the encoding fit the field they are stored in *)
Definition sub_fits (st : subtable) : Prop :=
  match st with
  | F0 _ _ => sub_size st <= 65535
  | F2 _ _ _ _ => False
  | F4 _ _ s _ _ _ => len s <= 32767 /\ sub_size st <= 65535
  | F6 _ _ g => len g <= 65535 /\ sub_size st <= 65535
  | F10 _ _ g => len g <= 4294967295 /\ sub_size st <= 4294967295
  | F12 _ gs => len gs <= 4294967295 /\ sub_size st <= 4294967295
  end.

Definition is_f2 (st : subtable) : Prop := match st with F2 _ _ _ _ => True | _ => False end.

(* the language field within its width *)
Definition lang_ok (st : subtable) : Prop :=
  match st with
  | F0 l _ | F4 l _ _ _ _ _ | F6 l _ _ => u16 l
  | F10 l _ _ | F12 l _ => u32 l
  | F2 _ _ _ _ => True
  end.

(* a sub-table value the format can hold: fields within their widths, the four segment arrays of
   format 4 equally long, 256 entries in format 0 *)
Definition sub_wf (st : subtable) : Prop :=
  in_range st /\ lang_ok st /\
  match st with
  | F4 _ e s d r _ => len e = len s /\ len d = len s /\ len r = len s
  | F2 _ _ _ _ => False
  | _ => True
  end.

Definition field16 (b : list Z) (off : Z) : Z := be_val (take 2 (drop off b)).
Definition field32 (b : list Z) (off : Z) : Z := be_val (take 4 (drop off b)).

(* ------------------------------------------------------------------------------------------- *)
(* small facts                                                                                   *)

Lemma fit_u16_ok v r : fit_u16 v = Ok r -> r = v /\ 0 <= v <= 65535.
Proof. unfold fit_u16. intros H. destruct ((0 <=? v) && (v <=? 65535)) eqn:E; [|discriminate]. inversion H. lia. Qed.
Lemma fit_u32_ok v r : fit_u32 v = Ok r -> r = v /\ 0 <= v <= 4294967295.
Proof. unfold fit_u32. intros H. destruct ((0 <=? v) && (v <=? 4294967295)) eqn:E; [|discriminate]. inversion H. lia. Qed.
Lemma fit_u16_in v : 0 <= v <= 65535 -> fit_u16 v = Ok v.
Proof. intros H. unfold fit_u16. replace ((0 <=? v) && (v <=? 65535)) with true by lia. reflexivity. Qed.
Lemma fit_u32_in v : 0 <= v <= 4294967295 -> fit_u32 v = Ok v.
Proof. intros H. unfold fit_u32. replace ((0 <=? v) && (v <=? 4294967295)) with true by lia. reflexivity. Qed.
Lemma fit_u16_out v : ~ (0 <= v <= 65535) -> fit_u16 v = Err BadValue.
Proof. intros H. unfold fit_u16. replace ((0 <=? v) && (v <=? 65535)) with false by lia. reflexivity. Qed.
Lemma fit_u32_out v : ~ (0 <= v <= 4294967295) -> fit_u32 v = Err BadValue.
Proof. intros H. unfold fit_u32. replace ((0 <=? v) && (v <=? 4294967295)) with false by lia. reflexivity. Qed.

Lemma calc_new_ok n r : calc_new n = Ok r -> r = n /\ 0 <= n <= 32767.
Proof.
  unfold calc_new. intros H. destruct (fit_u16 n) as [v| | |] eqn:E; cbn [bind] in H; try discriminate.
  apply fit_u16_ok in E. destruct E as [-> E]. change cmw_max_segments with 32767 in H. destruct (32767 <? n) eqn:E2; [discriminate|]. inversion H. lia.
Qed.
Lemma calc_new_in n : 0 <= n <= 32767 -> calc_new n = Ok n.
Proof. intros H. unfold calc_new. rewrite fit_u16_in by lia. cbn [bind]. change cmw_max_segments with 32767. replace (32767 <? n) with false by lia. reflexivity. Qed.
Lemma calc_new_out n : ~ (0 <= n <= 32767) -> calc_new n = Err BadValue.
Proof.
  intros H. unfold calc_new. destruct (Z_le_dec 0 n) as [H0|H0]; [|rewrite fit_u16_out by lia; reflexivity].
  destruct (Z_le_dec n 65535); [|rewrite fit_u16_out by lia; reflexivity].
  rewrite fit_u16_in by lia. cbn [bind]. change cmw_max_segments with 32767. replace (32767 <? n) with true by lia. reflexivity.
Qed.

Lemma field16_at (pre : list Z) v rest off :
  len pre = off -> field16 (pre ++ w16 v ++ rest) off = v mod 65536.
Proof.
  intros H. unfold field16. rewrite (drop_app_len _ _ off H). rewrite (take_app_len _ _ 2 (w16_len v)). apply be_val_w16.
Qed.
Lemma field32_at (pre : list Z) v rest off :
  len pre = off -> field32 (pre ++ w32 v ++ rest) off = v mod 4294967296.
Proof.
  intros H. unfold field32. rewrite (drop_app_len _ _ off H). rewrite (take_app_len _ _ 4 (w32_len v)). apply be_val_w32.
Qed.

(* ------------------------------------------------------------------------------------------- *)
(* Theorem (exactness of the write): Ok exactly when everything fits; then the byte count is the
   size, and every length / count field holds the true value.  For ALL values (no well-formedness
   assumption, any array lengths). *)

Ltac lens := rewrite ?len_app in *; rewrite ?w16_len in *; rewrite ?w32_len in *; rewrite ?w16s_len in *;
             rewrite ?flat_groups_len in *.

Ltac bind_inv H x E := apply bind_ok in H; destruct H as (x & E & H).

Theorem sub_write_ok_size st b :
  sub_write st = Ok b -> sub_fits st /\ len b = sub_size st.
Proof.
  destruct st as [l g|l k h sc|l e s d r g|l f g|l f g|l gs]; cbn [sub_write]; intros H.
  - bind_inv H v E. apply fit_u16_ok in E. destruct E as [-> E]. apply ok_inj in H; subst b. cbn [sub_fits sub_size].
    rewrite !len_app, !w16_len. pose proof (len_nonneg g). lia.
  - discriminate.
  - bind_inv H n E. apply calc_new_ok in E. destruct E as [-> E].
    bind_inv H v E2. apply fit_u16_ok in E2. destruct E2 as [-> E2]. apply ok_inj in H; subst b. cbn [sub_fits sub_size].
    lens. lia.
  - bind_inv H c E. apply fit_u16_ok in E. destruct E as [-> E].
    bind_inv H v E2. apply fit_u16_ok in E2. destruct E2 as [-> E2]. apply ok_inj in H; subst b. cbn [sub_fits sub_size].
    lens. lia.
  - bind_inv H c E. apply fit_u32_ok in E. destruct E as [-> E].
    bind_inv H v E2. apply fit_u32_ok in E2. destruct E2 as [-> E2]. apply ok_inj in H; subst b. cbn [sub_fits sub_size].
    lens. lia.
  - bind_inv H c E. apply fit_u32_ok in E. destruct E as [-> E].
    bind_inv H v E2. apply fit_u32_ok in E2. destruct E2 as [-> E2]. apply ok_inj in H; subst b. cbn [sub_fits sub_size].
    lens. lia.
Qed.

Theorem sub_write_fits st : sub_fits st -> exists b, sub_write st = Ok b.
Proof.
  destruct st as [l g|l k h sc|l e s d r g|l f g|l f g|l gs]; cbn [sub_fits sub_size sub_write]; intros H.
  - pose proof (len_nonneg g). rewrite fit_u16_in by lia. cbn [bind]. eexists; reflexivity.
  - contradiction.
  - pose proof (len_nonneg s). rewrite calc_new_in by lia. cbn [bind].
    pose proof (len_nonneg e). pose proof (len_nonneg d). pose proof (len_nonneg r). pose proof (len_nonneg g).
    rewrite fit_u16_in by (lens; lia). cbn [bind]. eexists; reflexivity.
  - pose proof (len_nonneg g). rewrite fit_u16_in by lia. cbn [bind].
    rewrite fit_u16_in by (lens; lia). cbn [bind]. eexists; reflexivity.
  - pose proof (len_nonneg g). rewrite fit_u32_in by lia. cbn [bind].
    rewrite fit_u32_in by (lens; lia). cbn [bind]. eexists; reflexivity.
  - pose proof (len_nonneg gs). rewrite fit_u32_in by lia. cbn [bind].
    rewrite fit_u32_in by (lens; lia). cbn [bind]. eexists; reflexivity.
Qed.

(* too wide => refused, with BadValue (format 2: NotImplemented); never a panic *)
Theorem sub_write_refusal st :
  ~ sub_fits st ->
  sub_write st = Err (match st with F2 _ _ _ _ => NotImplemented | _ => BadValue end).
Proof.
  destruct st as [l g|l k h sc|l e s d r g|l f g|l f g|l gs]; cbn [sub_fits sub_size sub_write]; intros H.
  - pose proof (len_nonneg g). rewrite fit_u16_out by lia. reflexivity.
  - reflexivity.
  - pose proof (len_nonneg s). pose proof (len_nonneg e). pose proof (len_nonneg d). pose proof (len_nonneg r). pose proof (len_nonneg g).
    destruct (Z_le_dec (len s) 32767) as [Hs|Hs]; [|rewrite calc_new_out by lia; reflexivity].
    rewrite calc_new_in by lia. cbn [bind].
    rewrite fit_u16_out by (lens; lia). reflexivity.
  - pose proof (len_nonneg g).
    destruct (Z_le_dec (len g) 65535) as [Hs|Hs]; [|rewrite fit_u16_out by lia; reflexivity].
    rewrite fit_u16_in by lia. cbn [bind].
    rewrite fit_u16_out by (lens; lia). reflexivity.
  - pose proof (len_nonneg g).
    destruct (Z_le_dec (len g) 4294967295) as [Hs|Hs]; [|rewrite fit_u32_out by lia; reflexivity].
    rewrite fit_u32_in by lia. cbn [bind].
    rewrite fit_u32_out by (lens; lia). reflexivity.
  - pose proof (len_nonneg gs).
    destruct (Z_le_dec (len gs) 4294967295) as [Hs|Hs]; [|rewrite fit_u32_out by lia; reflexivity].
    rewrite fit_u32_in by lia. cbn [bind].
    rewrite fit_u32_out by (lens; lia). reflexivity.
Qed.

Lemma sub_fits_dec st : sub_fits st \/ ~ sub_fits st.
Proof.
  destruct st as [l g|l k h sc|l e s d r g|l f g|l f g|l gs]; cbn [sub_fits]; try tauto; lia.
Qed.

(* the fields of the written bytes *)
Theorem sub_write_fields st b :
  sub_write st = Ok b ->
  match st with
  | F0 _ _ => field16 b 2 = len b
  | F2 _ _ _ _ => True
  | F4 _ _ s _ _ _ => field16 b 2 = len b /\ field16 b 6 = 2 * len s
  | F6 _ _ g => field16 b 2 = len b /\ field16 b 8 = len g
  | F10 _ _ g => field32 b 4 = len b /\ field32 b 16 = len g
  | F12 _ gs => field32 b 4 = len b /\ field32 b 12 = len gs
  end.
Proof.
  intros H. destruct (sub_write_ok_size st b H) as [Hf Hl]. rewrite Hl.
  destruct st as [l g|l k h sc|l e s d r g|l f g|l f g|l gs]; cbn [sub_write sub_fits sub_size] in *.
  - bind_inv H v E. apply fit_u16_ok in E. destruct E as [-> E]. apply ok_inj in H; subst b.
    rewrite (field16_at (w16 0) _ _ 2 (w16_len _)). rewrite Z.mod_small by lia. lia.
  - exact I.
  - bind_inv H n E. apply calc_new_ok in E. destruct E as [-> E].
    bind_inv H v E2. apply fit_u16_ok in E2. destruct E2 as [-> E2]. apply ok_inj in H; subst b.
    lens. split.
    + rewrite (field16_at (w16 4) _ _ 2 (w16_len _)). rewrite Z.mod_small by lia. lia.
    + replace (w16 4 ++ w16 (4 + (2 + (2 + (2 + (2 + (2 + (2 * len e + (2 + (2 * len s + (2 * len d + (2 * len r + 2 * len g)))))))))))
                ++ w16 l ++ w16 (2 * len s) ++ w16 (calc_search_range (len s)) ++ w16 (calc_entry_selector (len s)) ++
                w16 (calc_range_shift (len s)) ++ w16s e ++ w16 0 ++ w16s s ++ w16s d ++ w16s r ++ w16s g)
        with ((w16 4 ++ w16 (4 + (2 + (2 + (2 + (2 + (2 + (2 * len e + (2 + (2 * len s + (2 * len d + (2 * len r + 2 * len g)))))))))))
                ++ w16 l) ++ w16 (2 * len s) ++ w16 (calc_search_range (len s)) ++ w16 (calc_entry_selector (len s)) ++
                w16 (calc_range_shift (len s)) ++ w16s e ++ w16 0 ++ w16s s ++ w16s d ++ w16s r ++ w16s g)
        by (rewrite <- !app_assoc; reflexivity).
      rewrite (field16_at _ _ _ 6) by (rewrite !len_app, !w16_len; reflexivity).
      rewrite Z.mod_small by lia. reflexivity.
  - bind_inv H c E. apply fit_u16_ok in E. destruct E as [-> E].
    bind_inv H v E2. apply fit_u16_ok in E2. destruct E2 as [-> E2]. apply ok_inj in H; subst b.
    lens. split.
    + rewrite (field16_at (w16 6) _ _ 2 (w16_len _)). rewrite Z.mod_small by lia. lia.
    + replace (w16 6 ++ w16 (4 + (2 + (2 + (2 + 2 * len g)))) ++ w16 l ++ w16 f ++ w16 (len g) ++ w16s g)
        with ((w16 6 ++ w16 (4 + (2 + (2 + (2 + 2 * len g)))) ++ w16 l ++ w16 f) ++ w16 (len g) ++ w16s g)
        by (rewrite <- !app_assoc; reflexivity).
      rewrite (field16_at _ _ _ 8) by (rewrite !len_app, !w16_len; reflexivity).
      rewrite Z.mod_small by lia. reflexivity.
  - bind_inv H c E. apply fit_u32_ok in E. destruct E as [-> E].
    bind_inv H v E2. apply fit_u32_ok in E2. destruct E2 as [-> E2]. apply ok_inj in H; subst b.
    lens. split.
    + replace (w16 10 ++ w16 0 ++ w32 (8 + (4 + (4 + (4 + 2 * len g)))) ++ w32 l ++ w32 f ++ w32 (len g) ++ w16s g)
        with ((w16 10 ++ w16 0) ++ w32 (8 + (4 + (4 + (4 + 2 * len g)))) ++ w32 l ++ w32 f ++ w32 (len g) ++ w16s g)
        by (rewrite <- !app_assoc; reflexivity).
      rewrite (field32_at _ _ _ 4) by (rewrite !len_app, !w16_len; reflexivity).
      rewrite Z.mod_small by lia. lia.
    + replace (w16 10 ++ w16 0 ++ w32 (8 + (4 + (4 + (4 + 2 * len g)))) ++ w32 l ++ w32 f ++ w32 (len g) ++ w16s g)
        with ((w16 10 ++ w16 0 ++ w32 (8 + (4 + (4 + (4 + 2 * len g)))) ++ w32 l ++ w32 f) ++ w32 (len g) ++ w16s g)
        by (rewrite <- !app_assoc; reflexivity).
      rewrite (field32_at _ _ _ 16) by (rewrite !len_app, !w16_len, !w32_len; reflexivity).
      rewrite Z.mod_small by lia. reflexivity.
  - bind_inv H c E. apply fit_u32_ok in E. destruct E as [-> E].
    bind_inv H v E2. apply fit_u32_ok in E2. destruct E2 as [-> E2]. apply ok_inj in H; subst b.
    lens. split.
    + replace (w16 12 ++ w16 0 ++ w32 (8 + (4 + (4 + 12 * len gs))) ++ w32 l ++ w32 (len gs) ++ flat_map write_group gs)
        with ((w16 12 ++ w16 0) ++ w32 (8 + (4 + (4 + 12 * len gs))) ++ w32 l ++ w32 (len gs) ++ flat_map write_group gs)
        by (rewrite <- !app_assoc; reflexivity).
      rewrite (field32_at _ _ _ 4) by (rewrite !len_app, !w16_len; reflexivity).
      rewrite Z.mod_small by lia. lia.
    + replace (w16 12 ++ w16 0 ++ w32 (8 + (4 + (4 + 12 * len gs))) ++ w32 l ++ w32 (len gs) ++ flat_map write_group gs)
        with ((w16 12 ++ w16 0 ++ w32 (8 + (4 + (4 + 12 * len gs))) ++ w32 l) ++ w32 (len gs) ++ flat_map write_group gs)
        by (rewrite <- !app_assoc; reflexivity).
      rewrite (field32_at _ _ _ 12) by (rewrite !len_app, !w16_len, !w32_len; reflexivity).
      rewrite Z.mod_small by lia. reflexivity.
Qed.

(* ------------------------------------------------------------------------------------------- *)
(* Theorem (read after write), per format, with arbitrary bytes following the sub-table          *)

Lemma even_double n : Z.even (2 * n) = true.
Proof. rewrite Z.even_mul. reflexivity. Qed.
Lemma half_double n : 2 * n / 2 = n.
Proof. rewrite Z.mul_comm, Z.div_mul; lia. Qed.

Theorem f4_roundtrip l e s d r g b rest :
  u16 l -> Forall u16 e -> Forall u16 s -> Forall i16 d -> Forall u16 r -> Forall u16 g ->
  len e = len s -> len d = len s -> len r = len s ->
  sub_write (F4 l e s d r g) = Ok b -> parse (b ++ rest) = Ok (F4 l e s d r g).
Proof.
  intros Hl He Hs Hd Hr Hg Le Ld Lr H.
  destruct (sub_write_ok_size _ _ H) as [[Bn Bl] _]. cbn [sub_size] in Bl.
  cbn [sub_write] in H.
  bind_inv H n E. apply calc_new_ok in E. destruct E as [-> E].
  bind_inv H v E2. apply fit_u16_ok in E2. destruct E2 as [-> E2]. apply ok_inj in H. subst b.
  pose proof (len_nonneg s) as Hn. pose proof (len_nonneg g) as Hgn.
  lens. rewrite Le, Ld, Lr in *. set (n := len s) in *.
  rewrite <- !app_assoc.
  unfold parse, rd_u16. rewrite rd_w16_small by lia. cbn [bind].
  change (4 =? 0) with false. change (4 =? 2) with false. change (4 =? 4) with true. cbv iota.
  unfold parse4, rd_u16.
  rewrite rd_w16_small by lia. cbn [bind].
  rewrite rd_w16_small by (unfold u16 in Hl; lia). cbn [bind].
  rewrite rd_w16_small by lia. cbn [bind].
  rewrite even_double. cbn [check bind]. rewrite half_double.
  rewrite rd_w16. cbn [bind]. rewrite rd_w16. cbn [bind]. rewrite rd_w16. cbn [bind].
  replace n with (len e) at 1 by lia. rewrite rd_u16s_w16s by exact He. cbn [bind].
  rewrite rd_w16. cbn [bind].
  unfold n at 1. rewrite rd_u16s_w16s by exact Hs. cbn [bind].
  replace n with (len d) at 1 by lia. rewrite rd_i16s_w16s by exact Hd. cbn [bind].
  replace n with (len r) at 1 by lia. rewrite rd_u16s_w16s by exact Hr. cbn [bind].
  match goal with |- context [check ?c] => replace c with true by lia end. cbn [check bind].
  match goal with |- context [check (Z.even ?x)] => replace x with (2 * len g) by lia end.
  rewrite even_double. cbn [check bind]. rewrite half_double.
  rewrite rd_u16s_w16s by exact Hg. cbn [bind]. reflexivity.
Qed.

Theorem f0_roundtrip l g b rest :
  u16 l -> len g = 256 -> Forall (fun x => 0 <= x <= 255) g ->
  sub_write (F0 l g) = Ok b -> parse (b ++ rest) = Ok (F0 l g).
Proof.
  intros Hl Hn Hg H. cbn [sub_write] in H.
  bind_inv H v E. apply fit_u16_ok in E. destruct E as [-> E]. apply ok_inj in H. subst b.
  rewrite Hn in *. rewrite <- !app_assoc.
  unfold parse, rd_u16. rewrite rd_w16_small by lia. cbn [bind]. change (0 =? 0) with true. cbv iota.
  unfold parse0, rd_u16. rewrite rd_w16_small by lia. cbn [bind].
  change (3 * 2 + 256 <=? 3 * 2 + 256) with true. cbn [check bind].
  rewrite rd_w16_small by (unfold u16 in Hl; lia). cbn [bind].
  unfold rd_u8s, rd_array. rewrite len_app, Hn. pose proof (len_nonneg rest).
  replace (256 * 1 <=? 256 + len rest) with true by lia. cbn [bind].
  replace (Z.to_nat 256) with (length g) by (unfold len in Hn; lia).
  rewrite chunks_bytes. rewrite map_map.
  f_equal. f_equal. clear Hn E. induction g as [|x t IH]; [reflexivity|]. cbn [map].
  change (be_val [x]) with (0 * 256 + x). rewrite IH by (eapply Forall_inv_tail; exact Hg).
  f_equal.
Qed.

Theorem f6_roundtrip l f g b rest :
  u16 l -> u16 f -> Forall u16 g ->
  sub_write (F6 l f g) = Ok b -> parse (b ++ rest) = Ok (F6 l f g).
Proof.
  intros Hl Hf Hg H. cbn [sub_write] in H.
  bind_inv H c E. apply fit_u16_ok in E. destruct E as [-> E].
  bind_inv H v E2. apply fit_u16_ok in E2. destruct E2 as [-> E2]. apply ok_inj in H. subst b.
  lens. rewrite <- !app_assoc. unfold u16 in *.
  unfold parse, rd_u16. rewrite rd_w16_small by lia. cbn [bind].
  change (6 =? 0) with false. change (6 =? 2) with false. change (6 =? 4) with false. change (6 =? 6) with true. cbv iota.
  unfold parse6, rd_u16.
  rewrite rd_w16_small by lia. cbn [bind].
  rewrite rd_w16_small by lia. cbn [bind].
  rewrite rd_w16_small by lia. cbn [bind].
  rewrite rd_w16_small by lia. cbn [bind].
  rewrite rd_u16s_w16s by exact Hg. cbn [bind]. reflexivity.
Qed.

Theorem f10_roundtrip l f g b rest :
  u32 l -> u32 f -> Forall u16 g ->
  sub_write (F10 l f g) = Ok b -> parse (b ++ rest) = Ok (F10 l f g).
Proof.
  intros Hl Hf Hg H. cbn [sub_write] in H.
  bind_inv H c E. apply fit_u32_ok in E. destruct E as [-> E].
  bind_inv H v E2. apply fit_u32_ok in E2. destruct E2 as [-> E2]. apply ok_inj in H. subst b.
  lens. rewrite <- !app_assoc. unfold u32 in *.
  unfold parse, rd_u16. rewrite rd_w16_small by lia. cbn [bind].
  change (10 =? 0) with false. change (10 =? 2) with false. change (10 =? 4) with false.
  change (10 =? 6) with false. change (10 =? 10) with true. cbv iota.
  unfold parse10, rd_u16, rd_u32.
  rewrite rd_w16_small by lia. cbn [bind]. change (0 =? 0) with true. cbn [check bind].
  rewrite rd_w32 by lia. cbn [bind].
  rewrite rd_w32 by lia. cbn [bind].
  rewrite rd_w32 by lia. cbn [bind].
  rewrite rd_w32 by lia. cbn [bind].
  rewrite rd_u16s_w16s by exact Hg. cbn [bind]. reflexivity.
Qed.

Theorem f12_roundtrip l gs b rest :
  u32 l -> Forall (fun g => u32 (g_start g) /\ u32 (g_end g) /\ u32 (g_gid g)) gs ->
  sub_write (F12 l gs) = Ok b -> parse (b ++ rest) = Ok (F12 l gs).
Proof.
  intros Hl Hg H. cbn [sub_write] in H.
  bind_inv H c E. apply fit_u32_ok in E. destruct E as [-> E].
  bind_inv H v E2. apply fit_u32_ok in E2. destruct E2 as [-> E2]. apply ok_inj in H. subst b.
  lens. rewrite <- !app_assoc. unfold u32 in Hl.
  unfold parse, rd_u16. rewrite rd_w16_small by lia. cbn [bind].
  change (12 =? 0) with false. change (12 =? 2) with false. change (12 =? 4) with false.
  change (12 =? 6) with false. change (12 =? 10) with false. change (12 =? 12) with true. cbv iota.
  unfold parse12, rd_u16, rd_u32.
  rewrite rd_w16_small by lia. cbn [bind]. change (0 =? 0) with true. cbn [check bind].
  rewrite rd_w32 by lia. cbn [bind].
  rewrite rd_w32 by lia. cbn [bind].
  rewrite rd_w32 by lia. cbn [bind].
  unfold rd_array. rewrite len_app, flat_groups_len. pose proof (len_nonneg rest).
  replace (len gs * 12 <=? 12 * len gs + len rest) with true by lia. cbn [bind].
  replace (Z.to_nat (len gs)) with (length gs) by (unfold len; lia).
  rewrite chunks_groups.
  rewrite map_map. f_equal. f_equal. clear E E2.
  induction Hg as [|g t (H1 & H2 & H3) Ht IH]; [reflexivity|]. cbn [map].
  rewrite decode_write_group by assumption. f_equal. exact IH.
Qed.

(* Theorem: for every well-formed sub-table value of any format (other than 2), whatever follows the
   written bytes, CmapSubtable::read returns the value *)
Theorem sub_roundtrip st b rest :
  sub_wf st -> sub_write st = Ok b -> parse (b ++ rest) = Ok st.
Proof.
  intros (Hr & Hl & Hs) H.
  destruct st as [l g|l k h sc|l e s d r g|l f g|l f g|l gs]; cbn [in_range lang_ok] in *.
  - destruct Hr as [Hg Hn]. eapply f0_roundtrip; eauto.
  - contradiction.
  - destruct Hr as (He & Hss & Hd & Hro & Hg). destruct Hs as (L1 & L2 & L3). eapply f4_roundtrip; eauto.
  - destruct Hr as (Hf & Hg & _). eapply f6_roundtrip; eauto.
  - destruct Hr as (Hf & Hg & _). eapply f10_roundtrip; eauto.
  - eapply f12_roundtrip; eauto.
Qed.

(* ------------------------------------------------------------------------------------------- *)
(* what CmapSubtable::read returns is a well-formed value (on arbitrary bytes)                   *)

Lemma parse4_facts d l e s dl r g :
  bytes_ok d = true -> parse4 d = Ok (F4 l e s dl r g) ->
  u16 l /\ sub_size (F4 l e s dl r g) <= 65535.
Proof.
  intros Hb H. unfold parse4 in H. unfold rd_u16 in H.
  step_rd H Hb 2 vlen d1 Hl Hb1.
  step_rd H Hb1 2 language d2 Hlang Hb2.
  step_rd H Hb2 2 segx2 d3 Hsx Hb3.
  step_check H.
  step_rd H Hb3 2 sr d4 Hsr Hb4.
  step_rd H Hb4 2 es d5 Hes Hb5.
  step_rd H Hb5 2 rs d6 Hrs Hb6.
  assert (Hsc : 0 <= segx2 / 2) by (clear - Hsx; unfold u16 in Hsx; apply Z.div_pos; lia).
  destruct (rd_u16s (segx2 / 2) d6) as [[ends' d7]| | |] eqn:Q1; cbn [bind] in H; try discriminate.
  destruct (rd_u16s_ok _ _ _ _ Hb6 Hsc Q1) as (_ & Hb7 & L1).
  step_rd H Hb7 2 pad d8 Hpad Hb8.
  destruct (rd_u16s (segx2 / 2) d8) as [[starts' d9]| | |] eqn:Q2; cbn [bind] in H; try discriminate.
  destruct (rd_u16s_ok _ _ _ _ Hb8 Hsc Q2) as (_ & Hb9 & L2).
  destruct (rd_i16s (segx2 / 2) d9) as [[deltas' d10]| | |] eqn:Q3; cbn [bind] in H; try discriminate.
  destruct (rd_i16s_ok _ _ _ _ Hb9 Hsc Q3) as (_ & Hb10 & L3).
  destruct (rd_u16s (segx2 / 2) d10) as [[ros' d11]| | |] eqn:Q4; cbn [bind] in H; try discriminate.
  destruct (rd_u16s_ok _ _ _ _ Hb10 Hsc Q4) as (_ & Hb11 & L4).
  step_check H. step_check H.
  destruct (rd_u16s ((vlen - (8 + 4 * (segx2 / 2)) * 2) / 2) d11) as [[gids' d12]| | |] eqn:Q5;
    cbn [bind] in H; try discriminate.
  assert (Hn : 0 <= (vlen - (8 + 4 * (segx2 / 2)) * 2) / 2) by (clear - C0; apply Z.div_pos; lia).
  destruct (rd_u16s_ok _ _ _ _ Hb11 Hn Q5) as (_ & _ & L5).
  inversion H; subst. split; [exact Hlang|]. cbn [sub_size]. unfold u16 in Hl.
  clear - L1 L2 L3 L4 L5 Hl C0 C1 Hsc. lia.
Qed.

Lemma parse_lang_ok d st : bytes_ok d = true -> parse d = Ok st -> lang_ok st.
Proof.
  intros Hb H. unfold parse in H. unfold rd_u16 in H.
  step_rd H Hb 2 fmt d1 Hf Hb1.
  destruct (fmt =? 0).
  { unfold parse0, rd_u16 in H. step_rd H Hb1 2 vlen d2 Hl Hb2. step_check H.
    step_rd H Hb2 2 language d3 Hlang Hb3.
    destruct (rd_u8s 256 d3) as [[gids d4]| | |]; cbn [bind] in H; try discriminate.
    inversion H; subst. exact Hlang. }
  destruct (fmt =? 2).
  { unfold parse2 in H.
    repeat match type of H with
           | bind ?x _ = Ok _ => destruct x as [[? ?]| | |]; cbn [bind] in H; try discriminate
           end.
    inversion H. exact I. }
  destruct (fmt =? 4).
  { destruct st; try (exfalso; revert H; unfold parse4;
      repeat match goal with |- bind ?x _ = Ok _ -> False => destruct x as [[? ?]| | |]; cbn [bind]; try discriminate end;
      unfold check; repeat match goal with |- context [if ?c then _ else _] => destruct c; cbn [bind]; try discriminate end;
      repeat match goal with |- bind ?x _ = Ok _ -> False => destruct x as [[? ?]| | |]; cbn [bind]; try discriminate end;
      discriminate).
    cbn [lang_ok]. eapply parse4_facts; eauto. }
  destruct (fmt =? 6).
  { unfold parse6, rd_u16 in H. step_rd H Hb1 2 vlen d2 Hl Hb2.
    step_rd H Hb2 2 language d3 Hlang Hb3. step_rd H Hb3 2 vfirst d4 Hfi Hb4. step_rd H Hb4 2 count d5 Hc Hb5.
    destruct (rd_u16s count d5) as [[gids d6]| | |]; cbn [bind] in H; try discriminate.
    inversion H; subst. exact Hlang. }
  destruct (fmt =? 10).
  { unfold parse10, rd_u16, rd_u32 in H. step_rd H Hb1 2 reserved d2 Hr Hb2. step_check H.
    step_rd H Hb2 4 vlen d3 Hl Hb3. step_rd H Hb3 4 language d4 Hlang Hb4.
    step_rd H Hb4 4 start d5 Hs Hb5. step_rd H Hb5 4 count d6 Hc Hb6.
    destruct (rd_u16s count d6) as [[gids d7]| | |]; cbn [bind] in H; try discriminate.
    inversion H; subst. exact Hlang. }
  destruct (fmt =? 12).
  { unfold parse12, rd_u16, rd_u32 in H. step_rd H Hb1 2 reserved d2 Hr Hb2. step_check H.
    step_rd H Hb2 4 vlen d3 Hl Hb3. step_rd H Hb3 4 language d4 Hlang Hb4.
    step_rd H Hb4 4 count d5 Hc Hb5.
    destruct (rd_array 12 count d5) as [[items d6]| | |]; cbn [bind] in H; try discriminate.
    inversion H; subst. exact Hlang. }
  discriminate.
Qed.

(* which parser produced which constructor *)
Lemma parse_format d st :
  parse d = Ok st ->
  exists d1 fmt, rd_u16 d = Ok (fmt, d1) /\
    match st with
    | F0 _ _ => parse0 d1 = Ok st
    | F2 _ _ _ _ => parse2 d1 = Ok st
    | F4 _ _ _ _ _ _ => parse4 d1 = Ok st
    | F6 _ _ _ => parse6 d1 = Ok st
    | F10 _ _ _ => parse10 d1 = Ok st
    | F12 _ _ => parse12 d1 = Ok st
    end.
Proof.
  intros H. unfold parse in H.
  destruct (rd_u16 d) as [[fmt d1]| | |] eqn:E; cbn [bind] in H; try discriminate.
  exists d1, fmt. split; [reflexivity|].
  assert (P0 : forall x, parse0 d1 = Ok x -> match x with F0 _ _ => True | _ => False end).
  { intros x. unfold parse0.
    repeat match goal with |- bind ?e _ = Ok _ -> _ => destruct e as [[? ?]| | |]; cbn [bind]; try discriminate end.
    unfold check. match goal with |- context [if ?c then _ else _] => destruct c; cbn [bind]; try discriminate end.
    repeat match goal with |- bind ?e _ = Ok _ -> _ => destruct e as [[? ?]| | |]; cbn [bind]; try discriminate end.
    intros Hx. inversion Hx. exact I. }
  assert (P2 : forall x, parse2 d1 = Ok x -> match x with F2 _ _ _ _ => True | _ => False end).
  { intros x. unfold parse2.
    repeat match goal with |- bind ?e _ = Ok _ -> _ => destruct e as [[? ?]| | |]; cbn [bind]; try discriminate end.
    intros Hx. inversion Hx. exact I. }
  assert (P4 : forall x, parse4 d1 = Ok x -> match x with F4 _ _ _ _ _ _ => True | _ => False end).
  { intros x. unfold parse4.
    repeat match goal with |- bind ?e _ = Ok _ -> _ => destruct e as [[? ?]| | |]; cbn [bind]; try discriminate end.
    unfold check. match goal with |- context [if ?c then _ else _] => destruct c; cbn [bind]; try discriminate end.
    repeat match goal with |- bind ?e _ = Ok _ -> _ => destruct e as [[? ?]| | |]; cbn [bind]; try discriminate end.
    match goal with |- context [if ?c then _ else _] => destruct c; cbn [bind]; try discriminate end.
    match goal with |- context [if ?c then _ else _] => destruct c; cbn [bind]; try discriminate end.
    repeat match goal with |- bind ?e _ = Ok _ -> _ => destruct e as [[? ?]| | |]; cbn [bind]; try discriminate end.
    intros Hx. inversion Hx. exact I. }
  assert (P6 : forall x, parse6 d1 = Ok x -> match x with F6 _ _ _ => True | _ => False end).
  { intros x. unfold parse6.
    repeat match goal with |- bind ?e _ = Ok _ -> _ => destruct e as [[? ?]| | |]; cbn [bind]; try discriminate end.
    intros Hx. inversion Hx. exact I. }
  assert (P10 : forall x, parse10 d1 = Ok x -> match x with F10 _ _ _ => True | _ => False end).
  { intros x. unfold parse10.
    repeat match goal with |- bind ?e _ = Ok _ -> _ => destruct e as [[? ?]| | |]; cbn [bind]; try discriminate end.
    unfold check. match goal with |- context [if ?c then _ else _] => destruct c; cbn [bind]; try discriminate end.
    repeat match goal with |- bind ?e _ = Ok _ -> _ => destruct e as [[? ?]| | |]; cbn [bind]; try discriminate end.
    intros Hx. inversion Hx. exact I. }
  assert (P12 : forall x, parse12 d1 = Ok x -> match x with F12 _ _ => True | _ => False end).
  { intros x. unfold parse12.
    repeat match goal with |- bind ?e _ = Ok _ -> _ => destruct e as [[? ?]| | |]; cbn [bind]; try discriminate end.
    unfold check. match goal with |- context [if ?c then _ else _] => destruct c; cbn [bind]; try discriminate end.
    repeat match goal with |- bind ?e _ = Ok _ -> _ => destruct e as [[? ?]| | |]; cbn [bind]; try discriminate end.
    intros Hx. inversion Hx. exact I. }
  destruct (fmt =? 0); [pose proof (P0 _ H); destruct st; try contradiction; exact H|].
  destruct (fmt =? 2); [pose proof (P2 _ H); destruct st; try contradiction; exact H|].
  destruct (fmt =? 4); [pose proof (P4 _ H); destruct st; try contradiction; exact H|].
  destruct (fmt =? 6); [pose proof (P6 _ H); destruct st; try contradiction; exact H|].
  destruct (fmt =? 10); [pose proof (P10 _ H); destruct st; try contradiction; exact H|].
  destruct (fmt =? 12); [pose proof (P12 _ H); destruct st; try contradiction; exact H|].
  discriminate.
Qed.

(* Theorem: whatever CmapSubtable::read accepts, on any byte string, is a well-formed value
   (format 2 aside, which has no writer) *)
Theorem parse_sub_wf d st : bytes_ok d = true -> parse d = Ok st -> ~ is_f2 st -> sub_wf st.
Proof.
  intros Hb H Hn2. split; [eapply parse_in_range; eauto|]. split; [eapply parse_lang_ok; eauto|].
  destruct st as [l g|l k h sc|l e s dl r g|l f g|l f g|l gs]; try exact I.
  - apply Hn2. exact I.
  - destruct (parse_format _ _ H) as (d1 & fmt & E & P).
    unfold rd_u16 in E. destruct (rd2_ok _ _ _ Hb E) as [_ Hb1].
    destruct (parse4_shape _ _ _ _ _ _ _ Hb1 P) as (A & B & C & _). auto.
Qed.

(* a parsed format 0 / format 4 sub-table always fits: the writer cannot refuse it *)
Theorem parse_fits_0_4 d st :
  bytes_ok d = true -> parse d = Ok st ->
  match st with F0 _ _ | F4 _ _ _ _ _ _ => sub_fits st | _ => True end.
Proof.
  intros Hb H. pose proof (parse_in_range d st Hb H) as Hr.
  destruct st as [l g|l k h sc|l e s dl r g|l f g|l f g|l gs]; try exact I.
  - cbn [in_range] in Hr. cbn [sub_fits sub_size]. lia.
  - destruct (parse_format _ _ H) as (d1 & fmt & E & P).
    unfold rd_u16 in E. destruct (rd2_ok _ _ _ Hb E) as [_ Hb1].
    destruct (parse4_shape _ _ _ _ _ _ _ Hb1 P) as (_ & _ & _ & A).
    destruct (parse4_facts _ _ _ _ _ _ _ Hb1 P) as (_ & B). cbn [sub_fits]. split; assumption.
Qed.

(* Theorem (parse-write-parse, sub-tables, arbitrary parsable bytes): if CmapSubtable::read accepts
   [d] as a sub-table of a format other than 2, then
   - the writer returns Ok exactly when the sub-table fits its fields (always for formats 0 and 4),
     otherwise BadValue;
   - whatever follows the written bytes, reading them returns the same sub-table. *)
Theorem sub_parse_write_parse d st :
  bytes_ok d = true -> parse d = Ok st -> ~ is_f2 st ->
  (forall b rest, sub_write st = Ok b -> parse (b ++ rest) = Ok st) /\
  (sub_fits st -> exists b, sub_write st = Ok b) /\
  (~ sub_fits st -> sub_write st = Err BadValue) /\
  match st with F0 _ _ | F4 _ _ _ _ _ _ => exists b, sub_write st = Ok b | _ => True end.
Proof.
  intros Hb H Hn2. pose proof (parse_sub_wf d st Hb H Hn2) as Hwf.
  split; [intros b rest Hw; apply sub_roundtrip; assumption|].
  split; [apply sub_write_fits|].
  split.
  - intros Hnf. rewrite (sub_write_refusal st Hnf). destruct st; try reflexivity. exfalso. apply Hn2. exact I.
  - pose proof (parse_fits_0_4 d st Hb H) as Hf.
    destruct st; try exact I; apply sub_write_fits; exact Hf.
Qed.

(* CmapSubtable::to_owned is the identity on parsed sub-tables (format 0 has its 256 entries) *)
Lemma pad_to_exact l : pad_to (length l) l = l.
Proof. induction l as [|x t IH]; [reflexivity|]. cbn [length pad_to]. f_equal. exact IH. Qed.

Theorem to_owned_parsed d st :
  bytes_ok d = true -> parse d = Ok st -> ~ is_f2 st -> to_owned st = Some st.
Proof.
  intros Hb H Hn2. pose proof (parse_in_range d st Hb H) as Hr.
  destruct st as [l g|l k h sc|l e s dl r g|l f g|l f g|l gs]; try reflexivity.
  - cbn [in_range] in Hr. destruct Hr as [_ Hn]. cbn [to_owned].
    replace 256%nat with (length g) by (unfold len in Hn; lia). rewrite pad_to_exact. reflexivity.
  - exfalso. apply Hn2. exact I.
Qed.

(* the writer's normalisation: the written bytes are a function of the parsed fields only — the
   length, the search fields and reservedPad of the input do not matter *)
Theorem sub_write_after_write st b rest :
  sub_wf st -> sub_write st = Ok b ->
  exists st', parse (b ++ rest) = Ok st' /\ sub_write st' = Ok b.
Proof. intros Hwf H. exists st. split; [apply sub_roundtrip; assumption | exact H]. Qed.

(* ------------------------------------------------------------------------------------------- *)
(* the cmap table: header, encoding records, offsets, sub-tables                                 *)

Fixpoint offsets_from (pos : Z) (recs : list crec) : list Z :=
  match recs with
  | [] => []
  | r :: t => pos :: offsets_from (pos + sub_size (cr_sub r)) t
  end.
(* the true position of every record's sub-table in the written table *)
Definition table_offsets (recs : list crec) : list Z := offsets_from (4 + 8 * len recs) recs.
Fixpoint subs_size (recs : list crec) : Z :=
  match recs with [] => 0 | r :: t => sub_size (cr_sub r) + subs_size t end.
(* what reading the table returns: the records with their offsets, each with its sub-table *)
Fixpoint mk_recs (recs : list crec) (offs : list Z) : list (enc_rec * subtable) :=
  match recs, offs with
  | r :: t, o :: os =>
      ({| er_platform := cr_platform r; er_encoding := cr_encoding r; er_offset := o |}, cr_sub r) :: mk_recs t os
  | _, _ => []
  end.

Lemma sub_size_nonneg st : 0 <= sub_size st.
Proof.
  destruct st as [l g|l k h sc|l e s d r g|l f g|l f g|l gs]; cbn [sub_size];
    repeat match goal with |- context [len ?x] => lazymatch goal with H : 0 <= len x |- _ => fail | _ => pose proof (len_nonneg x) end end; lia.
Qed.

Lemma write_subs_spec recs : forall pos offs bytes,
  write_subs pos recs = Ok (offs, bytes) ->
  offs = offsets_from pos recs /\ len bytes = subs_size recs /\ length offs = length recs /\
  Forall (fun r => sub_fits (cr_sub r)) recs /\ Forall (fun o => 0 <= o <= 4294967295) offs.
Proof.
  induction recs as [|r t IH]; intros pos offs bytes H; cbn [write_subs] in H.
  - apply ok_inj in H. inversion H; subst. cbn. repeat split; constructor.
  - bind_inv H off E. apply fit_u32_ok in E. destruct E as [-> E].
    bind_inv H sub E2. destruct (sub_write_ok_size _ _ E2) as [Hf Hl].
    apply bind_ok in H. destruct H as ([offs' bytes'] & E3 & H). apply ok_inj in H. inversion H; subst.
    destruct (IH _ _ _ E3) as (A & B & C & D & F). rewrite Hl in A.
    cbn [offsets_from subs_size length]. rewrite len_app, Hl, B, <- A, C.
    repeat split; try reflexivity; constructor; assumption.
Qed.

Lemma write_subs_read recs : forall pos offs bytes pre post,
  Forall (fun r => sub_wf (cr_sub r)) recs ->
  write_subs pos recs = Ok (offs, bytes) -> len pre = pos ->
  read_subs (pre ++ bytes ++ post) (map fst (mk_recs recs offs)) = Ok (mk_recs recs offs).
Proof.
  induction recs as [|r t IH]; intros pos offs bytes pre post Hwf H Hpre; cbn [write_subs] in H.
  - apply ok_inj in H. inversion H; subst. reflexivity.
  - bind_inv H off E. apply fit_u32_ok in E. destruct E as [-> E].
    bind_inv H sub E2.
    apply bind_ok in H. destruct H as ([offs' bytes'] & E3 & H). apply ok_inj in H. inversion H; subst.
    cbn [mk_recs map fst read_subs er_offset].
    pose proof (len_nonneg pre) as Hp.
    rewrite slice_from_drop by (rewrite len_app; pose proof (len_nonneg ((sub ++ bytes') ++ post)); lia).
    rewrite (drop_app_len pre _ (len pre) eq_refl). rewrite <- app_assoc.
    rewrite (sub_roundtrip (cr_sub r) sub (bytes' ++ post) (Forall_inv Hwf) E2). cbn [bind].
    replace (pre ++ sub ++ bytes' ++ post) with ((pre ++ sub) ++ bytes' ++ post) by (rewrite <- app_assoc; reflexivity).
    rewrite (IH (len pre + len sub) offs' bytes' (pre ++ sub) post (Forall_inv_tail Hwf) E3) by (rewrite len_app; reflexivity).
    cbn [bind]. reflexivity.
Qed.

Lemma write_records_len recs : forall offs, length offs = length recs -> len (write_records recs offs) = 8 * len recs.
Proof.
  induction recs as [|r t IH]; intros [|o os] Hl; cbn [length] in Hl; try discriminate; cbn [write_records]; [reflexivity|].
  rewrite !len_app, !w16_len, w32_len, len_cons. rewrite IH by lia. lia.
Qed.

Lemma decode_write_rec p e o :
  u16 p -> u16 e -> 0 <= o <= 4294967295 ->
  decode_enc_rec (w16 p ++ w16 e ++ w32 o) = {| er_platform := p; er_encoding := e; er_offset := o |}.
Proof.
  intros Hp He Ho. unfold decode_enc_rec.
  rewrite (take_app_len _ _ 2 (w16_len _)), (drop_app_len (w16 p) _ 2 (w16_len _)).
  rewrite (take_app_len _ _ 2 (w16_len _)).
  replace (drop 4 (w16 p ++ w16 e ++ w32 o)) with (w32 o).
  2:{ rewrite app_assoc. symmetry. apply drop_app_len. rewrite len_app, !w16_len. reflexivity. }
  rewrite <- (app_nil_r (w32 o)). rewrite (take_app_len _ _ 4 (w32_len _)).
  rewrite !be_val_w16, be_val_w32. unfold u16 in *. rewrite !Z.mod_small by lia. reflexivity.
Qed.

Lemma chunks_records recs : forall offs rest,
  length offs = length recs ->
  Forall (fun r => u16 (cr_platform r) /\ u16 (cr_encoding r)) recs ->
  Forall (fun o => 0 <= o <= 4294967295) offs ->
  map decode_enc_rec (chunks 8 (length recs) (write_records recs offs ++ rest)) = map fst (mk_recs recs offs).
Proof.
  induction recs as [|r t IH]; intros [|o os] rest Hl Hr Ho; cbn [length] in Hl; try discriminate; [reflexivity|].
  cbn [write_records length chunks map mk_recs fst].
  assert (H8 : len (w16 (cr_platform r) ++ w16 (cr_encoding r) ++ w32 o) = 8)
    by (rewrite !len_app, !w16_len, w32_len; reflexivity).
  replace ((w16 (cr_platform r) ++ w16 (cr_encoding r) ++ w32 o ++ write_records t os) ++ rest)
    with ((w16 (cr_platform r) ++ w16 (cr_encoding r) ++ w32 o) ++ write_records t os ++ rest)
    by (rewrite <- !app_assoc; reflexivity).
  rewrite (take_app_len _ _ 8 H8), (drop_app_len _ _ 8 H8).
  destruct (Forall_inv Hr) as [Hp He].
  rewrite decode_write_rec by (try assumption; exact (Forall_inv Ho)).
  f_equal. apply IH; [lia | exact (Forall_inv_tail Hr) | exact (Forall_inv_tail Ho)].
Qed.

(* Theorem (the whole table, read after write): for any number of records with well-formed
   sub-tables, Cmap::read on the written table returns the records in order, each with the true
   position of its sub-table, and reading at that position returns the record's sub-table *)
Theorem cmap_roundtrip recs b :
  Forall (fun r => u16 (cr_platform r) /\ u16 (cr_encoding r) /\ sub_wf (cr_sub r)) recs ->
  cmap_write recs = Ok b ->
  cmap_read_all b = Ok (mk_recs recs (table_offsets recs)).
Proof.
  intros Hr H. unfold cmap_write in H.
  bind_inv H n E. apply fit_u16_ok in E. destruct E as [-> E].
  apply bind_ok in H. destruct H as ([offs subs] & E2 & H). apply ok_inj in H. subst b.
  destruct (write_subs_spec _ _ _ _ E2) as (A & B & C & D & F).
  fold (table_offsets recs) in A. rewrite <- A.
  unfold cmap_read_all, parse_cmap, rd_u16.
  rewrite rd_w16_small by lia. cbn [bind]. change (0 =? 0) with true. cbn [check bind].
  rewrite rd_w16_small by lia. cbn [bind].
  unfold rd_array. rewrite len_app, (write_records_len recs offs C). pose proof (len_nonneg subs).
  replace (len recs * 8 <=? 8 * len recs + len subs) with true by lia. cbn [bind].
  replace (Z.to_nat (len recs)) with (length recs) by (unfold len; lia).
  rewrite chunks_records; [|exact C| |exact F].
  2:{ eapply Forall_impl; [|exact Hr]. cbn beta. tauto. }
  replace (w16 0 ++ w16 (len recs) ++ write_records recs offs ++ subs)
    with ((w16 0 ++ w16 (len recs) ++ write_records recs offs) ++ subs ++ []) by (rewrite app_nil_r, <- !app_assoc; reflexivity).
  eapply write_subs_read; [|exact E2|].
  - eapply Forall_impl; [|exact Hr]. cbn beta. tauto.
  - rewrite !len_app, !w16_len, (write_records_len recs offs C). lia.
Qed.

(* Theorem (the whole table, exactness): Ok implies at most 65535 records, every sub-table fits, every
   offset fits 32 bits; the bytes are header, records with the TRUE offsets, then the sub-tables *)
Theorem cmap_write_exact recs b :
  cmap_write recs = Ok b ->
  len recs <= 65535 /\ Forall (fun r => sub_fits (cr_sub r)) recs /\
  Forall (fun o => 0 <= o <= 4294967295) (table_offsets recs) /\
  exists subs, b = w16 0 ++ w16 (len recs) ++ write_records recs (table_offsets recs) ++ subs /\
               len subs = subs_size recs /\ len b = 4 + 8 * len recs + subs_size recs.
Proof.
  intros H. unfold cmap_write in H.
  bind_inv H n E. apply fit_u16_ok in E. destruct E as [-> E].
  apply bind_ok in H. destruct H as ([offs subs] & E2 & H). apply ok_inj in H. subst b.
  destruct (write_subs_spec _ _ _ _ E2) as (A & B & C & D & F).
  fold (table_offsets recs) in A. subst offs.
  split; [lia|]. split; [exact D|]. split; [exact F|].
  exists subs. split; [reflexivity|]. split; [exact B|].
  rewrite !len_app, !w16_len, (write_records_len _ _ C). lia.
Qed.

(* more records than numTables can count are refused *)
Theorem cmap_write_too_many recs : 65535 < len recs -> cmap_write recs = Err BadValue.
Proof. intros H. unfold cmap_write. rewrite fit_u16_out by lia. reflexivity. Qed.

(* the writer never panics: Ok, BadValue (something does not fit) or NotImplemented (format 2) *)
Lemma write_subs_total recs : forall pos,
  (exists r, write_subs pos recs = Ok r) \/ write_subs pos recs = Err BadValue \/ write_subs pos recs = Err NotImplemented.
Proof.
  induction recs as [|r t IH]; intros pos; cbn [write_subs]; [left; eexists; reflexivity|].
  unfold fit_u32. destruct ((0 <=? pos) && (pos <=? 4294967295)); cbn [bind]; [|right; left; reflexivity].
  destruct (sub_fits_dec (cr_sub r)) as [Hf|Hf].
  - destruct (sub_write_fits _ Hf) as [sub ->]. cbn [bind].
    destruct (IH (pos + len sub)) as [[[o bs] ->]|[-> | ->]]; cbn [bind]; [left; eexists; reflexivity|right; left; reflexivity|right; right; reflexivity].
  - rewrite (sub_write_refusal _ Hf). destruct (cr_sub r); cbn [bind]; auto.
Qed.

Theorem cmap_write_total recs :
  (exists b, cmap_write recs = Ok b) \/ cmap_write recs = Err BadValue \/ cmap_write recs = Err NotImplemented.
Proof.
  unfold cmap_write, fit_u16. destruct ((0 <=? len recs) && (len recs <=? 65535)); cbn [bind]; [|right; left; reflexivity].
  destruct (write_subs_total recs (4 + 8 * len recs)) as [[[o bs] ->]|[-> | ->]]; cbn [bind];
    [left; eexists; reflexivity|right; left; reflexivity|right; right; reflexivity].
Qed.

(* ------------------------------------------------------------------------------------------- *)
(* parse-write-parse of the whole table on arbitrary parsable bytes                              *)

Lemma decode_enc_rec_range it :
  bytes_ok it = true ->
  u16 (er_platform (decode_enc_rec it)) /\ u16 (er_encoding (decode_enc_rec it)).
Proof.
  intros Hb. unfold decode_enc_rec, u16. cbn [er_platform er_encoding].
  pose proof (be_val_take_bound 2 it Hb ltac:(lia)) as B1.
  pose proof (be_val_take_bound 2 (drop 2 it) (bytes_ok_drop it 2 Hb) ltac:(lia)) as B2.
  change (256 ^ 2) with 65536 in *. lia.
Qed.

Lemma parse_cmap_range d recs :
  bytes_ok d = true -> parse_cmap d = Ok recs ->
  Forall (fun r => u16 (er_platform r) /\ u16 (er_encoding r)) recs.
Proof.
  intros Hb H. unfold parse_cmap, rd_u16 in H.
  step_rd H Hb 2 version d1 Hv Hb1. step_check H.
  step_rd H Hb1 2 n d2 Hn Hb2.
  destruct (rd_array 8 n d2) as [[items d3]| | |] eqn:Q; cbn [bind] in H; try discriminate.
  destruct (rd_array_ok 8 n d2 items d3 Hb2 (proj1 Hn) Q) as (R1 & _ & _ & _).
  inversion H; subst. apply Forall_forall. intros r Hr. apply in_map_iff in Hr. destruct Hr as (it & <- & Hit).
  rewrite Forall_forall in R1. apply decode_enc_rec_range. apply R1. exact Hit.
Qed.

(* every sub-table the table reader returns is well-formed and equal to its owned form *)
Lemma read_subs_owned d : forall recs l crecs,
  bytes_ok d = true ->
  Forall (fun r => u16 (er_platform r) /\ u16 (er_encoding r)) recs ->
  read_subs d recs = Ok l -> owned_records l = Some crecs ->
  Forall (fun r => u16 (cr_platform r) /\ u16 (cr_encoding r) /\ sub_wf (cr_sub r)) crecs /\
  map cr_sub crecs = map snd l /\
  map cr_platform crecs = map (fun x => er_platform (fst x)) l /\
  map cr_encoding crecs = map (fun x => er_encoding (fst x)) l.
Proof.
  induction recs as [|r t IH]; intros l crecs Hb Hr H Ho; cbn [read_subs] in H.
  - apply ok_inj in H. subst l. cbn in Ho. inversion Ho; subst. repeat split; constructor.
  - bind_inv H st E. bind_inv H tl0 E2. apply ok_inj in H. subst l.
    cbn [owned_records] in Ho.
    destruct (to_owned st) as [o|] eqn:Eo; [|discriminate].
    destruct (owned_records tl0) as [ctl|] eqn:Et; [|discriminate]. inversion Ho; subst crecs. clear Ho.
    pose proof (bytes_ok_slice_from d (er_offset r) Hb) as Hbs.
    assert (Hn2 : ~ is_f2 st) by (intros F; destruct st; try contradiction; discriminate).
    rewrite (to_owned_parsed _ _ Hbs E Hn2) in Eo. inversion Eo; subst o.
    destruct (IH tl0 ctl Hb (Forall_inv_tail Hr) E2 Et) as (A & B & C & D).
    destruct (Forall_inv Hr) as [Hp He].
    cbn [map snd fst cr_sub cr_platform cr_encoding].
    repeat split; try (f_equal; assumption).
    constructor; [|exact A]. cbn [cr_platform cr_encoding cr_sub].
    split; [exact Hp|]. split; [exact He|]. eapply parse_sub_wf; eauto.
Qed.

(* Theorem (parse-write-parse, whole table, arbitrary parsable bytes): if Cmap::read and the reads of
   all sub-tables succeed on [d] and the table has an owned form (no format 2 sub-table), then
   whenever owned::Cmap::write returns Ok, reading the written table gives the same platform ids,
   encoding ids and sub-tables, with the offsets of the (unshared) copies *)
Theorem cmap_parse_write_parse d l crecs b :
  bytes_ok d = true -> cmap_read_all d = Ok l -> owned_records l = Some crecs ->
  cmap_write crecs = Ok b ->
  cmap_read_all b = Ok (mk_recs crecs (table_offsets crecs)) /\
  map cr_sub crecs = map snd l /\
  map cr_platform crecs = map (fun x => er_platform (fst x)) l /\
  map cr_encoding crecs = map (fun x => er_encoding (fst x)) l.
Proof.
  intros Hb H Ho Hw. unfold cmap_read_all in H. bind_inv H recs E.
  pose proof (parse_cmap_range d recs Hb E) as Hr.
  destruct (read_subs_owned d recs l crecs Hb Hr H Ho) as (A & B & C & D).
  split; [apply cmap_roundtrip; assumption|]. auto.
Qed.

(* ------------------------------------------------------------------------------------------- *)
(* agreement with the C08 writer model (owned formats 0 / 4 / 12 as the subsetter reaches them)  *)

Lemma calc_search_range_pos n : 1 <= n -> calc_search_range n = search_range n.
Proof. intros H. unfold calc_search_range, search_range. replace (n =? 0) with false by lia. reflexivity. Qed.

Theorem sub_write_agrees_C08 m st :
  match st with
  | F0 _ g => len g = 256
  | F4 _ _ s _ _ _ => 1 <= len s <= 32767
  | F12 _ _ => True
  | _ => False
  end ->
  write_subtable m st = sub_write st.
Proof.
  destruct st as [l g|l k h sc|l e s d r g|l f g|l f g|l gs]; cbn [write_subtable sub_write]; intros H; try contradiction.
  - rewrite H. rewrite fit_u16_in by lia. reflexivity.
  - replace (65535 <? len s) with false by lia. replace (32768 <=? len s) with false by lia.
    rewrite calc_new_in by lia. cbn [bind].
    unfold calc_range_shift, range_shift, calc_entry_selector, entry_selector. rewrite calc_search_range_pos by lia.
    match goal with |- (if ?c then _ else _) = _ => destruct c eqn:E end.
    + rewrite fit_u16_in; [reflexivity|]. lens. pose proof (len_nonneg e). pose proof (len_nonneg d). pose proof (len_nonneg r). pose proof (len_nonneg g). lia.
    + rewrite fit_u16_out; [reflexivity|]. lia.
  - pose proof (len_nonneg gs).
    match goal with |- (if ?c then _ else _) = _ => destruct c eqn:E end.
    + rewrite fit_u32_in by lia. cbn [bind]. rewrite fit_u32_in by (lens; lia). cbn [bind]. lens.
      replace (8 + (4 + (4 + 12 * len gs))) with (16 + 12 * len gs) by lia. reflexivity.
    + destruct (Z_le_dec (len gs) 4294967295) as [Hs|Hs]; [|rewrite fit_u32_out by lia; reflexivity].
      rewrite fit_u32_in by lia. cbn [bind]. rewrite fit_u32_out by (lens; lia). reflexivity.
Qed.
