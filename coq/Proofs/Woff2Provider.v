(* Proofs/Woff2Provider.v — Woff2TableProvider::new on a TrueType font whose glyf, loca and hmtx
   tables are stored with their transforms: the provider's map holds the serialisation (by the
   modelled writers) of exactly the glyphs and metrics that were encoded, a head table with the
   matching indexToLocFormat, and every other table byte-identical. *)
From AV Require Import Base.Prelude Base.Lemmas Gen.Woff2Lut Model.Woff2
  Proofs.Woff2Spec Proofs.Woff2Ints Proofs.Woff2Triplet Proofs.Woff2Glyf Proofs.Woff2Hmtx Proofs.Woff2Dir.
From Coq Require Import ZifyBool.
Ltac Zify.zify_post_hook ::= Z.div_mod_to_equations.
Open Scope Z_scope.

(* looking a tag up in the directory of distinct tags finds that table's entry *)
Lemma find_entry_unique : forall ts t,
  Forall tabspec_ok ts -> NoDup (map t_tag ts) -> In t ts ->
  exists e,
    find (fun e => e_tag e =? t_tag t) (spec_entries 0 ts) = Some e /\
    offset_length (block_of ts) (e_offset e) (entry_length e) = Ok (t_data t) /\
    e_transform_length e = (if t_transformed t then Some (len (t_data t)) else None).
Proof.
  intros ts t Hok Hnd Hin.
  destruct (find (fun e => e_tag e =? t_tag t) (spec_entries 0 ts)) as [e|] eqn:F.
  - exists e. split; [reflexivity|]. apply find_some in F. destruct F as (He & Htag).
    pose proof (spec_entries_data ts [] [] e Hok) as Hd. change (len (block_of [])) with 0 in Hd.
    specialize (Hd He). destruct Hd as (t' & Hin' & Htag' & Hdata & Htl & _).
    cbn [app] in Hdata. rewrite app_nil_r in Hdata.
    assert (t' = t) as ->.
    { clear - Hnd Hin Hin' Htag Htag'. assert (t_tag t' = t_tag t) as E by lia. clear Htag Htag'.
      induction ts as [|x ts IH]; [destruct Hin|]. cbn [map] in Hnd. inversion Hnd as [|? ? Hx Hnd']; subst.
      destruct Hin as [->|Hin], Hin' as [->|Hin']; try reflexivity.
      - exfalso. apply Hx. rewrite <- E. apply in_map. exact Hin'.
      - exfalso. apply Hx. rewrite E. apply in_map. exact Hin.
      - apply IH; assumption. }
    split; assumption.
  - exfalso. assert (In (t_tag t) (map e_tag (spec_entries 0 ts))) as Hm.
    { rewrite spec_entries_tags. apply in_map. exact Hin. }
    apply in_map_iff in Hm. destruct Hm as (e & He & Hine).
    pose proof (find_none _ _ F e Hine) as Hn. cbn beta in Hn. lia.
Qed.

Lemma find_entry_absent : forall ts tag,
  ~ In tag (map t_tag ts) -> find (fun e => e_tag e =? tag) (spec_entries 0 ts) = None.
Proof.
  intros ts tag Hn. destruct (find (fun e => e_tag e =? tag) (spec_entries 0 ts)) as [e|] eqn:F; [|reflexivity].
  exfalso. apply find_some in F. destruct F as (He & Htag). apply Hn.
  rewrite <- spec_entries_tags with (off := 0). replace tag with (e_tag e) by lia. apply in_map. exact He.
Qed.

(* "Add remaining tables" over entries of distinct tags: those already present are skipped *)
Lemma add_remaining_skip : forall f es datas acc,
  Forall2 (fun e d => entry_data f e = Ok d) es datas -> NoDup (map e_tag es) ->
  add_remaining f es acc =
    Ok (acc ++ filter (fun p => negb (existsb (fun q : Z * list Z => fst q =? fst p) acc))
                      (combine (map e_tag es) datas)).
Proof.
  intros f es datas acc H. revert acc.
  induction H as [|e d es datas He _ IH]; intros acc Hnd.
  - cbn [add_remaining map combine filter]. rewrite app_nil_r. reflexivity.
  - cbn [map] in Hnd. inversion Hnd as [|? ? Hx Hnd']; subst.
    cbn [add_remaining map combine filter fst].
    destruct (existsb (fun p : Z * list Z => fst p =? e_tag e) acc) eqn:Ex.
    + cbn [negb]. apply IH. exact Hnd'.
    + cbn [negb]. rewrite He. cbn [bind]. rewrite IH by exact Hnd'. rewrite <- app_assoc. cbn [app].
      f_equal. f_equal. f_equal.
      apply filter_ext_in. intros [tg dd] Hin. cbn [fst].
      rewrite existsb_app. cbn [existsb fst]. rewrite orb_false_r.
      assert ((e_tag e =? tg) = false) as Hne.
      { apply in_combine_l in Hin. apply not_true_is_false. intros Hc. apply Hx.
        replace (e_tag e) with tg by lia. exact Hin. }
      rewrite Hne, orb_false_r. reflexivity.
Qed.

(* glyphs decoded from a transformed table are parsed records: their xMin is readable *)
Lemma encoded_glyphs_readable : forall gs cs,
  Forall2 encodes_glyph gs cs -> Forall xmin_readable gs.
Proof.
  intros gs cs H. induction H as [|g c gs cs Hg _ IH]; constructor; [|exact IH].
  destruct Hg; exact I.
Qed.

Definition rebuilt_tag (tag : Z) : bool :=
  (tag =? tag_hmtx) || (tag =? tag_glyf) || (tag =? tag_head) || (tag =? tag_loca).

(* The provider on a font with transformed glyf, loca and hmtx.  `gs` and `h` are the glyphs and
   metrics the encoder started from.  PARTIAL with respect to C11: the rebuilt glyf/loca are the
   output of the modelled writers on exactly `gs` (G, offs, L below); that this output, read as a
   TrueType glyf table, describes `gs` again is checked by correspondence (the harness parses it
   with its own reader), not proved here.  hmtx is proved to be the plain serialisation of `h`.
   The hypothesis `Z.land flags 2 = 0` (the trailing leftSideBearing[] array is present in the
   stream) excludes the known finding C11-hmtx-lsb-absent. *)
Theorem transformed_font_tables_partial :
  forall m ts flavor index gs h flags gt lt ht hdt mt hht head long G offs L,
  Forall tabspec_ok ts -> NoDup (map t_tag ts) ->
  In gt ts -> t_tag gt = tag_glyf -> t_transformed gt = true -> encodes_glyf_table gs (t_data gt) ->
  In lt ts -> t_tag lt = tag_loca -> t_transformed lt = true ->
  In ht ts -> t_tag ht = tag_hmtx -> t_transformed ht = true ->
  encodes_hmtx_flags flags gs h (t_data ht) -> Z.land flags 2 = 0 -> hmtx_ok gs h ->
  In hdt ts -> t_tag hdt = tag_head -> t_transformed hdt = false -> read_head (t_data hdt) = Ok (head, long) ->
  In mt ts -> t_tag mt = tag_maxp -> t_transformed mt = false -> read_maxp (t_data mt) = Ok (len gs) ->
  In hht ts -> t_tag hht = tag_hhea -> t_transformed hht = false -> read_hhea (t_data hht) = Ok (len (fst h)) ->
  write_glyf m (negb long) gs 0 = Ok (G, offs) ->
  write_loca (negb (long || (65535 <? last offs 0 / 2))) offs = Some L ->
  table_provider m {| f_flavor := flavor; f_dir := spec_entries 0 ts; f_coll := None;
                      f_block := block_of ts |} index
  = Ok ([(tag_hmtx, write_hmtx h); (tag_glyf, G);
         (tag_head, write_head head (long || (65535 <? last offs 0 / 2))); (tag_loca, L)]
        ++ map (fun t => (t_tag t, t_data t)) (filter (fun t => negb (rebuilt_tag (t_tag t))) ts)).
Proof.
  intros m ts flavor index gs h flags gt lt ht hdt mt hht head long G offs L Hok Hnd
         Hgt Egt Tgt Hglyf Hlt Elt Tlt Hht Eht Tht Hhmtx Hbit Hhok Hhd Ehd Thd Rhd Hmt Emt Tmt Rmt Hhh Ehh Thh Rhh
         Wg Wl.
  destruct (find_entry_unique ts gt Hok Hnd Hgt) as (eg & Fg & Dg & Lg).
  destruct (find_entry_unique ts lt Hok Hnd Hlt) as (el & Fl & Dl & Ll).
  destruct (find_entry_unique ts ht Hok Hnd Hht) as (eh & Fh & Dh & Lh).
  destruct (find_entry_unique ts hdt Hok Hnd Hhd) as (ehd & Fhd & Dhd & Lhd).
  destruct (find_entry_unique ts mt Hok Hnd Hmt) as (em & Fm & Dm & Lm).
  destruct (find_entry_unique ts hht Hok Hnd Hhh) as (ehh & Fhh & Dhh & Lhh).
  rewrite Egt in Fg. rewrite Elt in Fl. rewrite Eht in Fh. rewrite Ehd in Fhd. rewrite Emt in Fm. rewrite Ehh in Fhh.
  rewrite Tgt in Lg. rewrite Tlt in Ll. rewrite Tht in Lh.
  unfold table_provider, find_entry, font_entries, table_bytes, find_entry, font_entries, entry_data.
  cbn [f_coll f_dir f_block].
  rewrite Fh, Fg. cbn [entry_transformed]. rewrite Lh, Lg. cbn [is_some orb].
  rewrite Dg. cbn [bind]. rewrite Fhd, Dhd. cbn [bind]. rewrite Rhd. cbn [bind].
  rewrite Fm, Dm. cbn [bind]. rewrite Rmt. cbn [bind].
  rewrite Fhh, Dhh. cbn [bind]. rewrite Rhh. cbn [bind].
  rewrite Fl, Dl. cbn [bind]. rewrite Ll. cbn [is_some bind].
  rewrite (glyf_transform_roundtrip m gs _ Hglyf). cbn [bind].
  rewrite Dh. cbn [bind].
  destruct Hglyf as (cs & bm & ifmt & oflags & Hcs & _).
  rewrite (hmtx_transform_roundtrip flags gs h _ Hhok (encoded_glyphs_readable gs cs Hcs) Hhmtx Hbit). cbn [bind].
  rewrite Wg. cbn [bind]. rewrite Wl. cbn [bind app].
  pose proof (entries_data_all ts [] [] Hok) as Hd. cbn [app] in Hd. rewrite app_nil_r in Hd.
  change (len (block_of [])) with 0 in Hd.
  rewrite (add_remaining_skip _ _ (map t_data ts)).
  - f_equal. cbn [app]. f_equal. f_equal. f_equal. f_equal.
    rewrite spec_entries_tags, combine_map.
    clear. induction ts as [|t ts IH]; [reflexivity|]. cbn [map filter fst existsb].
    unfold rebuilt_tag at 1. rewrite orb_false_r.
    rewrite (Z.eqb_sym tag_hmtx), (Z.eqb_sym tag_glyf), (Z.eqb_sym tag_head), (Z.eqb_sym tag_loca).
    rewrite <- !orb_assoc.
    destruct ((t_tag t =? tag_hmtx) || ((t_tag t =? tag_glyf) || ((t_tag t =? tag_head) || (t_tag t =? tag_loca))));
      cbn [negb]; [exact IH|]. cbn [map]. f_equal. exact IH.
  - exact Hd.
  - rewrite spec_entries_tags. exact Hnd.
Qed.
