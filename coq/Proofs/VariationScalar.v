(* Proofs/VariationScalar.v — region scalars (property C12, part a):
   calculate_scalar against the OpenType variation-model algorithm, range, behaviour at the peak
   and at the default location, tuple scalars, implied regions. *)
From AV Require Import Base.Prelude Base.Lemmas Gen.VariationConsts Model.Variation.
From Coq Require Import QArith Qround Lia.
Local Open Scope Z_scope.

(* ---------------------------------------------------------------------------------------- *)
(* The specification: "Algorithm for interpolation of instance values", per-axis scalar AS,
   written as a relation on (start, peak, end, instance coordinate) independent of the order in
   which the implementation tests its cases.  Values are raw F2Dot14 integers; only ratios of
   differences occur, so the 2^-14 scale cancels. *)

Definition region_valid (s p e : Z) : Prop :=
  s <= p <= e /\ ~ (s < 0 /\ 0 < e /\ p <> 0).

Inductive axis_scalar_spec (s p e x : Z) : Q -> Prop :=
| AS_invalid : ~ region_valid s p e -> axis_scalar_spec s p e x 1%Q          (* malformed: ignore the axis *)
| AS_peak_zero : region_valid s p e -> p = 0 -> axis_scalar_spec s p e x 1%Q  (* axis does not take part *)
| AS_outside : region_valid s p e -> p <> 0 -> (x < s \/ e < x) -> axis_scalar_spec s p e x 0%Q
| AS_at_peak : region_valid s p e -> p <> 0 -> x = p -> axis_scalar_spec s p e x 1%Q
| AS_rising : region_valid s p e -> p <> 0 -> s <= x < p ->
    axis_scalar_spec s p e x (qz (x - s) / qz (p - s))%Q
| AS_falling : region_valid s p e -> p <> 0 -> p < x <= e ->
    axis_scalar_spec s p e x (qz (e - x) / qz (e - p))%Q.

Lemma region_valid_dec s p e :
  ((p <? s) || (e <? p) = true \/ ((p <? s) || (e <? p) = false /\ (s <? 0) && (0 <? e) && negb (p =? 0) = true))
  <-> ~ region_valid s p e.
Proof.
  unfold region_valid. split.
  - intros [H | [H1 H2]] [Ho Hs].
    + apply orb_true_iff in H as [H | H]; apply Z.ltb_lt in H; lia.
    + apply andb_true_iff in H2 as [H2 H3]. apply andb_true_iff in H2 as [H2 H4].
      apply Z.ltb_lt in H2, H4. apply negb_true_iff, Z.eqb_neq in H3. apply Hs. lia.
  - intros H.
    destruct ((p <? s) || (e <? p)) eqn:E1; [left; reflexivity|right; split; [reflexivity|]].
    apply orb_false_iff in E1 as [A B]. apply Z.ltb_ge in A, B.
    destruct ((s <? 0) && (0 <? e) && negb (p =? 0)) eqn:E2; [reflexivity|exfalso].
    apply H. split; [lia|]. intros (H1 & H2 & H3).
    assert (s <? 0 = true) by (apply Z.ltb_lt; lia).
    assert (0 <? e = true) by (apply Z.ltb_lt; lia).
    assert (negb (p =? 0) = true) by (apply negb_true_iff, Z.eqb_neq; lia).
    rewrite H0, H4, H5 in E2. discriminate.
Qed.

(* the implementation's scalar satisfies the specification, for every input *)
Lemma calculate_scalar_spec x s p e : axis_scalar_spec s p e x (calculate_scalar x s p e).
Proof.
  unfold calculate_scalar.
  destruct ((p <? s) || (e <? p)) eqn:E1.
  { apply AS_invalid. apply region_valid_dec. left. exact E1. }
  destruct ((s <? 0) && (0 <? e) && negb (p =? 0)) eqn:E2.
  { apply AS_invalid. apply region_valid_dec. right. split; assumption. }
  assert (V : region_valid s p e).
  { unfold region_valid. apply orb_false_iff in E1 as [A B]. apply Z.ltb_ge in A, B. split; [lia|].
    intros (H1 & H2 & H3).
    assert (s <? 0 = true) by (apply Z.ltb_lt; lia).
    assert (0 <? e = true) by (apply Z.ltb_lt; lia).
    assert (negb (p =? 0) = true) by (apply negb_true_iff, Z.eqb_neq; lia).
    rewrite H, H0, H4 in E2. discriminate. }
  destruct (p =? 0) eqn:E3.
  { apply AS_peak_zero; [exact V|]. apply Z.eqb_eq. exact E3. }
  apply Z.eqb_neq in E3.
  destruct ((s <=? x) && (x <=? e)) eqn:E4.
  - apply andb_true_iff in E4 as [A B]. apply Z.leb_le in A, B.
    destruct (x =? p) eqn:E5.
    + apply AS_at_peak; [exact V|exact E3|]. apply Z.eqb_eq. exact E5.
    + apply Z.eqb_neq in E5. destruct (x <? p) eqn:E6.
      * apply Z.ltb_lt in E6. apply AS_rising; [exact V|exact E3|lia].
      * apply Z.ltb_ge in E6. apply AS_falling; [exact V|exact E3|lia].
  - apply AS_outside; [exact V|exact E3|].
    apply andb_false_iff in E4 as [A | A]; apply Z.leb_gt in A; lia.
Qed.

(* the specification determines the scalar *)
Lemma axis_scalar_spec_functional s p e x q1 q2 :
  axis_scalar_spec s p e x q1 -> axis_scalar_spec s p e x q2 -> q1 = q2.
Proof.
  intros H1 H2. inversion H1; subst; inversion H2; subst; try reflexivity; try contradiction;
    unfold region_valid in *; lia.
Qed.

(* ---------------------------------------------------------------------------------------- *)
(* arithmetic on quotients of integers *)

Lemma qz_pos a : 0 < a -> (0 < qz a)%Q.
Proof. intros H. unfold qz. change (inject_Z 0 < inject_Z a)%Q. rewrite <- Zlt_Qlt. exact H. Qed.

Lemma qdiv_range a b : 0 <= a <= b -> 0 < b -> (0 <= qz a / qz b)%Q /\ (qz a / qz b <= 1)%Q.
Proof.
  intros Ha Hb. split.
  - apply Qle_shift_div_l; [apply qz_pos; exact Hb|].
    rewrite Qmult_0_l. unfold qz. change (inject_Z 0 <= inject_Z a)%Q. rewrite <- Zle_Qle. lia.
  - apply Qle_shift_div_r; [apply qz_pos; exact Hb|].
    rewrite Qmult_1_l. unfold qz. rewrite <- Zle_Qle. lia.
Qed.

Lemma qdiv_zero b : (qz 0 / qz b == 0)%Q.
Proof. unfold qz, Qdiv. rewrite Qmult_0_l. reflexivity. Qed.

Lemma qz_nonzero b : 0 < b -> ~ (qz b == 0)%Q.
Proof.
  intros H E. apply qz_pos in H. rewrite E in H. apply Qlt_irrefl in H. exact H.
Qed.

Lemma qdiv_self b : 0 < b -> (qz b / qz b == 1)%Q.
Proof. intros H. unfold Qdiv. apply Qmult_inv_r. apply qz_nonzero. exact H. Qed.

(* the scalar lies in [0, 1] *)
Lemma calculate_scalar_range x s p e :
  (0 <= calculate_scalar x s p e)%Q /\ (calculate_scalar x s p e <= 1)%Q.
Proof.
  pose proof (calculate_scalar_spec x s p e) as H.
  inversion H as [V Hq|V P Hq|V P O Hq|V P A Hq|V P A Hq|V P A Hq]; unfold region_valid in *;
    try (split; [discriminate | apply Qle_refl]); try (split; [apply Qle_refl | discriminate]).
  - apply qdiv_range; lia.
  - apply qdiv_range; lia.
Qed.

(* linear interpolation: on the rising side scalar * (peak - start) = coord - start *)
Lemma calculate_scalar_rising x s p e :
  region_valid s p e -> p <> 0 -> s <= x < p ->
  (calculate_scalar x s p e * qz (p - s) == qz (x - s))%Q.
Proof.
  intros V P A. pose proof (calculate_scalar_spec x s p e) as H.
  rewrite (axis_scalar_spec_functional _ _ _ _ _ _ H (AS_rising s p e x V P A)).
  unfold Qdiv. rewrite <- Qmult_assoc. rewrite (Qmult_comm (/ qz (p - s))).
  rewrite Qmult_inv_r; [apply Qmult_1_r|]. apply qz_nonzero. lia.
Qed.

Lemma calculate_scalar_falling x s p e :
  region_valid s p e -> p <> 0 -> p < x <= e ->
  (calculate_scalar x s p e * qz (e - p) == qz (e - x))%Q.
Proof.
  intros V P A. pose proof (calculate_scalar_spec x s p e) as H.
  rewrite (axis_scalar_spec_functional _ _ _ _ _ _ H (AS_falling s p e x V P A)).
  unfold Qdiv. rewrite <- Qmult_assoc. rewrite (Qmult_comm (/ qz (e - p))).
  rewrite Qmult_inv_r; [apply Qmult_1_r|]. apply qz_nonzero. lia.
Qed.

(* at the peak the scalar is 1, outside [start, end] it is 0, at start and end it is 0 unless
   they coincide with the peak *)
Lemma calculate_scalar_at_peak s p e : calculate_scalar p s p e = 1%Q.
Proof.
  pose proof (calculate_scalar_spec p s p e) as H.
  inversion H; try reflexivity; unfold region_valid in *; lia.
Qed.

Lemma calculate_scalar_outside x s p e :
  region_valid s p e -> p <> 0 -> (x < s \/ e < x) -> calculate_scalar x s p e = 0%Q.
Proof.
  intros V P O. exact (axis_scalar_spec_functional _ _ _ _ _ _ (calculate_scalar_spec x s p e) (AS_outside s p e x V P O)).
Qed.

Lemma calculate_scalar_at_start s p e :
  region_valid s p e -> p <> 0 -> s < p -> (calculate_scalar s s p e == 0)%Q.
Proof.
  intros V P A. pose proof (calculate_scalar_spec s s p e) as H.
  assert (B : s <= s < p) by lia.
  rewrite (axis_scalar_spec_functional _ _ _ _ _ _ H (AS_rising s p e s V P B)).
  replace (s - s) with 0 by lia. apply qdiv_zero.
Qed.

Lemma calculate_scalar_at_end s p e :
  region_valid s p e -> p <> 0 -> p < e -> (calculate_scalar e s p e == 0)%Q.
Proof.
  intros V P A. pose proof (calculate_scalar_spec e s p e) as H.
  assert (B : p < e <= e) by lia.
  rewrite (axis_scalar_spec_functional _ _ _ _ _ _ H (AS_falling s p e e V P B)).
  replace (e - e) with 0 by lia. apply qdiv_zero.
Qed.

(* the default location: a valid region with a non-zero peak does not apply at coordinate 0 *)
Lemma calculate_scalar_default s p e :
  region_valid s p e -> p <> 0 -> (calculate_scalar 0 s p e == 0)%Q.
Proof.
  intros V P. pose proof V as [Ho Hs].
  destruct (Z_lt_le_dec 0 s) as [A | A].
  { rewrite (calculate_scalar_outside 0 s p e V P); [reflexivity|lia]. }
  destruct (Z_lt_le_dec e 0) as [B | B].
  { rewrite (calculate_scalar_outside 0 s p e V P); [reflexivity|lia]. }
  (* s <= 0 <= e and not (s < 0 < e): s = 0 or e = 0 *)
  destruct (Z.eq_dec s 0) as [S0 | S0].
  - subst s. apply calculate_scalar_at_start; [exact V|exact P|lia].
  - assert (e = 0) by lia. subst e. apply calculate_scalar_at_end; [exact V|exact P|lia].
Qed.

(* ---------------------------------------------------------------------------------------- *)
(* implied regions (no intermediate-region flag): always valid *)

Lemma implied_region_valid p : region_valid (implied_start p) p (implied_end p).
Proof.
  unfold region_valid, implied_start, implied_end.
  destruct (p <? 0) eqn:E1; [apply Z.ltb_lt in E1|apply Z.ltb_ge in E1].
  - split; lia.
  - destruct (p =? 0) eqn:E2; [apply Z.eqb_eq in E2|apply Z.eqb_neq in E2]; split; lia.
Qed.

(* the implied region is the one the specification prescribes: from zero to the peak *)
Lemma implied_region_spec p :
  (p < 0 -> implied_start p = p /\ implied_end p = 0) /\
  (p = 0 -> implied_start p = 0 /\ implied_end p = 0) /\
  (0 < p -> implied_start p = 0 /\ implied_end p = p).
Proof.
  unfold implied_start, implied_end. split; [|split]; intros Hp; split.
  - destruct (p <? 0) eqn:E; [reflexivity|apply Z.ltb_ge in E; lia].
  - destruct (p <? 0) eqn:E; [reflexivity|apply Z.ltb_ge in E; lia].
  - subst p. reflexivity.
  - subst p. reflexivity.
  - destruct (p <? 0) eqn:E; [apply Z.ltb_lt in E; lia|]. destruct (p =? 0) eqn:E2; [apply Z.eqb_eq in E2; lia|reflexivity].
  - destruct (p <? 0) eqn:E; [apply Z.ltb_lt in E; lia|reflexivity].
Qed.

(* ---------------------------------------------------------------------------------------- *)
(* tuple scalars: the product of the per-axis scalars over the axes present in all four tuples *)

Lemma q_is_zero_iff q : q_is_zero q = true <-> (q == 0)%Q.
Proof.
  unfold q_is_zero, Qeq. cbn [Qnum Qden]. rewrite Z.eqb_eq. lia.
Qed.

Lemma tuple_scalar_range : forall starts ends inst peaks,
  (0 <= tuple_scalar starts ends inst peaks)%Q /\ (tuple_scalar starts ends inst peaks <= 1)%Q.
Proof.
  induction starts as [|s ss IH]; intros ends inst peaks.
  { cbn [tuple_scalar]. split; discriminate. }
  destruct ends as [|e es]; [cbn [tuple_scalar]; split; discriminate|].
  destruct inst as [|i is_]; [cbn [tuple_scalar]; split; discriminate|].
  destruct peaks as [|p ps]; [cbn [tuple_scalar]; split; discriminate|].
  cbn [tuple_scalar].
  destruct (calculate_scalar_range i s p e) as [A1 A2]. destruct (IH es is_ ps) as [B1 B2].
  split.
  - apply Qmult_le_0_compat; assumption.
  - apply Qle_trans with (calculate_scalar i s p e * 1)%Q.
    + rewrite (Qmult_comm _ (tuple_scalar ss es is_ ps)), (Qmult_comm _ 1%Q).
      apply Qmult_le_compat_r; assumption.
    + rewrite Qmult_1_r. exact A2.
Qed.

(* an axis with scalar 0 makes the whole tuple scalar 0 *)
Lemma tuple_scalar_zero_axis : forall (k : nat) starts ends inst peaks,
  (calculate_scalar (nth k inst 0%Z) (nth k starts 0%Z) (nth k peaks 0%Z) (nth k ends 0%Z) == 0)%Q ->
  (k < length starts)%nat -> (k < length ends)%nat -> (k < length inst)%nat -> (k < length peaks)%nat ->
  (tuple_scalar starts ends inst peaks == 0)%Q.
Proof.
  induction k as [|k IH]; intros starts ends inst peaks H L1 L2 L3 L4;
    destruct starts as [|s ss]; destruct ends as [|e es]; destruct inst as [|i is_]; destruct peaks as [|p ps];
    cbn [length] in *; try lia; cbn [tuple_scalar].
  - cbn [nth] in H. rewrite H. apply Qmult_0_l.
  - cbn [nth] in H. rewrite (IH ss es is_ ps H); [apply Qmult_0_r| lia | lia | lia | lia].
Qed.

(* at the default location (all coordinates zero) a tuple with a valid non-zero-peak axis does not apply *)
Lemma tuple_scalar_default (k : nat) starts ends peaks (n : nat) :
  (k < length starts)%nat -> (k < length ends)%nat -> (k < n)%nat -> (k < length peaks)%nat ->
  region_valid (nth k starts 0) (nth k peaks 0) (nth k ends 0) -> nth k peaks 0 <> 0 ->
  (tuple_scalar starts ends (repeat 0%Z n) peaks == 0)%Q.
Proof.
  intros L1 L2 L3 L4 V P.
  apply (tuple_scalar_zero_axis k); try assumption.
  - rewrite nth_repeat. apply calculate_scalar_default; assumption.
  - rewrite repeat_length. exact L3.
Qed.

Lemma nth_map_default {A B} (f : A -> B) (l : list A) (k : nat) (da : A) (db : B) :
  (k < length l)%nat -> nth k (map f l) db = f (nth k l da).
Proof.
  revert k. induction l as [|x l IH]; intros k H; cbn [length] in H; [lia|].
  destruct k as [|k]; cbn [map nth]; [reflexivity|]. apply IH. lia.
Qed.

(* determine_applicable at the default location: a header whose peak tuple has a non-zero
   coordinate (and, when it carries an intermediate region, a valid one on that axis) is filtered out *)
Lemma header_scalar_default shared (h : tvh) (n : nat) peak (k : nat) :
  header_peak shared h = Some peak ->
  (k < length peak)%nat -> (k < n)%nat -> nth k peak 0 <> 0 ->
  (match tvh_inter h with
   | Some (s, e) => (k < length s)%nat /\ (k < length e)%nat /\ region_valid (nth k s 0) (nth k peak 0) (nth k e 0)
   | None => True
   end) ->
  header_scalar shared (repeat 0 n) h = None.
Proof.
  intros HP L1 L2 P HI. unfold header_scalar. rewrite HP.
  destruct (tvh_inter h) as [[s e]|].
  - destruct HI as (L3 & L4 & V).
    assert (Z0 : (tuple_scalar s e (repeat 0%Z n) peak == 0)%Q) by (apply (tuple_scalar_default k); assumption).
    apply q_is_zero_iff in Z0. rewrite Z0. reflexivity.
  - assert (Z0 : (tuple_scalar (map implied_start peak) (map implied_end peak) (repeat 0%Z n) peak == 0)%Q).
    { apply (tuple_scalar_default k); try assumption; try (rewrite map_length; assumption).
      rewrite (nth_map_default implied_start peak k 0 0 L1), (nth_map_default implied_end peak k 0 0 L1).
      apply implied_region_valid. }
    apply q_is_zero_iff in Z0. rewrite Z0. reflexivity.
Qed.

(* region_scalar (item variation stores): the same product over (start, peak, end) triples *)
Lemma region_product_range : forall axes tuple,
  (0 <= region_product axes tuple)%Q /\ (region_product axes tuple <= 1)%Q.
Proof.
  induction axes as [|[[s p] e] ar IH]; intros tuple.
  { cbn [region_product]. split; discriminate. }
  destruct tuple as [|i tr]; [cbn [region_product]; split; discriminate|].
  cbn [region_product].
  destruct (calculate_scalar_range i s p e) as [A1 A2]. destruct (IH tr) as [B1 B2].
  split.
  - apply Qmult_le_0_compat; assumption.
  - apply Qle_trans with (calculate_scalar i s p e * 1)%Q.
    + rewrite (Qmult_comm _ (region_product ar tr)), (Qmult_comm _ 1%Q).
      apply Qmult_le_compat_r; assumption.
    + rewrite Qmult_1_r. exact A2.
Qed.

Lemma region_product_default : forall (k : nat) axes (n : nat),
  (k < length axes)%nat -> (k < n)%nat ->
  (let '(s, p, e) := nth k axes (0, 0, 0) in region_valid s p e /\ p <> 0) ->
  (region_product axes (repeat 0%Z n) == 0)%Q.
Proof.
  induction k as [|k IH]; intros axes n L1 L2 H; destruct axes as [|[[s p] e] ar]; cbn [length] in L1; try lia;
    destruct n as [|n]; try lia; cbn [repeat region_product].
  - cbn [nth] in H. destruct H as [V P]. rewrite (calculate_scalar_default s p e V P). apply Qmult_0_l.
  - cbn [nth] in H. rewrite (IH ar n); [apply Qmult_0_r|lia|lia|exact H].
Qed.
