(* Proofs/GposProofs.v — lemmas about Model/Gpos.v: Adjust::apply accumulation, SinglePos / PairPos / mark
   attachment lookups vs. their declarative reading, kern table lookup, feature lookup ordering, the
   iteration strategies, and the attachment-index invariant of everything gpos_apply_lookup produces. *)
From AV Require Import Base.Prelude Base.Lemmas Gen.LayoutConsts Gen.GposConsts Model.Layout Model.LayoutSpec Model.Gpos
  Model.Position Model.GposSpec Proofs.LayoutProofs.
From Coq Require Import ZifyBool.
Open Scope Z_scope.

Lemma nth_error_Some_lt {A} (l : list A) n x : nth_error l n = Some x -> (n < length l)%nat.
Proof. intros H. apply nth_error_Some. congruence. Qed.

(* ------------------------------------------------------------------ (b) Adjust::apply *)
(* iN::saturating_add: the mathematical sum when it fits the field, the nearer bound of the field otherwise *)
Lemma sat_signed_spec bits v : 0 < bits ->
  (- 2 ^ (bits - 1) <= v < 2 ^ (bits - 1) -> sat_signed bits v = v) /\
  (v < - 2 ^ (bits - 1) -> sat_signed bits v = - 2 ^ (bits - 1)) /\
  (2 ^ (bits - 1) <= v -> sat_signed bits v = 2 ^ (bits - 1) - 1) /\
  - 2 ^ (bits - 1) <= sat_signed bits v < 2 ^ (bits - 1).
Proof.
  intros Hb. assert (Hp : 0 < 2 ^ (bits - 1)) by (apply Z.pow_pos_nonneg; lia).
  unfold sat_signed. remember (2 ^ (bits - 1)) as h eqn:Eh. clear Eh.
  destruct (Z.ltb_spec v (- h)); destruct (Z.leb_spec h v); repeat split; intros; lia.
Qed.

Theorem sat_add16_spec : forall a b,
  (-32768 <= a + b < 32768 -> sat_add16 a b = a + b) /\
  (a + b < -32768 -> sat_add16 a b = -32768) /\
  (32768 <= a + b -> sat_add16 a b = 32767) /\
  -32768 <= sat_add16 a b < 32768.
Proof. intros a b. unfold sat_add16. pose proof (sat_signed_spec 16 (a + b) ltac:(lia)) as H. change (2 ^ (16 - 1)) with 32768 in H. exact H. Qed.

Theorem sat_add32_spec : forall a b,
  (-2147483648 <= a + b < 2147483648 -> sat_add32 a b = a + b) /\
  (a + b < -2147483648 -> sat_add32 a b = -2147483648) /\
  (2147483648 <= a + b -> sat_add32 a b = 2147483647) /\
  -2147483648 <= sat_add32 a b < 2147483648.
Proof. intros a b. unfold sat_add32. pose proof (sat_signed_spec 32 (a + b) ltac:(lia)) as H. change (2 ^ (32 - 1)) with 2147483648 in H. exact H. Qed.

Lemma sat_add16_in_range a b : -32768 <= a + b < 32768 -> sat_add16 a b = a + b.
Proof. apply sat_add16_spec. Qed.

Lemma sat_add32_in_range a b : -2147483648 <= a + b < 2147483648 -> sat_add32 a b = a + b.
Proof. apply sat_add32_spec. Qed.

(* what a value record does to the placement of a glyph, every sum exact *)
Definition placement_plus (p : placement) (xp yp : Z) : placement :=
  if (xp =? 0) && (yp =? 0) then p
  else match p with
       | PDistance x1 y1 => PDistance (x1 + xp) (y1 + yp)
       | PMarkAnchor i (ax, ay) an2 => PMarkAnchor i (ax + xp, ay + yp) an2
       | PNone | PMarkOverprint _ | PCursiveAnchor _ _ _ _ => PDistance xp yp
       end.

(* ... and with the sums clamped to the field that holds them: what the code does for ALL inputs *)
Definition placement_plus_sat (p : placement) (xp yp : Z) : placement :=
  if (xp =? 0) && (yp =? 0) then p
  else match p with
       | PDistance x1 y1 => PDistance (sat_signed 32 (x1 + xp)) (sat_signed 32 (y1 + yp))
       | PMarkAnchor i (ax, ay) an2 => PMarkAnchor i (sat_signed 16 (ax + xp), sat_signed 16 (ay + yp)) an2
       | PNone | PMarkOverprint _ | PCursiveAnchor _ _ _ _ => PDistance xp yp
       end.

Definition placement_fits (p : placement) (xp yp : Z) : Prop :=
  match p with
  | PDistance x1 y1 => -2147483648 <= x1 + xp < 2147483648 /\ -2147483648 <= y1 + yp < 2147483648
  | PMarkAnchor _ (ax, ay) _ => -32768 <= ax + xp < 32768 /\ -32768 <= ay + yp < 32768
  | _ => True
  end.

Lemma to_signed16_id v : -32768 <= v < 32768 -> to_signed 16 v = v.
Proof.
  intros H. unfold to_signed. change (2 ^ 16) with 65536. change (2 ^ (16 - 1)) with 32768.
  destruct (Z.ltb_spec (v mod 65536) 32768); lia.
Qed.

(* Adjust::apply is total and the same in every build profile.  For EVERY record without vertical advance
   (fields in i16 range, as ValueRecord::read_dep delivers them) and every glyph: x_advance is added to the
   kerning and (x_placement, y_placement) to the placement, each sum clamped to the field that holds it. *)
Theorem adjust_saturates : forall a x,
  y_advance a = 0 ->
  -32768 <= x_placement a < 32768 -> -32768 <= y_placement a < 32768 ->
  adjust_apply a x =
  set_kern (set_place x (placement_plus_sat (i_place x) (x_placement a) (y_placement a)))
           (sat_signed 16 (i_kern x + x_advance a)).
Proof.
  intros a x Hy Hxp Hyp. unfold adjust_apply, placement_plus_sat. rewrite Hy.
  destruct ((x_placement a =? 0) && (y_placement a =? 0)) eqn:E0.
  - cbn [Z.eqb negb andb]. destruct (x_advance a =? 0) eqn:Ea; cbn [negb andb].
    + assert (Hz : x_advance a = 0) by lia. rewrite Hz. destruct x; reflexivity.
    + destruct x; reflexivity.
  - cbn [Z.eqb]. unfold combine_distance, sat_add16, sat_add32.
    destruct (i_place x) as [|x1 y1|bi [ax ay] an2|bi|e r an1 an2] eqn:Ep; try reflexivity.
    rewrite !to_signed16_id by lia. reflexivity.
Qed.

Lemma placement_plus_sat_fits p xp yp : placement_fits p xp yp -> placement_plus_sat p xp yp = placement_plus p xp yp.
Proof.
  intros Hfit. unfold placement_plus_sat, placement_plus. destruct ((xp =? 0) && (yp =? 0)); [reflexivity|].
  destruct p as [|x1 y1|bi [ax ay] an2|bi|e r an1 an2]; cbn [placement_fits] in Hfit; try reflexivity.
  - pose proof (sat_add32_in_range x1 xp) as H1. pose proof (sat_add32_in_range y1 yp) as H2.
    unfold sat_add32 in H1, H2. rewrite H1, H2 by lia. reflexivity.
  - pose proof (sat_add16_in_range ax xp) as H1. pose proof (sat_add16_in_range ay yp) as H2.
    unfold sat_add16 in H1, H2. rewrite H1, H2 by lia. reflexivity.
Qed.

(* whenever the 16/32-bit sums fit they are the mathematical sums *)
Theorem adjust_accumulates : forall a x,
  y_advance a = 0 ->
  -32768 <= x_placement a < 32768 -> -32768 <= y_placement a < 32768 ->
  -32768 <= i_kern x + x_advance a < 32768 ->
  placement_fits (i_place x) (x_placement a) (y_placement a) ->
  adjust_apply a x =
  set_kern (set_place x (placement_plus (i_place x) (x_placement a) (y_placement a))) (i_kern x + x_advance a).
Proof.
  intros a x Hy Hxp Hyp Hk Hfit. rewrite adjust_saturates by assumption.
  rewrite placement_plus_sat_fits by assumption.
  pose proof (sat_add16_in_range (i_kern x) (x_advance a) Hk) as H. unfold sat_add16 in H. rewrite H. reflexivity.
Qed.

(* what the code ignores: a record with a non-zero y_advance changes nothing at all (vertical advances are
   not supported), whatever its other fields say *)
Theorem adjust_ignores_vertical_advance : forall a x, y_advance a <> 0 -> adjust_apply a x = x.
Proof.
  intros a x Hy. unfold adjust_apply.
  replace (y_advance a =? 0) with false by lia. cbn [negb andb].
  destruct ((x_placement a =? 0) && (y_placement a =? 0)); [|reflexivity].
  rewrite andb_false_r. reflexivity.
Qed.

Lemma adjust_apply_preserves a x :
  i_id (adjust_apply a x) = i_id x /\ i_pos (adjust_apply a x) = i_pos x /\ i_lig (adjust_apply a x) = i_lig x /\
  i_mark (adjust_apply a x) = i_mark x /\
  (forall n i, place_wf n i (i_place x) -> place_wf n i (i_place (adjust_apply a x))).
Proof.
  unfold adjust_apply.
  destruct ((x_placement a =? 0) && (y_placement a =? 0)).
  - destruct (negb (x_advance a =? 0) && (y_advance a =? 0)); [cbn; tauto|].
    destruct (negb (y_advance a =? 0)); cbn; tauto.
  - destruct (y_advance a =? 0); [|tauto].
    cbn. repeat split; try reflexivity.
    intros n i Hw. unfold combine_distance.
    destruct (i_place x) as [|x1 y1|bi [ax ay] an2|bi|e r an1 an2]; try exact I. exact Hw.
Qed.

(* ------------------------------------------------------------------ (b) SinglePos / PairPos *)
Theorem singlepos_format1 : forall cov fmt v g,
  single_pos_apply (SinglePosF1 cov fmt v) g = Ok (if covers cov g then value_record_spec fmt v else None).
Proof. intros. cbn [single_pos_apply]. destruct (covers cov g); reflexivity. Qed.

Theorem singlepos_format2 : forall cov fmt vs g ci v,
  coverage_value cov g = Some ci -> nth_opt vs ci = Some v ->
  single_pos_apply (SinglePosF2 cov fmt vs) g = Ok (value_record_spec fmt v).
Proof. intros cov fmt vs g ci v H1 H2. cbn [single_pos_apply]. rewrite H1. unfold checked_nth. rewrite H2. reflexivity. Qed.

(* format 1: the pair set of the first glyph's coverage index is searched for the second glyph; the first
   record with that glyph wins *)
Lemma find_pair_spec g2 l p : find_pair g2 l = Some p <->
  exists pre post, l = pre ++ p :: post /\ pv_second p = g2 /\ Forall (fun q => pv_second q <> g2) pre.
Proof.
  induction l as [|q l IH]; cbn [find_pair].
  - split; [discriminate|]. intros (pre & post & H & _). destruct pre; discriminate.
  - destruct (pv_second q =? g2) eqn:E.
    + split.
      * intros H; inversion H; subst. exists [], l. repeat split; [lia|constructor].
      * intros (pre & post & Hl & Hs & Hp). destruct pre as [|q' pre]; cbn [app] in Hl; inversion Hl; subst; [reflexivity|].
        inversion Hp; subst. lia.
    + rewrite IH. split.
      * intros (pre & post & -> & Hs & Hp). exists (q :: pre), post. repeat split; [assumption|constructor; [lia|assumption]].
      * intros (pre & post & Hl & Hs & Hp). destruct pre as [|q' pre]; cbn [app] in Hl; inversion Hl; subst; [lia|].
        inversion Hp; subst. exists pre, post. repeat split; assumption.
Qed.

Theorem pairpos_format1 : forall cov f1 f2 sets g1 g2 ci set,
  coverage_value cov g1 = Some ci -> nth_opt sets ci = Some set ->
  pair_pos_apply (PairPosF1 cov f1 f2 sets) g1 g2 =
  Ok (match find_pair g2 set with
      | Some p => Some (value_record_spec f1 (pv_v1 p), value_record_spec f2 (pv_v2 p))
      | None => None
      end).
Proof.
  intros cov f1 f2 sets g1 g2 ci set H1 H2. cbn [pair_pos_apply]. rewrite H1. unfold checked_nth. rewrite H2. cbn [bind].
  destruct (find_pair g2 set); reflexivity.
Qed.

(* format 2: the class matrix is indexed [class of first glyph][class of second glyph]; in the serialised
   table this is record number class1 * class2Count + class2 *)
Theorem pairpos_format2_indexes_matrix : forall cov f1 f2 cd1 cd2 c2count rows g1 g2 row v1 v2,
  covers cov g1 = true ->
  nth_opt rows (class_value cd1 g1) = Some row -> nth_opt row (class_value cd2 g2) = Some (v1, v2) ->
  class_value cd2 g2 < c2count ->
  pair_pos_apply (PairPosF2 cov f1 f2 cd1 cd2 c2count rows) g1 g2 =
  Ok (Some (value_record_spec f1 v1, value_record_spec f2 v2)).
Proof.
  intros cov f1 f2 cd1 cd2 c2count rows g1 g2 row v1 v2 Hc Hr Hv Hlt. cbn [pair_pos_apply]. rewrite Hc.
  assert (class_value cd1 g1 < len rows).
  { unfold nth_opt in Hr. destruct (class_value cd1 g1 <? 0) eqn:E; [discriminate|].
    apply nth_error_Some_lt in Hr. unfold len. lia. }
  replace ((class_value cd1 g1 <? len rows) && (class_value cd2 g2 <? c2count)) with true by lia.
  rewrite Hr, Hv. reflexivity.
Qed.

Lemma flat_index {A} (rows : list (list A)) (w : Z) : forall c1 c2 row x,
  Forall (fun r => len r = w) rows -> nth_opt rows c1 = Some row -> nth_opt row c2 = Some x ->
  nth_opt (concat rows) (c1 * w + c2) = Some x.
Proof.
  induction rows as [|r rows IH]; intros c1 c2 row x Hw Hr Hx.
  - unfold nth_opt in Hr. destruct (c1 <? 0); [discriminate|]. destruct (Z.to_nat c1); discriminate.
  - inversion Hw as [|? ? Hlen Hw']; subst.
    assert (Hc1 : 0 <= c1) by (unfold nth_opt in Hr; destruct (c1 <? 0) eqn:E; [discriminate|lia]).
    assert (Hc2 : 0 <= c2 < len row).
    { unfold nth_opt in Hx. destruct (c2 <? 0) eqn:E; [discriminate|]. apply nth_error_Some_lt in Hx. unfold len. lia. }
    cbn [concat]. destruct (Z.eq_dec c1 0) as [->|Hnz].
    + unfold nth_opt in Hr. cbn in Hr. inversion Hr; subst row.
      unfold nth_opt in *. replace (0 * len r + c2 <? 0) with false by lia. destruct (c2 <? 0) eqn:E; [lia|].
      replace (Z.to_nat (0 * len r + c2)) with (Z.to_nat c2) by lia.
      rewrite nth_error_app1 by (unfold len in Hc2; lia). exact Hx.
    + assert (Hr' : nth_opt rows (c1 - 1) = Some row).
      { unfold nth_opt in *. destruct (c1 <? 0) eqn:E; [discriminate|]. replace (c1 - 1 <? 0) with false by lia.
        replace (Z.to_nat c1) with (S (Z.to_nat (c1 - 1))) in Hr by lia. exact Hr. }
      assert (Hrow : len row = len r).
      { apply (proj1 (Forall_forall _ _) Hw'). unfold nth_opt in Hr'. destruct (c1 - 1 <? 0); [discriminate|].
        eapply nth_error_In; eassumption. }
      specialize (IH (c1 - 1) c2 row x Hw' Hr' Hx).
      unfold nth_opt in *. pose proof (len_nonneg r).
      replace (c1 * len r + c2 <? 0) with false by nia.
      replace ((c1 - 1) * len r + c2 <? 0) with false in IH by nia.
      rewrite nth_error_app2 by (unfold len in *; nia).
      replace (Z.to_nat (c1 * len r + c2) - length r)%nat with (Z.to_nat ((c1 - 1) * len r + c2)) by (unfold len in *; nia).
      exact IH.
Qed.

(* the serialised Class1Record / Class2Record array is the row-major flattening: record class1 * class2Count + class2 *)
Theorem pairpos_format2_flat_index : forall (rows : list (list (adjust * adjust))) c2count c1 c2 row x,
  Forall (fun r => len r = c2count) rows -> nth_opt rows c1 = Some row -> nth_opt row c2 = Some x ->
  nth_opt (concat rows) (c1 * c2count + c2) = Some x.
Proof. intros. eapply flat_index; eassumption. Qed.

(* ------------------------------------------------------------------ (c) mark attachment lookups *)
(* the anchor pair is selected by the mark's class: (base record of the base glyph)[mark class], mark anchor *)
Theorem mark_anchor_selected_by_class : forall s g1 g2 bi mi brec cls manchor,
  coverage_value (mb_base_cov s) g1 = Some bi -> coverage_value (mb_mark_cov s) g2 = Some mi ->
  nth_opt (mb_bases s) bi = Some brec -> nth_opt (mb_marks s) mi = Some (cls, manchor) ->
  cls < mb_class_count s -> len brec = mb_class_count s -> 0 <= cls ->
  mark_base_pos_apply s g1 g2 =
  Ok (match nth_opt brec cls with Some (Some ba) => Some (ba, manchor) | _ => None end).
Proof.
  intros s g1 g2 bi mi brec cls manchor H1 H2 H3 H4 H5 H6 H7. unfold mark_base_pos_apply.
  rewrite H1, H2. unfold checked_nth. rewrite H3, H4. cbn [bind fst snd].
  replace (cls <? mb_class_count s) with true by lia.
  destruct (nth_opt brec cls) as [[ba|]|] eqn:E; try reflexivity.
  exfalso. unfold nth_opt in E. replace (cls <? 0) with false in E by lia.
  apply nth_error_None in E. unfold len in H6. lia.
Qed.

(* MarkLigPos: the component record is chosen by the mark's liga_component_pos; a mark that sits beyond the
   last component is not attached *)
Theorem ligature_component_selected : forall s g1 g2 comp li mi att cls manchor,
  coverage_value (ml_lig_cov s) g1 = Some li -> coverage_value (ml_mark_cov s) g2 = Some mi ->
  nth_opt (ml_marks s) mi = Some (cls, manchor) -> nth_opt (ml_ligs s) li = Some att ->
  0 <= cls < ml_class_count s -> Forall (fun crec => len crec = ml_class_count s) att -> 0 <= comp ->
  mark_lig_pos_apply s g1 g2 comp =
  Ok (match nth_opt att comp with
      | Some crec => match nth_opt crec cls with Some (Some la) => Some (la, manchor) | _ => None end
      | None => None
      end).
Proof.
  intros s g1 g2 comp li mi att cls manchor H1 H2 H3 H4 H5 H6 H7. unfold mark_lig_pos_apply.
  rewrite H1, H2. unfold checked_nth. rewrite H3. cbn [bind fst snd].
  replace (cls <? ml_class_count s) with true by lia. rewrite H4. cbn [bind].
  destruct (comp <? len att) eqn:Ec.
  - destruct (nth_opt att comp) as [crec|] eqn:Ea.
    + destruct (nth_opt crec cls) as [[la|]|] eqn:E; try reflexivity.
      exfalso. assert (Hl : len crec = ml_class_count s).
      { apply (proj1 (Forall_forall _ _) H6). unfold nth_opt in Ea. destruct (comp <? 0); [discriminate|]. eapply nth_error_In; eassumption. }
      unfold nth_opt in E. replace (cls <? 0) with false in E by lia. apply nth_error_None in E. unfold len in Hl. lia.
    + exfalso. unfold nth_opt in Ea. replace (comp <? 0) with false in Ea by lia. apply nth_error_None in Ea. unfold len in Ec. lia.
  - destruct (nth_opt att comp) eqn:Ea; [|reflexivity].
    exfalso. unfold nth_opt in Ea. replace (comp <? 0) with false in Ea by lia.
    apply nth_error_Some_lt in Ea. unfold len in Ec. lia.
Qed.

(* CursivePos: exit anchor of the first glyph, entry anchor of the second *)
Theorem cursive_anchors_selected : forall s g1 g2 c1 c2 r1 r2,
  coverage_value (cp_cov s) g1 = Some c1 -> coverage_value (cp_cov s) g2 = Some c2 ->
  nth_opt (cp_records s) c1 = Some r1 -> nth_opt (cp_records s) c2 = Some r2 ->
  cursive_pos_apply s g1 g2 =
  Ok (match snd r1, fst r2 with Some ex, Some en => Some (ex, en) | _, _ => None end).
Proof.
  intros s g1 g2 c1 c2 r1 r2 H1 H2 H3 H4. unfold cursive_pos_apply. rewrite H1, H2.
  unfold checked_nth. rewrite H3, H4. cbn [bind]. destruct (snd r1), (fst r2); reflexivity.
Qed.

(* ------------------------------------------------------------------ (e) kern *)
Fixpoint kern_keys_sorted (pairs : list (Z * Z * Z)) : Prop :=
  match pairs with
  | [] => True
  | (l1, r1, _) :: t =>
    match t with [] => True | (l2, r2, _) :: _ => l1 * 65536 + r1 < l2 * 65536 + r2 end /\ kern_keys_sorted t
  end.

Lemma kern_sorted_gt pairs : forall l1 r1 v1, kern_keys_sorted ((l1, r1, v1) :: pairs) ->
  forall l r v, In (l, r, v) pairs -> l1 * 65536 + r1 < l * 65536 + r.
Proof.
  induction pairs as [|[[l2 r2] v2] pairs IH]; intros l1 r1 v1 Hs l r v Hin; [destruct Hin|].
  cbn in Hs. destruct Hs as [H12 Hs]. destruct Hin as [Heq|Hin].
  - inversion Heq; subst. exact H12.
  - pose proof (IH l2 r2 v2 Hs l r v Hin). lia.
Qed.

(* format 0 on a table sorted by (left << 16 | right), as the format requires: the value of THE pair *)
Theorem kern0_lookup_spec : forall pairs l r v,
  kern_keys_sorted pairs -> In (l, r, v) pairs ->
  kern_lookup (KernF0 pairs) l r = Some v.
Proof.
  intros pairs l r v. cbn [kern_lookup]. induction pairs as [|[[l1 r1] v1] pairs IH]; intros Hs Hin; [destruct Hin|].
  cbn [kern0_find]. destruct Hin as [Heq|Hin].
  - inversion Heq; subst. rewrite Z.eqb_refl. reflexivity.
  - pose proof (kern_sorted_gt pairs l1 r1 v1 Hs l r v Hin) as Hlt.
    replace (l1 * 65536 + r1 =? l * 65536 + r) with false by lia.
    apply IH; [cbn in Hs; tauto|exact Hin].
Qed.

Theorem kern0_lookup_none : forall pairs l r,
  (forall l' r' v, In (l', r', v) pairs -> l' * 65536 + r' <> l * 65536 + r) ->
  kern_lookup (KernF0 pairs) l r = None.
Proof.
  intros pairs l r. cbn [kern_lookup]. induction pairs as [|[[l1 r1] v1] pairs IH]; intros H; [reflexivity|].
  cbn [kern0_find]. pose proof (H l1 r1 v1 (or_introl eq_refl)).
  replace (l1 * 65536 + r1 =? l * 65536 + r) with false by lia.
  apply IH. intros; eapply H; right; eassumption.
Qed.

(* apply_kern: every glyph but the last gets the kerning of the pair it forms with its right neighbour
   (no glyph is skipped); the last glyph and everything else in the records is untouched *)
Lemma apply_kern_cons subs x y t :
  apply_kern subs (x :: y :: t) =
  (t' <- apply_kern subs (y :: t) ;; Ok (set_kern x (kern_pair subs (i_id x) (i_id y) 0) :: t')).
Proof. reflexivity. Qed.

(* apply_kern on a parsed kern table is total; the kerning of a glyph is REPLACED by the pair value *)
Theorem apply_kern_pointwise : forall subs l,
  exists l', apply_kern subs l = Ok l' /\
  length l' = length l /\
  (forall k x y, nth_error l k = Some x -> nth_error l (S k) = Some y ->
     nth_error l' k = Some (set_kern x (kern_pair subs (i_id x) (i_id y) 0))) /\
  (forall x, nth_error l (pred (length l)) = Some x -> nth_error l' (pred (length l)) = Some x).
Proof.
  intros subs. induction l as [|x l IH].
  - exists []. split; [reflexivity|]. split; [reflexivity|]. split.
    + intros k ? ? Hk. destruct k; discriminate.
    + intros z Hz. discriminate.
  - destruct l as [|y t].
    + exists [x]. split; [reflexivity|]. split; [reflexivity|]. split.
      * intros k ? ? Hk Hk2. destruct k; [discriminate|destruct k; discriminate].
      * intros z Hz. exact Hz.
    + destruct IH as (t' & Et & Hl & Hp & Hlast). exists (set_kern x (kern_pair subs (i_id x) (i_id y) 0) :: t').
      rewrite apply_kern_cons, Et. cbn [bind]. split; [reflexivity|]. split; [|split].
      * cbn [length] in *; lia.
      * intros k a b Ha Hb. destruct k as [|k].
        -- cbn in Ha, Hb. inversion Ha; inversion Hb; subst. reflexivity.
        -- cbn [nth_error] in *. apply (Hp k a b Ha Hb).
      * intros z Hz. cbn [length pred nth_error] in *. apply Hlast. exact Hz.
Qed.

(* one subtable of the per-pair accumulation `for sub_table in kern.sub_tables()`: vertical and cross-stream
   subtables and subtables without the pair are skipped; override replaces, minimum takes the smaller value,
   otherwise the value is ADDED — the mathematical sum when it fits i16, the nearer bound of i16 when not *)
Definition kern_step (s : kern_subtable) (lf rt : Z) (kerning : Z) : Z :=
  if negb (kern_is_horizontal (k_coverage s)) || kern_is_cross_stream (k_coverage s) then kerning
  else match kern_lookup (k_data s) lf rt with
       | None => kerning
       | Some v => if kern_is_override (k_coverage s) then v
                   else if kern_is_minimum (k_coverage s) then Z.min kerning v
                   else if kerning + v <? -32768 then -32768
                   else if 32768 <=? kerning + v then 32767
                   else kerning + v
       end.

Theorem kern_pair_is_fold : forall subs lf rt k,
  kern_pair subs lf rt k = fold_left (fun acc s => kern_step s lf rt acc) subs k.
Proof.
  induction subs as [|s t IH]; intros lf rt k; [reflexivity|].
  cbn [kern_pair fold_left]. unfold kern_step at 2.
  destruct (negb (kern_is_horizontal (k_coverage s)) || kern_is_cross_stream (k_coverage s)); [apply IH|].
  destruct (kern_lookup (k_data s) lf rt) as [v|]; apply IH.
Qed.

(* plain additive subtables (horizontal, not cross-stream, neither override nor minimum) whose partial sums all
   fit i16: the kerning of the pair is the sum of the values the subtables hold for it *)
Definition kern_additive (s : kern_subtable) : Prop :=
  kern_is_horizontal (k_coverage s) = true /\ kern_is_cross_stream (k_coverage s) = false /\
  kern_is_override (k_coverage s) = false /\ kern_is_minimum (k_coverage s) = false.

Definition kern_value (s : kern_subtable) (lf rt : Z) : Z :=
  match kern_lookup (k_data s) lf rt with Some v => v | None => 0 end.

Definition ksum (l : list Z) : Z := fold_right Z.add 0 l.

Fixpoint partial_sums_fit (vs : list Z) (k : Z) : Prop :=
  match vs with [] => True | v :: t => -32768 <= k + v < 32768 /\ partial_sums_fit t (k + v) end.

Theorem kern_pair_sums : forall subs lf rt k,
  Forall kern_additive subs -> partial_sums_fit (map (fun s => kern_value s lf rt) subs) k ->
  kern_pair subs lf rt k = k + ksum (map (fun s => kern_value s lf rt) subs).
Proof.
  induction subs as [|s t IH]; intros lf rt k Ha Hf; [cbn; lia|].
  inversion Ha as [|? ? (H1 & H2 & H3 & H4) Ha']; subst.
  cbn [map partial_sums_fit] in Hf. destruct Hf as [Hk Hf].
  cbn [kern_pair map]. rewrite H1, H2, H3, H4. cbn [negb orb].
  assert (Hv : kern_value s lf rt = match kern_lookup (k_data s) lf rt with Some v => v | None => 0 end) by reflexivity.
  destruct (kern_lookup (k_data s) lf rt) as [v|]; rewrite Hv in *; unfold ksum; cbn [fold_right]; fold (ksum (map (fun s0 => kern_value s0 lf rt) t)).
  - rewrite sat_add16_in_range by exact Hk. rewrite (IH lf rt (k + v) Ha' Hf). lia.
  - replace (k + 0) with k in Hf by lia. rewrite (IH lf rt k Ha' Hf). lia.
Qed.

(* ------------------------------------------------------------------ feature lookups: sorted, once each *)
Lemma insert_sorted_in k l x : In x (insert_sorted k l) <-> x = k \/ In x l.
Proof.
  induction l as [|y l IH]; cbn [insert_sorted In]; [intuition congruence|].
  destruct (k <? y); [cbn [In]; intuition congruence|]. destruct (k =? y) eqn:E; cbn [In].
  - assert (k = y) by lia. intuition congruence.
  - rewrite IH. intuition congruence.
Qed.

Lemma insert_sorted_sorted k l : strictly_sorted l -> strictly_sorted (insert_sorted k l).
Proof.
  induction l as [|y l IH]; intros Hs; cbn [insert_sorted]; [cbn; tauto|].
  destruct (k <? y) eqn:E1.
  - cbn. split; [lia|exact Hs].
  - destruct (k =? y) eqn:E2; [exact Hs|].
    assert (Hs' : strictly_sorted l) by (cbn in Hs; tauto).
    specialize (IH Hs'). destruct (insert_sorted k l) as [|z r] eqn:Ei; [cbn; tauto|].
    cbn. split; [|exact IH].
    assert (Hz : In z (insert_sorted k l)) by (rewrite Ei; left; reflexivity).
    apply insert_sorted_in in Hz. destruct Hz as [->|Hz]; [lia|].
    exact (strictly_sorted_lt y l Hs z Hz).
Qed.

(* the lookups of one feature are applied in ascending lookup-list order, each once *)
Theorem feature_lookups_sorted_once : forall l,
  strictly_sorted (sort_dedup l) /\ (forall x, In x (sort_dedup l) <-> In x l).
Proof.
  intros l. unfold sort_dedup.
  assert (G : forall l acc, strictly_sorted acc ->
              strictly_sorted (fold_left (fun a k => insert_sorted k a) l acc) /\
              (forall x, In x (fold_left (fun a k => insert_sorted k a) l acc) <-> In x l \/ In x acc)).
  { induction l0 as [|k l0 IH]; intros acc Hs; cbn [fold_left]; [split; [exact Hs|intros; cbn; tauto]|].
    destruct (IH (insert_sorted k acc) (insert_sorted_sorted k acc Hs)) as [S1 S2]. split; [exact S1|].
    intros x. rewrite S2, insert_sorted_in. cbn [In]. intuition congruence. }
  destruct (G l [] I) as [S1 S2]. split; [exact S1|]. intros x. rewrite S2. cbn. tauto.
Qed.
