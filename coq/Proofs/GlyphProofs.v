(* Proofs/GlyphProofs.v — glyf simple glyphs: SimpleGlyph::write followed by Glyph::read gives the
   glyph back (flags reduced to ON_CURVE_POINT, the writer's normalisation). *)
From AV Require Import Base.Prelude Base.Lemmas Gen.ReaderPrims Model.Reader Model.ReaderExt
  Proofs.ReaderProofs Proofs.EncodeProofs Model.TableLayout Proofs.TableLayoutProofs Proofs.RecordProofs
  Gen.TableLayouts Model.Tables Model.Cff Proofs.TableProofs Proofs.ArrayTableProofs Proofs.CffProofs Proofs.RefusalProofs.
From Coq Require Import ZifyBool ZifyNat.
Ltac Zify.zify_post_hook ::= Z.div_mod_to_equations.
Open Scope Z_scope.

Lemma Ok_inj_g {A} (a b : A) : @Ok A a = Ok b -> a = b.
Proof. intros H. injection H. auto. Qed.

Definition i16v (v : Z) : Prop := -32768 <= v <= 32767.
Definition bit01 (fl : Z) : Prop := fl = 0 \/ fl = 1.

Lemma land1_bit f : bit01 (Z.land f 1).
Proof.
  assert (Z.land f 1 = f mod 2) as Hl by (change 1 with (Z.ones 1); rewrite Z.land_ones by lia; reflexivity).
  unfold bit01. rewrite Hl. pose proof (Z.mod_pos_bound f 2 ltac:(lia)). lia.
Qed.

(* ---------- the flag loop on plain (non-repeat) flags *)
Lemma read_flags_plain fls : forall c rest have fuel,
  Forall bit01 fls -> cgood c -> at_bytes c (fls ++ rest) -> (length fls < fuel)%nat ->
  exists c', read_flags fuel c have (have + len fls) = Ok (fls, c') /\ advanced c c' rest.
Proof.
  induction fls as [|fl r IH]; intros c rest have fuel Hb Hg Hat Hf.
  - exists c. destruct fuel; cbn [read_flags]; change (len (@nil Z)) with 0;
      replace (have + 0 <=? have) with true by lia; (split; [reflexivity|unfold advanced; auto]).
  - inversion Hb as [|? ? Hfl Hr]; subst. destruct fuel as [|fuel]; [cbn in Hf; lia|].
    cbn [read_flags]. rewrite len_cons. pose proof (len_nonneg r).
    replace (have + (1 + len r) <=? have) with false by lia.
    cbn [app] in Hat.
    destruct (read_u8_at c fl (r ++ rest) Hg ltac:(destruct Hfl; lia) Hat) as [c1 [E1 A1]].
    rewrite E1. cbn [bind]. cbv beta iota.
    assert (Z.land fl 63 = fl) as -> by (destruct Hfl; subst; reflexivity).
    replace (Z.land fl 8 =? 8) with false by (destruct Hfl; subst; reflexivity).
    destruct (IH c1 rest (have + 1) fuel Hr (proj1 A1) (proj2 (proj2 A1)) ltac:(cbn in Hf; lia)) as [c2 [E2 A2]].
    replace (have + (1 + len r)) with (have + 1 + len r) by lia. rewrite E2. cbn [bind]. cbv beta iota.
    exists c2. split; [reflexivity|eapply advanced_trans; eassumption].
Qed.

(* ---------- a run of i16 deltas under flags that select the 16-bit form *)
Definition enc_i16s (ds : list Z) : list Z := enc_recs [PI16] (map (fun d => [d]) ds).

Lemma enc_i16s_cons d ds : enc_i16s (d :: ds) = write_prim PI16 d ++ enc_i16s ds.
Proof. unfold enc_i16s, enc_recs. cbn [map concat enc_rec]. rewrite app_nil_r. reflexivity. Qed.

Lemma i16_range v : i16v v -> prim_in_range PI16 v = true.
Proof. unfold i16v, prim_in_range. cbn. lia. Qed.

Lemma read_delta_long c fl short same d rest :
  (Z.land fl short =? short) = false -> (Z.land fl same =? same) = false ->
  i16v d -> cgood c -> at_bytes c (write_prim PI16 d ++ rest) ->
  exists c', read_delta c fl short same = Ok (d, c') /\ advanced c c' rest.
Proof.
  intros H1 H2 Hd Hg Hat. unfold read_delta. rewrite H1, H2.
  exact (read_prim_layout PI16 c d rest Hg (i16_range _ Hd) Hat).
Qed.

Lemma read_deltas_long ds : forall fls c rest short same,
  length fls = length ds ->
  Forall (fun fl => (Z.land fl short =? short) = false /\ (Z.land fl same =? same) = false) fls ->
  Forall i16v ds -> cgood c -> at_bytes c (enc_i16s ds ++ rest) ->
  exists c', read_deltas c fls short same = Ok (ds, c') /\ advanced c c' rest.
Proof.
  induction ds as [|d r IH]; intros fls c rest short same Hl Hf Hd Hg Hat; destruct fls as [|fl fr]; try discriminate Hl.
  - exists c. split; [reflexivity|unfold advanced; auto].
  - inversion Hf as [|? ? [Hf1 Hf2] Hfr]; subst. inversion Hd as [|? ? Hd1 Hdr]; subst.
    rewrite enc_i16s_cons, <- app_assoc in Hat.
    destruct (read_delta_long c fl short same d _ Hf1 Hf2 Hd1 Hg Hat) as [c1 [E1 A1]].
    cbn [read_deltas]. rewrite E1. cbn [bind]. cbv beta iota.
    destruct (IH fr c1 rest short same ltac:(cbn in Hl; lia) Hfr Hdr (proj1 A1) (proj2 (proj2 A1))) as [c2 [E2 A2]].
    rewrite E2. cbn [bind]. cbv beta iota. exists c2. split; [reflexivity|eapply advanced_trans; eassumption].
Qed.

(* ---------- the y loop: read the y delta, resolve both against the previous point *)
Lemma read_ys_resolve_ok m (cs : list (Z * (Z * Z))) : forall c rest px py,
  Forall (fun p => bit01 (fst p) /\ i16v (fst (snd p)) /\ i16v (snd (snd p))) cs ->
  Forall i16v (deltas py (map (fun p => snd (snd p)) cs)) ->
  cgood c -> at_bytes c (enc_i16s (deltas py (map (fun p => snd (snd p)) cs)) ++ rest) ->
  exists c', read_ys_resolve m c px py (map fst cs) (deltas px (map (fun p => fst (snd p)) cs)) = Ok (cs, c')
             /\ advanced c c' rest.
Proof.
  induction cs as [|[fl [x y]] r IH]; intros c rest px py Hc Hdy Hg Hat.
  - exists c. split; [reflexivity|unfold advanced; auto].
  - inversion Hc as [|? ? [Hfl [Hx Hy]] Hr]; subst. cbn [fst snd] in *.
    cbn [map fst snd deltas] in *. inversion Hdy as [|? ? Hd1 Hdr]; subst.
    rewrite enc_i16s_cons, <- app_assoc in Hat.
    assert ((Z.land fl 4 =? 4) = false /\ (Z.land fl 32 =? 32) = false) as [F1 F2] by (destruct Hfl; subst; split; reflexivity).
    destruct (read_delta_long c fl 4 32 (y - py) _ F1 F2 Hd1 Hg Hat) as [c1 [E1 A1]].
    cbn [read_ys_resolve]. rewrite E1. cbn [bind]. cbv beta iota.
    unfold add_i16, i16_ok. unfold i16v in Hx, Hy.
    replace (px + (x - px)) with x by lia. replace (py + (y - py)) with y by lia.
    replace ((-32768 <=? x) && (x <=? 32767)) with true by lia.
    replace ((-32768 <=? y) && (y <=? 32767)) with true by lia. cbn [bind].
    destruct (IH c1 rest x y Hr Hdr (proj1 A1) (proj2 (proj2 A1))) as [c2 [E2 A2]].
    rewrite E2. cbn [bind]. cbv beta iota. exists c2. split; [reflexivity|eapply advanced_trans; eassumption].
Qed.

Lemma read_slice_layout_m m c (bs rest : list Z) :
  cgood c -> at_bytes c (bs ++ rest) ->
  exists c', read_slice m c (len bs) = Ok (bs, c') /\ advanced c c' rest.
Proof.
  intros Hg Hat. destruct (advance_by c _ rest Hg Hat) as [Hle Hadv].
  pose proof Hg as [[Hc Hs] [Hb [Hb0 Hb1]]]. pose proof (len_nonneg bs). unfold sinv in Hs.
  exists {| sc := sc c; off := off c + len bs |}. split; [|exact Hadv].
  unfold read_slice, read_scope. rewrite offset_length_complete by lia.
  unfold uadd. replace (off c + len bs <? USIZE) with true by lia. cbn [bind data].
  unfold at_bytes in Hat. rewrite Hat. rewrite take_app_exact. reflexivity.
Qed.

(* ---------- the whole glyph *)
Definition glyph_norm (g : simple_glyph) : simple_glyph :=
  {| sg_bbox := sg_bbox g; sg_endpts := sg_endpts g; sg_instr := sg_instr g;
     sg_coords := map (fun p => (Z.land (fst p) ON_CURVE, snd p)) (sg_coords g) |}.

(* a glyph value within format limits: i16 bounding box and coordinates, u16 end points (at most
   32767 contours), and as many points as the last end point addresses *)
Definition glyph_ok (g : simple_glyph) : Prop :=
  rec_ok [PI16; PI16; PI16; PI16] (sg_bbox g) /\
  Forall (fun e => prim_in_range PU16 e = true) (sg_endpts g) /\ len (sg_endpts g) <= 32767 /\
  Forall (fun p => i16v (fst (snd p)) /\ i16v (snd (snd p))) (sg_coords g) /\
  len (sg_coords g) = match sg_endpts g with [] => 0 | _ => last (sg_endpts g) 0 + 1 end.

Lemma bbox_ty_eq : rprims bounding_box_read = [PI16; PI16; PI16; PI16].
Proof. reflexivity. Qed.

Lemma read_ty_layout t c vs rest :
  cgood c -> rec_ok t vs -> at_bytes c (enc_rec t vs ++ rest) ->
  exists c', read_ty t c = Ok (vs, c') /\ advanced c c' rest.
Proof.
  intros Hg Hok Hat. destruct (advance_by c _ rest Hg Hat) as [Hle Hadv].
  rewrite (len_enc_rec t vs Hok) in Hle, Hadv. destruct Hg as [Hc [Hb _]].
  destruct (read_ty_exact t c Hb Hc) as [[_ H]|[H _]]; [|lia].
  exists {| sc := sc c; off := off c + ty_size t |}. split; [|exact Hadv].
  rewrite H. unfold at_bytes in Hat. rewrite Hat. rewrite <- (len_enc_rec t vs Hok). rewrite take_app_exact.
  rewrite <- (app_nil_r (enc_rec t vs)). rewrite decode_enc_rec by exact Hok. reflexivity.
Qed.

(* Theorem: whenever SimpleGlyph::write returns Ok for a glyph within format limits, Glyph::read
   parses the bytes back into the same glyph with the flags reduced to ON_CURVE_POINT, in both
   arithmetic modes, consuming exactly the bytes written. *)
Theorem simple_glyph_roundtrip m g b rest c :
  glyph_ok g -> simple_glyph_write g = Ok b -> cgood c -> at_bytes c (b ++ rest) ->
  exists c', glyph_read m c = Ok (Some (glyph_norm g), c') /\ advanced c c' rest.
Proof.
  destruct g as [bbox endpts instr coords]. intros [Hbb [Hep [Hnc [Hco Hn]]]] H Hg Hat. cbn [sg_bbox sg_endpts sg_instr sg_coords] in *.
  unfold simple_glyph_write in H. cbn [sg_bbox sg_endpts sg_instr sg_coords] in H.
  match type of H with bind ?x _ = _ => destruct x as [il| | |] eqn:Eil; try discriminate H end. cbn [bind] in H.
  destruct (try_u16_ok _ _ Eil) as [-> Hil].
  pose proof (write_deltas_spec (map (fun c0 => fst (snd c0)) coords) 0) as Hxs.
  match type of H with bind ?x _ = _ => destruct x as [bx| | |] eqn:Ex; try discriminate H end. cbn [bind] in H.
  pose proof (write_deltas_spec (map (fun c0 => snd (snd c0)) coords) 0) as Hys.
  match type of H with bind ?x _ = _ => destruct x as [by_| | |] eqn:Ey; try discriminate H end. cbn [bind] in H.
  destruct Hxs as [Hdx ->]. destruct Hys as [Hdy ->]. apply Ok_inj_g in H. subst b.
  fold (enc_i16s (deltas 0 (map (fun c0 => fst (snd c0)) coords))) in Hat.
  fold (enc_i16s (deltas 0 (map (fun c0 => snd (snd c0)) coords))) in Hat.
  pose proof (len_nonneg endpts) as Hle0.
  assert (to_signed 16 (len endpts) = len endpts) as Hsig.
  { unfold to_signed. change (2 ^ 16) with 65536. change (2 ^ (16 - 1)) with 32768.
    destruct (len endpts mod 65536 <? 32768) eqn:E; lia. }
  rewrite Hsig in Hat. rewrite <- !app_assoc in Hat.
  (* numberOfContours *)
  unfold glyph_read.
  destruct (read_prim_layout PI16 c (len endpts) _ Hg ltac:(unfold prim_in_range; cbn; lia) Hat) as [c1 [E1 A1]].
  rewrite E1. cbn [bind]. cbv beta iota. replace (0 <=? len endpts) with true by lia.
  unfold simple_glyph_read.
  (* bounding box *)
  assert (write_items false bounding_box_write bbox = enc_rec [PI16; PI16; PI16; PI16] bbox) as Hbe.
  { destruct bbox as [|a [|b0 [|c0 [|d [|? ?]]]]]; cbn [rec_ok] in Hbb; try tauto; try reflexivity. }
  pose proof (proj2 (proj2 A1)) as Hat1. rewrite Hbe in Hat1. rewrite bbox_ty_eq.
  destruct (read_ty_layout _ c1 bbox _ (proj1 A1) Hbb Hat1) as [c2 [E2 A2]].
  rewrite E2. cbn [bind]. cbv beta iota.
  (* end points *)
  pose proof (proj2 (proj2 A2)) as Hat2. rewrite single_recs in Hat2.
  assert (0 < ty_size [PU16] < USIZE) as Hsz by (cbv; split; reflexivity).
  rewrite <- (len_map (fun v => [v]) endpts).
  destruct (read_records_layout [PU16] c2 _ _ (proj1 A2) Hsz (single_recs_ok _ _ Hep) Hat2) as [c3 [E3 A3]].
  rewrite E3. cbn [bind]. cbv beta iota. rewrite map_map. cbn [hd]. rewrite map_id.
  (* instructions *)
  destruct (read_prim_layout PU16 c3 (len instr) _ (proj1 A3) ltac:(unfold prim_in_range; cbn; lia) (proj2 (proj2 A3))) as [c4 [E4 A4]].
  rewrite E4. cbn [bind]. cbv beta iota.
  destruct (read_slice_layout_m m c4 instr _ (proj1 A4) (proj2 (proj2 A4))) as [c5 [E5 A5]].
  rewrite E5. cbn [bind]. cbv beta iota.
  (* flags *)
  set (n := match endpts with [] => 0 | _ => last endpts 0 + 1 end) in *.
  set (ncs := map (fun p => (Z.land (fst p) ON_CURVE, snd p)) coords).
  assert (map (fun c0 => Z.land (fst c0) ON_CURVE) coords = map fst ncs) as Hfl by (unfold ncs; rewrite map_map; reflexivity).
  pose proof (proj2 (proj2 A5)) as Hat5. rewrite Hfl in Hat5.
  assert (Forall bit01 (map fst ncs)) as Hbits.
  { unfold ncs. rewrite map_map. cbn [fst]. rewrite Forall_map. apply Forall_forall. intros p _. apply land1_bit. }
  assert (len (map fst ncs) = n) as Hlen by (rewrite len_map; unfold ncs; rewrite len_map; exact Hn).
  assert (0 <= n) as Hn0 by (rewrite <- Hlen; apply len_nonneg).
  destruct (read_flags_plain (map fst ncs) c5 _ 0 (S (Z.to_nat n)) Hbits (proj1 A5) Hat5
              ltac:(unfold len in Hlen; lia)) as [c6 [E6 A6]].
  rewrite Z.add_0_l, Hlen in E6. rewrite E6. cbn [bind]. cbv beta iota.
  rewrite firstn_all2 by (unfold len in Hlen; lia).
  (* x deltas *)
  assert (map (fun c0 => fst (snd c0)) coords = map (fun p => fst (snd p)) ncs) as Hxm by (unfold ncs; rewrite map_map; reflexivity).
  assert (map (fun c0 => snd (snd c0)) coords = map (fun p => snd (snd p)) ncs) as Hym by (unfold ncs; rewrite map_map; reflexivity).
  rewrite Hxm, Hym in *.
  assert (forall px l, length (deltas px l) = length l) as Hdl by (intros px l; revert px; induction l; intros; cbn; auto).
  assert (Forall (fun fl => (Z.land fl 2 =? 2) = false /\ (Z.land fl 16 =? 16) = false) (map fst ncs)) as Hlong.
  { apply Forall_forall. intros fl Hin. rewrite Forall_forall in Hbits. destruct (Hbits fl Hin) as [->| ->]; split; reflexivity. }
  assert (length (map fst ncs) = length (deltas 0 (map (fun p => fst (snd p)) ncs))) as Hll by (rewrite Hdl, !map_length; reflexivity).
  destruct (read_deltas_long (deltas 0 (map (fun p => fst (snd p)) ncs)) (map fst ncs) c6 _ 2 16 Hll Hlong Hdx (proj1 A6) (proj2 (proj2 A6))) as [c7 [E7 A7]].
  rewrite E7. cbn [bind]. cbv beta iota.
  (* y deltas and resolution *)
  assert (Forall (fun p => bit01 (fst p) /\ i16v (fst (snd p)) /\ i16v (snd (snd p))) ncs) as Hncs.
  { unfold ncs. rewrite Forall_map. cbn [fst snd]. eapply Forall_impl; [|exact Hco]. intros p [Hx Hy]. split; [apply land1_bit|auto]. }
  destruct (read_ys_resolve_ok m ncs c7 rest 0 0 Hncs Hdy (proj1 A7) (proj2 (proj2 A7))) as [c8 [E8 A8]].
  rewrite E8. cbn [bind]. cbv beta iota.
  exists c8. split; [reflexivity|].
  eapply advanced_trans; [exact A1|]. eapply advanced_trans; [exact A2|]. eapply advanced_trans; [exact A3|].
  eapply advanced_trans; [exact A4|]. eapply advanced_trans; [exact A5|]. eapply advanced_trans; [exact A6|].
  eapply advanced_trans; [exact A7|exact A8].
Qed.
