(* Proofs/ReaderObsProofs.v — lemmas about Model/ReaderObs.v (property C14):
   positions (ReadScope::base follows every offset, also dangling ones), the read cache keyed by
   position, arrays of dependent records (records of size 0 included), ReadArrayCow, and the invariant /
   totality theorem of the extended operation machine. *)
From AV Require Import Base.Prelude Base.Lemmas Gen.ReaderPrims Model.Reader Model.ReaderExt
  Model.ReaderObs Proofs.ReaderProofs.
From Coq Require Import ZifyBool ZifyNat.
Ltac Zify.zify_post_hook ::= Z.div_mod_to_equations.
Open Scope Z_scope.

(* ---------------------------------------------------------------------------------------------
   1. positions *)

(* ReadScope::offset never fails; the new scope sits `o` further (mod 2^64), whatever o is *)
Lemma scope_offset_position m s o :
  scope_offset m s o = Ok {| base := (base s + o) mod USIZE; data := slice_from (data s) o |}.
Proof. reflexivity. Qed.

Lemma offset_length_position m s o l s' :
  offset_length m s o l = Ok s' ->
  base s' = (base s + o) mod USIZE /\ data s' = take l (slice_from (data s) o).
Proof.
  unfold offset_length. destruct ((o <? dlen s) || (l =? 0)); [|discriminate].
  destruct (l <=? _); [|discriminate]. cbn [wadd bind]. intros H; injection H as <-. split; reflexivity.
Qed.

(* offset(n) and offset_length(n, 0) are the same (empty or not) window start *)
Lemma offset_agrees_with_offset_length m s o l s' s'' :
  offset_length m s o l = Ok s' -> scope_offset m s o = Ok s'' -> base s'' = base s'.
Proof.
  intros H1 H2. apply offset_length_position in H1. destruct H1 as [H1 _].
  rewrite scope_offset_position in H2. injection H2 as <-. cbn [base]. congruence.
Qed.

Lemma ctxt_scope_position m c :
  ctxt_scope m c = Ok {| base := (base (sc c) + off c) mod USIZE; data := slice_from (data (sc c)) (off c) |}.
Proof. reflexivity. Qed.

Lemma scope_owned_same s : base (scope_owned s) = base s /\ data (scope_owned s) = data s.
Proof. split; reflexivity. Qed.

(* every scope derived from the root buffer is a window of it at its own position, or is empty
   (past the end: its position is then only a number) *)
Definition at_root (root : list Z) (s : scope) : Prop :=
  data s = [] \/
  (0 <= base s /\ base s + dlen s <= len root /\ data s = take (dlen s) (drop (base s) root)).

Lemma at_root_new root : at_root root (scope_new root).
Proof.
  right. unfold scope_new, dlen; cbn [base data]. pose proof (len_nonneg root).
  split; [lia|]. split; [lia|]. rewrite drop_0. symmetry. apply take_all. lia.
Qed.

Lemma at_root_empty root b : at_root root {| base := b; data := [] |}.
Proof. left; reflexivity. Qed.

Lemma take_nil {A} n : take n (@nil A) = [].
Proof. unfold take. apply firstn_nil. Qed.

Lemma slice_from_nil {A} o : slice_from (@nil A) o = [].
Proof. unfold slice_from. destruct (o <=? len []); [apply skipn_nil|reflexivity]. Qed.

Lemma at_root_window root s o l :
  len root < USIZE -> at_root root s -> 0 <= o -> 0 <= l -> o + l <= dlen s ->
  at_root root {| base := (base s + o) mod USIZE; data := take l (drop o (data s)) |}.
Proof.
  intros Hr [He|[Hb [Hle Hd]]] Ho Hl Hol.
  - left. cbn [data]. rewrite He. unfold drop. rewrite skipn_nil. apply take_nil.
  - right. unfold dlen in *. cbn [base data].
    assert (len (take l (drop o (data s))) = l) as Hlen.
    { apply len_take. rewrite len_drop by lia. lia. }
    rewrite Hlen. replace ((base s + o) mod USIZE) with (base s + o) by (symmetry; apply Z.mod_small; lia).
    split; [lia|]. split; [lia|].
    set (n := len (data s)) in *.
    assert (drop o (data s) = take (n - o) (drop (base s + o) root)) as Hdd.
    { rewrite Hd. replace n with (o + (n - o)) at 1 by lia. rewrite drop_take by lia.
      rewrite drop_drop by lia. f_equal. f_equal. lia. }
    rewrite Hdd. apply take_take. lia.
Qed.

Lemma at_root_offset root m s o s' :
  len root < USIZE -> at_root root s -> 0 <= o -> scope_offset m s o = Ok s' -> at_root root s'.
Proof.
  intros Hr Ha Ho H. rewrite scope_offset_position in H. injection H as <-.
  unfold slice_from. destruct (o <=? len (data s)) eqn:E; [|apply at_root_empty].
  pose proof (at_root_window root s o (dlen s - o) Hr Ha Ho) as Hw. unfold dlen in *.
  replace (take (len (data s) - o) (drop o (data s))) with (drop o (data s)) in Hw.
  - apply Hw; lia.
  - symmetry. apply take_all. rewrite len_drop by lia. lia.
Qed.

Lemma at_root_offset_length root m s o l s' :
  len root < USIZE -> at_root root s -> 0 <= o -> 0 <= l -> offset_length m s o l = Ok s' -> at_root root s'.
Proof.
  intros Hr Ha Ho Hl H. pose proof (offset_length_position _ _ _ _ _ H) as [Hb Hd].
  destruct (offset_length_ok _ _ _ _ _ Ho Hl H) as [[H1 [H2 H3]]|[-> [H1 H2]]].
  - destruct s' as [b d]. cbn [base data] in *. subst b. rewrite H2. apply at_root_window; auto.
  - left. exact H2.
Qed.

(* bytes of a window of the root are bytes *)
Lemma at_root_bytes root s : bytes_ok root = true -> at_root root s -> bytes_ok (data s) = true.
Proof.
  intros Hb [He|[_ [_ Hd]]]; [rewrite He; reflexivity|].
  rewrite Hd. apply bytes_ok_take. apply bytes_ok_drop. exact Hb.
Qed.

(* ---------------------------------------------------------------------------------------------
   2. the read cache *)

Lemma prim_code_inj a b : prim_code a = prim_code b -> a = b.
Proof. destruct a, b; cbn; intros H; try reflexivity; discriminate. Qed.

Lemma ty_eqb_eq a b : ty_eqb a b = true -> a = b.
Proof.
  unfold ty_eqb. rewrite zlist_eqb_eq. revert b.
  induction a as [|x a IH]; intros [|y b] H; cbn [map] in H; try discriminate; [reflexivity|].
  injection H as H1 H2. f_equal; [apply prim_code_inj; exact H1|apply IH; exact H2].
Qed.

Lemma ty_eqb_refl a : ty_eqb a a = true.
Proof. unfold ty_eqb. apply zlist_eqb_eq. reflexivity. Qed.

(* what a cache entry means: the big-endian value of type t located at position k of the root buffer *)
Definition value_at (root : list Z) (t : ty) (k : Z) (v : list Z) : Prop :=
  0 <= k /\ k + ty_size t <= len root /\ v = decode_ty t (take (ty_size t) (drop k root)).
Definition cache_ok (root : list Z) (ch : cache) : Prop :=
  Forall (fun e => value_at root (ce_ty e) (ce_key e) (ce_val e)) ch.

Lemma cache_find_ok root t k ch v :
  cache_ok root ch -> cache_find t k ch = Some v -> value_at root t k v.
Proof.
  induction ch as [|e ch IH]; intros Hc H; cbn [cache_find] in H; [discriminate|].
  inversion Hc as [|? ? He Hc']; subst.
  destruct (ty_eqb (ce_ty e) t && (ce_key e =? k)) eqn:E.
  - injection H as <-. apply andb_true_iff in E. destruct E as [E1 E2].
    apply ty_eqb_eq in E1. apply Z.eqb_eq in E2. subst. exact He.
  - apply IH; assumption.
Qed.

Lemma ty_size_spec t : forall bs, len (decode_ty t bs) = len t.
Proof.
  induction t as [|p t IH]; intros bs; cbn [decode_ty]; [reflexivity|].
  rewrite !len_cons. rewrite IH. reflexivity.
Qed.

(* ReadScope::read on a scope that is a window of the root: the value located at the scope's position *)
Lemma scope_read_exact root t s :
  bytes_ok root = true -> sinv s -> at_root root s -> 0 < ty_size t ->
  (ty_size t <= dlen s /\ value_at root t (base s) (decode_ty t (take (ty_size t) (data s))) /\
   scope_read t s = Ok (decode_ty t (take (ty_size t) (data s))))
  \/ (dlen s < ty_size t /\ scope_read t s = Err Eof).
Proof.
  intros Hb Hs Ha Ht. unfold scope_read.
  assert (cinv (ctxt_new s)) as Hc by (apply cinv_new; exact Hs).
  pose proof (at_root_bytes _ _ Hb Ha) as Hbs.
  destruct (read_ty_exact t (ctxt_new s) Hbs Hc) as [[H1 H2]|[H1 H2]]; cbn [ctxt_new sc off] in *.
  - left. rewrite H2. cbn [bind]. rewrite drop_0. split; [lia|]. split; [|reflexivity].
    destruct Ha as [He|[Hb0 [Hle Hd]]].
    + unfold dlen in H1. rewrite He in H1. cbn in H1. lia.
    + unfold value_at. split; [lia|]. split; [lia|]. f_equal.
      rewrite Hd. apply take_take. lia.
  - right. rewrite H2. split; [lia|reflexivity].
Qed.

(* ReadScope::read_cache.
   Ok v: v is the big-endian value of type t located at position base(s) of the root buffer, and the
   cache still holds only such values.  Err: nothing was stored and a direct read fails the same way. *)
Lemma read_cache_sound root t s ch :
  bytes_ok root = true -> sinv s -> at_root root s -> cache_ok root ch -> 0 < ty_size t ->
  match read_cache t s ch with
  | (Ok v, ch') => value_at root t (base s) v /\ cache_ok root ch'
  | (Err e, ch') => ch' = ch /\ e = Eof /\ scope_read t s = Err Eof /\ cache_find t (base s) ch = None
  | _ => False
  end.
Proof.
  intros Hb Hs Ha Hc Ht. unfold read_cache.
  destruct (cache_find t (base s) ch) as [v|] eqn:Ef.
  - split; [eapply cache_find_ok; eauto|exact Hc].
  - destruct (scope_read_exact root t s Hb Hs Ha Ht) as [[H1 [H2 H3]]|[H1 H2]].
    + rewrite H3. split; [exact H2|]. constructor; [exact H2|exact Hc].
    + rewrite H2. repeat split; reflexivity.
Qed.

(* the cache is transparent for every scope that holds a value of the type: same result as a direct read *)
Lemma read_cache_transparent root t s ch :
  bytes_ok root = true -> sinv s -> at_root root s -> cache_ok root ch -> 0 < ty_size t ->
  ty_size t <= dlen s -> fst (read_cache t s ch) = scope_read t s.
Proof.
  intros Hb Hs Ha Hc Ht Hle.
  destruct (scope_read_exact root t s Hb Hs Ha Ht) as [[H1 [H2 H3]]|[H1 H2]]; [|lia].
  unfold read_cache. destruct (cache_find t (base s) ch) as [v|] eqn:Ef.
  - cbn [fst]. rewrite H3. f_equal.
    destruct (cache_find_ok _ _ _ _ _ Hc Ef) as [_ [_ Hv]]. destruct H2 as [_ [_ H2]]. congruence.
  - rewrite H3. reflexivity.
Qed.

(* a position nothing was cached at: exactly the direct read, and only a successful read is stored *)
Lemma read_cache_miss t s ch :
  cache_find t (base s) ch = None ->
  fst (read_cache t s ch) = scope_read t s /\
  match scope_read t s with
  | Ok v => cache_find t (base s) (snd (read_cache t s ch)) = Some v
  | _ => snd (read_cache t s ch) = ch
  end.
Proof.
  intros Hf. unfold read_cache. rewrite Hf.
  destruct (scope_read t s) eqn:E; cbn [fst snd]; split; try reflexivity.
  cbn [cache_find ce_ty ce_key ce_val]. rewrite ty_eqb_refl, Z.eqb_refl. reflexivity.
Qed.

(* ---------------------------------------------------------------------------------------------
   3. the cursor never changes the scope it reads from *)

Lemma read_unchecked_sc p c v c' : read_unchecked p c = Ok (v, c') -> sc c' = sc c.
Proof.
  unfold read_unchecked. destruct (forallb _ _); [|discriminate]. intros H; injection H as _ <-. reflexivity.
Qed.

Lemma read_unchecked_ty_sc t : forall c v c', read_unchecked_ty t c = Ok (v, c') -> sc c' = sc c.
Proof.
  induction t as [|p t IH]; intros c v c' H; cbn [read_unchecked_ty] in H.
  - injection H as _ <-. reflexivity.
  - apply bind_ok in H. destruct H as [[v1 c1] [H1 H]].
    apply bind_ok in H. destruct H as [[vs c2] [H2 H]]. injection H as _ <-.
    apply read_unchecked_sc in H1. apply IH in H2. congruence.
Qed.

Lemma read_prim_sc p c v c' : read_prim p c = Ok (v, c') -> sc c' = sc c.
Proof. unfold read_prim. destruct (check_avail _ _); [apply read_unchecked_sc|discriminate]. Qed.

Lemma read_ty_sc t c v c' : read_ty t c = Ok (v, c') -> sc c' = sc c.
Proof. unfold read_ty. destruct (check_avail _ _); [apply read_unchecked_ty_sc|discriminate]. Qed.

Lemma read_scope_sc m c l s c' :
  read_scope m c l = Ok (s, c') -> sc c' = sc c /\ offset_length m (sc c) (off c) l = Ok s.
Proof.
  unfold read_scope. destruct (offset_length m (sc c) (off c) l) eqn:E; try discriminate.
  intros H. apply bind_ok in H. destruct H as [o' [_ H]]. injection H as <- <-. split; reflexivity.
Qed.

Lemma read_slice_sc m c l d c' : read_slice m c l = Ok (d, c') -> sc c' = sc c.
Proof.
  unfold read_slice. intros H. apply bind_ok in H. destruct H as [[s c1] [H1 H]]. injection H as _ <-.
  apply read_scope_sc in H1. tauto.
Qed.

Lemma read_until_nibble_sc m c n d c' : read_until_nibble m c n = Ok (d, c') -> sc c' = sc c.
Proof.
  unfold read_until_nibble. destruct (off c <=? dlen (sc c)); [|discriminate].
  destruct (find_nibble _ _ _); [|discriminate]. intros H. apply bind_ok in H. destruct H as [e1 [_ H]].
  eapply read_slice_sc; eauto.
Qed.

Lemma read_array_stride_sc m t c n st a c' :
  read_array_stride m t c n st = Ok (a, c') -> sc c' = sc c.
Proof.
  unfold read_array_stride. destruct (st <? ty_size t); [discriminate|]. intros H.
  apply bind_ok in H. destruct H as [sz [_ H]]. apply bind_ok in H. destruct H as [[s c1] [H1 H]].
  injection H as _ <-. apply read_scope_sc in H1. tauto.
Qed.

Lemma read_array_sc m t c n a c' : read_array m t c n = Ok (a, c') -> sc c' = sc c.
Proof. rewrite read_array_is_stride. apply read_array_stride_sc. Qed.

Lemma read_array_upto_sc m t c n a c' : read_array_upto_hack m t c n = Ok (a, c') -> sc c' = sc c.
Proof.
  unfold read_array_upto_hack. intros H. apply bind_ok in H. destruct H as [av [_ H]].
  destruct (ty_size t =? 0); [discriminate|]. eapply read_array_sc; eauto.
Qed.

(* every scope the core machine holds stays a window of the root buffer *)
Lemma rstep_at_root root m st o :
  len root < USIZE -> rinv st -> op_wf o -> at_root root (scp st) -> at_root root (sc (cur st)) ->
  at_root root (scp (fst (rstep m st o))) /\ at_root root (sc (cur (fst (rstep m st o)))).
Proof.
  intros Hr [Hs [[Hc Hcs] [Ha Has]]] Hwf A1 A2.
  destruct o; cbn [rstep op_wf] in *; unfold arg_ok in *.
  - destruct (scope_offset m (scp st) o) eqn:E; cbn [fst scp cur with_scp]; try (split; assumption).
    split; [|assumption]. apply (at_root_offset root m (scp st) o a Hr A1 ltac:(lia) E).
  - destruct (offset_length m (scp st) o l) eqn:E; cbn [fst scp cur with_scp]; try (split; assumption).
    split; [|assumption]. apply (at_root_offset_length root m (scp st) o l a Hr A1 ltac:(lia) ltac:(lia) E).
  - cbn [fst scp cur with_cur ctxt_new sc]. split; assumption.
  - unfold ctxt_scope. destruct (scope_offset m (sc (cur st)) (off (cur st))) eqn:E;
      cbn [fst scp cur with_scp]; try (split; assumption).
    split; [|assumption]. apply (at_root_offset root m (sc (cur st)) (off (cur st)) a Hr A2 ltac:(lia) E).
  - cbn [fst]. split; assumption.
  - destruct (read_prim p (cur st)) as [[v c]| | |] eqn:E; cbn [fst scp cur with_cur]; try (split; assumption).
    apply read_prim_sc in E. rewrite E. split; assumption.
  - destruct (read_ty t (cur st)) as [[v c]| | |] eqn:E; cbn [fst scp cur with_cur]; try (split; assumption).
    apply read_ty_sc in E. rewrite E. split; assumption.
  - destruct (read_scope m (cur st) l) as [[s c]| | |] eqn:E; cbn [fst scp cur with_cur with_scp];
      try (split; assumption).
    apply read_scope_sc in E. destruct E as [E1 E2]. rewrite E1. split; [|assumption].
    apply (at_root_offset_length root m (sc (cur st)) (off (cur st)) l s Hr A2 ltac:(lia) ltac:(lia) E2).
  - destruct (read_slice m (cur st) l) as [[d c]| | |] eqn:E; cbn [fst scp cur with_cur]; try (split; assumption).
    apply read_slice_sc in E. rewrite E. split; assumption.
  - destruct (read_until_nibble m (cur st) n) as [[d c]| | |] eqn:E; cbn [fst scp cur with_cur];
      try (split; assumption).
    apply read_until_nibble_sc in E. rewrite E. split; assumption.
  - destruct (read_array m t (cur st) n) as [[a c]| | |] eqn:E; cbn [fst scp cur with_cur with_arr];
      try (split; assumption).
    apply read_array_sc in E. rewrite E. split; assumption.
  - destruct (read_array_stride m t (cur st) n stride) as [[a c]| | |] eqn:E;
      cbn [fst scp cur with_cur with_arr]; try (split; assumption).
    apply read_array_stride_sc in E. rewrite E. split; assumption.
  - destruct (read_array_upto_hack m t (cur st) n) as [[a c]| | |] eqn:E;
      cbn [fst scp cur with_cur with_arr]; try (split; assumption).
    apply read_array_upto_sc in E. rewrite E. split; assumption.
  - cbn [fst]. split; assumption.
  - cbn [fst]. split; assumption.
  - cbn [fst]. split; assumption.
  - cbn [fst]. split; assumption.
  - cbn [fst]. split; assumption.
  - cbn [fst]. split; assumption.
  - cbn [fst]. split; assumption.
  - cbn [fst]. split; assumption.
Qed.

(* ---------------------------------------------------------------------------------------------
   4. arrays of dependent records (records of size 0 included) *)

(* the field-by-field reader decodes exactly like the typed read when the bytes are there *)
Lemma read_seq_exact t : forall c,
  bytes_ok (data (sc c)) = true -> cinv c -> off c + ty_size t <= dlen (sc c) ->
  read_seq t c = Ok (decode_ty t (take (ty_size t) (drop (off c) (data (sc c)))),
                     {| sc := sc c; off := off c + ty_size t |}).
Proof.
  induction t as [|p t IH]; intros c Hb Hc Hle.
  - cbn. destruct c; cbn. repeat f_equal. lia.
  - rewrite ty_size_cons in *. pose proof (prim_size_pos p). pose proof (ty_size_nonneg t).
    pose proof (prim_size_spec p) as Hsz. cbn [read_seq].
    destruct (read_prim_exact p c Hb Hc) as [[_ H1]|[H1 _]]; [|lia]. rewrite H1. cbn [bind]; cbv beta iota.
    destruct Hc as [Hc Hs].
    rewrite IH; [| cbn [sc]; assumption | unfold cinv; cbn [sc off]; split; [lia|assumption]
                 | cbn [sc off]; lia ].
    cbn [sc off bind]; cbv beta iota.
    cbn [decode_ty]. f_equal. f_equal.
    + f_equal.
      * rewrite take_take by lia. reflexivity.
      * rewrite <- Hsz. rewrite drop_take by lia. rewrite drop_drop by lia.
        rewrite (Z.add_comm (prim_size p) (off c)). reflexivity.
    + f_equal. lia.
Qed.

Lemma read_seq_total t : forall c, cinv c -> defined (read_seq t c).
Proof.
  induction t as [|p t IH]; intros c Hc; cbn [read_seq]; [apply defined_ok|].
  apply defined_bind; [apply read_prim_defined; assumption|]. intros [v c1] H1.
  apply read_prim_inv in H1; [|assumption].
  apply defined_bind; [apply IH; assumption|]. intros [vs c2] _. apply defined_ok.
Qed.

(* window = len * size, stride = size; the size may be 0 *)
Definition dinv (a : rarray) : Prop :=
  0 <= a_len a /\ a_stride a = ty_size (a_ty a) /\ dlen (a_sc a) = a_len a * a_stride a.

Lemma read_array_dep_inv m t c n a c' :
  cinv c -> 0 <= n -> read_array_dep m t c n = Ok (a, c') ->
  cinv c' /\ dinv a /\ sinv (a_sc a) /\ sc c' = sc c /\ a_len a = n /\ a_ty a = t
  /\ n * ty_size t < USIZE /\ off c' = off c + n * ty_size t
  /\ data (a_sc a) = take (n * ty_size t) (drop (off c) (data (sc c)))
  /\ offset_length m (sc c) (off c) (n * ty_size t) = Ok (a_sc a).
Proof.
  intros Hc Hn. unfold read_array_dep. intros H. pose proof (ty_size_nonneg t) as Ht.
  apply bind_ok in H. destruct H as [sz [Hsz H]].
  apply bind_ok in H. destruct H as [[s c1] [Hrs H]]. injection H as <- <-.
  apply cmul_ok in Hsz. destruct Hsz as [-> Hlt].
  assert (0 <= n * ty_size t) as Hnn by nia.
  destruct (read_scope_inv _ _ _ _ _ Hc Hnn Hrs) as [H1 [H2 [H3 [H4 H5]]]].
  apply read_scope_sc in Hrs. destruct Hrs as [_ Hol].
  cbn [a_sc a_len a_stride a_ty]. unfold dinv, sinv; cbn [a_sc a_len a_stride a_ty].
  repeat (split; [solve [auto|lia]|]). auto.
Qed.

(* for records of one field or more the dependent array is the plain array *)
Lemma read_array_dep_is_read_array m t c n : read_array_dep m t c n = read_array m t c n.
Proof. reflexivity. Qed.

Lemma dep_cell m a i :
  dinv a -> sinv (a_sc a) -> 0 <= i < a_len a ->
  umul m i (a_stride a) = Ok (i * a_stride a) /\
  exists s', offset_length m (a_sc a) (i * a_stride a) (ty_size (a_ty a)) = Ok s' /\
             dlen s' = ty_size (a_ty a) /\
             data s' = take (ty_size (a_ty a)) (drop (i * a_stride a) (data (a_sc a))).
Proof.
  intros [Hl [Hst Hd]] Hs Hi. unfold sinv in Hs. pose proof (ty_size_nonneg (a_ty a)) as Ht.
  assert (0 <= i * a_stride a /\ i * a_stride a + a_stride a <= dlen (a_sc a)) as [H1 H2] by nia.
  split.
  - unfold umul. replace (i * a_stride a <? USIZE) with true by lia. reflexivity.
  - destruct (offset_length_succeeds m (a_sc a) (i * a_stride a) (ty_size (a_ty a))) as [s' [Hs' Hd']]; try lia.
    exists s'. split; [exact Hs'|]. split; [exact Hd'|].
    destruct (offset_length_ok _ _ _ _ _ H1 Ht Hs') as [[_ [H3 _]]|[_ [H3 _]]]; [exact H3|lia].
Qed.

(* ReadArray::read_item: the item in the i-th cell of the window; outside the declared length BadIndex *)
Lemma dep_read_item_exact m a i :
  dinv a -> sinv (a_sc a) -> bytes_ok (data (a_sc a)) = true -> 0 <= i < a_len a ->
  dep_read_item m a i = Ok (item a i).
Proof.
  intros Ha Hs Hb Hi. unfold dep_read_item. replace (i <? a_len a) with true by lia.
  destruct (dep_cell m a i Ha Hs Hi) as [Hm [s' [Hs' [Hd' Hdata]]]].
  rewrite Hm. cbn [bind]. rewrite Hs'. pose proof (ty_size_nonneg (a_ty a)) as Ht.
  assert (sinv s') as Hss.
  { unfold sinv in *. destruct Ha as [Hl [Hst Hd]]. rewrite Hd'. nia. }
  rewrite read_seq_exact; cbn [ctxt_new sc off].
  - cbn [bind]. unfold item. rewrite drop_0. rewrite Hdata. rewrite take_take by lia. reflexivity.
  - rewrite Hdata. apply bytes_ok_take. apply bytes_ok_drop. exact Hb.
  - apply cinv_new. exact Hss.
  - lia.
Qed.

Lemma dep_read_item_outside m a i : a_len a <= i -> dep_read_item m a i = Err BadIndex.
Proof. intros H. unfold dep_read_item. replace (i <? a_len a) with false by lia. reflexivity. Qed.

(* ReadArrayDepIter: the first `cap` items it yields from index i are the items i, i+1, ... of the
   window, each exactly once, and there are min(cap, len - i) of them — never more than declared *)
Lemma dep_iter_take_exact m a :
  dinv a -> sinv (a_sc a) -> bytes_ok (data (a_sc a)) = true ->
  forall cap i, 0 <= i <= a_len a ->
  dep_iter_take cap m a i =
    map (fun j => Ok (item a j)) (range i (Nat.min cap (Z.to_nat (a_len a - i)))).
Proof.
  intros Ha Hs Hb. induction cap as [|k IH]; intros i Hi; cbn [dep_iter_take]; [reflexivity|].
  destruct (i <? a_len a) eqn:E.
  - replace (Z.to_nat (a_len a - i)) with (S (Z.to_nat (a_len a - (i + 1)))) by lia.
    cbn [Nat.min range map]. rewrite dep_read_item_exact by (auto; lia). rewrite IH by lia. reflexivity.
  - replace (Z.to_nat (a_len a - i)) with 0%nat by lia. rewrite Nat.min_0_r. reflexivity.
Qed.

Lemma dep_iter_take_length m a cap :
  dinv a -> sinv (a_sc a) -> bytes_ok (data (a_sc a)) = true ->
  length (dep_iter_take cap m a 0) = Nat.min cap (Z.to_nat (a_len a)).
Proof.
  intros Ha Hs Hb. rewrite dep_iter_take_exact by (auto; destruct Ha; lia).
  rewrite map_length, range_length. f_equal. f_equal. lia.
Qed.

Lemma collect_res_ok (f : Z -> list Z) l :
  collect_res (map (fun j => Ok (f j)) l) = Ok (map f l).
Proof. induction l as [|x l IH]; cbn [map collect_res bind]; [reflexivity|]. rewrite IH. reflexivity. Qed.

(* iter_res().collect() / read_to_vec / Debug: the declared number of items, in order *)
Lemma dep_collect_exact m a cap :
  dinv a -> sinv (a_sc a) -> bytes_ok (data (a_sc a)) = true ->
  collect_res (dep_iter_take cap m a 0) =
    Ok (map (item a) (range 0 (Nat.min cap (Z.to_nat (a_len a))))).
Proof.
  intros Ha Hs Hb. rewrite dep_iter_take_exact by (auto; destruct Ha; lia). rewrite collect_res_ok.
  repeat f_equal. lia.
Qed.

(* ---------------------------------------------------------------------------------------------
   5. ReadArrayCow *)

Lemma skipn_nth_error {A} (l : list A) : forall n x, nth_error l n = Some x -> skipn n l = x :: skipn (S n) l.
Proof.
  induction l as [|y l IH]; intros [|n] x H; cbn in H; try discriminate.
  - injection H as ->. reflexivity.
  - cbn [skipn]. apply IH. exact H.
Qed.

Lemma cow_collect_owned m v : forall fuel i,
  0 <= i <= len v -> (Z.to_nat (len v - i) < fuel)%nat ->
  cow_collect fuel m (CowOwned v) i = Ok (drop i v).
Proof.
  induction fuel as [|f IH]; intros i Hi Hf; [lia|]. cbn [cow_collect cow_get bind]. unfold vec_get.
  destruct (Z.eq_dec i (len v)) as [->|Hne].
  - replace ((0 <=? len v) && (len v <? len v)) with false by lia.
    unfold drop, len. rewrite Nat2Z.id. rewrite skipn_all. reflexivity.
  - replace ((0 <=? i) && (i <? len v)) with true by lia.
    destruct (nth_error v (Z.to_nat i)) as [x|] eqn:E.
    + rewrite IH by lia. cbn [bind]. unfold drop. rewrite (skipn_nth_error _ _ _ E).
      replace (Z.to_nat (i + 1)) with (S (Z.to_nat i)) by lia. reflexivity.
    + apply nth_error_None in E. unfold len in *. lia.
Qed.

(* iterating an owned cow gives back the vector; iterating a borrowed one is iterating the array *)
Lemma cow_to_vec_owned m v : cow_to_vec m (CowOwned v) = Ok v.
Proof.
  unfold cow_to_vec, cow_fuel. rewrite cow_collect_owned; [reflexivity| |]; pose proof (len_nonneg v); unfold len in *; lia.
Qed.

Lemma cow_collect_borrowed m a : window_ok a -> forall fuel i,
  0 <= i <= a_len a -> (Z.to_nat (a_len a - i) < fuel)%nat ->
  cow_collect fuel m (CowBorrowed a) i = Ok (map (item a) (range i (Z.to_nat (a_len a - i)))).
Proof.
  intros Hw. induction fuel as [|f IH]; intros i Hi Hf; [lia|]. cbn [cow_collect cow_get].
  destruct (Z.eq_dec i (a_len a)) as [->|Hne].
  - rewrite arr_get_outside by lia. cbn [bind]. replace (Z.to_nat (a_len a - a_len a)) with 0%nat by lia. reflexivity.
  - rewrite arr_get_exact by (auto; lia). cbn [bind]. rewrite IH by lia. cbn [bind].
    replace (Z.to_nat (a_len a - i)) with (S (Z.to_nat (a_len a - (i + 1)))) by lia. reflexivity.
Qed.

Lemma cow_to_vec_borrowed m a : window_ok a -> cow_to_vec m (CowBorrowed a) = arr_to_vec m a.
Proof.
  intros Hw. rewrite arr_to_vec_exact by assumption. unfold cow_to_vec, cow_fuel.
  pose proof Hw as [Hl [[Hsz Hst] [Hd _]]].
  rewrite cow_collect_borrowed; auto; try lia.
  - repeat f_equal. lia.
  - unfold dlen, len in *. nia.
Qed.

Lemma cow_get_defined m c i :
  (forall a, c = CowBorrowed a -> ainv a /\ sinv (a_sc a)) -> 0 <= i -> defined (cow_get m c i).
Proof.
  intros H Hi. destruct c as [a|v]; cbn [cow_get]; [|apply defined_ok].
  destruct (H a eq_refl). apply arr_get_defined; assumption.
Qed.

Lemma cow_collect_defined m c :
  (forall a, c = CowBorrowed a -> ainv a /\ sinv (a_sc a)) -> forall fuel i, 0 <= i ->
  defined (cow_collect fuel m c i).
Proof.
  intros H. induction fuel as [|f IH]; intros i Hi; cbn [cow_collect]; [apply defined_ok|].
  apply defined_bind; [apply cow_get_defined; assumption|]. intros [v|] _; [|apply defined_ok].
  apply defined_bind; [apply IH; lia|]. intros; apply defined_ok.
Qed.

Definition cowop_wf (o : cowop) : Prop :=
  match o with
  | CGet i | CReadItem i | CCheckIndex i => arg_ok i
  | CHint k => arg_ok k
  | _ => True
  end.

Lemma cow_step_defined m c o :
  (forall a, c = CowBorrowed a -> ainv a /\ sinv (a_sc a)) -> cowop_wf o -> defined (cow_step m c o).
Proof.
  intros H Hwf. destruct o; cbn [cow_step cowop_wf] in *; unfold arg_ok in *.
  - apply defined_ok.
  - apply defined_bind; [apply cow_get_defined; [assumption|lia]|]. intros; apply defined_ok.
  - destruct c as [a|v]; cbn [cow_read_item].
    + destruct (H a eq_refl). apply arr_read_item_defined; try assumption; lia.
    + destruct (vec_get v i); [apply defined_ok|apply defined_err].
  - apply defined_bind; [apply cow_collect_defined; [assumption|lia]|]. intros; apply defined_ok.
  - apply defined_ok.
  - unfold check_index. destruct (_ <? _); [apply defined_ok|apply defined_err].
Qed.

(* ---------------------------------------------------------------------------------------------
   6. the extended machine: invariant and totality *)

Definition xop_wf (o : xop) : Prop :=
  match o with
  | XCore c => op_wf c
  | XScopeRead t | XReadCache t => 0 < ty_size t
  | XReadArrayDep t n => arg_ok n
  | XDepReadItem i | XDepCheckIndex i | XArrCheckIndex i => arg_ok i
  | XDepHint k | XArrIterResHint k => arg_ok k
  | XCow _ c => cowop_wf c
  | _ => True
  end.

(* every scope of the state is a window of the root buffer at its own position, the cursor is within
   its scope, both array windows are len * stride long, the cache holds only values of the root *)
Definition xinv (root : list Z) (st : xstate) : Prop :=
  len root < USIZE /\ bytes_ok root = true /\ rinv (core st) /\
  at_root root (scp (core st)) /\ at_root root (sc (cur (core st))) /\
  dinv (darr st) /\ sinv (a_sc (darr st)) /\ at_root root (a_sc (darr st)) /\
  cache_ok root (cch st).

Lemma xinit_inv d : len d < USIZE -> bytes_ok d = true -> xinv d (xinit d).
Proof.
  intros Hl Hb. unfold xinv, xinit; cbn [core darr cch].
  split; [exact Hl|]. split; [exact Hb|]. split; [apply rinit_inv; exact Hl|].
  split; [apply at_root_new|]. split; [apply at_root_new|].
  split; [unfold dinv, empty_dep_array, dlen, scope_new, len; cbn [a_sc a_len a_stride a_ty data length ty_size fold_right]; lia|].
  split; [unfold sinv, empty_dep_array, dlen, scope_new, len, USIZE; cbn [a_sc data length]; lia|].
  split; [left; reflexivity|constructor].
Qed.

Lemma scope_owned_eq s : scope_owned s = s.
Proof. destruct s; reflexivity. Qed.

Lemma check_index_defined n i : defined (check_index n i).
Proof. unfold check_index. destruct (_ <? _); [apply defined_ok|apply defined_err]. Qed.

Lemma dep_read_item_defined m a i :
  dinv a -> sinv (a_sc a) -> bytes_ok (data (a_sc a)) = true -> 0 <= i -> defined (dep_read_item m a i).
Proof.
  intros Ha Hs Hb Hi. destruct (Z.lt_ge_cases i (a_len a)).
  - rewrite dep_read_item_exact by (auto; lia). apply defined_ok.
  - rewrite dep_read_item_outside by lia. apply defined_err.
Qed.

Theorem xstep_inv root m st o :
  xinv root st -> xop_wf o ->
  xinv root (fst (xstep m st o)) /\ defined (snd (xstep m st o)).
Proof.
  intros Hx Hwf. pose proof Hx as [Hl [Hb [Hr [A1 [A2 [Hd [Hds [A3 Hc]]]]]]]].
  assert (bytes_ok (data (a_sc (darr st))) = true) as Hdb by (eapply at_root_bytes; eauto).
  destruct o; cbn [xstep xop_wf] in *; unfold arg_ok in *.
  - (* XCore *)
    destruct (rstep_inv m (core st) o Hr Hwf) as [Hr' _].
    pose proof (rstep_total m (core st) o Hr Hwf) as Hdef.
    destruct (rstep_at_root root m (core st) o Hl Hr Hwf A1 A2) as [A1' A2'].
    destruct (rstep m (core st) o) as [r out]. cbn [fst snd] in *. split; [|exact Hdef].
    unfold xinv; cbn [core darr cch with_core]. tauto.
  - (* XScopeData *) cbn [fst snd]. split; [exact Hx|apply defined_ok].
  - (* XScopeRead *) cbn [fst snd]. split; [exact Hx|].
    destruct Hr as [Hs _].
    destruct (scope_read_exact root t _ Hb Hs A1 Hwf) as [[_ [_ H]]|[_ H]]; rewrite H;
      [apply defined_ok|apply defined_err].
  - (* XScopeReadDep *) cbn [fst snd]. split; [exact Hx|]. unfold scope_read_dep.
    apply defined_bind; [apply read_seq_total; apply cinv_new; apply Hr|]. intros [v c] _. apply defined_ok.
  - (* XReadCache *)
    destruct Hr as [Hs Hr'].
    pose proof (read_cache_sound root t _ (cch st) Hb Hs A1 Hc Hwf) as H.
    destruct (read_cache t (scp (core st)) (cch st)) as [out ch]. cbn [fst snd].
    destruct out as [v|e| |]; try contradiction.
    + destruct H as [_ Hc']. split; [|apply defined_ok].
      unfold xinv; cbn [core darr cch with_cch]. unfold rinv. tauto.
    + destruct H as [-> _]. split; [|apply defined_err].
      unfold xinv; cbn [core darr cch with_cch]. unfold rinv. tauto.
  - (* XOwned *) cbn [fst snd]. split; [|apply defined_ok]. rewrite scope_owned_eq.
    destruct Hr as [Hs [Hcu [Ha Has]]].
    unfold xinv, rinv; cbn [core darr cch with_core with_scp scp cur arr]. tauto.
  - (* XReadArrayDep *)
    destruct Hr as [Hs [Hcu [Ha Has]]].
    destruct (read_array_dep m t (cur (core st)) n) as [[a c]| | |] eqn:E; cbn [fst snd].
    + apply read_array_dep_inv in E; [|assumption|lia].
      destruct E as [E1 [E2 [E3 [E4 [E5 [E6 [E7 [E8 [E9 E10]]]]]]]]].
      split; [|apply defined_ok].
      assert (at_root root (a_sc a)) as A3'.
      { pose proof (ty_size_nonneg t). destruct Hcu as [Hcu _].
        apply (at_root_offset_length root m (sc (cur (core st))) (off (cur (core st))) (n * ty_size t) (a_sc a)
                 Hl A2 ltac:(lia) ltac:(nia) E10). }
      unfold xinv, rinv; cbn [core darr cch with_core with_darr with_cur scp cur arr]. rewrite E4. tauto.
    + split; [exact Hx|apply defined_err].
    + exfalso. unfold read_array_dep in E.
      destruct (cmul n (ty_size t)) as [sz| | |] eqn:Ec; cbn [bind] in E; try discriminate.
      * apply cmul_ok in Ec. destruct Ec as [-> Hlt]. pose proof (ty_size_nonneg t).
        destruct (read_scope_defined m (cur (core st)) (n * ty_size t) Hcu ltac:(nia)) as [[[s c] Hrs]|[e Hrs]];
          rewrite Hrs in E; discriminate.
      * unfold cmul in Ec. destruct (_ <? _); discriminate.
    + exfalso. unfold read_array_dep in E.
      destruct (cmul n (ty_size t)) as [sz| | |] eqn:Ec; cbn [bind] in E; try discriminate.
      * apply cmul_ok in Ec. destruct Ec as [-> Hlt]. pose proof (ty_size_nonneg t).
        destruct (read_scope_defined m (cur (core st)) (n * ty_size t) Hcu ltac:(nia)) as [[[s c] Hrs]|[e Hrs]];
          rewrite Hrs in E; discriminate.
      * unfold cmul in Ec. destruct (_ <? _); discriminate.
  - (* XDepLen *) cbn [fst snd]. split; [exact Hx|apply defined_ok].
  - (* XDepReadItem *) cbn [fst snd]. split; [exact Hx|]. apply dep_read_item_defined; auto; lia.
  - (* XDepIter *) cbn [fst snd]. split; [exact Hx|]. unfold dep_iter_obs.
    rewrite dep_collect_exact by assumption. apply defined_ok.
  - (* XDepReadToVec *) cbn [fst snd]. split; [exact Hx|]. unfold dep_read_to_vec.
    destruct (_ <=? _); [|apply defined_ok]. rewrite dep_collect_exact by assumption. apply defined_ok.
  - (* XDepHint *) cbn [fst snd]. split; [exact Hx|apply defined_ok].
  - (* XDepDebug *) cbn [fst snd]. split; [exact Hx|]. unfold dep_debug_obs, dep_iter_obs.
    destruct (_ <=? _); [|apply defined_ok]. rewrite dep_collect_exact by assumption. apply defined_ok.
  - (* XDepCheckIndex *) cbn [fst snd]. split; [exact Hx|apply check_index_defined].
  - (* XArrDebug *) cbn [fst snd]. split; [exact Hx|]. exact (rstep_total m (core st) OArrReadToVec Hr I).
  - (* XArrCheckIndex *) cbn [fst snd]. split; [exact Hx|apply check_index_defined].
  - (* XArrIterResHint *) cbn [fst snd]. split; [exact Hx|apply defined_ok].
  - (* XCow *) cbn [fst snd]. split; [exact Hx|]. destruct Hr as [Hs [Hcu [Ha Has]]].
    apply defined_bind.
    + unfold cow_of. destruct owned; [|apply defined_ok].
      apply defined_bind; [|intros; apply defined_ok].
      unfold arr_to_vec. apply iter_collect_defined; try assumption. destruct Ha; lia.
    + intros w Hw. apply cow_step_defined; [|assumption]. intros a ->.
      unfold cow_of in Hw. destruct owned.
      * apply bind_ok in Hw. destruct Hw as [v [_ Hw]]. discriminate.
      * injection Hw as <-. split; assumption.
Qed.

(* every reachable state of every program over every buffer: the invariant holds and every
   operation returned a value or an error (no Panic, no OOB) *)
Theorem xrun_total root m ops : forall st,
  xinv root st -> Forall xop_wf ops ->
  Forall (fun r => defined (fst r)) (xrun m st ops).
Proof.
  induction ops as [|o ops IH]; intros st Hinv Hwf; cbn [xrun]; [constructor|].
  inversion Hwf as [|? ? Ho Hops]; subst.
  destruct (xstep_inv root m st o Hinv Ho) as [Hinv' Hdef].
  destruct (xstep m st o) as [st' out]. cbn [fst snd] in *.
  constructor; [exact Hdef|]. apply IH; assumption.
Qed.

(* what the machine prints as positions after a step is what the lemmas of part 1 say *)
Lemma positions_spec m st :
  positions m st =
    [ len (slice_from (data (sc (cur (core st)))) (off (cur (core st))));
      (base (sc (cur (core st))) + off (cur (core st))) mod USIZE;
      base (scp (core st)); dlen (scp (core st)) ].
Proof. reflexivity. Qed.

(* a cached read performed by the machine: the value located at the position of the scope variable *)
Theorem xstep_cache_value root m st t v :
  xinv root st -> 0 < ty_size t -> snd (xstep m st (XReadCache t)) = Ok v ->
  value_at root t (base (scp (core st))) v.
Proof.
  intros [Hl [Hb [[Hs _] [A1 [_ [_ [_ [_ Hc]]]]]]]] Ht. cbn [xstep].
  pose proof (read_cache_sound root t _ (cch st) Hb Hs A1 Hc Ht) as H.
  destruct (read_cache t (scp (core st)) (cch st)) as [out ch]. cbn [snd]. intros ->. tauto.
Qed.
