(* Proofs/CmapParseProofs.v — facts about CmapSubtable::read (Model.Cmap.parse): the parsed fields
   fit their machine widths ([in_range]), so the enumeration theorems apply to every sub-table that
   parses; no function of the model panics. *)
From AV Require Import Base.Prelude Base.Lemmas Gen.CmapPrefs Model.MacRoman Model.Cmap Model.CmapSpec
  Proofs.CmapProofs.
Require Import ZifyBool.
Open Scope Z_scope.

(* ------------------------------------------------------------------------------------------- *)
(* big-endian values are bounded by their width *)

Lemma be_fold_bound l acc :
  bytes_ok l = true -> 0 <= acc ->
  0 <= fold_left (fun a b => a * 256 + b) l acc < (acc + 1) * 256 ^ len l.
Proof.
  revert acc. induction l as [|b t IH]; intros acc Hb Ha.
  - cbn [fold_left]. unfold len. cbn [length Z.of_nat]. change (256 ^ 0) with 1. lia.
  - cbn [bytes_ok forallb] in Hb. apply andb_prop in Hb. destruct Hb as [Hb0 Hb].
    unfold byte_ok in Hb0. cbn [fold_left]. rewrite len_cons.
    specialize (IH (acc * 256 + b) Hb ltac:(lia)).
    pose proof (len_nonneg t) as Hl.
    rewrite Z.pow_add_r by lia. change (256 ^ 1) with 256.
    assert (0 < 256 ^ len t) by (apply Z.pow_pos_nonneg; lia).
    nia.
Qed.

Lemma be_val_bound l : bytes_ok l = true -> 0 <= be_val l < 256 ^ len l.
Proof. intros H. pose proof (be_fold_bound l 0 H ltac:(lia)) as B. unfold be_val. lia. Qed.

Lemma len_take_le_n {A} n (d : list A) : 0 <= n -> len (take n d) <= n.
Proof. intros H. unfold len, take. pose proof (firstn_le_length (Z.to_nat n) d). lia. Qed.

Lemma be_val_take_bound n d : bytes_ok d = true -> 0 <= n -> 0 <= be_val (take n d) < 256 ^ n.
Proof.
  intros Hb Hn. pose proof (be_val_bound (take n d) (bytes_ok_take d n Hb)) as B.
  pose proof (len_take_le_n n d Hn) as L. pose proof (len_nonneg (take n d)) as L0.
  assert (256 ^ len (take n d) <= 256 ^ n) by (apply Z.pow_le_mono_r; lia). lia.
Qed.

Lemma rd_ok n d v d' :
  bytes_ok d = true -> 0 <= n -> rd n d = Ok (v, d') ->
  0 <= v < 256 ^ n /\ bytes_ok d' = true.
Proof.
  intros Hb Hn H. unfold rd in H. destruct (n <=? len d); [|discriminate].
  inversion H; subst. split; [apply be_val_take_bound; assumption | apply bytes_ok_drop; assumption].
Qed.

Lemma rd2_ok d v d' : bytes_ok d = true -> rd 2 d = Ok (v, d') -> u16 v /\ bytes_ok d' = true.
Proof.
  intros Hb H. destruct (rd_ok 2 d v d' Hb ltac:(lia) H) as [H1 H2]. change (256 ^ 2) with 65536 in H1.
  unfold u16. split; [lia | exact H2].
Qed.

Lemma rd4_ok d v d' : bytes_ok d = true -> rd 4 d = Ok (v, d') -> u32 v /\ bytes_ok d' = true.
Proof.
  intros Hb H. destruct (rd_ok 4 d v d' Hb ltac:(lia) H) as [H1 H2]. change (256 ^ 4) with 4294967296 in H1.
  unfold u32. split; [lia | exact H2].
Qed.

Lemma chunks_bytes_ok size n d :
  bytes_ok d = true -> Forall (fun it => bytes_ok it = true) (chunks size n d).
Proof.
  revert d. induction n as [|n IH]; intros d Hb; cbn [chunks]; constructor.
  - apply bytes_ok_take. exact Hb.
  - apply IH. apply bytes_ok_drop. exact Hb.
Qed.

Lemma chunks_be_val size n d :
  bytes_ok d = true -> 0 <= size ->
  Forall (fun v => 0 <= v < 256 ^ size) (map be_val (chunks size n d)).
Proof.
  revert d. induction n as [|n IH]; intros d Hb Hs; cbn [chunks map]; constructor.
  - apply be_val_take_bound; assumption.
  - apply IH; [apply bytes_ok_drop; exact Hb | exact Hs].
Qed.

Lemma chunks_length size n d : length (chunks size n d) = n.
Proof. revert d. induction n as [|n IH]; intros d; cbn [chunks length]; [reflexivity | f_equal; apply IH]. Qed.

Lemma rd_array_ok size n d items d' :
  bytes_ok d = true -> 0 <= n -> rd_array size n d = Ok (items, d') ->
  Forall (fun it => bytes_ok it = true) items /\ bytes_ok d' = true /\ len items = n /\
  items = chunks size (Z.to_nat n) d.
Proof.
  intros Hb Hn H. unfold rd_array in H. destruct (n * size <=? len d); [|discriminate].
  inversion H; subst. split; [apply chunks_bytes_ok; exact Hb|].
  split; [apply bytes_ok_drop; exact Hb|]. split; [|reflexivity].
  unfold len. rewrite chunks_length. lia.
Qed.

Lemma rd_u16s_ok n d l d' :
  bytes_ok d = true -> 0 <= n -> rd_u16s n d = Ok (l, d') ->
  Forall u16 l /\ bytes_ok d' = true /\ len l = n.
Proof.
  intros Hb Hn H. unfold rd_u16s in H.
  destruct (rd_array 2 n d) as [[items d1]| | |] eqn:E; cbn [bind] in H; try discriminate.
  inversion H; subst. destruct (rd_array_ok _ _ _ _ _ Hb Hn E) as (_ & H2 & H3 & ->).
  split; [|split; [exact H2|]].
  - pose proof (chunks_be_val 2 (Z.to_nat n) d Hb ltac:(lia)) as F.
    rewrite Forall_forall in F |- *. intros v Hv. specialize (F v Hv). cbn beta in F.
    change (256 ^ 2) with 65536 in F. unfold u16. lia.
  - unfold len in *. rewrite map_length. exact H3.
Qed.

Lemma rd_u8s_ok n d l d' :
  bytes_ok d = true -> 0 <= n -> rd_u8s n d = Ok (l, d') ->
  Forall (fun g => 0 <= g <= 255) l /\ bytes_ok d' = true /\ len l = n.
Proof.
  intros Hb Hn H. unfold rd_u8s in H.
  destruct (rd_array 1 n d) as [[items d1]| | |] eqn:E; cbn [bind] in H; try discriminate.
  inversion H; subst. destruct (rd_array_ok _ _ _ _ _ Hb Hn E) as (_ & H2 & H3 & ->).
  split; [|split; [exact H2|]].
  - pose proof (chunks_be_val 1 (Z.to_nat n) d Hb ltac:(lia)) as F.
    rewrite Forall_forall in F |- *. intros v Hv. specialize (F v Hv). cbn beta in F.
    change (256 ^ 1) with 256 in F. lia.
  - unfold len in *. rewrite map_length. exact H3.
Qed.

Lemma to_signed16_range v : i16 (to_signed 16 v).
Proof.
  unfold i16, to_signed. change (2 ^ 16) with 65536. change (2 ^ (16 - 1)) with 32768.
  pose proof (Z.mod_pos_bound v 65536 ltac:(lia)). destruct (v mod 65536 <? 32768) eqn:E; lia.
Qed.

Lemma rd_i16s_ok n d l d' :
  bytes_ok d = true -> 0 <= n -> rd_i16s n d = Ok (l, d') ->
  Forall i16 l /\ bytes_ok d' = true /\ len l = n.
Proof.
  intros Hb Hn H. unfold rd_i16s in H.
  destruct (rd_array 2 n d) as [[items d1]| | |] eqn:E; cbn [bind] in H; try discriminate.
  inversion H; subst. destruct (rd_array_ok _ _ _ _ _ Hb Hn E) as (_ & H2 & H3 & ->).
  split; [|split; [exact H2|]].
  - apply Forall_forall. intros x Hx. apply in_map_iff in Hx. destruct Hx as (it & <- & _).
    apply to_signed16_range.
  - unfold len in *. rewrite map_length. exact H3.
Qed.

(* ------------------------------------------------------------------------------------------- *)
(* stepping through the parser *)

Ltac step_rd H Hb n v d1 Hv Hb1 :=
  match type of H with
  | bind (?f ?d0) _ = Ok _ =>
      let E := fresh "E" in
      destruct (f d0) as [[v d1]| | |] eqn:E; cbn [bind] in H; [|discriminate..];
      first [ destruct (rd2_ok _ _ _ Hb E) as [Hv Hb1] | destruct (rd4_ok _ _ _ Hb E) as [Hv Hb1] ]
  end.

Ltac step_check H :=
  match type of H with
  | bind (check ?b) _ = Ok _ =>
      let E := fresh "C" in
      destruct b eqn:E; cbn [check bind] in H; [|discriminate]
  end.

Lemma parse0_in_range d st : bytes_ok d = true -> parse0 d = Ok st -> in_range st.
Proof.
  intros Hb H. unfold parse0 in H. unfold rd_u16 in H.
  step_rd H Hb 2 vlen d1 Hl Hb1. step_check H.
  step_rd H Hb1 2 language d2 Hlang Hb2.
  destruct (rd_u8s 256 d2) as [[gids d3]| | |] eqn:Q1; cbn [bind] in H; try discriminate.
  inversion H; subst. destruct (rd_u8s_ok 256 d2 gids d3 Hb2 ltac:(clear; lia) Q1) as (G1 & _ & G3).
  cbn [in_range]. split; assumption.
Qed.

Lemma parse4_in_range d st : bytes_ok d = true -> parse4 d = Ok st -> in_range st.
Proof.
  intros Hb H. unfold parse4 in H. unfold rd_u16 in H.
  step_rd H Hb 2 vlen d1 Hl Hb1.
  step_rd H Hb1 2 language d2 Hlang Hb2.
  step_rd H Hb2 2 segx2 d3 Hsx Hb3.
  step_check H.
  step_rd H Hb3 2 sr d4 Hsr Hb4.
  step_rd H Hb4 2 es d5 Hes Hb5.
  step_rd H Hb5 2 rs d6 Hrs Hb6.
  assert (Hsc : 0 <= segx2 / 2) by (clear - Hsx; unfold u16 in Hsx; apply Z.div_pos; lia).
  destruct (rd_u16s (segx2 / 2) d6) as [[ends d7]| | |] eqn:Q1; cbn [bind] in H; try discriminate.
  destruct (rd_u16s_ok _ _ _ _ Hb6 Hsc Q1) as (R1 & Hb7 & _).
  step_rd H Hb7 2 pad d8 Hpad Hb8.
  destruct (rd_u16s (segx2 / 2) d8) as [[starts d9]| | |] eqn:Q2; cbn [bind] in H; try discriminate.
  destruct (rd_u16s_ok _ _ _ _ Hb8 Hsc Q2) as (R2 & Hb9 & _).
  destruct (rd_i16s (segx2 / 2) d9) as [[deltas d10]| | |] eqn:Q3; cbn [bind] in H; try discriminate.
  destruct (rd_i16s_ok _ _ _ _ Hb9 Hsc Q3) as (R3 & Hb10 & _).
  destruct (rd_u16s (segx2 / 2) d10) as [[ros d11]| | |] eqn:Q4; cbn [bind] in H; try discriminate.
  destruct (rd_u16s_ok _ _ _ _ Hb10 Hsc Q4) as (R4 & Hb11 & _).
  step_check H. step_check H.
  destruct (rd_u16s ((vlen - (8 + 4 * (segx2 / 2)) * 2) / 2) d11) as [[gids d12]| | |] eqn:Q5;
    cbn [bind] in H; try discriminate.
  assert (Hn : 0 <= (vlen - (8 + 4 * (segx2 / 2)) * 2) / 2) by (clear - C0; apply Z.div_pos; lia).
  destruct (rd_u16s_ok _ _ _ _ Hb11 Hn Q5) as (R5 & _ & _).
  inversion H; subst. cbn [in_range]. repeat split; assumption.
Qed.

Lemma parse6_in_range d st : bytes_ok d = true -> parse6 d = Ok st -> in_range st.
Proof.
  intros Hb H. unfold parse6 in H. unfold rd_u16 in H.
  step_rd H Hb 2 vlen d1 Hl Hb1.
  step_rd H Hb1 2 language d2 Hlang Hb2.
  step_rd H Hb2 2 vfirst d3 Hf Hb3.
  step_rd H Hb3 2 count d4 Hc Hb4.
  destruct (rd_u16s count d4) as [[gids d5]| | |] eqn:Q1; cbn [bind] in H; try discriminate.
  destruct (rd_u16s_ok count d4 gids d5 Hb4 (proj1 Hc) Q1) as (R1 & _ & R3).
  inversion H; subst. cbn [in_range]. unfold u16 in *.
  split; [lia|]. split; [exact R1 | lia].
Qed.

Lemma parse10_in_range d st : bytes_ok d = true -> parse10 d = Ok st -> in_range st.
Proof.
  intros Hb H. unfold parse10 in H. unfold rd_u16, rd_u32 in H.
  step_rd H Hb 2 reserved d1 Hr Hb1. step_check H.
  step_rd H Hb1 4 vlen d2 Hl Hb2.
  step_rd H Hb2 4 language d3 Hlang Hb3.
  step_rd H Hb3 4 start d4 Hs Hb4.
  step_rd H Hb4 4 count d5 Hc Hb5.
  destruct (rd_u16s count d5) as [[gids d6]| | |] eqn:Q1; cbn [bind] in H; try discriminate.
  destruct (rd_u16s_ok count d5 gids d6 Hb5 (proj1 Hc) Q1) as (R1 & _ & R3).
  inversion H; subst. cbn [in_range]. unfold u32 in *.
  split; [lia|]. split; [exact R1 | lia].
Qed.

Lemma decode_group_range it :
  bytes_ok it = true ->
  u32 (g_start (decode_group it)) /\ u32 (g_end (decode_group it)) /\ u32 (g_gid (decode_group it)).
Proof.
  intros Hb. unfold decode_group, u32. cbn [g_start g_end g_gid].
  pose proof (be_val_take_bound 4 it Hb ltac:(lia)) as B1.
  pose proof (be_val_take_bound 4 (drop 4 it) (bytes_ok_drop it 4 Hb) ltac:(lia)) as B2.
  pose proof (be_val_take_bound 4 (drop 8 it) (bytes_ok_drop it 8 Hb) ltac:(lia)) as B3.
  change (256 ^ 4) with 4294967296 in *. lia.
Qed.

Lemma parse12_in_range d st : bytes_ok d = true -> parse12 d = Ok st -> in_range st.
Proof.
  intros Hb H. unfold parse12 in H. unfold rd_u16, rd_u32 in H.
  step_rd H Hb 2 reserved d1 Hr Hb1. step_check H.
  step_rd H Hb1 4 vlen d2 Hl Hb2.
  step_rd H Hb2 4 language d3 Hlang Hb3.
  step_rd H Hb3 4 count d4 Hc Hb4.
  destruct (rd_array 12 count d4) as [[items d5]| | |] eqn:Q1; cbn [bind] in H; try discriminate.
  destruct (rd_array_ok 12 count d4 items d5 Hb4 (proj1 Hc) Q1) as (R1 & _ & _ & _).
  inversion H; subst. cbn [in_range].
  apply Forall_forall. intros g Hg. apply in_map_iff in Hg. destruct Hg as (it & <- & Hit).
  rewrite Forall_forall in R1. apply decode_group_range. apply R1. exact Hit.
Qed.

(* every sub-table that CmapSubtable::read accepts has in-range fields *)
Theorem parse_in_range d st : bytes_ok d = true -> parse d = Ok st -> in_range st.
Proof.
  intros Hb H. unfold parse in H. unfold rd_u16 in H.
  step_rd H Hb 2 fmt d1 Hf Hb1.
  destruct (fmt =? 0); [eapply parse0_in_range; eauto|].
  destruct (fmt =? 2).
  { unfold parse2 in H.
    repeat match type of H with
           | bind ?x _ = Ok _ => destruct x as [[? ?]| | |]; cbn [bind] in H; try discriminate
           end.
    inversion H. exact I. }
  destruct (fmt =? 4); [eapply parse4_in_range; eauto|].
  destruct (fmt =? 6); [eapply parse6_in_range; eauto|].
  destruct (fmt =? 10); [eapply parse10_in_range; eauto|].
  destruct (fmt =? 12); [eapply parse12_in_range; eauto|].
  discriminate.
Qed.

(* a parsed format 4 sub-table has four segment arrays of the same length, below 2^15 *)
Theorem parse4_shape d l ends starts deltas ros gids :
  bytes_ok d = true -> parse4 d = Ok (F4 l ends starts deltas ros gids) ->
  len ends = len starts /\ len deltas = len starts /\ len ros = len starts /\ len starts <= 32767.
Proof.
  intros Hb H. unfold parse4 in H. unfold rd_u16 in H.
  step_rd H Hb 2 vlen d1 Hl Hb1.
  step_rd H Hb1 2 language d2 Hlang Hb2.
  step_rd H Hb2 2 segx2 d3 Hsx Hb3.
  step_check H.
  step_rd H Hb3 2 sr d4 Hsr Hb4.
  step_rd H Hb4 2 es d5 Hes Hb5.
  step_rd H Hb5 2 rs d6 Hrs Hb6.
  assert (Hsc : 0 <= segx2 / 2) by (clear - Hsx; unfold u16 in Hsx; apply Z.div_pos; lia).
  destruct (rd_u16s (segx2 / 2) d6) as [[ends' d7]| | |] eqn:Q1; cbn [bind] in H; try discriminate.
  destruct (rd_u16s_ok _ _ _ _ Hb6 Hsc Q1) as (_ & Hb7 & L1).
  step_rd H Hb7 2 pad d8 Hpad Hb8.
  destruct (rd_u16s (segx2 / 2) d8) as [[starts' d9]| | |] eqn:Q2; cbn [bind] in H; try discriminate.
  destruct (rd_u16s_ok _ _ _ _ Hb8 Hsc Q2) as (_ & Hb9 & L2).
  destruct (rd_i16s (segx2 / 2) d9) as [[deltas' d10]| | |] eqn:Q3; cbn [bind] in H; try discriminate.
  destruct (rd_i16s_ok _ _ _ _ Hb9 Hsc Q3) as (_ & Hb10 & L3).
  destruct (rd_u16s (segx2 / 2) d10) as [[ros' d11]| | |] eqn:Q4; cbn [bind] in H; try discriminate.
  destruct (rd_u16s_ok _ _ _ _ Hb10 Hsc Q4) as (_ & Hb11 & L4).
  step_check H. step_check H.
  destruct (rd_u16s ((vlen - (8 + 4 * (segx2 / 2)) * 2) / 2) d11) as [[gids' d12]| | |] eqn:Q5;
    cbn [bind] in H; try discriminate.
  inversion H; subst.
  assert (segx2 / 2 < 32768) by (clear - Hsx; unfold u16 in Hsx; apply Z.div_lt_upper_bound; lia).
  clear - L1 L2 L3 L4 H0. lia.
Qed.

(* ------------------------------------------------------------------------------------------- *)
(* no function of the (fixed) cmap code panics or reads out of bounds: the model contains no
   panicking operation; stated so that the Font-level theorems need no side condition *)

Definition safe {A} (o : outcome A) : Prop := match o with Panic | OOB => False | _ => True end.

Lemma safe_neq {A} (o : outcome A) : safe o <-> o <> Panic /\ o <> OOB.
Proof. destruct o; cbn [safe]; split; try tauto; try (intros; split; discriminate); intros [H1 H2]; congruence. Qed.

Lemma bind_safe {A B} (x : outcome A) (f : A -> outcome B) :
  safe x -> (forall a, x = Ok a -> safe (f a)) -> safe (bind x f).
Proof. destruct x; cbn [safe bind]; auto. Qed.

Lemma rd_safe n d : safe (rd n d).
Proof. unfold rd. destruct (n <=? len d); exact I. Qed.
Lemma check_safe b : safe (check b).
Proof. destruct b; exact I. Qed.
Lemma rd_array_safe s n d : safe (rd_array s n d).
Proof. unfold rd_array. destruct (n * s <=? len d); exact I. Qed.
Lemma ok_or_safe {A} (o : option A) e : safe (ok_or o e).
Proof. destruct o; exact I. Qed.

Ltac safe_auto :=
  repeat (cbv beta iota;
    match goal with
    | |- safe (Ok _) => exact I
    | |- safe (Err _) => exact I
    | |- safe (rd _ _) => apply rd_safe
    | |- safe (rd_u16 _) => apply rd_safe
    | |- safe (rd_u32 _) => apply rd_safe
    | |- safe (check _) => apply check_safe
    | |- safe (rd_array _ _ _) => apply rd_array_safe
    | |- safe (ok_or _ _) => apply ok_or_safe
    | |- safe (bind _ _) => apply bind_safe; [| intros ? _]
    | |- safe (if ?b then _ else _) => destruct b
    | |- safe (match ?x with _ => _ end) => destruct x
    end).

Lemma rd_u8s_safe n d : safe (rd_u8s n d).
Proof. unfold rd_u8s. safe_auto. Qed.
Lemma rd_u16s_safe n d : safe (rd_u16s n d).
Proof. unfold rd_u16s. safe_auto. Qed.
Lemma rd_i16s_safe n d : safe (rd_i16s n d).
Proof. unfold rd_i16s. safe_auto. Qed.

Ltac safe_auto2 :=
  repeat (safe_auto;
    match goal with
    | |- safe (rd_u8s _ _) => apply rd_u8s_safe
    | |- safe (rd_u16s _ _) => apply rd_u16s_safe
    | |- safe (rd_i16s _ _) => apply rd_i16s_safe
    end).

Theorem parse_safe d : safe (parse d).
Proof.
  unfold parse, parse0, parse2, parse4, parse6, parse10, parse12. safe_auto2.
Qed.

Lemma glyph_rule_safe ros gids ro c dl i sco : safe (glyph_id_for_id_range_offset ros gids ro c dl i sco).
Proof. unfold glyph_id_for_id_range_offset, offset_to_index. safe_auto. Qed.

Lemma f2_glyph_safe sh key scope idx : safe (f2_glyph sh key scope idx).
Proof. unfold f2_glyph, glyph_index_sub_array. safe_auto2. Qed.

Theorem map_glyph_safe st c : safe (map_glyph st c).
Proof.
  destruct st; cbn [map_glyph].
  - exact I.
  - unfold f2_map_glyph. safe_auto. apply f2_glyph_safe.
  - unfold f4_map_glyph. safe_auto. apply glyph_rule_safe.
  - safe_auto.
  - safe_auto.
  - unfold f12_map_glyph. safe_auto.
Qed.

Lemma emit_list_safe f chs : (forall ch, safe (f ch)) -> safe (snd (emit_list f chs)).
Proof.
  intros Hf. induction chs as [|a t IH]; cbn [emit_list]; [exact I|].
  pose proof (Hf a) as Ha. destruct (f a); cbn [snd safe] in *; try exact I; try contradiction. exact IH.
Qed.

Lemma emit_then_safe a k : safe (snd a) -> safe (snd k) -> safe (snd (emit_then a k)).
Proof. destruct a as [l [[]| | |]]; cbn [emit_then snd safe]; auto. Qed.

Lemma emit_all_safe {A} (f : A -> emitted) l : (forall a, safe (snd (f a))) -> safe (snd (emit_all f l)).
Proof.
  intros Hf. induction l as [|a t IH]; cbn [emit_all]; [exact I|]. apply emit_then_safe; auto.
Qed.

Lemma f10_mappings_safe s l : safe (snd (f10_mappings s l)).
Proof.
  revert s. induction l as [|g t IH]; intros s; cbn [f10_mappings]; [exact I|].
  destruct (4294967295 <? s); cbn [snd]; [exact I | apply IH].
Qed.

Theorem mappings_safe st : safe (snd (mappings st)).
Proof.
  destruct st; cbn [mappings snd]; try exact I.
  - apply emit_all_safe. intros hb. unfold f2_high_mappings.
    destruct (get keys hb); [|exact I]. destruct (get headers (z / 8)); [|exact I].
    destruct (z / 8 =? 0).
    + destruct (negb (sh_contains s hb)); [exact I|]. apply emit_list_safe. intros; apply f2_glyph_safe.
    + cbn [snd]. apply emit_list_safe. intros; apply f2_glyph_safe.
  - unfold f4_mappings. apply emit_all_safe. intros [i sg]. apply emit_list_safe. intros; apply glyph_rule_safe.
  - apply f10_mappings_safe.
  - apply emit_all_safe. intros g. unfold f12_group_mappings. apply emit_list_safe. intros ch. safe_auto.
Qed.

(* Font::map_glyph always returns a glyph: the sub-table's, or 0 *)
Theorem font_map_glyph_total cmap offset code :
  font_map_glyph cmap offset code =
  Ok (match parse (slice_from cmap offset) with
      | Ok st => glyph_of (map_glyph st code)
      | _ => 0
      end).
Proof.
  unfold font_map_glyph. pose proof (parse_safe (slice_from cmap offset)) as HP.
  destruct (parse (slice_from cmap offset)) as [st| | |]; cbn [safe] in HP; try reflexivity; try contradiction.
  pose proof (map_glyph_safe st code) as HM. unfold glyph_of.
  destruct (map_glyph st code) as [[g|]| | |]; cbn [safe] in HM; try reflexivity; contradiction.
Qed.

(* Font::new + lookup_glyph_index never panics: it returns a glyph, or Font::new fails with a parse
   error / UnsuitableCmap, or (Big5, not modelled) NotImplemented *)
Theorem font_lookup_safe cmap first ch : safe (font_lookup cmap first ch).
Proof.
  unfold font_lookup, charmap_info, parse_cmap. safe_auto.
  unfold map_unicode_to_glyph.
  assert (HF : forall code, safe (font_map_glyph cmap z code)).
  { intros code. rewrite font_map_glyph_total. exact I. }
  destruct e; try apply HF; try exact I.
  - destruct (legacy_symbol_char_code first ch); [apply HF | exact I].
  - destruct (char_to_macroman ch); [apply HF|].
    destruct (legacy_symbol_char_code first ch); [apply HF | exact I].
Qed.

(* the enumeration theorems apply to everything the parser accepts *)
Theorem parsed_mappings_first d st c :
  bytes_ok d = true -> parse d = Ok st -> supported st -> 0 <= c ->
  snd (mappings st) = Ok tt ->
  first_assoc c (fst (mappings st)) = lookup st c.
Proof.
  intros Hb HP Hsup Hc H. apply mappings_first; try assumption. eapply parse_in_range; eauto.
Qed.

Theorem parsed_glyph_is_u16 d st c g :
  bytes_ok d = true -> parse d = Ok st -> supported st -> 0 <= c ->
  map_glyph st c = Ok (Some g) -> 0 <= g <= 65535.
Proof.
  intros Hb HP Hsup Hc H. eapply map_glyph_u16; eauto. eapply parse_in_range; eauto.
Qed.
