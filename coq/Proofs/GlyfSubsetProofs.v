(* Proofs/GlyfSubsetProofs.v — lemmas about Model/GlyfSubset.v (property C07, glyf and hmtx part) *)
From AV Require Import Base.Prelude Base.Lemmas Gen.SubsetConsts Model.GlyfSubset.
From Coq Require Import List ZArith Lia Bool.
Import ListNotations.
Open Scope Z_scope.

(* ------------------------------------------------------------------------------------------- *)
(* nth_opt / get_record *)

Lemma nth_opt_Some {A} (l : list A) i a :
  nth_opt l i = Some a -> 0 <= i < len l /\ nth_error l (Z.to_nat i) = Some a.
Proof.
  unfold nth_opt. destruct (i <? 0) eqn:E; [discriminate|]. intros H.
  apply Z.ltb_ge in E. split; [|exact H].
  assert (Hn : (Z.to_nat i < length l)%nat) by (apply nth_error_Some; congruence).
  unfold len. lia.
Qed.

Lemma nth_opt_of_nat {A} (l : list A) n : nth_opt l (Z.of_nat n) = nth_error l n.
Proof.
  unfold nth_opt. destruct (Z.of_nat n <? 0) eqn:E; [apply Z.ltb_lt in E; lia|].
  now rewrite Nat2Z.id.
Qed.

Lemma nth_opt_In {A} (l : list A) i a : nth_opt l i = Some a -> In a l.
Proof. intros H. apply nth_opt_Some in H. destruct H as [_ H]. eapply nth_error_In; eauto. Qed.

(* ------------------------------------------------------------------------------------------- *)
(* position *)

Lemma position_Some_nth ids x p : position ids x = Some p -> nth_error ids p = Some x.
Proof.
  revert p. induction ids as [|y r IH]; intros p H; cbn [position] in H; [discriminate|].
  destruct (y =? x) eqn:E.
  - injection H as <-. apply Z.eqb_eq in E. now subst.
  - destruct (position r x) as [q|]; cbn [option_map] in H; [|discriminate].
    injection H as <-. cbn [nth_error]. now apply IH.
Qed.

Lemma position_Some_lt ids x p : position ids x = Some p -> (p < length ids)%nat.
Proof. intros H. apply nth_error_Some. rewrite (position_Some_nth _ _ _ H). discriminate. Qed.

Lemma position_None ids x : position ids x = None <-> ~ In x ids.
Proof.
  induction ids as [|y r IH]; cbn [position In]; [tauto|].
  destruct (y =? x) eqn:E.
  - apply Z.eqb_eq in E. split; [discriminate|]. intros H. exfalso. apply H. now left.
  - apply Z.eqb_neq in E. destruct (position r x); cbn [option_map].
    + split; [discriminate|]. intros H. exfalso. apply H. right. apply Decidable.not_not.
      { destruct (in_dec Z.eq_dec x r); [left|right]; assumption. }
      intros Hn. apply IH in Hn. discriminate.
    + split; [|reflexivity]. intros _ [H|H]; [congruence|]. now apply IH in H.
Qed.

Lemma position_In ids x : In x ids -> exists p, position ids x = Some p.
Proof.
  intros H. destruct (position ids x) eqn:E; [eauto|]. apply position_None in E. contradiction.
Qed.

Lemma position_app_l ids more x p : position ids x = Some p -> position (ids ++ more) x = Some p.
Proof.
  revert p. induction ids as [|y r IH]; intros p H; cbn [position app] in *; [discriminate|].
  destruct (y =? x); [exact H|].
  destruct (position r x) as [q|]; cbn [option_map] in H; [|discriminate].
  now rewrite (IH q eq_refl).
Qed.

Lemma position_app_new ids x : position ids x = None -> position (ids ++ [x]) x = Some (length ids).
Proof.
  induction ids as [|y r IH]; intros H; cbn [position app length] in *.
  - now rewrite Z.eqb_refl.
  - destruct (y =? x); [discriminate|].
    destruct (position r x); cbn [option_map] in H; [discriminate|].
    now rewrite IH.
Qed.

(* with distinct ids the position of the n-th id is n *)
Lemma position_NoDup ids n x : NoDup ids -> nth_error ids n = Some x -> position ids x = Some n.
Proof.
  revert n. induction ids as [|y r IH]; intros n Hd Hn; [destruct n; discriminate|].
  inversion Hd as [|? ? Hy Hr]; subst. cbn [position]. destruct n as [|n]; cbn [nth_error] in Hn.
  - injection Hn as ->. now rewrite Z.eqb_refl.
  - destruct (y =? x) eqn:E.
    + apply Z.eqb_eq in E. subst. exfalso. apply Hy. eapply nth_error_In; eauto.
    + now rewrite (IH n Hr Hn).
Qed.

Definition pos_of (ids : list Z) (g : Z) : nat :=
  match position ids g with Some p => p | None => O end.

Lemma pos_of_app ids more g : In g ids -> pos_of (ids ++ more) g = pos_of ids g.
Proof.
  intros H. destruct (position_In _ _ H) as [p Hp]. unfold pos_of.
  now rewrite (position_app_l _ more _ _ Hp), Hp.
Qed.

(* the components of a composite after renumbering against the id list L *)
Definition renumber (L : list Z) (comps : list (Z * Z)) : list (Z * Z) :=
  map (fun c => (new_id_cast (Z.of_nat (pos_of L (fst c))), snd c)) comps.

Lemma renumber_app L more comps :
  Forall (fun g => In g L) (map fst comps) -> renumber (L ++ more) comps = renumber L comps.
Proof.
  intros H. unfold renumber. apply map_ext_in. intros c Hc.
  rewrite pos_of_app; [reflexivity|].
  rewrite Forall_forall in H. apply H. now apply in_map.
Qed.

(* ------------------------------------------------------------------------------------------- *)
(* add_glyph *)

Lemma add_glyph_spec comps : forall ids ids' comps',
  add_glyph ids comps = (ids', comps') ->
  exists extra,
    ids' = ids ++ extra /\ NoDup extra /\
    (forall x, In x extra -> ~ In x ids /\ In x (map fst comps)) /\
    Forall (fun g => In g ids') (map fst comps) /\
    comps' = renumber ids' comps.
Proof.
  induction comps as [|[g d] cs IH]; intros ids ids' comps' H; cbn [add_glyph] in H.
  - injection H as <- <-. exists []. rewrite app_nil_r.
    split; [reflexivity|]. split; [constructor|]. split; [intros x []|].
    split; [constructor|reflexivity].
  - destruct (position ids g) as [p|] eqn:Ep.
    + destruct (add_glyph ids cs) as [ids2 cs'] eqn:E2. injection H as <- <-.
      destruct (IH _ _ _ E2) as (extra & -> & Hnd & Hex & Hall & ->).
      exists extra. split; [reflexivity|]. split; [exact Hnd|]. split; [|split].
      * intros x Hx. split; [now apply Hex|]. cbn [map fst]. right. now apply Hex.
      * cbn [map fst]. constructor; [|exact Hall].
        apply in_or_app. left. eapply nth_error_In, position_Some_nth; eauto.
      * unfold renumber. cbn [map fst snd]. f_equal. f_equal. f_equal. f_equal.
        unfold pos_of. now rewrite (position_app_l _ extra _ _ Ep).
    + destruct (add_glyph (ids ++ [g]) cs) as [ids2 cs'] eqn:E2. injection H as <- <-.
      destruct (IH _ _ _ E2) as (extra & -> & Hnd & Hex & Hall & ->).
      exists (g :: extra). rewrite <- app_assoc. cbn [app].
      split; [reflexivity|]. split; [|split; [|split]].
      * constructor; [|exact Hnd]. intros Hin. apply Hex in Hin. destruct Hin as [Hin _].
        apply Hin. apply in_or_app. right. now left.
      * intros x H. split.
        -- destruct H as [<-|H]; [now apply position_None|].
           apply Hex in H. destruct H as [H _]. intros Hin. apply H. apply in_or_app. now left.
        -- destruct H as [<-|H]; cbn [map fst]; [now left|]. right. now apply Hex.
      * cbn [map fst]. constructor.
        -- apply in_or_app. right. now left.
        -- rewrite <- app_assoc in Hall. exact Hall.
      * unfold renumber. cbn [map fst snd]. f_equal.
        f_equal. f_equal. f_equal. unfold pos_of.
        change (ids ++ g :: extra) with (ids ++ [g] ++ extra). rewrite app_assoc.
        now rewrite (position_app_l _ extra _ _ (position_app_new _ _ Ep)).
Qed.

(* ------------------------------------------------------------------------------------------- *)
(* the loop of GlyfTable::subset *)

(* g is reachable from the requested ids through composite components *)
Inductive Reach (tbl : table) (ids0 : list Z) : Z -> Prop :=
| Reach_req g : In g ids0 -> Reach tbl ids0 g
| Reach_comp g comps rest c :
    Reach tbl ids0 g -> get_record tbl g = Some (GComposite comps rest) ->
    In c (map fst comps) -> Reach tbl ids0 c.

(* the record pushed for old glyph g is the source record, composites renumbered against L,
   all of whose components are in L *)
Definition rec_ok (tbl : table) (L : list Z) (gr : Z * glyph) : Prop :=
  match get_record tbl (fst gr) with
  | Some (GComposite comps rest) =>
    snd gr = GComposite (renumber L comps) rest /\ Forall (fun c => In c L) (map fst comps)
  | Some (GBadComposite _) => False
  | Some other => snd gr = other
  | None => False
  end.

Lemma rec_ok_app tbl L more gr : rec_ok tbl L gr -> rec_ok tbl (L ++ more) gr.
Proof.
  unfold rec_ok. destruct (get_record tbl (fst gr)) as [[| |comps rest|]|]; try tauto.
  intros [H1 H2]. split.
  - now rewrite renumber_app.
  - eapply Forall_impl; [|exact H2]. intros c Hc. apply in_or_app. now left.
Qed.

Lemma comps_in_all tbl g comps rest c :
  get_record tbl g = Some (GComposite comps rest) -> In c (map fst comps) -> In c (all_comps tbl).
Proof.
  intros Hg Hc. unfold all_comps. apply in_flat_map. exists (GComposite comps rest). split.
  - eapply nth_opt_In; eauto.
  - exact Hc.
Qed.

Definition extras_ok (tbl : table) (ids0 extra : list Z) : Prop :=
  NoDup extra /\
  forall x, In x extra -> ~ In x ids0 /\ Reach tbl ids0 x /\ In x (all_comps tbl).

Record Inv (tbl : table) (ids0 ids : list Z) (i : nat) (recs : list (Z * glyph)) : Prop := {
  inv_ids : exists extra, ids = ids0 ++ extra /\ extras_ok tbl ids0 extra;
  inv_fst : map fst recs = firstn i ids;
  inv_i : (i <= length ids)%nat;
  inv_recs : Forall (rec_ok tbl ids) recs
}.

Lemma Inv_init tbl ids0 : Inv tbl ids0 ids0 O [].
Proof.
  constructor.
  - exists []. rewrite app_nil_r. split; [reflexivity|]. split; [constructor|intros x []].
  - reflexivity.
  - lia.
  - constructor.
Qed.

Lemma Inv_reach tbl ids0 ids i recs g : Inv tbl ids0 ids i recs -> In g ids -> Reach tbl ids0 g.
Proof.
  intros [(extra & -> & _ & Hex) _ _ _] Hg. apply in_app_or in Hg. destruct Hg as [Hg|Hg].
  - now constructor.
  - now apply Hex.
Qed.

Lemma firstn_S_nth {A} (l : list A) i g :
  nth_error l i = Some g -> firstn (S i) l = firstn i l ++ [g].
Proof.
  revert i. induction l as [|a l IH]; intros i H; [destruct i; discriminate|].
  destruct i as [|i]; cbn [nth_error] in H.
  - injection H as ->. reflexivity.
  - cbn [firstn app]. f_equal. now apply IH.
Qed.

Lemma firstn_S_app {A} (l more : list A) i g :
  nth_error l i = Some g -> firstn (S i) (l ++ more) = firstn i l ++ [g].
Proof.
  intros H. assert (Hlt : (i < length l)%nat) by (apply nth_error_Some; congruence).
  rewrite firstn_app. replace (S i - length l)%nat with O by lia.
  cbn [firstn]. rewrite app_nil_r. now apply firstn_S_nth.
Qed.

Lemma NoDup_app_intro {A} (a b : list A) :
  NoDup a -> NoDup b -> (forall x, In x a -> In x b -> False) -> NoDup (a ++ b).
Proof.
  induction a as [|x a IH]; intros Ha Hb Hd; [exact Hb|].
  inversion Ha as [|? ? Hx Ha']; subst. cbn [app]. constructor.
  - intros Hin. apply in_app_or in Hin. destruct Hin as [Hin|Hin]; [contradiction|].
    apply (Hd x); [now left|exact Hin].
  - apply IH; try assumption. intros y Hy1 Hy2. apply (Hd y); [now right|exact Hy2].
Qed.

Lemma subset_step_spec tbl ids g ids' r :
  subset_step tbl ids g = Ok (ids', r) ->
  exists extra,
    ids' = ids ++ extra /\ NoDup extra /\
    (forall x, In x extra -> ~ In x ids /\
       exists comps rest, get_record tbl g = Some (GComposite comps rest) /\ In x (map fst comps)) /\
    rec_ok tbl ids' (g, r).
Proof.
  unfold subset_step, rec_ok. cbn [fst snd].
  destruct (get_record tbl g) as [[|p|comps rest|e]|] eqn:Eg; try discriminate.
  - intros H. injection H as <- <-. exists []. rewrite app_nil_r.
    split; [reflexivity|]. split; [constructor|]. split; [intros x []|reflexivity].
  - intros H. injection H as <- <-. exists []. rewrite app_nil_r.
    split; [reflexivity|]. split; [constructor|]. split; [intros x []|reflexivity].
  - destruct (add_glyph ids comps) as [ids2 comps'] eqn:Ea. intros H. injection H as <- <-.
    destruct (add_glyph_spec _ _ _ _ Ea) as (extra & -> & Hnd & Hex & Hall & ->).
    exists extra. split; [reflexivity|]. split; [exact Hnd|]. split.
    + intros x Hx. destruct (Hex x Hx) as [H1 H2]. split; [exact H1|]. eauto.
    + split; [reflexivity|exact Hall].
Qed.

Lemma Inv_step tbl ids0 ids i recs g ids' r :
  Inv tbl ids0 ids i recs -> nth_error ids i = Some g -> subset_step tbl ids g = Ok (ids', r) ->
  Inv tbl ids0 ids' (S i) (recs ++ [(g, r)]).
Proof.
  intros HI Hg Hs.
  destruct (subset_step_spec _ _ _ _ _ Hs) as (extra2 & -> & Hnd2 & Hex2 & Hrec).
  assert (Hgin : In g ids) by (eapply nth_error_In; eauto).
  assert (Hlt : (i < length ids)%nat) by (apply nth_error_Some; congruence).
  pose proof (Inv_reach _ _ _ _ _ _ HI Hgin) as Hreach.
  destruct HI as [(extra & -> & Hnd & Hex) Hfst Hi Hrecs]. constructor.
  - exists (extra ++ extra2). split; [now rewrite app_assoc|]. split.
    + apply NoDup_app_intro; try assumption.
      intros x Hx1 Hx2. apply Hex2 in Hx2. destruct Hx2 as [Hn _]. apply Hn.
      apply in_or_app. now right.
    + intros x Hx. apply in_app_or in Hx. destruct Hx as [Hx|Hx]; [now apply Hex|].
      destruct (Hex2 x Hx) as [Hn (comps & rest & Hrec' & Hc)]. split; [|split].
      * intros H0. apply Hn. apply in_or_app. now left.
      * eapply Reach_comp; eauto.
      * eapply comps_in_all; eauto.
  - rewrite map_app. cbn [map fst]. rewrite Hfst. symmetry. now apply firstn_S_app.
  - rewrite app_length. lia.
  - apply Forall_app. split.
    + eapply Forall_impl; [|exact Hrecs]. intros gr. apply rec_ok_app.
    + constructor; [exact Hrec|constructor].
Qed.

(* what a successful result satisfies: F = map fst recs is the final id list *)
Record Final (tbl : table) (ids0 : list Z) (recs : list (Z * glyph)) : Prop := {
  fin_ids : exists extra, map fst recs = ids0 ++ extra /\ extras_ok tbl ids0 extra;
  fin_recs : Forall (rec_ok tbl (map fst recs)) recs
}.

(* a reachable glyph that makes the subset fail with e *)
Definition bad_reachable (tbl : table) (ids0 : list Z) (e : err) : Prop :=
  exists g, Reach tbl ids0 g /\
    ((get_record tbl g = None /\ e = BadIndex) \/ get_record tbl g = Some (GBadComposite e)).

Lemma Inv_final tbl ids0 ids i recs :
  Inv tbl ids0 ids i recs -> nth_error ids i = None -> Final tbl ids0 recs.
Proof.
  intros [Hids Hfst Hi Hrecs] Hn. apply nth_error_None in Hn.
  assert (Hf : map fst recs = ids) by (rewrite Hfst; apply firstn_all2; lia).
  constructor; rewrite Hf; assumption.
Qed.

Lemma Inv_bound tbl ids0 ids i recs :
  Inv tbl ids0 ids i recs -> (length ids <= length ids0 + length (all_comps tbl))%nat.
Proof.
  intros [(extra & -> & Hnd & Hex) _ _ _]. rewrite app_length.
  assert (length extra <= length (all_comps tbl))%nat; [|lia].
  apply NoDup_incl_length; [exact Hnd|]. intros x Hx. now apply Hex.
Qed.

Lemma subset_step_err tbl ids g e :
  subset_step tbl ids g = Err e ->
  (get_record tbl g = None /\ e = BadIndex) \/ get_record tbl g = Some (GBadComposite e).
Proof.
  unfold subset_step. destruct (get_record tbl g) as [[|p|comps rest|e']|]; try discriminate.
  - destruct (add_glyph ids comps); discriminate.
  - intros H. injection H as ->. now right.
  - intros H. injection H as <-. now left.
Qed.

Lemma subset_step_total tbl ids g : subset_step tbl ids g <> Panic /\ subset_step tbl ids g <> OOB.
Proof.
  unfold subset_step. destruct (get_record tbl g) as [[|p|comps rest|e']|];
    try (split; discriminate).
  destruct (add_glyph ids comps); split; discriminate.
Qed.

Lemma subset_loop_spec : forall fuel tbl ids0 ids i recs,
  Inv tbl ids0 ids i recs ->
  (length ids0 + length (all_comps tbl) < fuel + i)%nat ->
  exists r, subset_loop fuel tbl ids i recs = Some r /\
    r <> Panic /\ r <> OOB /\
    (forall recs', r = Ok recs' -> Final tbl ids0 recs') /\
    (forall e, r = Err e -> bad_reachable tbl ids0 e).
Proof.
  induction fuel as [|fuel IH]; intros tbl ids0 ids i recs HI Hf.
  - (* no fuel: then i is past the end *)
    cbn [subset_loop]. destruct (nth_error ids i) as [g|] eqn:Eg.
    + exfalso. assert ((i < length ids)%nat) by (apply nth_error_Some; congruence).
      pose proof (Inv_bound _ _ _ _ _ HI). lia.
    + exists (Ok recs). split; [reflexivity|]. split; [discriminate|]. split; [discriminate|]. split.
      * intros recs' H. injection H as <-. eapply Inv_final; eauto.
      * discriminate.
  - cbn [subset_loop]. destruct (nth_error ids i) as [g|] eqn:Eg.
    + destruct (subset_step tbl ids g) as [[ids' r]|e| |] eqn:Es.
      * apply IH; [eapply Inv_step; eauto|lia].
      * exists (Err e). split; [reflexivity|]. split; [discriminate|]. split; [discriminate|]. split.
        -- discriminate.
        -- intros e' H. injection H as <-. exists g. split.
           ++ eapply Inv_reach; eauto. eapply nth_error_In; eauto.
           ++ eapply subset_step_err; eauto.
      * exfalso. now apply (proj1 (subset_step_total tbl ids g)).
      * exfalso. now apply (proj2 (subset_step_total tbl ids g)).
    + exists (Ok recs). split; [reflexivity|]. split; [discriminate|]. split; [discriminate|]. split.
      * intros recs' H. injection H as <-. eapply Inv_final; eauto.
      * discriminate.
Qed.

(* more fuel does not change a finished run *)
Lemma subset_loop_mono : forall fuel k tbl ids i recs r,
  subset_loop fuel tbl ids i recs = Some r -> subset_loop (fuel + k) tbl ids i recs = Some r.
Proof.
  induction fuel as [|fuel IH]; intros k tbl ids i recs r H.
  - cbn [subset_loop] in H. destruct (nth_error ids i) eqn:Eg; [discriminate|].
    destruct (0 + k)%nat; cbn [subset_loop]; now rewrite Eg.
  - cbn [subset_loop Nat.add] in *. destruct (nth_error ids i) eqn:Eg; [|exact H].
    destruct (subset_step tbl ids z) as [[ids' r']| | |]; try exact H. now apply IH.
Qed.

(* the fuel glyf_subset passes is enough, for every table and every id list *)
Lemma glyf_subset_fuel tbl ids0 :
  subset_loop (subset_fuel tbl ids0) tbl ids0 O [] = Some (glyf_subset tbl ids0).
Proof.
  destruct (subset_loop_spec (subset_fuel tbl ids0) tbl ids0 ids0 O [] (Inv_init _ _))
    as (r & Hr & _); [unfold subset_fuel; lia|].
  unfold glyf_subset. now rewrite Hr.
Qed.

Lemma glyf_subset_any_fuel tbl ids0 fuel :
  (subset_fuel tbl ids0 <= fuel)%nat ->
  subset_loop fuel tbl ids0 O [] = Some (glyf_subset tbl ids0).
Proof.
  intros H. replace fuel with (subset_fuel tbl ids0 + (fuel - subset_fuel tbl ids0))%nat by lia.
  apply subset_loop_mono, glyf_subset_fuel.
Qed.

Lemma glyf_subset_spec tbl ids0 :
  glyf_subset tbl ids0 <> Panic /\ glyf_subset tbl ids0 <> OOB /\
  (forall recs, glyf_subset tbl ids0 = Ok recs -> Final tbl ids0 recs) /\
  (forall e, glyf_subset tbl ids0 = Err e -> bad_reachable tbl ids0 e).
Proof.
  destruct (subset_loop_spec (subset_fuel tbl ids0) tbl ids0 ids0 O [] (Inv_init _ _))
    as (r & Hr & H); [unfold subset_fuel; lia|].
  unfold glyf_subset. rewrite Hr. exact H.
Qed.

(* the number of loop iterations = length of the final list is bounded *)
Lemma glyf_subset_length tbl ids0 recs :
  glyf_subset tbl ids0 = Ok recs ->
  (length recs <= length ids0 + length (all_comps tbl))%nat.
Proof.
  intros H. apply glyf_subset_spec in H. destruct H as [(extra & Hf & Hnd & Hex) _].
  rewrite <- (map_length fst), Hf, app_length.
  assert (length extra <= length (all_comps tbl))%nat; [|lia].
  apply NoDup_incl_length; [exact Hnd|]. intros x Hx. now apply Hex.
Qed.

(* ------------------------------------------------------------------------------------------- *)
(* consequences, in the vocabulary of the property *)

Definition old_ids (recs : list (Z * glyph)) : list Z := map fst recs.

(* requested glyphs first, in the requested order *)
Lemma subset_requested_first tbl ids0 recs :
  glyf_subset tbl ids0 = Ok recs ->
  firstn (length ids0) (old_ids recs) = ids0 /\
  (forall n, (n < length ids0)%nat -> nth_error (old_ids recs) n = nth_error ids0 n).
Proof.
  intros H. apply glyf_subset_spec in H. destruct H as [(extra & Hf & _) _]. unfold old_ids.
  rewrite Hf. split.
  - rewrite firstn_app, Nat.sub_diag, firstn_all. cbn [firstn]. apply app_nil_r.
  - intros n Hn. now apply nth_error_app1.
Qed.

Lemma in_old_ids_rec recs g : In g (old_ids recs) -> exists r, In (g, r) recs.
Proof.
  unfold old_ids. intros H. apply in_map_iff in H. destruct H as ([g' r] & <- & H). eauto.
Qed.

(* every glyph of the subset exists in the source and is not an unparsable composite *)
Lemma subset_in_range tbl ids0 recs g :
  glyf_subset tbl ids0 = Ok recs -> In g (old_ids recs) ->
  0 <= g < len tbl /\ exists r, get_record tbl g = Some r /\ forall e, r <> GBadComposite e.
Proof.
  intros H Hg. apply glyf_subset_spec in H. destruct H as [_ Hrecs].
  destruct (in_old_ids_rec _ _ Hg) as [r Hr]. rewrite Forall_forall in Hrecs.
  specialize (Hrecs _ Hr). unfold rec_ok in Hrecs. cbn [fst snd] in Hrecs.
  destruct (get_record tbl g) as [src|] eqn:Eg; [|contradiction]. split.
  - unfold get_record in Eg. now apply nth_opt_Some in Eg.
  - exists src. split; [reflexivity|]. intros e ->. exact Hrecs.
Qed.

(* closed under components *)
Lemma subset_closed tbl ids0 recs g comps rest c :
  glyf_subset tbl ids0 = Ok recs -> In g (old_ids recs) ->
  get_record tbl g = Some (GComposite comps rest) -> In c (map fst comps) ->
  In c (old_ids recs).
Proof.
  intros H Hg Hrec Hc. apply glyf_subset_spec in H. destruct H as [_ Hrecs].
  destruct (in_old_ids_rec _ _ Hg) as [r Hr]. rewrite Forall_forall in Hrecs.
  specialize (Hrecs _ Hr). unfold rec_ok in Hrecs. cbn [fst snd] in Hrecs.
  rewrite Hrec in Hrecs. destruct Hrecs as [_ Hall]. rewrite Forall_forall in Hall. now apply Hall.
Qed.

(* nothing is added that is not needed *)
Lemma subset_reachable tbl ids0 recs g :
  glyf_subset tbl ids0 = Ok recs -> In g (old_ids recs) -> Reach tbl ids0 g.
Proof.
  intros H Hg. apply glyf_subset_spec in H. destruct H as [(extra & Hf & _ & Hex) _].
  unfold old_ids in Hg. rewrite Hf in Hg. apply in_app_or in Hg. destruct Hg as [Hg|Hg].
  - now constructor.
  - now apply Hex.
Qed.

(* and everything reachable is there: with closure, the subset is exactly the reachable set *)
Lemma subset_all_reachable tbl ids0 recs g :
  glyf_subset tbl ids0 = Ok recs -> Reach tbl ids0 g -> In g (old_ids recs).
Proof.
  intros H Hr. induction Hr as [g Hg|g comps rest c Hr IH Hrec Hc].
  - apply glyf_subset_spec in H. destruct H as [(extra & Hf & _) _]. unfold old_ids.
    rewrite Hf. apply in_or_app. now left.
  - eapply subset_closed; eauto.
Qed.

(* no glyph twice *)
Lemma subset_nodup tbl ids0 recs :
  glyf_subset tbl ids0 = Ok recs -> NoDup ids0 -> NoDup (old_ids recs).
Proof.
  intros H Hd. apply glyf_subset_spec in H. destruct H as [(extra & Hf & Hnd & Hex) _].
  unfold old_ids. rewrite Hf. apply NoDup_app_intro; try assumption.
  intros x H1 H2. now apply (proj1 (Hex x H2)).
Qed.

(* pigeonhole: distinct values below n are at most n many *)
Lemma NoDup_below_length : forall (n : nat) (l : list Z),
  NoDup l -> (forall x, In x l -> 0 <= x < Z.of_nat n) -> (length l <= n)%nat.
Proof.
  induction n as [|n IH]; intros l Hd Hr.
  - destruct l as [|x l]; [cbn; lia|]. specialize (Hr x (or_introl eq_refl)). lia.
  - destruct (in_dec Z.eq_dec (Z.of_nat n) l) as [Hin|Hnin].
    + apply in_split in Hin. destruct Hin as (l1 & l2 & ->).
      pose proof (NoDup_remove_1 _ _ _ Hd) as Hd1. pose proof (NoDup_remove_2 _ _ _ Hd) as Hd2.
      assert (length (l1 ++ l2) <= n)%nat.
      { apply IH; [exact Hd1|]. intros x Hx.
        assert (In x (l1 ++ Z.of_nat n :: l2)).
        { apply in_app_or in Hx. apply in_or_app. destruct Hx; [now left|right; now right]. }
        specialize (Hr x H). assert (x <> Z.of_nat n) by (intros ->; contradiction). lia. }
      rewrite app_length in *. cbn [length]. lia.
    + assert (length l <= n)%nat; [|lia]. apply IH; [exact Hd|]. intros x Hx.
      specialize (Hr x Hx). assert (x <> Z.of_nat n) by (intros ->; contradiction). lia.
Qed.

(* the 65535 limit: a table GlyfTable::new accepts has at most 65535 records, so with distinct
   requested ids every new id fits the u16 it is cast to *)
Lemma subset_count tbl ids0 recs :
  glyf_subset tbl ids0 = Ok recs -> NoDup ids0 -> (length recs <= length tbl)%nat.
Proof.
  intros H Hd. rewrite <- (map_length fst). apply NoDup_below_length.
  - eapply subset_nodup; eauto.
  - intros x Hx. destruct (subset_in_range _ _ _ _ H Hx) as [Hr _]. unfold len in Hr. exact Hr.
Qed.

Lemma new_id_cast_small v : 0 <= v < 65536 -> new_id_cast v = v.
Proof. intros H. unfold new_id_cast. now apply Z.mod_small. Qed.

(* the record of new glyph n *)
Lemma subset_record tbl ids0 recs n g r :
  glyf_subset tbl ids0 = Ok recs -> nth_error recs n = Some (g, r) ->
  nth_error (old_ids recs) n = Some g /\ rec_ok tbl (old_ids recs) (g, r).
Proof.
  intros H Hn. split.
  - unfold old_ids. now rewrite nth_error_map, Hn.
  - apply glyf_subset_spec in H. destruct H as [_ Hrecs]. rewrite Forall_forall in Hrecs.
    apply Hrecs. eapply nth_error_In; eauto.
Qed.

(* simple and empty glyphs are copied *)
Lemma subset_copies_non_composite tbl ids0 recs n g r src :
  glyf_subset tbl ids0 = Ok recs -> nth_error recs n = Some (g, r) ->
  get_record tbl g = Some src -> (forall cs rest, src <> GComposite cs rest) -> r = src.
Proof.
  intros H Hn Hg Hnc. destruct (subset_record _ _ _ _ _ _ H Hn) as [_ Hr].
  unfold rec_ok in Hr. cbn [fst snd] in Hr. rewrite Hg in Hr.
  destruct src as [|p|cs rest|e]; try exact Hr.
  - exfalso. now apply (Hnc cs rest).
  - contradiction.
Qed.

(* renumbering commutes: component k of a retained composite points at the new glyph whose old
   id is the source component's glyph index; its other data is untouched *)
Lemma subset_renumbering tbl ids0 recs n g r comps rest k c d :
  glyf_subset tbl ids0 = Ok recs -> len recs <= 65536 ->
  nth_error recs n = Some (g, r) -> get_record tbl g = Some (GComposite comps rest) ->
  nth_error comps k = Some (c, d) ->
  exists comps' c',
    r = GComposite comps' rest /\ length comps' = length comps /\
    nth_error comps' k = Some (c', d) /\
    0 <= c' < len recs /\ nth_error (old_ids recs) (Z.to_nat c') = Some c.
Proof.
  intros H Hlen Hn Hg Hk. destruct (subset_record _ _ _ _ _ _ H Hn) as [_ Hr].
  unfold rec_ok in Hr. cbn [fst snd] in Hr. rewrite Hg in Hr. destruct Hr as [-> Hall].
  assert (Hc : In c (old_ids recs)).
  { rewrite Forall_forall in Hall. apply Hall. apply in_map_iff. exists (c, d). split; [reflexivity|].
    eapply nth_error_In; eauto. }
  destruct (position_In _ _ Hc) as [p Hp].
  pose proof (position_Some_lt _ _ _ Hp) as Hplt. unfold old_ids in Hplt. rewrite map_length in Hplt.
  exists (renumber (old_ids recs) comps), (Z.of_nat p).
  split; [reflexivity|]. split; [unfold renumber; now rewrite map_length|]. split; [|split].
  - unfold renumber. rewrite nth_error_map, Hk. cbn [option_map fst snd]. unfold pos_of. rewrite Hp.
    rewrite new_id_cast_small; [reflexivity|unfold len in Hlen; lia].
  - unfold len. lia.
  - rewrite Nat2Z.id. now apply position_Some_nth.
Qed.

(* ------------------------------------------------------------------------------------------- *)
(* SubsetGlyphs::old_id / new_id *)

Lemma sg_old_id_nth recs n g r :
  nth_error recs n = Some (g, r) -> sg_old_id recs (Z.of_nat n) = Ok g.
Proof. intros H. unfold sg_old_id. now rewrite nth_opt_of_nat, H. Qed.

Lemma last_position_notin s : forall k old acc,
  ~ In old (map fst s) -> last_position_from s k old acc = acc.
Proof.
  induction s as [|[o r] s IH]; intros k old acc H; cbn [last_position_from]; [reflexivity|].
  cbn [map fst In] in H. destruct (o =? old) eqn:E.
  - apply Z.eqb_eq in E. exfalso. apply H. now left.
  - apply IH. intros Hin. apply H. now right.
Qed.

Lemma last_position_nodup s : forall k n old r acc,
  NoDup (map fst s) -> nth_error s n = Some (old, r) ->
  last_position_from s k old acc = Some (new_id_cast (k + Z.of_nat n)).
Proof.
  induction s as [|[o r0] s IH]; intros k n old r acc Hd Hn; [destruct n; discriminate|].
  cbn [map fst] in Hd. inversion Hd as [|? ? Ho Hd']; subst. cbn [last_position_from].
  destruct n as [|n]; cbn [nth_error] in Hn.
  - injection Hn as -> ->. rewrite Z.eqb_refl. rewrite last_position_notin; [|exact Ho].
    now rewrite Z.add_0_r.
  - destruct (o =? old) eqn:E.
    + apply Z.eqb_eq in E. subst. exfalso. apply Ho. apply in_map_iff. exists (old, r).
      split; [reflexivity|]. eapply nth_error_In; eauto.
    + rewrite (IH (k + 1) n old r acc Hd' Hn). f_equal. f_equal. lia.
Qed.

Lemma sg_new_id_old_id recs n g r :
  NoDup (old_ids recs) -> len recs <= 65536 -> nth_error recs n = Some (g, r) ->
  sg_new_id recs g = Z.of_nat n.
Proof.
  intros Hd Hl Hn. unfold sg_new_id. rewrite (last_position_nodup _ 0 n g r None Hd Hn).
  apply new_id_cast_small.
  assert ((n < length recs)%nat) by (apply nth_error_Some; congruence). unfold len in Hl. lia.
Qed.

Lemma sg_new_id_absent recs g : ~ In g (old_ids recs) -> sg_new_id recs g = 0.
Proof. intros H. unfold sg_new_id. now rewrite last_position_notin. Qed.

(* ------------------------------------------------------------------------------------------- *)
(* same outline *)

Lemma get_record_sub recs n g r :
  nth_error recs n = Some (g, r) -> get_record (sg_table recs) (Z.of_nat n) = Some r.
Proof.
  intros H. unfold get_record, sg_table. rewrite nth_opt_of_nat, nth_error_map, H. reflexivity.
Qed.

Lemma same_outline comb tbl ids0 recs :
  glyf_subset tbl ids0 = Ok recs -> len recs <= 65536 ->
  forall fuel n g tr, nth_error (old_ids recs) n = Some g ->
  outline comb fuel (sg_table recs) (Z.of_nat n) tr = outline comb fuel tbl g tr.
Proof.
  intros H Hlen. induction fuel as [|fuel IH]; intros n g tr Hn; [reflexivity|].
  unfold old_ids in Hn. rewrite nth_error_map in Hn.
  destruct (nth_error recs n) as [[g' r]|] eqn:En; [|discriminate]. cbn [option_map fst] in Hn.
  injection Hn as ->. cbn [outline]. rewrite (get_record_sub _ _ _ _ En).
  destruct (subset_record _ _ _ _ _ _ H En) as [_ Hr]. unfold rec_ok in Hr. cbn [fst snd] in Hr.
  destruct (get_record tbl g) as [[|p|comps rest|e]|] eqn:Eg; try contradiction.
  - now subst.
  - now subst.
  - destruct Hr as [-> Hall]. f_equal. unfold renumber. rewrite map_map. apply map_ext_in.
    intros c Hc. cbn [fst snd].
    assert (Hin : In (fst c) (old_ids recs)).
    { rewrite Forall_forall in Hall. apply Hall. now apply in_map. }
    destruct (position_In _ _ Hin) as [p Hp]. unfold pos_of. rewrite Hp.
    pose proof (position_Some_lt _ _ _ Hp) as Hplt. unfold old_ids in Hplt.
    rewrite map_length in Hplt.
    rewrite new_id_cast_small; [|unfold len in Hlen; lia].
    apply IH. now apply position_Some_nth.
Qed.

(* ------------------------------------------------------------------------------------------- *)
(* hmtx *)

Lemma read_item_ok {A} (l : list A) i a :
  read_item l i = Ok a <-> nth_opt l i = Some a.
Proof.
  unfold read_item. destruct (nth_opt l i); split; intros H; try discriminate; congruence.
Qed.

Lemma read_item_total {A} (l : list A) i : read_item l i <> Panic /\ read_item l i <> OOB.
Proof. unfold read_item. destruct (nth_opt l i); split; discriminate. Qed.

(* the loop body is HmtxTable::metric of the source table, when create_hmtx_table is given the
   table's own numberOfHMetrics (as both callers do) *)
Lemma hmtx_entry_metric m hm lsbs old :
  0 <= old -> hmtx_entry m hm lsbs (len hm) old = hmtx_metric hm lsbs old.
Proof.
  intros Ho. unfold hmtx_entry, hmtx_metric, hmtx_last_long_index, hmtx_lsb_index.
  pose proof (len_nonneg hm) as Hl.
  destruct (len hm =? 0) eqn:E0.
  - apply Z.eqb_eq in E0. rewrite E0.
    destruct (old <? 0) eqn:E1; [apply Z.ltb_lt in E1; lia|]. reflexivity.
  - apply Z.eqb_neq in E0. destruct (old <? len hm); [reflexivity|].
    destruct (1 <=? len hm) eqn:E1; [|apply Z.leb_gt in E1; lia]. reflexivity.
Qed.

Definition total {A} (x : outcome A) : Prop := x <> Panic /\ x <> OOB.

Lemma bind_total {A B} (x : outcome A) (f : A -> outcome B) :
  total x -> (forall a, total (f a)) -> total (bind x f).
Proof.
  intros [H1 H2] Hf. destruct x; cbn [bind]; [apply Hf|split; discriminate|contradiction|contradiction].
Qed.

Lemma hmtx_entry_total m hm lsbs nhm old : total (hmtx_entry m hm lsbs nhm old).
Proof.
  unfold hmtx_entry, hmtx_last_long_index. destruct (old <? nhm); [apply read_item_total|].
  apply bind_total; [destruct (1 <=? nhm); split; discriminate|]. intros last.
  apply bind_total; [apply read_item_total|]. intros mt.
  apply bind_total; [apply read_item_total|]. intros lsb. split; discriminate.
Qed.

Lemma create_hmtx_total m hm lsbs nhm olds : total (create_hmtx m hm lsbs nhm olds).
Proof.
  induction olds as [|o r IH]; cbn [create_hmtx]; [split; discriminate|].
  apply bind_total; [apply hmtx_entry_total|]. intros e.
  apply bind_total; [exact IH|]. intros t. split; discriminate.
Qed.

Lemma create_hmtx_ok m hm lsbs nhm olds out :
  create_hmtx m hm lsbs nhm olds = Ok out <->
  Forall2 (fun o e => hmtx_entry m hm lsbs nhm o = Ok e) olds out.
Proof.
  revert out. induction olds as [|o r IH]; intros out; cbn [create_hmtx].
  - split; intros H.
    + injection H as <-. constructor.
    + inversion H. reflexivity.
  - split; intros H.
    + destruct (hmtx_entry m hm lsbs nhm o) eqn:E; cbn [bind] in H; try discriminate.
      destruct (create_hmtx m hm lsbs nhm r) eqn:Er; cbn [bind] in H; try discriminate.
      injection H as <-. constructor; [exact E|]. now apply IH.
    + inversion H as [|? e ? t He Ht]; subst. rewrite He. cbn [bind].
      apply IH in Ht. rewrite Ht. reflexivity.
Qed.

Lemma create_hmtx_err m hm lsbs nhm olds e :
  create_hmtx m hm lsbs nhm olds = Err e ->
  exists o, In o olds /\ hmtx_entry m hm lsbs nhm o = Err e.
Proof.
  induction olds as [|o r IH]; cbn [create_hmtx]; [discriminate|].
  destruct (hmtx_entry m hm lsbs nhm o) eqn:E; cbn [bind]; try discriminate.
  - destruct (create_hmtx m hm lsbs nhm r) eqn:Er; cbn [bind]; try discriminate.
    intros H. injection H as <-. destruct (IH eq_refl) as (o' & Ho' & He'). exists o'. split; [now right|exact He'].
  - intros H. injection H as <-. exists o. split; [now left|exact E].
Qed.

(* metrics of the rebuilt table (h_metrics = out, no left_side_bearings, numberOfHMetrics = number
   of glyphs) are the source's metrics of the old glyph, on both sides of numberOfHMetrics *)
Lemma hmtx_metric_long out n e :
  nth_error out n = Some e -> hmtx_metric out [] (Z.of_nat n) = Ok e.
Proof.
  intros H. assert (Hlt : (n < length out)%nat) by (apply nth_error_Some; congruence).
  unfold hmtx_metric. destruct (len out =? 0) eqn:E0; [apply Z.eqb_eq in E0; unfold len in E0; lia|].
  destruct (Z.of_nat n <? len out) eqn:E1; [|apply Z.ltb_ge in E1; unfold len in E1; lia].
  apply read_item_ok. now rewrite nth_opt_of_nat.
Qed.

Lemma create_hmtx_same_metrics m hm lsbs olds out :
  (forall o, In o olds -> 0 <= o) ->
  create_hmtx m hm lsbs (len hm) olds = Ok out ->
  length out = length olds /\
  forall n o, nth_error olds n = Some o ->
    hmtx_metric out [] (Z.of_nat n) = hmtx_metric hm lsbs o /\
    exists e, hmtx_metric hm lsbs o = Ok e.
Proof.
  intros Hpos H. apply create_hmtx_ok in H. split.
  - clear Hpos. induction H as [|o' e' olds' out' He Hf IH]; [reflexivity|]. cbn [length]. now rewrite IH.
  - intros n o Hn.
    assert (Hx : exists e, nth_error out n = Some e /\ hmtx_entry m hm lsbs (len hm) o = Ok e).
    { clear Hpos. revert n Hn. induction H as [|o' e' olds' out' He Hf IH]; intros n Hn; [destruct n; discriminate|].
      destruct n as [|n]; cbn [nth_error] in *.
      - injection Hn as ->. eauto.
      - now apply IH. }
    destruct Hx as (e & He1 & He2). rewrite hmtx_entry_metric in He2.
    + rewrite He2. split; [now apply hmtx_metric_long|eauto].
    + apply Hpos. eapply nth_error_In; eauto.
Qed.

Lemma hmtx_advance_metric hm lsbs g e :
  hmtx_metric hm lsbs g = Ok e -> hmtx_advance hm g = Ok (fst e).
Proof.
  unfold hmtx_metric, hmtx_advance. destruct (len hm =? 0); [discriminate|].
  destruct (g <? len hm).
  - intros ->. reflexivity.
  - destruct (read_item hm (len hm - 1)) as [mt| | |]; cbn [bind]; try discriminate.
    destruct (read_item lsbs (g - len hm)); cbn [bind]; try discriminate.
    intros H. injection H as <-. reflexivity.
Qed.

(* a declarative reading of the hmtx table, independent of the code's control flow *)
Definition spec_advance (hm : list (Z * Z)) (g : Z) : option Z :=
  if (g <? 0) || (len hm <=? 0) then None
  else option_map fst (nth_opt hm (Z.min g (len hm - 1))).
Definition spec_lsb (hm : list (Z * Z)) (lsbs : list Z) (g : Z) : option Z :=
  if g <? len hm then option_map snd (nth_opt hm g) else nth_opt lsbs (g - len hm).

Lemma nth_opt_lt {A} (l : list A) i : 0 <= i < len l -> exists a, nth_opt l i = Some a.
Proof.
  intros H. unfold nth_opt. destruct (i <? 0) eqn:E; [apply Z.ltb_lt in E; lia|].
  destruct (nth_error l (Z.to_nat i)) eqn:En; [eauto|].
  apply nth_error_None in En. unfold len in H. lia.
Qed.

Lemma hmtx_metric_spec hm lsbs g a l :
  0 <= g ->
  (hmtx_metric hm lsbs g = Ok (a, l) <-> spec_advance hm g = Some a /\ spec_lsb hm lsbs g = Some l).
Proof.
  intros Hg. unfold hmtx_metric, spec_advance, spec_lsb. pose proof (len_nonneg hm) as Hl.
  destruct (g <? 0) eqn:E; [apply Z.ltb_lt in E; lia|]. clear E. cbn [orb].
  destruct (len hm =? 0) eqn:E0.
  - apply Z.eqb_eq in E0. destruct (len hm <=? 0) eqn:E1; [|apply Z.leb_gt in E1; lia].
    split; [discriminate|]. intros [H _]. discriminate.
  - apply Z.eqb_neq in E0. destruct (len hm <=? 0) eqn:E1; [apply Z.leb_le in E1; lia|]. clear E1.
    destruct (g <? len hm) eqn:E2.
    + apply Z.ltb_lt in E2. rewrite Z.min_l by lia. rewrite read_item_ok.
      destruct (nth_opt hm g) as [[a' l']|]; cbn [option_map fst snd].
      * split; [intros H; injection H as -> ->; now split|intros [H1 H2]; congruence].
      * split; [discriminate|]. intros [H _]. discriminate.
    + apply Z.ltb_ge in E2. rewrite Z.min_r by lia.
      unfold read_item. destruct (nth_opt hm (len hm - 1)) as [[a' l']|]; cbn [bind option_map fst snd].
      * destruct (nth_opt lsbs (g - len hm)) as [l''|]; cbn [bind].
        -- split; [intros H; injection H as -> ->; now split|intros [H1 H2]; congruence].
        -- split; [discriminate|]. intros [_ H]. discriminate.
      * split; [discriminate|]. intros [H _]. discriminate.
Qed.

Lemma hmtx_metric_defined hm lsbs g :
  1 <= len hm -> 0 <= g < len hm + len lsbs -> exists e, hmtx_metric hm lsbs g = Ok e.
Proof.
  intros H1 Hg. unfold hmtx_metric. destruct (len hm =? 0) eqn:E0; [apply Z.eqb_eq in E0; lia|].
  destruct (g <? len hm) eqn:E1.
  - apply Z.ltb_lt in E1. destruct (nth_opt_lt hm g) as [a Ha]; [lia|]. exists a. now apply read_item_ok.
  - apply Z.ltb_ge in E1. destruct (nth_opt_lt hm (len hm - 1)) as [a Ha]; [lia|].
    destruct (nth_opt_lt lsbs (g - len hm)) as [l Hl]; [lia|].
    unfold read_item. rewrite Ha, Hl. cbn [bind]. eauto.
Qed.

(* on a well-formed hmtx (at least one long metric, an entry for every glyph) the rebuilt table exists *)
Lemma create_hmtx_succeeds m hm lsbs olds :
  1 <= len hm -> (forall o, In o olds -> 0 <= o < len hm + len lsbs) ->
  exists out, create_hmtx m hm lsbs (len hm) olds = Ok out.
Proof.
  intros H1. induction olds as [|o r IH]; intros Hr; cbn [create_hmtx]; [eauto|].
  destruct (hmtx_metric_defined hm lsbs o H1 (Hr o (or_introl eq_refl))) as [e He].
  rewrite hmtx_entry_metric by (specialize (Hr o (or_introl eq_refl)); lia). rewrite He. cbn [bind].
  destruct IH as [t Ht]; [intros o' Ho'; apply Hr; now right|]. rewrite Ht. cbn [bind]. eauto.
Qed.

Lemma glyf_subset_succeeds tbl ids0 :
  (forall g, Reach tbl ids0 g -> exists r, get_record tbl g = Some r /\ forall e, r <> GBadComposite e) ->
  exists recs, glyf_subset tbl ids0 = Ok recs.
Proof.
  intros Hgood. destruct (glyf_subset_spec tbl ids0) as (Hp & Ho & _ & He).
  destruct (glyf_subset tbl ids0) as [recs|e| |]; [eauto| |contradiction|contradiction].
  exfalso. destruct (He e eq_refl) as (g & Hr & Hbad). destruct (Hgood g Hr) as (r & Hg & Hnb).
  destruct Hbad as [[Hn _]|Hb]; [congruence|]. rewrite Hb in Hg. injection Hg as <-. now apply (Hnb e).
Qed.

(* subset_ttf: glyf.subset then create_hmtx_table over the subset's old ids *)
Lemma ttf_same_metrics m tbl hm lsbs ids0 recs out :
  glyf_subset tbl ids0 = Ok recs ->
  create_hmtx m hm lsbs (len hm) (old_ids recs) = Ok out ->
  length out = length recs /\
  (forall n g, nth_error (old_ids recs) n = Some g ->
     hmtx_metric out [] (Z.of_nat n) = hmtx_metric hm lsbs g /\
     exists e, hmtx_metric hm lsbs g = Ok e) /\
  (forall n g, nth_error ids0 n = Some g ->
     hmtx_metric out [] (Z.of_nat n) = hmtx_metric hm lsbs g).
Proof.
  intros Hs Hc.
  assert (Hpos : forall o, In o (old_ids recs) -> 0 <= o).
  { intros o Ho. destruct (subset_in_range _ _ _ _ Hs Ho) as [Hr _]. lia. }
  destruct (create_hmtx_same_metrics _ _ _ _ _ Hpos Hc) as [Hl Hm]. split; [|split].
  - unfold old_ids in Hl. now rewrite map_length in Hl.
  - exact Hm.
  - intros n g Hn. apply Hm. destruct (subset_requested_first _ _ _ Hs) as [_ Hreq].
    rewrite Hreq; [exact Hn|]. apply nth_error_Some. congruence.
Qed.

(* ------------------------------------------------------------------------------------------- *)
(* packaged statements for Props/C07.v *)

Lemma glyf_subset_total tbl ids :
  glyf_subset tbl ids <> Panic /\ glyf_subset tbl ids <> OOB /\
  (forall e, glyf_subset tbl ids = Err e -> bad_reachable tbl ids e).
Proof. destruct (glyf_subset_spec tbl ids) as (H1 & H2 & _ & H4). auto. Qed.

Lemma subset_exactly_reachable tbl ids recs g :
  glyf_subset tbl ids = Ok recs -> (In g (old_ids recs) <-> Reach tbl ids g).
Proof. intros H. split; [now apply subset_reachable|now apply subset_all_reachable]. Qed.

Lemma new_id_old_id recs n g r :
  NoDup (old_ids recs) -> len recs <= 65536 -> nth_error recs n = Some (g, r) ->
  sg_old_id recs (Z.of_nat n) = Ok g /\ sg_new_id recs g = Z.of_nat n.
Proof.
  intros Hd Hl Hn. split; [eapply sg_old_id_nth; eauto|eapply sg_new_id_old_id; eauto].
Qed.

Lemma same_outline_requested tbl ids recs n g :
  glyf_subset tbl ids = Ok recs -> NoDup ids -> len tbl <= 65536 -> nth_error ids n = Some g ->
  glyf_outline (sg_table recs) (Z.of_nat n) = glyf_outline tbl g.
Proof.
  intros H Hd Hl Hn. unfold glyf_outline. eapply same_outline; eauto.
  - pose proof (subset_count _ _ _ H Hd). unfold len in *. lia.
  - destruct (subset_requested_first _ _ _ H) as [_ Hr]. rewrite Hr; [exact Hn|].
    apply nth_error_Some. congruence.
Qed.

(* ------------------------------------------------------------------------------------------- *)
(* termination of the worklist without fuel: one iteration of the loop, as a relation on the
   states (glyph_ids, i), strictly decreases
     (ids still to visit) + (component ids of the table not yet in glyph_ids)
   from EVERY state, not only the reachable ones *)
From Coq Require Import Wellfounded.

Definition notin (ids : list Z) (c : Z) : bool := negb (existsb (Z.eqb c) ids).

Lemma notin_true ids c : notin ids c = true <-> ~ In c ids.
Proof.
  unfold notin. rewrite negb_true_iff. split.
  - intros H Hin. assert (existsb (Z.eqb c) ids = true); [|congruence].
    apply existsb_exists. exists c. split; [exact Hin|apply Z.eqb_refl].
  - intros H. destruct (existsb (Z.eqb c) ids) eqn:E; [|reflexivity].
    apply existsb_exists in E. destruct E as (y & Hy & Hc). apply Z.eqb_eq in Hc. subst. contradiction.
Qed.

Lemma notin_app1 ids x c : notin (ids ++ [x]) c = notin ids c && negb (c =? x).
Proof.
  unfold notin. rewrite existsb_app. cbn [existsb]. rewrite orb_false_r. now rewrite negb_orb.
Qed.

Definition missing (tbl : table) (ids : list Z) : nat :=
  length (filter (notin ids) (nodup Z.eq_dec (all_comps tbl))).

Lemma filter_drop_one (U : list Z) : forall ids x,
  NoDup U -> In x U -> ~ In x ids ->
  (length (filter (notin (ids ++ [x])) U) + 1 = length (filter (notin ids) U))%nat.
Proof.
  induction U as [|u U IH]; intros ids x Hd Hin Hx; [destruct Hin|].
  inversion Hd as [|? ? Hu Hd']; subst. cbn [filter]. rewrite notin_app1.
  destruct (Z.eq_dec u x) as [->|Hne].
  - rewrite Z.eqb_refl. cbn [negb]. rewrite andb_false_r.
    assert (Hn : notin ids x = true) by now apply notin_true. rewrite Hn. cbn [length].
    rewrite (filter_ext_in (notin (ids ++ [x])) (notin ids)); [lia|].
    intros c Hc. rewrite notin_app1. assert (c <> x) by (intros ->; contradiction).
    apply Z.eqb_neq in H. rewrite H. cbn [negb]. apply andb_true_r.
  - destruct Hin as [Hin|Hin]; [contradiction|].
    assert (E : (u =? x) = false) by now apply Z.eqb_neq. rewrite E. cbn [negb]. rewrite andb_true_r.
    specialize (IH ids x Hd' Hin Hx). destruct (notin ids u); cbn [length]; lia.
Qed.

Lemma missing_app tbl extra : forall ids,
  NoDup extra -> (forall x, In x extra -> ~ In x ids /\ In x (all_comps tbl)) ->
  (missing tbl (ids ++ extra) + length extra = missing tbl ids)%nat.
Proof.
  induction extra as [|x e IH]; intros ids Hd Hex.
  - rewrite app_nil_r. cbn [length]. lia.
  - inversion Hd as [|? ? Hx Hd']; subst.
    change (ids ++ x :: e) with (ids ++ [x] ++ e). rewrite app_assoc.
    assert (H1 : (missing tbl (ids ++ [x]) + 1 = missing tbl ids)%nat).
    { unfold missing. apply filter_drop_one.
      - apply NoDup_nodup.
      - apply nodup_In. apply Hex. now left.
      - apply Hex. now left. }
    assert (H2 : (missing tbl ((ids ++ [x]) ++ e) + length e = missing tbl (ids ++ [x]))%nat).
    { apply IH; [exact Hd'|]. intros y Hy. split; [|apply Hex; now right]. intros Hin.
      apply in_app_or in Hin. destruct Hin as [Hin|[<-|[]]]; [|contradiction].
      apply (proj1 (Hex y (or_intror Hy))). exact Hin. }
    cbn [length]. lia.
Qed.

Definition loop_state := (list Z * nat)%type.
Definition loop_next (tbl : table) (s' s : loop_state) : Prop :=
  exists g r, nth_error (fst s) (snd s) = Some g /\
    subset_step tbl (fst s) g = Ok (fst s', r) /\ snd s' = S (snd s).
Definition loop_measure (tbl : table) (s : loop_state) : nat :=
  (length (fst s) - snd s + missing tbl (fst s))%nat.

Lemma loop_next_decreases tbl s' s : loop_next tbl s' s -> (loop_measure tbl s' < loop_measure tbl s)%nat.
Proof.
  destruct s as [ids i], s' as [ids' i']. unfold loop_next, loop_measure. cbn [fst snd].
  intros (g & r & Hg & Hs & ->).
  assert (Hlt : (i < length ids)%nat) by (apply nth_error_Some; congruence).
  destruct (subset_step_spec _ _ _ _ _ Hs) as (extra & -> & Hnd & Hex & _).
  assert (Hm : (missing tbl (ids ++ extra) + length extra = missing tbl ids)%nat).
  { apply missing_app; [exact Hnd|]. intros x Hx. destruct (Hex x Hx) as [Hn (comps & rest & Hrec & Hc)].
    split; [exact Hn|]. eapply comps_in_all; eauto. }
  rewrite app_length. lia.
Qed.

Lemma loop_terminates tbl : well_founded (loop_next tbl).
Proof.
  apply (wf_incl _ _ (ltof _ (loop_measure tbl))).
  - intros s' s H. now apply loop_next_decreases.
  - apply well_founded_ltof.
Qed.
