(* Proofs/CffSubsetProofs.v — lemmas about Model/CffSubset.v (property C07, CFF part) *)
From AV Require Import Base.Prelude Base.Lemmas Gen.SubsetConsts Model.GlyfSubset Model.CffSubset
  Proofs.GlyfSubsetProofs.
From Coq Require Import List ZArith Lia Bool.
Import ListNotations.
Open Scope Z_scope.

(* ------------------------------------------------------------------------------------------- *)
(* set_nth *)

Lemma set_nth_length {A} (l : list A) n a : length (set_nth l n a) = length l.
Proof.
  revert n. induction l as [|x l IH]; intros n; [reflexivity|]. destruct n; cbn [set_nth length]; auto.
Qed.

Lemma set_nth_same {A} (l : list A) n a :
  (n < length l)%nat -> nth_error (set_nth l n a) n = Some a.
Proof.
  revert n. induction l as [|x l IH]; intros n H; [cbn in H; lia|].
  destruct n; cbn [set_nth nth_error]; [reflexivity|]. apply IH. cbn [length] in H. lia.
Qed.

Lemma set_nth_other {A} (l : list A) n k a :
  n <> k -> nth_error (set_nth l n a) k = nth_error l k.
Proof.
  revert n k. induction l as [|x l IH]; intros n k H; [reflexivity|].
  destruct n, k; cbn [set_nth nth_error]; try reflexivity; try congruence. apply IH. congruence.
Qed.

Lemma nth_opt_set_same {A} (l : list A) i a :
  0 <= i < len l -> nth_opt (set_nth l (Z.to_nat i) a) i = Some a.
Proof.
  intros H. unfold nth_opt. destruct (i <? 0) eqn:E; [apply Z.ltb_lt in E; lia|].
  apply set_nth_same. unfold len in H. lia.
Qed.

Lemma nth_opt_set_other {A} (l : list A) i k a :
  0 <= i -> i <> k -> nth_opt (set_nth l (Z.to_nat i) a) k = nth_opt l k.
Proof.
  intros Hi H. unfold nth_opt. destruct (k <? 0) eqn:E; [reflexivity|]. apply Z.ltb_ge in E.
  apply set_nth_other. lia.
Qed.

Lemma len_set_nth {A} (l : list A) n a : len (set_nth l n a) = len l.
Proof. unfold len. now rewrite set_nth_length. Qed.

Lemma nth_opt_range {A} (l : list A) i : nth_opt l i = None <-> ~ (0 <= i < len l).
Proof.
  unfold nth_opt. destruct (i <? 0) eqn:E.
  - apply Z.ltb_lt in E. split; [lia|reflexivity].
  - apply Z.ltb_ge in E. rewrite nth_error_None. unfold len. lia.
Qed.

Lemma nth_opt_empties n i : 0 <= i < Z.of_nat n -> nth_opt (empties n) i = Some [].
Proof.
  intros H. unfold nth_opt, empties. destruct (i <? 0) eqn:E; [apply Z.ltb_lt in E; lia|].
  rewrite nth_error_repeat; [reflexivity|lia].
Qed.

(* ------------------------------------------------------------------------------------------- *)
(* copy_used_subrs *)

(* dst is a partial copy of src: same length, every entry empty or the source's *)
Definition partial_copy (src dst : index) : Prop :=
  len dst = len src /\
  forall i b, nth_opt dst i = Some b -> b = [] \/ nth_opt src i = Some b.

Lemma partial_copy_empties src : partial_copy src (empties (length src)).
Proof.
  split.
  - unfold len, empties. now rewrite repeat_length.
  - intros i b H. left. destruct (nth_opt_Some _ _ _ H) as [Hr _].
    unfold len, empties in Hr. rewrite repeat_length in Hr.
    rewrite nth_opt_empties in H by lia. congruence.
Qed.

Lemma copy_used_spec used : forall src dst,
  partial_copy src dst ->
  match copy_used_subrs used src dst with
  | Ok dst' =>
    partial_copy src dst' /\
    (forall i, In i used -> 0 <= i < len src /\ nth_opt dst' i = nth_opt src i) /\
    (forall i, nth_opt dst i = nth_opt src i -> nth_opt dst' i = nth_opt src i) /\
    (forall i, ~ In i used -> nth_opt dst' i = nth_opt dst i)
  | Err e => e = BadIndex /\ exists i, In i used /\ nth_opt src i = None
  | Panic | OOB => False
  end.
Proof.
  induction used as [|i r IH]; intros src dst Hpc; cbn [copy_used_subrs].
  - split; [exact Hpc|]. split; [intros i []|]. split; auto.
  - destruct Hpc as [Hlen Hent].
    assert (Hstep : forall dst2, partial_copy src dst2 ->
              nth_opt dst2 i = nth_opt src i -> 0 <= i < len src ->
              (forall k, nth_opt dst k = nth_opt src k -> nth_opt dst2 k = nth_opt src k) ->
              (forall k, k <> i -> nth_opt dst2 k = nth_opt dst k) ->
              match copy_used_subrs r src dst2 with
              | Ok dst' =>
                partial_copy src dst' /\
                (forall k, In k (i :: r) -> 0 <= k < len src /\ nth_opt dst' k = nth_opt src k) /\
                (forall k, nth_opt dst k = nth_opt src k -> nth_opt dst' k = nth_opt src k) /\
                (forall k, ~ In k (i :: r) -> nth_opt dst' k = nth_opt dst k)
              | Err e => e = BadIndex /\ exists k, In k (i :: r) /\ nth_opt src k = None
              | Panic | OOB => False
              end).
    { intros dst2 Hpc2 Hi Hir Hmono Hoth. specialize (IH src dst2 Hpc2).
      destruct (copy_used_subrs r src dst2) as [dst'|e| |]; try exact IH.
      - destruct IH as (H1 & H2 & H3 & H4). split; [exact H1|]. split; [|split].
        + intros k [<-|Hk]; [split; [exact Hir|now apply H3]|now apply H2].
        + intros k Hk. apply H3. now apply Hmono.
        + intros k Hk. rewrite H4 by (intros Hin; apply Hk; now right).
          apply Hoth. intros ->. apply Hk. now left.
      - destruct IH as (-> & k & Hk & Hn). split; [reflexivity|]. exists k. split; [now right|exact Hn]. }
    destruct (nth_opt dst i) as [[|x b]|] eqn:Ed.
    + (* empty entry: copy *)
      destruct (nth_opt_Some _ _ _ Ed) as [Hr _]. rewrite Hlen in Hr.
      destruct (nth_opt_lt src i Hr) as [cs Hcs]. rewrite Hcs.
      apply Hstep.
      * split; [now rewrite len_set_nth|]. intros k b Hk.
        destruct (Z.eq_dec i k) as [<-|Hne].
        -- rewrite nth_opt_set_same in Hk by lia. right. congruence.
        -- rewrite nth_opt_set_other in Hk by lia. now apply Hent.
      * rewrite nth_opt_set_same by lia. now rewrite Hcs.
      * exact Hr.
      * intros k Hk. destruct (Z.eq_dec i k) as [<-|Hne].
        -- rewrite nth_opt_set_same by lia. now rewrite Hcs.
        -- now rewrite nth_opt_set_other by lia.
      * intros k Hk. now rewrite nth_opt_set_other by lia.
    + (* already copied *)
      destruct (nth_opt_Some _ _ _ Ed) as [Hr _]. rewrite Hlen in Hr.
      apply Hstep.
      * now split.
      * destruct (Hent _ _ Ed) as [H|H]; [discriminate|]. now rewrite Ed, H.
      * exact Hr.
      * auto.
      * auto.
    + (* out of range of dst, hence of src *)
      apply nth_opt_range in Ed. rewrite Hlen in Ed. apply nth_opt_range in Ed. rewrite Ed.
      split; [reflexivity|]. exists i. split; [now left|exact Ed].
Qed.

(* ------------------------------------------------------------------------------------------- *)
(* the global subr INDEX *)

Lemma rebuild_global_spec src used :
  match rebuild_global src used with
  | Ok out =>
    (used = [] /\ out = []) \/
    (len out = len src /\
     (forall i, In i used -> 0 <= i < len src /\ nth_opt out i = nth_opt src i) /\
     (forall i, ~ In i used -> 0 <= i < len src -> nth_opt out i = Some []))
  | Err e => e = BadIndex /\ exists i, In i used /\ nth_opt src i = None
  | Panic | OOB => False
  end.
Proof.
  unfold rebuild_global. destruct used as [|u0 used']; [now left|].
  pose proof (copy_used_spec (u0 :: used') src _ (partial_copy_empties src)) as H.
  destruct (copy_used_subrs (u0 :: used') src (empties (length src))) as [out|e| |]; try exact H.
  destruct H as ([Hl _] & H2 & _ & H4). right. split; [exact Hl|]. split; [exact H2|].
  intros i Hi Hr. rewrite H4 by exact Hi. apply nth_opt_empties. unfold len in Hr. exact Hr.
Qed.

(* a biased operand that resolved to a used subr resolves to the same bytes afterwards *)
Lemma resolve_same src out operand i :
  len out = len src -> subr_index operand (subr_bias (len src)) = Some i ->
  nth_opt out i = nth_opt src i -> resolve out operand = resolve src operand.
Proof. intros Hl Hi Hn. unfold resolve. rewrite Hl, Hi. exact Hn. Qed.

(* ------------------------------------------------------------------------------------------- *)
(* the local subr INDEX of a name-keyed font *)

Lemma copy_each_spec useds : forall src dst,
  partial_copy src dst ->
  match copy_each useds src dst with
  | Ok dst' =>
    partial_copy src dst' /\
    (forall u i, In u useds -> In i u -> 0 <= i < len src /\ nth_opt dst' i = nth_opt src i) /\
    (forall i, nth_opt dst i = nth_opt src i -> nth_opt dst' i = nth_opt src i)
  | Err e => e = BadIndex
  | Panic | OOB => False
  end.
Proof.
  induction useds as [|u r IH]; intros src dst Hpc; cbn [copy_each].
  - split; [exact Hpc|]. split; [intros u i []|auto].
  - pose proof (copy_used_spec u src dst Hpc) as H.
    destruct (copy_used_subrs u src dst) as [d|e| |]; cbn [bind]; try exact H; [|now destruct H].
    destruct H as (H1 & H2 & H3 & _). specialize (IH src d H1).
    destruct (copy_each r src d) as [dst'|e| |]; try exact IH.
    destruct IH as (I1 & I2 & I3). split; [exact I1|]. split.
    + intros u' i [<-|Hu] Hi.
      * destruct (H2 i Hi) as [Hr He]. split; [exact Hr|]. now apply I3.
      * now apply (I2 u' i Hu Hi).
    + intros i Hi. apply I3. now apply H3.
Qed.

Lemma rebuild_type1_local_spec src by_glyph :
  match rebuild_type1_local src by_glyph with
  | Ok None => by_glyph = []
  | Ok (Some d) =>
    exists s, src = Some s /\ len d = len s /\
      forall g u i, In (g, u) by_glyph -> In i u -> 0 <= i < len s /\ nth_opt d i = nth_opt s i
  | Err e => e = BadIndex
  | Panic | OOB => False
  end.
Proof.
  unfold rebuild_type1_local. destruct by_glyph as [|p r]; [reflexivity|].
  destruct src as [s|]; [|reflexivity].
  pose proof (copy_each_spec (map snd (p :: r)) s _ (partial_copy_empties s)) as H.
  destruct (copy_each (map snd (p :: r)) s (empties (length s))) as [d|e| |]; cbn [bind]; try exact H.
  destruct H as ([Hl _] & H2 & _). exists s. split; [reflexivity|]. split; [exact Hl|].
  intros g u i Hg Hi. apply (H2 u i); [|exact Hi]. apply in_map_iff. exists (g, u). now split.
Qed.

(* ------------------------------------------------------------------------------------------- *)
(* the local subr INDEXes of a CID-keyed font *)

Definition locals_ok (locals acc : list (option index)) : Prop :=
  forall fd d, nth_opt acc fd = Some (Some d) ->
    exists src, nth_opt locals fd = Some (Some src) /\ partial_copy src d.

Definition local_kept (fds : list Z) (locals acc : list (option index)) (g i : Z) : Prop :=
  exists fd src d, nth_opt fds g = Some fd /\ nth_opt locals fd = Some (Some src) /\
    nth_opt acc fd = Some (Some d) /\ len d = len src /\ 0 <= i < len src /\
    nth_opt d i = nth_opt src i.

Lemma rebuild_cid_locals_loop_spec fds locals by_glyph : forall acc,
  locals_ok locals acc ->
  match rebuild_cid_locals_loop fds locals by_glyph acc with
  | Ok acc' =>
    locals_ok locals acc' /\ len acc' = len acc /\
    (forall g u i, In (g, u) by_glyph -> In i u -> local_kept fds locals acc' g i) /\
    (forall g i, local_kept fds locals acc g i -> local_kept fds locals acc' g i)
  | Err e => e = BadIndex
  | Panic => exists g u fd, In (g, u) by_glyph /\ nth_opt fds g = Some fd /\ ~ (0 <= fd < len acc)
  | OOB => False
  end.
Proof.
  induction by_glyph as [|[g used] r IH]; intros acc Hok; cbn [rebuild_cid_locals_loop].
  - split; [exact Hok|]. split; [reflexivity|]. split; [intros g u i []|auto].
  - destruct (nth_opt fds g) as [fd|] eqn:Efd; [|reflexivity].
    destruct (nth_opt locals fd) as [[src|]|] eqn:Eloc; try reflexivity.
    destruct (nth_opt acc fd) as [cur|] eqn:Ecur.
    + set (dst := match cur with Some d => d | None => empties (length src) end).
      assert (Hpc : partial_copy src dst).
      { unfold dst. destruct cur as [d|]; [|apply partial_copy_empties].
        destruct (Hok _ _ Ecur) as (src' & Hs' & Hp'). rewrite Eloc in Hs'. now injection Hs' as <-. }
      pose proof (copy_used_spec used src dst Hpc) as Hc.
      destruct (copy_used_subrs used src dst) as [d|e| |]; cbn [bind]; try contradiction; [|now destruct Hc].
      destruct Hc as (C1 & C2 & C3 & _).
      destruct (nth_opt_Some _ _ _ Ecur) as [Hfd _].
      assert (Hok' : locals_ok locals (set_nth acc (Z.to_nat fd) (Some d))).
      { intros fd' d' H'. destruct (Z.eq_dec fd fd') as [<-|Hne].
        - rewrite nth_opt_set_same in H' by exact Hfd. injection H' as <-. eauto.
        - rewrite nth_opt_set_other in H' by lia. now apply Hok. }
      specialize (IH _ Hok').
      destruct (rebuild_cid_locals_loop fds locals r (set_nth acc (Z.to_nat fd) (Some d)))
        as [acc'|e| |]; try exact IH.
      * destruct IH as (I1 & I2 & I3 & I4). split; [exact I1|]. split; [now rewrite I2, len_set_nth|].
        split.
        -- intros g' u i [Hin|Hin] Hi; [|now apply (I3 g' u i Hin Hi)].
           injection Hin as <- <-. apply I4. exists fd, src, d.
           rewrite nth_opt_set_same by exact Hfd. destruct C1 as [Cl _].
           destruct (C2 i Hi) as [Hr He]. repeat split; auto; lia.
        -- intros g' i (fd' & src' & d' & F1 & F2 & F3 & F4 & F5 & F6). apply I4.
           destruct (Z.eq_dec fd fd') as [<-|Hne].
           ++ rewrite Eloc in F2. injection F2 as <-. exists fd, src, d.
              rewrite nth_opt_set_same by exact Hfd. destruct C1 as [Cl _].
              rewrite Ecur in F3. injection F3 as ->. unfold dst in C3.
              repeat split; auto; try lia; try (now apply C3).
           ++ exists fd', src', d'. rewrite nth_opt_set_other by lia. repeat split; auto; lia.
      * destruct IH as (g' & u & fd' & Hin & Hf & Hr). exists g', u, fd'.
        split; [now right|]. split; [exact Hf|]. now rewrite len_set_nth in Hr.
    + exists g, used, fd. split; [now left|]. split; [exact Efd|]. now apply nth_opt_range.
Qed.

Lemma nth_opt_repeat_None {A} n i (x : option A) : nth_opt (repeat (@None A) n) i = Some x -> x = None.
Proof.
  intros H. apply nth_opt_In in H. now apply repeat_spec in H.
Qed.

Lemma rebuild_cid_locals_spec fds np locals by_glyph :
  match rebuild_cid_locals fds np locals by_glyph with
  | Ok acc' =>
    len acc' = Z.max 0 np /\
    forall g u i, In (g, u) by_glyph -> In i u -> local_kept fds locals acc' g i
  | Err e => e = BadIndex
  | Panic => exists g u fd, In (g, u) by_glyph /\ nth_opt fds g = Some fd /\ ~ (0 <= fd < np)
  | OOB => False
  end.
Proof.
  unfold rebuild_cid_locals.
  assert (Hok : locals_ok locals (repeat None (Z.to_nat np))).
  { intros fd d H. apply nth_opt_repeat_None in H. discriminate. }
  pose proof (rebuild_cid_locals_loop_spec fds locals by_glyph _ Hok) as H.
  assert (Hl : len (repeat (@None index) (Z.to_nat np)) = Z.max 0 np).
  { unfold len. rewrite repeat_length. lia. }
  destruct (rebuild_cid_locals_loop fds locals by_glyph (repeat None (Z.to_nat np))) as [acc'|e| |];
    try exact H.
  - destruct H as (_ & H2 & H3 & _). split; [now rewrite H2|exact H3].
  - destruct H as (g & u & fd & H1 & H2 & H3). exists g, u, fd. split; [exact H1|]. split; [exact H2|].
    rewrite Hl in H3. lia.
Qed.

(* ------------------------------------------------------------------------------------------- *)
(* the loop over the requested glyphs *)

Definition nonzero (ids : list Z) : list Z := filter (fun g => negb (g =? 0)) ids.

Record glyphs_ok (c : cff) (used : used_fn) (a a' : acc) (ids : list Z) : Prop := {
  go_data : exists data, a_data a' = a_data a ++ data /\
              Forall2 (fun g cs => nth_opt (char_strings c) g = Some cs) ids data;
  go_ids : a_new_to_old a' = a_new_to_old a ++ ids;
  go_charset : exists sids, a_charset a' = a_charset a ++ sids /\
              Forall2 (fun g sid => nth_opt (charset c) g = Some sid) (nonzero ids) sids;
  go_fd : match var c with
          | VCID fds _ _ => exists fs, a_fd a' = a_fd a ++ fs /\
                              Forall2 (fun g fd => nth_opt fds g = Some fd) ids fs
          | VType1 _ => a_fd a' = a_fd a
          end;
  go_used : forall g, In g ids -> exists ug ul, used g = Ok (ug, ul) /\
              incl ug (a_global a') /\ (ul <> [] -> In (g, ul) (a_local a'));
  go_mono : incl (a_global a) (a_global a') /\ incl (a_local a) (a_local a');
  go_local_src : forall g ul, In (g, ul) (a_local a') ->
              In (g, ul) (a_local a) \/ (In g ids /\ exists ug, used g = Ok (ug, ul));
  go_global_src : forall i, In i (a_global a') ->
              In i (a_global a) \/ exists g ug ul, In g ids /\ used g = Ok (ug, ul) /\ In i ug
}.

Lemma subset_glyphs_spec c used ids : forall a,
  match subset_glyphs c used a ids with
  | Ok a' => glyphs_ok c used a a' ids
  | Err _ => True
  | Panic | OOB => exists g, In g ids /\ (used g = Panic \/ used g = OOB)
  end.
Proof.
  induction ids as [|g r IH]; intros a; cbn [subset_glyphs].
  - constructor.
    + exists []. rewrite app_nil_r. split; [reflexivity|constructor].
    + now rewrite app_nil_r.
    + exists []. rewrite app_nil_r. split; [reflexivity|constructor].
    + destruct (var c); [reflexivity|]. exists []. rewrite app_nil_r. split; [reflexivity|constructor].
    + intros g [].
    + split; apply incl_refl.
    + intros g ul H. now left.
    + intros i H. now left.
  - unfold subset_glyph at 1.
    destruct (nth_opt (char_strings c) g) as [cs|] eqn:Ecs; cbn [bind]; [|exact I].
    destruct (used g) as [[ug ul]|e| |] eqn:Eu; cbn [bind]; try exact I;
      [|exists g; split; [now left|now left]|exists g; split; [now left|now right]].
    cbn [fst snd].
    set (cs_step := if g =? 0 then Ok (a_charset a)
                    else match nth_opt (charset c) g with
                         | Some sid => Ok (a_charset a ++ [sid]) | None => Err BadIndex end).
    destruct cs_step as [cs_id|e| |] eqn:Ecsid; cbn [bind]; try exact I;
      try (exfalso; unfold cs_step in Ecsid; destruct (g =? 0); [discriminate|];
           destruct (nth_opt (charset c) g); discriminate).
    set (fd_step := match var c with
                    | VCID fds _ _ => match nth_opt fds g with
                                      | Some fd => Ok (a_fd a ++ [fd]) | None => Err BadIndex end
                    | VType1 _ => Ok (a_fd a) end).
    destruct fd_step as [fdl|e| |] eqn:Efd; cbn [bind]; try exact I;
      try (exfalso; unfold fd_step in Efd; destruct (var c) as [|fds ? ?]; [discriminate|];
           destruct (nth_opt fds g); discriminate).
    match goal with |- context [subset_glyphs c used ?x r] => set (a1 := x) end.
    assert (Hloc_incl : incl (a_local a) (a_local a1)).
    { unfold a1. cbn [a_local]. destruct ul; [apply incl_refl|apply incl_appl, incl_refl]. }
    assert (Hloc_in : ul <> [] -> In (g, ul) (a_local a1)).
    { unfold a1. cbn [a_local]. destruct ul; [congruence|]. intros _. apply in_or_app. right. now left. }
    assert (Hloc_src : forall p, In p (a_local a1) -> In p (a_local a) \/ p = (g, ul)).
    { unfold a1. cbn [a_local]. destruct ul; [now left|]. intros p Hp. apply in_app_or in Hp.
      destruct Hp as [Hp|[Hp|[]]]; [now left|now right]. }
    specialize (IH a1).
    destruct (subset_glyphs c used a1 r) as [a'|e| |]; try exact I;
      [|destruct IH as (g' & Hg' & Hp); exists g'; split; [now right|exact Hp]
       |destruct IH as (g' & Hg' & Hp); exists g'; split; [now right|exact Hp]].
    destruct IH as [(data & Hd1 & Hd2) Hids (sids & Hs1 & Hs2) Hfd Hused [Hm1 Hm2] Hls Hgs].
    assert (Ea1 : a_data a1 = a_data a ++ [cs] /\ a_new_to_old a1 = a_new_to_old a ++ [g] /\
                  a_charset a1 = cs_id /\ a_fd a1 = fdl /\ a_global a1 = a_global a ++ ug)
      by (unfold a1; cbn; repeat split; reflexivity).
    destruct Ea1 as (E1 & E2 & E3 & E4 & E5). rewrite E1 in Hd1. rewrite E2 in Hids.
    rewrite E3 in Hs1. rewrite E4 in Hfd. rewrite E5 in Hm1, Hgs.
    clearbody a1.
    constructor.
    + exists (cs :: data). split; [now rewrite Hd1, <- app_assoc|]. now constructor.
    + now rewrite Hids, <- app_assoc.
    + unfold nonzero. cbn [filter]. unfold cs_step in Ecsid. destruct (g =? 0) eqn:Eg0; cbn [negb].
      * injection Ecsid as <-. exists sids. now split.
      * destruct (nth_opt (charset c) g) as [sid|] eqn:Esid; [|discriminate]. injection Ecsid as <-.
        exists (sid :: sids). split; [now rewrite Hs1, <- app_assoc|]. now constructor.
    + unfold fd_step in Efd. destruct (var c) as [|fds np locals].
      * injection Efd as <-. exact Hfd.
      * destruct (nth_opt fds g) as [fd|] eqn:Ef; [|discriminate]. injection Efd as <-.
        destruct Hfd as (fs & Hf1 & Hf2). exists (fd :: fs).
        split; [now rewrite Hf1, <- app_assoc|]. now constructor.
    + intros g' [<-|Hg'].
      * exists ug, ul. split; [exact Eu|]. split.
        -- intros i Hi. apply Hm1. apply in_or_app. now right.
        -- intros Hne. apply Hm2. now apply Hloc_in.
      * now apply Hused.
    + split.
      * intros i Hi. apply Hm1. apply in_or_app. now left.
      * intros p Hp. apply Hm2. now apply Hloc_incl.
    + intros g' ul' H'. destruct (Hls g' ul' H') as [H1|(H1 & ug' & H2)].
      * destruct (Hloc_src _ H1) as [H2|H2]; [now left|].
        injection H2 as -> ->. right. split; [now left|eauto].
      * right. split; [now right|eauto].
    + intros i Hi. destruct (Hgs i Hi) as [H1|(g' & ug' & ul' & H1 & H2 & H3)].
      * apply in_app_or in H1. destruct H1 as [H1|H1]; [now left|].
        right. exists g, ug, ul. split; [now left|]. now split.
      * right. exists g', ug', ul'. split; [now right|]. now split.
Qed.

(* ------------------------------------------------------------------------------------------- *)
(* CFF::subset *)

(* the Local Subr INDEX the CharString of glyph g is interpreted with *)
Definition local_index (c : cff) (g : Z) : option index :=
  match var c with
  | VType1 l => l
  | VCID fds _ locals =>
    match nth_opt fds g with
    | Some fd => match nth_opt locals fd with Some l => l | None => None end
    | None => None
    end
  end.

Lemma Forall2_nth {A B} (P : A -> B -> Prop) l1 l2 n a :
  Forall2 P l1 l2 -> nth_error l1 n = Some a -> exists b, nth_error l2 n = Some b /\ P a b.
Proof.
  intros H. revert n. induction H as [|x y l1 l2 Hxy H IH]; intros n Hn; [destruct n; discriminate|].
  destruct n as [|n]; cbn [nth_error] in *; [injection Hn as <-; eauto|now apply IH].
Qed.

Lemma Forall2_len {A B} (P : A -> B -> Prop) l1 l2 : Forall2 P l1 l2 -> length l1 = length l2.
Proof. induction 1; cbn [length]; congruence. Qed.

Lemma nth_error_repeat_Some {A} (x : A) n k : (k < n)%nat -> nth_error (repeat x n) k = Some x.
Proof. intros H. now apply nth_error_repeat. Qed.

(* entry i of the INDEXes glyph g's CharString calls into is preserved, and so is their length *)
Definition subr_kept (src dst : index) (i : Z) : Prop :=
  len dst = len src /\ 0 <= i < len src /\ nth_opt dst i = nth_opt src i.

Record cff_subset_ok (c : cff) (used : used_fn) (ids : list Z) (c' : cff) (n2o : list Z) : Prop := {
  cs_ids : n2o = ids;
  cs_data : Forall2 (fun g cs => nth_opt (char_strings c) g = Some cs) ids (char_strings c');
  cs_global : forall g ug ul i, In g ids -> used g = Ok (ug, ul) -> In i ug ->
                subr_kept (global_subrs c) (global_subrs c') i;
  cs_local : forall n g ug ul i, nth_error ids n = Some g -> used g = Ok (ug, ul) -> In i ul ->
                exists s d, local_index c g = Some s /\ local_index c' (Z.of_nat n) = Some d /\
                            subr_kept s d i;
  cs_fd : forall fds np locals, var c = VCID fds np locals ->
                exists fds' locals', var c' = VCID fds' np locals' /\
                  Forall2 (fun g fd => nth_opt fds g = Some fd) ids fds'
}.

Lemma cff_subset_spec c used ids convert c' n2o :
  cff_subset c used ids convert = Ok (c', n2o) -> cff_subset_ok c used ids c' n2o.
Proof.
  unfold cff_subset. intros H.
  pose proof (subset_glyphs_spec c used ids (mkAcc [] [] [] [] [] [])) as Hg.
  destruct (subset_glyphs c used (mkAcc [] [] [] [] [] []) ids) as [a|e| |]; cbn [bind] in H; try discriminate.
  destruct Hg as [(data & Hd1 & Hd2) Hids (sids & Hs1 & Hs2) Hfd Hused _ Hls Hgs].
  cbn [a_data a_new_to_old a_charset a_fd a_global a_local app] in *.
  pose proof (rebuild_global_spec (global_subrs c) (a_global a)) as Hglob.
  destruct (rebuild_global (global_subrs c) (a_global a)) as [g'|e| |]; cbn [bind] in H; try discriminate.
  (* facts about the global INDEX *)
  assert (HG : forall g ug ul i, In g ids -> used g = Ok (ug, ul) -> In i ug ->
                 subr_kept (global_subrs c) g' i).
  { intros g ug ul i Hgin Hu Hi. destruct (Hused g Hgin) as (ug' & ul' & Hu' & Hincl & _).
    rewrite Hu in Hu'. injection Hu' as <- <-. specialize (Hincl i Hi).
    destruct Hglob as [[He _]|(Hl & Hk & _)]; [rewrite He in Hincl; contradiction|].
    destruct (Hk i Hincl) as [Hr Hn]. now split. }
  (* facts about the local INDEXes, per variant *)
  destruct (var c) as [local|fds np locals] eqn:Ev; cbn [is_cid] in H.
  - (* name-keyed source *)
    pose proof (rebuild_type1_local_spec local (a_local a)) as Hloc.
    destruct (rebuild_type1_local local (a_local a)) as [l'|e| |]; cbn [bind] in H; try discriminate.
    assert (HL : forall g ug ul i, In g ids -> used g = Ok (ug, ul) -> In i ul ->
                   exists s d, local = Some s /\ l' = Some d /\ subr_kept s d i).
    { intros g ug ul i Hgin Hu Hi. destruct (Hused g Hgin) as (ug' & ul' & Hu' & _ & Hin).
      rewrite Hu in Hu'. injection Hu' as <- <-.
      assert (Hne : ul <> []) by (intros ->; contradiction). specialize (Hin Hne).
      destruct l' as [d|]; [|rewrite Hloc in Hin; contradiction].
      destruct Hloc as (s & -> & Hl & Hk). exists s, d. split; [reflexivity|]. split; [reflexivity|].
      destruct (Hk g ul i Hin Hi) as [Hr Hn]. now split. }
    assert (Hlen : len (a_data a) = len ids).
    { rewrite Hd1. unfold len. now rewrite <- (Forall2_len _ _ _ Hd2). }
    destruct (convert && (255 <? len (a_data a))) eqn:Econv.
    + destruct (len (a_data a) <? 2); [discriminate|]. injection H as <- <-.
      constructor; cbn [char_strings global_subrs var].
      * exact Hids.
      * now rewrite Hd1.
      * exact HG.
      * intros n g ug ul i Hn Hu Hi.
        destruct (HL g ug ul i (nth_error_In _ _ Hn) Hu Hi) as (s & d & -> & -> & Hk).
        exists s, d. split; [unfold local_index; now rewrite Ev|]. split; [|exact Hk].
        unfold local_index. cbn [var]. rewrite nth_opt_of_nat.
        assert (Hlt : (n < length ids)%nat) by (apply nth_error_Some; congruence).
        rewrite nth_error_repeat_Some by (rewrite Hlen; unfold len; lia). reflexivity.
      * intros fds np locals Hv. rewrite Ev in Hv. discriminate.
    + assert (Hc' : char_strings c' = a_data a /\ global_subrs c' = g' /\ var c' = VType1 l' /\ n2o = a_new_to_old a).
      { destruct (iso_prefix (a_charset a) 1 (Z.to_nat iso_adobe_last_sid)); injection H as <- <-; cbn; auto. }
      destruct Hc' as (E1 & E2 & E3 & E4). constructor.
      * now rewrite E4.
      * now rewrite E1, Hd1.
      * rewrite E2. exact HG.
      * intros n g ug ul i Hn Hu Hi.
        destruct (HL g ug ul i (nth_error_In _ _ Hn) Hu Hi) as (s & d & -> & -> & Hk).
        exists s, d. unfold local_index. rewrite Ev, E3. auto.
      * intros fds np locals Hv. rewrite Ev in Hv. discriminate.
  - (* CID-keyed source *)
    pose proof (rebuild_cid_locals_spec fds np locals (a_local a)) as Hloc.
    destruct (rebuild_cid_locals fds np locals (a_local a)) as [l'|e| |]; cbn [bind] in H; try discriminate.
    injection H as <- <-. destruct Hloc as [_ Hk]. destruct Hfd as (fs & Hf1 & Hf2). cbn [app] in Hf1.
    constructor; cbn [char_strings global_subrs var].
    + exact Hids.
    + now rewrite Hd1.
    + exact HG.
    + intros n g ug ul i Hn Hu Hi. destruct (Hused g (nth_error_In _ _ Hn)) as (ug' & ul' & Hu' & _ & Hin).
      rewrite Hu in Hu'. injection Hu' as <- <-.
      assert (Hne : ul <> []) by (intros ->; contradiction). specialize (Hin Hne).
      destruct (Hk g ul i Hin Hi) as (fd & src & d & K1 & K2 & K3 & K4 & K5 & K6).
      exists src, d. split; [unfold local_index; now rewrite Ev, K1, K2|]. split; [|now split].
      unfold local_index. cbn [var]. rewrite nth_opt_of_nat, Hf1.
      destruct (Forall2_nth _ _ _ _ _ Hf2 Hn) as (fd' & Hfd' & Hfd''). rewrite Hfd'.
      rewrite K1 in Hfd''. injection Hfd'' as <-. now rewrite K3.
    + intros fds0 np0 locals0 Hv. rewrite Ev in Hv. injection Hv as <- <- <-. exists (a_fd a), l'.
      split; [reflexivity|]. now rewrite Hf1.
Qed.

(* the charset of the output: SID/CID of new glyph n is that of old glyph ids[n] whenever the
   output charset is written explicitly (CID-keyed source, or name-keyed and not ISOAdobe) *)
Lemma cff_subset_charset_cid c used ids convert c' n2o :
  cff_subset c used ids convert = Ok (c', n2o) -> is_cid (var c) = true ->
  exists sids, charset c' = 0 :: sids /\
    Forall2 (fun g sid => nth_opt (charset c) g = Some sid) (nonzero ids) sids.
Proof.
  unfold cff_subset. intros H Hcid.
  pose proof (subset_glyphs_spec c used ids (mkAcc [] [] [] [] [] [])) as Hg.
  destruct (subset_glyphs c used (mkAcc [] [] [] [] [] []) ids) as [a|e| |]; cbn [bind] in H; try discriminate.
  destruct Hg as [_ _ (sids & Hs1 & Hs2) _ _ _ _ _]. cbn [a_charset app] in Hs1.
  destruct (rebuild_global (global_subrs c) (a_global a)); cbn [bind] in H; try discriminate.
  destruct (var c) as [local|fds np locals]; [discriminate|].
  destruct (rebuild_cid_locals fds np locals (a_local a)); cbn [bind] in H; try discriminate.
  cbn [is_cid] in H. injection H as <- <-. cbn [charset]. exists sids. now rewrite Hs1.
Qed.

(* resolving a biased call operand: same bytes before and after *)
Lemma subr_kept_resolve src dst operand i :
  subr_kept src dst i -> subr_index operand (subr_bias (len src)) = Some i ->
  resolve dst operand = resolve src operand /\ exists b, resolve src operand = Some b.
Proof.
  intros (Hl & Hr & Hn) Hi. split; [now apply (resolve_same src dst operand i)|].
  unfold resolve. rewrite Hi. now apply nth_opt_lt.
Qed.
