(* Proofs/Type2Proofs.v -- lemmas for C18 (Type 2 charstring interpretation). *)
From AV Require Import Base.Prelude Base.Lemmas Gen.Type2Consts Model.Type2 Model.Type2Spec.
From Coq Require Import ZifyBool ZifyNat.
Ltac Zify.zify_post_hook ::= Z.div_mod_to_equations.
Open Scope Z_scope.

(* ================================================================== *)
(* 1. Operator level: every parse function equals the fold of the     *)
(*    primitives of the operator's expansion.                         *)
(* ================================================================== *)

Definition op_fn (o : sop) : pfn :=
  match o with
  | SRMove _ _ => F_parse_move_to | SHMove _ => F_parse_horizontal_move_to
  | SVMove _ => F_parse_vertical_move_to
  | SRLine _ => F_parse_line_to | SHLine _ => F_parse_horizontal_line_to
  | SVLine _ => F_parse_vertical_line_to
  | SRRCurve _ => F_parse_curve_to
  | SHHCurve _ _ => F_parse_hh_curve_to | SVVCurve _ _ => F_parse_vv_curve_to
  | SHVCurve _ _ => F_parse_hv_curve_to | SVHCurve _ _ => F_parse_vh_curve_to
  | SRCurveLine _ _ _ => F_parse_curve_line | SRLineCurve _ _ => F_parse_line_curve
  | SFlex _ _ _ => F_parse_flex | SHFlex _ _ _ _ _ _ _ => F_parse_hflex
  | SHFlex1 _ _ _ _ _ _ _ _ _ => F_parse_hflex1 | SFlex1 _ _ _ _ _ _ _ _ _ _ _ => F_parse_flex1
  | SHStem _ | SVStem _ | SHStemHM _ | SVStemHM _ | SHintMask _ _ | SCntrMask _ _ => F_ok
  end.

(* the byte that selects the visitor arm (the second byte for the escaped flex operators) *)
Definition op_byte (o : sop) : Z := last (match opbytes o with
  | 19 :: _ => [19] | 20 :: _ => [20] | l => l end) 0.

Lemma visit_fn_op : forall o, visit_fn (op_byte o) = Some (op_fn o).
Proof. destruct o; reflexivity. Qed.

(* --- run_prims facts --- *)
Lemma run_prims_app : forall a b x y o,
  run_prims x y o (a ++ b) =
  let '(x1, y1, o1, c1) := run_prims x y o a in
  let '(x2, y2, o2, c2) := run_prims x1 y1 o1 b in (x2, y2, o2, c1 ++ c2).
Proof.
  induction a as [|p a IH]; intros b x y o.
  - cbn [app run_prims]. destruct (run_prims x y o b) as [[[x2 y2] o2] c2]. reflexivity.
  - destruct p as [dx dy|dx dy|p1 p2 p3 p4 p5 p6]; cbn [app run_prims].
    + rewrite IH. destruct (run_prims (x + dx) (y + dy) true a) as [[[x1 y1] o1] c1].
      destruct (run_prims x1 y1 o1 b) as [[[x2 y2] o2] c2].
      rewrite <- app_assoc. reflexivity.
    + rewrite IH. destruct (run_prims (x + dx) (y + dy) o a) as [[[x1 y1] o1] c1].
      destruct (run_prims x1 y1 o1 b) as [[[x2 y2] o2] c2]. reflexivity.
    + rewrite IH.
      destruct (run_prims (x + p1 + p3 + p5) (y + p2 + p4 + p6) o a) as [[[x1 y1] o1] c1].
      destruct (run_prims x1 y1 o1 b) as [[[x2 y2] o2] c2]. reflexivity.
Qed.

(* --- the argument loops --- *)
Lemma lines_spec : forall l x y o,
  run_prims x y o (map line_prim l) =
  let '(xf, yf, c) := lines x y (flat2 l) in (xf, yf, o, c).
Proof.
  induction l as [|[dx dy] l IH]; intros x y o; [reflexivity|].
  cbn [map line_prim fst snd run_prims flat2 flat_map app lines].
  rewrite IH. fold (flat2 l).
  destruct (lines (x + dx) (y + dy) (flat2 l)) as [[xf yf] c]. reflexivity.
Qed.

Lemma alt_lines_spec : forall l h x y o,
  run_prims x y o (alt_prims h l) =
  let '(xf, yf, c) := alt_lines h x y l in (xf, yf, o, c).
Proof.
  induction l as [|d l IH]; intros h x y o; [reflexivity|].
  cbn [alt_prims alt_lines]. destruct h; cbn [run_prims negb]; rewrite IH.
  - rewrite Z.add_0_r. destruct (alt_lines false (x + d) y l) as [[xf yf] c]. reflexivity.
  - rewrite Z.add_0_r. destruct (alt_lines true x (y + d) l) as [[xf yf] c]. reflexivity.
Qed.

Lemma curves_spec : forall l x y o,
  run_prims x y o (map curve_prim l) =
  let '(xf, yf, c) := curves x y (flat6 l) in (xf, yf, o, c).
Proof.
  induction l as [|[[[[[a b] c] d] e] f] l IH]; intros x y o; [reflexivity|].
  cbn [map curve_prim run_prims flat6 flat_map args6 app curves].
  rewrite IH. fold (flat6 l).
  destruct (curves (x + a + c + e) (y + b + d + f) (flat6 l)) as [[xf yf] cs]. reflexivity.
Qed.

Lemma hh_curves_spec : forall l x y o,
  run_prims x y o (map (hh_prim 0) l) =
  let '(xf, yf, c) := hh_curves x y (flat4 l) in (xf, yf, o, c).
Proof.
  induction l as [|[[[a b] c] d] l IH]; intros x y o; [reflexivity|].
  cbn [map hh_prim run_prims flat4 flat_map app hh_curves].
  rewrite !Z.add_0_r. rewrite IH. fold (flat4 l).
  destruct (hh_curves (x + a + b + d) (y + c) (flat4 l)) as [[xf yf] cs]. reflexivity.
Qed.

Lemma vv_curves_spec : forall l x y o,
  run_prims x y o (map (vv_prim 0) l) =
  let '(xf, yf, c) := vv_curves x y (flat4 l) in (xf, yf, o, c).
Proof.
  induction l as [|[[[a b] c] d] l IH]; intros x y o; [reflexivity|].
  cbn [map vv_prim run_prims flat4 flat_map app vv_curves].
  rewrite !Z.add_0_r. rewrite IH. fold (flat4 l).
  destruct (vv_curves (x + b) (y + a + c + d) (flat4 l)) as [[xf yf] cs]. reflexivity.
Qed.

Lemma len_flat2 : forall l, len (flat2 l) = 2 * len l.
Proof.
  induction l as [|p l IH]; [reflexivity|].
  unfold flat2 in *; cbn [flat_map]. rewrite len_app, IH, len_cons. unfold len; cbn [length]. lia.
Qed.
Lemma len_flat4 : forall l, len (flat4 l) = 4 * len l.
Proof.
  induction l as [|[[[a b] c] d] l IH]; [reflexivity|].
  unfold flat4 in *; cbn [flat_map]. rewrite len_app, IH, len_cons. unfold len; cbn [length]. lia.
Qed.
Lemma len_args6 : forall c, len (args6 c) = 6.
Proof. intros [[[[[a b] c] d] e] f]. reflexivity. Qed.
Lemma len_flat6 : forall l, len (flat6 l) = 6 * len l.
Proof.
  induction l as [|c l IH]; [reflexivity|].
  unfold flat6 in *; cbn [flat_map]. rewrite len_app, IH, len_args6, len_cons. lia.
Qed.

(* --- what the specification assigns to one operator, as a parser-state transition --- *)
Definition spec_res (o : sop) (p : pst) : pres :=
  let '(x, y, o', c) := run_prims (px p) (py p) (negb (first_move p)) (expand o) in
  COk (mkP x y (has_move p || is_move o) (negb o'), c).

Lemma seg_res : forall p x y, has_move p = true ->
  mkP x y (has_move p || false) (negb (negb (first_move p))) = set_xy p x y.
Proof. intros [px0 py0 hm fm] x y H. cbn in *. subst. rewrite negb_involutive. reflexivity. Qed.

Ltac coords := repeat (f_equal; try lia).

Lemma spec_move : forall p dx dy,
  COk (do_move p (px p + dx) (py p + dy)) = spec_res (SRMove dx dy) p.
Proof.
  intros. unfold spec_res, do_move. cbn [expand run_prims is_move].
  rewrite orb_true_r. destruct (first_move p); reflexivity.
Qed.

Lemma spec_rmove : forall p dx dy,
  pvisit (op_fn (SRMove dx dy)) p (args_of (SRMove dx dy)) = spec_res (SRMove dx dy) p.
Proof. intros. cbn [op_fn pvisit args_of parse_move_to]. apply spec_move. Qed.

Lemma spec_hmove : forall p dx,
  pvisit (op_fn (SHMove dx)) p (args_of (SHMove dx)) = spec_res (SHMove dx) p.
Proof.
  intros. cbn [op_fn pvisit args_of parse_horizontal_move_to].
  unfold spec_res, do_move. cbn [expand run_prims is_move].
  rewrite orb_true_r, Z.add_0_r. destruct (first_move p); reflexivity.
Qed.

Lemma spec_vmove : forall p dy,
  pvisit (op_fn (SVMove dy)) p (args_of (SVMove dy)) = spec_res (SVMove dy) p.
Proof.
  intros. cbn [op_fn pvisit args_of parse_vertical_move_to].
  unfold spec_res, do_move. cbn [expand run_prims is_move].
  rewrite orb_true_r, Z.add_0_r. destruct (first_move p); reflexivity.
Qed.

Lemma spec_rline : forall p l, has_move p = true ->
  pvisit (op_fn (SRLine l)) p (args_of (SRLine l)) = spec_res (SRLine l) p.
Proof.
  intros p l Hm. cbn [op_fn pvisit args_of]. unfold parse_line_to, spec_res.
  rewrite Hm. cbn [negb expand is_move]. rewrite len_flat2.
  replace (Z.odd (2 * len l)) with false by (symmetry; rewrite Z.odd_mul; reflexivity).
  rewrite lines_spec. destruct (lines (px p) (py p) (flat2 l)) as [[x y] c].
  rewrite <- seg_res by exact Hm. rewrite Hm. reflexivity.
Qed.

Lemma spec_altline : forall (p : pst) (l : list Z) (h : bool), has_move p = true -> l <> [] ->
  (if h then parse_horizontal_line_to else parse_vertical_line_to) p l =
  let '(x, y, o', c) := run_prims (px p) (py p) (negb (first_move p)) (alt_prims h l) in
  COk (mkP x y (has_move p || false) (negb o'), c).
Proof.
  intros p l h Hm Hl. rewrite alt_lines_spec.
  destruct h; unfold parse_horizontal_line_to, parse_vertical_line_to; rewrite Hm; cbn [negb];
    (destruct l as [|d l]; [congruence|]).
  - destruct (alt_lines true (px p) (py p) (d :: l)) as [[x y] c].
    rewrite <- seg_res by exact Hm. rewrite Hm. reflexivity.
  - destruct (alt_lines false (px p) (py p) (d :: l)) as [[x y] c].
    rewrite <- seg_res by exact Hm. rewrite Hm. reflexivity.
Qed.

Lemma nonempty_len {A} (l : list A) : negb (len l =? 0) = true -> l <> [].
Proof. destruct l; [cbn; congruence|congruence]. Qed.

Lemma spec_hline : forall p l, has_move p = true -> shape_ok (SHLine l) = true ->
  pvisit (op_fn (SHLine l)) p (args_of (SHLine l)) = spec_res (SHLine l) p.
Proof.
  intros p l Hm Hs. cbn [op_fn pvisit args_of]. unfold spec_res. cbn [expand is_move].
  apply (spec_altline p l true Hm). apply nonempty_len. exact Hs.
Qed.

Lemma spec_vline : forall p l, has_move p = true -> shape_ok (SVLine l) = true ->
  pvisit (op_fn (SVLine l)) p (args_of (SVLine l)) = spec_res (SVLine l) p.
Proof.
  intros p l Hm Hs. cbn [op_fn pvisit args_of]. unfold spec_res. cbn [expand is_move].
  apply (spec_altline p l false Hm). apply nonempty_len. exact Hs.
Qed.

Lemma mul_mod_0 : forall k n, 0 < k -> (k * n) mod k =? 0 = true.
Proof. intros. rewrite Z.mul_comm, Z.mod_mul by lia. reflexivity. Qed.

Lemma spec_rrcurve : forall p l, has_move p = true ->
  pvisit (op_fn (SRRCurve l)) p (args_of (SRRCurve l)) = spec_res (SRRCurve l) p.
Proof.
  intros p l Hm. cbn [op_fn pvisit args_of]. unfold parse_curve_to, spec_res.
  rewrite Hm. cbn [negb expand is_move]. rewrite len_flat6, mul_mod_0 by lia. cbn [negb].
  rewrite curves_spec. destruct (curves (px p) (py p) (flat6 l)) as [[x y] c].
  rewrite <- seg_res by exact Hm. rewrite Hm. reflexivity.
Qed.

Lemma odd_4k1 : forall k, Z.odd (1 + 4 * k) = true.
Proof. intros. rewrite Z.odd_add, Z.odd_mul. reflexivity. Qed.
Lemma odd_4k : forall k, Z.odd (4 * k) = false.
Proof. intros. rewrite Z.odd_mul. reflexivity. Qed.

Lemma spec_hhcurve : forall p d l, has_move p = true -> shape_ok (SHHCurve d l) = true ->
  pvisit (op_fn (SHHCurve d l)) p (args_of (SHHCurve d l)) = spec_res (SHHCurve d l) p.
Proof.
  intros p d l Hm Hs. apply nonempty_len in Hs.
  cbn [op_fn pvisit args_of]. unfold parse_hh_curve_to, spec_res.
  rewrite Hm. cbn [negb expand is_move].
  destruct l as [|[[[a b] c] e] l]; [congruence|]. cbn [first_rest].
  destruct d as [v|]; cbn [olist app oz].
  - rewrite len_cons, len_flat4, odd_4k1. cbn [hd tl].
    rewrite len_flat4, mul_mod_0 by lia. cbn [negb].
    cbn [flat4 flat_map app hh_curves hh_prim run_prims]. fold (flat4 l).
    rewrite hh_curves_spec. rewrite !Z.add_0_r.
    destruct (hh_curves (px p + a + b + e) (py p + v + c) (flat4 l)) as [[x y] cs].
    rewrite <- seg_res by exact Hm. rewrite Hm. reflexivity.
  - rewrite len_flat4, odd_4k. cbv iota beta. rewrite len_flat4, mul_mod_0 by lia. cbn [negb].
    change (hh_prim 0 (a, b, c, e) :: map (hh_prim 0) l) with (map (hh_prim 0) ((a, b, c, e) :: l)).
    rewrite hh_curves_spec.
    destruct (hh_curves (px p) (py p) _) as [[x y] cs].
    rewrite <- seg_res by exact Hm. rewrite Hm. reflexivity.
Qed.

Lemma spec_vvcurve : forall p d l, has_move p = true -> shape_ok (SVVCurve d l) = true ->
  pvisit (op_fn (SVVCurve d l)) p (args_of (SVVCurve d l)) = spec_res (SVVCurve d l) p.
Proof.
  intros p d l Hm Hs. apply nonempty_len in Hs.
  cbn [op_fn pvisit args_of]. unfold parse_vv_curve_to, spec_res.
  rewrite Hm. cbn [negb expand is_move].
  destruct l as [|[[[a b] c] e] l]; [congruence|]. cbn [first_rest].
  destruct d as [v|]; cbn [olist app oz].
  - rewrite len_cons, len_flat4, odd_4k1. cbn [hd tl].
    rewrite len_flat4, mul_mod_0 by lia. cbn [negb].
    cbn [flat4 flat_map app vv_curves vv_prim run_prims]. fold (flat4 l).
    rewrite vv_curves_spec. rewrite !Z.add_0_r.
    destruct (vv_curves (px p + v + b) (py p + a + c + e) (flat4 l)) as [[x y] cs].
    rewrite <- seg_res by exact Hm. rewrite Hm. reflexivity.
  - rewrite len_flat4, odd_4k. cbv iota beta. rewrite len_flat4, mul_mod_0 by lia. cbn [negb].
    change (vv_prim 0 (a, b, c, e) :: map (vv_prim 0) l) with (map (vv_prim 0) ((a, b, c, e) :: l)).
    rewrite vv_curves_spec.
    destruct (vv_curves (px p) (py p) _) as [[x y] cs].
    rewrite <- seg_res by exact Hm. rewrite Hm. reflexivity.
Qed.

(* hvcurveto / vhcurveto *)
Lemma hv_curves_spec : forall l last h x y o,
  hv_curves h x y (flat4 l ++ olist last) =
  match l with
  | [] => match last with
          | None => COk (x, y, [])
          | Some _ => CErr EInvalidArgumentsStackLength
          end
  | _ => let '(xf, yf, o', c) := run_prims x y o (hv_prims h l last) in COk (xf, yf, c)
  end.
Proof.
  induction l as [|[[[d1 d2] d3] d4] l IH]; intros last h x y o.
  - destruct last; reflexivity.
  - cbn [flat4 flat_map app]. fold (flat4 l).
    cbn [hv_curves hv_prims].
    destruct l as [|[[[e1 e2] e3] e4] l'].
    + (* last curve *)
      cbn [flat4 flat_map app hv_prims].
      destruct last as [v|]; cbn [olist oz]; destruct h; cbn [hv_curves cbind run_prims];
        rewrite ?Z.add_0_r; reflexivity.
    + specialize (IH last (negb h)).
      cbn [flat4 flat_map app] in IH |- *. fold (flat4 l') in IH |- *.
      destruct h; cbn [negb] in IH |- *.
      * rewrite (IH (x + d1 + d2) (y + d3 + d4) o).
        cbn [run_prims]. rewrite !Z.add_0_r.
        destruct (run_prims (x + d1 + d2) (y + d3 + d4) o (hv_prims false _ last)) as [[[xf yf] o'] c].
        reflexivity.
      * rewrite (IH (x + d2 + d4) (y + d1 + d3) o).
        cbn [run_prims]. rewrite !Z.add_0_r.
        destruct (run_prims (x + d2 + d4) (y + d1 + d3) o (hv_prims true _ last)) as [[[xf yf] o'] c].
        reflexivity.
Qed.

Lemma run_prims_hv_open : forall l last h x y o,
  let '(_, _, o', _) := run_prims x y o (hv_prims h l last) in o' = o.
Proof.
  induction l as [|[[[d1 d2] d3] d4] l IH]; intros last h x y o; [reflexivity|].
  cbn [hv_prims]. destruct h; cbn [run_prims negb].
  - specialize (IH last false (x + d1 + d2 + match l with [] => oz last | _ => 0 end) (y + 0 + d3 + d4) o).
    destruct (run_prims _ _ o (hv_prims false l last)) as [[[xf yf] o'] c]. exact IH.
  - specialize (IH last true (x + 0 + d2 + d4) (y + d1 + d3 + match l with [] => oz last | _ => 0 end) o).
    destruct (run_prims _ _ o (hv_prims true l last)) as [[[xf yf] o'] c]. exact IH.
Qed.

Lemma spec_hv_vh : forall p l last h, has_move p = true -> l <> [] ->
  len (flat4 l ++ olist last) <= TEMP_OPERANDS ->
  parse_hv_vh h p (flat4 l ++ olist last) =
  let '(x, y, o', c) := run_prims (px p) (py p) (negb (first_move p)) (hv_prims h l last) in
  COk (mkP x y (has_move p || false) (negb o'), c).
Proof.
  intros p l last h Hm Hl Ht. unfold parse_hv_vh. rewrite Hm. cbn [negb].
  assert (Hlen : 4 <= len (flat4 l ++ olist last)).
  { rewrite len_app, len_flat4. destruct l; [congruence|]. rewrite len_cons.
    pose proof (len_nonneg l). pose proof (len_nonneg (olist last)). lia. }
  destruct (len (flat4 l ++ olist last) <? 4) eqn:E1; [lia|].
  destruct (TEMP_OPERANDS <? len (flat4 l ++ olist last)) eqn:E2; [lia|].
  rewrite (hv_curves_spec l last h (px p) (py p) (negb (first_move p))).
  destruct l; [congruence|].
  pose proof (run_prims_hv_open (c :: l) last h (px p) (py p) (negb (first_move p))) as Ho.
  destruct (run_prims (px p) (py p) (negb (first_move p)) (hv_prims h (c :: l) last))
    as [[[x y] o'] cs].
  subst o'. cbn [cbind]. rewrite <- seg_res by exact Hm. rewrite Hm. reflexivity.
Qed.

Lemma spec_hvcurve : forall p l last, has_move p = true -> shape_ok (SHVCurve l last) = true ->
  len (args_of (SHVCurve l last)) <= TEMP_OPERANDS ->
  pvisit (op_fn (SHVCurve l last)) p (args_of (SHVCurve l last)) = spec_res (SHVCurve l last) p.
Proof.
  intros p l last Hm Hs Ht. apply nonempty_len in Hs.
  cbn [op_fn pvisit args_of]. unfold spec_res, parse_hv_curve_to. cbn [expand is_move].
  apply spec_hv_vh; assumption.
Qed.

Lemma spec_vhcurve : forall p l last, has_move p = true -> shape_ok (SVHCurve l last) = true ->
  len (args_of (SVHCurve l last)) <= TEMP_OPERANDS ->
  pvisit (op_fn (SVHCurve l last)) p (args_of (SVHCurve l last)) = spec_res (SVHCurve l last) p.
Proof.
  intros p l last Hm Hs Ht. apply nonempty_len in Hs.
  cbn [op_fn pvisit args_of]. unfold spec_res, parse_vh_curve_to. cbn [expand is_move].
  apply spec_hv_vh; assumption.
Qed.

Lemma take_app_len {A} (a b : list A) : take (len a) (a ++ b) = a.
Proof. unfold take, len. rewrite Nat2Z.id. rewrite firstn_app, Nat.sub_diag, firstn_all. cbn. apply app_nil_r. Qed.
Lemma drop_app_len {A} (a b : list A) : drop (len a) (a ++ b) = b.
Proof. unfold drop, len. rewrite Nat2Z.id. rewrite skipn_app, Nat.sub_diag, skipn_all. reflexivity. Qed.

Lemma spec_curveline : forall p l dx dy, has_move p = true ->
  shape_ok (SRCurveLine l dx dy) = true ->
  pvisit (op_fn (SRCurveLine l dx dy)) p (args_of (SRCurveLine l dx dy)) =
  spec_res (SRCurveLine l dx dy) p.
Proof.
  intros p l dx dy Hm Hs. apply nonempty_len in Hs.
  cbn [op_fn pvisit args_of]. unfold parse_curve_line, spec_res.
  rewrite Hm. cbn [negb expand is_move].
  assert (Hl : 1 <= len l) by (destruct l; [congruence|rewrite len_cons; pose proof (len_nonneg l); lia]).
  assert (Hn : len (flat6 l ++ [dx; dy]) - 2 = len (flat6 l)).
  { rewrite len_app. unfold len at 2; cbn [length]. lia. }
  rewrite Hn. rewrite take_app_len, drop_app_len.
  rewrite len_app, len_flat6. change (len [dx; dy]) with 2.
  destruct (6 * len l + 2 <? 8) eqn:E1; [lia|].
  rewrite mul_mod_0 by lia. cbn [negb].
  rewrite run_prims_app, curves_spec.
  destruct (curves (px p) (py p) (flat6 l)) as [[x y] c].
  cbn [run_prims lines].
  rewrite <- seg_res by exact Hm. rewrite Hm. reflexivity.
Qed.

Lemma spec_linecurve : forall p l c, has_move p = true ->
  shape_ok (SRLineCurve l c) = true ->
  pvisit (op_fn (SRLineCurve l c)) p (args_of (SRLineCurve l c)) = spec_res (SRLineCurve l c) p.
Proof.
  intros p l c Hm Hs. apply nonempty_len in Hs.
  cbn [op_fn pvisit args_of]. unfold parse_line_curve, spec_res.
  rewrite Hm. cbn [negb expand is_move].
  assert (Hl : 1 <= len l) by (destruct l; [congruence|rewrite len_cons; pose proof (len_nonneg l); lia]).
  assert (Hn : len (flat2 l ++ args6 c) - 6 = len (flat2 l)).
  { rewrite len_app, len_args6. lia. }
  rewrite Hn. rewrite take_app_len, drop_app_len.
  rewrite len_app, len_flat2, len_args6.
  destruct (2 * len l + 6 <? 8) eqn:E1; [lia|].
  replace (Z.odd (2 * len l)) with false by (symmetry; rewrite Z.odd_mul; reflexivity).
  rewrite run_prims_app, lines_spec.
  destruct (lines (px p) (py p) (flat2 l)) as [[x y] cs].
  destruct c as [[[[[a b] c] d] e] f]. cbn [args6 curve_prim run_prims curves].
  rewrite <- seg_res by exact Hm. rewrite Hm. reflexivity.
Qed.

Lemma spec_flex : forall p c1 c2 fd, has_move p = true ->
  pvisit (op_fn (SFlex c1 c2 fd)) p (args_of (SFlex c1 c2 fd)) = spec_res (SFlex c1 c2 fd) p.
Proof.
  intros p [[[[[a1 a2] a3] a4] a5] a6] [[[[[b1 b2] b3] b4] b5] b6] fd Hm.
  cbn [op_fn pvisit args_of args6 app]. unfold parse_flex, spec_res.
  rewrite Hm. cbn [negb expand is_move curve_prim run_prims].
  rewrite <- seg_res by exact Hm. rewrite Hm. reflexivity.
Qed.

Lemma spec_hflex : forall p a b c d e f g, has_move p = true ->
  pvisit (op_fn (SHFlex a b c d e f g)) p (args_of (SHFlex a b c d e f g)) =
  spec_res (SHFlex a b c d e f g) p.
Proof.
  intros p a b c d e f g Hm.
  cbn [op_fn pvisit args_of]. unfold parse_hflex, spec_res.
  rewrite Hm. cbn [negb expand is_move run_prims].
  rewrite <- seg_res by exact Hm. rewrite Hm. unfold set_xy. cbn [has_move first_move orb].
  rewrite negb_involutive. coords.
Qed.

Lemma spec_hflex1 : forall p a b c d e f g h i, has_move p = true ->
  pvisit (op_fn (SHFlex1 a b c d e f g h i)) p (args_of (SHFlex1 a b c d e f g h i)) =
  spec_res (SHFlex1 a b c d e f g h i) p.
Proof.
  intros p a b c d e f g h i Hm.
  cbn [op_fn pvisit args_of]. unfold parse_hflex1, spec_res.
  rewrite Hm. cbn [negb expand is_move run_prims].
  rewrite <- seg_res by exact Hm. rewrite Hm. unfold set_xy. cbn [has_move first_move orb].
  rewrite negb_involutive. coords.
Qed.

Lemma spec_flex1 : forall p a b c d e f g h i j k, has_move p = true ->
  pvisit (op_fn (SFlex1 a b c d e f g h i j k)) p (args_of (SFlex1 a b c d e f g h i j k)) =
  spec_res (SFlex1 a b c d e f g h i j k) p.
Proof.
  intros p a b c d e f g h i j k Hm.
  cbn [op_fn pvisit args_of]. unfold parse_flex1, spec_res.
  rewrite Hm. cbn [negb expand is_move].
  replace (py p + b + d + f + h + j - py p) with (b + d + f + h + j) by lia.
  replace (px p + a + c + e + g + i - px p) with (a + c + e + g + i) by lia.
  destruct (Z.abs (b + d + f + h + j) <? Z.abs (a + c + e + g + i)); cbn [run_prims];
    rewrite <- seg_res by exact Hm; rewrite Hm; unfold set_xy; cbn [has_move first_move orb];
    rewrite negb_involutive; coords.
Qed.

Lemma spec_hint : forall p o, is_hint o = true ->
  pvisit (op_fn o) p (args_of o) = spec_res o p.
Proof.
  intros [x y hm fm] o Hh. destruct o; try discriminate Hh;
    cbn [op_fn pvisit]; unfold spec_res; cbn [expand run_prims is_move px py first_move has_move];
    rewrite orb_false_r, negb_involutive; reflexivity.
Qed.

(* Every operator: the interpreter's parse function, applied to the operator's operands, performs
   exactly the primitives of the operator's expansion. *)
Theorem pvisit_spec : forall o p,
  shape_ok o = true -> len (args_of o) <= TEMP_OPERANDS ->
  (is_move o = false -> is_hint o = false -> has_move p = true) ->
  pvisit (op_fn o) p (args_of o) = spec_res o p.
Proof.
  intros o p Hs Ht Hm.
  destruct o; try (apply spec_hint; reflexivity);
    try (specialize (Hm eq_refl eq_refl)).
  - apply spec_rmove.
  - apply spec_hmove.
  - apply spec_vmove.
  - apply spec_rline; assumption.
  - apply spec_hline; assumption.
  - apply spec_vline; assumption.
  - apply spec_rrcurve; assumption.
  - apply spec_hhcurve; assumption.
  - apply spec_vvcurve; assumption.
  - apply spec_hvcurve; assumption.
  - apply spec_vhcurve; assumption.
  - apply spec_curveline; assumption.
  - apply spec_linecurve; assumption.
  - apply spec_flex; assumption.
  - apply spec_hflex; assumption.
  - apply spec_hflex1; assumption.
  - apply spec_flex1; assumption.
Qed.

(* ================================================================== *)
(* 2. The interpreter loop: unfolding equation, fuel irrelevance      *)
(* ================================================================== *)

Lemma cbind_ext {A B} (x : cres A) (f g : A -> cres B) :
  (forall a, f a = g a) -> cbind x f = cbind x g.
Proof. intros H. destruct x; cbn [cbind]; auto. Qed.

Lemma length_drop_le {A} (n : Z) (r : list A) : (length (drop n r) <= length r)%nat.
Proof. unfold drop. rewrite skipn_length. lia. Qed.

Lemma step_ext : forall rec k1 k2 e d op r s,
  (forall b s', (length b <= length r)%nat -> k1 b s' = k2 b s') ->
  step rec k1 e d op r s = step rec k2 e d op r s.
Proof.
  intros rec k1 k2 e d op r s H.
  assert (Hr : forall s', k1 r s' = k2 r s') by (intros; apply H; lia).
  unfold step. destruct (classify op); try reflexivity.
  - unfold step_stem. destruct (stem_count s) as [cnt w].
    apply cbind_ext; intros st. apply cbind_ext; intros s1. apply Hr.
  - unfold step_move. destruct (move_offset s 2) as [off w]. apply cbind_ext; intros s1. apply Hr.
  - unfold step_simple. apply cbind_ext; intros s1. apply Hr.
  - unfold step_call. destruct (stk s); [reflexivity|]. destruct (d =? STACK_LIMIT); [reflexivity|].
    destruct (local_subrs e) as [subrs|]; [|reflexivity].
    apply cbind_ext; intros [v s1]. apply cbind_ext; intros idx.
    destruct (nth_opt subrs idx); [|reflexivity]. apply cbind_ext; intros s2.
    unfold after_call. destruct (endchar_seen s2 && negb (seac_seen s2)); [reflexivity|apply Hr].
  - unfold step_escape. destruct r as [|op2 r2]; [reflexivity|].
    destruct (is_flex_op op2); [|reflexivity]. apply cbind_ext; intros s1.
    apply H. cbn [length]. lia.
  - unfold step_vsindex. destruct (e_kind e); [reflexivity|]. destruct (vsidx s); [reflexivity|].
    destruct (negb (len (stk s) =? 1)); [reflexivity|].
    apply cbind_ext; intros s1. apply cbind_ext; intros [v s2].
    destruct (try_as_u16 v); [apply Hr|reflexivity].
  - unfold step_blend. destruct (e_kind e); [reflexivity|]. destruct (negb (e_variable e)); [reflexivity|].
    destruct (stk s); [reflexivity|].
    apply cbind_ext; intros s1. apply cbind_ext; intros [sc s2]. apply cbind_ext; intros s3. apply Hr.
  - unfold step_mask. destruct (stem_count s) as [cnt w].
    apply cbind_ext; intros s1. apply cbind_ext; intros st. apply cbind_ext; intros st7.
    destruct (len r <? st7 / 8); [reflexivity|]. apply H. apply length_drop_le.
  - unfold step_move. destruct (move_offset s 3) as [off w]. apply cbind_ext; intros s1. apply Hr.
  - unfold step_move. destruct (move_offset s 2) as [off w]. apply cbind_ext; intros s1. apply Hr.
  - unfold step_shortint. destruct r as [|b1 [|b2 r2]]; try reflexivity.
    apply cbind_ext; intros s1. apply H. cbn [length]. lia.
  - unfold step_call. destruct (stk s); [reflexivity|]. destruct (d =? STACK_LIMIT); [reflexivity|].
    apply cbind_ext; intros [v s1]. apply cbind_ext; intros idx.
    destruct (nth_opt (e_gsubrs e) idx); [|reflexivity]. apply cbind_ext; intros s2.
    unfold after_call. destruct (endchar_seen s2 && negb (seac_seen s2)); [reflexivity|apply Hr].
  - unfold step_int1. apply cbind_ext; intros s1. apply Hr.
  - unfold step_int2. destruct r as [|b1 r2]; [reflexivity|]. unfold step_int23.
    assert (Hr2 : forall s', k1 r2 s' = k2 r2 s') by (intros; apply H; cbn [length]; lia).
    destruct (e_mode e); [destruct (_ && _); [|reflexivity]|]; apply cbind_ext; intros s1; apply Hr2.
  - unfold step_int3. destruct r as [|b1 r2]; [reflexivity|]. unfold step_int23.
    assert (Hr2 : forall s', k1 r2 s' = k2 r2 s') by (intros; apply H; cbn [length]; lia).
    destruct (e_mode e); [destruct (_ && _); [|reflexivity]|]; apply cbind_ext; intros s1; apply Hr2.
  - unfold step_fixed. destruct r as [|b1 [|b2 [|b3 [|b4 r2]]]]; try reflexivity.
    apply cbind_ext; intros s1. apply H. cbn [length]. lia.
Qed.

Lemma loop_fuel : forall rec e d n m b s,
  (length b <= n)%nat -> (length b <= m)%nat -> loop rec e d n b s = loop rec e d m b s.
Proof.
  induction n as [|n IH]; intros m b s Hn Hm.
  - destruct b; [|cbn [length] in Hn; lia]. destruct m; reflexivity.
  - destruct b as [|op r]; [destruct m; reflexivity|].
    destruct m as [|m]; [cbn [length] in Hm; lia|].
    cbn [loop]. apply step_ext. intros b' s' Hb. cbn [length] in Hn, Hm. apply IH; lia.
Qed.

(* the unfolding equation of visit_impl's loop *)
Lemma run_cons : forall df e d op r s,
  run (S df) e d (op :: r) s = step (run df e) (run (S df) e d) e d op r s.
Proof.
  intros. cbn [run loop length]. apply step_ext. intros b s' Hb.
  apply loop_fuel; lia.
Qed.

Lemma run_nil : forall df e d s, run (S df) e d [] s = COk s.
Proof. reflexivity. Qed.

(* ================================================================== *)
(* 3. Operand decoding                                                *)
(* ================================================================== *)

Ltac unfold_consts :=
  unfold reserved_ops, OP_HORIZONTAL_STEM, OP_VERTICAL_STEM, OP_VERTICAL_MOVE_TO, OP_LINE_TO,
    OP_HORIZONTAL_LINE_TO, OP_VERTICAL_LINE_TO, OP_CURVE_TO, OP_CALL_LOCAL_SUBROUTINE, OP_RETURN,
    OP_ENDCHAR, OP_VS_INDEX, OP_BLEND, OP_HORIZONTAL_STEM_HINT_MASK, OP_HINT_MASK, OP_COUNTER_MASK,
    OP_MOVE_TO, OP_HORIZONTAL_MOVE_TO, OP_VERTICAL_STEM_HINT_MASK, OP_CURVE_LINE, OP_LINE_CURVE,
    OP_VV_CURVE_TO, OP_HH_CURVE_TO, OP_SHORT_INT, OP_CALL_GLOBAL_SUBROUTINE, OP_VH_CURVE_TO,
    OP_HV_CURVE_TO, OP_HFLEX, OP_FLEX, OP_HFLEX1, OP_FLEX1, OP_FIXED_16_16,
    TWO_BYTE_OPERATOR_MARK, INT1_LO, INT1_HI, INT2_LO, INT2_HI, INT3_LO, INT3_HI in *.

Ltac kill_eqb :=
  repeat match goal with
         | |- context [?a =? ?b] => destruct (Z.eqb_spec a b); [lia|]
         end.

Lemma classify_int1 : forall op, 32 <= op <= 246 -> classify op = KInt1.
Proof.
  intros op H. unfold classify. unfold_consts. cbn [existsb]. kill_eqb. cbn [orb].
  destruct (32 <=? op) eqn:E1; [|lia]. destruct (op <=? 246) eqn:E2; [|lia]. reflexivity.
Qed.

Lemma classify_int2 : forall op, 247 <= op <= 250 -> classify op = KInt2.
Proof.
  intros op H. unfold classify. unfold_consts. cbn [existsb]. kill_eqb. cbn [orb].
  destruct (32 <=? op) eqn:E1; [|lia]. destruct (op <=? 246) eqn:E2; [lia|]. cbn [andb].
  destruct (247 <=? op) eqn:E3; [|lia]. destruct (op <=? 250) eqn:E4; [|lia]. reflexivity.
Qed.

Lemma classify_int3 : forall op, 251 <= op <= 254 -> classify op = KInt3.
Proof.
  intros op H. unfold classify. unfold_consts. cbn [existsb]. kill_eqb. cbn [orb].
  destruct (32 <=? op) eqn:E1; [|lia]. destruct (op <=? 246) eqn:E2; [lia|]. cbn [andb].
  destruct (247 <=? op) eqn:E3; [|lia]. destruct (op <=? 250) eqn:E4; [lia|]. cbn [andb].
  destruct (251 <=? op) eqn:E5; [|lia]. destruct (op <=? 254) eqn:E6; [|lia]. reflexivity.
Qed.

(* every valid encoding of v is decoded to v and pushed; the loop continues after it *)
Lemma run_num : forall bs v, encodes bs v -> forall df e d rest s,
  run (S df) e d (bs ++ rest) s = s1 <~ push e v s ;; run (S df) e d rest s1.
Proof.
  intros bs v Henc df e d rest s. destruct Henc as [n Hn|n Hn|n Hn|n Hn|raw Hr].
  - cbn [app]. rewrite run_cons. unfold step. rewrite classify_int1 by lia.
    unfold step_int1, parse_int1_expr. replace (n + 139 - 139) with n by lia. reflexivity.
  - cbn [app]. rewrite run_cons. unfold step. rewrite classify_int2 by lia.
    unfold step_int2, step_int23, parse_int2_expr.
    replace (((n - 108) / 256 + 247 - 247) * 256 + (n - 108) mod 256 + 108) with n by lia.
    destruct (e_mode e); [|reflexivity].
    destruct (108 <=? n) eqn:E1; [|lia]. destruct (n <=? 1131) eqn:E2; [|lia]. reflexivity.
  - cbn [app]. rewrite run_cons. unfold step. rewrite classify_int3 by lia.
    unfold step_int3, step_int23, parse_int3_expr.
    replace (- ((- n - 108) / 256 + 251 - 251) * 256 - (- n - 108) mod 256 - 108) with n by lia.
    destruct (e_mode e); [|reflexivity].
    destruct (-1131 <=? n) eqn:E1; [|lia]. destruct (n <=? -108) eqn:E2; [|lia]. reflexivity.
  - cbn [app]. rewrite run_cons. unfold step. change (classify 28) with KShortInt.
    unfold step_shortint.
    replace (to_signed 16 (n mod 65536 / 256 * 256 + n mod 256)) with n; [reflexivity|].
    unfold to_signed. change (2 ^ 16) with 65536. change (2 ^ (16 - 1)) with 32768.
    destruct (_ <? 32768) eqn:E; lia.
  - cbn [app be_bytes]. rewrite run_cons. unfold step. change (classify 255) with KFixed.
    unfold step_fixed.
    change (Z.of_nat 3) with 3. change (Z.of_nat 2) with 2. change (Z.of_nat 1) with 1.
    change (Z.of_nat 0) with 0.
    change (256 ^ 3) with 16777216. change (256 ^ 2) with 65536. change (256 ^ 1) with 256.
    change (256 ^ 0) with 1.
    match goal with |- context [to_signed 32 ?w] => replace (to_signed 32 w) with raw end;
      [reflexivity|].
    unfold to_signed. change (2 ^ 32) with 4294967296. change (2 ^ (32 - 1)) with 2147483648.
    destruct (_ <? 2147483648) eqn:E; lia.
Qed.

Lemma set_stk_id : forall s, set_stk s (stk s) = s.
Proof. intros [k0 w0 n0 ec0 sk0 vi0 sc0 p0 c0]; reflexivity. Qed.

Lemma run_args : forall bss vs, Forall2 encodes bss vs -> forall df e d rest s,
  len (stk s) + len vs <= max_stack e ->
  run (S df) e d (concat bss ++ rest) s = run (S df) e d rest (set_stk s (stk s ++ vs)).
Proof.
  induction 1 as [|bs v bss vs Hbv Hrest IH]; intros df e d rest s Hroom.
  - cbn [concat app]. rewrite app_nil_r, set_stk_id. reflexivity.
  - cbn [concat]. rewrite <- app_assoc. rewrite (run_num bs v Hbv).
    rewrite len_cons in Hroom. pose proof (len_nonneg vs).
    unfold push. destruct (len (stk s) =? max_stack e) eqn:E; [lia|]. cbn [cbind].
    rewrite IH.
    + destruct s as [k0 w0 n0 ec0 sk0 vi0 sc0 p0 c0]; cbn [set_stk stk].
      rewrite <- app_assoc. reflexivity.
    + destruct s as [k0 w0 n0 ec0 sk0 vi0 sc0 p0 c0]; cbn [set_stk stk] in *.
      rewrite len_app. change (len [v]) with 1. lia.
Qed.

(* ================================================================== *)
(* 4. One operator of a well-formed program                           *)
(* ================================================================== *)

Definition spec_eff (o : sop) (p : pst) : pst * list cmd :=
  let '(x, y, o', c) := run_prims (px p) (py p) (negb (first_move p)) (expand o) in
  (mkP x y (has_move p || is_move o) (negb o'), c).

Lemma spec_res_eff : forall o p, spec_res o p = COk (spec_eff o p).
Proof.
  intros. unfold spec_res, spec_eff.
  destruct (run_prims (px p) (py p) (negb (first_move p)) (expand o)) as [[[x y] o'] c]. reflexivity.
Qed.

(* conditions under which operator o may be executed on parser state p *)
Definition op_ok (o : sop) (p : pst) : Prop :=
  shape_ok o = true /\ len (args_of o) <= TEMP_OPERANDS /\
  (is_move o = false -> is_hint o = false -> has_move p = true).

Lemma visit_op_spec : forall o off k w n ec sk vi sc p c0,
  op_ok o p -> drop off k = args_of o ->
  visit_op (op_byte o) off (mkI k w n ec sk vi sc p c0) =
  COk (mkI k w n ec sk vi sc (fst (spec_eff o p)) (c0 ++ snd (spec_eff o p))).
Proof.
  intros o off k w n ec sk vi sc p c0 (Hs & Ht & Hm) Hd.
  unfold visit_op. rewrite visit_fn_op. cbn [ps stk]. rewrite Hd.
  rewrite pvisit_spec by assumption. rewrite spec_res_eff.
  destruct (spec_eff o p) as [p' c]. reflexivity.
Qed.

Lemma add_u32_ok : forall m a b, 0 <= a -> 0 <= b -> a + b < U32 -> add_u32 m a b = COk (a + b).
Proof. intros. unfold add_u32. destruct (a + b <? U32) eqn:E; [reflexivity|lia]. Qed.

(* the stack in front of an operator: its operands, preceded by the width when this is the first
   stack-clearing operator of a charstring that has one *)
Inductive width_pre : sop -> bool -> list Z -> bool -> Prop :=
| wp_none : forall o w, width_pre o w [] w
| wp_some : forall o wv, (is_move o || is_hint o) = true -> width_pre o false [wv] true.

Lemma stem_count_pre : forall o w pre w' n ec sk vi sc p c0,
  is_hint o = true -> width_pre o w pre w' ->
  stem_count (mkI (pre ++ args_of o) w n ec sk vi sc p c0) = (2 * stems_of o, w').
Proof.
  intros o w pre w' n ec sk vi sc p c0 Hh Hw. unfold stem_count. cbn [stk wparsed].
  assert (Ha : args_of o = flat2 (hint_pairs o)) by (destruct o; try discriminate Hh; reflexivity).
  rewrite Ha, len_app, len_flat2. unfold stems_of.
  destruct Hw as [o w|o wv Hk].
  - change (len []) with 0. replace (Z.odd (0 + 2 * len (hint_pairs o))) with false.
    + cbn [andb]. f_equal.
    + symmetry. rewrite Z.add_0_l, Z.odd_mul. reflexivity.
  - change (len [wv]) with 1.
    replace (Z.odd (1 + 2 * len (hint_pairs o))) with true
      by (symmetry; rewrite Z.odd_add, Z.odd_mul; reflexivity).
    cbn [andb negb]. f_equal. lia.
Qed.

Lemma step_move_spec : forall o nargs b k rest w pre w' n ec sk vi sc p c0,
  is_move o = true -> op_byte o = b -> len (args_of o) = nargs - 1 ->
  op_ok o p -> width_pre o w pre w' ->
  step_move k nargs b rest (mkI (pre ++ args_of o) w n ec sk vi sc p c0) =
  k rest (mkI [] w' n ec sk vi sc (fst (spec_eff o p)) (c0 ++ snd (spec_eff o p))).
Proof.
  intros o nargs b k rest w pre w' n ec sk vi sc p c0 Hmv Hb Hlen Hok Hw.
  unfold step_move, move_offset. cbn [stk wparsed]. rewrite len_app, Hlen.
  destruct Hw as [o w|o wv Hk].
  - change (len []) with 0. destruct (0 + (nargs - 1) =? nargs) eqn:E; [lia|]. cbn [andb].
    unfold set_wparsed. cbn [stk wparsed stems endchar_seen seac_seen vsidx scal ps out app].
    subst b. rewrite visit_op_spec by (assumption || reflexivity). reflexivity.
  - change (len [wv]) with 1. destruct (1 + (nargs - 1) =? nargs) eqn:E; [|lia]. cbn [andb negb].
    unfold set_wparsed. cbn [stk wparsed stems endchar_seen seac_seen vsidx scal ps out].
    subst b. rewrite visit_op_spec by (assumption || reflexivity). reflexivity.
Qed.

Lemma step_simple_spec : forall o b k rest w n ec sk vi sc p c0,
  op_byte o = b -> op_ok o p ->
  step_simple k b rest (mkI (args_of o) w n ec sk vi sc p c0) =
  k rest (mkI [] w n ec sk vi sc (fst (spec_eff o p)) (c0 ++ snd (spec_eff o p))).
Proof.
  intros o b k rest w n ec sk vi sc p c0 Hb Hok. unfold step_simple. subst b.
  rewrite visit_op_spec by (assumption || reflexivity). reflexivity.
Qed.

Lemma step_flex_spec : forall o b k rest w n ec sk vi sc p c0,
  op_byte o = b -> is_flex_op b = true -> op_ok o p ->
  step_escape k (b :: rest) (mkI (args_of o) w n ec sk vi sc p c0) =
  k rest (mkI [] w n ec sk vi sc (fst (spec_eff o p)) (c0 ++ snd (spec_eff o p))).
Proof.
  intros o b k rest w n ec sk vi sc p c0 Hb Hf Hok. unfold step_escape. rewrite Hf. subst b.
  rewrite visit_op_spec by (assumption || reflexivity). reflexivity.
Qed.

Lemma stems_of_nonneg : forall o, 0 <= stems_of o.
Proof. intros. unfold stems_of. apply len_nonneg. Qed.

Lemma visit_op_hint : forall o off k w n ec sk vi sc p c0,
  is_hint o = true ->
  visit_op (op_byte o) off (mkI k w n ec sk vi sc p c0) =
  COk (mkI k w n ec sk vi sc (fst (spec_eff o p)) (c0 ++ snd (spec_eff o p))).
Proof.
  intros o off k w n ec sk vi sc [x y hm fm] c0 Hh.
  unfold visit_op. rewrite visit_fn_op.
  destruct o; try discriminate Hh; cbn [op_fn pvisit cbind ps]; unfold spec_eff, set_ps;
    cbn [expand run_prims is_move px py first_move has_move fst snd stk wparsed stems endchar_seen
         seac_seen vsidx scal ps out];
    rewrite orb_false_r, negb_involutive; reflexivity.
Qed.

Lemma step_stem_spec : forall o b k e rest w pre w' n ec sk vi sc p c0,
  is_hint o = true -> op_byte o = b -> op_ok o p -> width_pre o w pre w' ->
  0 <= n -> n + stems_of o + 7 < U32 ->
  step_stem k e b rest (mkI (pre ++ args_of o) w n ec sk vi sc p c0) =
  k rest (mkI [] w' (n + stems_of o) ec sk vi sc (fst (spec_eff o p)) (c0 ++ snd (spec_eff o p))).
Proof.
  intros o b k e rest w pre w' n ec sk vi sc p c0 Hh Hb Hok Hw Hn Hb32.
  unfold step_stem. rewrite (stem_count_pre o w pre w') by assumption.
  cbn [stems]. replace (2 * stems_of o / 2) with (stems_of o) by lia.
  pose proof (stems_of_nonneg o).
  rewrite add_u32_ok by lia. cbn [cbind].
  unfold set_wparsed, set_stems. cbn [stk wparsed stems endchar_seen seac_seen vsidx scal ps out].
  subst b. rewrite visit_op_hint by assumption. reflexivity.
Qed.

Lemma step_mask_spec : forall o b m k e rest w pre w' n ec sk vi sc p c0,
  is_hint o = true -> op_byte o = b -> mask_of o = Some m -> op_ok o p -> width_pre o w pre w' ->
  0 <= n -> n + stems_of o + 7 < U32 -> len m = (n + stems_of o + 7) / 8 ->
  step_mask k e b (m ++ rest) (mkI (pre ++ args_of o) w n ec sk vi sc p c0) =
  k rest (mkI [] w' (n + stems_of o) ec sk vi sc (fst (spec_eff o p)) (c0 ++ snd (spec_eff o p))).
Proof.
  intros o b m k e rest w pre w' n ec sk vi sc p c0 Hh Hb Hmask Hok Hw Hn Hb32 Hlen.
  unfold step_mask. rewrite (stem_count_pre o w pre w') by assumption.
  subst b. rewrite visit_op_hint by assumption. cbn [cbind].
  unfold set_wparsed, set_stk, set_stems.
  cbn [stk wparsed stems endchar_seen seac_seen vsidx scal ps out].
  replace (2 * stems_of o / 2) with (stems_of o) by lia.
  pose proof (stems_of_nonneg o).
  rewrite add_u32_ok by lia. cbn [cbind]. rewrite add_u32_ok by lia. cbn [cbind].
  rewrite <- Hlen. rewrite len_app. pose proof (len_nonneg rest).
  destruct (len m + len rest <? len m) eqn:E; [lia|]. rewrite drop_app_len. reflexivity.
Qed.

Ltac op_start K :=
  cbn [opbytes app]; rewrite run_cons; unfold step;
  match goal with |- context [classify ?b] => change (classify b) with K end.

Ltac no_stems o n :=
  replace (n + stems_of o) with n by (unfold stems_of; cbn [hint_pairs]; change (len (@nil (Z * Z))) with 0; lia).

Lemma width_pre_seg : forall o w pre w', width_pre o w pre w' ->
  (is_move o || is_hint o) = false -> pre = [] /\ w' = w.
Proof. intros o w pre w' Hw Hk. destruct Hw as [o w|o wv Hk']; [auto|congruence]. Qed.

(* one operator of a well-formed program: operands on the stack (after the width, if this is the
   operator that takes it), operator bytes next in the charstring *)
Lemma run_op : forall o df e d rest w pre w' n ec sk vi sc p c0,
  op_ok o p -> width_pre o w pre w' -> 0 <= n -> n + stems_of o + 7 < U32 ->
  (match mask_of o with Some m => len m = (n + stems_of o + 7) / 8 | None => True end) ->
  run (S df) e d (opbytes o ++ rest) (mkI (pre ++ args_of o) w n ec sk vi sc p c0) =
  run (S df) e d rest
      (mkI [] w' (n + stems_of o) ec sk vi sc (fst (spec_eff o p)) (c0 ++ snd (spec_eff o p))).
Proof.
  intros o df e d rest w pre w' n ec sk vi sc p c0 Hok Hw Hn Hb32 Hmask.
  destruct o.
  - op_start KRMove. no_stems (SRMove dx dy) n.
    apply (step_move_spec (SRMove dx dy) 3 21); (reflexivity || assumption).
  - op_start KHMove. no_stems (SHMove dx) n.
    apply (step_move_spec (SHMove dx) 2 22); (reflexivity || assumption).
  - op_start KVMove. no_stems (SVMove dy) n.
    apply (step_move_spec (SVMove dy) 2 4); (reflexivity || assumption).
  - destruct (width_pre_seg _ _ _ _ Hw eq_refl) as [-> ->]. op_start KSimple.
    no_stems (SRLine l) n. apply step_simple_spec; (reflexivity || assumption).
  - destruct (width_pre_seg _ _ _ _ Hw eq_refl) as [-> ->]. op_start KSimple.
    no_stems (SHLine l) n. apply step_simple_spec; (reflexivity || assumption).
  - destruct (width_pre_seg _ _ _ _ Hw eq_refl) as [-> ->]. op_start KSimple.
    no_stems (SVLine l) n. apply step_simple_spec; (reflexivity || assumption).
  - destruct (width_pre_seg _ _ _ _ Hw eq_refl) as [-> ->]. op_start KSimple.
    no_stems (SRRCurve l) n. apply step_simple_spec; (reflexivity || assumption).
  - destruct (width_pre_seg _ _ _ _ Hw eq_refl) as [-> ->]. op_start KSimple.
    no_stems (SHHCurve dy1 l) n. apply step_simple_spec; (reflexivity || assumption).
  - destruct (width_pre_seg _ _ _ _ Hw eq_refl) as [-> ->]. op_start KSimple.
    no_stems (SVVCurve dx1 l) n. apply step_simple_spec; (reflexivity || assumption).
  - destruct (width_pre_seg _ _ _ _ Hw eq_refl) as [-> ->]. op_start KSimple.
    no_stems (SHVCurve l last) n. apply step_simple_spec; (reflexivity || assumption).
  - destruct (width_pre_seg _ _ _ _ Hw eq_refl) as [-> ->]. op_start KSimple.
    no_stems (SVHCurve l last) n. apply step_simple_spec; (reflexivity || assumption).
  - destruct (width_pre_seg _ _ _ _ Hw eq_refl) as [-> ->]. op_start KSimple.
    no_stems (SRCurveLine l dx dy) n. apply step_simple_spec; (reflexivity || assumption).
  - destruct (width_pre_seg _ _ _ _ Hw eq_refl) as [-> ->]. op_start KSimple.
    no_stems (SRLineCurve l c) n. apply step_simple_spec; (reflexivity || assumption).
  - destruct (width_pre_seg _ _ _ _ Hw eq_refl) as [-> ->]. op_start KEscape.
    no_stems (SFlex c1 c2 fd) n. apply step_flex_spec; (reflexivity || assumption).
  - destruct (width_pre_seg _ _ _ _ Hw eq_refl) as [-> ->]. op_start KEscape.
    no_stems (SHFlex dx1 dx2 dy2 dx3 dx4 dx5 dx6) n. apply step_flex_spec; (reflexivity || assumption).
  - destruct (width_pre_seg _ _ _ _ Hw eq_refl) as [-> ->]. op_start KEscape.
    no_stems (SHFlex1 dx1 dy1 dx2 dy2 dx3 dx4 dx5 dy5 dx6) n.
    apply step_flex_spec; (reflexivity || assumption).
  - destruct (width_pre_seg _ _ _ _ Hw eq_refl) as [-> ->]. op_start KEscape.
    no_stems (SFlex1 dx1 dy1 dx2 dy2 dx3 dy3 dx4 dy4 dx5 dy5 d6) n.
    apply step_flex_spec; (reflexivity || assumption).
  - op_start KStem. apply step_stem_spec; (reflexivity || assumption).
  - op_start KStem. apply step_stem_spec; (reflexivity || assumption).
  - op_start KStem. apply step_stem_spec; (reflexivity || assumption).
  - op_start KStem. apply step_stem_spec; (reflexivity || assumption).
  - cbn [opbytes]. rewrite <- app_comm_cons. rewrite run_cons. unfold step.
    change (classify 19) with KMask.
    apply (step_mask_spec (SHintMask l mask) 19 mask); (reflexivity || assumption).
  - cbn [opbytes]. rewrite <- app_comm_cons. rewrite run_cons. unfold step.
    change (classify 20) with KMask.
    apply (step_mask_spec (SCntrMask l mask) 20 mask); (reflexivity || assumption).
Qed.

(* ================================================================== *)
(* 5. Whole programs (no subroutine calls)                            *)
(* ================================================================== *)

Fixpoint ops_eff (ops : list sop) (p : pst) (n : Z) : pst * Z * list cmd :=
  match ops with
  | [] => (p, n, [])
  | o :: r =>
    let '(pf, nf, cf) := ops_eff r (fst (spec_eff o p)) (n + stems_of o) in
    (pf, nf, snd (spec_eff o p) ++ cf)
  end.

Lemma spec_eff_has_move : forall o p, has_move (fst (spec_eff o p)) = has_move p || is_move o.
Proof.
  intros. unfold spec_eff.
  destruct (run_prims (px p) (py p) (negb (first_move p)) (expand o)) as [[[x y] o'] c]. reflexivity.
Qed.

Lemma ops_wf_op_ok : forall o r p n maxargs,
  ops_wf maxargs (has_move p) n (o :: r) -> maxargs <= TEMP_OPERANDS -> op_ok o p.
Proof.
  intros o r p n maxargs (Hs & Hl & Hm & _) Ht. unfold op_ok. repeat split; [assumption|lia|assumption].
Qed.

Lemma run_ops : forall ops body, enc_ops ops body ->
  forall df e d rest w n ec sk vi sc p c0,
  ops_wf (max_stack e) (has_move p) n ops -> 0 <= n -> max_stack e <= TEMP_OPERANDS ->
  run (S df) e d (body ++ rest) (mkI [] w n ec sk vi sc p c0) =
  run (S df) e d rest
      (mkI [] w (snd (fst (ops_eff ops p n))) ec sk vi sc (fst (fst (ops_eff ops p n)))
           (c0 ++ snd (ops_eff ops p n))).
Proof.
  induction 1 as [|o r bss tail Hargs Hr IH]; intros df e d rest w n ec sk vi sc p c0 Hwf Hn Ht.
  - cbn [app ops_eff fst snd]. rewrite app_nil_r. reflexivity.
  - pose proof (ops_wf_op_ok _ _ _ _ _ Hwf Ht) as Hok.
    destruct Hwf as (Hs & Hl & Hm & Hmask & Hb32 & Hwf').
    rewrite <- !app_assoc. rewrite (run_args bss (args_of o) Hargs).
    2:{ cbn [stk]. change (len []) with 0. lia. }
    unfold set_stk. cbn [stk wparsed stems endchar_seen seac_seen vsidx scal ps out app].
    change (args_of o) with ([] ++ args_of o) at 1.
    rewrite (run_op o df e d (tail ++ rest) w [] w) by
      (try assumption; try apply wp_none; change U32 with 4294967296; lia).
    rewrite IH.
    + cbn [ops_eff]. destruct (ops_eff r (fst (spec_eff o p)) (n + stems_of o)) as [[pf nf] cf].
      cbn [fst snd]. rewrite <- app_assoc. reflexivity.
    + rewrite spec_eff_has_move. exact Hwf'.
    + pose proof (stems_of_nonneg o). lia.
    + exact Ht.
Qed.

(* the same with the width operand under the operands of the first operator *)
Lemma run_ops_width : forall o r bss tail wv,
  Forall2 encodes bss (args_of o) -> enc_ops r tail ->
  forall df e d rest ec sk vi sc p c0,
  has_move p = false ->
  ops_wf (max_stack e) (has_move p) 0 (o :: r) -> len (args_of o) + 1 <= max_stack e ->
  max_stack e <= TEMP_OPERANDS ->
  run (S df) e d ((concat bss ++ opbytes o ++ tail) ++ rest) (mkI [wv] false 0 ec sk vi sc p c0) =
  run (S df) e d rest
      (mkI [] true (snd (fst (ops_eff (o :: r) p 0))) ec sk vi sc (fst (fst (ops_eff (o :: r) p 0)))
           (c0 ++ snd (ops_eff (o :: r) p 0))).
Proof.
  intros o r bss tail wv Hargs Hr df e d rest ec sk vi sc p c0 Hp Hwf Hroom Ht.
  pose proof (ops_wf_op_ok _ _ _ _ _ Hwf Ht) as Hok.
  destruct Hwf as (Hs & Hl & Hm & Hmask & Hb32 & Hwf').
  assert (Hk : (is_move o || is_hint o) = true).
  { destruct (is_move o) eqn:E1; [reflexivity|]. destruct (is_hint o) eqn:E2; [reflexivity|].
    (* a segment needs a moveto before it, and p is the initial state *)
    specialize (Hm eq_refl eq_refl). congruence. }
  rewrite <- !app_assoc. rewrite (run_args bss (args_of o) Hargs).
  2:{ cbn [stk]. change (len [wv]) with 1. lia. }
  unfold set_stk. cbn [stk wparsed stems endchar_seen seac_seen vsidx scal ps out].
  rewrite (run_op o df e d (tail ++ rest) false [wv] true) by
    (try assumption; try (apply wp_some; exact Hk); change U32 with 4294967296; lia).
  rewrite (run_ops r tail Hr).
  - cbn [ops_eff]. destruct (ops_eff r (fst (spec_eff o p)) (0 + stems_of o)) as [[pf nf] cf].
    cbn [fst snd]. rewrite <- app_assoc. reflexivity.
  - rewrite spec_eff_has_move. exact Hwf'.
  - pose proof (stems_of_nonneg o). lia.
  - exact Ht.
Qed.

Lemma ops_eff_prims : forall ops p n,
  let '(pf, nf, cf) := ops_eff ops p n in
  let '(x, y, o, c) := run_prims (px p) (py p) (negb (first_move p)) (flat_map expand ops) in
  px pf = x /\ py pf = y /\ first_move pf = negb o /\ cf = c.
Proof.
  induction ops as [|o r IH]; intros p n.
  - cbn [ops_eff flat_map run_prims]. rewrite negb_involutive. auto.
  - cbn [ops_eff flat_map]. rewrite run_prims_app.
    specialize (IH (fst (spec_eff o p)) (n + stems_of o)).
    unfold spec_eff in *.
    destruct (run_prims (px p) (py p) (negb (first_move p)) (expand o)) as [[[x1 y1] o1] c1].
    cbn [fst snd px py first_move] in *. rewrite negb_involutive in IH.
    destruct (ops_eff r _ (n + stems_of o)) as [[pf nf] cf].
    destruct (run_prims x1 y1 o1 (flat_map expand r)) as [[[x2 y2] o2] c2].
    destruct IH as (Hx & Hy & Hf & Hc). subst. auto.
Qed.

Lemma ops_eff_path : forall ops,
  snd (ops_eff ops pst0 0) ++
    (if first_move (fst (fst (ops_eff ops pst0 0))) then [] else [Close]) = prog_path ops.
Proof.
  intros ops. pose proof (ops_eff_prims ops pst0 0) as H.
  unfold prog_path, path_of. cbn [px py first_move pst0 negb] in H.
  destruct (ops_eff ops pst0 0) as [[pf nf] cf].
  destruct (run_prims 0 0 false (flat_map expand ops)) as [[[x y] o] c].
  destruct H as (_ & _ & Hf & ->). cbn [fst snd]. rewrite Hf. destruct o; reflexivity.
Qed.

(* endchar with nothing left on the stack, at the end of the charstring *)
Lemma run_endchar : forall df e d w n sk vi sc p c0,
  e_kind e = KCFF ->
  run (S df) e d [14] (mkI [] w n false sk vi sc p c0) =
  COk (mkI [] w n true sk vi sc (fst (parse_endchar p)) (c0 ++ snd (parse_endchar p))).
Proof.
  intros df e d w n sk vi sc p c0 Hk. rewrite run_cons. unfold step.
  change (classify 14) with KEndchar. unfold step_endchar. rewrite Hk. cbn [stk wparsed].
  change (len []) with 0. cbn [Z.eqb orb andb cbind].
  rewrite andb_false_r. cbn [cbind].
  unfold visit_op. change (visit_fn 14) with (Some F_endchar). cbn [pvisit cbind].
  unfold set_endchar, set_ps. cbn [stk wparsed stems endchar_seen seac_seen vsidx scal ps out].
  destruct (parse_endchar p) as [p' c]. reflexivity.
Qed.

(* endchar preceded only by the width *)
Lemma run_endchar_width : forall df e d wv n sk vi sc p c0,
  e_kind e = KCFF ->
  run (S df) e d [14] (mkI [wv] false n false sk vi sc p c0) =
  COk (mkI [] true n true sk vi sc (fst (parse_endchar p)) (c0 ++ snd (parse_endchar p))).
Proof.
  intros df e d wv n sk vi sc p c0 Hk. rewrite run_cons. unfold step.
  change (classify 14) with KEndchar. unfold step_endchar. rewrite Hk. cbn [stk wparsed].
  change (len [wv]) with 1. cbn [Z.eqb Pos.eqb orb andb negb].
  unfold pop, visit_op. change (visit_fn 14) with (Some F_endchar).
  unfold set_endchar, set_ps, set_wparsed, set_stk.
  cbn [stk wparsed stems endchar_seen seac_seen vsidx scal ps out removelast cbind pvisit].
  destruct (parse_endchar p) as [p' c]. reflexivity.
Qed.

Lemma run_app_end : forall df e d a s,
  run (S df) e d a s = run (S df) e d (a ++ []) s.
Proof. intros. rewrite app_nil_r. reflexivity. Qed.

(* --- CFF: optional width, operators, endchar --- *)
Theorem interp_spec_cff : forall e w ops wb body,
  e_kind e = KCFF ->
  nth_opt (e_glyphs e) (e_gid e) = Some (wb ++ body ++ [14]) ->
  enc_width w wb -> enc_ops ops body -> prog_wf CFF_MAX_OPERANDS w ops ->
  exists s, interp_glyph e = COk s /\ out s = prog_path ops.
Proof.
  intros e w ops wb body Hk Hg Hw Hops (Hwf & Hroom).
  assert (Hmax : max_stack e = CFF_MAX_OPERANDS) by (unfold max_stack; rewrite Hk; reflexivity).
  assert (Ht : max_stack e <= TEMP_OPERANDS) by (rewrite Hmax; vm_compute; congruence).
  unfold interp_glyph. rewrite Hk, Hg. unfold DEPTH_FUEL.
  destruct Hw as [|wv wbs Hwenc].
  - (* no width *)
    cbn [app]. unfold ist0.
    rewrite (run_ops ops body Hops) by (rewrite ?Hmax; cbn [pst0 has_move]; (assumption || lia)).
    rewrite run_endchar by exact Hk. cbn [cbind].
    eexists; split; [reflexivity|]. cbn [out app].
    rewrite <- ops_eff_path. unfold parse_endchar.
    destruct (first_move (fst (fst (ops_eff ops pst0 0)))); reflexivity.
  - (* width *)
    rewrite (run_num wbs wv Hwenc). unfold push, ist0. cbn [stk].
    change (len []) with 0. rewrite Hmax. change (0 =? CFF_MAX_OPERANDS) with false.
    unfold set_stk. cbn [cbind stk wparsed stems endchar_seen seac_seen vsidx scal ps out app].
    destruct Hops as [|o r bss tail Hargs Hr].
    + cbn [app]. rewrite run_endchar_width by exact Hk. cbn [cbind].
      eexists; split; [reflexivity|]. reflexivity.
    + rewrite (run_ops_width o r bss tail wv Hargs Hr) by
        (rewrite ?Hmax; cbn [pst0 has_move]; (assumption || reflexivity || lia)).
      rewrite run_endchar by exact Hk. cbn [cbind].
      eexists; split; [reflexivity|]. cbn [out app].
      rewrite <- ops_eff_path. unfold parse_endchar.
      destruct (first_move (fst (fst (ops_eff (o :: r) pst0 0)))); reflexivity.
Qed.

(* --- CFF2: operators only; the end of the charstring closes the open contour --- *)
Theorem interp_spec_cff2 : forall e ops body fd subrs,
  e_kind e = KCFF2 ->
  glyph_fd e = Some fd -> nth_opt (e_fds e) fd = Some subrs ->
  nth_opt (e_glyphs e) (e_gid e) = Some body ->
  enc_ops ops body -> prog_wf CFF2_MAX_OPERANDS None ops ->
  exists s, interp_glyph e = COk s /\ out s = prog_path ops.
Proof.
  intros e ops body fd subrs Hk Hfd Hsub Hg Hops (Hwf & _).
  assert (Hmax : max_stack e = CFF2_MAX_OPERANDS) by (unfold max_stack; rewrite Hk; reflexivity).
  assert (Ht : max_stack e <= TEMP_OPERANDS) by (rewrite Hmax; vm_compute; congruence).
  unfold interp_glyph. rewrite Hk, Hfd, Hsub, Hg. unfold DEPTH_FUEL, ist0.
  rewrite (run_app_end 11 e 0 body).
  rewrite (run_ops ops body Hops) by (rewrite ?Hmax; cbn [pst0 has_move]; (assumption || lia)).
  rewrite run_nil. cbn [cbind ps].
  rewrite <- ops_eff_path.
  destruct (first_move (fst (fst (ops_eff ops pst0 0)))) eqn:E.
  - eexists; split; [reflexivity|]. cbn [out app]. rewrite app_nil_r. reflexivity.
  - eexists; split; [reflexivity|]. unfold set_ps. cbn [out app ps]. reflexivity.
Qed.

(* what OutlineBuilder::visit returns *)
Corollary run_glyph_spec_cff : forall e w ops wb body,
  e_kind e = KCFF ->
  nth_opt (e_glyphs e) (e_gid e) = Some (wb ++ body ++ [14]) ->
  enc_width w wb -> enc_ops ops body -> prog_wf CFF_MAX_OPERANDS w ops ->
  run_glyph e = if bbox_ok (prog_path ops) then COk (prog_path ops) else CErr EBboxOverflow.
Proof.
  intros e w ops wb body Hk Hg Hw Hops Hwf.
  destruct (interp_spec_cff e w ops wb body Hk Hg Hw Hops Hwf) as (s & Hs & Ho).
  unfold run_glyph. rewrite Hs. cbn [cbind]. rewrite Ho. reflexivity.
Qed.

Corollary run_glyph_spec_cff2 : forall e ops body fd subrs,
  e_kind e = KCFF2 ->
  glyph_fd e = Some fd -> nth_opt (e_fds e) fd = Some subrs ->
  nth_opt (e_glyphs e) (e_gid e) = Some body ->
  enc_ops ops body -> prog_wf CFF2_MAX_OPERANDS None ops ->
  run_glyph e = if bbox_ok (prog_path ops) then COk (prog_path ops) else CErr EBboxOverflow.
Proof.
  intros e ops body fd subrs Hk Hfd Hsub Hg Hops Hwf.
  destruct (interp_spec_cff2 e ops body fd subrs Hk Hfd Hsub Hg Hops Hwf) as (s & Hs & Ho).
  unfold run_glyph. rewrite Hs. cbn [cbind]. rewrite Ho. reflexivity.
Qed.

(* ================================================================== *)
(* 6. Consequences: the path does not depend on how it is written     *)
(* ================================================================== *)

(* Two well-formed programs with the same primitives -- whatever operators, number encodings,
   hints, masks and width they use -- give the same outline. *)
Theorem equivalent_programs_cff : forall e1 e2 w1 w2 ops1 ops2 wb1 wb2 body1 body2,
  e_kind e1 = KCFF -> e_kind e2 = KCFF ->
  nth_opt (e_glyphs e1) (e_gid e1) = Some (wb1 ++ body1 ++ [14]) ->
  nth_opt (e_glyphs e2) (e_gid e2) = Some (wb2 ++ body2 ++ [14]) ->
  enc_width w1 wb1 -> enc_width w2 wb2 -> enc_ops ops1 body1 -> enc_ops ops2 body2 ->
  prog_wf CFF_MAX_OPERANDS w1 ops1 -> prog_wf CFF_MAX_OPERANDS w2 ops2 ->
  flat_map expand ops1 = flat_map expand ops2 ->
  run_glyph e1 = run_glyph e2.
Proof.
  intros. rewrite (run_glyph_spec_cff e1 w1 ops1 wb1 body1) by assumption.
  rewrite (run_glyph_spec_cff e2 w2 ops2 wb2 body2) by assumption.
  unfold prog_path.
  match goal with H : flat_map expand _ = flat_map expand _ |- _ => rewrite H end. reflexivity.
Qed.

(* hints, masks and the width draw nothing *)
Lemma expand_hint : forall o, is_hint o = true -> expand o = [].
Proof. destruct o; intros H; try discriminate H; reflexivity. Qed.

Lemma flat_map_expand_filter : forall ops,
  flat_map expand (filter (fun o => negb (is_hint o)) ops) = flat_map expand ops.
Proof.
  induction ops as [|o r IH]; [reflexivity|]. cbn [filter flat_map].
  destruct (is_hint o) eqn:E; cbn [negb].
  - rewrite expand_hint by exact E. exact IH.
  - cbn [flat_map]. rewrite IH. reflexivity.
Qed.

Theorem hints_draw_nothing : forall ops,
  prog_path (filter (fun o => negb (is_hint o)) ops) = prog_path ops.
Proof. intros. unfold prog_path. rewrite flat_map_expand_filter. reflexivity. Qed.

(* ================================================================== *)
(* 7. One closed contour per moveto                                   *)
(* ================================================================== *)

Definition is_pmove (p : prim) : bool := match p with PMove _ _ => true | _ => false end.

(* no segment before the first moveto *)
Fixpoint prims_ok (moved : bool) (ps : list prim) : bool :=
  match ps with
  | [] => true
  | p :: r => (is_pmove p || moved) && prims_ok (is_pmove p || moved) r
  end.

Lemma path_contours : forall ps x y o,
  prims_ok o ps = true ->
  let '(_, _, o', c) := run_prims x y o ps in
  contours_ok o (c ++ (if o' then [Close] else [])) = true.
Proof.
  induction ps as [|p r IH]; intros x y o Hok.
  - cbn [run_prims app]. destruct o; reflexivity.
  - cbn [prims_ok] in Hok. apply andb_prop in Hok. destruct Hok as [H1 H2].
    destruct p as [dx dy|dx dy|a b c d e f]; cbn [is_pmove orb] in H1, H2; cbn [run_prims].
    + specialize (IH (x + dx) (y + dy) true H2).
      destruct (run_prims (x + dx) (y + dy) true r) as [[[xf yf] o'] c].
      destruct o; cbn [app contours_ok negb andb]; exact IH.
    + subst o. specialize (IH (x + dx) (y + dy) true H2).
      destruct (run_prims (x + dx) (y + dy) true r) as [[[xf yf] o'] c].
      cbn [app contours_ok andb]. exact IH.
    + subst o. specialize (IH (x + a + c + e) (y + b + d + f) true H2).
      destruct (run_prims (x + a + c + e) (y + b + d + f) true r) as [[[xf yf] o'] cs].
      cbn [app contours_ok andb]. exact IH.
Qed.

Lemma prims_ok_app : forall a b m,
  prims_ok m (a ++ b) = prims_ok m a && prims_ok (existsb is_pmove a || m) b.
Proof.
  induction a as [|p a IH]; intros b m; [reflexivity|].
  cbn [app prims_ok existsb]. rewrite IH.
  destruct (is_pmove p), m, (existsb is_pmove a); cbn [orb andb];
    try reflexivity; try (destruct (prims_ok true a); reflexivity).
Qed.

Lemma prims_ok_nomove : forall ps, existsb is_pmove ps = false -> prims_ok true ps = true.
Proof.
  induction ps as [|p r IH]; [reflexivity|]. cbn [existsb prims_ok]. intros H.
  apply orb_false_elim in H. destruct H as [H1 H2]. rewrite H1. cbn [orb andb]. apply IH, H2.
Qed.

Lemma nomove_map {A} (f : A -> prim) (l : list A) :
  (forall a, is_pmove (f a) = false) -> existsb is_pmove (map f l) = false.
Proof. intros H. induction l as [|a l IH]; [reflexivity|]. cbn [map existsb]. rewrite H, IH. reflexivity. Qed.

Lemma nomove_alt : forall l h, existsb is_pmove (alt_prims h l) = false.
Proof. induction l as [|d l IH]; intros h; [reflexivity|]. cbn [alt_prims existsb]. rewrite IH. destruct h; reflexivity. Qed.

Lemma nomove_hv : forall l last h, existsb is_pmove (hv_prims h l last) = false.
Proof.
  induction l as [|[[[a b] c] d] l IH]; intros last h; [reflexivity|].
  cbn [hv_prims existsb]. rewrite IH. destruct h; reflexivity.
Qed.

Lemma nomove_segment : forall o, is_move o = false -> existsb is_pmove (expand o) = false.
Proof.
  destruct o; intros Hm; try discriminate Hm; cbn [expand]; try reflexivity.
  - apply nomove_map. reflexivity.
  - apply nomove_alt.
  - apply nomove_alt.
  - apply nomove_map. intros [[[[[a b] c] d] e] f]. reflexivity.
  - destruct l as [|[[[a b] c] d] l]; [reflexivity|]. cbn [first_rest existsb hh_prim is_pmove orb].
    apply nomove_map. intros [[[a' b'] c'] d']. reflexivity.
  - destruct l as [|[[[a b] c] d] l]; [reflexivity|]. cbn [first_rest existsb vv_prim is_pmove orb].
    apply nomove_map. intros [[[a' b'] c'] d']. reflexivity.
  - apply nomove_hv.
  - apply nomove_hv.
  - rewrite existsb_app. rewrite nomove_map by (intros [[[[[a b] c] d] e] f]; reflexivity). reflexivity.
  - rewrite existsb_app. rewrite nomove_map by reflexivity.
    destruct c as [[[[[a b] c] d] e] f]. reflexivity.
  - destruct c1 as [[[[[a b] c] d] e] f]. destruct c2 as [[[[[a' b'] c'] d'] e'] f']. reflexivity.
  - destruct (Z.abs _ <? Z.abs _); reflexivity.
Qed.

Lemma ops_prims_ok : forall ops maxargs moved n,
  ops_wf maxargs moved n ops -> prims_ok moved (flat_map expand ops) = true.
Proof.
  induction ops as [|o r IH]; intros maxargs moved n Hwf; [reflexivity|].
  destruct Hwf as (_ & _ & Hm & _ & _ & Hwf'). cbn [flat_map]. rewrite prims_ok_app.
  specialize (IH _ _ _ Hwf').
  destruct (is_move o) eqn:Emv.
  - (* a moveto *)
    assert (He : exists dx dy, expand o = [PMove dx dy]).
    { destruct o; try discriminate Emv; cbn [expand]; eauto. }
    destruct He as (dx & dy & ->). cbn [prims_ok is_pmove existsb orb andb].
    rewrite orb_true_r in IH. exact IH.
  - rewrite (nomove_segment o Emv). cbn [orb]. rewrite orb_false_r in IH. rewrite IH, andb_true_r.
    destruct (is_hint o) eqn:Eh.
    + rewrite expand_hint by exact Eh. reflexivity.
    + rewrite (Hm eq_refl eq_refl). apply prims_ok_nomove, nomove_segment, Emv.
Qed.

(* the path of a well-formed program: every contour is opened by one moveto and closed once *)
Theorem one_closed_contour_per_move : forall maxargs w ops,
  prog_wf maxargs w ops -> contours_ok false (prog_path ops) = true.
Proof.
  intros maxargs w ops (Hwf & _). unfold prog_path, path_of.
  pose proof (path_contours (flat_map expand ops) 0 0 false (ops_prims_ok _ _ _ _ Hwf)) as H.
  destruct (run_prims 0 0 false (flat_map expand ops)) as [[[x y] o] c]. exact H.
Qed.

Fixpoint count_cmd (f : cmd -> bool) (c : list cmd) : nat :=
  match c with [] => O | x :: r => ((if f x then 1 else 0) + count_cmd f r)%nat end.
Definition is_moveto (c : cmd) : bool := match c with MoveTo _ _ => true | _ => false end.
Definition is_close (c : cmd) : bool := match c with Close => true | _ => false end.

Lemma contours_count : forall c o, contours_ok o c = true ->
  (count_cmd is_moveto c + (if o then 1 else 0) = count_cmd is_close c)%nat.
Proof.
  induction c as [|x r IH]; intros o H.
  - destruct o; [discriminate H|reflexivity].
  - destruct x; cbn [contours_ok] in H; apply andb_prop in H; destruct H as [H1 H2];
      cbn [count_cmd is_moveto is_close]; specialize (IH _ H2); destruct o; cbn [negb] in H1;
      try discriminate H1; cbn [Nat.add] in *; lia.
Qed.

Theorem closes_equal_moves : forall maxargs w ops, prog_wf maxargs w ops ->
  count_cmd is_close (prog_path ops) = count_cmd is_moveto (prog_path ops).
Proof.
  intros maxargs w ops H.
  pose proof (contours_count _ _ (one_closed_contour_per_move _ _ _ H)) as Hc.
  cbv iota in Hc. lia.
Qed.

(* ================================================================== *)
(* 8. Subroutine bias                                                 *)
(* ================================================================== *)

Lemma try_as_i32_int : forall k, I32_MIN <= k <= I32_MAX -> try_as_i32 (of_int k) = Some k.
Proof.
  intros k H. unfold try_as_i32, of_int, I32_MIN, I32_MAX, UNIT, SDEN in *.
  destruct (_ <=? _) eqn:E1; [|lia]. destruct (_ <? _) eqn:E2; [|lia]. cbn [andb].
  rewrite Z.quot_mul by lia. reflexivity.
Qed.

(* every subroutine of an INDEX with n entries is reachable: the biased operand of entry i decodes
   back to i, and it fits the number forms the thresholds 1240 and 33900 were chosen for *)
Theorem bias_reaches_every_subr : forall n i, 0 <= i < n -> n <= 65536 ->
  let b := calc_subroutine_bias n in
  conv_subroutine_index (of_int (i - b)) b = COk i /\
  -32768 <= i - b <= 32767 /\
  (n < 1240 -> b = 107 /\ -107 <= i - b <= 1131) /\
  (1240 <= n < 33900 -> b = 1131 /\ -1131 <= i - b <= 32767) /\
  (33900 <= n -> b = 32768).
Proof.
  intros n i Hi Hn b. subst b. unfold calc_subroutine_bias.
  destruct (n <? 1240) eqn:E1; [|destruct (n <? 33900) eqn:E2];
    (split; [unfold conv_subroutine_index; rewrite try_as_i32_int by (unfold I32_MIN, I32_MAX; lia);
             unfold I32_MAX;
             match goal with |- context [?a <? ?b] => destruct (a <? b) eqn:E3; [lia|] end;
             match goal with |- context [?a <? 0] => destruct (a <? 0) eqn:E4; [lia|] end;
             f_equal; lia
            |repeat split; intros; lia]).
Qed.

(* ================================================================== *)
(* 9. The nesting limit: the recursion budget of the model is never   *)
(*    exhausted, for any font and any charstring                      *)
(* ================================================================== *)

Ltac nf :=
  repeat first
    [ progress cbn [cbind]
    | match goal with
      | |- COk _ <> CFuel => discriminate
      | |- CErr _ <> CFuel => discriminate
      | |- CPanic <> CFuel => discriminate
      | |- (match ?x with _ => _ end) <> CFuel => destruct x
      end ].

Lemma nofuel_bind {A B} (x : cres A) (f : A -> cres B) :
  x <> CFuel -> (forall a, f a <> CFuel) -> cbind x f <> CFuel.
Proof. intros Hx Hf. destruct x; cbn [cbind]; try discriminate; [apply Hf|congruence]. Qed.

Lemma hv_curves_nofuel : forall a h x y, hv_curves h x y a <> CFuel.
Proof.
  intros a. remember (length a) as n eqn:Hn. revert a Hn.
  induction n as [n IH] using lt_wf_ind. intros a Hn h x y.
  destruct a as [|d1 [|d2 [|d3 [|d4 r]]]]; cbn [hv_curves]; try discriminate.
  assert (Hr : forall h' x' y', hv_curves h' x' y' r <> CFuel).
  { intros. apply (IH (length r)); [subst n; cbn [length]; lia|reflexivity]. }
  destruct h.
  - destruct r as [|d5 [|d6 r']]; try discriminate; (apply nofuel_bind; [apply Hr|intros [[xf yf] c]; discriminate]).
  - destruct r as [|d5 [|d6 r']]; try discriminate; (apply nofuel_bind; [apply Hr|intros [[xf yf] c]; discriminate]).
Qed.

Lemma pvisit_nofuel : forall f p a, pvisit f p a <> CFuel.
Proof.
  intros f p a. destruct f; cbn [pvisit];
    try (unfold parse_move_to, parse_horizontal_move_to, parse_vertical_move_to, parse_line_to,
           parse_horizontal_line_to, parse_vertical_line_to, parse_curve_to, parse_curve_line,
           parse_line_curve, parse_hh_curve_to, parse_vv_curve_to, parse_flex, parse_flex1,
           parse_hflex, parse_hflex1; nf; fail).
  - unfold parse_hv_curve_to, parse_hv_vh. nf.
    apply nofuel_bind; [apply hv_curves_nofuel|intros [[x y] c]; discriminate].
  - unfold parse_vh_curve_to, parse_hv_vh. nf.
    apply nofuel_bind; [apply hv_curves_nofuel|intros [[x y] c]; discriminate].
Qed.

Lemma visit_op_nofuel : forall op off s, visit_op op off s <> CFuel.
Proof.
  intros. unfold visit_op. destruct (visit_fn op); [|discriminate].
  apply nofuel_bind; [apply pvisit_nofuel|intros [p' c]; discriminate].
Qed.

Lemma push_nofuel : forall e v s, push e v s <> CFuel.
Proof. intros. unfold push. nf. Qed.
Lemma pop_nofuel : forall s, pop s <> CFuel.
Proof. intros. unfold pop. nf. Qed.
Lemma add_u32_nofuel : forall m a b, add_u32 m a b <> CFuel.
Proof. intros. unfold add_u32. nf. Qed.
Lemma conv_nofuel : forall v b, conv_subroutine_index v b <> CFuel.
Proof. intros. unfold conv_subroutine_index. nf. Qed.

Lemma push_all_nofuel : forall e vs s, push_all e vs s <> CFuel.
Proof.
  induction vs as [|v r IH]; intros s; cbn [push_all]; [discriminate|].
  apply nofuel_bind; [apply push_nofuel|apply IH].
Qed.

Lemma blend_nofuel : forall e sc s, blend e sc s <> CFuel.
Proof.
  intros. unfold blend. destruct (stk s); [discriminate|].
  apply nofuel_bind; [apply pop_nofuel|intros [nv s1]].
  destruct (try_as_u16 nv); [|discriminate]. nf. apply push_all_nofuel.
Qed.

Lemma blend_scalars_nofuel : forall e s, blend_scalars e s <> CFuel.
Proof.
  intros. unfold blend_scalars. destruct (scal s); [discriminate|].
  apply nofuel_bind; [nf|intros vi; nf].
Qed.

Lemma add_u16_nofuel : forall m a b, add_u16 m a b <> CFuel.
Proof. intros. unfold add_u16. nf. Qed.

Lemma gid_for_sid_in_ranges_nofuel : forall m ranges sid gid,
  gid_for_sid_in_ranges m ranges sid gid <> CFuel.
Proof.
  intros m ranges sid. induction ranges as [|[first n_left] r IH]; intros gid;
    cbn [gid_for_sid_in_ranges]; [discriminate|].
  destruct (charset_range_hit first n_left sid); [discriminate|].
  destruct (gid + charset_range_skip n_left <? U32); [apply IH|discriminate].
Qed.

Lemma charset_sid_to_gid_nofuel : forall m cs sid, charset_sid_to_gid m cs sid <> CFuel.
Proof.
  intros. unfold charset_sid_to_gid. destruct (sid =? 0); [discriminate|].
  destruct cs; try discriminate. apply gid_for_sid_in_ranges_nofuel.
Qed.

Lemma seac_gid_nofuel : forall e v, seac_gid e v <> CFuel.
Proof.
  intros. unfold seac_gid. destruct (try_as_u8 v); [|discriminate].
  unfold seac_code_to_gid. destruct (e_charset e); try discriminate;
    apply charset_sid_to_gid_nofuel.
Qed.

Lemma step_nofuel : forall rec k e d op r s,
  (forall cs s', d <> STACK_LIMIT -> rec (d + 1) cs s' <> CFuel) ->
  (forall b s', (length b <= length r)%nat -> k b s' <> CFuel) ->
  step rec k e d op r s <> CFuel.
Proof.
  intros rec k e d op r s Hrec Hk.
  assert (Hr : forall s', k r s' <> CFuel) by (intros; apply Hk; lia).
  assert (Hcall : forall subrs, step_call rec k d subrs r s <> CFuel).
  { intros subrs. unfold step_call. destruct (stk s); [discriminate|].
    destruct (Z.eqb_spec d STACK_LIMIT) as [|Hd]; [discriminate|].
    destruct subrs as [subrs|]; [|discriminate].
    apply nofuel_bind; [apply pop_nofuel|intros [v s1]].
    apply nofuel_bind; [apply conv_nofuel|intros idx].
    destruct (nth_opt subrs idx); [|discriminate].
    apply nofuel_bind; [apply Hrec, Hd|intros s2].
    unfold after_call. nf. apply Hr. }
  unfold step. destruct (classify op); try discriminate; try apply Hcall.
  - unfold step_stem. destruct (stem_count s) as [cnt w].
    apply nofuel_bind; [apply add_u32_nofuel|intros st].
    apply nofuel_bind; [apply visit_op_nofuel|intros s1]. apply Hr.
  - unfold step_move. destruct (move_offset s 2) as [off w].
    apply nofuel_bind; [apply visit_op_nofuel|intros s1]. apply Hr.
  - unfold step_simple. apply nofuel_bind; [apply visit_op_nofuel|intros s1]. apply Hr.
  - destruct (e_kind e); [apply visit_op_nofuel|discriminate].
  - unfold step_escape. destruct r as [|op2 r2]; [discriminate|].
    destruct (is_flex_op op2); [|discriminate].
    apply nofuel_bind; [apply visit_op_nofuel|intros s1]. apply Hk. cbn [length]. lia.
  - unfold step_endchar. destruct (e_kind e); [|discriminate].
    apply nofuel_bind.
    + destruct (_ || _).
      * unfold step_seac. destruct (Z.eqb_spec d STACK_LIMIT) as [|Hd]; [discriminate|].
        apply nofuel_bind; [apply pop_nofuel|intros [av s1]].
        apply nofuel_bind; [apply seac_gid_nofuel|intros [accent|]]; [|discriminate].
        apply nofuel_bind; [apply pop_nofuel|intros [bv s2]].
        apply nofuel_bind; [apply seac_gid_nofuel|intros [base|]]; [|discriminate].
        apply nofuel_bind; [apply pop_nofuel|intros [dy s3]].
        apply nofuel_bind; [apply pop_nofuel|intros [dx s4]].
        apply nofuel_bind.
        { destruct (_ && _); [|discriminate].
          apply nofuel_bind; [apply pop_nofuel|intros [v s5]; discriminate]. }
        intros s5. destruct (nth_opt (e_glyphs e) base); [|discriminate].
        apply nofuel_bind; [apply Hrec, Hd|intros s6].
        destruct (nth_opt (e_glyphs e) accent); [|discriminate]. apply Hrec, Hd.
      * destruct (_ && _); [|discriminate].
        apply nofuel_bind; [apply pop_nofuel|intros [v s1]; discriminate].
    + intros s3. destruct r; [apply visit_op_nofuel|discriminate].
  - unfold step_vsindex. destruct (e_kind e); [discriminate|]. destruct (vsidx s); [discriminate|].
    destruct (negb _); [discriminate|].
    apply nofuel_bind; [apply visit_op_nofuel|intros s1].
    apply nofuel_bind; [apply pop_nofuel|intros [v s2]].
    destruct (try_as_u16 v); [apply Hr|discriminate].
  - unfold step_blend. destruct (e_kind e); [discriminate|]. destruct (negb _); [discriminate|].
    destruct (stk s); [discriminate|].
    apply nofuel_bind; [apply visit_op_nofuel|intros s1].
    apply nofuel_bind; [apply blend_scalars_nofuel|intros [sc s2]].
    apply nofuel_bind; [apply blend_nofuel|intros s3]. apply Hr.
  - unfold step_mask. destruct (stem_count s) as [cnt w].
    apply nofuel_bind; [apply visit_op_nofuel|intros s1].
    apply nofuel_bind; [apply add_u32_nofuel|intros st].
    apply nofuel_bind; [apply add_u32_nofuel|intros st7].
    destruct (_ <? _); [discriminate|]. apply Hk. apply length_drop_le.
  - unfold step_move. destruct (move_offset s 3) as [off w].
    apply nofuel_bind; [apply visit_op_nofuel|intros s1]. apply Hr.
  - unfold step_move. destruct (move_offset s 2) as [off w].
    apply nofuel_bind; [apply visit_op_nofuel|intros s1]. apply Hr.
  - unfold step_shortint. destruct r as [|b1 [|b2 r2]]; try discriminate.
    apply nofuel_bind; [apply push_nofuel|intros s1]. apply Hk. cbn [length]. lia.
  - unfold step_int1. apply nofuel_bind; [apply push_nofuel|intros s1]. apply Hr.
  - unfold step_int2, step_int23. destruct r as [|b1 r2]; [discriminate|].
    assert (Hr2 : forall s', k r2 s' <> CFuel) by (intros; apply Hk; cbn [length]; lia).
    destruct (e_mode e); [destruct (_ && _); [|discriminate]|];
      (apply nofuel_bind; [apply push_nofuel|intros s1; apply Hr2]).
  - unfold step_int3, step_int23. destruct r as [|b1 r2]; [discriminate|].
    assert (Hr2 : forall s', k r2 s' <> CFuel) by (intros; apply Hk; cbn [length]; lia).
    destruct (e_mode e); [destruct (_ && _); [|discriminate]|];
      (apply nofuel_bind; [apply push_nofuel|intros s1; apply Hr2]).
  - unfold step_fixed. destruct r as [|b1 [|b2 [|b3 [|b4 r2]]]]; try discriminate.
    apply nofuel_bind; [apply push_nofuel|intros s1]. apply Hk. cbn [length]. lia.
Qed.

Lemma loop_nofuel : forall rec e d,
  (forall cs s', d <> STACK_LIMIT -> rec (d + 1) cs s' <> CFuel) ->
  forall n b s, (length b <= n)%nat -> loop rec e d n b s <> CFuel.
Proof.
  intros rec e d Hrec. induction n as [|n IH]; intros b s Hn.
  - destruct b; [discriminate|cbn [length] in Hn; lia].
  - destruct b as [|op r]; [discriminate|]. cbn [loop]. apply step_nofuel; [exact Hrec|].
    intros b' s' Hb. apply IH. cbn [length] in Hn. lia.
Qed.

(* with df > STACK_LIMIT - depth activations available, visit_impl never needs more *)
Lemma run_nofuel : forall df e d cs s,
  0 <= d <= STACK_LIMIT -> STACK_LIMIT - d < Z.of_nat df -> run df e d cs s <> CFuel.
Proof.
  induction df as [|df IH]; intros e d cs s Hd Hf; [lia|].
  cbn [run]. apply loop_nofuel; [|lia].
  intros cs' s' Hne. apply IH; lia.
Qed.

(* for every font, glyph and build mode: the interpretation terminates within the nesting limit *)
Theorem nesting_limit_enforced : forall e, interp_glyph e <> CFuel /\ run_glyph e <> CFuel.
Proof.
  intros e.
  assert (H : interp_glyph e <> CFuel).
  { unfold interp_glyph.
    destruct (e_kind e);
      (destruct (match glyph_fd e with Some fd => nth_opt (e_fds e) fd | None => None end); try discriminate);
      (destruct (nth_opt (e_glyphs e) (e_gid e)); [|discriminate]);
      (apply nofuel_bind; [apply run_nofuel; unfold STACK_LIMIT, DEPTH_FUEL; lia|intros s; nf]). }
  split; [exact H|]. unfold run_glyph. apply nofuel_bind; [exact H|intros s; nf].
Qed.

(* a call at the limit is refused, whatever the subroutine is *)
Theorem call_at_limit_refused : forall rec k subrs r s v rest,
  stk s = v :: rest ->
  step_call rec k STACK_LIMIT subrs r s = CErr ENestingLimitReached.
Proof. intros rec k subrs r s v rest H. unfold step_call. rewrite H. reflexivity. Qed.

(* ================================================================== *)
(* 10. Subroutines: a call behaves as the inlined body                *)
(* ================================================================== *)

(* the bytes `a` are executed completely (no return/endchar break inside) and lead from s to s' *)
Definition normal (df : nat) (e : env) (d : Z) (a : list Z) (s s' : ist) : Prop :=
  forall rest, run df e d (a ++ rest) s = run df e d rest s'.

Lemma normal_nil : forall df e d s, normal df e d [] s s.
Proof. intros df e d s rest. reflexivity. Qed.

Lemma normal_app : forall df e d a b s1 s2 s3,
  normal df e d a s1 s2 -> normal df e d b s2 s3 -> normal df e d (a ++ b) s1 s3.
Proof. intros df e d a b s1 s2 s3 Ha Hb rest. rewrite <- app_assoc, Ha, Hb. reflexivity. Qed.

Lemma normal_num : forall df e d bs v s,
  encodes bs v -> len (stk s) < max_stack e ->
  normal (S df) e d bs s (set_stk s (stk s ++ [v])).
Proof.
  intros df e d bs v s Henc Hroom rest. rewrite (run_num bs v Henc). unfold push.
  destruct (len (stk s) =? max_stack e) eqn:E; [lia|]. reflexivity.
Qed.

Lemma normal_ops : forall ops body, enc_ops ops body ->
  forall df e d w n ec sk vi sc p c0,
  ops_wf (max_stack e) (has_move p) n ops -> 0 <= n -> max_stack e <= TEMP_OPERANDS ->
  normal (S df) e d body (mkI [] w n ec sk vi sc p c0)
    (mkI [] w (snd (fst (ops_eff ops p n))) ec sk vi sc (fst (fst (ops_eff ops p n)))
         (c0 ++ snd (ops_eff ops p n))).
Proof. intros ops body Henc df e d w n ec sk vi sc p c0 Hwf Hn Ht rest. apply run_ops; assumption. Qed.

Lemma pop_push : forall s v, pop (set_stk s (stk s ++ [v])) = COk (v, s).
Proof.
  intros [k0 w0 n0 ec0 sk0 vi0 sc0 p0 c0] v. unfold pop, set_stk. cbn [stk].
  destruct (k0 ++ [v]) eqn:E; [destruct k0; discriminate E|]. rewrite <- E.
  rewrite last_last, removelast_last. reflexivity.
Qed.

Lemma set_ps_nil : forall s, set_ps s (ps s) [] = s.
Proof. intros [k0 w0 n0 ec0 sk0 vi0 sc0 p0 c0]. unfold set_ps. cbn. rewrite app_nil_r. reflexivity. Qed.

(* which INDEX an operator byte calls into *)
Definition call_target (e : env) (opb : Z) : option (list (list Z)) :=
  if opb =? 10 then local_subrs e else if opb =? 29 then Some (e_gsubrs e) else None.

(* A call -- biased index operand in any encoding, then callsubr / callgsubr -- is executed as a
   block that takes the state to wherever the subroutine's body takes it one level deeper.
   `ret` is the optional trailing return. *)
Theorem call_normal : forall df e d opb subrs idx nb body ret s1 s2,
  0 <= d < STACK_LIMIT -> (opb = 10 \/ opb = 29) ->
  call_target e opb = Some subrs ->
  0 <= idx < len subrs -> len subrs <= 65536 ->
  nth_opt subrs idx = Some (body ++ ret) ->
  (ret = [] \/ (ret = [11] /\ e_kind e = KCFF)) ->
  encodes nb (of_int (idx - calc_subroutine_bias (len subrs))) ->
  len (stk s1) < max_stack e ->
  normal (S df) e (d + 1) body s1 s2 ->
  endchar_seen s2 = false ->
  normal (S (S df)) e d (nb ++ [opb]) s1 s2.
Proof.
  intros df e d opb subrs idx nb body ret s1 s2 Hd Hop Htgt Hidx Hn Hsub Hret Henc Hroom Hbody Hec rest.
  rewrite <- app_assoc. rewrite (run_num nb _ Henc). unfold push.
  destruct (len (stk s1) =? max_stack e) eqn:E; [lia|]. cbn [cbind app].
  rewrite run_cons. unfold step.
  assert (Hstep : step_call (run (S df) e) (run (S (S df)) e d) d (Some subrs) rest
                    (set_stk s1 (stk s1 ++ [of_int (idx - calc_subroutine_bias (len subrs))])) =
                  run (S (S df)) e d rest s2).
  { unfold step_call.
    destruct (stk (set_stk s1 (stk s1 ++ [of_int (idx - calc_subroutine_bias (len subrs))]))) eqn:Ek.
    { destruct s1 as [k0 w0 n0 ec0 sk0 vi0 sc0 p0 c0]. cbn [set_stk stk] in Ek.
      destruct k0; discriminate Ek. }
    clear Ek. destruct (Z.eqb_spec d STACK_LIMIT) as [|_]; [lia|].
    rewrite pop_push. cbn [cbind].
    destruct (bias_reaches_every_subr (len subrs) idx Hidx Hn) as (Hconv & _). rewrite Hconv.
    cbn [cbind]. rewrite Hsub.
    rewrite (Hbody ret).
    assert (Hr : run (S df) e (d + 1) ret s2 = COk s2).
    { destruct Hret as [->|[-> Hk]]; [reflexivity|].
      rewrite run_cons. unfold step. change (classify 11) with KReturn. rewrite Hk.
      unfold visit_op. change (visit_fn 11) with (Some F_ok). cbn [pvisit cbind].
      rewrite set_ps_nil. reflexivity. }
    rewrite Hr. cbn [cbind]. unfold after_call. rewrite Hec. reflexivity. }
  destruct Hop as [-> | ->].
  - change (classify 10) with KCallL. unfold call_target in Htgt. cbn [Z.eqb Pos.eqb] in Htgt.
    rewrite Htgt. exact Hstep.
  - change (classify 29) with KCallG. unfold call_target in Htgt. cbn [Z.eqb Pos.eqb] in Htgt.
    injection Htgt as <-. exact Hstep.
Qed.

Lemma ops_eff_app : forall a b p n,
  ops_eff (a ++ b) p n =
  (fst (fst (ops_eff b (fst (fst (ops_eff a p n))) (snd (fst (ops_eff a p n))))),
   snd (fst (ops_eff b (fst (fst (ops_eff a p n))) (snd (fst (ops_eff a p n))))),
   snd (ops_eff a p n) ++ snd (ops_eff b (fst (fst (ops_eff a p n))) (snd (fst (ops_eff a p n))))).
Proof.
  induction a as [|o a IH]; intros b p n.
  - cbn [app ops_eff fst snd]. destruct (ops_eff b p n) as [[pf nf] cf]. reflexivity.
  - cbn [app ops_eff]. rewrite IH.
    destruct (ops_eff a (fst (spec_eff o p)) (n + stems_of o)) as [[p1 n1] c1]. cbn [fst snd].
    destruct (ops_eff b p1 n1) as [[p2 n2] c2]. cbn [fst snd]. rewrite app_assoc. reflexivity.
Qed.

Lemma ops_wf_app : forall a b maxargs p n,
  ops_wf maxargs (has_move p) n (a ++ b) ->
  ops_wf maxargs (has_move p) n a /\
  ops_wf maxargs (has_move (fst (fst (ops_eff a p n)))) (snd (fst (ops_eff a p n))) b.
Proof.
  induction a as [|o a IH]; intros b maxargs p n H.
  - cbn [app ops_eff fst snd] in *. split; [exact I|exact H].
  - cbn [app] in H. destruct H as (H1 & H2 & H3 & H4 & H5 & H6).
    rewrite <- (spec_eff_has_move o p) in H6. apply IH in H6. destruct H6 as [Ha Hb].
    split.
    + cbn [ops_wf]. rewrite <- (spec_eff_has_move o p). auto 10.
    + cbn [ops_eff]. destruct (ops_eff a (fst (spec_eff o p)) (n + stems_of o)) as [[p1 n1] c1].
      exact Hb.
Qed.

Lemma ops_eff_nonneg : forall a p n, 0 <= n -> 0 <= snd (fst (ops_eff a p n)).
Proof.
  induction a as [|o a IH]; intros p n Hn; [exact Hn|].
  cbn [ops_eff]. specialize (IH (fst (spec_eff o p)) (n + stems_of o)).
  destruct (ops_eff a (fst (spec_eff o p)) (n + stems_of o)) as [[p1 n1] c1]. cbn [fst snd] in *.
  apply IH. pose proof (stems_of_nonneg o). lia.
Qed.

(* A well-formed program whose middle part B was moved into a local or global subroutine (any
   INDEX size up to 65536, index operand in any encoding, with or without a trailing return)
   draws the path of the unfactored program A ++ B ++ C. *)
Theorem factored_program_spec : forall e A B C bodyA bodyB bodyC opb subrs idx nb ret,
  e_kind e = KCFF ->
  enc_ops A bodyA -> enc_ops B bodyB -> enc_ops C bodyC ->
  prog_wf CFF_MAX_OPERANDS None (A ++ B ++ C) ->
  (opb = 10 \/ opb = 29) -> call_target e opb = Some subrs ->
  0 <= idx < len subrs -> len subrs <= 65536 ->
  nth_opt subrs idx = Some (bodyB ++ ret) -> (ret = [] \/ ret = [11]) ->
  encodes nb (of_int (idx - calc_subroutine_bias (len subrs))) ->
  nth_opt (e_glyphs e) (e_gid e) = Some (bodyA ++ (nb ++ [opb]) ++ bodyC ++ [14]) ->
  exists s, interp_glyph e = COk s /\ out s = prog_path (A ++ B ++ C).
Proof.
  intros e A B C bodyA bodyB bodyC opb subrs idx nb ret Hk HA HB HC (Hwf & _) Hop Htgt Hidx Hn Hsub
         Hret Henc Hg.
  assert (Hmax : max_stack e = CFF_MAX_OPERANDS) by (unfold max_stack; rewrite Hk; reflexivity).
  assert (Ht : max_stack e <= TEMP_OPERANDS) by (rewrite Hmax; vm_compute; congruence).
  rewrite <- Hmax in Hwf. change false with (has_move pst0) in Hwf.
  apply ops_wf_app in Hwf. destruct Hwf as [HwA HwBC].
  apply ops_wf_app in HwBC. destruct HwBC as [HwB HwC].
  pose proof (ops_eff_nonneg A pst0 0 ltac:(lia)) as HnA.
  pose proof (ops_eff_nonneg B (fst (fst (ops_eff A pst0 0))) _ HnA) as HnB.
  unfold interp_glyph. rewrite Hk, Hg. unfold DEPTH_FUEL, ist0.
  (* A *)
  rewrite (normal_ops A bodyA HA 11 e 0) by (assumption || lia).
  (* the call = B one level deeper *)
  pose proof (normal_ops B bodyB HB 10 e (0 + 1) false (snd (fst (ops_eff A pst0 0))) false false
                None None (fst (fst (ops_eff A pst0 0))) ([] ++ snd (ops_eff A pst0 0)) HwB HnA Ht)
    as HBn.
  assert (Hret' : ret = [] \/ ret = [11] /\ e_kind e = KCFF)
    by (destruct Hret as [->| ->]; [left; reflexivity|right; split; [reflexivity|exact Hk]]).
  assert (Hd : 0 <= 0 < STACK_LIMIT) by (unfold STACK_LIMIT; lia).
  match type of HBn with normal _ _ _ _ ?sA ?sB =>
    assert (Hroom : len (stk sA) < max_stack e)
      by (cbn [stk]; change (len []) with 0; rewrite Hmax; vm_compute; reflexivity);
    pose proof (call_normal 10 e 0 opb subrs idx nb bodyB ret sA sB Hd Hop Htgt Hidx Hn Hsub Hret'
                  Henc Hroom HBn eq_refl) as Hcall
  end.
  rewrite Hcall.
  (* C, then endchar *)
  rewrite (run_ops C bodyC HC) by (assumption || lia).
  rewrite run_endchar by exact Hk. cbn [cbind].
  eexists; split; [reflexivity|]. cbn [out app].
  rewrite <- ops_eff_path. rewrite !ops_eff_app. cbn [fst snd].
  unfold parse_endchar. rewrite <- !app_assoc.
  destruct (first_move _); reflexivity.
Qed.

(* ================================================================== *)
(* 11. CFF2 blend (partial: the operator itself, scalars given)       *)
(* ================================================================== *)

Lemma push_all_ok : forall e vs s, len (stk s) + len vs <= max_stack e ->
  push_all e vs s = COk (set_stk s (stk s ++ vs)).
Proof.
  induction vs as [|v r IH]; intros s H.
  - cbn [push_all]. rewrite app_nil_r, set_stk_id. reflexivity.
  - cbn [push_all]. unfold push. rewrite len_cons in H. pose proof (len_nonneg r).
    destruct (len (stk s) =? max_stack e) eqn:E; [lia|]. cbn [cbind]. rewrite IH.
    + destruct s as [k0 w0 n0 ec0 sk0 vi0 sc0 p0 c0]. cbn [set_stk stk]. rewrite <- app_assoc. reflexivity.
    + destruct s as [k0 w0 n0 ec0 sk0 vi0 sc0 p0 c0]. cbn [set_stk stk] in *.
      rewrite len_app. change (len [v]) with 1. lia.
Qed.

Lemma skipn_nil' {A} (n : nat) : skipn n (@nil A) = [].
Proof. destruct n; reflexivity. Qed.
Lemma firstn_nil' {A} (n : nat) : firstn n (@nil A) = [].
Proof. destruct n; reflexivity. Qed.
Lemma dot_nil : forall sc, dot sc [] = 0.
Proof. destruct sc; reflexivity. Qed.

(* i-th blended value = i-th default + sum over the regions of scalar * (i-th group of k deltas) *)
Lemma blend_vals_nth : forall defaults k sc rest i, (i < length defaults)%nat ->
  nth i (blend_vals k sc defaults rest) 0 =
  nth i defaults 0 + dot sc (firstn k (skipn (i * k) rest)).
Proof.
  induction defaults as [|d ds IH]; intros k sc rest i Hi; [cbn [length] in Hi; lia|].
  cbn [blend_vals]. destruct i as [|i].
  - cbn [Nat.mul skipn]. destruct rest; cbn [nth]; [rewrite firstn_nil', dot_nil; lia|reflexivity].
  - cbn [length] in Hi. destruct rest as [|r0 rest'].
    + cbn [nth]. rewrite IH by lia. rewrite !skipn_nil'. reflexivity.
    + cbn [nth]. rewrite IH by lia. rewrite skipn_skipn'.
      replace (i * k + k)%nat with (S i * k)%nat by (cbn [Nat.mul]; lia). reflexivity.
Qed.

Lemma blend_vals_length : forall defaults k sc rest,
  length (blend_vals k sc defaults rest) = length defaults.
Proof.
  induction defaults as [|d ds IH]; intros k sc rest; [reflexivity|].
  cbn [blend_vals]. destruct rest; cbn [length]; rewrite IH; reflexivity.
Qed.

Lemma max_stack_le : forall e, max_stack e <= CFF2_MAX_OPERANDS.
Proof. intros e. unfold max_stack. destruct (e_kind e); vm_compute; congruence. Qed.

(* The blend operator: n defaults, n groups of k deltas and n on the stack are replaced by the n
   blended values (above whatever was below them). *)
Lemma match_nonempty {A B} (l : list A) (a b : B) :
  l <> [] -> match l with [] => a | _ :: _ => b end = b.
Proof. destruct l; [congruence|reflexivity]. Qed.

Theorem blend_spec : forall e sc s base defaults deltas nv n,
  stk s = base ++ defaults ++ deltas ++ [nv] ->
  try_as_u16 nv = Some n -> len defaults = n -> len deltas = n * len sc ->
  len base + n <= max_stack e ->
  blend e sc s =
  COk (set_stk s (base ++ blend_vals (Z.to_nat (len sc)) sc defaults deltas)).
Proof.
  intros e sc s base defaults deltas nv n Hstk Hn Hd Hdl Hroom.
  unfold blend.
  assert (Hpop : pop s = COk (nv, set_stk s (base ++ defaults ++ deltas))).
  { replace s with (set_stk (set_stk s (base ++ defaults ++ deltas))
                            (stk (set_stk s (base ++ defaults ++ deltas)) ++ [nv])) at 1.
    - apply pop_push.
    - destruct s as [k0 w0 n0 ec0 sk0 vi0 sc0 p0 c0]. cbn [set_stk stk] in *. subst k0.
      rewrite <- !app_assoc. reflexivity. }
  rewrite match_nonempty.
  2:{ rewrite Hstk. destruct base; [destruct defaults; [destruct deltas|]|]; discriminate. }
  rewrite Hpop. cbn [cbind]. rewrite Hn.
  pose proof (len_nonneg base). pose proof (len_nonneg defaults). pose proof (len_nonneg deltas).
  pose proof (max_stack_le e).
  destruct s as [k0 w0 n0 ec0 sk0 vi0 sc0 p0 c0]. cbn [set_stk stk] in *. clear Hpop.
  rewrite !len_app, Hd, Hdl.
  destruct (len base + (n + n * len sc) <? n * (len sc + 1)) eqn:E1; [lia|].
  destruct (CFF2_MAX_OPERANDS <? n) eqn:E2; [lia|].
  replace (len base + (n + n * len sc) - n * (len sc + 1)) with (len base) by lia.
  rewrite take_app_len, drop_app_len. rewrite <- Hd. rewrite take_app_len, drop_app_len.
  rewrite push_all_ok.
  - cbn [set_stk stk]. reflexivity.
  - cbn [set_stk stk].
    replace (len (blend_vals (Z.to_nat (len sc)) sc defaults deltas)) with (len defaults)
      by (unfold len; rewrite blend_vals_length; reflexivity).
    lia.
Qed.

(* k = 0: an ItemVariationData that lists no regions.  There are no deltas; the n defaults stay. *)
Lemma blend_vals_no_scalars : forall defaults k rest, blend_vals k [] defaults rest = defaults.
Proof.
  induction defaults as [|d ds IH]; intros k rest; [reflexivity|].
  cbn [blend_vals]. destruct rest as [|r0 rest'].
  - rewrite IH. reflexivity.
  - rewrite IH. cbn [dot]. f_equal. lia.
Qed.

Theorem blend_no_regions : forall e s base defaults nv,
  stk s = base ++ defaults ++ [nv] ->
  try_as_u16 nv = Some (len defaults) ->
  len base + len defaults <= max_stack e ->
  blend e [] s = COk (set_stk s (base ++ defaults)).
Proof.
  intros e s base defaults nv Hstk Hn Hroom.
  rewrite (blend_spec e [] s base defaults [] nv (len defaults)).
  - rewrite blend_vals_no_scalars. reflexivity.
  - exact Hstk.
  - exact Hn.
  - reflexivity.
  - change (len (@nil (option Z))) with 0. change (len (@nil Z)) with 0. lia.
  - exact Hroom.
Qed.

(* with 16.16 operands (multiples of 2^-16) the weighted sum is exact: no rounding in `dot` *)
Fixpoint dot_exact (scalars : list (option Z)) (deltas : list Z) : Z :=
  match scalars, deltas with
  | sc :: ss, d :: ds => (match sc with Some k => k * d | None => 0 end) + dot_exact ss ds
  | _, _ => 0
  end.

Lemma dot_is_exact : forall sc ds, Forall (fun d => d mod SDEN = 0) ds ->
  dot sc ds * SDEN = dot_exact sc ds.
Proof.
  induction sc as [|k sc IH]; intros ds H; [reflexivity|].
  destruct ds as [|d ds]; [reflexivity|]. inversion H as [|? ? Hd Hds]; subst.
  cbn [dot dot_exact]. rewrite Z.mul_add_distr_r, IH by exact Hds. f_equal.
  destruct k as [k|]; [|reflexivity].
  unfold SDEN in *. assert (Hm : (k * d) mod 4294967296 = 0).
  { rewrite <- Z.mul_mod_idemp_r by lia. rewrite Hd, Z.mul_0_r. reflexivity. }
  lia.
Qed.

(* ================================================================== *)
(* 12. Equivalent operator forms and number encodings                 *)
(* ================================================================== *)

(* every operator can be rewritten with rmoveto / rlineto / rrcurveto only *)
Definition prim_sop (p : prim) : sop :=
  match p with
  | PMove dx dy => SRMove dx dy
  | PLine dx dy => SRLine [(dx, dy)]
  | PCurve a b c d e f => SRRCurve [(a, b, c, d, e, f)]
  end.
Definition canon (o : sop) : list sop := map prim_sop (expand o).

Lemma expand_prim_sop : forall ps, flat_map expand (map prim_sop ps) = ps.
Proof.
  induction ps as [|p r IH]; [reflexivity|]. cbn [map flat_map]. rewrite IH.
  destruct p; reflexivity.
Qed.

Theorem operator_forms_equal : forall ops,
  prog_path (flat_map canon ops) = prog_path ops.
Proof.
  intros ops. unfold prog_path. f_equal.
  induction ops as [|o r IH]; [reflexivity|].
  cbn [flat_map]. rewrite flat_map_app, IH. unfold canon. rewrite expand_prim_sop. reflexivity.
Qed.

(* instances the property text names *)
Lemma hlineto_alternates : forall a b c,
  expand (SHLine [a; b; c]) = expand (SRLine [(a, 0); (0, b); (c, 0)]).
Proof. reflexivity. Qed.
Lemma vlineto_alternates : forall a b c,
  expand (SVLine [a; b; c]) = expand (SRLine [(0, a); (b, 0); (0, c)]).
Proof. reflexivity. Qed.
Lemma hhcurveto_odd_leading : forall dy1 a b c d a' b' c' d',
  expand (SHHCurve (Some dy1) [(a, b, c, d); (a', b', c', d')]) =
  expand (SRRCurve [(a, dy1, b, c, d, 0); (a', 0, b', c', d', 0)]).
Proof. reflexivity. Qed.
Lemma vvcurveto_odd_leading : forall dx1 a b c d,
  expand (SVVCurve (Some dx1) [(a, b, c, d)]) = expand (SRRCurve [(dx1, a, b, c, 0, d)]).
Proof. reflexivity. Qed.
Lemma hvcurveto_alternating_tail : forall a b c d a' b' c' d' f,
  expand (SHVCurve [(a, b, c, d); (a', b', c', d')] (Some f)) =
  expand (SRRCurve [(a, 0, b, c, 0, d); (0, a', b', c', d', f)]).
Proof. reflexivity. Qed.
Lemma vhcurveto_alternating_tail : forall a b c d a' b' c' d' f,
  expand (SVHCurve [(a, b, c, d); (a', b', c', d')] (Some f)) =
  expand (SRRCurve [(0, a, b, c, d, 0); (a', 0, b', c', f, d')]).
Proof. reflexivity. Qed.
Lemma rcurveline_splits : forall l dx dy,
  expand (SRCurveLine l dx dy) = expand (SRRCurve l) ++ expand (SRLine [(dx, dy)]).
Proof. reflexivity. Qed.
Lemma rlinecurve_splits : forall l c,
  expand (SRLineCurve l c) = expand (SRLine l) ++ expand (SRRCurve [c]).
Proof. reflexivity. Qed.
Lemma flex_is_two_curves : forall c1 c2 fd, expand (SFlex c1 c2 fd) = expand (SRRCurve [c1; c2]).
Proof. reflexivity. Qed.

(* all encodings of a number are interchangeable in any charstring, at any point *)
Theorem number_encodings_equal : forall b1 b2 v, encodes b1 v -> encodes b2 v ->
  forall df e d rest s,
  run (S df) e d (b1 ++ rest) s = run (S df) e d (b2 ++ rest) s.
Proof.
  intros b1 b2 v H1 H2 df e d rest s.
  rewrite (run_num b1 v H1), (run_num b2 v H2). reflexivity.
Qed.

(* the width operand does not influence the outline *)
Theorem width_prefix_ignored : forall e1 e2 w1 w2 ops wb1 wb2 body1 body2,
  e_kind e1 = KCFF -> e_kind e2 = KCFF ->
  nth_opt (e_glyphs e1) (e_gid e1) = Some (wb1 ++ body1 ++ [14]) ->
  nth_opt (e_glyphs e2) (e_gid e2) = Some (wb2 ++ body2 ++ [14]) ->
  enc_width w1 wb1 -> enc_width w2 wb2 -> enc_ops ops body1 -> enc_ops ops body2 ->
  prog_wf CFF_MAX_OPERANDS w1 ops -> prog_wf CFF_MAX_OPERANDS w2 ops ->
  run_glyph e1 = run_glyph e2.
Proof. intros. eapply equivalent_programs_cff; eauto. Qed.
