(* Proofs/Type2Proofs.v -- lemmas for C18 (Type 2 charstring interpretation). *)
From AV Require Import Base.Prelude Base.Lemmas Gen.Type2Consts Model.Type2 Model.Type2Spec.
From Coq Require Import ZifyBool ZifyNat.
Ltac Zify.zify_post_hook ::= Z.div_mod_to_equations.
Open Scope Z_scope.

(* ================================================================== *)
(* 1. Operator level: every parse function equals the fold of the     *)
(*    primitives of the operator's expansion.                         *)
(* ================================================================== *)

Definition op_fn (o : sop) : pfn :=
  match o with
  | SRMove _ _ => F_parse_move_to | SHMove _ => F_parse_horizontal_move_to
  | SVMove _ => F_parse_vertical_move_to
  | SRLine _ => F_parse_line_to | SHLine _ => F_parse_horizontal_line_to
  | SVLine _ => F_parse_vertical_line_to
  | SRRCurve _ => F_parse_curve_to
  | SHHCurve _ _ => F_parse_hh_curve_to | SVVCurve _ _ => F_parse_vv_curve_to
  | SHVCurve _ _ => F_parse_hv_curve_to | SVHCurve _ _ => F_parse_vh_curve_to
  | SRCurveLine _ _ _ => F_parse_curve_line | SRLineCurve _ _ => F_parse_line_curve
  | SFlex _ _ _ => F_parse_flex | SHFlex _ _ _ _ _ _ _ => F_parse_hflex
  | SHFlex1 _ _ _ _ _ _ _ _ _ => F_parse_hflex1 | SFlex1 _ _ _ _ _ _ _ _ _ _ _ => F_parse_flex1
  | SHStem _ | SVStem _ | SHStemHM _ | SVStemHM _ | SHintMask _ _ | SCntrMask _ _ => F_ok
  end.

(* the byte that selects the visitor arm (the second byte for the escaped flex operators) *)
Definition op_byte (o : sop) : Z := last (match opbytes o with
  | 19 :: _ => [19] | 20 :: _ => [20] | l => l end) 0.

Lemma visit_fn_op : forall o, visit_fn (op_byte o) = Some (op_fn o).
Proof. destruct o; reflexivity. Qed.

(* --- run_prims facts --- *)
Lemma run_prims_app : forall a b x y o,
  run_prims x y o (a ++ b) =
  let '(x1, y1, o1, c1) := run_prims x y o a in
  let '(x2, y2, o2, c2) := run_prims x1 y1 o1 b in (x2, y2, o2, c1 ++ c2).
Proof.
  induction a as [|p a IH]; intros b x y o.
  - cbn [app run_prims]. destruct (run_prims x y o b) as [[[x2 y2] o2] c2]. reflexivity.
  - destruct p as [dx dy|dx dy|p1 p2 p3 p4 p5 p6]; cbn [app run_prims].
    + rewrite IH. destruct (run_prims (x + dx) (y + dy) true a) as [[[x1 y1] o1] c1].
      destruct (run_prims x1 y1 o1 b) as [[[x2 y2] o2] c2].
      rewrite <- app_assoc. reflexivity.
    + rewrite IH. destruct (run_prims (x + dx) (y + dy) o a) as [[[x1 y1] o1] c1].
      destruct (run_prims x1 y1 o1 b) as [[[x2 y2] o2] c2]. reflexivity.
    + rewrite IH.
      destruct (run_prims (x + p1 + p3 + p5) (y + p2 + p4 + p6) o a) as [[[x1 y1] o1] c1].
      destruct (run_prims x1 y1 o1 b) as [[[x2 y2] o2] c2]. reflexivity.
Qed.

(* --- the argument loops --- *)
Lemma lines_spec : forall l x y o,
  run_prims x y o (map line_prim l) =
  let '(xf, yf, c) := lines x y (flat2 l) in (xf, yf, o, c).
Proof.
  induction l as [|[dx dy] l IH]; intros x y o; [reflexivity|].
  cbn [map line_prim fst snd run_prims flat2 flat_map app lines].
  rewrite IH. fold (flat2 l).
  destruct (lines (x + dx) (y + dy) (flat2 l)) as [[xf yf] c]. reflexivity.
Qed.

Lemma alt_lines_spec : forall l h x y o,
  run_prims x y o (alt_prims h l) =
  let '(xf, yf, c) := alt_lines h x y l in (xf, yf, o, c).
Proof.
  induction l as [|d l IH]; intros h x y o; [reflexivity|].
  cbn [alt_prims alt_lines]. destruct h; cbn [run_prims negb]; rewrite IH.
  - rewrite Z.add_0_r. destruct (alt_lines false (x + d) y l) as [[xf yf] c]. reflexivity.
  - rewrite Z.add_0_r. destruct (alt_lines true x (y + d) l) as [[xf yf] c]. reflexivity.
Qed.

Lemma curves_spec : forall l x y o,
  run_prims x y o (map curve_prim l) =
  let '(xf, yf, c) := curves x y (flat6 l) in (xf, yf, o, c).
Proof.
  induction l as [|[[[[[a b] c] d] e] f] l IH]; intros x y o; [reflexivity|].
  cbn [map curve_prim run_prims flat6 flat_map args6 app curves].
  rewrite IH. fold (flat6 l).
  destruct (curves (x + a + c + e) (y + b + d + f) (flat6 l)) as [[xf yf] cs]. reflexivity.
Qed.

Lemma hh_curves_spec : forall l x y o,
  run_prims x y o (map (hh_prim 0) l) =
  let '(xf, yf, c) := hh_curves x y (flat4 l) in (xf, yf, o, c).
Proof.
  induction l as [|[[[a b] c] d] l IH]; intros x y o; [reflexivity|].
  cbn [map hh_prim run_prims flat4 flat_map app hh_curves].
  rewrite !Z.add_0_r. rewrite IH. fold (flat4 l).
  destruct (hh_curves (x + a + b + d) (y + c) (flat4 l)) as [[xf yf] cs]. reflexivity.
Qed.

Lemma vv_curves_spec : forall l x y o,
  run_prims x y o (map (vv_prim 0) l) =
  let '(xf, yf, c) := vv_curves x y (flat4 l) in (xf, yf, o, c).
Proof.
  induction l as [|[[[a b] c] d] l IH]; intros x y o; [reflexivity|].
  cbn [map vv_prim run_prims flat4 flat_map app vv_curves].
  rewrite !Z.add_0_r. rewrite IH. fold (flat4 l).
  destruct (vv_curves (x + b) (y + a + c + d) (flat4 l)) as [[xf yf] cs]. reflexivity.
Qed.

Lemma len_flat2 : forall l, len (flat2 l) = 2 * len l.
Proof.
  induction l as [|p l IH]; [reflexivity|].
  unfold flat2 in *; cbn [flat_map]. rewrite len_app, IH, len_cons. unfold len; cbn [length]. lia.
Qed.
Lemma len_flat4 : forall l, len (flat4 l) = 4 * len l.
Proof.
  induction l as [|[[[a b] c] d] l IH]; [reflexivity|].
  unfold flat4 in *; cbn [flat_map]. rewrite len_app, IH, len_cons. unfold len; cbn [length]. lia.
Qed.
Lemma len_args6 : forall c, len (args6 c) = 6.
Proof. intros [[[[[a b] c] d] e] f]. reflexivity. Qed.
Lemma len_flat6 : forall l, len (flat6 l) = 6 * len l.
Proof.
  induction l as [|c l IH]; [reflexivity|].
  unfold flat6 in *; cbn [flat_map]. rewrite len_app, IH, len_args6, len_cons. lia.
Qed.

(* --- what the specification assigns to one operator, as a parser-state transition --- *)
Definition spec_res (o : sop) (p : pst) : pres :=
  let '(x, y, o', c) := run_prims (px p) (py p) (negb (first_move p)) (expand o) in
  COk (mkP x y (has_move p || is_move o) (negb o'), c).

Lemma seg_res : forall p x y, has_move p = true ->
  mkP x y (has_move p || false) (negb (negb (first_move p))) = set_xy p x y.
Proof. intros [px0 py0 hm fm] x y H. cbn in *. subst. rewrite negb_involutive. reflexivity. Qed.

Ltac coords := repeat (f_equal; try lia).

Lemma spec_move : forall p dx dy,
  COk (do_move p (px p + dx) (py p + dy)) = spec_res (SRMove dx dy) p.
Proof.
  intros. unfold spec_res, do_move. cbn [expand run_prims is_move].
  rewrite orb_true_r. destruct (first_move p); reflexivity.
Qed.

Lemma spec_rmove : forall p dx dy,
  pvisit (op_fn (SRMove dx dy)) p (args_of (SRMove dx dy)) = spec_res (SRMove dx dy) p.
Proof. intros. cbn [op_fn pvisit args_of parse_move_to]. apply spec_move. Qed.

Lemma spec_hmove : forall p dx,
  pvisit (op_fn (SHMove dx)) p (args_of (SHMove dx)) = spec_res (SHMove dx) p.
Proof.
  intros. cbn [op_fn pvisit args_of parse_horizontal_move_to].
  unfold spec_res, do_move. cbn [expand run_prims is_move].
  rewrite orb_true_r, Z.add_0_r. destruct (first_move p); reflexivity.
Qed.

Lemma spec_vmove : forall p dy,
  pvisit (op_fn (SVMove dy)) p (args_of (SVMove dy)) = spec_res (SVMove dy) p.
Proof.
  intros. cbn [op_fn pvisit args_of parse_vertical_move_to].
  unfold spec_res, do_move. cbn [expand run_prims is_move].
  rewrite orb_true_r, Z.add_0_r. destruct (first_move p); reflexivity.
Qed.

Lemma spec_rline : forall p l, has_move p = true ->
  pvisit (op_fn (SRLine l)) p (args_of (SRLine l)) = spec_res (SRLine l) p.
Proof.
  intros p l Hm. cbn [op_fn pvisit args_of]. unfold parse_line_to, spec_res.
  rewrite Hm. cbn [negb expand is_move]. rewrite len_flat2.
  replace (Z.odd (2 * len l)) with false by (symmetry; rewrite Z.odd_mul; reflexivity).
  rewrite lines_spec. destruct (lines (px p) (py p) (flat2 l)) as [[x y] c].
  rewrite <- seg_res by exact Hm. rewrite Hm. reflexivity.
Qed.

Lemma spec_altline : forall (p : pst) (l : list Z) (h : bool), has_move p = true -> l <> [] ->
  (if h then parse_horizontal_line_to else parse_vertical_line_to) p l =
  let '(x, y, o', c) := run_prims (px p) (py p) (negb (first_move p)) (alt_prims h l) in
  COk (mkP x y (has_move p || false) (negb o'), c).
Proof.
  intros p l h Hm Hl. rewrite alt_lines_spec.
  destruct h; unfold parse_horizontal_line_to, parse_vertical_line_to; rewrite Hm; cbn [negb];
    (destruct l as [|d l]; [congruence|]).
  - destruct (alt_lines true (px p) (py p) (d :: l)) as [[x y] c].
    rewrite <- seg_res by exact Hm. rewrite Hm. reflexivity.
  - destruct (alt_lines false (px p) (py p) (d :: l)) as [[x y] c].
    rewrite <- seg_res by exact Hm. rewrite Hm. reflexivity.
Qed.

Lemma nonempty_len {A} (l : list A) : negb (len l =? 0) = true -> l <> [].
Proof. destruct l; [cbn; congruence|congruence]. Qed.

Lemma spec_hline : forall p l, has_move p = true -> shape_ok (SHLine l) = true ->
  pvisit (op_fn (SHLine l)) p (args_of (SHLine l)) = spec_res (SHLine l) p.
Proof.
  intros p l Hm Hs. cbn [op_fn pvisit args_of]. unfold spec_res. cbn [expand is_move].
  apply (spec_altline p l true Hm). apply nonempty_len. exact Hs.
Qed.

Lemma spec_vline : forall p l, has_move p = true -> shape_ok (SVLine l) = true ->
  pvisit (op_fn (SVLine l)) p (args_of (SVLine l)) = spec_res (SVLine l) p.
Proof.
  intros p l Hm Hs. cbn [op_fn pvisit args_of]. unfold spec_res. cbn [expand is_move].
  apply (spec_altline p l false Hm). apply nonempty_len. exact Hs.
Qed.

Lemma mul_mod_0 : forall k n, 0 < k -> (k * n) mod k =? 0 = true.
Proof. intros. rewrite Z.mul_comm, Z.mod_mul by lia. reflexivity. Qed.

Lemma spec_rrcurve : forall p l, has_move p = true ->
  pvisit (op_fn (SRRCurve l)) p (args_of (SRRCurve l)) = spec_res (SRRCurve l) p.
Proof.
  intros p l Hm. cbn [op_fn pvisit args_of]. unfold parse_curve_to, spec_res.
  rewrite Hm. cbn [negb expand is_move]. rewrite len_flat6, mul_mod_0 by lia. cbn [negb].
  rewrite curves_spec. destruct (curves (px p) (py p) (flat6 l)) as [[x y] c].
  rewrite <- seg_res by exact Hm. rewrite Hm. reflexivity.
Qed.

Lemma odd_4k1 : forall k, Z.odd (1 + 4 * k) = true.
Proof. intros. rewrite Z.odd_add, Z.odd_mul. reflexivity. Qed.
Lemma odd_4k : forall k, Z.odd (4 * k) = false.
Proof. intros. rewrite Z.odd_mul. reflexivity. Qed.

Lemma spec_hhcurve : forall p d l, has_move p = true -> shape_ok (SHHCurve d l) = true ->
  pvisit (op_fn (SHHCurve d l)) p (args_of (SHHCurve d l)) = spec_res (SHHCurve d l) p.
Proof.
  intros p d l Hm Hs. apply nonempty_len in Hs.
  cbn [op_fn pvisit args_of]. unfold parse_hh_curve_to, spec_res.
  rewrite Hm. cbn [negb expand is_move].
  destruct l as [|[[[a b] c] e] l]; [congruence|]. cbn [first_rest].
  destruct d as [v|]; cbn [olist app oz].
  - rewrite len_cons, len_flat4, odd_4k1. cbn [hd tl].
    rewrite len_flat4, mul_mod_0 by lia. cbn [negb].
    cbn [flat4 flat_map app hh_curves hh_prim run_prims]. fold (flat4 l).
    rewrite hh_curves_spec. rewrite !Z.add_0_r.
    destruct (hh_curves (px p + a + b + e) (py p + v + c) (flat4 l)) as [[x y] cs].
    rewrite <- seg_res by exact Hm. rewrite Hm. reflexivity.
  - rewrite len_flat4, odd_4k. cbv iota beta. rewrite len_flat4, mul_mod_0 by lia. cbn [negb].
    change (hh_prim 0 (a, b, c, e) :: map (hh_prim 0) l) with (map (hh_prim 0) ((a, b, c, e) :: l)).
    rewrite hh_curves_spec.
    destruct (hh_curves (px p) (py p) _) as [[x y] cs].
    rewrite <- seg_res by exact Hm. rewrite Hm. reflexivity.
Qed.

Lemma spec_vvcurve : forall p d l, has_move p = true -> shape_ok (SVVCurve d l) = true ->
  pvisit (op_fn (SVVCurve d l)) p (args_of (SVVCurve d l)) = spec_res (SVVCurve d l) p.
Proof.
  intros p d l Hm Hs. apply nonempty_len in Hs.
  cbn [op_fn pvisit args_of]. unfold parse_vv_curve_to, spec_res.
  rewrite Hm. cbn [negb expand is_move].
  destruct l as [|[[[a b] c] e] l]; [congruence|]. cbn [first_rest].
  destruct d as [v|]; cbn [olist app oz].
  - rewrite len_cons, len_flat4, odd_4k1. cbn [hd tl].
    rewrite len_flat4, mul_mod_0 by lia. cbn [negb].
    cbn [flat4 flat_map app vv_curves vv_prim run_prims]. fold (flat4 l).
    rewrite vv_curves_spec. rewrite !Z.add_0_r.
    destruct (vv_curves (px p + v + b) (py p + a + c + e) (flat4 l)) as [[x y] cs].
    rewrite <- seg_res by exact Hm. rewrite Hm. reflexivity.
  - rewrite len_flat4, odd_4k. cbv iota beta. rewrite len_flat4, mul_mod_0 by lia. cbn [negb].
    change (vv_prim 0 (a, b, c, e) :: map (vv_prim 0) l) with (map (vv_prim 0) ((a, b, c, e) :: l)).
    rewrite vv_curves_spec.
    destruct (vv_curves (px p) (py p) _) as [[x y] cs].
    rewrite <- seg_res by exact Hm. rewrite Hm. reflexivity.
Qed.

(* hvcurveto / vhcurveto *)
Lemma hv_curves_spec : forall l last h x y o,
  hv_curves h x y (flat4 l ++ olist last) =
  match l with
  | [] => match last with
          | None => COk (x, y, [])
          | Some _ => CErr EInvalidArgumentsStackLength
          end
  | _ => let '(xf, yf, o', c) := run_prims x y o (hv_prims h l last) in COk (xf, yf, c)
  end.
Proof.
  induction l as [|[[[d1 d2] d3] d4] l IH]; intros last h x y o.
  - destruct last; reflexivity.
  - cbn [flat4 flat_map app]. fold (flat4 l).
    cbn [hv_curves hv_prims].
    destruct l as [|[[[e1 e2] e3] e4] l'].
    + (* last curve *)
      cbn [flat4 flat_map app hv_prims].
      destruct last as [v|]; cbn [olist oz]; destruct h; cbn [hv_curves cbind run_prims];
        rewrite ?Z.add_0_r; reflexivity.
    + specialize (IH last (negb h)).
      cbn [flat4 flat_map app] in IH |- *. fold (flat4 l') in IH |- *.
      destruct h; cbn [negb] in IH |- *.
      * rewrite (IH (x + d1 + d2) (y + d3 + d4) o).
        cbn [run_prims]. rewrite !Z.add_0_r.
        destruct (run_prims (x + d1 + d2) (y + d3 + d4) o (hv_prims false _ last)) as [[[xf yf] o'] c].
        reflexivity.
      * rewrite (IH (x + d2 + d4) (y + d1 + d3) o).
        cbn [run_prims]. rewrite !Z.add_0_r.
        destruct (run_prims (x + d2 + d4) (y + d1 + d3) o (hv_prims true _ last)) as [[[xf yf] o'] c].
        reflexivity.
Qed.

Lemma run_prims_hv_open : forall l last h x y o,
  let '(_, _, o', _) := run_prims x y o (hv_prims h l last) in o' = o.
Proof.
  induction l as [|[[[d1 d2] d3] d4] l IH]; intros last h x y o; [reflexivity|].
  cbn [hv_prims]. destruct h; cbn [run_prims negb].
  - specialize (IH last false (x + d1 + d2 + match l with [] => oz last | _ => 0 end) (y + 0 + d3 + d4) o).
    destruct (run_prims _ _ o (hv_prims false l last)) as [[[xf yf] o'] c]. exact IH.
  - specialize (IH last true (x + 0 + d2 + d4) (y + d1 + d3 + match l with [] => oz last | _ => 0 end) o).
    destruct (run_prims _ _ o (hv_prims true l last)) as [[[xf yf] o'] c]. exact IH.
Qed.

Lemma spec_hv_vh : forall p l last h, has_move p = true -> l <> [] ->
  len (flat4 l ++ olist last) <= TEMP_OPERANDS ->
  parse_hv_vh h p (flat4 l ++ olist last) =
  let '(x, y, o', c) := run_prims (px p) (py p) (negb (first_move p)) (hv_prims h l last) in
  COk (mkP x y (has_move p || false) (negb o'), c).
Proof.
  intros p l last h Hm Hl Ht. unfold parse_hv_vh. rewrite Hm. cbn [negb].
  assert (Hlen : 4 <= len (flat4 l ++ olist last)).
  { rewrite len_app, len_flat4. destruct l; [congruence|]. rewrite len_cons.
    pose proof (len_nonneg l). pose proof (len_nonneg (olist last)). lia. }
  destruct (len (flat4 l ++ olist last) <? 4) eqn:E1; [lia|].
  destruct (TEMP_OPERANDS <? len (flat4 l ++ olist last)) eqn:E2; [lia|].
  rewrite (hv_curves_spec l last h (px p) (py p) (negb (first_move p))).
  destruct l; [congruence|].
  pose proof (run_prims_hv_open (c :: l) last h (px p) (py p) (negb (first_move p))) as Ho.
  destruct (run_prims (px p) (py p) (negb (first_move p)) (hv_prims h (c :: l) last))
    as [[[x y] o'] cs].
  subst o'. cbn [cbind]. rewrite <- seg_res by exact Hm. rewrite Hm. reflexivity.
Qed.

Lemma spec_hvcurve : forall p l last, has_move p = true -> shape_ok (SHVCurve l last) = true ->
  len (args_of (SHVCurve l last)) <= TEMP_OPERANDS ->
  pvisit (op_fn (SHVCurve l last)) p (args_of (SHVCurve l last)) = spec_res (SHVCurve l last) p.
Proof.
  intros p l last Hm Hs Ht. apply nonempty_len in Hs.
  cbn [op_fn pvisit args_of]. unfold spec_res, parse_hv_curve_to. cbn [expand is_move].
  apply spec_hv_vh; assumption.
Qed.

Lemma spec_vhcurve : forall p l last, has_move p = true -> shape_ok (SVHCurve l last) = true ->
  len (args_of (SVHCurve l last)) <= TEMP_OPERANDS ->
  pvisit (op_fn (SVHCurve l last)) p (args_of (SVHCurve l last)) = spec_res (SVHCurve l last) p.
Proof.
  intros p l last Hm Hs Ht. apply nonempty_len in Hs.
  cbn [op_fn pvisit args_of]. unfold spec_res, parse_vh_curve_to. cbn [expand is_move].
  apply spec_hv_vh; assumption.
Qed.

Lemma take_app_len {A} (a b : list A) : take (len a) (a ++ b) = a.
Proof. unfold take, len. rewrite Nat2Z.id. rewrite firstn_app, Nat.sub_diag, firstn_all. cbn. apply app_nil_r. Qed.
Lemma drop_app_len {A} (a b : list A) : drop (len a) (a ++ b) = b.
Proof. unfold drop, len. rewrite Nat2Z.id. rewrite skipn_app, Nat.sub_diag, skipn_all. reflexivity. Qed.

Lemma spec_curveline : forall p l dx dy, has_move p = true ->
  shape_ok (SRCurveLine l dx dy) = true ->
  pvisit (op_fn (SRCurveLine l dx dy)) p (args_of (SRCurveLine l dx dy)) =
  spec_res (SRCurveLine l dx dy) p.
Proof.
  intros p l dx dy Hm Hs. apply nonempty_len in Hs.
  cbn [op_fn pvisit args_of]. unfold parse_curve_line, spec_res.
  rewrite Hm. cbn [negb expand is_move].
  assert (Hl : 1 <= len l) by (destruct l; [congruence|rewrite len_cons; pose proof (len_nonneg l); lia]).
  assert (Hn : len (flat6 l ++ [dx; dy]) - 2 = len (flat6 l)).
  { rewrite len_app. unfold len at 2; cbn [length]. lia. }
  rewrite Hn. rewrite take_app_len, drop_app_len.
  rewrite len_app, len_flat6. change (len [dx; dy]) with 2.
  destruct (6 * len l + 2 <? 8) eqn:E1; [lia|].
  rewrite mul_mod_0 by lia. cbn [negb].
  rewrite run_prims_app, curves_spec.
  destruct (curves (px p) (py p) (flat6 l)) as [[x y] c].
  cbn [run_prims lines].
  rewrite <- seg_res by exact Hm. rewrite Hm. reflexivity.
Qed.

Lemma spec_linecurve : forall p l c, has_move p = true ->
  shape_ok (SRLineCurve l c) = true ->
  pvisit (op_fn (SRLineCurve l c)) p (args_of (SRLineCurve l c)) = spec_res (SRLineCurve l c) p.
Proof.
  intros p l c Hm Hs. apply nonempty_len in Hs.
  cbn [op_fn pvisit args_of]. unfold parse_line_curve, spec_res.
  rewrite Hm. cbn [negb expand is_move].
  assert (Hl : 1 <= len l) by (destruct l; [congruence|rewrite len_cons; pose proof (len_nonneg l); lia]).
  assert (Hn : len (flat2 l ++ args6 c) - 6 = len (flat2 l)).
  { rewrite len_app, len_args6. lia. }
  rewrite Hn. rewrite take_app_len, drop_app_len.
  rewrite len_app, len_flat2, len_args6.
  destruct (2 * len l + 6 <? 8) eqn:E1; [lia|].
  replace (Z.odd (2 * len l)) with false by (symmetry; rewrite Z.odd_mul; reflexivity).
  rewrite run_prims_app, lines_spec.
  destruct (lines (px p) (py p) (flat2 l)) as [[x y] cs].
  destruct c as [[[[[a b] c] d] e] f]. cbn [args6 curve_prim run_prims curves].
  rewrite <- seg_res by exact Hm. rewrite Hm. reflexivity.
Qed.

Lemma spec_flex : forall p c1 c2 fd, has_move p = true ->
  pvisit (op_fn (SFlex c1 c2 fd)) p (args_of (SFlex c1 c2 fd)) = spec_res (SFlex c1 c2 fd) p.
Proof.
  intros p [[[[[a1 a2] a3] a4] a5] a6] [[[[[b1 b2] b3] b4] b5] b6] fd Hm.
  cbn [op_fn pvisit args_of args6 app]. unfold parse_flex, spec_res.
  rewrite Hm. cbn [negb expand is_move curve_prim run_prims].
  rewrite <- seg_res by exact Hm. rewrite Hm. reflexivity.
Qed.

Lemma spec_hflex : forall p a b c d e f g, has_move p = true ->
  pvisit (op_fn (SHFlex a b c d e f g)) p (args_of (SHFlex a b c d e f g)) =
  spec_res (SHFlex a b c d e f g) p.
Proof.
  intros p a b c d e f g Hm.
  cbn [op_fn pvisit args_of]. unfold parse_hflex, spec_res.
  rewrite Hm. cbn [negb expand is_move run_prims].
  rewrite <- seg_res by exact Hm. rewrite Hm. unfold set_xy. cbn [has_move first_move orb].
  rewrite negb_involutive. coords.
Qed.

Lemma spec_hflex1 : forall p a b c d e f g h i, has_move p = true ->
  pvisit (op_fn (SHFlex1 a b c d e f g h i)) p (args_of (SHFlex1 a b c d e f g h i)) =
  spec_res (SHFlex1 a b c d e f g h i) p.
Proof.
  intros p a b c d e f g h i Hm.
  cbn [op_fn pvisit args_of]. unfold parse_hflex1, spec_res.
  rewrite Hm. cbn [negb expand is_move run_prims].
  rewrite <- seg_res by exact Hm. rewrite Hm. unfold set_xy. cbn [has_move first_move orb].
  rewrite negb_involutive. coords.
Qed.

Lemma spec_flex1 : forall p a b c d e f g h i j k, has_move p = true ->
  pvisit (op_fn (SFlex1 a b c d e f g h i j k)) p (args_of (SFlex1 a b c d e f g h i j k)) =
  spec_res (SFlex1 a b c d e f g h i j k) p.
Proof.
  intros p a b c d e f g h i j k Hm.
  cbn [op_fn pvisit args_of]. unfold parse_flex1, spec_res.
  rewrite Hm. cbn [negb expand is_move].
  replace (py p + b + d + f + h + j - py p) with (b + d + f + h + j) by lia.
  replace (px p + a + c + e + g + i - px p) with (a + c + e + g + i) by lia.
  destruct (Z.abs (b + d + f + h + j) <? Z.abs (a + c + e + g + i)); cbn [run_prims];
    rewrite <- seg_res by exact Hm; rewrite Hm; unfold set_xy; cbn [has_move first_move orb];
    rewrite negb_involutive; coords.
Qed.

Lemma spec_hint : forall p o, is_hint o = true ->
  pvisit (op_fn o) p (args_of o) = spec_res o p.
Proof.
  intros [x y hm fm] o Hh. destruct o; try discriminate Hh;
    cbn [op_fn pvisit]; unfold spec_res; cbn [expand run_prims is_move px py first_move has_move];
    rewrite orb_false_r, negb_involutive; reflexivity.
Qed.

(* Every operator: the interpreter's parse function, applied to the operator's operands, performs
   exactly the primitives of the operator's expansion. *)
Theorem pvisit_spec : forall o p,
  shape_ok o = true -> len (args_of o) <= TEMP_OPERANDS ->
  (is_move o = false -> is_hint o = false -> has_move p = true) ->
  pvisit (op_fn o) p (args_of o) = spec_res o p.
Proof.
  intros o p Hs Ht Hm.
  destruct o; try (apply spec_hint; reflexivity);
    try (specialize (Hm eq_refl eq_refl)).
  - apply spec_rmove.
  - apply spec_hmove.
  - apply spec_vmove.
  - apply spec_rline; assumption.
  - apply spec_hline; assumption.
  - apply spec_vline; assumption.
  - apply spec_rrcurve; assumption.
  - apply spec_hhcurve; assumption.
  - apply spec_vvcurve; assumption.
  - apply spec_hvcurve; assumption.
  - apply spec_vhcurve; assumption.
  - apply spec_curveline; assumption.
  - apply spec_linecurve; assumption.
  - apply spec_flex; assumption.
  - apply spec_hflex; assumption.
  - apply spec_hflex1; assumption.
  - apply spec_flex1; assumption.
Qed.
