(* Proofs/FeatureVariationsProofs.v — lemmas about Model/FeatureVariations.v against Model/FeatureVariationsSpec.v *)
From AV Require Import Base.Prelude Base.Lemmas Gen.LayoutConsts Model.Reader Model.Layout Model.Gsub
  Model.FeatureVariations Model.FeatureVariationsSpec Proofs.ReaderProofs.
From Coq Require Import ZifyBool.
Ltac Zify.zify_post_hook ::= Z.div_mod_to_equations.
Open Scope Z_scope.

(* ================================================================== errors of the readers: only Eof / BadVersion *)
Definition only_eof {A} (x : outcome A) : Prop := forall e, x = Err e -> e = Eof.

Lemma only_eof_ok {A} (a : A) : only_eof (Ok a).
Proof. intros e H; discriminate. Qed.
Lemma only_eof_panic {A} : only_eof (@Panic A).
Proof. intros e H; discriminate. Qed.
Lemma only_eof_oob {A} : only_eof (@OOB A).
Proof. intros e H; discriminate. Qed.
Lemma only_eof_err {A} : only_eof (@Err A Eof).
Proof. intros e H; injection H as <-; reflexivity. Qed.
Lemma only_eof_bind {A B} (x : outcome A) (f : A -> outcome B) :
  only_eof x -> (forall a, only_eof (f a)) -> only_eof (bind x f).
Proof.
  intros Hx Hf e H. destruct x; cbn [bind] in H; try discriminate.
  - eapply Hf; eassumption.
  - injection H as <-. apply Hx; reflexivity.
Qed.

Lemma only_eof_read_unchecked p c : only_eof (read_unchecked p c).
Proof. unfold read_unchecked. destruct (forallb _ _); [apply only_eof_ok|apply only_eof_oob]. Qed.

Lemma only_eof_read_prim p c : only_eof (read_prim p c).
Proof. unfold read_prim. destruct (check_avail _ _); [apply only_eof_read_unchecked|apply only_eof_err]. Qed.

Lemma only_eof_read_unchecked_ty t : forall c, only_eof (read_unchecked_ty t c).
Proof.
  induction t as [|p t IH]; intros c; cbn [read_unchecked_ty]; [apply only_eof_ok|].
  apply only_eof_bind; [apply only_eof_read_unchecked|]. intros [v c1].
  apply only_eof_bind; [apply IH|]. intros [vs c2]. apply only_eof_ok.
Qed.

Lemma only_eof_read_ty t c : only_eof (read_ty t c).
Proof. unfold read_ty. destruct (check_avail _ _); [apply only_eof_read_unchecked_ty|apply only_eof_err]. Qed.

Lemma only_eof_scope_offset m s o : only_eof (scope_offset m s o).
Proof. unfold scope_offset, wadd. cbn [bind]. apply only_eof_ok. Qed.

Lemma only_eof_uadd m a b : only_eof (uadd m a b).
Proof. unfold uadd. destruct (_ <? _); [apply only_eof_ok|destruct m; [apply only_eof_panic|apply only_eof_ok]]. Qed.
Lemma only_eof_umul m a b : only_eof (umul m a b).
Proof. unfold umul. destruct (_ <? _); [apply only_eof_ok|destruct m; [apply only_eof_panic|apply only_eof_ok]]. Qed.

Lemma only_eof_read_scope m c l : only_eof (read_scope m c l).
Proof.
  unfold read_scope. destruct (offset_length m (sc c) (off c) l).
  - apply only_eof_bind; [apply only_eof_uadd|]. intros; apply only_eof_ok.
  - apply only_eof_err.
  - apply only_eof_panic.
  - apply only_eof_oob.
Qed.

Lemma only_eof_read_array m t c n : only_eof (read_array m t c n).
Proof.
  unfold read_array. apply only_eof_bind.
  - unfold cmul. destruct (_ <? _); [apply only_eof_ok|apply only_eof_err].
  - intros sz. apply only_eof_bind; [apply only_eof_read_scope|]. intros [s c']. apply only_eof_ok.
Qed.

Lemma only_eof_iter_next m s st t idx : only_eof (iter_next m s st t idx).
Proof.
  unfold iter_next. apply only_eof_bind; [apply only_eof_umul|]. intros o.
  apply only_eof_bind; [apply only_eof_scope_offset|]. intros s'.
  destruct (check_avail _ _); [|apply only_eof_ok].
  apply only_eof_bind; [apply only_eof_read_unchecked_ty|]. intros [v c]. apply only_eof_ok.
Qed.

Lemma only_eof_iter_collect m s st t : forall fuel idx, only_eof (iter_collect fuel m s st t idx).
Proof.
  induction fuel as [|f IH]; intros idx; cbn [iter_collect]; [apply only_eof_ok|].
  apply only_eof_bind; [apply only_eof_iter_next|]. intros [v|]; [|apply only_eof_ok].
  apply only_eof_bind; [apply IH|]. intros; apply only_eof_ok.
Qed.

Lemma only_eof_arr_to_vec m a : only_eof (arr_to_vec m a).
Proof. apply only_eof_iter_collect. Qed.

Lemma only_eof_condition_set_table_read m c : only_eof (condition_set_table_read m c).
Proof.
  unfold condition_set_table_read. apply only_eof_bind; [apply only_eof_scope_offset|]. intros sc.
  apply only_eof_bind; [apply only_eof_read_prim|]. intros [count c1].
  apply only_eof_bind; [apply only_eof_read_array|]. intros [arr c2].
  apply only_eof_bind; [apply only_eof_arr_to_vec|]. intros; apply only_eof_ok.
Qed.

Lemma only_eof_conditions_all m sc t : forall offs, only_eof (conditions_all m sc offs t).
Proof.
  induction offs as [|o rest IH]; cbn [conditions_all]; [apply only_eof_ok|].
  apply only_eof_bind; [apply only_eof_scope_offset|]. intros s.
  destruct (condition_read (ctxt_new s)); try (apply only_eof_ok || apply only_eof_panic || apply only_eof_oob).
  destruct (condition_matches a t); [apply IH|apply only_eof_ok].
Qed.

(* the condition set of a record is never rejected for its version: the only error is Eof *)
Lemma record_condition_only_eof m sc r t : only_eof (record_condition m sc r t).
Proof.
  unfold record_condition. apply only_eof_bind.
  - unfold record_condition_set. destruct (fst r =? 0); [apply only_eof_ok|].
    apply only_eof_bind; [apply only_eof_scope_offset|]. intros s.
    apply only_eof_bind; [apply only_eof_condition_set_table_read|]. intros; apply only_eof_ok.
  - intros [|tb]; cbn [cond_set_matches]; [apply only_eof_ok|apply only_eof_conditions_all].
Qed.

(* ================================================================== (a) first matching record *)
(* FeatureVariationRecord::matches in terms of the status *)
Lemma record_matches_status m sc r t :
  record_matches m sc r t =
  match record_status m sc r t with
  | RSMatch s => Ok (Some s)
  | RSNoMatch => Ok None
  | RSRejected => Err BadVersion
  | RSFail e => Err e
  | RSPanic => Panic
  | RSOOB => OOB
  end.
Proof.
  unfold record_matches, record_status.
  destruct (record_condition m sc r t) as [[|]|e| |] eqn:E; cbn [bind]; try reflexivity.
  destruct (record_substitution m sc (snd r)) as [s|e| |]; cbn [bind]; try reflexivity.
  destruct e; reflexivity.
Qed.

Lemma record_status_fail_not_badversion m sc r t : record_status m sc r t <> RSFail BadVersion.
Proof.
  unfold record_status. intros H.
  destruct (record_condition m sc r t) as [[|]|e| |] eqn:E; try discriminate.
  - destruct (record_substitution m sc (snd r)) as [s|e| |]; try discriminate. destruct e; discriminate.
  - injection H as ->. apply record_condition_only_eof in E. discriminate.
Qed.

Theorem fv_matches_first m sc t : forall recs, fv_matches m sc recs t = fv_matches_spec m sc recs t.
Proof.
  unfold fv_matches_spec. induction recs as [|r rest IH]; [reflexivity|].
  cbn [fv_matches first_decisive]. rewrite record_matches_status.
  pose proof (record_status_fail_not_badversion m sc r t) as Hnb.
  destruct (record_status m sc r t) as [s| | |e| |] eqn:St; cbn [passed_over nth_error status_result]; rewrite ?St; cbn [status_result]; try reflexivity.
  - rewrite IH. destruct (first_decisive m sc rest t); reflexivity.
  - rewrite IH. destruct (first_decisive m sc rest t); reflexivity.
  - destruct e; try reflexivity. exfalso; apply Hnb; reflexivity.
Qed.

(* (b) every record before the chosen one was passed over *)
Lemma first_decisive_before m sc t : forall recs i, first_decisive m sc recs t = Some i ->
  (i < length recs)%nat /\
  (forall j r, (j < i)%nat -> nth_error recs j = Some r -> passed_over (record_status m sc r t) = true) /\
  (forall r, nth_error recs i = Some r -> passed_over (record_status m sc r t) = false).
Proof.
  induction recs as [|r rest IH]; intros i H; cbn [first_decisive] in H; [discriminate|].
  destruct (passed_over (record_status m sc r t)) eqn:P.
  - destruct (first_decisive m sc rest t) as [k|] eqn:F; cbn [option_map] in H; [|discriminate].
    injection H as <-. destruct (IH k eq_refl) as [Hl [Hb Ha]]. repeat split.
    + cbn [length]. lia.
    + intros j r' Hj Hn. destruct j; cbn [nth_error] in Hn.
      * injection Hn as <-. exact P.
      * apply (Hb j); [lia|exact Hn].
    + intros r' Hn. cbn [nth_error] in Hn. apply Ha; exact Hn.
  - injection H as <-. repeat split.
    + cbn [length]. lia.
    + intros j r' Hj; lia.
    + intros r' Hn. cbn [nth_error] in Hn. injection Hn as <-. exact P.
Qed.

Lemma first_decisive_none m sc t : forall recs, first_decisive m sc recs t = None ->
  forall r, In r recs -> passed_over (record_status m sc r t) = true.
Proof.
  induction recs as [|r rest IH]; intros H r' Hin; [destruct Hin|].
  cbn [first_decisive] in H. destruct (passed_over (record_status m sc r t)) eqn:P; [|discriminate].
  destruct (first_decisive m sc rest t) eqn:F; cbn [option_map] in H; [discriminate|].
  destruct Hin as [<-|Hin]; [exact P|apply IH; auto].
Qed.

(* the search never looks past the chosen record: whatever follows it does not matter *)
Lemma first_decisive_prefix m sc t : forall recs i, first_decisive m sc recs t = Some i ->
  forall tail, first_decisive m sc (firstn (S i) recs ++ tail) t = Some i.
Proof.
  induction recs as [|r rest IH]; intros i H tail; cbn [first_decisive] in H; [discriminate|].
  cbn [firstn app first_decisive].
  destruct (passed_over (record_status m sc r t)) eqn:P.
  - destruct (first_decisive m sc rest t) as [k|] eqn:F; cbn [option_map] in H; [|discriminate].
    injection H as <-. rewrite (IH k eq_refl tail). reflexivity.
  - injection H as <-. reflexivity.
Qed.

Theorem fv_matches_ignores_later m sc t recs i :
  first_decisive m sc recs t = Some i ->
  forall tail, fv_matches m sc (firstn (S i) recs ++ tail) t = fv_matches m sc recs t.
Proof.
  intros H tail. rewrite !fv_matches_first. unfold fv_matches_spec.
  rewrite (first_decisive_prefix m sc t recs i H tail), H.
  destruct (first_decisive_before m sc t recs i H) as [Hl _].
  rewrite nth_error_app1 by (rewrite firstn_length; lia).
  assert (E : nth_error (firstn (S i) recs) i = nth_error recs i).
  { clear H. revert i Hl. induction recs as [|r rest IH]; intros i Hl; [cbn in Hl; lia|].
    destruct i; [reflexivity|]. cbn [firstn nth_error] in *. apply IH. cbn [length] in Hl. lia. }
  rewrite E. reflexivity.
Qed.

Lemma first_decisive_intro m sc t : forall recs i r,
  nth_error recs i = Some r -> passed_over (record_status m sc r t) = false ->
  (forall j r', (j < i)%nat -> nth_error recs j = Some r' -> passed_over (record_status m sc r' t) = true) ->
  first_decisive m sc recs t = Some i.
Proof.
  induction recs as [|r0 rest IH]; intros i r N P Hb; [destruct i; discriminate|].
  cbn [first_decisive]. destruct i.
  - cbn [nth_error] in N. injection N as ->. rewrite P. reflexivity.
  - cbn [nth_error] in N. rewrite (Hb O r0) by (lia || reflexivity).
    rewrite (IH i r N P); [reflexivity|].
    intros j r' Hj Hn. apply (Hb (S j)); [lia|exact Hn].
Qed.

(* record statuses in words *)
Lemma status_match_iff m sc r t s :
  record_status m sc r t = RSMatch s <->
  record_condition m sc r t = Ok true /\ record_substitution m sc (snd r) = Ok s.
Proof.
  unfold record_status. split.
  - destruct (record_condition m sc r t) as [[|]|e| |]; try discriminate.
    destruct (record_substitution m sc (snd r)) as [s'|e| |]; try discriminate; [|destruct e; discriminate].
    intros H; injection H as ->; auto.
  - intros [-> ->]. reflexivity.
Qed.

Lemma status_passed_over_iff m sc r t :
  passed_over (record_status m sc r t) = true <->
  record_condition m sc r t = Ok false \/
  (record_condition m sc r t = Ok true /\ record_substitution m sc (snd r) = Err BadVersion).
Proof.
  unfold record_status. split.
  - destruct (record_condition m sc r t) as [[|]|e| |]; try discriminate; [|auto].
    destruct (record_substitution m sc (snd r)) as [s'|e| |]; try discriminate.
    destruct e; try discriminate. auto.
  - intros [->|[-> ->]]; reflexivity.
Qed.

(* the chosen record in words *)
Theorem fv_matches_some m sc recs t s :
  fv_matches m sc recs t = Ok (Some s) <->
  exists i r, nth_error recs i = Some r /\
    record_condition m sc r t = Ok true /\ record_substitution m sc (snd r) = Ok s /\
    forall j r', (j < i)%nat -> nth_error recs j = Some r' ->
      record_condition m sc r' t = Ok false \/
      (record_condition m sc r' t = Ok true /\ record_substitution m sc (snd r') = Err BadVersion).
Proof.
  rewrite fv_matches_first. unfold fv_matches_spec. split.
  - destruct (first_decisive m sc recs t) as [i|] eqn:F; [|discriminate].
    destruct (first_decisive_before m sc t recs i F) as [Hl [Hb Ha]].
    destruct (nth_error recs i) as [r|] eqn:N; [|discriminate].
    intros H. exists i, r. split; [exact N|].
    assert (St : record_status m sc r t = RSMatch s).
    { destruct (record_status m sc r t); cbn [status_result] in H; try discriminate. injection H as ->; reflexivity. }
    apply status_match_iff in St. destruct St as [C S]. repeat split; try assumption.
    intros j r' Hj Hn. apply status_passed_over_iff. apply (Hb j); assumption.
  - intros [i [r [N [C [S Hb]]]]].
    assert (St : record_status m sc r t = RSMatch s) by (apply status_match_iff; auto).
    rewrite (first_decisive_intro m sc t recs i r N).
    + rewrite N, St. reflexivity.
    + rewrite St. reflexivity.
    + intros j r' Hj Hn. apply status_passed_over_iff. apply (Hb j); assumption.
Qed.

(* no record is chosen: every record was passed over *)
Theorem fv_matches_none m sc recs t :
  fv_matches m sc recs t = Ok None <->
  forall r, In r recs -> passed_over (record_status m sc r t) = true.
Proof.
  rewrite fv_matches_first. unfold fv_matches_spec. split.
  - destruct (first_decisive m sc recs t) as [i|] eqn:F.
    + destruct (first_decisive_before m sc t recs i F) as [Hl [Hb Ha]].
      destruct (nth_error recs i) as [r|] eqn:N.
      * specialize (Ha r eq_refl). intros H.
        destruct (record_status m sc r t); cbn [status_result passed_over] in *; discriminate.
      * apply nth_error_None in N. lia.
    + intros _. apply first_decisive_none; assumption.
  - intros H. destruct (first_decisive m sc recs t) as [i|] eqn:F; [|reflexivity].
    destruct (first_decisive_before m sc t recs i F) as [Hl [Hb Ha]].
    destruct (nth_error recs i) as [r|] eqn:N; [|reflexivity].
    specialize (Ha r eq_refl). rewrite (H r) in Ha by (eapply nth_error_In; eassumption). discriminate.
Qed.

(* ================================================================== condition sets *)
Lemma condition_matches_range a mn mx t :
  condition_matches (CondF1 a mn mx) t = true <-> exists v, tuple_get t a = Some v /\ mn <= v <= mx.
Proof.
  cbn [condition_matches]. destruct (tuple_get t a) as [v|]; split.
  - intros H. exists v. split; [reflexivity|lia].
  - intros [v' [E H]]. injection E as <-. lia.
  - discriminate.
  - intros [v [E _]]; discriminate.
Qed.

Lemma condition_empty_range a mn mx t : mx < mn -> condition_matches (CondF1 a mn mx) t = false.
Proof.
  intros H. destruct (condition_matches (CondF1 a mn mx) t) eqn:E; [|reflexivity].
  apply condition_matches_range in E. destruct E as [v [_ Hv]]. lia.
Qed.

Lemma condition_axis_beyond_tuple a mn mx t : len t <= a -> condition_matches (CondF1 a mn mx) t = false.
Proof.
  intros H. cbn [condition_matches]. unfold tuple_get, nth_opt.
  destruct (a <? 0) eqn:E; [reflexivity|].
  replace (nth_error t (Z.to_nat a)) with (@None Z); [reflexivity|].
  symmetry. apply nth_error_None. unfold len in H. lia.
Qed.

Lemma condition_unknown_format t : condition_matches CondUnknown t = false.
Proof. reflexivity. Qed.

(* a condition set is the conjunction of its conditions; an unreadable condition counts as false *)
Lemma conditions_all_forallb m sc t : forall offs b,
  conditions_all m sc offs t = Ok b -> b = forallb (condition_at_holds m sc t) offs.
Proof.
  induction offs as [|o rest IH]; intros b H; cbn [conditions_all forallb] in *.
  - injection H as <-. reflexivity.
  - unfold condition_at_holds at 1.
    destruct (scope_offset m sc o) as [s|e| |]; cbn [bind] in H; try discriminate.
    destruct (condition_read (ctxt_new s)) as [cd|e| |]; try discriminate.
    + destruct (condition_matches cd t); [apply IH; exact H|injection H as <-; reflexivity].
    + injection H as <-. reflexivity.
Qed.

Lemma cond_set_universal m t : cond_set_matches m CSUniversal t = Ok true.
Proof. reflexivity. Qed.

Lemma record_condition_null_offset m sc sub t : record_condition m sc (0, sub) t = Ok true.
Proof. reflexivity. Qed.

Lemma record_substitution_null_offset m sc : record_substitution m sc 0 = Ok FSNone.
Proof. reflexivity. Qed.

(* a record with a NULL substitution offset whose condition set matches IS a match (of "no substitution") *)
Lemma null_substitution_is_a_match m sc cs t :
  record_condition m sc (cs, 0) t = Ok true -> record_status m sc (cs, 0) t = RSMatch FSNone.
Proof. intros H. unfold record_status. rewrite H. reflexivity. Qed.

(* ================================================================== (c) no tuple / no table / NULL substitution *)
Lemma feature_variations_no_tuple m fv : feature_variations m fv None = Ok None.
Proof. reflexivity. Qed.

Lemma feature_variations_no_table m tu : feature_variations m None tu = Ok None.
Proof. destruct tu; reflexivity. Qed.

Lemma find_feature_in_v_none m fl tag : forall idx,
  find_feature_in_v m FSNone fl idx tag = find_feature_in fl idx tag.
Proof.
  induction idx as [|fi rest IH]; [reflexivity|]. cbn [find_feature_in_v find_feature_in].
  destruct (checked_nth fl fi) as [rec|e| |]; cbn [bind]; try reflexivity.
  destruct (fst rec =? tag); [reflexivity|apply IH].
Qed.

Lemma find_langsys_feature_v_none m t ls tag :
  find_langsys_feature_v m t ls tag None = find_langsys_feature t ls tag.
Proof.
  unfold find_langsys_feature_v, find_langsys_feature. destruct (lt_features t); [apply find_feature_in_v_none|reflexivity].
Qed.

Lemma find_langsys_feature_v_nosubst m t ls tag :
  find_langsys_feature_v m t ls tag (Some FSNone) = find_langsys_feature t ls tag.
Proof.
  unfold find_langsys_feature_v, find_langsys_feature. destruct (lt_features t); [apply find_feature_in_v_none|reflexivity].
Qed.

Definition no_subst (fv : option ft_subst) : Prop := fv = None \/ fv = Some FSNone.

Lemma find_langsys_feature_v_no_subst m t ls tag fv : no_subst fv ->
  find_langsys_feature_v m t ls tag fv = find_langsys_feature t ls tag.
Proof. intros [->| ->]; [apply find_langsys_feature_v_none|apply find_langsys_feature_v_nosubst]. Qed.

Lemma build_lookups_custom_v_no_subst m t ls fv : no_subst fv -> forall feats rvrn mp,
  build_lookups_custom_v m t ls fv feats rvrn mp = build_lookups_custom t ls feats rvrn mp.
Proof.
  intros Hn. induction feats as [|[tag alt] rest IH]; intros rvrn mp; [reflexivity|].
  cbn [build_lookups_custom_v build_lookups_custom]. rewrite find_langsys_feature_v_no_subst by exact Hn.
  destruct (find_langsys_feature t ls tag) as [[idx|]|e| |]; cbn [bind]; try reflexivity; [|apply IH].
  destruct (tag =? TAG_EARLY); apply IH.
Qed.

Lemma build_lookups_default_v_no_subst m t ls fv mask : no_subst fv -> forall tbl mp,
  build_lookups_default_v m t ls fv mask tbl mp = build_lookups_default t ls mask tbl mp.
Proof.
  intros Hn. induction tbl as [|[bit tag] rest IH]; intros mp; [reflexivity|].
  cbn [build_lookups_default_v build_lookups_default].
  destruct (Z.testbit mask bit); [|apply IH].
  rewrite !find_langsys_feature_v_no_subst by exact Hn.
  destruct (find_langsys_feature t ls tag) as [[idx|]|e| |]; cbn [bind]; try reflexivity; [apply IH|].
  destruct (tag =? TAG_MASK_FALLBACK_FROM); [|apply IH].
  destruct (find_langsys_feature t ls TAG_MASK_FALLBACK_TO) as [[idx|]|e| |]; cbn [bind]; try reflexivity; apply IH.
Qed.

Lemma lookups_for_mask_v_no_subst m t script lang fv mask : no_subst fv ->
  lookups_for_mask_v m t script lang fv mask = lookups_for_mask t script lang mask.
Proof.
  intros Hn. unfold lookups_for_mask_v, lookups_for_mask.
  destruct (find_script_or_default t script); [|reflexivity].
  destruct (find_langsys_or_default s lang); [|reflexivity].
  apply build_lookups_default_v_no_subst; exact Hn.
Qed.

(* gsub::apply(Features::Custom) with a substitution that substitutes nothing = the unvaried run *)
Lemma gsub_apply_custom_v_no_subst m t fvt gd script lang feats tu n gs fv :
  feature_variations m fvt tu = Ok fv -> no_subst fv ->
  gsub_apply_custom_v m t fvt gd script lang feats tu n gs = gsub_apply_custom m t gd script lang feats n gs.
Proof.
  intros Hfv Hn. unfold gsub_apply_custom_v, gsub_apply_custom.
  destruct (find_script_or_default t script); [|reflexivity].
  destruct (find_langsys_or_default s lang); [|reflexivity].
  rewrite Hfv. cbn [bind]. rewrite build_lookups_custom_v_no_subst by exact Hn. reflexivity.
Qed.

Theorem gsub_apply_custom_v_unvaried m t fvt gd script lang feats tu n gs :
  tu = None \/ fvt = None ->
  gsub_apply_custom_v m t fvt gd script lang feats tu n gs = gsub_apply_custom m t gd script lang feats n gs.
Proof.
  intros H. apply gsub_apply_custom_v_no_subst with (fv := None); [|left; reflexivity].
  destruct H as [->| ->]; [apply feature_variations_no_tuple|apply feature_variations_no_table].
Qed.

Lemma gsub_apply_default_t_false m t gd script lang mask n gs :
  gsub_apply_default_t m t gd script lang mask false n gs = gsub_apply_default m t gd script lang mask n gs.
Proof. reflexivity. Qed.

Lemma gsub_apply_default_tail_no_subst m t gd script lang mask n gs0 fv : no_subst fv ->
  (let mask1 := mask_remove mask MASK_BIT_REMOVED in
   supported <- get_supported_features t script lang ;;
   let mask2 := Z.land mask1 supported in
   if Z.testbit mask2 MASK_BIT_SPLIT then Err NotImplemented
   else
     lks <- lookups_for_mask_v m t script lang fv mask2 ;;
     '(gs', _) <- gsub_apply_lookups_impl m t gd lks gs0 0 (len gs0) ;;
     Ok (replace_missing_glyphs (strip_joiners gs') n)) =
  gsub_apply_default m t gd script lang mask n gs0.
Proof.
  intros Hn. unfold gsub_apply_default. cbv zeta.
  destruct (get_supported_features t script lang) as [sup|e| |]; cbn [bind]; [|reflexivity|reflexivity|reflexivity].
  destruct (Z.testbit (Z.land (mask_remove mask MASK_BIT_REMOVED) sup) MASK_BIT_SPLIT); [reflexivity|].
  rewrite lookups_for_mask_v_no_subst by exact Hn. reflexivity.
Qed.

Lemma gsub_apply_default_v_no_subst m t fvt gd script lang mask tu n gs fv :
  feature_variations m fvt tu = Ok fv -> no_subst fv ->
  gsub_apply_default_v m t fvt gd script lang mask tu n gs =
  gsub_apply_default_t m t gd script lang mask (match tu with Some _ => true | None => false end) n gs.
Proof.
  intros Hfv Hn. unfold gsub_apply_default_v, gsub_apply_default_t. rewrite Hfv. cbn [bind].
  destruct tu as [tv|].
  - unfold apply_rvrn_default, apply_rvrn_mask. rewrite lookups_for_mask_v_no_subst by exact Hn.
    destruct (lookups_for_mask t script lang (Z.shiftl 1 MASK_BIT_RVRN)) as [lks|e| |]; cbn [bind]; [|reflexivity|reflexivity|reflexivity].
    destruct (gsub_apply_lookups_impl m t gd lks gs 0 (len gs)) as [[gs0 l0]|e| |]; cbn [bind]; [|reflexivity|reflexivity|reflexivity].
    apply gsub_apply_default_tail_no_subst; exact Hn.
  - cbn [bind]. apply gsub_apply_default_tail_no_subst; exact Hn.
Qed.

Theorem gsub_apply_default_v_unvaried m t fvt gd script lang mask n gs :
  gsub_apply_default_v m t fvt gd script lang mask None n gs = gsub_apply_default m t gd script lang mask n gs.
Proof.
  rewrite gsub_apply_default_v_no_subst with (fv := None); [reflexivity|reflexivity|left; reflexivity].
Qed.

(* ================================================================== (d) substitute *)
(* what the search loop does on ANY record list: the first record whose feature index is >= the wanted one
   decides — it is used if its index is equal, otherwise the search gives up *)
Lemma substitution_record_first_ge fi : forall recs,
  substitution_record recs fi =
  match find (fun r => fi <=? fst r) recs with
  | Some r => if fst r =? fi then Some r else None
  | None => None
  end.
Proof.
  induction recs as [|r rest IH]; [reflexivity|]. cbn [substitution_record find].
  destruct (fst r =? fi) eqn:E1.
  - replace (fi <=? fst r) with true by lia. rewrite E1. reflexivity.
  - destruct (fi <? fst r) eqn:E2.
    + replace (fi <=? fst r) with true by lia. rewrite E1. reflexivity.
    + replace (fi <=? fst r) with false by lia. apply IH.
Qed.

Lemma find_none_intro {A} (f : A -> bool) : forall l, (forall x, In x l -> f x = false) -> find f l = None.
Proof.
  induction l as [|a l IH]; intros H; [reflexivity|]. cbn [find].
  rewrite (H a) by (left; reflexivity). apply IH. intros x Hx. apply H. right; exact Hx.
Qed.

(* under the order the format prescribes this is "the first record with that feature index" *)
Lemma substitution_record_sorted fi : forall recs, fi_sorted recs ->
  substitution_record recs fi = find (fun r => fst r =? fi) recs.
Proof.
  induction recs as [|r rest IH]; intros Hs; [reflexivity|]. cbn [substitution_record find].
  destruct Hs as [Hle Hs]. destruct (fst r =? fi) eqn:E1; [reflexivity|].
  destruct (fi <? fst r) eqn:E2; [|apply IH; exact Hs].
  symmetry. apply find_none_intro. intros r' Hin. specialize (Hle r' Hin). lia.
Qed.

Lemma substitution_record_sound fi recs r : substitution_record recs fi = Some r -> In r recs /\ fst r = fi.
Proof.
  induction recs as [|r0 rest IH]; cbn [substitution_record]; [discriminate|].
  destruct (fst r0 =? fi) eqn:E1.
  - intros H; injection H as <-. split; [left; reflexivity|lia].
  - destruct (fi <? fst r0); [discriminate|]. intros H. destruct (IH H). split; [right; assumption|assumption].
Qed.

(* a feature index no record names is never substituted — sorted or not *)
Lemma substitution_record_unlisted fi recs : ~ In fi (map fst recs) -> substitution_record recs fi = None.
Proof.
  intros Hn. destruct (substitution_record recs fi) as [r|] eqn:E; [|reflexivity].
  apply substitution_record_sound in E. destruct E as [Hin <-]. exfalso; apply Hn. apply in_map; exact Hin.
Qed.

(* sorted records: every listed feature index is substituted, by its first record *)
Lemma substitution_record_listed fi recs : fi_sorted recs -> In fi (map fst recs) ->
  exists r, substitution_record recs fi = Some r /\ fst r = fi.
Proof.
  intros Hs Hin. rewrite substitution_record_sorted by exact Hs.
  destruct (find (fun r => fst r =? fi) recs) as [r|] eqn:F.
  - exists r. split; [reflexivity|]. apply find_some in F. lia.
  - exfalso. apply in_map_iff in Hin. destruct Hin as [r [E Hr]].
    pose proof (find_none _ _ F r Hr) as H. cbn beta in H. lia.
Qed.

(* unsorted records: a record that follows one with a larger feature index is not found *)
Lemma substitution_record_shadowed fi r0 rest : fi < fst r0 -> substitution_record (r0 :: rest) fi = None.
Proof.
  intros H. cbn [substitution_record]. replace (fst r0 =? fi) with false by lia.
  replace (fi <? fst r0) with true by lia. reflexivity.
Qed.

Lemma fts_substitute_table m sc recs fi :
  fts_substitute m (FSTable sc recs) fi =
  match substitution_record recs fi with
  | None => Ok None
  | Some r => alternate_table m sc (snd r)
  end.
Proof. reflexivity. Qed.

Theorem fts_substitute_sorted m sc recs fi : fi_sorted recs ->
  fts_substitute m (FSTable sc recs) fi =
  match find (fun r => fst r =? fi) recs with
  | None => Ok None
  | Some r => alternate_table m sc (snd r)
  end.
Proof. intros Hs. rewrite fts_substitute_table, substitution_record_sorted by exact Hs. reflexivity. Qed.

Theorem fts_substitute_unlisted m s fi :
  match s with FSNone => True | FSTable _ recs => ~ In fi (map fst recs) end -> fts_substitute m s fi = Ok None.
Proof.
  destruct s as [|sc recs]; intros H; [reflexivity|].
  rewrite fts_substitute_table, substitution_record_unlisted by exact H. reflexivity.
Qed.

(* ================================================================== (e) end to end *)
Lemma subst_features_nth m s : forall fl i fl', subst_features m s fl i = Ok fl' ->
  forall k : nat,
    match nth_error fl k with
    | Some rec => exists alt, fts_substitute m s (i + Z.of_nat k) = Ok alt /\
                  nth_error fl' k = Some (fst rec, match alt with Some a => a | None => snd rec end)
    | None => nth_error fl' k = None
    end.
Proof.
  induction fl as [|[tag li] rest IH]; intros i fl' H k; cbn [subst_features] in H.
  - injection H as <-. destruct k; reflexivity.
  - destruct (fts_substitute m s i) as [alt|e| |] eqn:A; cbn [bind] in H; try discriminate.
    destruct (subst_features m s rest (i + 1)) as [rest'|e| |] eqn:R; cbn [bind] in H; try discriminate.
    injection H as <-. destruct k; cbn [nth_error].
    + exists alt. rewrite Z.add_0_r. split; [exact A|reflexivity].
    + specialize (IH (i + 1) rest' R k). destruct (nth_error rest k) as [rec|].
      * destruct IH as [alt' [A' N']]. exists alt'. split; [|exact N']. rewrite <- A'. f_equal. lia.
      * exact IH.
Qed.

Lemma find_feature_in_v_subst m s fl fl' tag : subst_features m s fl 0 = Ok fl' -> forall idx,
  find_feature_in_v m s fl idx tag = find_feature_in fl' idx tag.
Proof.
  intros Hs. induction idx as [|fi rest IH]; [reflexivity|]. cbn [find_feature_in_v find_feature_in].
  unfold checked_nth, nth_opt. destruct (fi <? 0) eqn:Neg; [reflexivity|].
  pose proof (subst_features_nth m s fl 0 fl' Hs (Z.to_nat fi)) as Hk.
  destruct (nth_error fl (Z.to_nat fi)) as [rec|].
  - destruct Hk as [alt [A N]]. rewrite N. cbn [bind fst snd].
    destruct (fst rec =? tag); [|apply IH].
    replace (0 + Z.of_nat (Z.to_nat fi)) with fi in A by lia. rewrite A. reflexivity.
  - rewrite Hk. reflexivity.
Qed.

(* the three cases of subst_layout *)
Lemma subst_layout_cases m fv t t' : subst_layout m fv t = Ok t' ->
  (t' = t /\ (fv = None \/ lt_features t = None)) \/
  (exists s fl fl', fv = Some s /\ lt_features t = Some fl /\ subst_features m s fl 0 = Ok fl' /\
                    t' = mkLayout (lt_scripts t) (Some fl') (lt_lookups t)).
Proof.
  unfold subst_layout. destruct fv as [s|]; [|intros H; injection H as <-; left; auto].
  destruct (lt_features t) as [fl|] eqn:F; [|intros H; injection H as <-; left; auto].
  destruct (subst_features m s fl 0) as [fl'|e| |] eqn:S; cbn [bind]; try discriminate.
  intros H; injection H as <-. right. exists s, fl, fl'. auto.
Qed.

Lemma subst_layout_scripts m fv t t' : subst_layout m fv t = Ok t' -> lt_scripts t' = lt_scripts t.
Proof.
  intros H. apply subst_layout_cases in H. destruct H as [[-> _]|[s [fl [fl' [_ [_ [_ ->]]]]]]]; reflexivity.
Qed.

Lemma subst_layout_lookups m fv t t' : subst_layout m fv t = Ok t' -> lt_lookups t' = lt_lookups t.
Proof.
  intros H. apply subst_layout_cases in H. destruct H as [[-> _]|[s [fl [fl' [_ [_ [_ ->]]]]]]]; reflexivity.
Qed.

Lemma find_langsys_feature_v_subst m t t' ls tag fv : subst_layout m fv t = Ok t' ->
  find_langsys_feature_v m t ls tag fv = find_langsys_feature t' ls tag.
Proof.
  intros H. apply subst_layout_cases in H.
  destruct H as [[-> [->|F]]|[s [fl [fl' [-> [F [S ->]]]]]]].
  - apply find_langsys_feature_v_none.
  - unfold find_langsys_feature_v, find_langsys_feature. rewrite F. reflexivity.
  - unfold find_langsys_feature_v, find_langsys_feature. rewrite F. cbn [lt_features].
    apply find_feature_in_v_subst; exact S.
Qed.

Lemma build_lookups_custom_v_subst m t t' ls fv : subst_layout m fv t = Ok t' -> forall feats rvrn mp,
  build_lookups_custom_v m t ls fv feats rvrn mp = build_lookups_custom t' ls feats rvrn mp.
Proof.
  intros Hs. induction feats as [|[tag alt] rest IH]; intros rvrn mp; [reflexivity|].
  cbn [build_lookups_custom_v build_lookups_custom]. rewrite (find_langsys_feature_v_subst m t t') by exact Hs.
  destruct (find_langsys_feature t' ls tag) as [[idx|]|e| |]; cbn [bind]; [|apply IH|reflexivity|reflexivity|reflexivity].
  destruct (tag =? TAG_EARLY); apply IH.
Qed.

Lemma build_lookups_default_v_subst m t t' ls fv mask : subst_layout m fv t = Ok t' -> forall tbl mp,
  build_lookups_default_v m t ls fv mask tbl mp = build_lookups_default t' ls mask tbl mp.
Proof.
  intros Hs. induction tbl as [|[bit tag] rest IH]; intros mp; [reflexivity|].
  cbn [build_lookups_default_v build_lookups_default].
  destruct (Z.testbit mask bit); [|apply IH].
  rewrite !(find_langsys_feature_v_subst m t t') by exact Hs.
  destruct (find_langsys_feature t' ls tag) as [[idx|]|e| |]; cbn [bind]; [apply IH| |reflexivity|reflexivity|reflexivity].
  destruct (tag =? TAG_MASK_FALLBACK_FROM); [|apply IH].
  destruct (find_langsys_feature t' ls TAG_MASK_FALLBACK_TO) as [[idx|]|e| |]; cbn [bind];
    [apply IH|apply IH|reflexivity|reflexivity|reflexivity].
Qed.

Lemma find_script_subst m fv t t' script : subst_layout m fv t = Ok t' ->
  find_script_or_default t' script = find_script_or_default t script.
Proof. intros H. unfold find_script_or_default. rewrite (subst_layout_scripts m fv t t' H). reflexivity. Qed.

Lemma lookups_for_mask_v_subst m t t' script lang fv mask : subst_layout m fv t = Ok t' ->
  lookups_for_mask_v m t script lang fv mask = lookups_for_mask t' script lang mask.
Proof.
  intros Hs. unfold lookups_for_mask_v, lookups_for_mask. rewrite (find_script_subst m fv t t' script Hs).
  destruct (find_script_or_default t script); [|reflexivity].
  destruct (find_langsys_or_default s lang); [|reflexivity].
  apply build_lookups_default_v_subst; exact Hs.
Qed.

(* the tags of the feature list do not change *)
Lemma supported_mask_subst m fv t t' : subst_layout m fv t = Ok t' -> forall idx acc,
  supported_mask t' idx acc = supported_mask t idx acc.
Proof.
  intros H. apply subst_layout_cases in H.
  destruct H as [[-> _]|[s [fl [fl' [_ [F [S ->]]]]]]]; [reflexivity|].
  induction idx as [|fi rest IH]; intros acc; [reflexivity|]. cbn [supported_mask lt_features]. rewrite F.
  unfold checked_nth, nth_opt. destruct (fi <? 0); [reflexivity|].
  pose proof (subst_features_nth m s fl 0 fl' S (Z.to_nat fi)) as Hk.
  destruct (nth_error fl (Z.to_nat fi)) as [rec|].
  - destruct Hk as [alt [_ N]]. rewrite N. cbn [bind fst]. apply IH.
  - rewrite Hk. reflexivity.
Qed.

Lemma get_supported_features_subst m fv t t' script lang : subst_layout m fv t = Ok t' ->
  get_supported_features t' script lang = get_supported_features t script lang.
Proof.
  intros Hs. unfold get_supported_features. rewrite (find_script_subst m fv t t' script Hs).
  destruct (find_script_or_default t script); [|reflexivity].
  destruct (find_langsys_or_default s lang); [|reflexivity].
  apply (supported_mask_subst m fv t t' Hs).
Qed.

(* the application loops read the lookup list only *)
Lemma apply_rvrn_ext m t t' gd : lt_lookups t' = lt_lookups t -> forall idx gs,
  apply_rvrn m t' gd idx gs = apply_rvrn m t gd idx gs.
Proof.
  intros H. induction idx as [|li rest IH]; intros gs; [reflexivity|]. cbn [apply_rvrn]. rewrite H.
  destruct (gsub_apply_lookup m (lt_lookups t) gd li TAG_RVRN None gs 0 (len gs)) as [[gs' l]|e| |]; cbn [bind];
    [apply IH|reflexivity|reflexivity|reflexivity].
Qed.

Lemma apply_lookups_custom_ext m t t' gd feats : lt_lookups t' = lt_lookups t -> forall lks gs,
  apply_lookups_custom m t' gd feats lks gs = apply_lookups_custom m t gd feats lks gs.
Proof.
  intros H. induction lks as [|[li tag] rest IH]; intros gs; [reflexivity|]. cbn [apply_lookups_custom]. rewrite H.
  destruct (if (tag =? TAG_LAST_ONLY) && negb (len gs =? 0)
            then gsub_apply_lookup m (lt_lookups t) gd li tag (find_alternate feats tag) gs (len gs - 1) 1
            else gsub_apply_lookup m (lt_lookups t) gd li tag (find_alternate feats tag) gs 0 (len gs))
    as [[gs' l]|e| |]; cbn [bind]; [apply IH|reflexivity|reflexivity|reflexivity].
Qed.

Lemma gsub_apply_lookups_impl_ext m t t' gd : lt_lookups t' = lt_lookups t -> forall lks gs start length,
  gsub_apply_lookups_impl m t' gd lks gs start length = gsub_apply_lookups_impl m t gd lks gs start length.
Proof.
  intros H. induction lks as [|[li tag] rest IH]; intros gs start length; [reflexivity|].
  cbn [gsub_apply_lookups_impl]. rewrite H.
  destruct (gsub_apply_lookup m (lt_lookups t) gd li tag None gs start length) as [[gs' l]|e| |]; cbn [bind];
    [apply IH|reflexivity|reflexivity|reflexivity].
Qed.

(* Features::Custom under a tuple = the unvaried run on the feature list substituted by the chosen record *)
Theorem gsub_apply_custom_v_subst m t t' fvt gd script lang feats tu n gs fv :
  feature_variations m fvt tu = Ok fv -> subst_layout m fv t = Ok t' ->
  gsub_apply_custom_v m t fvt gd script lang feats tu n gs = gsub_apply_custom m t' gd script lang feats n gs.
Proof.
  intros Hfv Hs. unfold gsub_apply_custom_v, gsub_apply_custom.
  rewrite (find_script_subst m fv t t' script Hs).
  destruct (find_script_or_default t script); [|reflexivity].
  destruct (find_langsys_or_default s lang); [|reflexivity].
  rewrite Hfv. cbn [bind]. rewrite (build_lookups_custom_v_subst m t t' l fv Hs).
  pose proof (subst_layout_lookups m fv t t' Hs) as Hl.
  destruct (build_lookups_custom t' l feats None []) as [[rvrn lks]|e| |]; cbn [bind]; [|reflexivity|reflexivity|reflexivity].
  assert (E : match rvrn with Some idx => apply_rvrn m t gd idx gs | None => Ok gs end =
              match rvrn with Some idx => apply_rvrn m t' gd idx gs | None => Ok gs end).
  { destruct rvrn; [symmetry; apply apply_rvrn_ext; exact Hl|reflexivity]. }
  rewrite E. destruct (match rvrn with Some idx => apply_rvrn m t' gd idx gs | None => Ok gs end) as [gs1|e| |];
    cbn [bind]; [|reflexivity|reflexivity|reflexivity].
  rewrite (apply_lookups_custom_ext m t t' gd feats Hl). reflexivity.
Qed.

(* an unreadable table that had to be read fails the run (once script and language system are found) *)
Theorem gsub_apply_custom_v_error m t fvt gd script lang feats tu n gs e s ls :
  feature_variations m fvt tu = Err e ->
  find_script_or_default t script = Some s -> find_langsys_or_default s lang = Some ls ->
  gsub_apply_custom_v m t fvt gd script lang feats tu n gs = Err e.
Proof. intros Hfv Hs Hl. unfold gsub_apply_custom_v. rewrite Hs, Hl, Hfv. reflexivity. Qed.

Lemma gsub_apply_default_tail_subst m t t' gd script lang mask n gs0 fv : subst_layout m fv t = Ok t' ->
  (let mask1 := mask_remove mask MASK_BIT_REMOVED in
   supported <- get_supported_features t script lang ;;
   let mask2 := Z.land mask1 supported in
   if Z.testbit mask2 MASK_BIT_SPLIT then Err NotImplemented
   else
     lks <- lookups_for_mask_v m t script lang fv mask2 ;;
     '(gs', _) <- gsub_apply_lookups_impl m t gd lks gs0 0 (len gs0) ;;
     Ok (replace_missing_glyphs (strip_joiners gs') n)) =
  gsub_apply_default m t' gd script lang mask n gs0.
Proof.
  intros Hs. unfold gsub_apply_default. cbv zeta. rewrite (get_supported_features_subst m fv t t' script lang Hs).
  destruct (get_supported_features t script lang) as [sup|e| |]; cbn [bind]; [|reflexivity|reflexivity|reflexivity].
  destruct (Z.testbit (Z.land (mask_remove mask MASK_BIT_REMOVED) sup) MASK_BIT_SPLIT); [reflexivity|].
  rewrite (lookups_for_mask_v_subst m t t' script lang fv _ Hs).
  destruct (lookups_for_mask t' script lang (Z.land (mask_remove mask MASK_BIT_REMOVED) sup)) as [lks|e| |];
    cbn [bind]; [|reflexivity|reflexivity|reflexivity].
  rewrite (gsub_apply_lookups_impl_ext m t t' gd (subst_layout_lookups m fv t t' Hs)). reflexivity.
Qed.

(* Features::Mask under a tuple: the rvrn lookups first, then the mask's lookups, both from the substituted list *)
Theorem gsub_apply_default_v_subst m t t' fvt gd script lang mask tu n gs fv :
  feature_variations m fvt tu = Ok fv -> subst_layout m fv t = Ok t' ->
  gsub_apply_default_v m t fvt gd script lang mask tu n gs =
  gsub_apply_default_t m t' gd script lang mask (match tu with Some _ => true | None => false end) n gs.
Proof.
  intros Hfv Hs. unfold gsub_apply_default_v, gsub_apply_default_t. rewrite Hfv. cbn [bind].
  destruct tu as [tv|].
  - unfold apply_rvrn_default, apply_rvrn_mask. rewrite (lookups_for_mask_v_subst m t t' script lang fv _ Hs).
    destruct (lookups_for_mask t' script lang (Z.shiftl 1 MASK_BIT_RVRN)) as [lks|e| |]; cbn [bind];
      [|reflexivity|reflexivity|reflexivity].
    rewrite (gsub_apply_lookups_impl_ext m t t' gd (subst_layout_lookups m fv t t' Hs)).
    destruct (gsub_apply_lookups_impl m t gd lks gs 0 (len gs)) as [[gs0 l0]|e| |]; cbn [bind];
      [|reflexivity|reflexivity|reflexivity].
    apply gsub_apply_default_tail_subst; exact Hs.
  - cbn [bind]. apply gsub_apply_default_tail_subst; exact Hs.
Qed.

Theorem gsub_apply_default_v_error m t fvt gd script lang mask tu n gs e :
  feature_variations m fvt tu = Err e -> gsub_apply_default_v m t fvt gd script lang mask tu n gs = Err e.
Proof. intros Hfv. unfold gsub_apply_default_v. rewrite Hfv. reflexivity. Qed.

(* the substituted list: tags kept, lookup lists replaced exactly at the substituted indices *)
Theorem subst_features_spec m s fl fl' : subst_features m s fl 0 = Ok fl' ->
  length fl' = length fl /\
  forall k tag li, nth_error fl k = Some (tag, li) ->
    exists alt, fts_substitute m s (Z.of_nat k) = Ok alt /\
                nth_error fl' k = Some (tag, match alt with Some a => a | None => li end).
Proof.
  intros H. split.
  - assert (L : forall k, nth_error fl' k = None <-> nth_error fl k = None).
    { intros k. pose proof (subst_features_nth m s fl 0 fl' H k) as Hk.
      destruct (nth_error fl k) as [rec|]; [destruct Hk as [alt [_ N]]; rewrite N; split; discriminate|].
      rewrite Hk. split; reflexivity. }
    destruct (Nat.lt_trichotomy (length fl') (length fl)) as [Lt|[E|Gt]]; [|exact E|].
    + pose proof (proj2 (nth_error_None fl' (length fl')) (le_n _)) as N. apply L in N.
      apply nth_error_None in N. lia.
    + pose proof (proj2 (nth_error_None fl (length fl)) (le_n _)) as N. apply L in N.
      apply nth_error_None in N. lia.
  - intros k tag li N. pose proof (subst_features_nth m s fl 0 fl' H k) as Hk. rewrite N in Hk.
    destruct Hk as [alt [A N']]. exists alt. rewrite Z.add_0_l in A. split; [exact A|exact N'].
Qed.

(* ================================================================== totality: substitution never panics *)
(* a scope over a byte string shorter than 2^32 (an OpenType table) *)
Definition scope_ok (s : scope) : Prop := bytes_ok (data s) = true /\ dlen s < 4294967296.
Definition ctxt_ok (c : ctxt) : Prop := scope_ok (sc c) /\ 0 <= off c <= dlen (sc c).

Lemma scope_ok_sinv s : scope_ok s -> sinv s.
Proof. unfold scope_ok, sinv, USIZE. intros [_ H]; lia. Qed.

Lemma ctxt_ok_cinv c : ctxt_ok c -> cinv c.
Proof. intros [Hs Ho]. split; [exact Ho|apply scope_ok_sinv; exact Hs]. Qed.

Lemma scope_ok_new d : table_ok d -> scope_ok (scope_new d).
Proof. intros [Hb Hl]. split; [exact Hb|exact Hl]. Qed.

Lemma scope_offset_ok m s o s' : scope_ok s -> scope_offset m s o = Ok s' -> scope_ok s'.
Proof.
  intros [Hb Hl] H. split.
  - unfold scope_offset in H. apply bind_ok in H. destruct H as [b [_ H]]. injection H as <-. cbn [data].
    apply bytes_ok_slice_from; exact Hb.
  - pose proof (scope_offset_dlen m s o s' H). lia.
Qed.

Lemma ctxt_ok_new s : scope_ok s -> ctxt_ok (ctxt_new s).
Proof. intros H. split; [exact H|]. cbn [ctxt_new off sc]. pose proof (dlen_nonneg s). lia. Qed.

Lemma be_val_nonneg_ok l : bytes_ok l = true -> 0 <= be_val l.
Proof.
  unfold be_val. assert (G : forall acc, 0 <= acc -> bytes_ok l = true -> 0 <= fold_left (fun a b => a * 256 + b) l acc).
  { induction l as [|b l IH]; intros acc Ha Hb; cbn [fold_left]; [exact Ha|].
    unfold bytes_ok in Hb. cbn [forallb] in Hb. apply andb_true_iff in Hb. destruct Hb as [Hb0 Hb].
    unfold byte_ok in Hb0. apply IH; [lia|exact Hb]. }
  apply G. lia.
Qed.

(* a successful unsigned read: non-negative value, the cursor stays in the same scope *)
Lemma read_prim_ok_props p c v c' : prim_signed p = false -> ctxt_ok c -> read_prim p c = Ok (v, c') ->
  0 <= v /\ ctxt_ok c'.
Proof.
  intros Hu Hc H. pose proof Hc as [[Hb Hl] Ho].
  destruct (read_prim_exact p c Hb (ctxt_ok_cinv c Hc)) as [[Hle E]|[_ E]]; rewrite E in H; [|discriminate].
  injection H as <- <-. split.
  - unfold decode_prim. rewrite Hu. apply be_val_nonneg_ok. apply bytes_ok_take. apply bytes_ok_drop. exact Hb.
  - split; cbn [sc off]; [split; assumption|].
    assert (0 <= spec_size p) by (destruct p; cbv; discriminate). lia.
Qed.

Lemma read_prim_ok_ctxt p c v c' : ctxt_ok c -> read_prim p c = Ok (v, c') -> ctxt_ok c'.
Proof.
  intros Hc H. pose proof Hc as [[Hb Hl] Ho].
  destruct (read_prim_exact p c Hb (ctxt_ok_cinv c Hc)) as [[Hle E]|[_ E]]; rewrite E in H; [|discriminate].
  injection H as <- <-. split; cbn [sc off]; [split; assumption|].
  assert (0 <= spec_size p) by (destruct p; cbv; discriminate). lia.
Qed.

Lemma iter_next_total m s st t idx :
  0 <= idx -> 0 <= st -> idx * st < USIZE -> ty_size t <= st -> exists r, iter_next m s st t idx = Ok r.
Proof.
  intros Hi Hst Hm Ht. unfold iter_next, umul. replace (idx * st <? USIZE) with true by lia. cbn [bind].
  unfold scope_offset, wadd. cbn [bind].
  set (s' := {| base := (base s + idx * st) mod USIZE; data := slice_from (data s) (idx * st) |}).
  destruct (check_avail (ctxt_new s') st) eqn:E; [|eauto].
  apply check_avail_true in E; cbn [ctxt_new off sc]; try lia. cbn [ctxt_new off sc] in E.
  destruct (read_unchecked_ty_ok t (ctxt_new s')) as [vs Hvs]; cbn [ctxt_new off sc]; try lia.
  pose proof (ty_size_nonneg t). rewrite Hvs. cbn [bind]. eauto.
Qed.

Lemma iter_collect_total m s st t : 0 <= st -> ty_size t <= st -> forall fuel idx,
  0 <= idx -> (idx + Z.of_nat fuel) * st < USIZE -> exists v, iter_collect fuel m s st t idx = Ok v.
Proof.
  intros Hst Ht. induction fuel as [|f IH]; intros idx Hi Hm; cbn [iter_collect]; [eauto|].
  destruct (iter_next_total m s st t idx Hi Hst ltac:(nia) Ht) as [r ->]. cbn [bind].
  destruct r as [v|]; [|eauto].
  destruct (IH (idx + 1) ltac:(lia) ltac:(nia)) as [vs ->]. cbn [bind]. eauto.
Qed.

Lemma arr_to_vec_total m a :
  dlen (a_sc a) < 4294967296 -> 0 <= a_stride a <= 8 -> ty_size (a_ty a) <= a_stride a ->
  exists v, arr_to_vec m a = Ok v.
Proof.
  intros Hl Hs Ht. unfold arr_to_vec. apply iter_collect_total; try lia.
  unfold dlen, len, USIZE in *. nia.
Qed.

(* a bounds-checked array of a small fixed-size type over an ok context enumerates without panic *)
Lemma read_array_then_vec m t c n : ctxt_ok c -> 0 <= n -> 0 < ty_size t <= 8 ->
  defined (bind (read_array m t c n) (fun '(arr, _) => arr_to_vec m arr)).
Proof.
  intros Hc Hn Ht. pose proof (ctxt_ok_cinv c Hc) as Hci. rewrite read_array_is_stride.
  apply defined_bind; [apply read_array_stride_defined; [exact Hci|exact Hn|lia]|].
  intros [arr c'] H. apply read_array_stride_inv in H; [|exact Hci|exact Hn|lia|lia].
  destruct H as [_ [_ [_ [_ [_ [Hst [Hty [_ [_ [_ Hd]]]]]]]]]].
  destruct (arr_to_vec_total m arr) as [v ->]; [| | |apply defined_ok].
  - unfold dlen. rewrite Hd. pose proof (len_take_le (n * ty_size t) (drop (off c) (data (sc c)))).
    destruct Hc as [[_ Hl] _]. unfold drop, dlen, len in *. rewrite skipn_length in H. lia.
  - lia.
  - rewrite Hty, Hst. lia.
Qed.

Lemma feature_table_read_defined m c : ctxt_ok c -> defined (feature_table_read m c).
Proof.
  intros Hc. unfold feature_table_read.
  apply defined_bind; [apply read_prim_defined; apply ctxt_ok_cinv; exact Hc|]. intros [v1 c1] H1.
  pose proof (read_prim_ok_ctxt _ _ _ _ Hc H1) as Hc1.
  apply defined_bind; [apply read_prim_defined; apply ctxt_ok_cinv; exact Hc1|]. intros [n c2] H2.
  destruct (read_prim_ok_props PU16 c1 n c2 eq_refl Hc1 H2) as [Hn Hc2].
  pose proof (read_array_then_vec m [PU16] c2 n Hc2 Hn ltac:(cbv; split; [reflexivity|discriminate])) as D.
  destruct (read_array m [PU16] c2 n) as [[arr c3]|e| |]; cbn [bind] in *;
    [|apply defined_err|destruct D as [[? D]|[? D]]; discriminate|destruct D as [[? D]|[? D]]; discriminate].
  apply defined_bind; [exact D|]. intros; apply defined_ok.
Qed.

Definition subst_ok (s : ft_subst) : Prop :=
  match s with FSNone => True | FSTable sc _ => scope_ok sc end.

Lemma fts_substitute_total m s fi : subst_ok s -> exists r, fts_substitute m s fi = Ok r.
Proof.
  destruct s as [|sc recs]; intros Hs; cbn [fts_substitute]; [eauto|].
  destruct (substitution_record recs fi) as [r|]; [|eauto].
  unfold scope_offset at 1, wadd. cbn [bind].
  set (s' := {| base := (base sc + snd r) mod USIZE; data := slice_from (data sc) (snd r) |}).
  assert (Hs' : scope_ok s').
  { apply (scope_offset_ok m sc (snd r)); [exact Hs|reflexivity]. }
  destruct (feature_table_read_defined m (ctxt_new s') (ctxt_ok_new s' Hs')) as [[ft ->]|[e ->]]; eauto.
Qed.

Lemma subst_features_total m s : subst_ok s -> forall fl i, exists fl', subst_features m s fl i = Ok fl'.
Proof.
  intros Hs. induction fl as [|[tag li] rest IH]; intros i; cbn [subst_features]; [eauto|].
  destruct (fts_substitute_total m s i Hs) as [alt ->]. cbn [bind].
  destruct (IH (i + 1)) as [rest' ->]. cbn [bind]. eauto.
Qed.

Lemma subst_layout_total m fv t :
  match fv with Some s => subst_ok s | None => True end -> exists t', subst_layout m fv t = Ok t'.
Proof.
  intros Hs. unfold subst_layout. destruct fv as [s|]; [|eauto]. destruct (lt_features t) as [fl|]; [|eauto].
  destruct (subst_features_total m s Hs fl 0) as [fl' ->]. cbn [bind]. eauto.
Qed.

(* the substitution a readable FeatureVariations table yields is over an ok scope *)
Lemma ctxt_scope_ok m c s : ctxt_ok c -> ctxt_scope m c = Ok s -> scope_ok s.
Proof. intros [Hs _] H. unfold ctxt_scope in H. eapply scope_offset_ok; eassumption. Qed.

Lemma fts_table_read_ok m c s : ctxt_ok c -> fts_table_read m c = Ok s -> subst_ok s.
Proof.
  intros Hc H. unfold fts_table_read in H.
  apply bind_ok in H. destruct H as [sc0 [Hsc H]].
  apply bind_ok in H. destruct H as [[major c1] [_ H]].
  destruct (negb (major =? FV_SUBST_MAJOR)); [discriminate|].
  apply bind_ok in H. destruct H as [[mi c2] [_ H]].
  apply bind_ok in H. destruct H as [[count c3] [_ H]].
  apply bind_ok in H. destruct H as [[arr c4] [_ H]].
  apply bind_ok in H. destruct H as [recs [_ H]]. injection H as <-.
  cbn [subst_ok]. eapply ctxt_scope_ok; eassumption.
Qed.

Lemma record_substitution_ok m sc off s : scope_ok sc -> record_substitution m sc off = Ok s -> subst_ok s.
Proof.
  intros Hs H. unfold record_substitution in H. destruct (off =? 0); [injection H as <-; exact I|].
  apply bind_ok in H. destruct H as [s' [Hs' H]].
  eapply fts_table_read_ok; [|exact H]. apply ctxt_ok_new. eapply scope_offset_ok; eassumption.
Qed.

Lemma fv_matches_subst_ok m sc recs t s : scope_ok sc -> fv_matches m sc recs t = Ok (Some s) -> subst_ok s.
Proof.
  intros Hs H. apply fv_matches_some in H. destruct H as [i [r [_ [_ [S _]]]]].
  eapply record_substitution_ok; eassumption.
Qed.

Definition fv_table_ok (fvt : option fv_table) : Prop :=
  match fvt with Some f => scope_ok (fv_scope f) | None => True end.

Lemma feature_variations_subst_ok m fvt tu fv : fv_table_ok fvt -> feature_variations m fvt tu = Ok fv ->
  match fv with Some s => subst_ok s | None => True end.
Proof.
  intros Hf H. destruct fv as [s|]; [|exact I]. unfold feature_variations in H.
  destruct tu as [t|]; [|discriminate]. destruct fvt as [f|]; [|discriminate].
  eapply fv_matches_subst_ok; eassumption.
Qed.

Lemma feature_variations_read_ok m c f : ctxt_ok c -> feature_variations_read m c = Ok f -> scope_ok (fv_scope f).
Proof.
  intros Hc H. unfold feature_variations_read in H.
  apply bind_ok in H. destruct H as [sc0 [Hsc H]].
  apply bind_ok in H. destruct H as [[major c1] [_ H]].
  destruct (negb (major =? FV_MAJOR)); [discriminate|].
  apply bind_ok in H. destruct H as [[mi c2] [_ H]].
  apply bind_ok in H. destruct H as [[count c3] [_ H]].
  apply bind_ok in H. destruct H as [[arr c4] [_ H]].
  apply bind_ok in H. destruct H as [recs [_ H]]. injection H as <-.
  cbn [fv_scope]. eapply ctxt_scope_ok; eassumption.
Qed.

Lemma layout_read_fv_ok m d fvt : table_ok d -> layout_read_fv m d = Ok fvt -> fv_table_ok fvt.
Proof.
  intros Hd H. unfold layout_read_fv in H.
  apply bind_ok in H. destruct H as [[major c1] [_ H]].
  apply bind_ok in H. destruct H as [[minor c2] [_ H]].
  apply bind_ok in H. destruct H as [[x3 c3] [_ H]].
  apply bind_ok in H. destruct H as [[x4 c4] [_ H]].
  apply bind_ok in H. destruct H as [[x5 c5] [_ H]].
  destruct (negb (major =? LAYOUT_MAJOR)); [discriminate|].
  destruct (0 <? minor); [|injection H as <-; exact I].
  apply bind_ok in H. destruct H as [[off c6] [_ H]].
  destruct (0 <? off); [|injection H as <-; exact I].
  apply bind_ok in H. destruct H as [s [Hs H]].
  apply bind_ok in H. destruct H as [f [Hf H]]. injection H as <-.
  cbn [fv_table_ok]. eapply feature_variations_read_ok; [|exact Hf].
  apply ctxt_ok_new. eapply scope_offset_ok; [|exact Hs]. apply scope_ok_new; exact Hd.
Qed.

(* for every byte string that is a table: whenever the variations are readable, the substituted feature list
   exists — the end-to-end equalities have no side condition *)
Theorem substituted_layout_exists m d fvt tu fv t :
  table_ok d -> layout_read_fv m d = Ok fvt -> feature_variations m fvt tu = Ok fv ->
  exists t', subst_layout m fv t = Ok t'.
Proof.
  intros Hd Hr Hf. apply subst_layout_total.
  eapply feature_variations_subst_ok; [|exact Hf]. eapply layout_read_fv_ok; eassumption.
Qed.

(* ================================================================== corollaries used in Props *)
(* a matching record with a NULL substitution ends the search: whatever follows is not considered *)
Theorem fv_matches_null_first m sc cs rest t :
  record_condition m sc (cs, 0) t = Ok true -> fv_matches m sc ((cs, 0) :: rest) t = Ok (Some FSNone).
Proof.
  intros H. cbn [fv_matches]. unfold record_matches. rewrite H. reflexivity.
Qed.

(* a record with an unsupported substitution table is rejected and the next record is considered *)
Theorem fv_matches_rejected_first m sc r rest t :
  record_condition m sc r t = Ok true -> record_substitution m sc (snd r) = Err BadVersion ->
  fv_matches m sc (r :: rest) t = fv_matches m sc rest t.
Proof.
  intros H S. cbn [fv_matches]. unfold record_matches. rewrite H. cbn [bind]. rewrite S. reflexivity.
Qed.

Theorem fv_matches_nomatch_first m sc r rest t :
  record_condition m sc r t = Ok false -> fv_matches m sc (r :: rest) t = fv_matches m sc rest t.
Proof. intros H. cbn [fv_matches]. unfold record_matches. rewrite H. reflexivity. Qed.

(* an unreadable table of a record that has to be examined fails the whole match — later records are not tried *)
Theorem fv_matches_unreadable_first m sc r rest t e :
  record_condition m sc r t = Err e -> fv_matches m sc (r :: rest) t = Err e.
Proof.
  intros H. pose proof (record_condition_only_eof m sc r t e H) as ->.
  cbn [fv_matches]. unfold record_matches. rewrite H. reflexivity.
Qed.

(* the ordering theorems of the unvaried run carry over: the list handed to the application loop under a
   tuple is strictly increasing in the lookup index and holds exactly the lookups of the SUBSTITUTED features *)
From AV Require Import Model.LayoutSpec Proofs.GsubProofs.

Theorem fv_lookups_applied_in_list_order m t t' ls fv feats rvrn lks :
  subst_layout m fv t = Ok t' ->
  build_lookups_custom_v m t ls fv feats None [] = Ok (rvrn, lks) ->
  strictly_sorted (map fst lks) /\
  (forall k, In k (map fst lks) <-> contributes t' ls feats k) /\
  (forall tg, In tg (map snd lks) -> In tg (map fst feats)).
Proof.
  intros Hs H. rewrite (build_lookups_custom_v_subst m t t' ls fv Hs) in H.
  exact (lookups_applied_in_list_order _ _ _ _ _ H).
Qed.

Theorem fv_mask_lookups_applied_in_list_order m t t' script lang fv mask lks :
  subst_layout m fv t = Ok t' ->
  lookups_for_mask_v m t script lang fv mask = Ok lks ->
  strictly_sorted (map fst lks) /\
  (forall s ls, find_script_or_default t' script = Some s -> find_langsys_or_default s lang = Some ls ->
     forall k, In k (map fst lks) <-> contributes_mask t' ls mask FEATURE_MASKS k).
Proof.
  intros Hs H. rewrite (lookups_for_mask_v_subst m t t' script lang fv mask Hs) in H.
  exact (mask_lookups_applied_in_list_order _ _ _ _ _ H).
Qed.

(* everything together: from the bytes of the table to the glyphs *)
Theorem gsub_apply_under_tuple m d fvt tu fv t :
  table_ok d -> layout_read_fv m d = Ok fvt -> feature_variations m fvt tu = Ok fv ->
  exists t', subst_layout m fv t = Ok t' /\
    (forall gd script lang feats n gs,
       gsub_apply_custom_v m t fvt gd script lang feats tu n gs = gsub_apply_custom m t' gd script lang feats n gs) /\
    (forall gd script lang mask n gs,
       gsub_apply_default_v m t fvt gd script lang mask tu n gs =
       gsub_apply_default_t m t' gd script lang mask (match tu with Some _ => true | None => false end) n gs).
Proof.
  intros Hd Hr Hf. destruct (substituted_layout_exists m d fvt tu fv t Hd Hr Hf) as [t' Ht'].
  exists t'. split; [exact Ht'|]. split.
  - intros. apply gsub_apply_custom_v_subst with (fv := fv); assumption.
  - intros. apply gsub_apply_default_v_subst with (fv := fv); assumption.
Qed.
