(* Proofs/Woff2Dir.v — WOFF2 table directory (section 4.1), collection directory (4.2) and the
   extraction of untransformed tables from the data block. *)
From AV Require Import Base.Prelude Base.Lemmas Gen.Woff2Lut Model.Woff2
  Proofs.Woff2Spec Proofs.Woff2Ints Proofs.Woff2Triplet Proofs.Woff2Glyf.
From Coq Require Import ZifyBool.
Ltac Zify.zify_post_hook ::= Z.div_mod_to_equations.
Open Scope Z_scope.

(* the table in lut.rs is the table of the specification *)
Lemma known_tags_is_spec : known_table_tags = spec_known_tags.
Proof. vm_compute. reflexivity. Qed.
Lemma special_tags_are_spec :
  tag_glyf = spec_tag_glyf /\ tag_loca = spec_tag_loca /\ tag_hmtx = spec_tag_hmtx.
Proof. vm_compute. repeat split; reflexivity. Qed.

Lemma flags_fields : forall f, 0 <= f < 256 ->
  Z.land f bits_0_to_5 = f mod 64 /\ Z.shiftr (Z.land f 192) 6 = f / 64.
Proof.
  intros f Hf.
  assert (forallb (fun f => (Z.land f bits_0_to_5 =? f mod 64) && (Z.shiftr (Z.land f 192) 6 =? f / 64))
            (range 0 256) = true) as H by (vm_compute; reflexivity).
  rewrite forallb_forall in H. specialize (H f). rewrite range_In in H. specialize (H ltac:(cbn; lia)). lia.
Qed.

Lemma known_tag_range : forall idx tag, nth_error spec_known_tags (Z.to_nat idx) = Some tag ->
  0 <= tag < 4294967296.
Proof.
  intros idx tag H. apply nth_error_In in H.
  assert (forallb (fun t => (0 <=? t) && (t <? 4294967296)) spec_known_tags = true) as Hall by (vm_compute; reflexivity).
  rewrite forallb_forall in Hall. specialize (Hall _ H). lia.
Qed.

(* one directory entry, every allowed form of the tag *)
Lemma dir_entry_roundtrip : forall t bytes offset r,
  tabspec_ok t -> encodes_dir_entry t bytes ->
  read_dir_entry offset (bytes ++ r) =
    Ok ({| e_tag := t_tag t; e_offset := offset; e_orig_length := t_orig_length t;
           e_transform_length := if t_transformed t then Some (len (t_data t)) else None |}, r).
Proof.
  intros t bytes offset r (Htag & Hol & Hdl & Htr & Hun) (idx & tagbytes & Het & ->).
  destruct special_tags_are_spec as (Eg & El & Eh).
  assert (0 <= spec_version t <= 3) as Hv.
  { unfold spec_version. destruct ((t_tag t =? spec_tag_glyf) || (t_tag t =? spec_tag_loca)), (t_transformed t); lia. }
  assert (0 <= idx < 64) as Hidx by (destruct Het; lia).
  destruct (flags_fields (spec_version t * 64 + idx) ltac:(lia)) as (F1 & F2).
  replace ((spec_version t * 64 + idx) mod 64) with idx in F1 by lia.
  replace ((spec_version t * 64 + idx) / 64) with (spec_version t) in F2 by lia.
  unfold read_dir_entry. cbn [app rd_u8 bind]. rewrite F1, F2.
  assert (forall rest,
    (if idx =? 63 then rd_u32 (tagbytes ++ rest)
     else match nth_error known_table_tags (Z.to_nat idx) with
          | Some t0 => Ok (t0, tagbytes ++ rest) | None => Panic end) = Ok (t_tag t, rest)) as Htagread.
  { intros rest. destruct Het as [idx tag Hi Hn|tag].
    - replace (idx =? 63) with false by lia. rewrite known_tags_is_spec, Hn. reflexivity.
    - cbn [Z.eqb Pos.eqb]. apply rd_u32_wr. lia. }
  rewrite <- !app_assoc. rewrite Htagread. cbn [bind].
  rewrite base128_roundtrip by lia. cbn [bind].
  rewrite Eg, El, Eh. unfold spec_version in *.
  pose proof (len_nonneg (t_data t)).
  destruct ((t_tag t =? spec_tag_glyf) || (t_tag t =? spec_tag_loca)) eqn:Egl.
  - destruct (t_transformed t) eqn:Et.
    + cbn [Z.eqb andb orb]. rewrite base128_roundtrip by lia. reflexivity.
    + cbn [Z.eqb Pos.eqb andb]. cbn [app]. reflexivity.
  - destruct (t_transformed t) eqn:Et.
    + assert (t_tag t = spec_tag_hmtx) as Hh.
      { destruct (Htr eq_refl) as [H1|[H1|H1]]; [lia|lia|exact H1]. }
      cbn [Z.eqb Pos.eqb andb orb]. rewrite Hh, Z.eqb_refl. cbn [andb orb].
      rewrite <- Hh. rewrite base128_roundtrip by lia. reflexivity.
    + cbn [Z.eqb Pos.eqb andb orb app]. reflexivity.
Qed.

(* the whole directory: offsets are the running sums of the stored lengths *)
Lemma table_directory_roundtrip : forall ts encs offset r,
  Forall tabspec_ok ts -> Forall2 encodes_dir_entry ts encs ->
  read_table_directory (length ts) offset (concat encs ++ r) = Ok (spec_entries offset ts, r).
Proof.
  intros ts encs offset r Hok H. revert offset r.
  induction H as [|t e ts encs He _ IH]; intros offset r; [reflexivity|].
  inversion Hok as [|? ? Ht Hts]; subst.
  cbn [length read_table_directory concat spec_entries]. rewrite <- app_assoc.
  rewrite (dir_entry_roundtrip t e offset _ Ht He). cbn [bind].
  assert (entry_length {| e_tag := t_tag t; e_offset := offset; e_orig_length := t_orig_length t;
            e_transform_length := if t_transformed t then Some (len (t_data t)) else None |}
          = len (t_data t)) as Hl.
  { unfold entry_length. cbn [e_transform_length e_orig_length].
    destruct Ht as (_ & _ & _ & _ & Hun). destruct (t_transformed t); [reflexivity|apply Hun; reflexivity]. }
  rewrite Hl. rewrite IH by exact Hts. reflexivity.
Qed.

(* ------------------------------------------------------------------ the data block *)
Lemma offset_length_middle : forall (a b c : list Z),
  offset_length (a ++ b ++ c) (len a) (len b) = Ok b.
Proof.
  intros a b c. unfold offset_length. rewrite !len_app.
  pose proof (len_nonneg a). pose proof (len_nonneg b). pose proof (len_nonneg c).
  replace ((len a <? len a + (len b + len c)) || (len b =? 0)) with true by lia.
  rewrite slice_from_drop by (rewrite !len_app; lia). rewrite drop_app_exact.
  rewrite len_app. replace (len b <=? len b + len c) with true by lia.
  rewrite take_app_exact. reflexivity.
Qed.

Definition block_of (ts : list tabspec) : list Z := concat (map t_data ts).

Lemma block_of_app : forall a b, block_of (a ++ b) = block_of a ++ block_of b.
Proof. intros. unfold block_of. rewrite map_app, concat_app. reflexivity. Qed.

(* every entry the directory yields addresses exactly its table's bytes in the block *)
Lemma spec_entries_data : forall ts pre post e,
  Forall tabspec_ok ts ->
  In e (spec_entries (len (block_of pre)) ts) ->
  exists t, In t ts /\ e_tag e = t_tag t /\
    offset_length (block_of (pre ++ ts ++ post)) (e_offset e) (entry_length e) = Ok (t_data t) /\
    e_transform_length e = (if t_transformed t then Some (len (t_data t)) else None) /\
    e_orig_length e = t_orig_length t.
Proof.
  induction ts as [|t ts IH]; intros pre post e Hok Hin; [destruct Hin|].
  inversion Hok as [|? ? Ht Hts]; subst.
  cbn [spec_entries] in Hin. destruct Hin as [<-|Hin].
  - exists t. split; [left; reflexivity|]. split; [reflexivity|]. split; [|split; reflexivity].
    assert (entry_length {| e_tag := t_tag t; e_offset := len (block_of pre);
              e_orig_length := t_orig_length t;
              e_transform_length := if t_transformed t then Some (len (t_data t)) else None |}
            = len (t_data t)) as Hl.
    { unfold entry_length. cbn [e_transform_length e_orig_length].
      destruct Ht as (_ & _ & _ & _ & Hun). destruct (t_transformed t); [reflexivity|apply Hun; reflexivity]. }
    rewrite Hl. cbn [e_offset]. rewrite !block_of_app.
    change (block_of (t :: ts)) with (t_data t ++ block_of ts). rewrite <- app_assoc.
    apply offset_length_middle.
  - specialize (IH (pre ++ [t]) post e Hts).
    rewrite block_of_app in IH. unfold block_of at 2 in IH. cbn [map concat] in IH.
    rewrite app_nil_r, len_app in IH. specialize (IH Hin).
    destruct IH as (t' & Hin' & Htag & Hdata & Htl & Hol).
    exists t'. split; [right; exact Hin'|]. split; [exact Htag|]. split; [|split; assumption].
    rewrite <- app_assoc in Hdata. exact Hdata.
Qed.

(* ------------------------------------------------------------------ tables that are stored as is *)
(* "Add remaining tables": when every entry resolves and the tags are distinct, the provider's
   map is exactly (tag, bytes) for every entry, in order *)
Lemma add_remaining_spec : forall f es datas acc,
  Forall2 (fun e d => entry_data f e = Ok d) es datas ->
  NoDup (map fst acc ++ map e_tag es) ->
  add_remaining f es acc = Ok (acc ++ combine (map e_tag es) datas).
Proof.
  intros f es datas acc H. revert acc.
  induction H as [|e d es datas He _ IH]; intros acc Hnd.
  - cbn [add_remaining map combine]. rewrite app_nil_r. reflexivity.
  - cbn [add_remaining map combine].
    assert (existsb (fun p : Z * list Z => fst p =? e_tag e) acc = false) as Hex.
    { apply not_true_is_false. intros Hc. apply existsb_exists in Hc. destruct Hc as (p & Hp & Hpe).
      cbn [map] in Hnd. apply NoDup_remove_2 in Hnd. apply Hnd. apply in_or_app. left.
      replace (e_tag e) with (fst p) by lia. apply in_map. exact Hp. }
    rewrite Hex. rewrite He. cbn [bind]. rewrite IH.
    + rewrite <- app_assoc. reflexivity.
    + rewrite map_app. cbn [map fst]. rewrite <- app_assoc. exact Hnd.
Qed.

Lemma spec_entries_tags : forall ts off, map e_tag (spec_entries off ts) = map t_tag ts.
Proof. induction ts as [|t ts IH]; intros off; [reflexivity|]. cbn [spec_entries map e_tag]. rewrite IH. reflexivity. Qed.

Lemma spec_entries_untransformed : forall ts off,
  Forall (fun t => t_transformed t = false) ts ->
  Forall (fun e => e_transform_length e = None) (spec_entries off ts).
Proof.
  induction ts as [|t ts IH]; intros off H; [constructor|]. inversion H as [|? ? Ht Hts]; subst.
  cbn [spec_entries]. constructor; [cbn [e_transform_length]; rewrite Ht; reflexivity|apply IH; exact Hts].
Qed.

Lemma entries_data_all : forall ts pre post,
  Forall tabspec_ok ts ->
  Forall2 (fun e d => offset_length (block_of (pre ++ ts ++ post)) (e_offset e) (entry_length e) = Ok d)
          (spec_entries (len (block_of pre)) ts) (map t_data ts).
Proof.
  induction ts as [|t ts IH]; intros pre post Hok; [constructor|].
  inversion Hok as [|? ? Ht Hts]; subst. cbn [spec_entries map]. constructor.
  - assert (entry_length {| e_tag := t_tag t; e_offset := len (block_of pre);
              e_orig_length := t_orig_length t;
              e_transform_length := if t_transformed t then Some (len (t_data t)) else None |}
            = len (t_data t)) as Hl.
    { unfold entry_length. cbn [e_transform_length e_orig_length].
      destruct Ht as (_ & _ & _ & _ & Hun). destruct (t_transformed t); [reflexivity|apply Hun; reflexivity]. }
    rewrite Hl. cbn [e_offset]. rewrite !block_of_app.
    change (block_of (t :: ts)) with (t_data t ++ block_of ts). rewrite <- app_assoc.
    apply offset_length_middle.
  - specialize (IH (pre ++ [t]) post Hts).
    assert (len (block_of (pre ++ [t])) = len (block_of pre) + len (t_data t)) as E.
    { rewrite block_of_app, len_app. unfold block_of at 2. cbn [map concat]. rewrite app_nil_r. reflexivity. }
    rewrite E in IH.
    replace ((pre ++ [t]) ++ ts ++ post) with (pre ++ (t :: ts) ++ post) in IH
      by (rewrite <- app_assoc; reflexivity).
    exact IH.
Qed.

Lemma find_untransformed : forall (p : dir_entry -> bool) es,
  Forall (fun e => e_transform_length e = None) es -> entry_transformed (find p es) = false.
Proof.
  intros p es H. destruct (find p es) as [e|] eqn:F; [|reflexivity].
  apply find_some in F. rewrite Forall_forall in H. cbn [entry_transformed]. rewrite (H e (proj1 F)). reflexivity.
Qed.

Lemma combine_map {A B C} (f : A -> B) (g : A -> C) (l : list A) :
  combine (map f l) (map g l) = map (fun x => (f x, g x)) l.
Proof. induction l as [|x l IH]; [reflexivity|]. cbn [map combine]. rewrite IH. reflexivity. Qed.

(* Tables without a transform come out byte-identical: for a single font whose directory
   describes the tables ts (known or arbitrary tags, any order, distinct tags) stored one after
   the other in the data block, the table provider maps every tag to exactly the stored bytes. *)
Theorem untransformed_identity : forall m ts flavor index,
  Forall tabspec_ok ts -> Forall (fun t => t_transformed t = false) ts -> NoDup (map t_tag ts) ->
  table_provider m {| f_flavor := flavor; f_dir := spec_entries 0 ts; f_coll := None;
                      f_block := block_of ts |} index
  = Ok (map (fun t => (t_tag t, t_data t)) ts).
Proof.
  intros m ts flavor index Hok Hun Hnd.
  pose proof (spec_entries_untransformed ts 0 Hun) as Hnone.
  unfold table_provider, find_entry, font_entries. cbn [f_coll f_dir].
  rewrite !find_untransformed by exact Hnone. cbn [orb bind].
  pose proof (entries_data_all ts [] [] Hok) as Hd. cbn [app] in Hd. rewrite app_nil_r in Hd.
  change (len (block_of [])) with 0 in Hd.
  rewrite (add_remaining_spec _ _ (map t_data ts) []).
  - cbn [app]. rewrite spec_entries_tags. rewrite combine_map. reflexivity.
  - exact Hd.
  - cbn [map app]. rewrite spec_entries_tags. exact Hnd.
Qed.

(* ------------------------------------------------------------------ header *)
Lemma read_header_spec : forall h r, header_ok h ->
  read_header (header_bytes h ++ r) =
    Ok ({| h_flavor := hf_flavor h; h_num_tables := hf_num_tables h;
           h_total_compressed_size := hf_total_compressed_size h |}, r).
Proof.
  intros h r (H1 & H2 & H3 & H4 & H5 & H6 & H7 & H8 & H9 & H10 & H11 & H12).
  unfold u32_ok, u16_ok in *. unfold header_bytes, read_header. rewrite <- !app_assoc.
  rewrite rd_u32_wr by (vm_compute; split; [discriminate|reflexivity]). cbn [bind].
  change (spec_magic =? woff2_magic) with true. cbv iota.
  rewrite rd_u32_wr by lia. cbn [bind]. rewrite rd_u32_wr by lia. cbn [bind].
  rewrite rd_u16_wr by (unfold u16_ok; lia). cbn [bind].
  rewrite rd_u16_wr by (unfold u16_ok; lia). cbn [bind]. cbn [Z.eqb].
  rewrite rd_u32_wr by lia. cbn [bind]. rewrite rd_u32_wr by lia. cbn [bind].
  rewrite rd_u16_wr by (unfold u16_ok; lia). cbn [bind].
  rewrite rd_u16_wr by (unfold u16_ok; lia). cbn [bind].
  rewrite rd_u32_wr by lia. cbn [bind]. rewrite rd_u32_wr by lia. cbn [bind].
  rewrite rd_u32_wr by lia. cbn [bind]. rewrite rd_u32_wr by lia. cbn [bind].
  rewrite rd_u32_wr by lia. cbn [bind]. reflexivity.
Qed.

(* header + directory of a single font, then straight to the tables *)
Theorem single_font_tables : forall m h ts encs index,
  header_ok h -> hf_flavor h <> spec_ttcf -> hf_num_tables h = len ts ->
  Forall tabspec_ok ts -> Forall (fun t => t_transformed t = false) ts -> NoDup (map t_tag ts) ->
  Forall2 encodes_dir_entry ts encs ->
  woff2_tables m (header_bytes h ++ concat encs) (block_of ts) index =
    Ok (spec_entries 0 ts, map (fun t => (t_tag t, t_data t)) ts).
Proof.
  intros m h ts encs index Hh Hfl Hn Hok Hun Hnd Henc.
  unfold woff2_tables, read_font_prefix. rewrite read_header_spec by exact Hh. cbn [bind h_num_tables h_flavor].
  rewrite Hn. replace (Z.to_nat (len ts)) with (length ts) by (unfold len; lia).
  rewrite <- (app_nil_r (concat encs)).
  rewrite (table_directory_roundtrip ts encs 0 [] Hok Henc). cbn [bind].
  change ttcf_magic with spec_ttcf. replace (hf_flavor h =? spec_ttcf) with false by lia.
  cbn [bind]. change (len (@nil Z) =? 0) with true. cbn [negb].
  rewrite untransformed_identity by assumption. reflexivity.
Qed.

(* ------------------------------------------------------------------ collections *)
Lemma rd_items_rel {A} (rd : stream -> outcome (A * stream)) (R : list Z -> A -> Prop) :
  (forall enc v r, R enc v -> rd (enc ++ r) = Ok (v, r)) ->
  forall encs vs r, Forall2 R encs vs -> rd_items rd (length vs) (concat encs ++ r) = Ok (vs, r).
Proof.
  intros H encs vs r HF. revert r. induction HF as [|e v encs vs He _ IH]; intros r; [reflexivity|].
  cbn [length rd_items concat]. rewrite <- app_assoc. rewrite (H _ _ _ He). cbn [bind]. rewrite IH. reflexivity.
Qed.

Lemma read_font_entry_spec : forall idx enc r,
  encodes_font_entry idx enc -> read_font_entry (enc ++ r) = Ok (idx, r).
Proof.
  intros idx enc r H. destruct H as [idx nenc flavor iencs Hn Hf Hi].
  unfold read_font_entry. rewrite <- !app_assoc.
  rewrite (packed_u16_all_encodings _ _ _ Hn). cbn [bind].
  rewrite rd_u32_wr by exact Hf. cbn [bind].
  replace (Z.to_nat (len idx)) with (length idx) by (unfold len; lia).
  apply (rd_items_rel read_packed_u16 encodes_255 packed_u16_all_encodings). exact Hi.
Qed.

Lemma Forall2_swap {A B} (R : A -> B -> Prop) l l' :
  Forall2 R l l' -> Forall2 (fun b a => R a b) l' l.
Proof. induction 1; constructor; assumption. Qed.

Lemma collection_directory_roundtrip : forall fonts bytes r,
  encodes_collection fonts bytes -> read_collection_directory (bytes ++ r) = Ok (fonts, r).
Proof.
  intros fonts bytes r (version & nenc & fencs & Hv & Hn & Hf & ->).
  unfold read_collection_directory. rewrite <- !app_assoc.
  rewrite rd_u32_wr by exact Hv. cbn [bind].
  rewrite (packed_u16_all_encodings _ _ _ Hn). cbn [bind].
  replace (Z.to_nat (len fonts)) with (length fonts) by (unfold len; lia).
  apply (rd_items_rel read_font_entry (fun enc idx => encodes_font_entry idx enc)).
  - intros enc v r0 He. apply read_font_entry_spec. exact He.
  - apply Forall2_swap. exact Hf.
Qed.

Lemma Forall2_nth {A B} (R : A -> B -> Prop) l l' i d d' :
  Forall2 R l l' -> (i < length l)%nat -> R (nth i l d) (nth i l' d').
Proof.
  intros H. revert i. induction H as [|x y l l' Hxy _ IH]; intros i Hi; [cbn [length] in Hi; lia|].
  destruct i as [|i]; [exact Hxy|]. cbn [nth]. apply IH. cbn [length] in Hi. lia.
Qed.

Lemma spec_entries_length : forall ts off, length (spec_entries off ts) = length ts.
Proof. induction ts as [|t ts IH]; intros off; [reflexivity|]. cbn [spec_entries length]. rewrite IH. reflexivity. Qed.

Definition tab0 : tabspec := {| t_tag := 0; t_orig_length := 0; t_transformed := false; t_data := [] |}.
Definition entry0 : dir_entry := {| e_tag := 0; e_offset := 0; e_orig_length := 0; e_transform_length := None |}.

Lemma member_entries_in_range : forall dir idxs,
  Forall (fun i => 0 <= i < len dir) idxs ->
  member_entries dir idxs = map (fun i => nth (Z.to_nat i) dir entry0) idxs.
Proof.
  intros dir idxs H. unfold member_entries. induction H as [|i idxs Hi _ IH]; [reflexivity|].
  cbn [flat_map map]. rewrite IH. unfold nth_opt. replace (i <? 0) with false by lia.
  destruct (nth_error dir (Z.to_nat i)) as [e|] eqn:E.
  - rewrite (nth_error_nth dir (Z.to_nat i) entry0 E). reflexivity.
  - apply nth_error_None in E. unfold len in Hi. lia.
Qed.

(* A member of a collection gets the tables its entry lists (shared or not), byte-identical,
   whatever the order of the directory and of its index list. *)
Theorem collection_member_tables : forall m ts fonts k idxs flavor,
  Forall tabspec_ok ts -> Forall (fun t => t_transformed t = false) ts ->
  nth_error fonts k = Some idxs -> Forall (fun i => 0 <= i < len ts) idxs ->
  NoDup (map (fun i => t_tag (nth (Z.to_nat i) ts tab0)) idxs) ->
  table_provider m {| f_flavor := flavor; f_dir := spec_entries 0 ts; f_coll := Some fonts;
                      f_block := block_of ts |} (Z.of_nat k)
  = Ok (map (fun i => (t_tag (nth (Z.to_nat i) ts tab0), t_data (nth (Z.to_nat i) ts tab0))) idxs).
Proof.
  intros m ts fonts k idxs flavor Hok Hun Hk Hidx Hnd.
  pose proof (spec_entries_untransformed ts 0 Hun) as Hnone.
  assert (Forall (fun i => 0 <= i < len (spec_entries 0 ts)) idxs) as Hidx'.
  { eapply Forall_impl; [|exact Hidx]. intros i Hi. unfold len in *. rewrite spec_entries_length. exact Hi. }
  unfold table_provider, find_entry, font_entries. cbn [f_coll f_dir].
  unfold nth_opt. replace (Z.of_nat k <? 0) with false by lia. rewrite Nat2Z.id, Hk.
  rewrite (member_entries_in_range _ _ Hidx').
  set (es := map (fun i => nth (Z.to_nat i) (spec_entries 0 ts) entry0) idxs).
  assert (Forall (fun e => e_transform_length e = None) es) as Hes.
  { subst es. rewrite Forall_forall. intros e He. apply in_map_iff in He. destruct He as (i & <- & Hi).
    rewrite Forall_forall in Hnone. apply Hnone. apply nth_In.
    rewrite Forall_forall in Hidx'. specialize (Hidx' i Hi). unfold len in Hidx'. lia. }
  rewrite !find_untransformed by exact Hes. cbn [orb bind].
  pose proof (entries_data_all ts [] [] Hok) as Hd. cbn [app] in Hd. rewrite app_nil_r in Hd.
  change (len (block_of [])) with 0 in Hd.
  rewrite (add_remaining_spec _ es (map (fun i => t_data (nth (Z.to_nat i) ts tab0)) idxs) []).
  - cbn [app]. subst es. rewrite map_map.
    assert (forall i, In i idxs ->
              e_tag (nth (Z.to_nat i) (spec_entries 0 ts) entry0) = t_tag (nth (Z.to_nat i) ts tab0)) as Ht.
    { intros i Hi. change (t_tag (nth (Z.to_nat i) ts tab0)) with (nth (Z.to_nat i) (map t_tag ts) (t_tag tab0)) || idtac.
      rewrite <- (map_nth t_tag ts tab0). rewrite <- spec_entries_tags with (off := 0).
      change (t_tag tab0) with (e_tag entry0). rewrite map_nth. reflexivity. }
    rewrite (map_ext_in _ _ _ Ht). rewrite combine_map. reflexivity.
  - subst es.
    assert (forall l, Forall (fun i => 0 <= i < len ts) l ->
              Forall2 (fun e d => entry_data {| f_flavor := flavor; f_dir := spec_entries 0 ts;
                                                f_coll := Some fonts; f_block := block_of ts |} e = Ok d)
                (map (fun i => nth (Z.to_nat i) (spec_entries 0 ts) entry0) l)
                (map (fun i => t_data (nth (Z.to_nat i) ts tab0)) l)) as Hall.
    { intros l Hl. induction Hl as [|i l Hi _ IH]; [constructor|]. cbn [map]. constructor; [|exact IH].
      unfold entry_data. cbn [f_block]. rewrite <- (map_nth t_data ts tab0).
      apply (Forall2_nth _ _ _ (Z.to_nat i) entry0 (t_data tab0) Hd).
      rewrite spec_entries_length. unfold len in Hi. lia. }
    apply Hall. exact Hidx.
  - cbn [map app]. subst es. rewrite map_map.
    assert (forall i, In i idxs ->
              e_tag (nth (Z.to_nat i) (spec_entries 0 ts) entry0) = t_tag (nth (Z.to_nat i) ts tab0)) as Ht.
    { intros i Hi. rewrite <- (map_nth t_tag ts tab0). rewrite <- spec_entries_tags with (off := 0).
      change (t_tag tab0) with (e_tag entry0). rewrite map_nth. reflexivity. }
    rewrite (map_ext_in _ _ _ Ht). exact Hnd.
Qed.
