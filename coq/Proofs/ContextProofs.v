(* Proofs/ContextProofs.v — nested lookup application (apply_subst / apply_subst_context / contextsubst /
   chaincontextsubst) and the whole-run loops of every lookup type: the `changes` value every level reports is
   exactly the change of the glyph count, no panic, no fuel exhaustion, and `length` stays |glyphs|. *)
From AV Require Import Base.Prelude Base.Lemmas Gen.LayoutConsts Model.Layout Model.LayoutSpec Model.Gsub Model.GsubSpec
  Proofs.LayoutProofs Proofs.GsubProofs Proofs.LigatureProofs.
From Coq Require Import ZifyBool.
Open Scope Z_scope.

(* an outcome the Rust can produce without panicking: a value or a ParseError *)
Definition clean {A} (x : outcome A) : Prop :=
  match x with Ok _ => True | Err e => e <> OtherErr | Panic => False | OOB => False end.

Lemma clean_bind {A B} (x : outcome A) (f : A -> outcome B) :
  clean x -> (forall a, x = Ok a -> clean (f a)) -> clean (bind x f).
Proof. destruct x; cbn [bind clean]; intros H1 H2; auto. Qed.

Lemma clean_ok {A} (a : A) : clean (Ok a).
Proof. exact I. Qed.

Lemma checked_nth_clean {A} (l : list A) i : clean (checked_nth l i).
Proof. unfold checked_nth. destruct (nth_opt l i); cbn; [exact I|discriminate]. Qed.

Lemma first_subtable_clean {S A} (f : S -> outcome (option A)) subs :
  (forall s, In s subs -> clean (f s)) -> clean (first_subtable f subs).
Proof.
  induction subs as [|s subs IH]; intros H; cbn [first_subtable]; [exact I|].
  apply clean_bind; [apply H; left; reflexivity|]. intros [a|] _; [exact I|].
  apply IH. intros s' Hs'. apply H. right; exact Hs'.
Qed.

Lemma cov_indexed_clean {A} cov (items : list A) g : clean (cov_indexed cov items g).
Proof.
  unfold cov_indexed. destruct (coverage_value cov g); [|exact I].
  apply clean_bind; [apply checked_nth_clean|]. intros; exact I.
Qed.

(* ------------------------------------------------------------------ list facts *)
Lemma split_at (gs : list glyph) i : 0 <= i < len gs ->
  exists a g b, gs = a ++ g :: b /\ len a = i.
Proof.
  intros Hi. exists (take i gs).
  assert (Hd : drop i gs <> []).
  { intros E. assert (H : len (drop i gs) = len gs - i) by (apply len_drop; lia). rewrite E, len_nil in H. lia. }
  destruct (drop i gs) as [|g b] eqn:E; [congruence|]. exists g, b. split.
  - rewrite <- E. unfold take, drop. symmetry. apply firstn_skipn.
  - apply len_take. lia.
Qed.

Lemma gget_in_range (gs : list glyph) i : 0 <= i < len gs -> exists g, gget gs i = Ok g.
Proof. intros Hi. destruct (split_at gs i Hi) as (a & g & b & -> & <-). exists g. apply gget_mid. Qed.

Lemma gset_len (gs : list glyph) i g : 0 <= i < len gs -> len (gset gs i g) = len gs.
Proof.
  intros Hi. destruct (split_at gs i Hi) as (a & g0 & b & -> & <-). rewrite gset_mid, !len_app, !len_cons. reflexivity.
Qed.

Lemma find_first_from_ge mt gd l k p : find_first_from mt gd l k = Some p -> k <= p.
Proof.
  revert k; induction l as [|g l IH]; intros k H; cbn [find_first_from] in H; [discriminate|].
  destruct (match_glyph mt gd g); [inversion H; lia|]. apply IH in H. lia.
Qed.

Lemma find_next_gt mt gd ids0 i p : find_next mt gd ids0 i = Some p -> i < p.
Proof. unfold find_next. intros H. apply find_first_from_ge in H. lia. Qed.

Lemma find_nth_ge mt gd ids0 : forall n i last, find_nth mt gd ids0 i n = Some last -> i <= last.
Proof.
  induction n as [|n IH]; intros i last H; cbn [find_nth] in H; [inversion H; lia|].
  destruct (find_next mt gd ids0 i) as [p|] eqn:E; [|discriminate].
  apply find_next_gt in E. apply IH in H. lia.
Qed.

(* ------------------------------------------------------------------ one substitution at a valid position *)
Lemma singlesubst_clean subs tag g : clean (singlesubst subs tag g).
Proof.
  unfold singlesubst, singlesubst_would_apply. apply clean_bind.
  - apply first_subtable_clean. intros s _. destruct s as [cov d|cov sb]; cbn [single_apply_glyph].
    + destruct (covers cov (g_id g)); exact I.
    + destruct (coverage_value cov (g_id g)); [|exact I]. apply clean_bind; [apply checked_nth_clean|intros; exact I].
  - intros [out|] _; exact I.
Qed.

Lemma alternatesubst_clean subs a g : clean (alternatesubst subs a g).
Proof.
  unfold alternatesubst, alternatesubst_would_apply. apply clean_bind.
  - apply first_subtable_clean. intros s _. apply cov_indexed_clean.
  - intros [set|] _; [destruct (nth_opt set a)|]; exact I.
Qed.

Lemma multiplesubst_good subs i gs : 0 <= i < len gs ->
  match multiplesubst subs i gs with
  | Ok (Some rc, gs') => len gs' = len gs + rc - 1 /\ 0 <= rc
  | Ok (None, gs') => gs' = gs
  | Err e => e <> OtherErr
  | Panic => False | OOB => False
  end.
Proof.
  intros Hi. destruct (split_at gs i Hi) as (a & g & b & -> & <-). rewrite multiplesubst_mid.
  pose proof (first_subtable_clean (fun s => cov_indexed (ms_cov s) (ms_seqs s) (g_id g)) subs
                (fun s _ => cov_indexed_clean _ _ _)) as Hc.
  destruct (first_subtable _ subs) as [[[|first rest]|]|e| |]; cbn [clean] in Hc; try exact Hc; try contradiction.
  - rewrite !len_app, !len_cons. split; lia.
  - rewrite !len_app, !len_cons, len_app. unfold len at 2. rewrite map_length. fold (len rest).
    pose proof (len_nonneg rest). split; lia.
  - reflexivity.
Qed.

Lemma lig_choose_clean mt gd subs g rest : clean (lig_choose mt gd subs g rest).
Proof.
  unfold lig_choose. apply first_subtable_clean. intros s _.
  apply clean_bind; [apply cov_indexed_clean|]. intros [set|] _; exact I.
Qed.

Lemma ligaturesubst_good gd subs mt i gs : 0 <= i < len gs ->
  match ligaturesubst gd subs mt i gs with
  | Ok (Some (removed, skip), gs') => len gs' = len gs - removed /\ 0 <= removed /\ 0 <= skip /\ i + skip + 1 + removed <= len gs
  | Ok (None, gs') => gs' = gs
  | Err e => e <> OtherErr
  | Panic => False | OOB => False
  end.
Proof.
  intros Hi. destruct (split_at gs i Hi) as (a & g & b & -> & <-).
  unfold ligaturesubst. rewrite would_apply_mid.
  pose proof (lig_choose_clean mt gd subs g b) as Hc.
  destruct (lig_choose mt gd subs g b) as [[l|]|e| |] eqn:Ec; cbn [clean bind] in *; try exact Hc; try contradiction.
  - pose proof (applicable_enough mt gd l b (lig_choose_applicable mt gd _ _ _ _ Ec)) as He.
    rewrite (ligature_apply_mid mt gd l a g b He).
    pose proof (absorb_lengths mt gd b (length (lig_comps l)) g 0 He) as Hl.
    destruct (lig_absorb mt gd b (length (lig_comps l)) g 0) as [[acc kept] rem]. cbn [bind].
    rewrite !len_app, !len_cons, len_app.
    assert (len (lig_trailing gd rem (len (lig_comps l))) = len rem) by (unfold len; rewrite lig_trailing_length; reflexivity).
    pose proof (len_nonneg kept). pose proof (len_nonneg rem). pose proof (len_nonneg (lig_comps l)).
    assert (len b = len (lig_comps l) + len kept + len rem) by (unfold len; lia).
    repeat split; lia.
  - reflexivity.
Qed.

(* ------------------------------------------------------------------ nested application *)
(* what every level of apply_subst guarantees: no panic, and `changes` = change of the glyph count *)
Definition good_subst (f : apply_subst_t) : Prop :=
  forall pmt si li gs index, 0 <= index ->
  match f pmt si li gs index with
  | Ok (Some c, gs') => len gs' = len gs + c
  | Ok (None, gs') => len gs' = len gs
  | Err e => e <> OtherErr
  | Panic => False | OOB => False
  end.

Lemma apply_records_good rec mt : good_subst rec -> forall recs gs i c0, 0 <= i ->
  match apply_records rec mt recs gs i c0 with
  | Ok (c, gs') => len gs' = len gs + (c - c0)
  | Err e => e <> OtherErr
  | Panic => False | OOB => False
  end.
Proof.
  intros Hg. induction recs as [|[si li] recs IH]; intros gs i c0 Hi; cbn [apply_records]; [lia|].
  pose proof (Hg mt si li gs i Hi) as H1.
  destruct (rec mt si li gs i) as [[r gs1]|e| |]; cbn [bind]; try exact H1; try contradiction.
  specialize (IH gs1 i (match r with Some c => c0 + c | None => c0 end) Hi).
  destruct (apply_records rec mt recs gs1 i _) as [[c gs2]|e| |]; try exact IH; try contradiction.
  destruct r as [c1|]; lia.
Qed.

(* result of contextsubst / chaincontextsubst / apply_subst_context *)
Definition good_ctx_result (i : Z) (gs : list glyph) (x : outcome (option (Z * Z) * list glyph)) : Prop :=
  match x with
  | Ok (Some (nl, ch), gs') => len gs' = len gs + ch /\ 0 <= nl /\ ch < nl /\ (nl = 0 \/ i + nl <= len gs')
  | Ok (None, gs') => gs' = gs
  | Err e => e <> OtherErr
  | Panic => False | OOB => False
  end.

Lemma find_nth_lt mt gd ids0 : forall n i last, 0 <= i < len ids0 -> find_nth mt gd ids0 i n = Some last -> last < len ids0.
Proof.
  induction n as [|n IH]; intros i last Hi H; cbn [find_nth] in H; [inversion H; lia|].
  destruct (find_next mt gd ids0 i) as [p|] eqn:E; [|discriminate].
  destruct (find_next_some mt gd ids0 i p ltac:(lia) E) as (Hp & _). apply (IH p last); [lia|exact H].
Qed.

Lemma apply_subst_context_good rec gd mt subst i gs : good_subst rec -> 0 <= i < len gs ->
  good_ctx_result i gs (apply_subst_context rec gd mt subst i gs).
Proof.
  intros Hg Hi. unfold apply_subst_context, good_ctx_result.
  destruct (find_nth mt gd (ids gs) i (Z.to_nat (gt_len (mc_input (fst subst))))) as [last|] eqn:En; [|reflexivity].
  pose proof (find_nth_lt mt gd (ids gs) _ i last ltac:(rewrite len_ids; lia) En) as Hlt. rewrite len_ids in Hlt.
  apply find_nth_ge in En.
  pose proof (apply_records_good rec mt Hg (snd subst) gs i 0 ltac:(lia)) as H.
  destruct (apply_records rec mt (snd subst) gs i 0) as [[ch gs']|e| |]; cbn [bind]; try exact H; try contradiction.
  unfold checked_add_isize. destruct (last - i + 1 + ch <? 0) eqn:E; lia.
Qed.

Lemma context_lookup_info_clean cl g f : clean (context_lookup_info cl g f).
Proof.
  destruct cl as [cov sets|cov cd sets|covs recs]; cbn [context_lookup_info].
  - destruct (coverage_value cov g); [|exact I]. apply clean_bind; [apply checked_nth_clean|]. intros [rules|] _; exact I.
  - destruct (coverage_value cov g); [|exact I]. apply clean_bind; [apply checked_nth_clean|]. intros [rules|] _; exact I.
  - destruct covs as [|c0 rest]; [exact I|]. destruct (coverage_value c0 g); [|exact I]. destruct (f _); exact I.
Qed.

(* the parser rejects ChainContext format 3 with an empty input array (ctxt.check(input_count > 0)) *)
Definition chain_has_input (cl : chain_context_lookup) : Prop :=
  match cl with ChF3 _ icovs _ _ => icovs <> [] | _ => True end.

Lemma chain_parses_has_input cl : chain_parses cl = true -> chain_has_input cl.
Proof.
  destruct cl as [| |b i l r]; cbn; try tauto. intros H E. subst i. cbn in H. discriminate.
Qed.

Lemma chain_context_lookup_info_clean cl g f : chain_has_input cl -> clean (chain_context_lookup_info cl g f).
Proof.
  intros Hw. destruct cl as [cov sets|cov bcd icd lcd sets|b icovs l recs]; cbn [chain_context_lookup_info].
  - destruct (coverage_value cov g); [|exact I]. apply clean_bind; [apply checked_nth_clean|]. intros [rules|] _; exact I.
  - destruct (coverage_value cov g); [|exact I]. apply clean_bind; [apply checked_nth_clean|]. intros [rules|] _; exact I.
  - destruct icovs as [|c0 rest]; [cbn in Hw; congruence|]. destruct (coverage_value c0 g); [|exact I]. destruct (f _); exact I.
Qed.

Lemma contextsubst_good rec gd subs mt i gs : good_subst rec -> 0 <= i < len gs ->
  good_ctx_result i gs (contextsubst rec gd subs mt i gs).
Proof.
  intros Hg Hi. unfold contextsubst, contextsubst_would_apply.
  destruct (gget_in_range gs i Hi) as (g & ->). cbn [bind].
  pose proof (first_subtable_clean (fun s => context_lookup_info s (g_id g) (fun mc => mc_matches gd mt mc (ids gs) i)) subs
                (fun s _ => context_lookup_info_clean _ _ _)) as Hc.
  destruct (first_subtable _ subs) as [[subst|]|e| |]; cbn [clean bind good_ctx_result] in *; try exact Hc; try contradiction.
  - apply apply_subst_context_good; [exact Hg|lia].
  - reflexivity.
Qed.

Lemma chaincontextsubst_good rec gd subs mt i gs : good_subst rec -> Forall chain_has_input subs -> 0 <= i < len gs ->
  good_ctx_result i gs (chaincontextsubst rec gd subs mt i gs).
Proof.
  intros Hg Hw Hi. unfold chaincontextsubst, chaincontextsubst_would_apply.
  destruct (gget_in_range gs i Hi) as (g & ->). cbn [bind].
  assert (Hc : clean (first_subtable (fun s => chain_context_lookup_info s (g_id g) (fun mc => mc_matches gd mt mc (ids gs) i)) subs)).
  { apply first_subtable_clean. intros s Hs. apply chain_context_lookup_info_clean.
    rewrite Forall_forall in Hw. apply Hw; exact Hs. }
  destruct (first_subtable _ subs) as [[subst|]|e| |]; cbn [clean bind good_ctx_result] in *; try exact Hc; try contradiction.
  - apply apply_subst_context_good; [exact Hg|lia].
  - reflexivity.
Qed.

Lemma reverse_apply_glyph_clean s g f : clean (reverse_apply_glyph s g f).
Proof.
  unfold reverse_apply_glyph. destruct (coverage_value (rc_cov s) g); [|exact I].
  destruct (f _); [|exact I]. apply clean_bind; [apply checked_nth_clean|intros; exact I].
Qed.

Lemma reversechainsinglesubst_good gd subs mt i gs : 0 <= i < len gs ->
  match reversechainsinglesubst gd subs mt i gs with
  | Ok gs' => len gs' = len gs
  | Err e => e <> OtherErr
  | Panic => False | OOB => False
  end.
Proof.
  intros Hi. unfold reversechainsinglesubst, reversechainsinglesubst_would_apply.
  destruct (gget_in_range gs i Hi) as (g & Hg). rewrite Hg. cbn [bind].
  pose proof (first_subtable_clean (fun s => reverse_apply_glyph s (g_id g) (fun mc => mc_matches gd mt mc (ids gs) i)) subs
                (fun s _ => reverse_apply_glyph_clean _ _ _)) as Hc.
  destruct (first_subtable _ subs) as [[out|]|e| |]; cbn [clean bind] in *; try exact Hc; try contradiction.
  - cbn [bind]. apply gset_len. exact Hi.
  - reflexivity.
Qed.

(* every ChainContext subtable of every lookup has a non-empty input array: true of every parsed table *)
Definition lookups_wf (lookups : list lookup) : Prop :=
  Forall (fun lk => match lk_body lk with LChain subs => Forall chain_has_input subs | _ => True end) lookups.

Lemma lookup_parse_wf lks : lookups_wf (map lookup_parse lks).
Proof.
  unfold lookups_wf. apply Forall_forall. intros lk Hin. apply in_map_iff in Hin. destruct Hin as (l0 & <- & _).
  unfold lookup_parse. cbn [lk_body]. destruct (lk_body l0); cbn [body_parse]; try exact I.
  apply Forall_forall. intros cl Hcl. apply filter_In in Hcl. apply chain_parses_has_input. tauto.
Qed.

Lemma get_lookup_wf lookups li lk : lookups_wf lookups -> get_lookup lookups li = Ok lk ->
  match lk_body lk with LChain subs => Forall chain_has_input subs | _ => True end.
Proof.
  intros Hw H. apply checked_nth_In in H. unfold lookups_wf in Hw. rewrite Forall_forall in Hw. exact (Hw lk H).
Qed.

Theorem apply_subst_good lookups gd tag : lookups_wf lookups ->
  forall lim, good_subst (apply_subst lim lookups gd tag).
Proof.
  intros Hw. induction lim as [|lim IH]; intros pmt si li gs index Hidx.
  - (* recursion limit reached: contextual lookups are refused *)
    cbn [apply_subst]. pose proof (checked_nth_clean lookups li) as Hc. unfold get_lookup.
    destruct (checked_nth lookups li) as [lk|e| |] eqn:El; cbn [clean bind] in *; try exact Hc; try contradiction.
    destruct (find_nth pmt gd (ids gs) index (Z.to_nat si)) as [i|] eqn:En; [|reflexivity].
    apply find_nth_ge in En. destruct (len gs <=? i) eqn:Ei; [reflexivity|].
    assert (Hi : 0 <= i < len gs) by lia.
    destruct (lk_body lk) as [subs|subs|subs|subs|subs|subs|subs].
    + destruct (gget_in_range gs i Hi) as (g & ->). cbn [bind]. pose proof (singlesubst_clean subs tag g) as H.
      destruct (singlesubst subs tag g); cbn [clean bind] in *; try exact H; try contradiction. rewrite gset_len by exact Hi. lia.
    + pose proof (multiplesubst_good subs i gs Hi) as H.
      destruct (multiplesubst subs i gs) as [[[rc|] gs']|e| |]; cbn [bind]; try exact H; try contradiction; [lia|subst; reflexivity].
    + destruct (gget_in_range gs i Hi) as (g & ->). cbn [bind]. pose proof (alternatesubst_clean subs 0 g) as H.
      destruct (alternatesubst subs 0 g); cbn [clean bind] in *; try exact H; try contradiction. rewrite gset_len by exact Hi. lia.
    + pose proof (ligaturesubst_good gd subs (from_lookup_flag (lk_flag lk) (lk_mfs lk)) i gs Hi) as H.
      destruct (ligaturesubst _ _ _ _ _) as [[[[rm sk]|] gs']|e| |]; cbn [bind]; try exact H; try contradiction; [lia|subst; reflexivity].
    + discriminate.
    + discriminate.
    + pose proof (reversechainsinglesubst_good gd subs (from_lookup_flag (lk_flag lk) (lk_mfs lk)) i gs Hi) as H.
      destruct (reversechainsinglesubst _ _ _ _ _); cbn [bind]; try exact H; try contradiction. lia.
  - cbn [apply_subst]. pose proof (checked_nth_clean lookups li) as Hc. unfold get_lookup.
    destruct (checked_nth lookups li) as [lk|e| |] eqn:El; cbn [clean bind] in *; try exact Hc; try contradiction.
    pose proof (get_lookup_wf lookups li lk Hw El) as Hwl.
    destruct (find_nth pmt gd (ids gs) index (Z.to_nat si)) as [i|] eqn:En; [|reflexivity].
    apply find_nth_ge in En. destruct (len gs <=? i) eqn:Ei; [reflexivity|].
    assert (Hi : 0 <= i < len gs) by lia.
    destruct (lk_body lk) as [subs|subs|subs|subs|subs|subs|subs].
    + destruct (gget_in_range gs i Hi) as (g & ->). cbn [bind]. pose proof (singlesubst_clean subs tag g) as H.
      destruct (singlesubst subs tag g); cbn [clean bind] in *; try exact H; try contradiction. rewrite gset_len by exact Hi. lia.
    + pose proof (multiplesubst_good subs i gs Hi) as H.
      destruct (multiplesubst subs i gs) as [[[rc|] gs']|e| |]; cbn [bind]; try exact H; try contradiction; [lia|subst; reflexivity].
    + destruct (gget_in_range gs i Hi) as (g & ->). cbn [bind]. pose proof (alternatesubst_clean subs 0 g) as H.
      destruct (alternatesubst subs 0 g); cbn [clean bind] in *; try exact H; try contradiction. rewrite gset_len by exact Hi. lia.
    + pose proof (ligaturesubst_good gd subs (from_lookup_flag (lk_flag lk) (lk_mfs lk)) i gs Hi) as H.
      destruct (ligaturesubst _ _ _ _ _) as [[[[rm sk]|] gs']|e| |]; cbn [bind]; try exact H; try contradiction; [lia|subst; reflexivity].
    + pose proof (contextsubst_good (apply_subst lim lookups gd tag) gd subs (from_lookup_flag (lk_flag lk) (lk_mfs lk)) i gs IH Hi) as H.
      unfold good_ctx_result in H.
      destruct (contextsubst _ _ _ _ _ _) as [[[[nl ch]|] gs']|e| |]; cbn [bind]; try exact H; try contradiction; [lia|subst; reflexivity].
    + pose proof (chaincontextsubst_good (apply_subst lim lookups gd tag) gd subs (from_lookup_flag (lk_flag lk) (lk_mfs lk)) i gs IH Hwl Hi) as H.
      unfold good_ctx_result in H.
      destruct (chaincontextsubst _ _ _ _ _ _) as [[[[nl ch]|] gs']|e| |]; cbn [bind]; try exact H; try contradiction; [lia|subst; reflexivity].
    + pose proof (reversechainsinglesubst_good gd subs (from_lookup_flag (lk_flag lk) (lk_mfs lk)) i gs Hi) as H.
      destruct (reversechainsinglesubst _ _ _ _ _); cbn [bind]; try exact H; try contradiction. lia.
Qed.

(* ------------------------------------------------------------------ whole-run loops *)
(* Rust vectors hold fewer than isize::MAX elements; growing one beyond the address space aborts the
   process.  MAXLEN is the (generous) bound under which the usize arithmetic of the loops cannot overflow. *)
Definition MAXLEN : Z := 4611686018427387904.     (* 2^62 *)

Definition fits (step : Z -> list glyph -> outcome (option (Z * Z) * list glyph)) : Prop :=
  forall i gs r gs', step i gs = Ok (r, gs') -> len gs' < MAXLEN.

Definition loop_result_ok (x : outcome (list glyph * Z)) : Prop :=
  match x with
  | Ok (gs', l') => l' = len gs'
  | Err e => e <> OtherErr
  | Panic => False | OOB => False
  end.

Lemma context_loop_whole m mt gd step :
  (forall i gs, 0 <= i < len gs -> good_ctx_result i gs (step i gs)) -> fits step ->
  forall fuel gs i, 0 <= i -> len gs < MAXLEN -> (Z.to_nat (len gs - i) < fuel)%nat ->
  loop_result_ok (context_loop fuel m mt gd step gs 0 i (len gs)).
Proof.
  intros Hgood Hfits. induction fuel as [|fuel IH]; intros gs i Hi Hlen Hfuel; [lia|].
  cbn [context_loop]. pose proof (len_nonneg gs). unfold MAXLEN in *.
  rewrite uadd_small by (unfold USIZE; lia). cbn [bind]. replace (0 + len gs) with (len gs) by lia.
  destruct (i <? len gs) eqn:Ei; [|cbn; reflexivity].
  destruct (gget_in_range gs i ltac:(lia)) as (g & ->). cbn [bind].
  assert (Hnext : loop_result_ok (i' <- uadd m i 1 ;; context_loop fuel m mt gd step gs 0 i' (len gs))).
  { rewrite uadd_small by (unfold USIZE; lia). cbn [bind]. apply IH; lia. }
  destruct (match_glyph mt gd (g_id g)); [|exact Hnext].
  pose proof (Hgood i gs ltac:(lia)) as Hg. pose proof (Hfits i gs) as Hf. unfold good_ctx_result in Hg.
  destruct (step i gs) as [[[[nl ch]|] gs']|e| |]; cbn [bind]; try exact Hg; try contradiction.
  - destruct Hg as (H1 & H2 & H3 & H4). specialize (Hf _ _ eq_refl). unfold MAXLEN in Hf. pose proof (len_nonneg gs').
    assert (Hinl : i + nl < USIZE) by (unfold USIZE; lia).
    rewrite uadd_small by lia. cbn [bind].
    unfold checked_add_isize. replace (len gs + ch <? 0) with false by lia.
    rewrite <- H1. apply IH; lia.
  - subst gs'. exact Hnext.
Qed.

Lemma map_window_clean f l : (forall g, clean (f g)) -> clean (map_window f l).
Proof.
  intros H. induction l as [|g l IH]; cbn [map_window]; [exact I|].
  apply clean_bind; [apply H|]. intros g' _. apply clean_bind; [exact IH|]. intros; exact I.
Qed.

Lemma Forall2_len {A B} (R : A -> B -> Prop) l l' : Forall2 R l l' -> len l' = len l.
Proof. intros H. unfold len. induction H; cbn [length]; lia. Qed.

Lemma on_window_whole m f gs : (forall g, clean (f g)) -> len gs < MAXLEN ->
  match on_window m f gs 0 (len gs) with
  | Ok gs' => len gs' = len gs
  | Err e => e <> OtherErr
  | Panic => False | OOB => False
  end.
Proof.
  intros Hc Hl. pose proof (len_nonneg gs). unfold on_window.
  rewrite window_inside by (unfold MAXLEN, USIZE in *; lia). cbn [bind].
  pose proof (map_window_clean f (take (len gs) (drop 0 gs)) Hc) as H1.
  destruct (map_window f (take (len gs) (drop 0 gs))) as [w'| | |] eqn:E; cbn [clean bind] in *; try exact H1; try contradiction.
  apply map_window_spec in E. apply Forall2_len in E.
  rewrite drop_0 in E. rewrite take_all in E by lia.
  rewrite !len_app, E.
  replace (0 + len gs) with (len gs) by lia.
  assert (len (take 0 gs) = 0) by (apply len_take; lia).
  assert (len (drop (len gs) gs) = 0) by (rewrite len_drop; lia). lia.
Qed.

Lemma reverse_loop_whole mt gd subs : forall n gs start, 0 <= start -> start + Z.of_nat n <= len gs ->
  match reverse_loop n mt gd subs gs start with
  | Ok gs' => len gs' = len gs
  | Err e => e <> OtherErr
  | Panic => False | OOB => False
  end.
Proof.
  induction n as [|n IH]; intros gs start Hs Hn; cbn [reverse_loop]; [reflexivity|].
  assert (Hi : 0 <= start + Z.of_nat n < len gs) by lia.
  destruct (gget_in_range gs _ Hi) as (g & ->). cbn [bind].
  destruct (match_glyph mt gd (g_id g)).
  - pose proof (reversechainsinglesubst_good gd subs mt _ gs Hi) as H.
    destruct (reversechainsinglesubst gd subs mt (start + Z.of_nat n) gs) as [gs1|e| |]; cbn [bind]; try exact H; try contradiction.
    specialize (IH gs1 start Hs ltac:(lia)). destruct (reverse_loop n mt gd subs gs1 start); try exact IH. lia.
  - cbn [bind]. apply IH; lia.
Qed.

Lemma flat_map_out_clean {A B} (f : A -> outcome (list B)) l : (forall x, clean (f x)) -> clean (flat_map_out f l).
Proof.
  intros H. induction l as [|x l IH]; cbn [flat_map_out]; [exact I|].
  apply clean_bind; [apply H|]. intros a _. apply clean_bind; [exact IH|]. intros; exact I.
Qed.

Lemma multiple_spec_clean mt gd subs g : clean (multiple_spec mt gd subs g).
Proof.
  unfold multiple_spec, multi_expand. destruct (match_glyph mt gd (g_id g)); [|exact I].
  apply clean_bind; [apply first_subtable_clean; intros; apply cov_indexed_clean|].
  intros [[|first rest]|] _; exact I.
Qed.

Lemma lig_scan_clean mt gd subs : forall fuel l, (length l < fuel)%nat -> clean (lig_scan fuel mt gd subs l).
Proof.
  intros fuel l Hf. pose proof (lig_scan_fuel mt gd subs fuel l Hf) as Hne.
  assert (Hc : forall fuel l, match lig_scan fuel mt gd subs l with Panic => False | OOB => False | _ => True end).
  { clear. induction fuel as [|fuel IH]; intros l; cbn [lig_scan]; [exact I|].
    destruct l as [|g rest]; [exact I|].
    assert (Hs : forall (x : outcome (list glyph)) (f : list glyph -> list glyph),
               match x with Panic => False | OOB => False | _ => True end ->
               match (t <- x ;; Ok (f t)) with Panic => False | OOB => False | _ => True end).
    { intros [t|e| |] f Hx; cbn [bind]; auto. }
    destruct (match_glyph mt gd (g_id g)); [|apply (Hs _ (fun t => g :: t)); apply IH].
    pose proof (lig_choose_clean mt gd subs g rest) as Hcl.
    destruct (lig_choose mt gd subs g rest) as [[lg|]|e| |]; cbn [clean bind] in *; try exact I; try contradiction.
    - destruct (lig_absorb mt gd rest (length (lig_comps lg)) g 0) as [[acc kept] rem].
      apply (Hs _ (fun t => set_id acc (lig_glyph lg) :: kept ++ t)). apply IH.
    - apply (Hs _ (fun t => g :: t)); apply IH. }
  specialize (Hc fuel l). destruct (lig_scan fuel mt gd subs l); cbn [clean]; try exact I; try contradiction; congruence.
Qed.

(* Every lookup type, applied to the whole run (start = 0, length = |glyphs|, as gsub::apply does):
   no panic, no fuel exhaustion, and the returned length is the length of the resulting run — the
   invariant start + length <= |glyphs| holds with equality on exit. *)
Theorem gsub_apply_lookup_whole_run : forall m lks gd li tag alt gs,
  lookups_wf lks -> len gs < MAXLEN ->
  (forall lk subs, get_lookup lks li = Ok lk -> lk_body lk = LMultiple subs -> seqs_small subs /\ 65537 * (len gs + 1) < USIZE) ->
  (forall lk subs mt, get_lookup lks li = Ok lk -> lk_body lk = LContext subs ->
     fits (fun i g => contextsubst (apply_subst recursion_limit lks gd tag) gd subs mt i g)) ->
  (forall lk subs mt, get_lookup lks li = Ok lk -> lk_body lk = LChain subs ->
     fits (fun i g => chaincontextsubst (apply_subst recursion_limit lks gd tag) gd subs mt i g)) ->
  loop_result_ok (gsub_apply_lookup m (Some lks) gd li tag alt gs 0 (len gs)).
Proof.
  intros m lks gd li tag alt gs Hw Hlen Hmulti Hctx Hchain.
  pose proof (len_nonneg gs). unfold gsub_apply_lookup.
  pose proof (checked_nth_clean lks li) as Hc. unfold get_lookup in *.
  destruct (checked_nth lks li) as [lk|e| |] eqn:El; cbn [clean bind loop_result_ok] in *; try exact Hc; try contradiction.
  pose proof (get_lookup_wf lks li lk Hw El) as Hwl.
  set (mt := from_lookup_flag (lk_flag lk) (lk_mfs lk)).
  destruct (lk_body lk) as [subs|subs|subs|subs|subs|subs|subs] eqn:Eb.
  - pose proof (on_window_whole m (fun g => if match_glyph mt gd (g_id g) then singlesubst subs tag g else Ok g) gs) as H1.
    destruct (on_window m _ gs 0 (len gs)) as [gs'|e| |]; cbn [bind]; try (apply H1; [intros g; destruct (match_glyph mt gd (g_id g)); [apply singlesubst_clean|exact I]|exact Hlen]).
    symmetry. apply H1; [intros g; destruct (match_glyph mt gd (g_id g)); [apply singlesubst_clean|exact I]|exact Hlen].
  - destruct (Hmulti lk subs eq_refl Eb) as (Hsm & Hsz).
    pose proof (multiple_lookup_spec m lks gd li tag alt gs 0 (len gs) lk subs El Eb Hsm ltac:(lia) ltac:(lia) ltac:(lia) Hsz) as Hspec.
    unfold gsub_apply_lookup, get_lookup in Hspec. rewrite El in Hspec. cbn [bind] in Hspec. rewrite Eb in Hspec.
    fold mt in Hspec. rewrite Hspec.
    pose proof (flat_map_out_clean (multiple_spec mt gd subs) (take (len gs) (drop 0 gs)) (multiple_spec_clean mt gd subs)) as Hcl.
    destruct (flat_map_out _ _) as [r| | |]; cbn [clean bind] in *; try exact Hcl; try contradiction.
    cbn [loop_result_ok]. rewrite !len_app. assert (len (take 0 gs) = 0) by (apply len_take; lia).
    assert (len (drop (0 + len gs) gs) = 0) by (rewrite len_drop; lia). lia.
  - set (a := match alt with Some a => a | None => 0 end).
    pose proof (on_window_whole m (fun g => if match_glyph mt gd (g_id g) then alternatesubst subs a g else Ok g) gs) as H1.
    destruct (on_window m _ gs 0 (len gs)) as [gs'|e| |]; cbn [bind]; try (apply H1; [intros g; destruct (match_glyph mt gd (g_id g)); [apply alternatesubst_clean|exact I]|exact Hlen]).
    symmetry. apply H1; [intros g; destruct (match_glyph mt gd (g_id g)); [apply alternatesubst_clean|exact I]|exact Hlen].
  - pose proof (ligature_lookup_spec m lks gd li tag alt gs 0 (len gs) lk subs El Eb ltac:(lia) ltac:(lia) ltac:(lia)
                  ltac:(unfold MAXLEN, USIZE in *; lia)) as Hspec.
    unfold gsub_apply_lookup, get_lookup in Hspec. rewrite El in Hspec. cbn [bind] in Hspec. rewrite Eb in Hspec.
    fold mt in Hspec. rewrite Hspec. rewrite drop_0.
    pose proof (lig_scan_clean mt gd subs (loop_fuel gs) gs ltac:(unfold loop_fuel; lia)) as Hcl.
    destruct (lig_scan _ _ _ _ _) as [r| | |]; cbn [clean bind] in *; try exact Hcl; try contradiction.
    cbn [loop_result_ok]. rewrite len_app. assert (len (take 0 gs) = 0) by (apply len_take; lia). lia.
  - apply context_loop_whole; try lia.
    + intros i g Hi. apply contextsubst_good; [apply apply_subst_good; exact Hw|exact Hi].
    + apply (Hctx lk subs mt eq_refl Eb).
    + unfold loop_fuel, len. lia.
  - apply context_loop_whole; try lia.
    + intros i g Hi. apply chaincontextsubst_good; [apply apply_subst_good; exact Hw|exact Hwl|exact Hi].
    + apply (Hchain lk subs mt eq_refl Eb).
    + unfold loop_fuel, len. lia.
  - rewrite uadd_small by (unfold MAXLEN, USIZE in *; lia). cbn [bind].
    replace (0 + len gs - 0) with (len gs) by lia.
    pose proof (reverse_loop_whole mt gd subs (Z.to_nat (len gs)) gs 0 ltac:(lia) ltac:(lia)) as H1.
    destruct (reverse_loop _ mt gd subs gs 0) as [gs'|e| |]; cbn [bind loop_result_ok]; try exact H1; try contradiction.
    symmetry; exact H1.
Qed.

(* ------------------------------------------------------------------ recursion limit *)
(* A contextual lookup reached with no recursion budget left is refused; the top-level lookup starts with a
   budget of SUBST_RECURSION_LIMIT = 2, so contextual lookups nest three deep and the fourth level fails. *)
Lemma recursion_limit_refuses lookups gd tag pmt si li gs index lk i :
  get_lookup lookups li = Ok lk ->
  (exists subs, lk_body lk = LContext subs) \/ (exists subs, lk_body lk = LChain subs) ->
  find_nth pmt gd (ids gs) index (Z.to_nat si) = Some i -> i < len gs ->
  apply_subst 0 lookups gd tag pmt si li gs index = Err LimitExceeded.
Proof.
  intros Hlk Hb Hn Hi. cbn [apply_subst]. rewrite Hlk. cbn [bind]. rewrite Hn.
  replace (len gs <=? i) with false by lia.
  destruct Hb as [(subs & ->)|(subs & ->)]; reflexivity.
Qed.

Lemma recursion_limit_value : recursion_limit = 2%nat.
Proof. reflexivity. Qed.

(* ------------------------------------------------------------------ where a contextual lookup resumes *)
(* find_nth: `last` is the position of the n-th glyph after i that the lookup does not skip *)
Lemma find_nth_spec mt gd ids0 : forall n i last, 0 <= i -> find_nth mt gd ids0 i n = Some last ->
  exists taken, length taken = n /\
    unskipped mt gd (drop (i + 1) ids0) = taken ++ unskipped mt gd (drop (last + 1) ids0) /\
    (n = O -> last = i) /\ (n <> O -> i < last < len ids0 /\ match_glyph mt gd (nthZ ids0 last) = true).
Proof.
  induction n as [|n IH]; intros i last Hi H; cbn [find_nth] in H.
  - inversion H; subst. exists []. repeat split; try reflexivity; congruence.
  - destruct (find_next mt gd ids0 i) as [p|] eqn:E; [|discriminate].
    destruct (find_next_some mt gd ids0 i p Hi E) as (Hp & HP & HU).
    destruct (IH p last ltac:(lia) H) as (taken & Hl & Ht & H0 & Hn).
    exists (nthZ ids0 p :: taken). split; [cbn [length]; lia|]. split; [rewrite HU, Ht; reflexivity|]. split; [discriminate|].
    intros _. destruct n as [|n'].
    + rewrite (H0 eq_refl). split; [lia|exact HP].
    + destruct (Hn ltac:(discriminate)) as [Hr Hm]. split; [lia|exact Hm].
Qed.

(* After a rule matched at i the reported length is (position of the LAST input glyph of the match in the run) - i
   + 1 + (glyph-count change of the nested lookups), clamped at 0: skipped glyphs between input glyphs count. *)
Theorem contextsubst_resume_position : forall rec gd subs mt i gs nl ch gs',
  contextsubst rec gd subs mt i gs = Ok (Some (nl, ch), gs') ->
  exists subst last,
    contextsubst_would_apply gd subs mt i gs = Ok (Some subst) /\
    find_nth mt gd (ids gs) i (Z.to_nat (gt_len (mc_input (fst subst)))) = Some last /\
    apply_records rec mt (snd subst) gs i 0 = Ok (ch, gs') /\
    nl = Z.max 0 (last - i + 1 + ch).
Proof.
  intros rec gd subs mt i gs nl ch gs' H. unfold contextsubst in H.
  destruct (contextsubst_would_apply gd subs mt i gs) as [[subst|]|e| |] eqn:Ew; cbn [bind] in H; try discriminate.
  unfold apply_subst_context in H.
  destruct (find_nth mt gd (ids gs) i (Z.to_nat (gt_len (mc_input (fst subst))))) as [last|] eqn:En; [|discriminate].
  destruct (apply_records rec mt (snd subst) gs i 0) as [[c g1]|e| |] eqn:Ea; cbn [bind] in H; try discriminate.
  exists subst, last. unfold checked_add_isize in H.
  destruct (last - i + 1 + c <? 0) eqn:E; inversion H; subst nl c g1;
    (split; [reflexivity|split; [exact En|split; [exact Ea|lia]]]).
Qed.

Theorem chaincontextsubst_resume_position : forall rec gd subs mt i gs nl ch gs',
  chaincontextsubst rec gd subs mt i gs = Ok (Some (nl, ch), gs') ->
  exists subst last,
    chaincontextsubst_would_apply gd subs mt i gs = Ok (Some subst) /\
    find_nth mt gd (ids gs) i (Z.to_nat (gt_len (mc_input (fst subst)))) = Some last /\
    apply_records rec mt (snd subst) gs i 0 = Ok (ch, gs') /\
    nl = Z.max 0 (last - i + 1 + ch).
Proof.
  intros rec gd subs mt i gs nl ch gs' H. unfold chaincontextsubst in H.
  destruct (chaincontextsubst_would_apply gd subs mt i gs) as [[subst|]|e| |] eqn:Ew; cbn [bind] in H; try discriminate.
  unfold apply_subst_context in H.
  destruct (find_nth mt gd (ids gs) i (Z.to_nat (gt_len (mc_input (fst subst))))) as [last|] eqn:En; [|discriminate].
  destruct (apply_records rec mt (snd subst) gs i 0) as [[c g1]|e| |] eqn:Ea; cbn [bind] in H; try discriminate.
  exists subst, last. unfold checked_add_isize in H.
  destruct (last - i + 1 + c <? 0) eqn:E; inversion H; subst nl c g1;
    (split; [reflexivity|split; [exact En|split; [exact Ea|lia]]]).
Qed.

(* the whole-run loop with its start / length bookkeeping is the scan ctx_scan *)
Lemma context_loop_is_scan m mt gd step :
  (forall i gs, 0 <= i < len gs -> good_ctx_result i gs (step i gs)) -> fits step ->
  forall fuel gs i, 0 <= i -> len gs < MAXLEN ->
  context_loop fuel m mt gd step gs 0 i (len gs) =
  (gs' <- ctx_scan fuel mt gd step gs i ;; Ok (gs', len gs')).
Proof.
  intros Hgood Hfits. induction fuel as [|fuel IH]; intros gs i Hi Hlen; [reflexivity|].
  cbn [context_loop ctx_scan]. pose proof (len_nonneg gs). unfold MAXLEN in *.
  rewrite uadd_small by (unfold USIZE; lia). cbn [bind]. replace (0 + len gs) with (len gs) by lia.
  destruct (i <? len gs) eqn:Ei; [|reflexivity].
  destruct (gget_in_range gs i ltac:(lia)) as (g & ->). cbn [bind].
  assert (Hnext : (i' <- uadd m i 1 ;; context_loop fuel m mt gd step gs 0 i' (len gs)) =
                  (gs' <- ctx_scan fuel mt gd step gs (i + 1) ;; Ok (gs', len gs'))).
  { rewrite uadd_small by (unfold USIZE; lia). cbn [bind]. apply IH; lia. }
  destruct (match_glyph mt gd (g_id g)); [|exact Hnext].
  pose proof (Hgood i gs ltac:(lia)) as Hg. pose proof (Hfits i gs) as Hf. unfold good_ctx_result in Hg.
  destruct (step i gs) as [[[[nl ch]|] gs']|e| |]; cbn [bind]; try reflexivity; try contradiction.
  - destruct Hg as (H1 & H2 & H3 & H4). specialize (Hf _ _ eq_refl). unfold MAXLEN in Hf. pose proof (len_nonneg gs').
    rewrite uadd_small by (unfold USIZE; lia). cbn [bind].
    unfold checked_add_isize. replace (len gs + ch <? 0) with false by lia.
    rewrite <- H1. apply IH; lia.
  - subst gs'. exact Hnext.
Qed.

(* GSUB lookup types 5 and 6 over the whole run = the scan *)
Theorem context_lookup_is_scan : forall m lks gd li tag alt gs lk,
  lookups_wf lks -> len gs < MAXLEN -> get_lookup lks li = Ok lk ->
  let mt := from_lookup_flag (lk_flag lk) (lk_mfs lk) in
  (forall subs, lk_body lk = LContext subs ->
     let step := fun i g => contextsubst (apply_subst recursion_limit lks gd tag) gd subs mt i g in
     fits step ->
     gsub_apply_lookup m (Some lks) gd li tag alt gs 0 (len gs) =
     (gs' <- ctx_scan (loop_fuel gs) mt gd step gs 0 ;; Ok (gs', len gs'))) /\
  (forall subs, lk_body lk = LChain subs ->
     let step := fun i g => chaincontextsubst (apply_subst recursion_limit lks gd tag) gd subs mt i g in
     fits step ->
     gsub_apply_lookup m (Some lks) gd li tag alt gs 0 (len gs) =
     (gs' <- ctx_scan (loop_fuel gs) mt gd step gs 0 ;; Ok (gs', len gs'))).
Proof.
  intros m lks gd li tag alt gs lk Hw Hlen Hlk mt.
  pose proof (get_lookup_wf lks li lk Hw Hlk) as Hwl.
  split; intros subs Hb step Hfits; unfold gsub_apply_lookup; rewrite Hlk; cbn [bind]; rewrite Hb; fold mt.
  - apply (context_loop_is_scan m mt gd step); try lia; [|exact Hfits].
    intros i g Hi. apply contextsubst_good; [apply apply_subst_good; exact Hw|exact Hi].
  - rewrite Hb in Hwl. apply (context_loop_is_scan m mt gd step); try lia; [|exact Hfits].
    intros i g Hi. apply chaincontextsubst_good; [apply apply_subst_good; exact Hw|exact Hwl|exact Hi].
Qed.
