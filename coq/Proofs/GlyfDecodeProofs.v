(* Proofs/GlyfDecodeProofs.v — C16 (a): SimpleGlyph::read_dep's three passes (flags with repeat
   counts, x deltas, y deltas with accumulation) invert every legal encoding of a point list. *)
From AV Require Import Base.Prelude Base.Lemmas Gen.GlyfConsts Model.GlyfSpec Model.GlyfOutline
     Proofs.GlyfContourProofs.
From Coq Require Import ZifyBool ZifyNat.
Ltac Zify.zify_post_hook ::= Z.div_mod_to_equations.
Open Scope Z_scope.

(* ---------------------------------------------------------------------------------------------- *)
(* flag bytes, bit by bit (finite check over all 2^6 * 4 combinations)                             *)

Definition mkflag (on xs ys xp yp : bool) (r : Z) : Z :=
  b2z on + 2 * b2z xs + 4 * b2z ys + 16 * b2z xp + 32 * b2z yp + 64 * r.

Lemma mkflag_bits on xs ys xp yp r (rep : bool) : 0 <= r <= 3 ->
  let f := Z.land (mkflag on xs ys xp yp r + (if rep then 8 else 0)) SF_ALL in
  has f sf_is_on_curve = on /\ has f sf_x_is_short = xs /\ has f sf_y_is_short = ys /\
  has f sf_x_is_same_or_positive = xp /\ has f sf_y_is_same_or_positive = yp /\
  has f sf_is_repeated = rep.
Proof.
  intros Hr. assert (H : r = 0 \/ r = 1 \/ r = 2 \/ r = 3) by lia.
  destruct H as [-> | [-> | [-> | ->]]];
    destruct on, xs, ys, xp, yp, rep; vm_compute; repeat split; reflexivity.
Qed.

Lemma flag_byte_mk on ch dx dy :
  flag_byte on ch dx dy =
  mkflag on (fst (delta_bits (ch_x ch) (ch_xzero_pos ch) dx)) (fst (delta_bits (ch_y ch) (ch_yzero_pos ch) dy))
            (snd (delta_bits (ch_x ch) (ch_xzero_pos ch) dx)) (snd (delta_bits (ch_y ch) (ch_yzero_pos ch) dy))
            (ch_reserved ch).
Proof.
  unfold flag_byte, mkflag.
  destruct (delta_bits (ch_x ch) (ch_xzero_pos ch) dx), (delta_bits (ch_y ch) (ch_yzero_pos ch) dy).
  reflexivity.
Qed.

(* a decoded flag: the written byte, truncated, with or without the repeat bit *)
Definition dec_rel (f f' : Z) : Prop := exists rep : bool, f' = Z.land (f + (if rep then 8 else 0)) SF_ALL.

Definition flag_wf (f : Z) : Prop :=
  exists on xs ys xp yp r, 0 <= r <= 3 /\ f = mkflag on xs ys xp yp r.

Lemma flag_wf_rep f (rep : bool) : flag_wf f -> has (Z.land (f + (if rep then 8 else 0)) SF_ALL) sf_is_repeated = rep.
Proof.
  intros [on [xs [ys [xp [yp [r [Hr ->]]]]]]]. apply (mkflag_bits on xs ys xp yp r rep Hr).
Qed.

(* ---------------------------------------------------------------------------------------------- *)
(* equations of the flag loop                                                                      *)

Lemma rf_zero need bs : need <= 0 -> read_flags need bs = Ok ([], bs).
Proof. intros H. destruct bs; cbn [read_flags]; destruct (need <=? 0) eqn:E; try reflexivity; lia. Qed.

Lemma rf_single need b bs : 0 < need -> has (Z.land b SF_ALL) sf_is_repeated = false ->
  read_flags need (b :: bs) =
  ('(fl, r) <- read_flags (need - 1) bs ;; Ok (Z.land b SF_ALL :: fl, r)).
Proof.
  intros Hn Hr. cbn [read_flags]. destruct (need <=? 0) eqn:E; [lia|]. rewrite Hr. reflexivity.
Qed.

Lemma rf_repeat need b c bs : 0 < need -> has (Z.land b SF_ALL) sf_is_repeated = true ->
  read_flags need (b :: c :: bs) =
  ('(fl, r) <- read_flags (need - (c + 1)) bs ;; Ok (repeat (Z.land b SF_ALL) (Z.to_nat (c + 1)) ++ fl, r)).
Proof.
  intros Hn Hr. cbn [read_flags]. destruct (need <=? 0) eqn:E; [lia|]. rewrite Hr. reflexivity.
Qed.

Lemma rf_run f (Hf : has (Z.land f SF_ALL) sf_is_repeated = false) : forall k need bs,
  Z.of_nat k <= need ->
  read_flags need (repeat f k ++ bs) =
  ('(fl, r) <- read_flags (need - Z.of_nat k) bs ;; Ok (repeat (Z.land f SF_ALL) k ++ fl, r)).
Proof.
  induction k as [|k IH]; intros need bs Hk.
  - cbn [repeat app]. rewrite Z.sub_0_r. destruct (read_flags need bs) as [[fl r]| | |]; reflexivity.
  - cbn [repeat app]. rewrite rf_single by (try exact Hf; lia).
    rewrite IH by lia. replace (need - 1 - Z.of_nat k) with (need - Z.of_nat (S k)) by lia.
    destruct (read_flags (need - Z.of_nat (S k)) bs) as [[fl r]| | |]; reflexivity.
Qed.

Lemma all_eq_repeat f : forall l, all_eq f l = true -> l = repeat f (length l).
Proof.
  induction l as [|x l IH]; intros H; [reflexivity|].
  cbn [all_eq] in H. apply andb_true_iff in H. destruct H as [H1 H2].
  cbn [length repeat]. f_equal; [lia|apply IH; exact H2].
Qed.

Lemma Forall2_repeat {A B} (R : A -> B -> Prop) a b : R a b -> forall n, Forall2 R (repeat a n) (repeat b n).
Proof. intros H. induction n; cbn [repeat]; constructor; assumption. Qed.

Lemma flag_bytes_cons f fl' n (rep : bool) gr :
  flag_bytes (f :: fl') ((n, rep) :: gr) =
  (if rep then [f + 8; Z.of_nat n] else repeat f (S n)) ++ flag_bytes (skipn (S n) (f :: fl')) gr.
Proof. reflexivity. Qed.

Lemma read_flags_enc : forall gs fl rest, groups_ok fl gs = true -> Forall flag_wf fl ->
  exists dfl, read_flags (len fl) (flag_bytes fl gs ++ rest) = Ok (dfl, rest) /\ Forall2 dec_rel fl dfl.
Proof.
  induction gs as [|[n rep] gr IH]; intros fl rest Hg Hwf.
  - cbn [groups_ok] in Hg. destruct fl; [|discriminate].
    exists []. split; [apply rf_zero; cbn; lia|constructor].
  - cbn [groups_ok] in Hg. destruct fl as [|f fl']; [discriminate|].
    rewrite flag_bytes_cons.
    set (fl := f :: fl') in *.
    apply andb_true_iff in Hg. destruct Hg as [Hg Hrest].
    apply andb_true_iff in Hg. destruct Hg as [Hg Heq].
    apply andb_true_iff in Hg. destruct Hg as [Hlen Hn].
    apply Nat.leb_le in Hlen. apply Nat.leb_le in Hn.
    assert (Hsplit : fl = repeat f (S n) ++ skipn (S n) fl).
    { rewrite <- (firstn_skipn (S n) fl) at 1. f_equal.
      rewrite (all_eq_repeat f _ Heq). rewrite firstn_length, Nat.min_l by exact Hlen. reflexivity. }
    assert (Hwf' : Forall flag_wf (skipn (S n) fl)).
    { rewrite Hsplit in Hwf. apply Forall_app in Hwf. apply Hwf. }
    assert (Hf : flag_wf f) by (inversion Hwf; assumption).
    destruct (IH (skipn (S n) fl) rest Hrest Hwf') as [dfl' [Hrd Hrel]].
    assert (Hl : len fl = Z.of_nat (S n) + len (skipn (S n) fl)).
    { unfold len. rewrite skipn_length. lia. }
    pose proof (len_nonneg (skipn (S n) fl)) as Hnn.
    destruct rep.
    + rewrite <- app_assoc. cbn [app]. rewrite rf_repeat; [|rewrite Hl; unfold len; lia|apply (flag_wf_rep f true Hf)].
      replace (len fl - (Z.of_nat n + 1)) with (len (skipn (S n) fl)) by lia.
      rewrite Hrd. cbn [bind].
      exists (repeat (Z.land (f + 8) SF_ALL) (Z.to_nat (Z.of_nat n + 1)) ++ dfl'). split; [reflexivity|].
      rewrite Hsplit at 1. apply Forall2_app; [|exact Hrel].
      replace (Z.to_nat (Z.of_nat n + 1)) with (S n) by lia.
      apply Forall2_repeat. exists true. reflexivity.
    + rewrite <- app_assoc.
      pose proof (flag_wf_rep f false Hf) as Hnr. rewrite Z.add_0_r in Hnr.
      rewrite (rf_run f Hnr) by lia.
      replace (len fl - Z.of_nat (S n)) with (len (skipn (S n) fl)) by lia.
      rewrite Hrd. cbn [bind].
      exists (repeat (Z.land f SF_ALL) (S n) ++ dfl'). split; [reflexivity|].
      rewrite Hsplit at 1. apply Forall2_app; [|exact Hrel].
      apply Forall2_repeat. exists false. rewrite Z.add_0_r. reflexivity.
Qed.

(* ---------------------------------------------------------------------------------------------- *)
(* one delta                                                                                       *)

Lemma read_delta_enc k zp d rest (sh sp : bool) :
  delta_legal k d = true -> (sh, sp) = delta_bits k zp d ->
  read_delta sh sp 1 (-1) (delta_bytes k d ++ rest) = Ok (d, rest).
Proof.
  intros Hl Hb. unfold read_delta. destruct k; cbn [delta_bits] in Hb; inversion Hb; subst sh sp; clear Hb;
    cbn [delta_legal delta_bytes app] in *.
  - cbn [rd_u8 bind]. f_equal. f_equal.
    destruct ((0 <? d) || ((d =? 0) && zp)) eqn:E; lia.
  - f_equal. f_equal. lia.
  - unfold rd_i16. cbn [rd_u16 bind]. f_equal. f_equal. unfold to_signed.
    change (2 ^ 16) with 65536. change (2 ^ (16 - 1)) with 32768.
    replace (d mod 65536 / 256 * 256 + (d mod 65536) mod 256) with (d mod 65536) by lia.
    destruct ((d mod 65536) mod 65536 <? 32768) eqn:E; lia.
Qed.

Lemma dec_rel_bits on ch dx dy f' : dec_rel (flag_byte on ch dx dy) f' -> 0 <= ch_reserved ch <= 3 ->
  has f' sf_is_on_curve = on /\
  (has f' sf_x_is_short, has f' sf_x_is_same_or_positive) = delta_bits (ch_x ch) (ch_xzero_pos ch) dx /\
  (has f' sf_y_is_short, has f' sf_y_is_same_or_positive) = delta_bits (ch_y ch) (ch_yzero_pos ch) dy.
Proof.
  intros [rep ->] Hr. rewrite flag_byte_mk.
  destruct (mkflag_bits on (fst (delta_bits (ch_x ch) (ch_xzero_pos ch) dx))
                        (fst (delta_bits (ch_y ch) (ch_yzero_pos ch) dy))
                        (snd (delta_bits (ch_x ch) (ch_xzero_pos ch) dx))
                        (snd (delta_bits (ch_y ch) (ch_yzero_pos ch) dy)) (ch_reserved ch) rep Hr)
    as [H1 [H2 [H3 [H4 [H5 _]]]]].
  cbv zeta in *. rewrite H1, H2, H3, H4, H5.
  repeat split; symmetry; apply surjective_pairing.
Qed.

Lemma choice_legal_parts ch dx dy : choice_legal ch dx dy = true ->
  delta_legal (ch_x ch) dx = true /\ delta_legal (ch_y ch) dy = true /\ 0 <= ch_reserved ch <= 3.
Proof.
  unfold choice_legal. intros H. repeat (apply andb_true_iff in H; destruct H as [H ?]).
  repeat split; try assumption; lia.
Qed.

Lemma flag_byte_wf on ch dx dy : 0 <= ch_reserved ch <= 3 -> flag_wf (flag_byte on ch dx dy).
Proof. intros H. rewrite flag_byte_mk. do 6 eexists. split; [exact H|reflexivity]. Qed.

Lemma point_flags_wf : forall pts chs ds, choices_legal chs ds = true -> Forall flag_wf (point_flags pts chs ds).
Proof.
  induction pts as [|[on p] pr IH]; intros chs ds H; [constructor|].
  destruct chs as [|ch cr], ds as [|[dx dy] dr]; try constructor; cbn [choices_legal] in H; try discriminate.
  - apply andb_true_iff in H. destruct H as [H1 H2].
    apply flag_byte_wf. apply (choice_legal_parts _ _ _ H1).
  - apply andb_true_iff in H. destruct H as [H1 H2]. apply IH. exact H2.
Qed.

(* ---------------------------------------------------------------------------------------------- *)
(* the x pass and the y pass                                                                       *)

Lemma read_xs_enc : forall pts chs ds D rest,
  choices_legal chs ds = true -> length pts = length ds ->
  Forall2 dec_rel (point_flags pts chs ds) D ->
  read_xs D (x_bytes chs ds ++ rest) = Ok (map fst ds, rest).
Proof.
  induction pts as [|[on p] pr IH]; intros chs ds D rest Hc Hlen HD.
  - destruct ds; [|discriminate]. destruct chs; [|discriminate].
    cbn [point_flags] in HD. inversion HD; subst. reflexivity.
  - destruct ds as [|[dx dy] dr]; [discriminate|]. destruct chs as [|ch cr]; [discriminate|].
    cbn [choices_legal] in Hc. apply andb_true_iff in Hc. destruct Hc as [Hc1 Hc2].
    cbn [point_flags] in HD. inversion HD as [|f0 f' l0 D' Hrel HD']; subst.
    destruct (choice_legal_parts _ _ _ Hc1) as [Lx [Ly Lr]].
    destruct (dec_rel_bits _ _ _ _ _ Hrel Lr) as [_ [Bx _]].
    cbn [x_bytes read_xs map fst]. rewrite <- app_assoc.
    unfold read_dx, x_short_sign_set, x_short_sign_clear.
    rewrite (read_delta_enc _ _ _ _ _ _ Lx Bx). cbn [bind].
    rewrite (IH cr dr D' rest Hc2 ltac:(cbn [length] in Hlen; lia) HD'). reflexivity.
Qed.

Lemma add_i16_ok a b : in_i16 (a + b) = true -> add_i16 a b = Ok (a + b).
Proof. unfold add_i16, in_i16. intros ->. reflexivity. Qed.

Lemma read_ys_enc : forall pts chs D rest px py,
  choices_legal chs (deltas px py pts) = true -> forallb point_ok pts = true ->
  Forall2 dec_rel (point_flags pts chs (deltas px py pts)) D ->
  read_ys px py D (map fst (deltas px py pts)) (y_bytes chs (deltas px py pts) ++ rest)
  = Ok (map snd pts, rest).
Proof.
  induction pts as [|[on [x y]] pr IH]; intros chs D rest px py Hc Hok HD.
  - cbn [deltas] in *. destruct chs; [|discriminate].
    cbn [point_flags] in HD. inversion HD; subst. reflexivity.
  - cbn [deltas] in *. destruct chs as [|ch cr]; [discriminate|].
    cbn [choices_legal] in Hc. apply andb_true_iff in Hc. destruct Hc as [Hc1 Hc2].
    cbn [forallb] in Hok. apply andb_true_iff in Hok. destruct Hok as [Hok1 Hok2].
    unfold point_ok in Hok1. cbn [fst snd] in Hok1. apply andb_true_iff in Hok1. destruct Hok1 as [Hx Hy].
    cbn [point_flags] in HD. inversion HD as [|f0 f' l0 D' Hrel HD']; subst.
    destruct (choice_legal_parts _ _ _ Hc1) as [Lx [Ly Lr]].
    destruct (dec_rel_bits _ _ _ _ _ Hrel Lr) as [_ [_ By]].
    cbn [y_bytes read_ys map fst snd]. rewrite <- app_assoc.
    unfold read_dy, y_short_sign_set, y_short_sign_clear.
    rewrite (read_delta_enc _ _ _ _ _ _ Ly By). cbn [bind].
    rewrite add_i16_ok by (replace (px + (x - px)) with x by lia; exact Hx). cbn [bind].
    rewrite add_i16_ok by (replace (py + (y - py)) with y by lia; exact Hy). cbn [bind].
    replace (px + (x - px)) with x by lia. replace (py + (y - py)) with y by lia.
    rewrite (IH cr D' rest x y Hc2 Hok2 HD'). reflexivity.
Qed.

Lemma deltas_length : forall pts px py, length (deltas px py pts) = length pts.
Proof. induction pts as [|[on [x y]] r IH]; intros; cbn [deltas length]; [reflexivity|rewrite IH; reflexivity]. Qed.

Lemma point_flags_length : forall pts chs ds, length chs = length pts -> length ds = length pts ->
  length (point_flags pts chs ds) = length pts.
Proof.
  induction pts as [|[on p] r IH]; intros chs ds H1 H2; [reflexivity|].
  destruct chs, ds as [|[dx dy] dr]; try discriminate. cbn [point_flags length] in *. rewrite IH; lia.
Qed.

Lemma choices_legal_length : forall chs ds, choices_legal chs ds = true -> length chs = length ds.
Proof.
  induction chs as [|c r IH]; intros [|[dx dy] dr] H; try discriminate; [reflexivity|].
  cbn [choices_legal] in H. apply andb_true_iff in H. cbn [length]. rewrite (IH dr); [reflexivity|apply H].
Qed.

Lemma map_to_spoint_combine : forall pts D,
  Forall2 (fun (p : spoint) (f' : Z) => has f' sf_is_on_curve = fst p) pts D ->
  map to_spoint (combine D (map snd pts)) = pts.
Proof.
  intros pts D H.
  induction H as [|[on p] f' pr D' H1 H2 IH]; [reflexivity|].
  cbn [map combine snd]. rewrite IH. unfold to_spoint. cbn [fst snd] in *. rewrite H1. reflexivity.
Qed.

Lemma dec_on_curve : forall pts chs ds D, choices_legal chs ds = true -> length ds = length pts ->
  Forall2 dec_rel (point_flags pts chs ds) D ->
  Forall2 (fun (p : spoint) (f' : Z) => has f' sf_is_on_curve = fst p) pts D.
Proof.
  induction pts as [|[on p] pr IH]; intros chs ds D Hc Hl HD.
  - cbn [point_flags] in HD. inversion HD. constructor.
  - destruct ds as [|[dx dy] dr]; [discriminate|]. destruct chs as [|ch cr]; [discriminate|].
    cbn [choices_legal] in Hc. apply andb_true_iff in Hc. destruct Hc as [Hc1 Hc2].
    cbn [point_flags] in HD. inversion HD as [|f0 f' l0 D' Hrel HD']; subst.
    destruct (choice_legal_parts _ _ _ Hc1) as [_ [_ Lr]].
    destruct (dec_rel_bits _ _ _ _ _ Hrel Lr) as [B _].
    constructor; [exact B|]. apply (IH cr dr D' Hc2); [cbn [length] in Hl; lia|exact HD'].
Qed.

(* the decoder inverts every legal encoding *)
Theorem decode_encode pts chs gs rest : encoding_legal pts chs gs = true ->
  exists coords, read_points (len pts) (encode_points pts chs gs ++ rest) = Ok (coords, rest) /\
                 map to_spoint coords = pts.
Proof.
  unfold encoding_legal, encode_points. set (ds := deltas 0 0 pts). intros H.
  apply andb_true_iff in H. destruct H as [H Hg]. apply andb_true_iff in H. destruct H as [Hok Hc].
  pose proof (choices_legal_length _ _ Hc) as Hcl.
  pose proof (deltas_length pts 0 0) as Hdl. fold ds in Hdl.
  set (F := point_flags pts chs ds) in *.
  assert (HFl : length F = length pts) by (apply point_flags_length; lia).
  destruct (read_flags_enc gs F (x_bytes chs ds ++ y_bytes chs ds ++ rest) Hg (point_flags_wf _ _ _ Hc))
    as [D [Hrd HD]].
  unfold read_points. rewrite <- !app_assoc.
  replace (len pts) with (len F) by (unfold len; lia).
  rewrite Hrd. cbn [bind].
  assert (HDl : firstn (Z.to_nat (len F)) D = D).
  { apply firstn_all2.
    assert (HL : length F = length D) by (clear -HD; induction HD; cbn [length]; congruence).
    unfold len. lia. }
  cbv zeta. rewrite HDl.
  rewrite (read_xs_enc pts chs ds D _ Hc (eq_sym Hdl) HD). cbn [bind].
  subst ds. rewrite (read_ys_enc pts chs D rest 0 0 Hc Hok HD). cbn [bind].
  eexists. split; [reflexivity|].
  apply map_to_spoint_combine.
  apply (dec_on_curve pts chs (deltas 0 0 pts) D Hc Hdl HD).
Qed.
