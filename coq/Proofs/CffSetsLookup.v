(* Proofs/CffSetsLookup.v — CustomCharset::id_for_glyph on range lists (formats 1 and 2): the scan / find
   of id_for_glyph_in_ranges returns the (gid - 1)-th element of the expansion of the ranges (each range
   stands for first, first + 1, …, first + n_left), None past the end, and None where the id would not fit
   16 bits (the `try_into().ok()`). *)
From AV Require Import Base.Prelude Base.Lemmas Model.CffSets.
From Coq Require Import ZifyBool ZifyNat.
Ltac Zify.zify_post_hook ::= Z.div_mod_to_equations.
Open Scope Z_scope.

Definition expand_range (r : list Z) : list Z :=
  map (fun k => nthZ r 0 + k) (range 0 (Z.to_nat (range_len r))).
Definition expand (recs : list (list Z)) : list Z := concat (map expand_range recs).

Lemma nth_map_range (f : Z -> Z) : forall n s k, (k < n)%nat -> nth k (map f (range s n)) 0 = f (s + Z.of_nat k).
Proof.
  induction n as [|n IH]; intros s k Hk; [lia|].
  cbn [range map]. destruct k as [|k]; cbn [nth].
  - f_equal. lia.
  - rewrite IH by lia. f_equal. lia.
Qed.

Lemma len_expand_range r : 0 <= nthZ r 1 -> len (expand_range r) = range_len r.
Proof.
  intros H. unfold expand_range, len. rewrite map_length, range_length. unfold range_len in *. lia.
Qed.

Lemma nthZ_expand_range r k : 0 <= nthZ r 1 -> 0 <= k < range_len r -> nthZ (expand_range r) k = nthZ r 0 + k.
Proof.
  intros Hr Hk. unfold expand_range. unfold nthZ at 1. rewrite nth_map_range by (unfold range_len in *; lia).
  rewrite Z2Nat.id by lia. f_equal.
Qed.

Lemma nthZ_app_l (a b : list Z) k : 0 <= k < len a -> nthZ (a ++ b) k = nthZ a k.
Proof. intros H. unfold nthZ, len in *. apply app_nth1. lia. Qed.

Lemma nthZ_app_r (a b : list Z) k : len a <= k -> nthZ (a ++ b) k = nthZ b (k - len a).
Proof.
  intros H. unfold nthZ, len in *. rewrite app_nth2 by lia. f_equal. lia.
Qed.

Theorem id_in_ranges_spec recs : forall covered gid,
  Forall (fun r => 0 <= nthZ r 1) recs ->
  covered < gid <= covered + len (expand recs) ->
  id_in_ranges recs covered gid =
    (let v := nthZ (expand recs) (gid - covered - 1) in if v <=? 65535 then Some v else None).
Proof.
  induction recs as [|r rest IH]; intros covered gid Hok Hg.
  - unfold expand in Hg. cbn in Hg. change (len (@nil Z)) with 0 in Hg. lia.
  - inversion Hok as [|? ? Hr Hrest]; subst.
    unfold expand in *. cbn [map concat] in *. rewrite len_app, (len_expand_range r Hr) in Hg.
    cbn [id_in_ranges]. cbv zeta.
    destruct (gid <=? covered + range_len r) eqn:E.
    + rewrite nthZ_app_l by (rewrite (len_expand_range r Hr); lia).
      rewrite nthZ_expand_range by (try assumption; lia). reflexivity.
    + rewrite (IH (covered + range_len r) gid Hrest ltac:(lia)). cbv zeta.
      rewrite nthZ_app_r by (rewrite (len_expand_range r Hr); lia).
      rewrite (len_expand_range r Hr).
      replace (gid - covered - 1 - range_len r) with (gid - (covered + range_len r) - 1) by lia. reflexivity.
Qed.

Theorem id_in_ranges_past_end recs : forall covered gid,
  Forall (fun r => 0 <= nthZ r 1) recs ->
  covered + len (expand recs) < gid -> id_in_ranges recs covered gid = None.
Proof.
  induction recs as [|r rest IH]; intros covered gid Hok Hg; [reflexivity|].
  inversion Hok as [|? ? Hr Hrest]; subst.
  unfold expand in *. cbn [map concat] in *. rewrite len_app, (len_expand_range r Hr) in Hg.
  cbn [id_in_ranges]. cbv zeta. pose proof (len_nonneg (concat (map expand_range rest))).
  replace (gid <=? covered + range_len r) with false by lia.
  apply IH; [assumption|lia].
Qed.

(* the whole query: glyph 0 is .notdef (id 0); glyph g >= 1 of a range-format charset is element g - 1
   of the expansion *)
Theorem charset_id_for_glyph_ranges fmt recs gid :
  fmt <> 0 -> Forall (fun r => 0 <= nthZ r 1) recs -> 0 <= gid ->
  charset_id_for_glyph (fmt, recs) gid =
    if gid =? 0 then Some 0
    else if gid <=? len (expand recs)
      then (let v := nthZ (expand recs) (gid - 1) in if v <=? 65535 then Some v else None)
      else None.
Proof.
  intros Hf Hok Hg. unfold charset_id_for_glyph. cbn [fst snd].
  destruct (gid =? 0) eqn:E0; [reflexivity|]. replace (fmt =? 0) with false by lia.
  destruct (gid <=? len (expand recs)) eqn:E.
  - rewrite id_in_ranges_spec by (try assumption; lia). cbv zeta.
    replace (gid - 0 - 1) with (gid - 1) by lia. reflexivity.
  - apply id_in_ranges_past_end; [assumption|lia].
Qed.

(* ---------- sid_to_gid is a right inverse of id_for_glyph on range lists, and never wraps *)
Lemma sid_in_ranges_ge recs : forall g0 sid g,
  Forall (fun r => 0 <= nthZ r 1) recs -> sid_in_ranges recs g0 sid = Some g -> g0 <= g <= 65535.
Proof.
  induction recs as [|r rest IH]; intros g0 sid g Hok H; [discriminate|].
  inversion Hok as [|? ? Hr Hrest]; subst. cbn [sid_in_ranges] in H. cbv zeta in H.
  destruct ((nthZ r 0 <=? sid) && (sid <=? nthZ r 0 + nthZ r 1)) eqn:E.
  - destruct (g0 + (sid - nthZ r 0) <=? 65535) eqn:E2; [|discriminate]. injection H as <-. lia.
  - destruct (g0 + (nthZ r 1 + 1) <=? 4294967295); [|discriminate].
    apply IH in H; [|assumption]. lia.
Qed.

Theorem sid_then_id recs : forall covered sid g,
  Forall (fun r => 0 <= nthZ r 1) recs -> 0 <= sid <= 65535 ->
  sid_in_ranges recs (covered + 1) sid = Some g -> id_in_ranges recs covered g = Some sid.
Proof.
  induction recs as [|r rest IH]; intros covered sid g Hok Hs H; [discriminate|].
  inversion Hok as [|? ? Hr Hrest]; subst. cbn [sid_in_ranges] in H. cbv zeta in H.
  cbn [id_in_ranges]. cbv zeta. unfold range_len.
  destruct ((nthZ r 0 <=? sid) && (sid <=? nthZ r 0 + nthZ r 1)) eqn:E.
  - destruct (covered + 1 + (sid - nthZ r 0) <=? 65535) eqn:E2; [|discriminate]. injection H as <-.
    replace (covered + 1 + (sid - nthZ r 0) <=? covered + (nthZ r 1 + 1)) with true by lia.
    replace (nthZ r 0 + (covered + 1 + (sid - nthZ r 0) - covered - 1)) with sid by lia.
    replace (sid <=? 65535) with true by lia. reflexivity.
  - destruct (covered + 1 + (nthZ r 1 + 1) <=? 4294967295) eqn:E2; [|discriminate].
    replace (covered + 1 + (nthZ r 1 + 1)) with ((covered + (nthZ r 1 + 1)) + 1) in H by lia.
    pose proof (sid_in_ranges_ge rest _ _ _ Hrest H) as Hge.
    replace (g <=? covered + (nthZ r 1 + 1)) with false by lia.
    apply IH; assumption.
Qed.

Theorem charset_sid_to_gid_inverts fmt recs sid g :
  fmt <> 0 -> Forall (fun r => 0 <= nthZ r 1) recs -> 0 <= sid <= 65535 ->
  charset_sid_to_gid (fmt, recs) sid = Some g ->
  1 <= g <= 65535 /\ charset_id_for_glyph (fmt, recs) g = Some sid.
Proof.
  intros Hf Hok Hs H. unfold charset_sid_to_gid in H. cbn [fst snd] in H.
  replace (fmt =? 0) with false in H by lia.
  pose proof (sid_in_ranges_ge recs 1 sid g Hok H) as Hg. split; [exact Hg|].
  unfold charset_id_for_glyph. cbn [fst snd]. replace (g =? 0) with false by lia.
  replace (fmt =? 0) with false by lia. apply (sid_then_id recs 0 sid g Hok Hs). exact H.
Qed.
