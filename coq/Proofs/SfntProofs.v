(* Proofs/SfntProofs.v — lemmas behind Props/C09.v *)
From AV Require Import Base.Prelude Base.Lemmas Gen.ReaderPrims Gen.ContainerLayouts Model.Sfnt.
From Coq Require Import ZifyBool ZifyNat Sorted.
Ltac Zify.zify_post_hook ::= Z.div_mod_to_equations.
Open Scope Z_scope.

(* ---------- long_align / padding *)
Lemma long_align_ge n : 0 <= n -> n <= long_align n < n + 4 /\ long_align n mod 4 = 0.
Proof. intros. unfold long_align. lia. Qed.

Lemma len_repeat {A} (x : A) n : len (repeat x n) = Z.of_nat n.
Proof. unfold len. rewrite repeat_length. reflexivity. Qed.

Lemma len_pad4 b : len (pad4 b) = long_align (len b).
Proof.
  unfold pad4. rewrite len_app, len_repeat. pose proof (len_nonneg b).
  pose proof (long_align_ge (len b) ltac:(lia)). lia.
Qed.

Lemma pad4_aligned b : len (pad4 b) mod 4 = 0.
Proof. rewrite len_pad4. pose proof (len_nonneg b). apply long_align_ge. lia. Qed.

Lemma pad4_prefix b : firstn (length b) (pad4 b) = b.
Proof. unfold pad4. rewrite firstn_app, Nat.sub_diag, firstn_all. cbn. apply app_nil_r. Qed.

Lemma pad4_padding_zero b : forallb (Z.eqb 0) (skipn (length b) (pad4 b)) = true.
Proof.
  unfold pad4. rewrite skipn_app, Nat.sub_diag, skipn_all. cbn [skipn app].
  induction (Z.to_nat (long_align (len b) - len b)); cbn; auto.
Qed.

(* ---------- word sums *)
Lemma word_sum_app a b : len a mod 4 = 0 -> word_sum (a ++ b) = word_sum a + word_sum b.
Proof.
  remember (length a) as n eqn:Hn. revert a Hn.
  induction n as [n IH] using (well_founded_induction lt_wf). intros a Hn Hmod.
  destruct a as [|b0 [|b1 [|b2 [|b3 r]]]]; unfold len in Hmod; cbn [length] in *.
  - reflexivity.
  - exfalso. lia.
  - exfalso. lia.
  - exfalso. lia.
  - cbn [app word_sum]. rewrite (IH (length r)); [lia|lia|reflexivity|]. unfold len. lia.
Qed.

Lemma word_sum_repeat0 n : word_sum (repeat 0 n) = 0.
Proof.
  induction n as [n IH] using (well_founded_induction lt_wf).
  destruct n as [|[|[|[|n]]]]; try reflexivity. cbn [repeat word_sum]. rewrite IH by lia. reflexivity.
Qed.

Lemma word_sum_be4 v : 0 <= v < U32MOD -> word_sum (be_bytes 4 v) = v.
Proof.
  intros Hv. unfold U32MOD in Hv. cbn [be_bytes word_sum Z.of_nat Pos.of_succ_nat Pos.succ].
  change (256 ^ 3) with 16777216. change (256 ^ 2) with 65536. change (256 ^ 1) with 256. change (256 ^ 0) with 1.
  lia.
Qed.

Lemma word_sum_nonneg_bytes b : bytes_ok b = true -> 0 <= word_sum b.
Proof.
  remember (length b) as n eqn:Hn. revert b Hn.
  induction n as [n IH] using (well_founded_induction lt_wf). intros b Hn Hb.
  destruct b as [|b0 [|b1 [|b2 [|b3 r]]]]; cbn [word_sum]; try lia.
  unfold bytes_ok in Hb. cbn [forallb] in Hb. unfold byte_ok in Hb.
  repeat rewrite andb_true_iff in Hb. destruct Hb as [[H0a H0b] [[H1a H1b] [[H2a H2b] [[H3a H3b] Hr]]]].
  specialize (IH (length r) ltac:(subst; cbn; lia) r eq_refl Hr). lia.
Qed.

(* patching a zeroed, aligned 4-byte field adds the value to the word sum *)
Lemma word_sum_patch b v : 12 <= len b -> firstn 4 (skipn 8 b) = [0; 0; 0; 0] -> 0 <= v < U32MOD ->
  word_sum (firstn 8 b ++ be_bytes 4 v ++ skipn 12 b) = word_sum b + v.
Proof.
  intros Hl Hz Hv.
  assert (b = firstn 8 b ++ [0; 0; 0; 0] ++ skipn 12 b) as Hb.
  { rewrite <- Hz. rewrite <- (firstn_skipn 8 b) at 1. f_equal.
    rewrite <- (firstn_skipn 4 (skipn 8 b)) at 1. f_equal. rewrite skipn_skipn'. reflexivity. }
  assert (len (firstn 8 b) mod 4 = 0) as H8 by (unfold len in *; rewrite firstn_length; lia).
  replace (word_sum b) with (word_sum (firstn 8 b ++ [0; 0; 0; 0] ++ skipn 12 b)) by (rewrite <- Hb; reflexivity).
  rewrite !word_sum_app; try assumption; try reflexivity.
  rewrite word_sum_be4 by assumption. cbn [word_sum]. lia.
Qed.

(* ---------- BTreeMap order *)
Definition keys_sorted (m : list (Z * list Z)) : Prop := StronglySorted Z.lt (map fst m).

Lemma map_insert_keys tag b m x : In x (map fst (map_insert tag b m)) <-> x = tag \/ In x (map fst m).
Proof.
  induction m as [|[t y] r IH]; cbn [map_insert map fst In].
  - split; intros [H|H]; auto.
  - destruct (tag <? t) eqn:E1.
    + cbn [map fst In]. split; intros H; [destruct H as [H|H]; auto|destruct H as [H|H]; auto].
    + destruct (tag =? t) eqn:E2; cbn [map fst In].
      * assert (tag = t) by lia. subst. split; intros H; [destruct H as [H|H]; auto|destruct H as [H|[H|H]]; auto].
      * rewrite IH. split; intros H; [destruct H as [H|[H|H]]; auto|destruct H as [H|[H|H]]; auto].
Qed.

Lemma map_insert_sorted tag b m : keys_sorted m -> keys_sorted (map_insert tag b m).
Proof.
  unfold keys_sorted. induction m as [|[t y] r IH]; intros Hs; cbn [map_insert map fst].
  - repeat constructor.
  - inversion Hs as [|? ? Hs' Hall]; subst.
    destruct (tag <? t) eqn:E1.
    + cbn [map fst] in *. constructor; [exact Hs|]. constructor; [lia|]. rewrite Forall_forall in *. intros x Hx. specialize (Hall x Hx). lia.
    + destruct (tag =? t) eqn:E2.
      * assert (tag = t) by lia. subst. cbn [map fst]. constructor; assumption.
      * cbn [map fst]. constructor; [apply IH; exact Hs'|].
        rewrite Forall_forall in *. intros x Hx. apply map_insert_keys in Hx. destruct Hx as [->|Hx]; [lia|auto].
Qed.

Lemma inserts_sorted ins : keys_sorted (fold_left (fun acc tb => map_insert (fst tb) (snd tb) acc) ins []).
Proof.
  assert (forall acc, keys_sorted acc ->
            keys_sorted (fold_left (fun acc tb => map_insert (fst tb) (snd tb) acc) ins acc)) as G.
  { induction ins as [|tb ins IH]; intros acc H; [exact H|]. cbn [fold_left]. apply IH. apply map_insert_sorted. exact H. }
  apply G. constructor.
Qed.

(* ---------- the directory pass *)
(* what write_table_directory guarantees, relative to the start offset: tags in table order,
   lengths are the unpadded lengths, offsets are contiguous 4-aligned positions of the padded
   buffers, buffers are the zero-padded payloads, checksums are those of the padded payloads *)
Fixpoint dir_spec (tables : list (Z * list Z)) (offset : Z)
         (recs : list (list Z)) (bufs : list (Z * list Z)) : Prop :=
  match tables, recs, bufs with
  | [], [], [] => True
  | (tag, b) :: ts, r :: rs, (tag', p) :: ps =>
      r = [tag; word_sum (pad4 b) mod U32MOD; offset; len b] /\ tag' = tag /\ p = pad4 b /\
      dir_spec ts (offset + len (pad4 b)) rs ps
  | _, _, _ => False
  end.

Lemma directory_spec : forall tables offset recs bufs total,
  directory tables offset = Ok (recs, bufs, total) ->
  dir_spec tables offset recs bufs /\
  total = fold_right (fun tb acc => (word_sum (pad4 (snd tb)) mod U32MOD + acc) mod U32MOD) 0 tables.
Proof.
  induction tables as [|[tag b] ts IH]; intros offset recs bufs total H; cbn [directory] in H.
  - injection H as <- <- <-. split; [exact I|reflexivity].
  - unfold table_checksum in H. rewrite pad4_aligned in H. cbn [Z.eqb bind] in H.
    destruct ((U32MOD <=? offset) || (U32MOD <=? len b)); [discriminate|].
    destruct (directory ts (offset + len (pad4 b))) as [[[rs ps] tot]| | |] eqn:E; cbn [bind] in H; try discriminate.
    injection H as <- <- <-. destruct (IH _ _ _ _ E) as [H1 H2]. split.
    + cbn [dir_spec]. repeat split; try reflexivity. exact H1.
    + cbn [fold_right snd]. rewrite H2. reflexivity.
Qed.

Lemma dir_spec_offsets_aligned : forall tables offset recs bufs,
  dir_spec tables offset recs bufs -> offset mod 4 = 0 ->
  Forall (fun r => nth 2 r 0 mod 4 = 0) recs.
Proof.
  induction tables as [|[tag b] ts IH]; intros offset recs bufs H Hal;
    destruct recs as [|r rs]; destruct bufs as [|[t' p] ps]; cbn [dir_spec] in H; try contradiction; [constructor|].
  destruct H as [-> [_ [_ H]]]. constructor; [cbn [nth]; exact Hal|].
  apply (IH _ _ _ H). pose proof (pad4_aligned b). lia.
Qed.

Lemma dir_spec_tags : forall tables offset recs bufs,
  dir_spec tables offset recs bufs -> map (fun r => nth 0 r 0) recs = map fst tables /\ map fst bufs = map fst tables.
Proof.
  induction tables as [|[tag b] ts IH]; intros offset recs bufs H;
    destruct recs as [|r rs]; destruct bufs as [|[t' p] ps]; cbn [dir_spec] in H; try contradiction; [split; reflexivity|].
  destruct H as [-> [-> [_ H]]]. destruct (IH _ _ _ H) as [H1 H2]. cbn [map nth fst]. rewrite H1, H2. split; reflexivity.
Qed.

(* ---------- emitting the tables: the body is the concatenation of the padded payloads, the one
   head buffer patched; its word sum is the sum of the payload sums plus the adjustment *)
Definition head_ok (b : list Z) : Prop := 12 <= len b /\ firstn 4 (skipn 8 b) = [0; 0; 0; 0].

Lemma pad4_head_ok b : head_ok b -> head_ok (pad4 b).
Proof.
  intros [Hl Hz]. unfold head_ok. rewrite len_pad4. pose proof (long_align_ge (len b) ltac:(lia)).
  split; [lia|]. unfold pad4. unfold len in Hl.
  rewrite skipn_app. rewrite firstn_app. rewrite Hz. cbn [length].
  replace (8 - length b)%nat with 0%nat by lia. rewrite skipn_length.
  replace (4 - (length b - 8))%nat with 0%nat by lia. cbn [firstn]. apply app_nil_r.
Qed.

Fixpoint count_head (bufs : list (Z * list Z)) : nat :=
  match bufs with [] => O | (t, _) :: r => ((if Z.eqb t HEAD_TAG then 1 else 0) + count_head r)%nat end.

Lemma patch_head_ok b v : 12 <= len b -> patch_head b v = Ok (firstn 8 b ++ be_bytes 4 v ++ skipn 12 b).
Proof. intros. unfold patch_head. replace (len b <? 12) with false by lia. reflexivity. Qed.

Lemma len_patched b v : 12 <= len b -> len (firstn 8 b ++ be_bytes 4 v ++ skipn 12 b) = len b.
Proof.
  intros. unfold len in *. rewrite !app_length, firstn_length, skipn_length.
  change (length (be_bytes 4 v)) with 4%nat. lia.
Qed.

Lemma emit_tables_cons t b r adj :
  emit_tables ((t, b) :: r) adj =
  (b' <- (if t =? HEAD_TAG then patch_head b adj else Ok b) ;; rb <- emit_tables r adj ;; Ok (b' ++ rb)).
Proof. reflexivity. Qed.

Lemma emit_tables_sum : forall bufs adj body,
  emit_tables bufs adj = Ok body -> 0 <= adj < U32MOD ->
  Forall (fun tb => len (snd tb) mod 4 = 0 /\ (fst tb = HEAD_TAG -> head_ok (snd tb))) bufs ->
  len body mod 4 = 0 /\
  word_sum body = fold_right (fun tb acc => word_sum (snd tb) + acc) 0 bufs + Z.of_nat (count_head bufs) * adj.
Proof.
  induction bufs as [|[t b] r IH]; intros adj body H Hadj Hall.
  - cbn [emit_tables] in H. injection H as <-. split; reflexivity.
  - inversion Hall as [|? ? [Hal Hh] Hrest]; subst. cbn [fst snd] in Hal, Hh.
    rewrite emit_tables_cons in H.
    apply bind_ok in H. destruct H as [b' [Hb' H]].
    apply bind_ok in H. destruct H as [rb [Er H]]. injection H as <-.
    destruct (IH adj rb Er Hadj Hrest) as [I1 I2].
    cbn [fold_right snd count_head].
    destruct (t =? HEAD_TAG) eqn:Et.
    + assert (t = HEAD_TAG) as -> by lia. destruct (Hh eq_refl) as [Hl Hz].
      rewrite patch_head_ok in Hb' by assumption.
      assert (b' = firstn 8 b ++ be_bytes 4 adj ++ skipn 12 b) as -> by congruence.
      pose proof (len_patched b adj Hl) as Hlen.
      split; [rewrite len_app, Hlen; lia|].
      rewrite word_sum_app by (rewrite Hlen; exact Hal).
      rewrite word_sum_patch by assumption. rewrite I2. lia.
    + assert (b' = b) as -> by congruence.
      split; [rewrite len_app; lia|].
      rewrite word_sum_app by exact Hal. rewrite I2. lia.
Qed.

(* ---------- the whole file *)
Definition tables_wf (tables : list (Z * list Z)) : Prop :=
  keys_sorted tables /\ count_head tables = 1%nat /\
  Forall (fun tb => fst tb = HEAD_TAG -> head_ok (snd tb)) tables.

Lemma total_mod (tables : list (Z * list Z)) :
  fold_right (fun tb acc => (word_sum (pad4 (snd tb)) mod U32MOD + acc) mod U32MOD) 0 tables mod U32MOD =
  fold_right (fun tb acc => word_sum (pad4 (snd tb)) + acc) 0 tables mod U32MOD.
Proof.
  induction tables as [|tb r IH]; [reflexivity|]. cbn [fold_right].
  rewrite Z.mod_mod by (unfold U32MOD; lia).
  rewrite <- (Z.add_mod_idemp_l (word_sum (pad4 (snd tb)))) by (unfold U32MOD; lia).
  rewrite (Z.add_mod (word_sum (pad4 (snd tb)) mod U32MOD) (fold_right _ 0 r)) by (unfold U32MOD; lia).
  rewrite IH. rewrite <- Z.add_mod by (unfold U32MOD; lia). reflexivity.
Qed.

Lemma dir_spec_bufs : forall tables offset recs bufs,
  dir_spec tables offset recs bufs ->
  bufs = map (fun tb => (fst tb, pad4 (snd tb))) tables.
Proof.
  induction tables as [|[tag b] ts IH]; intros offset recs bufs H;
    destruct recs as [|r rs]; destruct bufs as [|[t' p] ps]; cbn [dir_spec] in H; try contradiction; [reflexivity|].
  destruct H as [_ [-> [-> H]]]. cbn [map fst snd]. f_equal. eapply IH; eauto.
Qed.

Lemma count_head_map (tables : list (Z * list Z)) : count_head (map (fun tb => (fst tb, pad4 (snd tb))) tables) = count_head tables.
Proof. induction tables as [|[t b] r IH]; [reflexivity|]. cbn [map count_head fst snd]. rewrite IH. reflexivity. Qed.

Lemma fold_map_pad (tables : list (Z * list Z)) :
  fold_right (fun tb acc => word_sum (snd tb) + acc) 0 (map (fun tb => (fst tb, pad4 (snd tb))) tables) =
  fold_right (fun tb acc => word_sum (pad4 (snd tb)) + acc) 0 tables.
Proof. induction tables as [|[t b] r IH]; [reflexivity|]. cbn [map fold_right fst snd]. rewrite IH. reflexivity. Qed.

Lemma table_checksum_ok b cs : table_checksum b = Ok cs -> len b mod 4 = 0 /\ cs = word_sum b mod U32MOD.
Proof. unfold table_checksum. destruct (len b mod 4 =? 0) eqn:E; [intros [= <-]; split; [lia|reflexivity]|discriminate]. Qed.

Theorem build_checksum m ver tables file :
  build_font m ver tables = Ok file -> tables_wf tables ->
  len file mod 4 = 0 /\ word_sum file mod U32MOD = 2981146554.
Proof.
  intros H [Hsorted [Hcount Hhead]]. unfold build_font in H.
  apply bind_ok in H. destruct H as [hdr [Hhdr H]].
  apply bind_ok in H. destruct H as [[[recs bufs] total] [Hdir H]]. cbv beta iota in H.
  destruct (negb (long_align (len (hdr ++ concat (map enc_record recs))) =? long_align (len tables * 16 + len hdr)));
    [discriminate|].
  apply bind_ok in H. destruct H as [hc [Hhc H]].
  apply bind_ok in H. destruct H as [body [Hbody H]]. injection H as <-.
  apply table_checksum_ok in Hhc. destruct Hhc as [Hal ->].
  apply directory_spec in Hdir. destruct Hdir as [Hspec ->].
  pose proof (dir_spec_bufs _ _ _ _ Hspec) as Hbufs. subst bufs.
  set (adj := (2981146554 - (word_sum (pad4 (hdr ++ concat (map enc_record recs))) mod U32MOD +
        fold_right (fun tb acc => (word_sum (pad4 (snd tb)) mod U32MOD + acc) mod U32MOD) 0 tables)) mod U32MOD) in *.
  assert (0 <= adj < U32MOD) as Hadj by (apply Z.mod_pos_bound; reflexivity).
  destruct (emit_tables_sum _ adj body Hbody Hadj) as [Hbl Hbs].
  { rewrite Forall_forall in *. intros [t p] Hin. apply in_map_iff in Hin. destruct Hin as [[t0 b0] [Heq Hin]].
    cbn [fst snd] in Heq. injection Heq as <- <-. cbn [fst snd]. split; [apply pad4_aligned|].
    intros Ht. apply pad4_head_ok. apply (Hhead (t0, b0) Hin). exact Ht. }
  split; [rewrite len_app; lia|].
  rewrite word_sum_app by exact Hal. rewrite Hbs. rewrite count_head_map, Hcount, fold_map_pad.
  set (H0 := word_sum (pad4 (hdr ++ concat (map enc_record recs)))) in *.
  set (S0 := fold_right (fun tb acc => word_sum (pad4 (snd tb)) + acc) 0 tables).
  pose proof (total_mod tables) as Ht. fold S0 in Ht.
  set (T0 := fold_right (fun tb acc => (word_sum (pad4 (snd tb)) mod U32MOD + acc) mod U32MOD) 0 tables) in *.
  unfold adj. unfold U32MOD in *. change (Z.of_nat 1) with 1.
  clearbody H0 S0 T0. clear - Ht. lia.
Qed.

(* directory order: ascending tags, one record per table, in BTreeMap order *)
Theorem build_directory_sorted ins :
  keys_sorted (fold_left (fun acc tb => map_insert (fst tb) (snd tb) acc) ins []).
Proof. exact (inserts_sorted ins). Qed.

(* ---------- structure of the output and read-back through the container model (C10) *)
From AV Require Import Model.Reader Model.ReaderExt Proofs.ReaderProofs Proofs.EncodeProofs Model.Container Proofs.ContainerProofs.

Definition hdr_fields (num : Z) : Z * Z * Z :=
  let e := max_power_of_2 num in (2 ^ e * 16, e, num * 16 - 2 ^ e * 16).

Lemma log2_bounds num : 1 <= num < 4096 -> 0 <= Z.log2 num <= 11 /\ 2 ^ Z.log2 num <= num.
Proof.
  intros H. pose proof (Z.log2_nonneg num). pose proof (Z.log2_spec num ltac:(lia)) as [L1 L2].
  split; [|lia]. split; [lia|].
  destruct (Z.le_gt_cases (Z.log2 num) 11); [assumption|].
  exfalso. assert (2 ^ 12 <= 2 ^ Z.log2 num) by (apply Z.pow_le_mono_r; lia). change (2 ^ 12) with 4096 in *. lia.
Qed.

Lemma pow2_le_2048 e : 0 <= e <= 11 -> 1 <= 2 ^ e <= 2048.
Proof.
  intros H. split; [apply (Z.pow_le_mono_r 2 0 e); lia|].
  change 2048 with (2 ^ 11). apply Z.pow_le_mono_r; lia.
Qed.

Lemma offset_table_header_ok m ver num : 1 <= num < 4096 ->
  offset_table_header m ver num =
  Ok (be_bytes 4 ver ++ be_bytes 2 num ++ be_bytes 2 (fst (fst (hdr_fields num)))
      ++ be_bytes 2 (snd (fst (hdr_fields num))) ++ be_bytes 2 (snd (hdr_fields num))).
Proof.
  intros Hn. unfold offset_table_header, hdr_fields, max_power_of_2. cbn [fst snd].
  replace (65535 <? num) with false by lia. replace (num <=? 0) with false by lia.
  destruct (log2_bounds num Hn) as [Hl Hp]. pose proof (pow2_le_2048 _ Hl).
  unfold u16_checked, u16_arith.
  replace ((0 <=? 2 ^ Z.log2 num * 16) && (2 ^ Z.log2 num * 16 <? 65536)) with true by lia. cbn [bind].
  replace ((0 <=? num * 16) && (num * 16 <? 65536)) with true by lia. cbn [bind].
  replace ((0 <=? num * 16 - 2 ^ Z.log2 num * 16) && (num * 16 - 2 ^ Z.log2 num * 16 <? 65536)) with true by lia.
  cbn [bind]. reflexivity.
Qed.

Lemma enc_record_is_enc_seq r : length r = 4%nat -> enc_record r = enc_seq table_record_ty r.
Proof.
  destruct r as [|a [|b [|c [|d [|? ?]]]]]; cbn [length]; try discriminate. intros _.
  unfold enc_record, table_record_ty. cbn [map concat enc_seq]. unfold enc_prim.
  change (Z.to_nat (spec_size PU32)) with 4%nat. rewrite !app_nil_r. reflexivity.
Qed.

Lemma dir_spec_recs_len4 : forall tables offset recs bufs,
  dir_spec tables offset recs bufs -> Forall (fun r => length r = 4%nat) recs.
Proof.
  induction tables as [|[tag b] ts IH]; intros offset recs bufs H;
    destruct recs as [|r rs]; destruct bufs as [|[t' p] ps]; cbn [dir_spec] in H; try contradiction; [constructor|].
  destruct H as [-> [_ [_ H]]]. constructor; [reflexivity|]. eapply IH; eauto.
Qed.

Lemma concat_enc_records recs : Forall (fun r => length r = 4%nat) recs ->
  concat (map enc_record recs) = enc_records table_record_ty recs.
Proof.
  induction 1 as [|r recs Hr _ IH]; [reflexivity|]. unfold enc_records in *. cbn [map concat].
  rewrite enc_record_is_enc_seq by assumption. rewrite IH. reflexivity.
Qed.

Definition u32v (v : Z) : Prop := 0 <= v < 4294967296.

Lemma directory_recs_ok : forall tables offset recs bufs total,
  directory tables offset = Ok (recs, bufs, total) -> 0 <= offset ->
  Forall (fun tb => u32v (fst tb)) tables ->
  Forall (seq_ok table_record_ty) recs.
Proof.
  induction tables as [|[tag b] ts IH]; intros offset recs bufs total H Ho Ht; cbn [directory] in H.
  - injection H as <- _ _. constructor.
  - unfold table_checksum in H. rewrite pad4_aligned in H. cbn [Z.eqb bind] in H.
    destruct ((U32MOD <=? offset) || (U32MOD <=? len b)) eqn:E; [discriminate|].
    destruct (directory ts (offset + len (pad4 b))) as [[[rs ps] tot]| | |] eqn:Ed; cbn [bind] in H; try discriminate.
    injection H as <- _ _. inversion Ht as [|? ? Htag Hrest]; subst. cbn [fst] in Htag.
    pose proof (len_nonneg b). pose proof (len_nonneg (pad4 b)).
    constructor; [|eapply IH; eauto; lia].
    unfold table_record_ty. cbn [seq_ok]. unfold prim_val_ok, u32v, U32MOD in *. cbn [prim_signed spec_size].
    change (256 ^ 4) with 4294967296.
    pose proof (Z.mod_pos_bound (word_sum (pad4 b)) 4294967296 ltac:(lia)).
    repeat split; try reflexivity; lia.
Qed.

Lemma bytes_ok_repeat0 n : bytes_ok (repeat 0 n) = true.
Proof. induction n; [reflexivity|]. unfold bytes_ok in *. cbn [repeat forallb]. rewrite IHn. reflexivity. Qed.

Lemma bytes_ok_pad4 b : bytes_ok b = true -> bytes_ok (pad4 b) = true.
Proof. intros. unfold pad4. rewrite bytes_ok_app, H, bytes_ok_repeat0. reflexivity. Qed.

Lemma bytes_ok_firstn n b : bytes_ok b = true -> bytes_ok (firstn n b) = true.
Proof. intros. replace n with (Z.to_nat (Z.of_nat n)) by lia. apply bytes_ok_take. assumption. Qed.
Lemma bytes_ok_skipn n b : bytes_ok b = true -> bytes_ok (skipn n b) = true.
Proof. intros. replace n with (Z.to_nat (Z.of_nat n)) by lia. apply bytes_ok_drop. assumption. Qed.

Lemma emit_tables_bytes_ok : forall bufs adj body,
  emit_tables bufs adj = Ok body -> Forall (fun tb => bytes_ok (snd tb) = true) bufs -> bytes_ok body = true.
Proof.
  induction bufs as [|[t b] r IH]; intros adj body H Hall.
  - cbn [emit_tables] in H. assert (body = []) as -> by congruence. reflexivity.
  - inversion Hall as [|? ? Hb Hrest]; subst. cbn [snd] in Hb.
    rewrite emit_tables_cons in H.
    apply bind_ok in H. destruct H as [b' [Hb' H]].
    apply bind_ok in H. destruct H as [rb [Er H]]. assert (body = b' ++ rb) as -> by congruence.
    rewrite bytes_ok_app. rewrite (IH adj rb Er Hrest). rewrite andb_true_r.
    destruct (t =? HEAD_TAG).
    + unfold patch_head in Hb'. destruct (len b <? 12); [discriminate|].
      assert (b' = firstn 8 b ++ be_bytes 4 adj ++ skipn 12 b) as -> by congruence.
      rewrite !bytes_ok_app. rewrite bytes_ok_firstn, bytes_ok_skipn by assumption.
      rewrite be_bytes_ok. reflexivity.
    + assert (b' = b) as -> by congruence. exact Hb.
Qed.

Lemma bytes_ok_concat (l : list (list Z)) : Forall (fun x => bytes_ok x = true) l -> bytes_ok (concat l) = true.
Proof.
  induction 1 as [|x l Hx _ IH]; [reflexivity|]. cbn [concat]. rewrite bytes_ok_app, Hx, IH. reflexivity.
Qed.

Lemma enc_record_bytes_ok r : bytes_ok (enc_record r) = true.
Proof.
  unfold enc_record. apply bytes_ok_concat. rewrite Forall_forall. intros x Hx.
  apply in_map_iff in Hx. destruct Hx as [v [<- _]]. apply be_bytes_ok.
Qed.

Lemma dir_spec_lens : forall tables offset recs bufs,
  dir_spec tables offset recs bufs -> map (fun r => nth 3 r 0) recs = map (fun tb => len (snd tb)) tables.
Proof.
  induction tables as [|[tag b] ts IH]; intros offset recs bufs H;
    destruct recs as [|r rs]; destruct bufs as [|[t' p] ps]; cbn [dir_spec] in H; try contradiction; [reflexivity|].
  destruct H as [-> [_ [_ H]]]. cbn [map nth snd]. f_equal. eapply IH; eauto.
Qed.

(* A font built by the writer reads back, through the container model of C10, as exactly the
   directory that was written: same flavour, one record per table in ascending tag order. *)
Theorem build_reads_back m ver tables file idx :
  build_font m ver tables = Ok file ->
  is_sfnt_magic ver = true -> 1 <= len tables < 4096 -> len file < USIZE ->
  Forall (fun tb => u32v (fst tb) /\ bytes_ok (snd tb) = true) tables ->
  exists recs,
    font_provider (scope_new file) idx = Ok (POpenType {| ot_version := ver; ot_records := recs |}) /\
    map (fun r => nth 0 r 0) recs = map fst tables /\
    map (fun r => nth 3 r 0) recs = map (fun tb => len (snd tb)) tables /\
    Forall (fun r => nth 2 r 0 mod 4 = 0) recs.
Proof.
  intros H Hmagic Hn Hlen Htabs. pose proof H as H0. unfold build_font in H.
  rewrite (offset_table_header_ok m ver (len tables) Hn) in H. cbn [bind] in H.
  set (hdr := be_bytes 4 ver ++ be_bytes 2 (len tables) ++ be_bytes 2 (fst (fst (hdr_fields (len tables))))
              ++ be_bytes 2 (snd (fst (hdr_fields (len tables)))) ++ be_bytes 2 (snd (hdr_fields (len tables)))) in *.
  assert (len hdr = 12) as Hlh by (unfold hdr; rewrite !len_app, !len_be_bytes; reflexivity).
  apply bind_ok in H. destruct H as [[[recs bufs] total] [Hdir H]]. cbv beta iota in H.
  destruct (negb (long_align (len (hdr ++ concat (map enc_record recs))) =? long_align (len tables * 16 + len hdr))) eqn:Eas;
    [discriminate|].
  apply bind_ok in H. destruct H as [hc [Hhc H]].
  apply bind_ok in H. destruct H as [body [Hbody H]].
  assert (file = pad4 (hdr ++ concat (map enc_record recs)) ++ body) as Hfile by congruence.
  pose proof (directory_spec _ _ _ _ _ Hdir) as [Hspec _].
  pose proof (dir_spec_recs_len4 _ _ _ _ Hspec) as Hl4.
  destruct (dir_spec_tags _ _ _ _ Hspec) as [Htags _].
  assert (len recs = len tables) as Hlr.
  { unfold len. f_equal. rewrite <- (map_length (fun r => nth 0 r 0) recs), Htags, map_length. reflexivity. }
  assert (Forall (seq_ok table_record_ty) recs) as Hrok.
  { eapply directory_recs_ok; eauto.
    - rewrite Hlh. unfold long_align. lia.
    - rewrite Forall_forall in *. intros tb Hin. apply Htabs. exact Hin. }
  (* the header + directory are 12 + 16n bytes: already aligned, so pad4 adds nothing *)
  assert (len (concat (map enc_record recs)) = len recs * 16) as Hlc.
  { rewrite concat_enc_records by assumption. rewrite len_enc_records by assumption. reflexivity. }
  assert (pad4 (hdr ++ concat (map enc_record recs)) = hdr ++ concat (map enc_record recs)) as Hpad.
  { unfold pad4. rewrite len_app, Hlh, Hlc. unfold long_align.
    replace (Z.to_nat ((12 + len recs * 16 + 3) / 4 * 4 - (12 + len recs * 16))) with 0%nat by lia.
    cbn [repeat]. apply app_nil_r. }
  rewrite Hpad in Hfile.
  exists recs. split; [|split; [exact Htags|split]].
  - destruct (hdr_fields (len tables)) as [[sr es] rs] eqn:Ehf.
    apply (sfnt_provider (scope_new file) idx ver sr es rs recs body).
    + unfold file_scope_ok, scope_new; cbn [base data]. unfold dlen; cbn [data]. split; [reflexivity|]. split; [exact Hlen|].
      (* bytes in range: everything is built from be_bytes, zero padding and the payload bytes *)
      rewrite Hfile. rewrite !bytes_ok_app. unfold hdr. rewrite !bytes_ok_app, !be_bytes_ok. cbn [andb].
      rewrite bytes_ok_concat by (rewrite Forall_forall; intros x Hx; apply in_map_iff in Hx;
                                  destruct Hx as [r [<- _]]; apply enc_record_bytes_ok).
      cbn [andb]. apply (emit_tables_bytes_ok bufs _ body Hbody).
      rewrite (dir_spec_bufs _ _ _ _ Hspec). rewrite Forall_forall. intros [t p] Hin.
      apply in_map_iff in Hin. destruct Hin as [[t0 b0] [Heq Hin]]. cbn [fst snd] in Heq.
      assert (p = pad4 b0) as -> by congruence. cbn [snd]. apply bytes_ok_pad4.
      rewrite Forall_forall in Htabs. apply (Htabs (t0, b0) Hin).
    + (* ot_ok *)
      unfold ot_ok. split; [exact Hmagic|]. split; [|exact Hrok].
      unfold hdr_fields in Ehf. injection Ehf as <- <- <-.
      unfold max_power_of_2. replace (len tables <=? 0) with false by lia.
      destruct (log2_bounds (len tables) Hn) as [Hl Hp]. pose proof (pow2_le_2048 _ Hl).
      unfold offset_table_header_ty. cbn [seq_ok]. unfold prim_val_ok. cbn [prim_signed spec_size].
      change (256 ^ 4) with 4294967296. change (256 ^ 2) with 65536. rewrite Hlr.
      assert (0 <= ver < 4294967296) as Hv.
      { unfold is_sfnt_magic in Hmagic. unfold TTF_MAGIC, TRUE_MAGIC, CFF_MAGIC in Hmagic. lia. }
      repeat split; try reflexivity; lia.
    + (* the bytes are the specification's encoding of that directory *)
      unfold scope_new; cbn [data]. rewrite Hfile. unfold enc_offset_table.
      rewrite <- (concat_enc_records recs Hl4). f_equal. f_equal.
      unfold hdr. try rewrite Ehf. cbn [fst snd]. unfold offset_table_header_ty. cbn [enc_seq]. unfold enc_prim.
      change (Z.to_nat (spec_size PU32)) with 4%nat. change (Z.to_nat (spec_size PU16)) with 2%nat.
      rewrite Hlr. rewrite app_nil_r. reflexivity.
  - eapply dir_spec_lens; eauto.
  - eapply dir_spec_offsets_aligned; eauto. rewrite Hlh. unfold long_align. lia.
Qed.
