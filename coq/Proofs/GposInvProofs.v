(* Proofs/GposInvProofs.v — everything gpos::apply writes into the Infos keeps the attachment indices in range
   and pointing the right way: a mark is attached to an EARLIER glyph of the run, a cursive glyph to a LATER one.
   Consequences: glyph_positions never fails with BadIndex on the output of gpos::apply, and the cursive
   attachment links it builds strictly decrease, so adjust_cursive_chain terminates without its bound. *)
From AV Require Import Base.Prelude Base.Lemmas Gen.LayoutConsts Gen.GposConsts Model.Layout Model.LayoutSpec Model.Gpos
  Model.Position Model.GposSpec Proofs.LayoutProofs Proofs.ContextProofs Proofs.GposProofs Proofs.PositionProofs.
From Coq Require Import ZifyBool.
Open Scope Z_scope.

Definition wf (l : list info) : Prop := forall k x, nth_opt l k = Some x -> place_wf (len l) k (i_place x).

(* l0 = the run before positioning: same glyphs, same length, well-formed attachments *)
Definition Inv (l0 l : list info) : Prop := len l = len l0 /\ iids l = iids l0 /\ wf l.

Lemma iget_ok l i x : iget l i = Ok x <-> nth_opt l i = Some x.
Proof. unfold iget. destruct (nth_opt l i); split; intros H; inversion H; reflexivity. Qed.

Lemma iset_mid a x b x' : iset (a ++ x :: b) (len a) x' = a ++ x' :: b.
Proof. unfold iset. rewrite take_app_len', drop_app_len'. reflexivity. Qed.

Lemma iset_spec l i x x0 : nth_opt l i = Some x0 ->
  len (iset l i x) = len l /\ nth_opt (iset l i x) i = Some x /\
  (forall k, k <> i -> nth_opt (iset l i x) k = nth_opt l k) /\
  (i_id x = i_id x0 -> iids (iset l i x) = iids l).
Proof.
  intros H. destruct (split_at_Z _ _ _ H) as (a & b & -> & <-). rewrite iset_mid.
  split; [rewrite !len_app, !len_cons; reflexivity|]. pose proof (len_nonneg a). split; [|split].
  - rewrite nth_opt_app_r by lia. replace (len a - len a) with 0 by lia. reflexivity.
  - intros k Hk. destruct (Z_lt_ge_dec k (len a)).
    + destruct (Z_lt_ge_dec k 0).
      * unfold nth_opt. replace (k <? 0) with true by lia. reflexivity.
      * rewrite !nth_opt_app_l by lia. reflexivity.
    + rewrite !nth_opt_app_r by lia. unfold nth_opt. replace (k - len a <? 0) with false by lia.
      replace (Z.to_nat (k - len a)) with (S (Z.to_nat (k - len a - 1))) by lia. reflexivity.
  - intros Hid. unfold iids. rewrite !map_app. cbn [map]. rewrite Hid. reflexivity.
Qed.

Lemma Inv_iset l0 l i x x0 : Inv l0 l -> nth_opt l i = Some x0 -> i_id x = i_id x0 ->
  place_wf (len l) i (i_place x) -> Inv l0 (iset l i x).
Proof.
  intros (H1 & H2 & H3) Hn Hid Hw. destruct (iset_spec l i x x0 Hn) as (L1 & L2 & L3 & L4).
  split; [lia|]. split; [rewrite L4 by exact Hid; exact H2|].
  intros k y Hk. rewrite L1. destruct (Z.eq_dec k i) as [->|Hne].
  - rewrite L2 in Hk. inversion Hk; subst. exact Hw.
  - rewrite L3 in Hk by exact Hne. apply H3. exact Hk.
Qed.

Lemma update_at_inv (f : info -> outcome info) l0 l i l' :
  (forall x x', f x = Ok x' -> i_id x' = i_id x /\ forall n k, place_wf n k (i_place x) -> place_wf n k (i_place x')) ->
  Inv l0 l -> update_at f l i = Ok l' -> Inv l0 l'.
Proof.
  intros Hf HI H. unfold update_at in H.
  destruct (iget l i) as [x| | |] eqn:Ex; cbn [bind] in H; try discriminate. apply iget_ok in Ex.
  destruct (f x) as [x'| | |] eqn:Ef; cbn [bind] in H; try discriminate. inversion H; subst.
  destruct (Hf x x' Ef) as [Hid Hw]. apply (Inv_iset l0 l i x' x HI Ex Hid). apply Hw.
  destruct HI as (_ & _ & H3). apply H3. exact Ex.
Qed.

Lemma adjust_apply_keeps a : forall x x', Ok (adjust_apply a x) = Ok x' ->
  i_id x' = i_id x /\ forall n k, place_wf n k (i_place x) -> place_wf n k (i_place x').
Proof. intros x x' H. inversion H; subst. destruct (adjust_apply_preserves a x) as (H1 & _ & _ & _ & H5). split; assumption. Qed.

Lemma singlepos_keeps subs : forall x x', singlepos subs x = Ok x' ->
  i_id x' = i_id x /\ forall n k, place_wf n k (i_place x) -> place_wf n k (i_place x').
Proof.
  intros x x' H. unfold singlepos in H.
  destruct (first_sub _ subs) as [[adj|]| | |]; cbn [bind] in H; try discriminate.
  - apply (adjust_apply_keeps adj); exact H.
  - inversion H; subst. split; [reflexivity|tauto].
Qed.

Lemma pairpos_inv subs l0 l i1 i2 l' : Inv l0 l -> pairpos subs i1 i2 l = Ok l' -> Inv l0 l'.
Proof.
  intros HI H. unfold pairpos in H.
  destruct (iget l i1) as [x1| | |]; cbn [bind] in H; try discriminate.
  destruct (iget l i2) as [x2| | |]; cbn [bind] in H; try discriminate.
  destruct (first_sub _ subs) as [[[a1 a2]|]| | |]; cbn [bind] in H; try discriminate; [|inversion H; subst; exact HI].
  assert (H1 : forall l1, (match a1 with Some a => update_at (fun x => Ok (adjust_apply a x)) l i1 | None => Ok l end) = Ok l1 -> Inv l0 l1).
  { intros l1 E. destruct a1 as [a|]; [|inversion E; subst; exact HI]. eapply update_at_inv; [apply adjust_apply_keeps|exact HI|exact E]. }
  destruct (match a1 with Some a => update_at (fun x => Ok (adjust_apply a x)) l i1 | None => Ok l end) as [l1| | |]; cbn [bind] in H; try discriminate.
  specialize (H1 l1 eq_refl). destruct a2 as [a|]; [|inversion H; subst; exact H1].
  eapply update_at_inv; [apply adjust_apply_keeps|exact H1|exact H].
Qed.

Lemma cursivepos_inv subs flag l0 l i1 i2 l' : Inv l0 l -> i1 < i2 -> cursivepos subs i1 i2 flag l = Ok l' -> Inv l0 l'.
Proof.
  intros HI Hlt H. unfold cursivepos in H.
  destruct (iget l i1) as [x1| | |] eqn:E1; cbn [bind] in H; try discriminate. apply iget_ok in E1.
  destruct (iget l i2) as [x2| | |] eqn:E2; cbn [bind] in H; try discriminate. apply iget_ok in E2.
  destruct (first_sub _ subs) as [[[an1 an2]|]| | |]; cbn [bind] in H; try discriminate; inversion H; subst; [|exact HI].
  apply (Inv_iset l0 l i1 _ x1 HI E1); [reflexivity|]. cbn. pose proof (nth_opt_range _ _ _ E2). lia.
Qed.

Lemma attach_mark_inv l0 l i1 i2 x2 r : Inv l0 l -> 0 <= i1 < i2 -> nth_opt l i2 = Some x2 -> Inv l0 (attach_mark l i1 i2 x2 r).
Proof.
  intros HI Hlt E2. unfold attach_mark. destruct r as [[a1 a2]|]; [|exact HI].
  apply (Inv_iset l0 l i2 _ x2 HI E2); [reflexivity|]. cbn. lia.
Qed.

Lemma markbasepos_inv subs l0 l i1 i2 l' : Inv l0 l -> 0 <= i1 < i2 -> markbasepos subs i1 i2 l = Ok l' -> Inv l0 l'.
Proof.
  intros HI Hlt H. unfold markbasepos in H.
  destruct (iget l i1) as [x1| | |]; cbn [bind] in H; try discriminate.
  destruct (iget l i2) as [x2| | |] eqn:E2; cbn [bind] in H; try discriminate. apply iget_ok in E2.
  destruct (first_sub _ subs) as [r| | |]; cbn [bind] in H; try discriminate. inversion H; subst.
  apply attach_mark_inv; assumption.
Qed.

Lemma markligpos_inv subs l0 l i1 i2 l' : Inv l0 l -> 0 <= i1 < i2 -> markligpos subs i1 i2 l = Ok l' -> Inv l0 l'.
Proof.
  intros HI Hlt H. unfold markligpos in H.
  destruct (iget l i1) as [x1| | |]; cbn [bind] in H; try discriminate.
  destruct (iget l i2) as [x2| | |] eqn:E2; cbn [bind] in H; try discriminate. apply iget_ok in E2.
  destruct (first_sub _ subs) as [r| | |]; cbn [bind] in H; try discriminate. inversion H; subst.
  apply attach_mark_inv; assumption.
Qed.

(* ------------------------------------------------------------------ iteration strategies *)
Lemma forall_glyphs_match_inv mt gd (f : Z -> action) l0 :
  (forall i l l', Inv l0 l -> f i l = Ok l' -> Inv l0 l') ->
  forall n l i l', Inv l0 l -> forall_glyphs_match n mt gd f l i = Ok l' -> Inv l0 l'.
Proof.
  intros Hf. induction n as [|n IH]; intros l i l' HI H; cbn [forall_glyphs_match] in H; [inversion H; subst; exact HI|].
  destruct (iget l i) as [x| | |]; cbn [bind] in H; try discriminate.
  destruct (if match_glyph mt gd (i_id x) then f i l else Ok l) as [l1| | |] eqn:E; cbn [bind] in H; try discriminate.
  apply (IH l1 (i + 1) l'); [|exact H]. destruct (match_glyph mt gd (i_id x)); [eapply Hf; eassumption|inversion E; subst; exact HI].
Qed.

Lemma find_next_bounds mt gd ids0 i p : 0 <= i -> find_next mt gd ids0 i = Some p -> i < p < len ids0.
Proof. intros Hi H. destruct (find_next_some mt gd ids0 i p Hi H) as (Hp & _). exact Hp. Qed.

Lemma pairs_loop_inv mt gd (f : Z -> Z -> action) l0 :
  (forall i1 i2 l l', Inv l0 l -> 0 <= i1 < i2 -> f i1 i2 l = Ok l' -> Inv l0 l') ->
  forall fuel l i1 l', Inv l0 l -> 0 <= i1 -> pairs_loop fuel mt gd f l i1 = Ok l' -> Inv l0 l'.
Proof.
  intros Hf. induction fuel as [|fuel IH]; intros l i1 l' HI Hi H; cbn [pairs_loop] in H; [discriminate|].
  destruct (find_next mt gd (iids l) i1) as [i2|] eqn:En; [|inversion H; subst; exact HI].
  pose proof (find_next_bounds mt gd _ _ _ Hi En) as Hb.
  destruct (f i1 i2 l) as [l1| | |] eqn:Ef; cbn [bind] in H; try discriminate.
  apply (IH l1 i2 l'); [eapply Hf; [exact HI| |exact Ef]; lia|lia|exact H].
Qed.

Lemma find_first_from_nonneg mt gd l k p : find_first_from mt gd l k = Some p -> k <= p.
Proof. apply find_first_from_ge. Qed.

Lemma forall_glyph_pairs_match_inv mt gd (f : Z -> Z -> action) l0 l l' :
  (forall i1 i2 l l', Inv l0 l -> 0 <= i1 < i2 -> f i1 i2 l = Ok l' -> Inv l0 l') ->
  Inv l0 l -> forall_glyph_pairs_match mt gd f l = Ok l' -> Inv l0 l'.
Proof.
  intros Hf HI H. unfold forall_glyph_pairs_match in H.
  destruct (find_first mt gd (iids l)) as [i1|] eqn:E; [|inversion H; subst; exact HI].
  unfold find_first in E. apply find_first_from_nonneg in E.
  eapply pairs_loop_inv; [exact Hf|exact HI|exact E|exact H].
Qed.

Lemma bm_inner_inv (f : Z -> Z -> action) l0 i :
  (forall i1 i2 l l', Inv l0 l -> 0 <= i1 < i2 -> f i1 i2 l = Ok l' -> Inv l0 l') -> 0 <= i ->
  forall n l j l' nx, Inv l0 l -> i < j -> bm_inner n f l i j = Ok (l', nx) ->
  Inv l0 l' /\ match nx with Some j' => i < j' | None => True end.
Proof.
  intros Hf Hi. induction n as [|n IH]; intros l j l' nx HI Hj H; cbn [bm_inner] in H.
  - inversion H; subst. split; [exact HI|exact I].
  - destruct (f i j l) as [l1| | |] eqn:Ef; cbn [bind] in H; try discriminate.
    assert (HI1 : Inv l0 l1) by (eapply Hf; [exact HI| |exact Ef]; lia).
    destruct (negb (is_mark_at l1 j)).
    + inversion H; subst. split; [exact HI1|lia].
    + apply (IH l1 (j + 1) l' nx HI1); [lia|exact H].
Qed.

Lemma bm_outer_inv (f : Z -> Z -> action) l0 :
  (forall i1 i2 l l', Inv l0 l -> 0 <= i1 < i2 -> f i1 i2 l = Ok l' -> Inv l0 l') ->
  forall fuel l i l', Inv l0 l -> 0 <= i -> bm_outer fuel f l i = Ok l' -> Inv l0 l'.
Proof.
  intros Hf. induction fuel as [|fuel IH]; intros l i l' HI Hi H; cbn [bm_outer] in H; [discriminate|].
  destruct (i + 1 <? len l); [|inversion H; subst; exact HI].
  destruct (negb (is_mark_at l i)).
  - destruct (bm_inner (Z.to_nat (len l - (i + 1))) f l i (i + 1)) as [[l1 nx]| | |] eqn:Eb; cbn [bind] in H; try discriminate.
    destruct (bm_inner_inv f l0 i Hf Hi _ l (i + 1) l1 nx HI ltac:(lia) Eb) as [HI1 Hnx].
    destruct nx as [j|]; [apply (IH l1 j l' HI1); [lia|exact H]|apply (IH l1 (i + 1) l' HI1); [lia|exact H]].
  - apply (IH l (i + 1) l' HI); [lia|exact H].
Qed.

Lemma mm_inner_inv (f : Z -> Z -> action) l0 i :
  (forall i1 i2 l l', Inv l0 l -> 0 <= i1 < i2 -> f i1 i2 l = Ok l' -> Inv l0 l') -> 0 <= i ->
  forall n l j l', Inv l0 l -> i < j -> mm_inner n f l i j = Ok l' -> Inv l0 l'.
Proof.
  intros Hf Hi. induction n as [|n IH]; intros l j l' HI Hj H; cbn [mm_inner] in H; [inversion H; subst; exact HI|].
  destruct (negb (is_mark_at l j)); [inversion H; subst; exact HI|].
  destruct (iget l i) as [xi| | |]; cbn [bind] in H; try discriminate.
  destruct (iget l j) as [xj| | |]; cbn [bind] in H; try discriminate.
  destruct (if (i_pos xi =? i_pos xj) || (i_lig xi || i_lig xj) then f i j l else Ok l) as [l1| | |] eqn:E; cbn [bind] in H; try discriminate.
  apply (IH l1 (j + 1) l'); [|lia|exact H].
  destruct ((i_pos xi =? i_pos xj) || (i_lig xi || i_lig xj)); [eapply Hf; [exact HI| |exact E]; lia|inversion E; subst; exact HI].
Qed.

Lemma mm_outer_inv (f : Z -> Z -> action) l0 :
  (forall i1 i2 l l', Inv l0 l -> 0 <= i1 < i2 -> f i1 i2 l = Ok l' -> Inv l0 l') ->
  forall n l i l', Inv l0 l -> 0 <= i -> mm_outer n f l i = Ok l' -> Inv l0 l'.
Proof.
  intros Hf. induction n as [|n IH]; intros l i l' HI Hi H; cbn [mm_outer] in H; [inversion H; subst; exact HI|].
  destruct (i + 1 <? len l); [|inversion H; subst; exact HI].
  destruct (if is_mark_at l i then mm_inner (Z.to_nat (len l - (i + 1))) f l i (i + 1) else Ok l) as [l1| | |] eqn:E; cbn [bind] in H; try discriminate.
  apply (IH l1 (i + 1) l'); [|lia|exact H].
  destruct (is_mark_at l i); [eapply (mm_inner_inv f l0 i Hf Hi); [exact HI| |exact E]; lia|inversion E; subst; exact HI].
Qed.

(* ------------------------------------------------------------------ contextual positioning *)
Lemma find_prev_bounds mt gd ids0 i p : 0 <= i <= len ids0 -> find_prev mt gd ids0 i = Some p -> 0 <= p < i.
Proof. intros Hi H. destruct (find_prev_some mt gd ids0 i p Hi H) as (Hp & _). exact Hp. Qed.

Lemma len_iids l : len (iids l) = len l.
Proof. unfold iids, len. rewrite map_length. reflexivity. Qed.

Lemma apply_pos_inv lookups gd pi li l0 l index l' :
  Inv l0 l -> 0 <= index < len l -> apply_pos lookups gd pi li l index = Ok l' -> Inv l0 l'.
Proof.
  intros HI Hidx H. unfold apply_pos in H.
  destruct (get_plookup lookups li) as [lk| | |]; cbn [bind] in H; try discriminate.
  set (mt := from_lookup_flag (pl_flag lk) (pl_mfs lk)) in *.
  destruct (find_nth mt gd (iids l) index (Z.to_nat pi)) as [i1|] eqn:En; [|inversion H; subst; exact HI].
  pose proof (find_nth_ge mt gd (iids l) _ _ _ En) as Hge.
  pose proof (find_nth_lt mt gd (iids l) _ index i1 ltac:(rewrite len_iids; lia) En) as Hlt. rewrite len_iids in Hlt.
  destruct (pl_body lk) as [subs|subs|subs|subs|subs|subs|subs|subs].
  - eapply update_at_inv; [apply singlepos_keeps|exact HI|exact H].
  - destruct (find_next mt gd (iids l) i1) as [i2|]; [|inversion H; subst; exact HI]. eapply pairpos_inv; eassumption.
  - destruct (find_next mt gd (iids l) i1) as [i2|] eqn:E2; [|inversion H; subst; exact HI].
    pose proof (find_next_bounds mt gd (iids l) i1 i2 ltac:(lia) E2). eapply cursivepos_inv; [exact HI| |exact H]. lia.
  - destruct (find_prev mt_ignore_marks gd (iids l) i1) as [b|] eqn:Eb; [|inversion H; subst; exact HI].
    pose proof (find_prev_bounds mt_ignore_marks gd (iids l) i1 b ltac:(rewrite len_iids; lia) Eb). eapply markbasepos_inv; [exact HI| |exact H]. lia.
  - destruct (find_prev mt_ignore_marks gd (iids l) i1) as [b|] eqn:Eb; [|inversion H; subst; exact HI].
    pose proof (find_prev_bounds mt_ignore_marks gd (iids l) i1 b ltac:(rewrite len_iids; lia) Eb). eapply markligpos_inv; [exact HI| |exact H]. lia.
  - destruct (find_prev mt gd (iids l) i1) as [b|] eqn:Eb; [|inversion H; subst; exact HI].
    pose proof (find_prev_bounds mt gd (iids l) i1 b ltac:(rewrite len_iids; lia) Eb). eapply markbasepos_inv; [exact HI| |exact H]. lia.
  - inversion H; subst; exact HI.
  - inversion H; subst; exact HI.
Qed.

Lemma apply_pos_context_inv lookups gd l0 : forall recs i l l',
  Inv l0 l -> 0 <= i < len l0 -> apply_pos_context lookups gd recs i l = Ok l' -> Inv l0 l'.
Proof.
  induction recs as [|[pi li] recs IH]; intros i l l' HI Hi H; cbn [apply_pos_context] in H; [inversion H; subst; exact HI|].
  destruct (apply_pos lookups gd pi li l i) as [l1| | |] eqn:E; cbn [bind] in H; try discriminate.
  apply (IH i l1 l'); [|exact Hi|exact H]. eapply apply_pos_inv; [exact HI| |exact E]. destruct HI as (Hl & _). lia.
Qed.

Lemma contextpos_inv lookups gd mt subs l0 i l l' : Inv l0 l -> contextpos lookups gd mt subs i l = Ok l' -> Inv l0 l'.
Proof.
  intros HI H. unfold contextpos in H.
  destruct (iget l i) as [x| | |] eqn:Ex; cbn [bind] in H; try discriminate. apply iget_ok in Ex.
  destruct (first_sub _ subs) as [[pos|]| | |]; cbn [bind] in H; try discriminate; [|inversion H; subst; exact HI].
  eapply apply_pos_context_inv; [exact HI| |exact H]. pose proof (nth_opt_range _ _ _ Ex). destruct HI as (Hl & _). lia.
Qed.

Lemma chaincontextpos_inv lookups gd mt subs l0 i l l' : Inv l0 l -> chaincontextpos lookups gd mt subs i l = Ok l' -> Inv l0 l'.
Proof.
  intros HI H. unfold chaincontextpos in H.
  destruct (iget l i) as [x| | |] eqn:Ex; cbn [bind] in H; try discriminate. apply iget_ok in Ex.
  destruct (first_sub _ subs) as [[pos|]| | |]; cbn [bind] in H; try discriminate; [|inversion H; subst; exact HI].
  eapply apply_pos_context_inv; [exact HI| |exact H]. pose proof (nth_opt_range _ _ _ Ex). destruct HI as (Hl & _). lia.
Qed.

(* ------------------------------------------------------------------ lookups, features, gpos::apply *)
Theorem gpos_apply_lookup_inv : forall lookups gd li l0 l l',
  Inv l0 l -> gpos_apply_lookup lookups gd li l = Ok l' -> Inv l0 l'.
Proof.
  intros lookups gd li l0 l l' HI H. unfold gpos_apply_lookup in H.
  destruct lookups as [lks|]; [|inversion H; subst; exact HI].
  destruct (get_plookup lks li) as [lk| | |]; cbn [bind] in H; try discriminate.
  destruct (pl_body lk) as [subs|subs|subs|subs|subs|subs|subs|subs].
  - eapply forall_glyphs_match_inv; [|exact HI|exact H]. intros i a b Ha Hb. eapply update_at_inv; [apply singlepos_keeps|exact Ha|exact Hb].
  - eapply forall_glyph_pairs_match_inv; [|exact HI|exact H]. intros i1 i2 a b Ha _ Hb. eapply pairpos_inv; eassumption.
  - eapply forall_glyph_pairs_match_inv; [|exact HI|exact H]. intros i1 i2 a b Ha Hlt Hb. eapply cursivepos_inv; [exact Ha| |exact Hb]. lia.
  - unfold forall_base_mark_glyph_pairs in H. eapply bm_outer_inv; [|exact HI| |exact H]; [|lia].
    intros i1 i2 a b Ha Hlt Hb. eapply markbasepos_inv; eassumption.
  - unfold forall_base_mark_glyph_pairs in H. eapply bm_outer_inv; [|exact HI| |exact H]; [|lia].
    intros i1 i2 a b Ha Hlt Hb. eapply markligpos_inv; eassumption.
  - unfold forall_mark_mark_glyph_pairs in H. eapply mm_outer_inv; [|exact HI| |exact H]; [|lia].
    intros i1 i2 a b Ha Hlt Hb. eapply markbasepos_inv; eassumption.
  - eapply forall_glyphs_match_inv; [|exact HI|exact H]. intros i a b Ha Hb. eapply contextpos_inv; eassumption.
  - eapply forall_glyphs_match_inv; [|exact HI|exact H]. intros i a b Ha Hb. eapply chaincontextpos_inv; eassumption.
Qed.

Lemma apply_kern_inv subs l0 : forall l l', Inv l0 l -> apply_kern subs l = Ok l' -> Inv l0 l'.
Proof.
  intros l l' HI H.
  assert (G : forall l l', apply_kern subs l = Ok l' ->
              len l' = len l /\ iids l' = iids l /\ map i_place l' = map i_place l).
  { clear. induction l as [|x l IH]; intros l' H; [inversion H; subst; repeat split; reflexivity|].
    destruct l as [|y t]; [inversion H; subst; repeat split; reflexivity|].
    rewrite apply_kern_cons in H.
    destruct (apply_kern subs (y :: t)) as [t'| | |] eqn:Et; cbn [bind] in H; try discriminate.
    inversion H; subst. destruct (IH t' eq_refl) as (A & B & C).
    rewrite !len_cons in *. unfold iids in *. cbn [map] in *. cbn [i_id i_place set_kern]. repeat split; [lia|congruence|congruence]. }
  destruct (G l l' H) as (A & B & C). destruct HI as (H1 & H2 & H3).
  split; [lia|]. split; [congruence|].
  intros k x Hk. rewrite A.
  assert (Hp : nth_opt (map i_place l') k = Some (i_place x)) by (rewrite nth_opt_map, Hk; reflexivity).
  rewrite C, nth_opt_map in Hp. destruct (nth_opt l k) as [y|] eqn:Ey; [|discriminate]. cbn in Hp. inversion Hp as [Hpe].
  apply H3. exact Ey.
Qed.

Lemma apply_lookup_list_inv t gd l0 : forall idx l l', Inv l0 l -> apply_lookup_list t gd idx l = Ok l' -> Inv l0 l'.
Proof.
  induction idx as [|li idx IH]; intros l l' HI H; cbn [apply_lookup_list] in H; [inversion H; subst; exact HI|].
  destruct (gpos_apply_lookup (pt_lookups t) gd li l) as [l1| | |] eqn:E; cbn [bind] in H; try discriminate.
  apply (IH l1 l'); [eapply gpos_apply_lookup_inv; eassumption|exact H].
Qed.

Lemma apply_features_inv t gd kern ls l0 : forall feats l l', Inv l0 l -> apply_features t gd kern ls feats l = Ok l' -> Inv l0 l'.
Proof.
  induction feats as [|tag feats IH]; intros l l' HI H; cbn [apply_features] in H; [inversion H; subst; exact HI|].
  destruct (pfind_langsys_feature t ls tag) as [ft| | |]; cbn [bind] in H; try discriminate.
  match type of H with (bind ?X _) = _ => destruct X as [l1| | |] eqn:E end; cbn [bind] in H; try discriminate.
  apply (IH l1 l'); [|exact H].
  destruct ft as [idx|].
  - eapply apply_lookup_list_inv; eassumption.
  - destruct kern as [k|]; [|inversion E; subst; exact HI].
    destruct (tag =? TAG_KERN_FALLBACK); [eapply apply_kern_inv; eassumption|inversion E; subst; exact HI].
Qed.

Lemma wf_initial gd (gl : list (Z * Z * bool)) :
  let l := map (fun g => init_info gd (fst (fst g)) (snd (fst g)) (snd g)) gl in Inv l l.
Proof.
  intros l. split; [reflexivity|]. split; [reflexivity|]. intros k x Hk.
  unfold l in Hk. rewrite nth_opt_map in Hk. destruct (nth_opt gl k); [|discriminate]. cbn in Hk. inversion Hk; subst. exact I.
Qed.

(* gpos::apply on freshly initialised Infos: the attachment indices are in range and point the right way *)
Theorem attachment_indices_in_range : forall t gd kern kerning custom script lang l l',
  wf l -> gpos_apply t gd kern kerning custom script lang l = Ok l' ->
  len l' = len l /\ iids l' = iids l /\ wf l'.
Proof.
  intros t gd kern kerning custom script lang l l' Hw H.
  assert (HI : Inv l l) by (split; [reflexivity|split; [reflexivity|exact Hw]]).
  unfold gpos_apply in H.
  destruct (pfind_script_or_default t script) as [s|]; [|inversion H; subst; exact HI].
  destruct (pfind_langsys_or_default s lang) as [ls|]; [|inversion H; subst; exact HI].
  destruct (apply_features t gd kern ls (base_features_default kerning) l) as [l1| | |] eqn:E; cbn [bind] in H; try discriminate.
  eapply apply_features_inv; [|exact H]. eapply apply_features_inv; eassumption.
Qed.

(* ------------------------------------------------------------------ the scans behind lookup types 1, 2, 3 *)
Lemma update_at_mid f a x b x' : f x = Ok x' -> update_at f (a ++ x :: b) (len a) = Ok (a ++ x' :: b).
Proof.
  intros H. unfold update_at, iget. pose proof (len_nonneg a).
  rewrite nth_opt_app_r by lia. replace (len a - len a) with 0 by lia. cbn [nth_opt Z.ltb Z.compare Z.to_nat nth_error bind].
  rewrite H. cbn [bind]. rewrite iset_mid. reflexivity.
Qed.

Lemma forall_glyphs_match_single mt gd subs : forall todo done,
  forall_glyphs_match (length todo) mt gd (fun i l => update_at (singlepos subs) l i) (done ++ todo) (len done) =
  (t' <- map_out (singlepos_spec mt gd subs) todo ;; Ok (done ++ t')).
Proof.
  induction todo as [|x todo IH]; intros done; cbn [forall_glyphs_match map_out length]; [cbn [bind]; rewrite !app_nil_r; reflexivity|].
  pose proof (len_nonneg done). unfold iget. rewrite nth_opt_app_r by lia. replace (len done - len done) with 0 by lia.
  cbn [nth_opt Z.ltb Z.compare Z.to_nat nth_error bind]. unfold singlepos_spec at 1.
  assert (Hd : len (done ++ [x]) = len done + 1) by (rewrite len_app; unfold len; cbn [length]; lia).
  destruct (match_glyph mt gd (i_id x)).
  - destruct (singlepos subs x) as [x'| | |] eqn:Es; cbn [bind].
    + rewrite (update_at_mid _ done x todo x' Es). cbn [bind].
      replace (done ++ x' :: todo) with ((done ++ [x']) ++ todo) by (rewrite <- app_assoc; reflexivity).
      replace (len done + 1) with (len (done ++ [x'])) by (rewrite len_app; unfold len; cbn [length]; lia).
      rewrite IH. destruct (map_out _ todo); cbn [bind]; try reflexivity. rewrite <- app_assoc. reflexivity.
    + unfold update_at, iget. rewrite nth_opt_app_r by lia. replace (len done - len done) with 0 by lia.
      cbn [nth_opt Z.ltb Z.compare Z.to_nat nth_error bind]. rewrite Es. reflexivity.
    + unfold update_at, iget. rewrite nth_opt_app_r by lia. replace (len done - len done) with 0 by lia.
      cbn [nth_opt Z.ltb Z.compare Z.to_nat nth_error bind]. rewrite Es. reflexivity.
    + unfold update_at, iget. rewrite nth_opt_app_r by lia. replace (len done - len done) with 0 by lia.
      cbn [nth_opt Z.ltb Z.compare Z.to_nat nth_error bind]. rewrite Es. reflexivity.
  - cbn [bind].
    replace (done ++ x :: todo) with ((done ++ [x]) ++ todo) by (rewrite <- app_assoc; reflexivity).
    rewrite <- Hd. rewrite IH. destruct (map_out _ todo); cbn [bind]; try reflexivity. rewrite <- app_assoc. reflexivity.
Qed.

(* lookup type 1 over the run: pointwise, skipped glyphs untouched *)
Theorem singlepos_lookup_spec : forall lks gd li l lk subs,
  get_plookup lks li = Ok lk -> pl_body lk = LSinglePos subs ->
  gpos_apply_lookup (Some lks) gd li l =
  map_out (singlepos_spec (from_lookup_flag (pl_flag lk) (pl_mfs lk)) gd subs) l.
Proof.
  intros lks gd li l lk subs Hlk Hb. unfold gpos_apply_lookup. rewrite Hlk. cbn [bind]. rewrite Hb.
  pose proof (forall_glyphs_match_single (from_lookup_flag (pl_flag lk) (pl_mfs lk)) gd subs l []) as H.
  cbn [app] in H. rewrite len_nil in H. rewrite H. destruct (map_out _ l); reflexivity.
Qed.

(* unskipped positions and find_next *)
Lemma find_first_from_unskipped mt gd : forall l k,
  find_first_from mt gd l k = match unskipped_positions mt gd l k with [] => None | p :: _ => Some p end.
Proof.
  induction l as [|g l IH]; intros k; cbn [find_first_from unskipped_positions]; [reflexivity|].
  destruct (match_glyph mt gd g); [reflexivity|apply IH].
Qed.

Lemma unskipped_positions_tail mt gd : forall l k p,
  find_first_from mt gd l k = Some p ->
  unskipped_positions mt gd l k = p :: unskipped_positions mt gd (drop (p - k + 1) l) (p + 1).
Proof.
  induction l as [|g l IH]; intros k p H; cbn [find_first_from] in H; [discriminate|].
  cbn [unskipped_positions]. destruct (match_glyph mt gd g) eqn:E.
  - inversion H; subst. replace (p - p + 1) with 1 by lia. reflexivity.
  - pose proof (find_first_from_ge mt gd l (k + 1) p H). rewrite (IH (k + 1) p H). f_equal.
    replace (p - k + 1) with (1 + (p - (k + 1) + 1)) by lia.
    unfold drop. replace (Z.to_nat (1 + (p - (k + 1) + 1))) with (S (Z.to_nat (p - (k + 1) + 1))) by lia. reflexivity.
Qed.

Lemma pairs_loop_spec mt gd (f : Z -> Z -> action) :
  (forall i1 i2 l l', f i1 i2 l = Ok l' -> iids l' = iids l) ->
  forall fuel l i1, 0 <= i1 -> (length (unskipped_positions mt gd (drop (i1 + 1) (iids l)) (i1 + 1)) < fuel)%nat ->
  pairs_loop fuel mt gd f l i1 =
  fold_pairs f (adjacent (i1 :: unskipped_positions mt gd (drop (i1 + 1) (iids l)) (i1 + 1))) l.
Proof.
  intros Hid. induction fuel as [|fuel IH]; intros l i1 Hi Hf; [lia|]. cbn [pairs_loop].
  unfold find_next. rewrite find_first_from_unskipped.
  destruct (unskipped_positions mt gd (drop (i1 + 1) (iids l)) (i1 + 1)) as [|p rest] eqn:Eu; [reflexivity|].
  change (adjacent (i1 :: p :: rest)) with ((i1, p) :: adjacent (p :: rest)). cbn [fold_pairs].
  destruct (f i1 p l) as [l1| | |] eqn:Ef; cbn [bind]; try reflexivity.
  assert (Hp : find_first_from mt gd (drop (i1 + 1) (iids l)) (i1 + 1) = Some p) by (rewrite find_first_from_unskipped, Eu; reflexivity).
  pose proof (find_first_from_ge _ _ _ _ _ Hp) as Hge.
  pose proof (unskipped_positions_tail mt gd _ _ _ Hp) as Ht. rewrite Eu in Ht. injection Ht as Hrest.
  rewrite drop_drop in Hrest by lia. replace (p - (i1 + 1) + 1 + (i1 + 1)) with (p + 1) in Hrest by lia.
  rewrite IH; [|lia|rewrite (Hid _ _ _ _ Ef), <- Hrest; cbn [length] in Hf; lia].
  rewrite (Hid _ _ _ _ Ef), <- Hrest. reflexivity.
Qed.

Lemma update_at_iids (f : info -> outcome info) l i l' :
  (forall x x', f x = Ok x' -> i_id x' = i_id x) -> update_at f l i = Ok l' -> iids l' = iids l.
Proof.
  intros Hf H. unfold update_at in H.
  destruct (iget l i) as [x| | |] eqn:Ex; cbn [bind] in H; try discriminate. apply iget_ok in Ex.
  destruct (f x) as [x'| | |] eqn:Ef; cbn [bind] in H; try discriminate. inversion H; subst.
  destruct (iset_spec l i x' x Ex) as (_ & _ & _ & L4). apply L4. eapply Hf; eassumption.
Qed.

Lemma pairpos_iids subs i1 i2 l l' : pairpos subs i1 i2 l = Ok l' -> iids l' = iids l.
Proof.
  intros H. unfold pairpos in H.
  destruct (iget l i1) as [x1| | |]; cbn [bind] in H; try discriminate.
  destruct (iget l i2) as [x2| | |]; cbn [bind] in H; try discriminate.
  destruct (first_sub _ subs) as [[[a1 a2]|]| | |]; cbn [bind] in H; try discriminate; [|inversion H; reflexivity].
  assert (K : forall a x x', Ok (adjust_apply a x) = Ok x' -> i_id x' = i_id x) by (intros a x x' E; apply (adjust_apply_keeps a x x' E)).
  assert (H1 : forall l1, (match a1 with Some a => update_at (fun x => Ok (adjust_apply a x)) l i1 | None => Ok l end) = Ok l1 -> iids l1 = iids l).
  { intros l1 E. destruct a1 as [a|]; [|inversion E; reflexivity]. eapply update_at_iids; [apply K|exact E]. }
  destruct (match a1 with Some a => update_at (fun x => Ok (adjust_apply a x)) l i1 | None => Ok l end) as [l1| | |]; cbn [bind] in H; try discriminate.
  rewrite <- (H1 l1 eq_refl). destruct a2 as [a|]; [|inversion H; reflexivity].
  eapply update_at_iids; [apply K|exact H].
Qed.

(* lookup type 2 over the run: pairpos on every pair of consecutive unskipped glyphs, left to right *)
Theorem pairpos_lookup_spec : forall lks gd li l lk subs,
  get_plookup lks li = Ok lk -> pl_body lk = LPairPos subs ->
  gpos_apply_lookup (Some lks) gd li l =
  fold_pairs (fun i1 i2 l => pairpos subs i1 i2 l)
             (adjacent (unskipped_positions (from_lookup_flag (pl_flag lk) (pl_mfs lk)) gd (iids l) 0)) l.
Proof.
  intros lks gd li l lk subs Hlk Hb. unfold gpos_apply_lookup. rewrite Hlk. cbn [bind]. rewrite Hb.
  set (mt := from_lookup_flag (pl_flag lk) (pl_mfs lk)). unfold forall_glyph_pairs_match, find_first.
  rewrite find_first_from_unskipped.
  destruct (unskipped_positions mt gd (iids l) 0) as [|p rest] eqn:Eu; [reflexivity|].
  assert (Hp : find_first_from mt gd (iids l) 0 = Some p) by (rewrite find_first_from_unskipped, Eu; reflexivity).
  pose proof (find_first_from_ge _ _ _ _ _ Hp) as Hge.
  pose proof (unskipped_positions_tail mt gd _ _ _ Hp) as Ht. rewrite Eu in Ht. injection Ht as Hrest.
  replace (p - 0 + 1) with (p + 1) in Hrest by lia.
  rewrite pairs_loop_spec.
  - rewrite <- Hrest. reflexivity.
  - intros i1 i2 a b Hf. eapply pairpos_iids; exact Hf.
  - lia.
  - rewrite <- Hrest.
    assert (Hlen : forall ids k, (length (unskipped_positions mt gd ids k) <= length ids)%nat).
    { induction ids as [|g ids IHi]; intros k; cbn [unskipped_positions length]; [lia|].
      destruct (match_glyph mt gd g); cbn [length]; specialize (IHi (k + 1)); lia. }
    pose proof (Hlen (iids l) 0) as Hl. rewrite Eu in Hl. cbn [length] in Hl. unfold iids in Hl. rewrite map_length in Hl. lia.
Qed.
