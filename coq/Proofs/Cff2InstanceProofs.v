(* Proofs/Cff2InstanceProofs.v -- instancing of CFF2 charstrings (property C12): the operand that
   goes back on the charstring stack after a blend, its encoding, the operators the instancer
   emits, and how operand errors reach outline points. *)
From AV Require Import Base.Prelude Base.Lemmas Gen.Type2Consts Gen.Cff2InstConsts
  Model.Type2 Model.Type2Spec Model.Cff2Instance Proofs.Type2Proofs.
From Coq Require Import Lia ZifyBool List.
Import ListNotations.
Open Scope Z_scope.
Ltac Zify.zify_post_hook ::= Z.div_mod_to_equations.

(* ------------------------------------------------------------------------------------------ *)
(* 1. StackValue::write produces one of the number forms of the charstring format               *)

Lemma shiftr8 : forall m, Z.shiftr m 8 = m / 256.
Proof. intro m. rewrite Z.shiftr_div_pow2 by lia. reflexivity. Qed.

Lemma enc_sv_encodes : forall v, sv_wf v -> encodes (enc_sv v) (sv_value v).
Proof.
  intros [n | raw] Hwf; unfold sv_wf in Hwf; unfold enc_sv, sv_value.
  - unfold SV_INT1_LO, SV_INT1_HI, SV_INT1_ADD, SV_INT2_LO, SV_INT2_HI, SV_INT2_SUB, SV_INT2_LEAD,
      SV_INT3_LO, SV_INT3_HI, SV_INT3_SUB, SV_INT3_LEAD, SV_SHORT_INT.
    destruct ((-107 <=? n) && (n <=? 107)) eqn:H1.
    + apply enc_int1. lia.
    + destruct ((108 <=? n) && (n <=? 1131)) eqn:H2.
      * rewrite shiftr8. apply enc_int2. lia.
      * destruct ((-1131 <=? n) && (n <=? -108)) eqn:H3.
        -- rewrite shiftr8. apply enc_int3. lia.
        -- apply enc_short. lia.
  - unfold SV_FIXED_16_16. apply enc_fixed. lia.
Qed.

(* the interpreter that loads the instance reads the operand back *)
Lemma enc_sv_decodes : forall v, sv_wf v -> forall df e d rest s,
  run (S df) e d (enc_sv v ++ rest) s = s1 <~ push e (sv_value v) s ;; run (S df) e d rest s1.
Proof. intros v Hwf. apply run_num. apply enc_sv_encodes. exact Hwf. Qed.

(* ------------------------------------------------------------------------------------------ *)
(* 2. From<f32> for StackValue keeps a blended operand within 2^-17 of its value                *)

Definition operand_range (v : Z) : Prop := -32767 * UNIT <= v <= 32767 * UNIT.

Lemma UNIT_val : UNIT = 281474976710656.
Proof. reflexivity. Qed.
Lemma SDEN_val : SDEN = 4294967296.
Proof. reflexivity. Qed.

Lemma sv_from_whole : forall v, operand_range v -> v mod UNIT = 0 ->
  sv_from v = SInt (v / UNIT) /\ -32767 <= v / UNIT <= 32767.
Proof.
  intros v Hr Hm. unfold operand_range in Hr. rewrite UNIT_val in *.
  unfold sv_from, sv_from_expr, is_whole. rewrite UNIT_val.
  assert (Hq : v mod 281474976710656 =? 0 = true) by lia. rewrite Hq.
  assert (Hd : -32767 <= v / 281474976710656 <= 32767) by lia.
  split; [| exact Hd].
  unfold cast_i16. rewrite UNIT_val.
  assert (Hquot : Z.quot v 281474976710656 = v / 281474976710656).
  { destruct (Z_le_gt_dec 0 v) as [Hp | Hn].
    - apply Z.quot_div_nonneg; lia.
    - assert (Hv : v = 281474976710656 * (v / 281474976710656)) by lia.
      rewrite Hv at 1. rewrite Z.mul_comm. rewrite Z.quot_mul by lia. reflexivity. }
  rewrite Hquot. f_equal. lia.
Qed.

Lemma fixed_from_close : forall v, operand_range v ->
  -2147483648 <= fixed_from v <= 2147483647 /\
  2 * Z.abs (of_fixed (fixed_from v) - v) <= SDEN.
Proof.
  intros v Hr. unfold operand_range in Hr. unfold fixed_from, fixed_combine, of_fixed.
  rewrite UNIT_val, SDEN_val in *.
  destruct (v <? 0) eqn:Hs.
  - assert (Ha : Z.abs v = - v) by lia. rewrite Ha. clear Ha.
    set (a := - v) in *. assert (Hv : v = - a) by (unfold a; lia).
    assert (Hpos : 0 < a <= 32767 * 281474976710656) by lia.
    clearbody a. subst v. lia.
  - assert (Ha : Z.abs v = v) by lia. rewrite Ha. clear Ha. lia.
Qed.

Lemma sv_from_close : forall v, operand_range v ->
  sv_wf (sv_from v) /\
  2 * 65536 * Z.abs (sv_value (sv_from v) - v) <= UNIT /\
  (v mod UNIT = 0 -> sv_value (sv_from v) = v).
Proof.
  intros v Hr.
  destruct (Z.eq_dec (v mod UNIT) 0) as [Hm | Hm].
  - destruct (sv_from_whole v Hr Hm) as [He Hd]. rewrite He. unfold sv_wf, sv_value, of_int.
    rewrite UNIT_val in *. repeat split; try lia.
  - assert (He : sv_from v = SFixed (fixed_from v)).
    { unfold sv_from, sv_from_expr, is_whole. assert (Hq : v mod UNIT =? 0 = false) by lia.
      rewrite Hq. reflexivity. }
    rewrite He. destruct (fixed_from_close v Hr) as [Hw Hc]. unfold sv_wf, sv_value.
    rewrite UNIT_val, SDEN_val in *. repeat split; try lia.
Qed.

(* ------------------------------------------------------------------------------------------ *)
(* 3. the errors of n operands add up to at most n * 2^-17                                     *)

Fixpoint sumZ (l : list Z) : Z := match l with [] => 0 | x :: r => x + sumZ r end.

Definition emitted (v : Z) : Z := sv_value (sv_from v).

Lemma drift_bound : forall vs, Forall operand_range vs ->
  2 * 65536 * Z.abs (sumZ (map emitted vs) - sumZ vs) <= len vs * UNIT.
Proof.
  induction 1 as [| v vs Hv Hvs IH]; simpl sumZ; simpl map.
  - unfold len. simpl. lia.
  - rewrite len_cons. destruct (sv_from_close v Hv) as [_ [Hc _]]. fold (emitted v) in Hc.
    rewrite UNIT_val in *. lia.
Qed.

(* ... so every running sum of fewer than 2^17 emitted operands is within one unit *)
Lemma drift_within_one_unit : forall vs, Forall operand_range vs -> len vs <= 131072 ->
  Z.abs (sumZ (map emitted vs) - sumZ vs) <= UNIT.
Proof.
  intros vs Hf Hl. pose proof (drift_bound vs Hf) as H. rewrite UNIT_val in *. lia.
Qed.

(* ------------------------------------------------------------------------------------------ *)
(* 4. what the instancer emits is an encoding of the visited operators                          *)

Lemma write_stack_encodes : forall stack, Forall sv_wf stack ->
  Forall2 encodes (map enc_sv stack) (map sv_value stack).
Proof.
  induction 1 as [| v r Hv Hr IH]; simpl; constructor; auto using enc_sv_encodes.
Qed.

Lemma write_stack_concat : forall stack, write_stack stack = concat (map enc_sv stack).
Proof. intro stack. unfold write_stack. apply flat_map_concat_map. Qed.

Lemma inst_emit_all_enc_ops : forall visits, Forall visit_ok visits ->
  enc_ops (map fst visits) (inst_emit_all visits).
Proof.
  induction 1 as [| [o stack] r [Hwf Hargs] Hr IH]; simpl.
  - constructor.
  - simpl in Hwf, Hargs. unfold inst_emit. rewrite <- app_assoc, write_stack_concat.
    constructor; [| exact IH]. rewrite <- Hargs. apply write_stack_encodes. exact Hwf.
Qed.

(* the charstring of the instance draws the path of the visited operators, with the values of the
   emitted operands as arguments; it needs no variation store *)
Lemma instance_draws_visits : forall e visits fd subrs,
  e_kind e = KCFF2 ->
  glyph_fd e = Some fd -> nth_opt (e_fds e) fd = Some subrs ->
  nth_opt (e_glyphs e) (e_gid e) = Some (inst_emit_all visits) ->
  Forall visit_ok visits ->
  prog_wf CFF2_MAX_OPERANDS None (map fst visits) ->
  exists s, interp_glyph e = COk s /\ out s = prog_path (map fst visits).
Proof.
  intros e visits fd subrs Hk Hfd Hsub Hg Hv Hwf.
  eapply interp_spec_cff2; eauto. apply inst_emit_all_enc_ops. exact Hv.
Qed.

(* ------------------------------------------------------------------------------------------ *)
(* 5. from operand errors to outline points: every coordinate of a path is a running sum of the
      operands of its primitives, so operands that are eps apart move a point by at most
      (number of operands before it on that axis) * eps                                        *)

Definition close (eps a b : Z) : Prop := Z.abs (a - b) <= eps.

Inductive prim_close (eps : Z) : prim -> prim -> Prop :=
| pc_move : forall a b a' b', close eps a a' -> close eps b b' ->
    prim_close eps (PMove a b) (PMove a' b')
| pc_line : forall a b a' b', close eps a a' -> close eps b b' ->
    prim_close eps (PLine a b) (PLine a' b')
| pc_curve : forall a b c d e f a' b' c' d' e' f',
    close eps a a' -> close eps b b' -> close eps c c' -> close eps d d' -> close eps e e' ->
    close eps f f' ->
    prim_close eps (PCurve a b c d e f) (PCurve a' b' c' d' e' f').

(* operands a primitive contributes to each axis *)
Definition prim_ops (p : prim) : Z :=
  match p with PMove _ _ | PLine _ _ => 1 | PCurve _ _ _ _ _ _ => 3 end.
Fixpoint nops (ps : list prim) : Z :=
  match ps with [] => 0 | p :: r => prim_ops p + nops r end.

Definition cmd_close (b : Z) (c c' : cmd) : Prop :=
  match c, c' with
  | MoveTo x y, MoveTo x' y' => close b x x' /\ close b y y'
  | LineTo x y, LineTo x' y' => close b x x' /\ close b y y'
  | CurveTo x1 y1 x2 y2 x y, CurveTo x1' y1' x2' y2' x' y' =>
    close b x1 x1' /\ close b y1 y1' /\ close b x2 x2' /\ close b y2 y2' /\ close b x x' /\ close b y y'
  | Close, Close => True
  | _, _ => False
  end.

Lemma nops_nonneg : forall ps, 0 <= nops ps.
Proof.
  induction ps as [| p r IH]; [cbn [nops]; lia |].
  change (nops (p :: r)) with (prim_ops p + nops r). destruct p; unfold prim_ops; lia.
Qed.

Lemma cmd_close_weaken : forall b b' c c', b <= b' -> cmd_close b c c' -> cmd_close b' c c'.
Proof.
  intros b b' c c' Hb H. destruct c, c'; simpl in *; unfold close in *; try tauto; try lia.
Qed.

Lemma Forall2_cmd_close_weaken : forall b b' l l', b <= b' ->
  Forall2 (cmd_close b) l l' -> Forall2 (cmd_close b') l l'.
Proof.
  intros b b' l l' Hb H. induction H; constructor; eauto using cmd_close_weaken.
Qed.

Lemma run_prims_close : forall eps ps ps', 0 <= eps -> Forall2 (prim_close eps) ps ps' ->
  forall x y x' y' o k, 0 <= k -> close (k * eps) x x' -> close (k * eps) y y' ->
  snd (fst (run_prims x y o ps)) = snd (fst (run_prims x' y' o ps')) /\
  Forall2 (cmd_close ((k + nops ps) * eps)) (snd (run_prims x y o ps)) (snd (run_prims x' y' o ps')).
Proof.
  intros eps ps ps' He H. induction H as [| p p' r r' Hp Hr IH]; intros x y x' y' o k Hk Hx Hy.
  - cbn [run_prims fst snd]. split; [reflexivity | constructor].
  - assert (Hn : 0 <= nops r) by apply nops_nonneg.
    assert (Hne : 0 <= nops r * eps) by (apply Z.mul_nonneg_nonneg; lia).
    unfold close in *.
    inversion Hp; subst; clear Hp; unfold close in *.
    + (* move *)
      cbn [run_prims nops prim_ops].
      specialize (IH (x + a) (y + b) (x' + a') (y' + b') true (k + 1)).
      destruct (run_prims (x + a) (y + b) true r) as [[[xf yf] of] c] eqn:E1.
      destruct (run_prims (x' + a') (y' + b') true r') as [[[xf' yf'] of'] c'] eqn:E2.
      cbn [fst snd] in *.
      assert (Hd : (k + 1) * eps = k * eps + eps) by lia.
      destruct IH as [Ho Hc]; try lia.
      split; [exact Ho |].
      assert (Hb : (k + 1 + nops r) * eps = (k + (1 + nops r)) * eps) by (f_equal; lia).
      rewrite Hb in Hc.
      assert (Hm : cmd_close ((k + (1 + nops r)) * eps) (MoveTo (x + a) (y + b)) (MoveTo (x' + a') (y' + b'))).
      { cbn [cmd_close]. unfold close. rewrite !Z.mul_add_distr_r. lia. }
      destruct o; cbn [app].
      * constructor; [cbn [cmd_close]; exact I |]. constructor; [exact Hm | exact Hc].
      * constructor; [exact Hm | exact Hc].
    + (* line *)
      cbn [run_prims nops prim_ops].
      specialize (IH (x + a) (y + b) (x' + a') (y' + b') o (k + 1)).
      destruct (run_prims (x + a) (y + b) o r) as [[[xf yf] of] c] eqn:E1.
      destruct (run_prims (x' + a') (y' + b') o r') as [[[xf' yf'] of'] c'] eqn:E2.
      cbn [fst snd] in *.
      assert (Hd : (k + 1) * eps = k * eps + eps) by lia.
      destruct IH as [Ho Hc]; try lia.
      split; [exact Ho |].
      assert (Hb : (k + 1 + nops r) * eps = (k + (1 + nops r)) * eps) by (f_equal; lia).
      rewrite Hb in Hc.
      constructor; [| exact Hc].
      cbn [cmd_close]. unfold close. rewrite !Z.mul_add_distr_r. lia.
    + (* curve *)
      cbn [run_prims nops prim_ops].
      specialize (IH (x + a + c + e) (y + b + d + f) (x' + a' + c' + e') (y' + b' + d' + f') o (k + 3)).
      destruct (run_prims (x + a + c + e) (y + b + d + f) o r) as [[[xf yf] of] cs] eqn:E1.
      destruct (run_prims (x' + a' + c' + e') (y' + b' + d' + f') o r') as [[[xf' yf'] of'] cs'] eqn:E2.
      cbn [fst snd] in *.
      assert (Hd : (k + 3) * eps = k * eps + 3 * eps) by lia.
      destruct IH as [Ho Hc]; try lia.
      split; [exact Ho |].
      assert (Hb : (k + 3 + nops r) * eps = (k + (3 + nops r)) * eps) by (f_equal; lia).
      rewrite Hb in Hc.
      constructor; [| exact Hc].
      cbn [cmd_close]. unfold close. rewrite !Z.mul_add_distr_r. repeat split; lia.
Qed.

Lemma path_drift : forall eps ps ps', 0 <= eps -> Forall2 (prim_close eps) ps ps' ->
  Forall2 (cmd_close (nops ps * eps)) (path_of ps) (path_of ps').
Proof.
  intros eps ps ps' He H.
  destruct (run_prims_close eps ps ps' He H 0 0 0 0 false 0) as [Ho Hc];
    try (unfold close; lia).
  unfold path_of.
  destruct (run_prims 0 0 false ps) as [[[xf yf] of] c] eqn:E1.
  destruct (run_prims 0 0 false ps') as [[[xf' yf'] of'] c'] eqn:E2.
  cbn [fst snd] in *. subst of'.
  apply Forall2_app; [exact Hc |].
  destruct of; repeat constructor.
Qed.
