(* Proofs/SfntValid.v — the structural validity judge `valid_sfnt` accepts every file the writer
   model `build_font` produces (for ALL inputs), and the corollaries for `build_from_inserts`. *)
From AV Require Import Base.Prelude Base.Lemmas Gen.ReaderPrims Gen.ContainerLayouts Model.Sfnt
  Proofs.EncodeProofs Proofs.SfntProofs.
From Coq Require Import ZifyBool ZifyNat Sorted.
Ltac Zify.zify_post_hook ::= Z.div_mod_to_equations.
Open Scope Z_scope.

(* ---------- list surgery at a known position *)
Lemma skipn_app_exact {A} (a b : list A) o : len a = o -> skipn (Z.to_nat o) (a ++ b) = b.
Proof.
  intros <-. unfold len. rewrite Nat2Z.id, skipn_app, skipn_all, Nat.sub_diag. reflexivity.
Qed.

Lemma firstn_app_exact {A} (a b : list A) n : length a = n -> firstn n (a ++ b) = a.
Proof. intros <-. rewrite firstn_app, Nat.sub_diag, firstn_all. cbn [firstn]. apply app_nil_r. Qed.

(* reading back a big-endian field that was written at offset o *)
Lemma be_at_written n (file a r : list Z) v o :
  file = a ++ be_bytes n v ++ r -> len a = o -> 0 <= v < 256 ^ Z.of_nat n ->
  be_val (firstn n (skipn (Z.to_nat o) file)) = v.
Proof.
  intros -> Ho Hv. rewrite skipn_app_exact by exact Ho.
  rewrite firstn_app_exact by apply be_bytes_length. apply be_val_be_bytes. exact Hv.
Qed.

Lemma be32_at_written (file a r : list Z) v o :
  file = a ++ be_bytes 4 v ++ r -> len a = o -> u32v v -> be32_at file o = v.
Proof. intros Hf Ho Hv. unfold be32_at. eapply be_at_written; eauto. Qed.

Lemma be16_at_written (file a r : list Z) v o :
  file = a ++ be_bytes 2 v ++ r -> len a = o -> 0 <= v < 65536 -> be16_at file o = v.
Proof. intros Hf Ho Hv. unfold be16_at. eapply be_at_written; eauto. Qed.

(* ---------- the directory records read back *)
Definition rec_ok (r : list Z) : Prop := length r = 4%nat /\ Forall u32v r.

Lemma enc_record_4 a b c d :
  enc_record [a; b; c; d] = be_bytes 4 a ++ be_bytes 4 b ++ be_bytes 4 c ++ be_bytes 4 d.
Proof. unfold enc_record. cbn [map concat]. rewrite app_nil_r. reflexivity. Qed.

Lemma len_enc_record r : length r = 4%nat -> len (enc_record r) = 16.
Proof.
  intros Hl. destruct r as [|a [|b [|c [|d [|? ?]]]]]; cbn [length] in Hl; try discriminate.
  rewrite enc_record_4, !len_app, !len_be_bytes. reflexivity.
Qed.

Lemma len_concat_enc_records recs :
  Forall (fun r => length r = 4%nat) recs -> len (concat (map enc_record recs)) = 16 * len recs.
Proof.
  induction 1 as [|r recs Hr _ IH]; [reflexivity|]. cbn [map concat].
  rewrite len_app, len_enc_record, IH, len_cons by exact Hr. lia.
Qed.

Lemma directory_recs_len4 tables offset recs bufs total :
  directory tables offset = Ok (recs, bufs, total) -> Forall (fun r => length r = 4%nat) recs.
Proof. intros H. apply directory_spec in H. destruct H as [H _]. eapply dir_spec_recs_len4; eauto. Qed.

Lemma parse_records_written : forall recs pre rest o,
  len pre = o -> Forall rec_ok recs ->
  parse_records (pre ++ concat (map enc_record recs) ++ rest) o (length recs) = recs.
Proof.
  induction recs as [|r recs IH]; intros pre rest o Ho Hok; [reflexivity|].
  inversion Hok as [|? ? [Hl Hr] Hrest]; subst.
  destruct r as [|a [|b [|c [|d [|? ?]]]]]; cbn [length] in Hl; try discriminate.
  inversion Hr as [|? ? Ha Hr1]; subst. inversion Hr1 as [|? ? Hb Hr2]; subst.
  inversion Hr2 as [|? ? Hc Hr3]; subst. inversion Hr3 as [|? ? Hd _]; subst.
  cbn [length parse_records map concat]. rewrite enc_record_4.
  set (tl := concat (map enc_record recs) ++ rest).
  set (file := pre ++ ((be_bytes 4 a ++ be_bytes 4 b ++ be_bytes 4 c ++ be_bytes 4 d) ++ concat (map enc_record recs)) ++ rest).
  assert (file = pre ++ be_bytes 4 a ++ (be_bytes 4 b ++ be_bytes 4 c ++ be_bytes 4 d ++ tl)) as Fa
    by (unfold file, tl; rewrite <- !app_assoc; reflexivity).
  assert (file = (pre ++ be_bytes 4 a) ++ be_bytes 4 b ++ (be_bytes 4 c ++ be_bytes 4 d ++ tl)) as Fb
    by (unfold file, tl; rewrite <- !app_assoc; reflexivity).
  assert (file = (pre ++ be_bytes 4 a ++ be_bytes 4 b) ++ be_bytes 4 c ++ (be_bytes 4 d ++ tl)) as Fc
    by (unfold file, tl; rewrite <- !app_assoc; reflexivity).
  assert (file = (pre ++ be_bytes 4 a ++ be_bytes 4 b ++ be_bytes 4 c) ++ be_bytes 4 d ++ tl) as Fd
    by (unfold file, tl; rewrite <- !app_assoc; reflexivity).
  assert (file = (pre ++ be_bytes 4 a ++ be_bytes 4 b ++ be_bytes 4 c ++ be_bytes 4 d) ++ concat (map enc_record recs) ++ rest) as Fe
    by (unfold file, tl; rewrite <- !app_assoc; reflexivity).
  rewrite (be32_at_written file _ _ a (len pre) Fa eq_refl Ha).
  rewrite (be32_at_written file _ _ b (len pre + 4) Fb) by (try exact Hb; rewrite !len_app, !len_be_bytes; lia).
  rewrite (be32_at_written file _ _ c (len pre + 8) Fc) by (try exact Hc; rewrite !len_app, !len_be_bytes; lia).
  rewrite (be32_at_written file _ _ d (len pre + 12) Fd) by (try exact Hd; rewrite !len_app, !len_be_bytes; lia).
  f_equal. rewrite Fe. apply IH; [|exact Hrest]. rewrite !len_app, !len_be_bytes. lia.
Qed.

(* what `directory` stores in the records fits the u32 fields (it returns Err otherwise) *)
Lemma directory_rec_ok : forall tables offset recs bufs total,
  directory tables offset = Ok (recs, bufs, total) -> 0 <= offset ->
  Forall (fun tb => u32v (fst tb)) tables ->
  Forall rec_ok recs /\ len recs = len tables.
Proof.
  induction tables as [|[tag b] ts IH]; intros offset recs bufs total H Ho Ht; cbn [directory] in H.
  - injection H as <- _ _. split; [constructor|reflexivity].
  - unfold table_checksum in H. rewrite pad4_aligned in H. cbn [Z.eqb bind] in H.
    destruct ((U32MOD <=? offset) || (U32MOD <=? len b)) eqn:E; [discriminate|].
    destruct (directory ts (offset + len (pad4 b))) as [[[rs ps] tot]| | |] eqn:Ed; cbn [bind] in H; try discriminate.
    injection H as <- _ _. inversion Ht as [|? ? Htag Hrest]; subst. cbn [fst] in Htag.
    pose proof (len_nonneg b). pose proof (len_nonneg (pad4 b)).
    destruct (IH _ _ _ _ Ed ltac:(lia) Hrest) as [I1 I2].
    split; [|rewrite !len_cons, I2; reflexivity].
    constructor; [|exact I1]. split; [reflexivity|].
    pose proof (Z.mod_pos_bound (word_sum (pad4 b)) U32MOD ltac:(reflexivity)).
    unfold u32v, U32MOD in *. repeat constructor; lia.
Qed.

(* ---------- the patched head buffer *)
Lemma skipn_patched (p : list Z) v n : (12 <= n)%nat -> (12 <= length p)%nat ->
  skipn n (firstn 8 p ++ be_bytes 4 v ++ skipn 12 p) = skipn n p.
Proof.
  intros Hn Hp.
  rewrite skipn_app, firstn_length. replace (Nat.min 8 (length p)) with 8%nat by lia.
  rewrite (skipn_all2 (firstn 8 p)) by (rewrite firstn_length; lia). cbn [app].
  rewrite skipn_app, be_bytes_length.
  rewrite (skipn_all2 (be_bytes 4 v)) by (rewrite be_bytes_length; lia). cbn [app].
  rewrite skipn_skipn'. f_equal. lia.
Qed.

Lemma head_ok_split b : head_ok b -> b = firstn 8 b ++ [0; 0; 0; 0] ++ skipn 12 b.
Proof.
  intros [Hl Hz]. rewrite <- Hz. rewrite <- (firstn_skipn 8 b) at 1. f_equal.
  rewrite <- (firstn_skipn 4 (skipn 8 b)) at 1. f_equal. rewrite skipn_skipn'. reflexivity.
Qed.

(* zeroing checkSumAdjustment in the patched head gives back the buffer that was checksummed *)
Lemma zero_adj_patched p v : head_ok p -> zero_adj (firstn 8 p ++ be_bytes 4 v ++ skipn 12 p) = p.
Proof.
  intros Hp. pose proof Hp as [Hl Hz]. unfold zero_adj. unfold len in Hl.
  rewrite skipn_patched by lia.
  rewrite firstn_app_exact by (rewrite firstn_length; lia).
  symmetry. apply head_ok_split. exact Hp.
Qed.

(* the length clause of head_ok is implied by its placeholder clause: tables_wf assumes nothing
   about lengths that patch_head does not check *)
Lemma head_placeholder_len b : firstn 4 (skipn 8 b) = [0; 0; 0; 0] -> 12 <= len b.
Proof.
  intros Hz. apply (f_equal (@length Z)) in Hz. rewrite firstn_length, skipn_length in Hz.
  cbn [length] in Hz. unfold len. lia.
Qed.

(* ---------- records_ok on the written file: induction over the table list, the file being
   split as  pre ++ body  at the current table offset *)
Lemma records_ok_written : forall tables offset recs bufs total adj body pre prev,
  directory tables offset = Ok (recs, bufs, total) ->
  emit_tables bufs adj = Ok body ->
  len pre = offset -> offset mod 4 = 0 ->
  StronglySorted Z.lt (prev :: map fst tables) ->
  Forall (fun tb => fst tb = HEAD_TAG -> head_ok (snd tb)) tables ->
  records_ok (pre ++ body) recs prev offset = true.
Proof.
  induction tables as [|[tag b] ts IH];
    intros offset recs bufs total adj body pre prev Hdir Hemit Hpre Hal Hs Hh; cbn [directory] in Hdir.
  - injection Hdir as <- <- <-. cbn [emit_tables] in Hemit. injection Hemit as <-.
    cbn [records_ok]. rewrite app_nil_r. lia.
  - unfold table_checksum in Hdir. rewrite pad4_aligned in Hdir. cbn [Z.eqb bind] in Hdir.
    destruct ((U32MOD <=? offset) || (U32MOD <=? len b)); [discriminate|].
    destruct (directory ts (offset + len (pad4 b))) as [[[rs ps] tot]| | |] eqn:E; cbn [bind] in Hdir; try discriminate.
    injection Hdir as <- <- <-.
    rewrite emit_tables_cons in Hemit.
    apply bind_ok in Hemit. destruct Hemit as [b' [Hb' Hemit]].
    apply bind_ok in Hemit. destruct Hemit as [rb [Er Hemit]]. injection Hemit as <-.
    cbn [map fst] in Hs. apply StronglySorted_inv in Hs. destruct Hs as [Hs' Hall].
    pose proof (Forall_inv Hall) as Hlt.
    pose proof (Forall_inv Hh) as Hhb. pose proof (Forall_inv_tail Hh) as Hh'. cbn [fst snd] in Hhb.
    pose proof (len_nonneg b) as Hb0. pose proof (len_pad4 b) as Hlp.
    pose proof (long_align_ge (len b) Hb0) as [Hla1 Hla2].
    (* the emitted buffer has the padded length, the same padding, and (checkSumAdjustment zeroed
       for head) is the padded payload whose checksum was recorded *)
    assert (len b' = long_align (len b) /\
            skipn (length b) b' = skipn (length b) (pad4 b) /\
            (if tag =? HEAD_TAG then zero_adj b' else b') = pad4 b) as [Hlb' [Hsk Hz]].
    { destruct (tag =? HEAD_TAG) eqn:Et.
      - assert (tag = HEAD_TAG) as Htag by lia. pose proof (Hhb Htag) as [Hbl _].
        pose proof (pad4_head_ok b (Hhb Htag)) as Hpo. pose proof Hpo as [Hl12 _].
        rewrite patch_head_ok in Hb' by exact Hl12.
        assert (b' = firstn 8 (pad4 b) ++ be_bytes 4 adj ++ skipn 12 (pad4 b)) as -> by congruence.
        split; [rewrite len_patched by exact Hl12; exact Hlp|]. split.
        + apply skipn_patched; unfold len in *; lia.
        + apply zero_adj_patched. exact Hpo.
      - assert (b' = pad4 b) as -> by congruence. auto. }
    cbn [records_ok nth].
    assert (firstn (Z.to_nat (long_align (len b))) (skipn (Z.to_nat offset) (pre ++ b' ++ rb)) = b') as Hpadded.
    { rewrite skipn_app_exact by exact Hpre. apply firstn_app_exact. rewrite <- Hlb'. unfold len. lia. }
    rewrite Hpadded.
    replace (Z.to_nat (len b)) with (length b) by (unfold len; lia).
    rewrite Hsk, Hz, pad4_padding_zero.
    assert ((prev <? tag) = true) as HA by lia.
    assert ((offset mod 4 =? 0) = true) as HC by lia.
    assert ((offset + long_align (len b) <=? len (pre ++ b' ++ rb)) = true) as HD.
    { rewrite !len_app. pose proof (len_nonneg rb). lia. }
    assert (records_ok (pre ++ b' ++ rb) rs tag (offset + long_align (len b)) = true) as HG.
    { rewrite app_assoc. rewrite <- Hlp.
      apply (IH _ _ _ _ adj rb (pre ++ b') tag E Er); [rewrite len_app; lia|lia|exact Hs'|exact Hh']. }
    rewrite HA, HC, HD, HG, !Z.eqb_refl. reflexivity.
Qed.

(* ---------- the header *)
(* the 16-bit search fields are computed with checked arithmetic: from 4096 tables on the writer
   refuses (WriteError::BadValue), in every build *)
Lemma offset_table_header_lt4096 m ver num hdr :
  offset_table_header m ver num = Ok hdr -> 1 <= num -> num < 4096.
Proof.
  intros H Hn.
  destruct (Z.lt_ge_cases num 4096) as [|Hge]; [assumption|exfalso].
  unfold offset_table_header in H. destruct (65535 <? num) eqn:E; [discriminate|].
  unfold max_power_of_2 in H. replace (num <=? 0) with false in H by lia.
  assert (12 <= Z.log2 num) as Hlog by (change 12 with (Z.log2 4096); apply Z.log2_le_mono; lia).
  assert (2 ^ 12 <= 2 ^ Z.log2 num) as Hpow by (apply Z.pow_le_mono_r; lia).
  change (2 ^ 12) with 4096 in Hpow.
  unfold u16_checked in H.
  destruct ((0 <=? 2 ^ Z.log2 num * 16) && (2 ^ Z.log2 num * 16 <? 65536)) eqn:E2; [lia|].
  cbn [bind] in H. discriminate.
Qed.

Definition sfnt_header (ver num : Z) : list Z :=
  be_bytes 4 ver ++ be_bytes 2 num ++ be_bytes 2 (2 ^ max_power_of_2 num * 16)
  ++ be_bytes 2 (max_power_of_2 num) ++ be_bytes 2 (num * 16 - 2 ^ max_power_of_2 num * 16).

Lemma len_sfnt_header ver num : len (sfnt_header ver num) = 12.
Proof. unfold sfnt_header. rewrite !len_app, !len_be_bytes. reflexivity. Qed.

(* shape of a successful build: header, directory records, emitted tables *)
Lemma build_font_shape m ver tables file :
  build_font m ver tables = Ok file -> 1 <= len tables < 4096 ->
  exists recs bufs total adj body,
    directory tables (12 + 16 * len tables) = Ok (recs, bufs, total) /\
    emit_tables bufs adj = Ok body /\
    file = sfnt_header ver (len tables) ++ concat (map enc_record recs) ++ body.
Proof.
  intros H Hn. unfold build_font in H.
  rewrite (offset_table_header_ok m ver (len tables) Hn) in H. cbn [bind] in H.
  unfold hdr_fields in H. cbn [fst snd] in H. fold (sfnt_header ver (len tables)) in H.
  rewrite len_sfnt_header in H.
  replace (long_align (len tables * 16 + 12)) with (12 + 16 * len tables) in H by (unfold long_align; lia).
  apply bind_ok in H. destruct H as [[[recs bufs] total] [Hdir H]]. cbv beta iota in H.
  destruct (negb (long_align (len (sfnt_header ver (len tables) ++ concat (map enc_record recs))) =? 12 + 16 * len tables)) eqn:Eas;
    [discriminate|].
  apply bind_ok in H. destruct H as [hc [Hhc H]].
  apply bind_ok in H. destruct H as [body [Hbody H]].
  exists recs, bufs, total, ((2981146554 - (hc + total)) mod U32MOD), body.
  split; [exact Hdir|]. split; [exact Hbody|].
  assert (len (pad4 (sfnt_header ver (len tables) ++ concat (map enc_record recs))) =
          len (sfnt_header ver (len tables) ++ concat (map enc_record recs))) as Hlen.
  { rewrite len_pad4, len_app, len_sfnt_header, len_concat_enc_records by (eapply directory_recs_len4; eauto).
    unfold long_align. lia. }
  assert (pad4 (sfnt_header ver (len tables) ++ concat (map enc_record recs)) =
          sfnt_header ver (len tables) ++ concat (map enc_record recs)) as Hpad.
  { unfold pad4 in *. rewrite len_app, len_repeat in Hlen.
    replace (Z.to_nat (long_align (len (sfnt_header ver (len tables) ++ concat (map enc_record recs))) -
                       len (sfnt_header ver (len tables) ++ concat (map enc_record recs)))) with 0%nat by lia.
    cbn [repeat]. apply app_nil_r. }
  rewrite Hpad in H. rewrite <- app_assoc in H. congruence.
Qed.

(* ---------- the judge, decomposed *)
Lemma valid_sfnt_intro file num recs :
  be16_at file 4 = num -> parse_records file 12 (Z.to_nat num) = recs ->
  12 + 16 * num <= len file ->
  be16_at file 6 = 2 ^ max_power_of_2 num * 16 ->
  be16_at file 8 = max_power_of_2 num ->
  be16_at file 10 = num * 16 - 2 ^ max_power_of_2 num * 16 ->
  records_ok file recs (-1) (12 + 16 * num) = true ->
  len file mod 4 = 0 -> word_sum file mod U32MOD = 2981146554 ->
  valid_sfnt file = true.
Proof.
  intros Hnum Hrecs Hlen Hsr Hes Hrs Hrok Hal Hsum. unfold valid_sfnt.
  rewrite Hnum, Hrecs, Hsr, Hes, Hrs, Hrok, Hal, Hsum, !Z.eqb_refl.
  replace (12 + 16 * num <=? len file) with true by lia. reflexivity.
Qed.

(* ---------- main theorem *)
Theorem build_valid m ver tables file :
  build_font m ver tables = Ok file -> tables_wf tables ->
  Forall (fun tb => u32v (fst tb)) tables ->
  valid_sfnt file = true.
Proof.
  intros H Hwf Htags. pose proof (build_checksum _ _ _ _ H Hwf) as [Hal4 Hsum].
  destruct Hwf as [Hsorted [Hcount Hhead]].
  assert (1 <= len tables) as Hn1.
  { destruct tables as [|tb ts]; [discriminate Hcount|]. rewrite len_cons. pose proof (len_nonneg ts). lia. }
  assert (len tables < 4096) as Hn2.
  { pose proof H as H'. unfold build_font in H'. apply bind_ok in H'. destruct H' as [hdr [Hhdr _]].
    eapply offset_table_header_lt4096; eauto. }
  destruct (build_font_shape m ver tables file H ltac:(lia)) as [recs [bufs [total [adj [body [Hdir [Hbody Hfile]]]]]]].
  set (num := len tables) in *.
  destruct (directory_rec_ok _ _ _ _ _ Hdir ltac:(lia) Htags) as [Hrok Hlr]. fold num in Hlr.
  pose proof (len_concat_enc_records recs (directory_recs_len4 _ _ _ _ _ Hdir)) as Hlc.
  pose proof (len_sfnt_header ver num) as Hlh.
  assert (0 <= max_power_of_2 num <= 11 /\ 1 <= 2 ^ max_power_of_2 num <= 2048 /\ 2 ^ max_power_of_2 num <= num) as [He [Hp Hpn]].
  { unfold max_power_of_2. replace (num <=? 0) with false by lia.
    destruct (log2_bounds num ltac:(lia)) as [Hl Hp]. pose proof (pow2_le_2048 _ Hl). lia. }
  apply (valid_sfnt_intro file num recs).
  - eapply (be16_at_written file (be_bytes 4 ver)); [rewrite Hfile; unfold sfnt_header; rewrite <- !app_assoc; reflexivity| |lia].
    rewrite len_be_bytes. reflexivity.
  - replace (Z.to_nat num) with (length recs) by (unfold len in Hlr; lia).
    rewrite Hfile. apply parse_records_written; assumption.
  - rewrite Hfile, !len_app, Hlh, Hlc, Hlr. pose proof (len_nonneg body). lia.
  - eapply (be16_at_written file (be_bytes 4 ver ++ be_bytes 2 num));
      [rewrite Hfile; unfold sfnt_header; rewrite <- !app_assoc; reflexivity| |lia].
    rewrite !len_app, !len_be_bytes. reflexivity.
  - eapply (be16_at_written file (be_bytes 4 ver ++ be_bytes 2 num ++ be_bytes 2 (2 ^ max_power_of_2 num * 16)));
      [rewrite Hfile; unfold sfnt_header; rewrite <- !app_assoc; reflexivity| |lia].
    rewrite !len_app, !len_be_bytes. reflexivity.
  - eapply (be16_at_written file (be_bytes 4 ver ++ be_bytes 2 num ++ be_bytes 2 (2 ^ max_power_of_2 num * 16)
                                  ++ be_bytes 2 (max_power_of_2 num)));
      [rewrite Hfile; unfold sfnt_header; rewrite <- !app_assoc; reflexivity| |lia].
    rewrite !len_app, !len_be_bytes. reflexivity.
  - rewrite Hfile, app_assoc.
    apply (records_ok_written tables (12 + 16 * num) recs bufs total adj body _ (-1) Hdir Hbody).
    + rewrite len_app, Hlh, Hlc, Hlr. lia.
    + lia.
    + constructor; [exact Hsorted|]. rewrite Forall_forall in *. intros t Ht.
      apply in_map_iff in Ht. destruct Ht as [tb [<- Hin]]. specialize (Htags tb Hin). unfold u32v in Htags. lia.
    + exact Hhead.
  - exact Hal4.
  - exact Hsum.
Qed.

(* ---------- the builder driven by inserts *)
Definition table_map (ins : list (Z * list Z)) : list (Z * list Z) :=
  fold_left (fun acc tb => map_insert (fst tb) (snd tb) acc) ins [].

Lemma map_insert_in tag b m x : In x (map_insert tag b m) -> x = (tag, b) \/ In x m.
Proof.
  induction m as [|[t y] r IH]; cbn [map_insert].
  - intros [H|[]]; auto.
  - destruct (tag <? t).
    + intros [H|H]; auto.
    + destruct (tag =? t).
      * intros [H|H]; [auto|right; right; exact H].
      * intros [H|H]; [right; left; exact H|]. destruct (IH H) as [H'|H']; [auto|right; right; exact H'].
Qed.

Lemma inserts_in ins : forall acc x,
  In x (fold_left (fun acc tb => map_insert (fst tb) (snd tb) acc) ins acc) -> In x ins \/ In x acc.
Proof.
  induction ins as [|tb ins IH]; intros acc x H; cbn [fold_left] in H; [right; exact H|].
  apply IH in H. destruct H as [H|H]; [left; right; exact H|].
  apply map_insert_in in H. destruct H as [->|H]; [left; left; destruct tb; reflexivity|right; exact H].
Qed.

Lemma inserts_keys ins : forall acc x,
  In x (map fst (fold_left (fun acc tb => map_insert (fst tb) (snd tb) acc) ins acc)) <->
  In x (map fst ins) \/ In x (map fst acc).
Proof.
  induction ins as [|tb ins IH]; intros acc x; cbn [fold_left map].
  - split; [intros H; right; exact H|intros [[]|H]; exact H].
  - rewrite IH, map_insert_keys. cbn [In]. split.
    + intros [H|[H|H]]; auto.
    + intros [[H|H]|H]; auto.
Qed.

Lemma len_map_insert tag b m : len (map_insert tag b m) <= len m + 1.
Proof.
  induction m as [|[t y] r IH]; cbn [map_insert]; [rewrite len_cons; lia|].
  destruct (tag <? t); [rewrite !len_cons; lia|]. destruct (tag =? t); rewrite !len_cons; lia.
Qed.

Lemma len_inserts ins : forall acc,
  len (fold_left (fun acc tb => map_insert (fst tb) (snd tb) acc) ins acc) <= len acc + len ins.
Proof.
  induction ins as [|tb ins IH]; intros acc; cbn [fold_left]; [rewrite len_nil; lia|].
  specialize (IH (map_insert (fst tb) (snd tb) acc)). pose proof (len_map_insert (fst tb) (snd tb) acc).
  rewrite len_cons. lia.
Qed.

Lemma count_head_none m : ~ In HEAD_TAG (map fst m) -> count_head m = 0%nat.
Proof.
  induction m as [|[t b] r IH]; intros H; [reflexivity|]. cbn [count_head]. cbn [map fst In] in H.
  destruct (t =? HEAD_TAG) eqn:E.
  - exfalso. apply H. left. lia.
  - rewrite IH; [reflexivity|]. intros H'. apply H. right. exact H'.
Qed.

(* distinct keys: the head tag occurs exactly once as soon as it occurs *)
Lemma count_head_sorted m : keys_sorted m -> In HEAD_TAG (map fst m) -> count_head m = 1%nat.
Proof.
  unfold keys_sorted. induction m as [|[t b] r IH]; intros Hs Hin; [destruct Hin|].
  cbn [map fst] in Hs, Hin. inversion Hs as [|? ? Hs' Hall]; subst. cbn [count_head].
  destruct (t =? HEAD_TAG) eqn:E.
  - rewrite count_head_none; [reflexivity|]. intros H'. rewrite Forall_forall in Hall.
    specialize (Hall _ H'). lia.
  - destruct Hin as [Hin|Hin]; [lia|]. rewrite IH by assumption. reflexivity.
Qed.

(* the corollary with the table map's own invariants discharged by the BTreeMap order theorem *)
Theorem build_from_inserts_valid_map m ver ins file :
  build_from_inserts m ver ins = Ok file ->
  count_head (table_map ins) = 1%nat ->
  Forall (fun tb => u32v (fst tb) /\ (fst tb = HEAD_TAG -> head_ok (snd tb))) (table_map ins) ->
  valid_sfnt file = true.
Proof.
  intros H Hcount Hall. unfold build_from_inserts in H. fold (table_map ins) in H.
  apply (build_valid m ver (table_map ins) file H).
  - split; [apply build_directory_sorted|]. split; [exact Hcount|].
    rewrite Forall_forall in *. intros tb Hin. apply (Hall tb Hin).
  - rewrite Forall_forall in *. intros tb Hin. apply (Hall tb Hin).
Qed.

(* ... and with every hypothesis stated on the insertion sequence itself *)
Theorem build_from_inserts_valid m ver ins file :
  build_from_inserts m ver ins = Ok file ->
  In HEAD_TAG (map fst ins) ->
  Forall (fun tb => u32v (fst tb) /\ (fst tb = HEAD_TAG -> head_ok (snd tb))) ins ->
  valid_sfnt file = true.
Proof.
  intros H Hin Hall. apply (build_from_inserts_valid_map m ver ins file H).
  - apply count_head_sorted; [apply build_directory_sorted|].
    unfold table_map. apply inserts_keys. left. exact Hin.
  - rewrite Forall_forall in *. intros tb Htb. unfold table_map in Htb.
    apply inserts_in in Htb. destruct Htb as [Htb|[]]. apply (Hall tb Htb).
Qed.

(* ---------- witnesses: the hypotheses are satisfiable, and each one is needed *)
Lemma valid_sfnt_false_search_range file :
  (be16_at file 6 =? 2 ^ max_power_of_2 (be16_at file 4) * 16) = false -> valid_sfnt file = false.
Proof. intros H. unfold valid_sfnt. rewrite H, andb_false_r. reflexivity. Qed.

Definition wit_head : list Z := [0;1;0;0; 0;0;0;0; 0;0;0;0; 95;15;60;245; 1;2].     (* 18 bytes *)

(* cmap (5 bytes), head (18), maxp (6), post (3): every payload needs padding *)
Definition wit_tables : list (Z * list Z) :=
  [(1668112752, [1;2;3;4;5]); (HEAD_TAG, wit_head); (1835104368, [0;0;80;0;0;7]); (1886352244, [1;2;3])].

Lemma wit_head_ok : head_ok wit_head.
Proof. split; [unfold len, wit_head; cbn [length]; lia|reflexivity]. Qed.

Ltac head_clause :=
  cbn [fst snd]; let H := fresh "H" in intros H; first [ discriminate H | exact wit_head_ok ].

Lemma wit_tables_hyps :
  tables_wf wit_tables /\ Forall (fun tb => u32v (fst tb)) wit_tables /\
  exists file, build_font Release 65536 wit_tables = Ok file /\ len file = 116.
Proof.
  split; [|split].
  - split; [unfold keys_sorted, wit_tables, HEAD_TAG; cbn [map fst]; repeat constructor|].
    split; [reflexivity|]. unfold wit_tables, HEAD_TAG. repeat (apply Forall_cons; [head_clause|]). apply Forall_nil.
  - unfold wit_tables, HEAD_TAG, u32v. repeat (apply Forall_cons; [cbn [fst]; lia|]). apply Forall_nil.
  - destruct (build_font Release 65536 wit_tables) as [f| | |] eqn:E; try (vm_compute in E; discriminate E).
    exists f. split; [reflexivity|]. apply (f_equal (fun o => match o with Ok x => len x | _ => 0 end)) in E.
    rewrite <- E. vm_compute. reflexivity.
Qed.

(* 4096 inserts: head, then tags 4094 down to 0 with empty payloads *)
Definition wit_many : list (Z * list Z) := (HEAD_TAG, wit_head) :: map (fun i => (4094 - i, @nil Z)) (range 0 4095).

Lemma wit_many_hyps :
  In HEAD_TAG (map fst wit_many) /\
  Forall (fun tb => u32v (fst tb) /\ (fst tb = HEAD_TAG -> head_ok (snd tb))) wit_many.
Proof.
  split; [unfold wit_many; rewrite map_cons; apply in_eq|].
  unfold wit_many. apply Forall_cons.
  - cbn [fst snd]. split; [unfold u32v, HEAD_TAG; lia|]. intros _. exact wit_head_ok.
  - rewrite Forall_forall. intros tb Hin. apply in_map_iff in Hin. destruct Hin as [i [<- Hi]].
    apply range_In in Hi. cbn [fst snd]. unfold u32v, HEAD_TAG. split; [lia|intros Hh; lia].
Qed.

(* 4096 tables: the 16-bit search fields cannot hold the values; the writer refuses in every build
   (before the repair c89f93a a release build wrote a wrapped searchRange and a debug build panicked) *)
Lemma wit_many_refused :
  In HEAD_TAG (map fst wit_many) /\
  Forall (fun tb => u32v (fst tb) /\ (fst tb = HEAD_TAG -> head_ok (snd tb))) wit_many /\
  len wit_many = 4096 /\
  build_from_inserts Release 65536 wit_many = Err BadValue /\
  build_from_inserts Debug 65536 wit_many = Err BadValue.
Proof.
  split; [apply wit_many_hyps|]. split; [apply wit_many_hyps|]. split; [vm_compute; reflexivity|].
  split; vm_compute; reflexivity.
Qed.

(* for every table count from 4096 on, whatever the tables are *)
Lemma too_many_tables_refused m ver tables :
  4096 <= len tables <= 65535 -> build_font m ver tables = Err BadValue.
Proof.
  intros Hn. unfold build_font, offset_table_header.
  replace (65535 <? len tables) with false by lia.
  unfold max_power_of_2. replace (len tables <=? 0) with false by lia.
  assert (12 <= Z.log2 (len tables)) as Hlog by (change 12 with (Z.log2 4096); apply Z.log2_le_mono; lia).
  assert (2 ^ 12 <= 2 ^ Z.log2 (len tables)) as Hpow by (apply Z.pow_le_mono_r; lia).
  change (2 ^ 12) with 4096 in Hpow.
  unfold u16_checked.
  replace ((0 <=? 2 ^ Z.log2 (len tables) * 16) && (2 ^ Z.log2 (len tables) * 16 <? 65536)) with false by lia.
  reflexivity.
Qed.

(* small witnesses: all hypotheses of build_valid but one hold, the writer succeeds, the judge rejects *)
Definition judged (o : outcome (list Z)) : option bool :=
  match o with Ok f => Some (valid_sfnt f) | _ => None end.

Ltac solve_sorted := unfold keys_sorted, HEAD_TAG; cbn [map fst]; repeat constructor.
Ltac solve_heads := unfold HEAD_TAG; repeat (apply Forall_cons; [head_clause|]); apply Forall_nil.
Ltac solve_u32 := unfold HEAD_TAG, u32v; repeat (apply Forall_cons; [cbn [fst]; lia|]); apply Forall_nil.

Definition wit_unsorted : list (Z * list Z) := [(HEAD_TAG, wit_head); (1668112752, [1])].
Lemma wit_unsorted_needed :   (* keys_sorted dropped *)
  count_head wit_unsorted = 1%nat /\
  Forall (fun tb => fst tb = HEAD_TAG -> head_ok (snd tb)) wit_unsorted /\
  Forall (fun tb => u32v (fst tb)) wit_unsorted /\
  judged (build_font Debug 65536 wit_unsorted) = Some false.
Proof.
  unfold wit_unsorted. split; [reflexivity|]. split; [solve_heads|]. split; [solve_u32|]. vm_compute. reflexivity.
Qed.

Definition wit_nohead : list (Z * list Z) := [(1668112752, [1; 2; 3])].
Lemma wit_nohead_needed :     (* count_head = 1 dropped: nothing carries checkSumAdjustment *)
  keys_sorted wit_nohead /\
  Forall (fun tb => fst tb = HEAD_TAG -> head_ok (snd tb)) wit_nohead /\
  Forall (fun tb => u32v (fst tb)) wit_nohead /\
  judged (build_font Debug 65536 wit_nohead) = Some false.
Proof.
  unfold wit_nohead. split; [solve_sorted|]. split; [solve_heads|]. split; [solve_u32|]. vm_compute. reflexivity.
Qed.

Definition wit_dirty : list (Z * list Z) := [(HEAD_TAG, [0;1;0;0; 0;0;0;0; 0;0;0;1; 95;15;60;245; 1;2])].
Lemma wit_dirty_needed :      (* zeroed placeholder dropped: head.checkSumAdjustment bytes 0,0,0,1 on entry *)
  keys_sorted wit_dirty /\ count_head wit_dirty = 1%nat /\
  Forall (fun tb => u32v (fst tb)) wit_dirty /\
  judged (build_font Debug 65536 wit_dirty) = Some false.
Proof.
  unfold wit_dirty. split; [solve_sorted|]. split; [reflexivity|]. split; [solve_u32|]. vm_compute. reflexivity.
Qed.

Definition wit_bigtag : list (Z * list Z) := [(HEAD_TAG, wit_head); (4294967301, [1])].   (* 2^32 + 5 *)
Lemma wit_bigtag_needed :     (* u32 tags dropped: the tag field stores the tag mod 2^32 *)
  tables_wf wit_bigtag /\ judged (build_font Debug 65536 wit_bigtag) = Some false.
Proof.
  unfold wit_bigtag. split; [|vm_compute; reflexivity].
  split; [solve_sorted|]. split; [reflexivity|solve_heads].
Qed.

(* the `12 <= len head` clause is not an assumption: patch_head checks it *)
Lemma short_head_panics : build_font Debug 65536 [(HEAD_TAG, [1; 2; 3])] = Panic.
Proof. vm_compute. reflexivity. Qed.
