(* Proofs/Woff2Hmtx.v — the hmtx transform (WOFF2 section 5.4): Woff2HmtxTable::read_dep rebuilds
   the original metrics whichever side-bearing arrays the encoder dropped. *)
From AV Require Import Base.Prelude Base.Lemmas Gen.Woff2Lut Model.Woff2
  Proofs.Woff2Spec Proofs.Woff2Ints Proofs.Woff2Triplet Proofs.Woff2Glyf.
From Coq Require Import ZifyBool.
Ltac Zify.zify_post_hook ::= Z.div_mod_to_equations.
Open Scope Z_scope.

Lemma len_flat_map2 {A} (f : A -> list Z) (l : list A) :
  (forall x, len (f x) = 2) -> len (flat_map f l) = 2 * len l.
Proof.
  intros Hf. induction l as [|x l IH]; [reflexivity|]. cbn [flat_map]. rewrite len_app, len_cons, Hf, IH. lia.
Qed.

Lemma rd_items_gen {A} (rd : stream -> outcome (Z * stream)) (wr : A -> list Z) (val : A -> Z) :
  (forall x r, rd (wr x ++ r) = Ok (val x, r)) ->
  forall l r, rd_items rd (length l) (flat_map wr l ++ r) = Ok (map val l, r).
Proof.
  intros H. induction l as [|x l IH]; intros r; [reflexivity|].
  cbn [length rd_items flat_map map]. rewrite <- app_assoc. rewrite H. cbn [bind]. rewrite IH. reflexivity.
Qed.

(* reading an array of 16-bit fields that was written item by item *)
Lemma rd_array16_gen {A} (rd : stream -> outcome (Z * stream)) (wr : A -> list Z) (val : A -> Z)
  (P : A -> Prop) :
  (forall x, len (wr x) = 2) ->
  (forall x r, P x -> rd (wr x ++ r) = Ok (val x, r)) ->
  forall l r, Forall P l -> rd_array16 rd (len l) (flat_map wr l ++ r) = Ok (map val l, r).
Proof.
  intros Hlen H l r Hl. unfold rd_array16. rewrite len_app, (len_flat_map2 wr l Hlen).
  pose proof (len_nonneg r). replace (len l * 2 <=? 2 * len l + len r) with true by lia.
  replace (Z.to_nat (len l)) with (length l) by (unfold len; lia).
  clear H0. revert r. induction Hl as [|x l Hx _ IH]; intros r; [reflexivity|].
  cbn [length rd_items flat_map map]. rewrite <- app_assoc. rewrite H by exact Hx. cbn [bind].
  rewrite IH. reflexivity.
Qed.

(* which records carry an xMin the reconstruction can read *)
Definition xmin_readable (g : glyph) : Prop :=
  match g with GPresent _ raw => 4 <= len raw | _ => True end.

Lemma glyph_xmins_spec : forall gs, Forall xmin_readable gs -> glyph_xmins gs = Ok (map xmin_spec gs).
Proof.
  induction gs as [|g gs IH]; intros H; [reflexivity|]. inversion H as [|? ? Hg Hgs]; subst.
  cbn [glyph_xmins map]. rewrite IH by exact Hgs.
  destruct g as [|s|bb cs ins|nc raw]; cbn [glyph_xmin xmin_spec bind]; try reflexivity.
  cbn [xmin_readable] in Hg.
  destruct raw as [|a [|b [|c [|d r]]]]; rewrite ?len_cons in Hg; change (len (@nil Z)) with 0 in Hg; try lia.
  unfold drop. change (Z.to_nat 2) with 2%nat. cbn [skipn rd_i16 bind].
  unfold nthZ. change (Z.to_nat 2) with 2%nat. change (Z.to_nat 3) with 3%nat. cbn [nth]. reflexivity.
Qed.

Lemma zip_map_swap : forall (l : list (Z * Z)),
  map (fun p => (snd p, fst p)) (zip (map snd l) (map fst l)) = l.
Proof. induction l as [|[a b] l IH]; [reflexivity|]. cbn [map zip fst snd]. rewrite IH. reflexivity. Qed.

Lemma zip_firstn {A B} : forall (b : list B) (a : list A), zip a b = zip (firstn (length b) a) b.
Proof.
  induction b as [|y b IH]; intros a; [destruct a; reflexivity|].
  destruct a as [|x a]; [reflexivity|]. cbn [length firstn zip]. rewrite <- IH. reflexivity.
Qed.

Lemma land3_bits : forall f, 0 <= f < 256 ->
  Z.land (Z.land f 3) 1 = Z.land f 1 /\ Z.land (Z.land f 3) 2 = Z.land f 2 /\
  (Z.land f 1 = 0 \/ Z.land f 1 = 1) /\ (Z.land f 2 = 0 \/ Z.land f 2 = 2).
Proof.
  intros f Hf.
  assert (forallb (fun f => (Z.land (Z.land f 3) 1 =? Z.land f 1) && (Z.land (Z.land f 3) 2 =? Z.land f 2)
                            && ((Z.land f 1 =? 0) || (Z.land f 1 =? 1)) && ((Z.land f 2 =? 0) || (Z.land f 2 =? 2)))
            (range 0 256) = true) as H by (vm_compute; reflexivity).
  rewrite forallb_forall in H. specialize (H f). rewrite range_In in H. specialize (H ltac:(cbn; lia)). lia.
Qed.

(* Round trip of the hmtx transform: for metrics h of the glyphs glyf (numberOfHMetrics =
   |fst h|, numGlyphs = |glyf|), every encoding allowed by section 5.4 (either array dropped when
   it equals the xMin values, reserved flag bits arbitrary) is decoded to h. *)
Theorem hmtx_transform_roundtrip : forall glyf h bytes,
  hmtx_ok glyf h -> Forall xmin_readable glyf -> encodes_hmtx glyf h bytes ->
  read_woff2_hmtx glyf (len glyf) (len (fst h)) bytes = Ok h.
Proof.
  intros glyf [hm lsbs] bytes (Hlen & Hhm & Hls) Hx (flags & Hf & H1 & H2 & ->).
  cbn [fst snd] in *.
  destruct (land3_bits flags Hf) as (L1 & L2 & B1 & B2).
  assert (forall r, rd_array16 rd_u16 (len hm) (flat_map (fun p : Z * Z => wr_u16 (fst p)) hm ++ r)
                    = Ok (map fst hm, r)) as Hadv.
  { intros r. apply (rd_array16_gen rd_u16 _ fst (fun p => u16_ok (fst p))).
    - reflexivity.
    - intros x r0 Hp. apply rd_u16_wr; exact Hp.
    - eapply Forall_impl; [|exact Hhm]. intros p Hp; apply Hp. }
  assert (forall r, rd_array16 rd_i16 (len hm) (flat_map (fun p : Z * Z => wr_i16 (snd p)) hm ++ r)
                    = Ok (map snd hm, r)) as Hlsb.
  { intros r. apply (rd_array16_gen rd_i16 _ snd (fun p => i16_ok (snd p))).
    - reflexivity.
    - intros x r0 Hp. apply rd_i16_wr; exact Hp.
    - eapply Forall_impl; [|exact Hhm]. intros p Hp; apply Hp. }
  assert (rd_array16 rd_i16 (len lsbs) (flat_map wr_i16 lsbs) = Ok (lsbs, [])) as Hlsbs.
  { rewrite <- (app_nil_r (flat_map wr_i16 lsbs)).
    rewrite (rd_array16_gen rd_i16 wr_i16 (fun v => v) i16_ok).
    - rewrite map_id. reflexivity.
    - reflexivity.
    - intros x r0 Hp. apply rd_i16_wr; exact Hp.
    - exact Hls. }
  assert (Forall xmin_readable (drop (len hm) glyf)) as Hxd.
  { unfold drop. rewrite <- (firstn_skipn (Z.to_nat (len hm)) glyf) in Hx.
    apply Forall_app in Hx. apply Hx. }
  pose proof (len_nonneg lsbs) as Hl0.
  unfold read_woff2_hmtx. cbn [app rd_u8 bind].
  rewrite Hadv. cbn [bind]. rewrite L1, L2.
  replace (len glyf - len hm) with (len lsbs) by lia.
  destruct B1 as [B1|B1]; rewrite B1; cbn [Z.eqb].
  - (* lsb[] present *)
    rewrite Hlsb. cbn [bind].
    replace (len glyf <? len hm) with false by lia.
    destruct B2 as [B2|B2]; rewrite B2; cbn [Z.eqb].
    + rewrite Hlsbs. cbn [bind]. rewrite zip_map_swap. reflexivity.
    + rewrite glyph_xmins_spec by exact Hxd.
      cbn [bind app]. rewrite zip_map_swap. rewrite (H2 B2). unfold drop, len. rewrite Nat2Z.id. reflexivity.
  - (* lsb[] reconstructed from xMin *)
    rewrite glyph_xmins_spec by exact Hx. cbn [bind].
    replace (len glyf <? len hm) with false by lia.
    assert (map (fun p : Z * Z => (snd p, fst p)) (zip (map xmin_spec glyf) (map fst hm)) = hm) as Hz.
    { rewrite (zip_firstn (map fst hm) (map xmin_spec glyf)). rewrite map_length.
      rewrite firstn_map. rewrite <- (H1 B1). apply zip_map_swap. }
    destruct B2 as [B2|B2]; rewrite B2; cbn [Z.eqb].
    + cbn [app]. rewrite Hlsbs. cbn [bind]. rewrite Hz. reflexivity.
    + rewrite glyph_xmins_spec by exact Hxd.
      cbn [bind app]. rewrite Hz. rewrite (H2 B2). unfold drop, len. rewrite Nat2Z.id. reflexivity.
Qed.
