(* Proofs/Woff2Hmtx.v — the hmtx transform (WOFF2 section 5.4): Woff2HmtxTable::read_dep rebuilds
   the original metrics whichever side-bearing arrays the encoder dropped. *)
From AV Require Import Base.Prelude Base.Lemmas Gen.Woff2Lut Model.Woff2
  Proofs.Woff2Spec Proofs.Woff2Ints Proofs.Woff2Triplet Proofs.Woff2Glyf.
From Coq Require Import ZifyBool.
Ltac Zify.zify_post_hook ::= Z.div_mod_to_equations.
Open Scope Z_scope.

Lemma len_flat_map2 {A} (f : A -> list Z) (l : list A) :
  (forall x, len (f x) = 2) -> len (flat_map f l) = 2 * len l.
Proof.
  intros Hf. induction l as [|x l IH]; [reflexivity|]. cbn [flat_map]. rewrite len_app, len_cons, Hf, IH. lia.
Qed.

Lemma rd_items_gen {A} (rd : stream -> outcome (Z * stream)) (wr : A -> list Z) (val : A -> Z) :
  (forall x r, rd (wr x ++ r) = Ok (val x, r)) ->
  forall l r, rd_items rd (length l) (flat_map wr l ++ r) = Ok (map val l, r).
Proof.
  intros H. induction l as [|x l IH]; intros r; [reflexivity|].
  cbn [length rd_items flat_map map]. rewrite <- app_assoc. rewrite H. cbn [bind]. rewrite IH. reflexivity.
Qed.

(* reading an array of 16-bit fields that was written item by item *)
Lemma rd_array16_gen {A} (rd : stream -> outcome (Z * stream)) (wr : A -> list Z) (val : A -> Z)
  (P : A -> Prop) :
  (forall x, len (wr x) = 2) ->
  (forall x r, P x -> rd (wr x ++ r) = Ok (val x, r)) ->
  forall l r, Forall P l -> rd_array16 rd (len l) (flat_map wr l ++ r) = Ok (map val l, r).
Proof.
  intros Hlen H l r Hl. unfold rd_array16. rewrite len_app, (len_flat_map2 wr l Hlen).
  pose proof (len_nonneg r). replace (len l * 2 <=? 2 * len l + len r) with true by lia.
  replace (Z.to_nat (len l)) with (length l) by (unfold len; lia).
  clear H0. revert r. induction Hl as [|x l Hx _ IH]; intros r; [reflexivity|].
  cbn [length rd_items flat_map map]. rewrite <- app_assoc. rewrite H by exact Hx. cbn [bind].
  rewrite IH. reflexivity.
Qed.

(* which records carry an xMin the reconstruction can read *)
Definition xmin_readable (g : glyph) : Prop :=
  match g with GPresent _ raw => 4 <= len raw | _ => True end.

Lemma glyph_xmins_spec : forall gs, Forall xmin_readable gs -> glyph_xmins gs = Ok (map xmin_spec gs).
Proof.
  induction gs as [|g gs IH]; intros H; [reflexivity|]. inversion H as [|? ? Hg Hgs]; subst.
  cbn [glyph_xmins map]. rewrite IH by exact Hgs.
  destruct g as [|s|bb cs ins|nc raw]; cbn [glyph_xmin xmin_spec bind]; try reflexivity.
  cbn [xmin_readable] in Hg.
  destruct raw as [|a [|b [|c [|d r]]]]; rewrite ?len_cons in Hg; change (len (@nil Z)) with 0 in Hg; try lia.
  unfold drop. change (Z.to_nat 2) with 2%nat. cbn [skipn rd_i16 bind].
  unfold nthZ. change (Z.to_nat 2) with 2%nat. change (Z.to_nat 3) with 3%nat. cbn [nth]. reflexivity.
Qed.

Lemma zip_map_swap : forall (l : list (Z * Z)),
  map (fun p => (snd p, fst p)) (zip (map snd l) (map fst l)) = l.
Proof. induction l as [|[a b] l IH]; [reflexivity|]. cbn [map zip fst snd]. rewrite IH. reflexivity. Qed.

Lemma zip_firstn {A B} : forall (b : list B) (a : list A), zip a b = zip (firstn (length b) a) b.
Proof.
  induction b as [|y b IH]; intros a; [destruct a; reflexivity|].
  destruct a as [|x a]; [reflexivity|]. cbn [length firstn zip]. rewrite <- IH. reflexivity.
Qed.

Lemma land3_bits : forall f, 0 <= f < 256 ->
  Z.land (Z.land f 3) 1 = Z.land f 1 /\ Z.land (Z.land f 3) 2 = Z.land f 2 /\
  (Z.land f 1 = 0 \/ Z.land f 1 = 1) /\ (Z.land f 2 = 0 \/ Z.land f 2 = 2).
Proof.
  intros f Hf.
  assert (forallb (fun f => (Z.land (Z.land f 3) 1 =? Z.land f 1) && (Z.land (Z.land f 3) 2 =? Z.land f 2)
                            && ((Z.land f 1 =? 0) || (Z.land f 1 =? 1)) && ((Z.land f 2 =? 0) || (Z.land f 2 =? 2)))
            (range 0 256) = true) as H by (vm_compute; reflexivity).
  rewrite forallb_forall in H. specialize (H f). rewrite range_In in H. specialize (H ltac:(cbn; lia)). lia.
Qed.

(* what the reader does on any allowed encoding, as the code stands: the long metrics are always
   rebuilt; the trailing array is the original one when it is present in the stream, and the xMin
   of ALL glyphs (numGlyphs entries, from glyph 0) when LEFT_SIDE_BEARING_ABSENT is set *)
Lemma hmtx_transform_actual : forall flags glyf h bytes,
  hmtx_ok glyf h -> Forall xmin_readable glyf -> encodes_hmtx_flags flags glyf h bytes ->
  read_woff2_hmtx glyf (len glyf) (len (fst h)) bytes =
    Ok (fst h, if Z.land flags 2 =? 0 then snd h else map xmin_spec glyf).
Proof.
  intros flags glyf [hm lsbs] bytes (Hlen & Hhm & Hls) Hx (Hf & H1 & H2 & ->).
  cbn [fst snd] in *.
  destruct (land3_bits flags Hf) as (L1 & L2 & B1 & B2).
  assert (forall r, rd_array16 rd_u16 (len hm) (flat_map (fun p : Z * Z => wr_u16 (fst p)) hm ++ r)
                    = Ok (map fst hm, r)) as Hadv.
  { intros r. apply (rd_array16_gen rd_u16 _ fst (fun p => u16_ok (fst p))).
    - reflexivity.
    - intros x r0 Hp. apply rd_u16_wr; exact Hp.
    - eapply Forall_impl; [|exact Hhm]. intros p Hp; apply Hp. }
  assert (forall r, rd_array16 rd_i16 (len hm) (flat_map (fun p : Z * Z => wr_i16 (snd p)) hm ++ r)
                    = Ok (map snd hm, r)) as Hlsb.
  { intros r. apply (rd_array16_gen rd_i16 _ snd (fun p => i16_ok (snd p))).
    - reflexivity.
    - intros x r0 Hp. apply rd_i16_wr; exact Hp.
    - eapply Forall_impl; [|exact Hhm]. intros p Hp; apply Hp. }
  assert (rd_array16 rd_i16 (len lsbs) (flat_map wr_i16 lsbs) = Ok (lsbs, [])) as Hlsbs.
  { rewrite <- (app_nil_r (flat_map wr_i16 lsbs)).
    rewrite (rd_array16_gen rd_i16 wr_i16 (fun v => v) i16_ok).
    - rewrite map_id. reflexivity.
    - reflexivity.
    - intros x r0 Hp. apply rd_i16_wr; exact Hp.
    - exact Hls. }
  pose proof (len_nonneg lsbs) as Hl0.
  unfold read_woff2_hmtx. cbn [app rd_u8 bind].
  rewrite Hadv. cbn [bind]. rewrite L1, L2.
  replace (len glyf - len hm) with (len lsbs) by lia.
  destruct B1 as [B1|B1]; rewrite B1; cbn [Z.eqb].
  - (* lsb[] present *)
    rewrite Hlsb. cbn [bind].
    replace (len glyf <? len hm) with false by lia.
    destruct B2 as [B2|B2]; rewrite B2; cbn [Z.eqb].
    + rewrite Hlsbs. cbn [bind]. rewrite zip_map_swap. reflexivity.
    + rewrite glyph_xmins_spec by exact Hx.
      cbn [bind app]. rewrite zip_map_swap. reflexivity.
  - (* lsb[] reconstructed from xMin *)
    rewrite glyph_xmins_spec by exact Hx. cbn [bind].
    replace (len glyf <? len hm) with false by lia.
    assert (map (fun p : Z * Z => (snd p, fst p)) (zip (map xmin_spec glyf) (map fst hm)) = hm) as Hz.
    { rewrite (zip_firstn (map fst hm) (map xmin_spec glyf)). rewrite map_length.
      rewrite firstn_map. rewrite <- (H1 B1). apply zip_map_swap. }
    destruct B2 as [B2|B2]; rewrite B2; cbn [Z.eqb].
    + cbn [app]. rewrite Hlsbs. cbn [bind]. rewrite Hz. reflexivity.
    + cbn [bind app]. rewrite Hz. reflexivity.
Qed.

(* Round trip of the hmtx transform where the code is right: the trailing leftSideBearing[] array
   is present in the stream (flag bit 1 clear); the lsb[] array of the long metrics may be present
   or dropped (flag bit 0), reserved flag bits arbitrary. *)
Theorem hmtx_transform_roundtrip : forall flags glyf h bytes,
  hmtx_ok glyf h -> Forall xmin_readable glyf -> encodes_hmtx_flags flags glyf h bytes ->
  Z.land flags 2 = 0 ->
  read_woff2_hmtx glyf (len glyf) (len (fst h)) bytes = Ok h.
Proof.
  intros flags glyf h bytes Hok Hx Henc Hb.
  rewrite (hmtx_transform_actual flags glyf h bytes Hok Hx Henc). rewrite Hb. destruct h; reflexivity.
Qed.

(* Known finding C11-hmtx-lsb-absent.  With LEFT_SIDE_BEARING_ABSENT (flag bit 1) the rebuilt
   trailing array is the xMin of every glyph from glyph 0: numGlyphs entries instead of
   numGlyphs - numberOfHMetrics. *)
Theorem hmtx_lsb_absent_actual : forall flags glyf h bytes,
  hmtx_ok glyf h -> Forall xmin_readable glyf -> encodes_hmtx_flags flags glyf h bytes ->
  Z.land flags 2 = 2 ->
  read_woff2_hmtx glyf (len glyf) (len (fst h)) bytes = Ok (fst h, map xmin_spec glyf).
Proof.
  intros flags glyf h bytes Hok Hx Henc Hb.
  rewrite (hmtx_transform_actual flags glyf h bytes Hok Hx Henc). rewrite Hb. reflexivity.
Qed.

(* so, as soon as there is at least one long metric, the decoded table is NOT the original one *)
Theorem hmtx_lsb_absent_differs : forall flags glyf h bytes,
  hmtx_ok glyf h -> Forall xmin_readable glyf -> encodes_hmtx_flags flags glyf h bytes ->
  Z.land flags 2 = 2 -> 1 <= len (fst h) ->
  read_woff2_hmtx glyf (len glyf) (len (fst h)) bytes <> Ok h.
Proof.
  intros flags glyf h bytes Hok Hx Henc Hb Hn.
  rewrite (hmtx_lsb_absent_actual flags glyf h bytes Hok Hx Henc Hb). intros E.
  destruct h as [hm lsbs]. cbn [fst] in *. injection E as E.
  destruct Hok as (Hlen & _). cbn [fst snd] in Hlen.
  assert (len (map xmin_spec glyf) = len lsbs) as Hl by (rewrite E; reflexivity).
  unfold len in Hl, Hlen, Hn. rewrite map_length in Hl. lia.
Qed.

(* what a reader of the decoded table sees: glyphs below numberOfHMetrics keep their metrics;
   glyph g >= numberOfHMetrics gets the xMin of glyph g - numberOfHMetrics instead of its own *)
Theorem hmtx_lsb_absent_lookup : forall flags glyf h bytes r g,
  hmtx_ok glyf h -> Forall xmin_readable glyf -> encodes_hmtx_flags flags glyf h bytes ->
  Z.land flags 2 = 2 ->
  read_woff2_hmtx glyf (len glyf) (len (fst h)) bytes = Ok r ->
  (0 <= g < len (fst h) -> hmtx_lsb r g = hmtx_lsb h g) /\
  (len (fst h) <= g < len glyf ->
     hmtx_lsb r g = xmin_spec (nth (Z.to_nat (g - len (fst h))) glyf GEmpty) /\
     hmtx_lsb h g = xmin_spec (nth (Z.to_nat g) glyf GEmpty)).
Proof.
  intros flags glyf h bytes r g Hok Hx Henc Hb Hr.
  rewrite (hmtx_lsb_absent_actual flags glyf h bytes Hok Hx Henc Hb) in Hr. injection Hr as <-.
  destruct Henc as (_ & _ & H2 & _). specialize (H2 Hb).
  unfold hmtx_lsb. cbn [fst snd]. split.
  - intros Hg. replace (g <? len (fst h)) with true by lia. reflexivity.
  - intros Hg. replace (g <? len (fst h)) with false by lia. split.
    + change 0 with (xmin_spec GEmpty). apply map_nth.
    + rewrite H2. change 0 with (xmin_spec GEmpty). rewrite map_nth. f_equal.
      rewrite nth_skipn'. f_equal. unfold len in *. lia.
Qed.
