(* Proofs/ContainerProofs.v — lemmas behind Props/C10.v *)
From AV Require Import Base.Prelude Base.Lemmas Gen.ReaderPrims Model.Reader Model.ReaderExt
  Proofs.ReaderProofs Proofs.EncodeProofs Gen.ContainerLayouts Model.Container.
From Coq Require Import ZifyBool ZifyNat.
Ltac Zify.zify_post_hook ::= Z.div_mod_to_equations.
Open Scope Z_scope.

(* ---------- specification side: how a directory is laid out in the file (OpenType spec), written
   with the generic big-endian encoders; tables are whatever bytes sit at the recorded offsets *)
Definition enc_offset_table (ver sr es rs : Z) (recs : list (list Z)) : list Z :=
  enc_seq offset_table_header_ty [ver; len recs; sr; es; rs] ++ enc_records table_record_ty recs.

Definition ot_ok (ver sr es rs : Z) (recs : list (list Z)) : Prop :=
  is_sfnt_magic ver = true /\
  seq_ok offset_table_header_ty [ver; len recs; sr; es; rs] /\
  Forall (seq_ok table_record_ty) recs.

(* the stored table for a tag: the bytes at (offset, length) of the FIRST record carrying the tag *)
Definition stored_table (file : list Z) (recs : list (list Z)) (tag : Z) : option (list Z) :=
  match find_record tag recs with
  | None => None
  | Some r => Some (take (nth 3 r 0) (drop (nth 2 r 0) file))
  end.

Definition file_scope_ok (s : scope) : Prop :=
  base s = 0 /\ dlen s < USIZE /\ bytes_ok (data s) = true.

Lemma cinv_at s o : dlen s < USIZE -> 0 <= o <= dlen s -> cinv {| sc := s; off := o |}.
Proof. intros. unfold cinv, sinv; cbn [sc off]. lia. Qed.

Lemma read_offset_table_written c ver sr es rs recs rest :
  cinv c -> bytes_ok (data (sc c)) = true -> 0 <= base (sc c) -> base (sc c) + dlen (sc c) < USIZE ->
  ot_ok ver sr es rs recs ->
  drop (off c) (data (sc c)) = enc_offset_table ver sr es rs recs ++ rest ->
  exists c', read_offset_table c = Ok ({| ot_version := ver; ot_records := recs |}, c').
Proof.
  intros Hc Hb Hb0 Hbase [Hmagic [Hhdr Hrecs]] Hd.
  unfold enc_offset_table in Hd. rewrite <- app_assoc in Hd.
  unfold read_offset_table.
  (* split the header into its first field and the remaining four *)
  assert (offset_table_header_ty = PU32 :: tl offset_table_header_ty) as Hty by reflexivity.
  rewrite Hty in Hd, Hhdr. cbn [enc_seq seq_ok hd] in Hd, Hhdr. destruct Hhdr as [Hv Hrest].
  rewrite <- app_assoc in Hd.
  change (hd PU32 offset_table_header_ty) with PU32.
  rewrite (read_prim_written PU32 c ver _ Hc Hb Hv Hd). cbn [bind]; cbv beta iota. rewrite Hmagic.
  pose proof Hc as [Hc1 Hc2]. unfold sinv in Hc2.
  assert (len (drop (off c) (data (sc c))) = dlen (sc c) - off c) as Hl by (apply len_drop; unfold dlen in *; lia).
  set (c1 := {| sc := sc c; off := off c + spec_size PU32 |}).
  assert (off c + 4 <= dlen (sc c)) as Hle1.
  { rewrite Hd in Hl. rewrite len_app, len_enc_prim in Hl.
    pose proof (len_nonneg (enc_seq (tl offset_table_header_ty) [len recs; sr; es; rs] ++ enc_records table_record_ty recs ++ rest)).
    change (spec_size PU32) with 4 in Hl. lia. }
  assert (cinv c1) as Hcc1 by (apply cinv_at; cbn [off sc]; change (spec_size PU32) with 4; lia).
  assert (drop (off c1) (data (sc c1)) =
          enc_seq (tl offset_table_header_ty) [len recs; sr; es; rs] ++ enc_records table_record_ty recs ++ rest) as Hd1.
  { unfold c1; cbn [off sc]. rewrite Z.add_comm. rewrite <- drop_drop by (change (spec_size PU32) with 4; lia).
    rewrite Hd. rewrite <- (len_enc_prim PU32 ver). apply drop_app_exact. }
  rewrite (read_seq_written _ c1 _ _ Hcc1 Hb Hrest Hd1). cbn [bind]; cbv beta iota. cbn [hd].
  set (c2 := {| sc := sc c1; off := off c1 + ty_size (tl offset_table_header_ty) |}).
  assert (len (enc_seq (tl offset_table_header_ty) [len recs; sr; es; rs]) = ty_size (tl offset_table_header_ty)) as Hl2
    by (apply len_enc_seq; exact Hrest).
  assert (drop (off c2) (data (sc c2)) = enc_records table_record_ty recs ++ rest) as Hd2.
  { unfold c2; cbn [off sc]. rewrite Z.add_comm. pose proof (ty_size_nonneg (tl offset_table_header_ty)).
    rewrite <- drop_drop by (destruct Hcc1; lia). rewrite Hd1. rewrite <- Hl2. apply drop_app_exact. }
  assert (cinv c2) as Hcc2.
  { apply cinv_at; cbn [off sc]; [unfold c1; cbn [sc]; lia|].
    pose proof (ty_size_nonneg (tl offset_table_header_ty)). destruct Hcc1 as [Hx _]. split; [lia|].
    assert (len (drop (off c1) (data (sc c1))) = dlen (sc c1) - off c1) as Hl1 by (apply len_drop; unfold dlen in *; lia).
    rewrite Hd1 in Hl1. rewrite len_app, Hl2 in Hl1.
    pose proof (len_nonneg (enc_records table_record_ty recs ++ rest)). unfold c1 in *; cbn [sc off] in *. lia. }
  assert (0 < ty_size table_record_ty < USIZE) as Hts by (split; reflexivity).
  rewrite (read_records_written table_record_ty c2 recs rest Hcc2 Hb Hb0 Hbase Hts Hrecs Hd2).
  cbn [bind]; cbv beta iota. eauto.
Qed.

(* what the provider then reports *)
Lemma ot_table_data_spec s ot tag : file_scope_ok s ->
  Forall (seq_ok table_record_ty) (ot_records ot) ->
  match find_record tag (ot_records ot) with
  | None => ot_table_data s ot tag = Ok None
  | Some r =>
      if (nth 2 r 0 + nth 3 r 0 <=? dlen s) || (nth 3 r 0 =? 0)
      then ot_table_data s ot tag = Ok (stored_table (data s) (ot_records ot) tag)
      else exists e, ot_table_data s ot tag = Err e
  end.
Proof.
  intros [Hb [Hl Hbytes]] Hrecs. unfold ot_table_data, stored_table.
  destruct (find_record tag (ot_records ot)) as [r|] eqn:Ef; [|reflexivity].
  assert (seq_ok table_record_ty r) as Hr.
  { clear - Ef Hrecs. induction (ot_records ot) as [|x l IH]; cbn [find_record] in Ef; [discriminate|].
    inversion Hrecs; subst. destruct (hd 0 x =? tag); [injection Ef as <-; assumption|auto]. }
  unfold table_record_ty in Hr.
  destruct r as [|tg [|ck [|o [|l [|? ?]]]]]; cbn [seq_ok] in Hr; try tauto.
  cbn [nth]. destruct Hr as [_ [_ [[_ Ho] [[_ Hlen] _]]]].
  change (spec_size PU32) with 4 in *. change (256 ^ 4) with 4294967296 in *.
  destruct (o + l <=? dlen s) eqn:E; cbn [orb].
  - rewrite offset_length_complete by lia. cbn [bind data]. reflexivity.
  - destruct (l =? 0) eqn:El.
    + (* a zero-length table recorded beyond the end of the file: the empty string *)
      assert (l = 0) by lia. subst l. unfold offset_length, dlen in *.
      replace ((o <? len (data s)) || (0 =? 0)) with true by lia.
      assert (0 <= len (slice_from (data s) o)) by apply len_nonneg.
      replace (0 <=? len (slice_from (data s) o)) with true by lia.
      unfold wadd; cbn [bind data]. reflexivity.
    + destruct (offset_length_rejects Debug s o l) as [e He]; try lia. rewrite He. cbn [bind]. eauto.
Qed.

Lemma ctxt_new_drop s : drop (off (ctxt_new s)) (data (sc (ctxt_new s))) = data s.
Proof. reflexivity. Qed.

Lemma cinv_new_file s : file_scope_ok s -> cinv (ctxt_new s).
Proof. intros [_ [Hl _]]. apply cinv_new. exact Hl. Qed.

(* ---------- bare sfnt *)
Theorem sfnt_provider s idx ver sr es rs recs tail :
  file_scope_ok s -> ot_ok ver sr es rs recs ->
  data s = enc_offset_table ver sr es rs recs ++ tail ->
  font_provider s idx = Ok (POpenType {| ot_version := ver; ot_records := recs |}).
Proof.
  intros Hs Hok Hd. pose proof Hs as [Hb0 [Hl Hbytes]]. pose proof Hok as [Hmagic [Hhdr Hrecs]].
  pose proof (cinv_new_file s Hs) as Hc.
  assert (read_prim PU32 (ctxt_new s) = Ok (ver, {| sc := s; off := 0 + spec_size PU32 |})) as Hmag.
  { assert (offset_table_header_ty = PU32 :: tl offset_table_header_ty) as Hty by reflexivity.
    rewrite Hty in Hhdr. cbn [seq_ok] in Hhdr. destruct Hhdr as [Hv _].
    apply (read_prim_written PU32 (ctxt_new s) ver
             (enc_seq (tl offset_table_header_ty) [len recs; sr; es; rs] ++ enc_records table_record_ty recs ++ tail));
      [exact Hc|exact Hbytes|exact Hv|].
    rewrite ctxt_new_drop, Hd. unfold enc_offset_table. rewrite Hty. cbn [enc_seq].
    rewrite <- !app_assoc. reflexivity. }
  unfold font_provider. rewrite Hmag. cbn [bind]; cbv beta iota. rewrite Hmagic. cbn [orb].
  unfold read_opentype. rewrite Hmag. cbn [bind]; cbv beta iota. rewrite Hmagic.
  destruct (read_offset_table_written (ctxt_new s) ver sr es rs recs tail) as [c' Hr]; auto.
  - cbn [ctxt_new sc]. lia.
  - cbn [ctxt_new sc]. lia.
  - rewrite Hr. cbn [bind]; cbv beta iota. reflexivity.
Qed.

(* flavour and tag set are those of the directory; tables are the stored bytes; absent tags are None *)
Lemma provider_table_ot inflate s ot tag :
  provider_table inflate s (POpenType ot) tag = ot_table_data s ot tag.
Proof. reflexivity. Qed.

Lemma find_record_none tag recs : ~ In tag (map (hd 0) recs) -> find_record tag recs = None.
Proof.
  induction recs as [|r recs IH]; intros H; [reflexivity|]. cbn [find_record map In] in *.
  destruct (hd 0 r =? tag) eqn:E; [exfalso; apply H; left; lia|]. apply IH. tauto.
Qed.

Theorem absent_tag_none inflate s ot tag :
  ~ In tag (map (hd 0) (ot_records ot)) -> provider_table inflate s (POpenType ot) tag = Ok None.
Proof.
  intros H. cbn [provider_table]. unfold ot_table_data. rewrite find_record_none by assumption. reflexivity.
Qed.

(* ---------- TrueType collections *)
Definition enc_ttc_header (major minor : Z) (offs : list Z) : list Z :=
  enc_seq ttc_header_ty [TTCF_MAGIC; major; minor; len offs]
  ++ enc_records [PU32] (map (fun o => [o]) offs).

Definition ttc_ok (major minor : Z) (offs : list Z) : Prop :=
  (major = 1 \/ major = 2) /\
  seq_ok ttc_header_ty [TTCF_MAGIC; major; minor; len offs] /\
  Forall (fun o => 0 <= o < 4294967296) offs.

Lemma offs_seq_ok offs : Forall (fun o => 0 <= o < 4294967296) offs ->
  Forall (seq_ok [PU32]) (map (fun o => [o]) offs).
Proof.
  induction 1 as [|o offs Ho _ IH]; cbn [map]; constructor; [|exact IH].
  cbn [seq_ok]. split; [|exact I]. split; [reflexivity|exact Ho].
Qed.

Lemma map_hd_singletons offs : map (hd 0) (map (fun o : Z => [o]) offs) = offs.
Proof. induction offs as [|o offs IH]; cbn [map hd]; [reflexivity|]. rewrite IH. reflexivity. Qed.

Lemma read_ttc_header_written s major minor offs tail :
  file_scope_ok s -> ttc_ok major minor offs ->
  data s = enc_ttc_header major minor offs ++ tail ->
  exists c', read_ttc_header (ctxt_new s) = Ok (offs, c').
Proof.
  intros Hs [Hmaj [Hhdr Hoffs]] Hd. pose proof Hs as [Hb0 [Hl Hbytes]].
  pose proof (cinv_new_file s Hs) as Hc.
  unfold enc_ttc_header in Hd. rewrite <- app_assoc in Hd.
  assert (ttc_header_ty = [PU32; PU16; PU16; PU32]) as Hty by reflexivity.
  unfold read_ttc_header. rewrite Hty in *. cbn [hd tl firstn skipn].
  cbn [seq_ok] in Hhdr. destruct Hhdr as [H1 [H2 [H3 [H4 _]]]].
  change (enc_seq [PU32; PU16; PU16; PU32] [TTCF_MAGIC; major; minor; len offs])
    with (enc_prim PU32 TTCF_MAGIC ++ enc_seq [PU16; PU16] [major; minor] ++ enc_seq [PU32] [len offs]) in Hd.
  rewrite <- !app_assoc in Hd.
  destruct (read_prim_chain PU32 (ctxt_new s) TTCF_MAGIC _ Hc Hbytes H1 Hd) as [c1 [R1 [C1 [S1 D1]]]].
  rewrite R1. cbn [bind]; cbv beta iota. rewrite Z.eqb_refl.
  assert (bytes_ok (data (sc c1)) = true) as Hb1 by (rewrite S1; exact Hbytes).
  destruct (read_seq_chain [PU16; PU16] c1 [major; minor] _ C1 Hb1 ltac:(cbn [seq_ok]; tauto) D1) as [c2 [R2 [C2 [S2 D2]]]].
  rewrite R2. cbn [bind]; cbv beta iota. cbn [hd].
  replace ((major =? 1) || (major =? 2)) with true by lia.
  assert (bytes_ok (data (sc c2)) = true) as Hb2 by (rewrite S2; exact Hb1).
  destruct (read_seq_chain [PU32] c2 [len offs] _ C2 Hb2 ltac:(cbn [seq_ok]; tauto) D2) as [c3 [R3 [C3 [S3 D3]]]].
  rewrite R3. cbn [bind]; cbv beta iota. cbn [hd].
  assert (sc c3 = s) as Hsc3 by (rewrite S3, S2, S1; reflexivity).
  assert (len offs = len (map (fun o : Z => [o]) offs)) as Hlen by (unfold len; rewrite map_length; reflexivity).
  rewrite Hlen.
  destruct (read_records_chain [PU32] c3 (map (fun o => [o]) offs) tail) as [c4 [R4 _]]; auto.
  - rewrite Hsc3. exact Hbytes.
  - rewrite Hsc3. lia.
  - rewrite Hsc3. lia.
  - split; reflexivity.
  - apply offs_seq_ok. exact Hoffs.
  - rewrite R4. cbn [bind]; cbv beta iota. rewrite map_hd_singletons. eauto.
Qed.

Lemma ttc_magic_not_sfnt : is_sfnt_magic TTCF_MAGIC = false.
Proof. reflexivity. Qed.

Lemma ttc_dispatch s major minor offs tail :
  file_scope_ok s -> ttc_ok major minor offs ->
  data s = enc_ttc_header major minor offs ++ tail ->
  forall idx, font_provider s idx =
    (ot <- ot_member s (Collection offs) idx ;; Ok (POpenType ot)).
Proof.
  intros Hs Hok Hd idx. pose proof Hs as [Hb0 [Hl Hbytes]]. pose proof Hok as [Hmaj [Hhdr Hoffs]].
  pose proof (cinv_new_file s Hs) as Hc.
  assert (exists c1, read_prim PU32 (ctxt_new s) = Ok (TTCF_MAGIC, c1)) as [c1 Hmag].
  { assert (ttc_header_ty = [PU32; PU16; PU16; PU32]) as Hty by reflexivity.
    rewrite Hty in Hhdr. cbn [seq_ok] in Hhdr. destruct Hhdr as [H1 _].
    unfold enc_ttc_header in Hd. rewrite Hty in Hd. cbn [enc_seq] in Hd. rewrite <- !app_assoc in Hd.
    destruct (read_prim_chain PU32 (ctxt_new s) TTCF_MAGIC _ Hc Hbytes H1 Hd) as [c1 [R1 _]]. eauto. }
  unfold font_provider. rewrite Hmag. cbn [bind]; cbv beta iota.
  rewrite ttc_magic_not_sfnt. rewrite Z.eqb_refl. cbn [orb].
  unfold read_opentype. rewrite Hmag. cbn [bind]; cbv beta iota.
  rewrite ttc_magic_not_sfnt. rewrite Z.eqb_refl.
  destruct (read_ttc_header_written s major minor offs tail Hs Hok Hd) as [c' Hr].
  rewrite Hr. cbn [bind]; cbv beta iota. reflexivity.
Qed.

Theorem ttc_index_out_of_range s major minor offs tail idx :
  file_scope_ok s -> ttc_ok major minor offs ->
  data s = enc_ttc_header major minor offs ++ tail ->
  len offs <= idx -> font_provider s idx = Err BadIndex.
Proof.
  intros Hs Hok Hd Hi. rewrite (ttc_dispatch s major minor offs tail Hs Hok Hd).
  cbn [ot_member]. unfold nth_safe. pose proof (len_nonneg offs).
  replace ((idx <? 0) || (len offs <=? idx)) with true by lia.
  reflexivity.
Qed.

Theorem ttc_member s major minor offs tail idx off ver sr es rs recs rest :
  file_scope_ok s -> ttc_ok major minor offs ->
  data s = enc_ttc_header major minor offs ++ tail ->
  0 <= idx -> nth_error offs (Z.to_nat idx) = Some off -> 0 <= off <= dlen s ->
  ot_ok ver sr es rs recs ->
  drop off (data s) = enc_offset_table ver sr es rs recs ++ rest ->
  font_provider s idx = Ok (POpenType {| ot_version := ver; ot_records := recs |}).
Proof.
  intros Hs Hok Hd Hi Hnth Hoff Hot Hdm. pose proof Hs as [Hb0 [Hl Hbytes]].
  rewrite (ttc_dispatch s major minor offs tail Hs Hok Hd).
  cbn [ot_member]. unfold nth_safe.
  assert (idx < len offs) as Hlt.
  { assert (nth_error offs (Z.to_nat idx) <> None) as Hne by congruence.
    apply nth_error_Some in Hne. unfold len. lia. }
  replace ((idx <? 0) || (len offs <=? idx)) with false by lia. rewrite Hnth.
  unfold scope_offset, wadd. cbn [bind]. rewrite Hb0. rewrite Z.add_0_l.
  rewrite Z.mod_small by (unfold USIZE in *; lia).
  set (s' := {| base := off; data := slice_from (data s) off |}).
  assert (data s' = drop off (data s)) as Hds by (unfold s'; cbn [data]; apply slice_from_drop; unfold dlen in *; lia).
  assert (dlen s' = dlen s - off) as Hdl by (unfold dlen at 1; rewrite Hds; apply len_drop; unfold dlen in *; lia).
  destruct (read_offset_table_written (ctxt_new s') ver sr es rs recs rest) as [c' Hr]; auto.
  - apply cinv_new. unfold sinv. lia.
  - cbn [ctxt_new sc]. rewrite Hds. apply bytes_ok_drop. exact Hbytes.
  - cbn [ctxt_new sc]. unfold s'; cbn [base]. lia.
  - cbn [ctxt_new sc]. unfold s' at 1; cbn [base]. lia.
  - rewrite ctxt_new_drop. rewrite Hds. exact Hdm.
  - rewrite Hr. cbn [bind]; cbv beta iota. reflexivity.
Qed.

(* ---------- WOFF *)
Definition enc_woff (flavor length total major minor mo ml mol po pl : Z) (entries : list (list Z)) : list Z :=
  enc_seq woff_header_ty [WOFF_MAGIC; flavor; length; len entries; 0; total; major; minor; mo; ml; mol; po; pl]
  ++ enc_records woff_entry_ty entries.

Definition woff_ok (flavor length total major minor mo ml mol po pl : Z) (entries : list (list Z)) : Prop :=
  seq_ok woff_header_ty [WOFF_MAGIC; flavor; length; len entries; 0; total; major; minor; mo; ml; mol; po; pl] /\
  Forall (seq_ok woff_entry_ty) entries.

Theorem woff_provider s idx flavor length total major minor mo ml mol po pl entries tail :
  file_scope_ok s -> woff_ok flavor length total major minor mo ml mol po pl entries ->
  data s = enc_woff flavor length total major minor mo ml mol po pl entries ++ tail ->
  font_provider s idx = Ok (PWoff {| w_flavor := flavor; w_entries := entries |}).
Proof.
  intros Hs [Hhdr Hent] Hd. pose proof Hs as [Hb0 [Hl Hbytes]].
  pose proof (cinv_new_file s Hs) as Hc.
  unfold enc_woff in Hd. rewrite <- app_assoc in Hd.
  assert (woff_header_ty = [PU32; PU32; PU32; PU16; PU16; PU32; PU16; PU16; PU32; PU32; PU32; PU32; PU32]) as Hty by reflexivity.
  rewrite Hty in *.
  change (enc_seq [PU32; PU32; PU32; PU16; PU16; PU32; PU16; PU16; PU32; PU32; PU32; PU32; PU32]
            [WOFF_MAGIC; flavor; length; len entries; 0; total; major; minor; mo; ml; mol; po; pl])
    with (enc_prim PU32 WOFF_MAGIC ++ enc_seq [PU32; PU32; PU16; PU16] [flavor; length; len entries; 0]
          ++ enc_seq [PU32; PU16; PU16; PU32; PU32; PU32; PU32; PU32] [total; major; minor; mo; ml; mol; po; pl]) in Hd.
  rewrite <- !app_assoc in Hd.
  cbn [seq_ok] in Hhdr.
  destruct Hhdr as [H1 [H2 [H3 [H4 [H5 [H6 [H7 [H8 [H9 [H10 [H11 [H12 [H13 _]]]]]]]]]]]]].
  destruct (read_prim_chain PU32 (ctxt_new s) WOFF_MAGIC _ Hc Hbytes H1 Hd) as [c1 [R1 [C1 [S1 D1]]]].
  assert (is_sfnt_magic WOFF_MAGIC = false) as Hns by reflexivity.
  assert ((WOFF_MAGIC =? TTCF_MAGIC) = false) as Hnt by reflexivity.
  unfold font_provider. rewrite R1. cbn [bind]; cbv beta iota. rewrite Hns, Hnt. cbn [orb].
  rewrite Z.eqb_refl.
  unfold read_woff. rewrite Hty. cbn [hd tl firstn skipn]. rewrite R1. cbn [bind]; cbv beta iota. rewrite Z.eqb_refl.
  assert (bytes_ok (data (sc c1)) = true) as Hb1 by (rewrite S1; exact Hbytes).
  destruct (read_seq_chain [PU32; PU32; PU16; PU16] c1 [flavor; length; len entries; 0] _ C1 Hb1
              ltac:(cbn [seq_ok]; tauto) D1) as [c2 [R2 [C2 [S2 D2]]]].
  rewrite R2. cbn [bind]; cbv beta iota. cbn [nth]. rewrite Z.eqb_refl.
  assert (bytes_ok (data (sc c2)) = true) as Hb2 by (rewrite S2; exact Hb1).
  destruct (read_seq_chain [PU32; PU16; PU16; PU32; PU32; PU32; PU32; PU32] c2 [total; major; minor; mo; ml; mol; po; pl] _ C2 Hb2
              ltac:(cbn [seq_ok]; tauto) D2) as [c3 [R3 [C3 [S3 D3]]]].
  rewrite R3. cbn [bind]; cbv beta iota.
  assert (sc c3 = s) as Hsc3 by (rewrite S3, S2, S1; reflexivity).
  destruct (read_records_chain woff_entry_ty c3 entries tail) as [c4 [R4 _]]; auto.
  - rewrite Hsc3. exact Hbytes.
  - rewrite Hsc3. lia.
  - rewrite Hsc3. lia.
  - split; reflexivity.
  - rewrite R4. cbn [bind]; cbv beta iota. reflexivity.
Qed.

(* a WOFF table: the stored bytes when comp = orig, otherwise whatever the zlib decoder makes of
   the stored bytes; with a decoder that inverts the compressor this is the original table *)
Lemma woff_table_data_spec inflate s w tag : file_scope_ok s ->
  Forall (seq_ok woff_entry_ty) (w_entries w) ->
  match find_record tag (w_entries w) with
  | None => woff_table_data inflate s w tag = Ok None
  | Some e =>
      let stored := take (nth 2 e 0) (drop (nth 1 e 0) (data s)) in
      nth 1 e 0 + nth 2 e 0 <= dlen s ->
      woff_table_data inflate s w tag =
        if nth 2 e 0 =? nth 3 e 0 then Ok (Some stored)
        else match inflate stored with Some b => Ok (Some b) | None => Err CompressionError end
  end.
Proof.
  intros [Hb [Hl Hbytes]] Hent. unfold woff_table_data.
  destruct (find_record tag (w_entries w)) as [e|] eqn:Ef; [|reflexivity].
  assert (seq_ok woff_entry_ty e) as He.
  { clear - Ef Hent. induction (w_entries w) as [|x l IH]; cbn [find_record] in Ef; [discriminate|].
    inversion Hent; subst. destruct (hd 0 x =? tag); [injection Ef as <-; assumption|auto]. }
  unfold woff_entry_ty in He.
  destruct e as [|tg [|o [|cl [|ol [|ck [|? ?]]]]]]; cbn [seq_ok] in He; try tauto.
  cbn [nth]. destruct He as [_ [[_ Ho] [[_ Hcl] _]]].
  change (spec_size PU32) with 4 in *. change (256 ^ 4) with 4294967296 in *.
  intros Hle. rewrite offset_length_complete by lia. cbn [bind data].
  destruct (cl =? ol); reflexivity.
Qed.

Theorem woff_roundtrip inflate deflate s w tag e orig :
  (forall b, inflate (deflate b) = Some b) ->
  file_scope_ok s -> Forall (seq_ok woff_entry_ty) (w_entries w) ->
  find_record tag (w_entries w) = Some e ->
  nth 1 e 0 + nth 2 e 0 <= dlen s ->
  take (nth 2 e 0) (drop (nth 1 e 0) (data s)) = (if nth 2 e 0 =? nth 3 e 0 then orig else deflate orig) ->
  woff_table_data inflate s w tag = Ok (Some orig).
Proof.
  intros Hinv Hs Hent Hf Hle Hstored.
  pose proof (woff_table_data_spec inflate s w tag Hs Hent) as H. rewrite Hf in H.
  cbv zeta in H. rewrite (H Hle). rewrite Hstored.
  destruct (nth 2 e 0 =? nth 3 e 0); [reflexivity|]. rewrite Hinv. reflexivity.
Qed.
