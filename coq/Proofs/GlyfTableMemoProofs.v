(* Proofs/GlyfTableMemoProofs.v — the lazily parsed glyf table is transparent (property C03). *)
From AV Require Import Base.Prelude Gen.CacheSites Model.GlyfTableMemo.
Open Scope Z_scope.

Section Proofs.
  Context {R S : Type}.
  Variable parse : R -> outcome (@glyph S).

  (* a record of the used table is the record of the freshly read table, or its parsed form *)
  Definition rec_ref (r0 r : @grec R S) : Prop :=
    r = r0 \/ exists raw g, r0 = Present raw /\ parse raw = Ok g /\ r = Parsed g.

  Definition refines (t0 t : @table R S) : Prop := Forall2 rec_ref t0 t.

  Lemma rec_ref_refl : forall r, rec_ref r r.
  Proof. intro r. left. reflexivity. Qed.

  Lemma refines_refl : forall t, refines t t.
  Proof. induction t as [|r t IH]; constructor; [apply rec_ref_refl | exact IH]. Qed.

  Lemma rec_ref_meaning : forall r0 r, rec_ref r0 r -> meaning parse r = meaning parse r0.
  Proof.
    intros r0 r [E | [raw [g [E0 [Ep E]]]]].
    - rewrite E. reflexivity.
    - rewrite E, E0. simpl. rewrite Ep. reflexivity.
  Qed.

  Lemma refines_meaning : forall t0 t, refines t0 t -> map (meaning parse) t = map (meaning parse) t0.
  Proof.
    intros t0 t H. induction H as [|r0 r t0 t Hr Ht IH]; [reflexivity|].
    simpl. rewrite (rec_ref_meaning _ _ Hr), IH. reflexivity.
  Qed.

  Lemma refines_length : forall t0 t, refines t0 t -> length t = length t0.
  Proof. intros t0 t H. induction H as [|r0 r t0 t Hr Ht IH]; [reflexivity | simpl; rewrite IH; reflexivity]. Qed.

  Lemma get_nat_refines : forall t0 t, refines t0 t -> forall n,
    fst (get_nat parse t n) = fst (get_nat parse t0 n) /\ refines t0 (snd (get_nat parse t n)).
  Proof.
    intros t0 t H. induction H as [|r0 r t0 t Hr Ht IH]; intro n.
    - simpl. split; [reflexivity | constructor].
    - destruct n as [|m].
      + destruct Hr as [E | [raw [g [E0 [Ep E]]]]].
        * subst r. simpl. destruct r0 as [raw | g].
          -- destruct (parse raw) as [g | e | |] eqn:Ep; simpl; split; try reflexivity;
               constructor; try exact Ht; try apply rec_ref_refl.
             right. exists raw, g. repeat split; assumption.
          -- simpl. split; [reflexivity|]. constructor; [apply rec_ref_refl | exact Ht].
        * subst r r0. simpl. rewrite Ep. simpl. split; [reflexivity|].
          constructor; [| exact Ht]. right. exists raw, g. repeat split; assumption.
      + simpl. destruct (IH m) as [E1 E2]. split; [exact E1|]. constructor; assumption.
  Qed.

  Lemma get_refines : forall t0 t i, refines t0 t ->
    fst (get_parsed_glyph parse t i) = parsed_of parse t0 i /\ refines t0 (snd (get_parsed_glyph parse t i)).
  Proof.
    intros t0 t i H. unfold parsed_of, get_parsed_glyph. destruct (i <? 0).
    - simpl. split; [reflexivity | exact H].
    - apply get_nat_refines. exact H.
  Qed.

  Lemma visit_comps_refines :
    forall (v : @table R S -> Z -> outcome (list S) * @table R S) (vs : Z -> outcome (list S)) t0,
      (forall t i, refines t0 t -> fst (v t i) = vs i /\ refines t0 (snd (v t i))) ->
      forall cs t, refines t0 t ->
        fst (visit_comps v cs t) = spec_comps vs cs /\ refines t0 (snd (visit_comps v cs t)).
  Proof.
    intros v vs t0 Hv cs. induction cs as [|c r IH]; intros t Ht.
    - simpl. split; [reflexivity | exact Ht].
    - cbn [visit_comps spec_comps]. destruct (Hv t c Ht) as [E1 R1]. rewrite E1.
      destruct (vs c) as [a | e | |]; cbn [fst snd]; try (split; [reflexivity | exact R1]).
      destruct (IH (snd (v t c)) R1) as [E2 R2]. rewrite E2.
      split; [reflexivity | exact R2].
  Qed.

  (* the result of a visit is the stateless specification evaluated on the freshly read table, and the table
     keeps refining it *)
  Lemma visit_outline_refines : forall fuel t0 t i, refines t0 t ->
    fst (visit_outline parse fuel t i) = visit_spec parse fuel t0 i /\
    refines t0 (snd (visit_outline parse fuel t i)).
  Proof.
    induction fuel as [|f IH]; intros t0 t i Ht.
    - simpl. split; [reflexivity | exact Ht].
    - cbn [visit_outline visit_spec]. destruct (get_refines t0 t i Ht) as [E1 R1]. rewrite E1.
      destruct (parsed_of parse t0 i) as [g | e | |]; cbn [fst snd]; try (split; [reflexivity | exact R1]).
      destruct g as [| s | cs]; cbn [fst snd]; try (split; [reflexivity | exact R1]).
      apply visit_comps_refines; [| exact R1].
      intros t' i' Ht'. apply IH. exact Ht'.
  Qed.

  Lemma t_step_refines : forall t0 t op, refines t0 t ->
    fst (t_step parse t op) = t_spec parse t0 op /\ refines t0 (snd (t_step parse t op)).
  Proof.
    intros t0 t op Ht. destruct op as [i | i]; cbn [t_step t_spec fst snd].
    - unfold visit. destruct (visit_outline_refines visit_fuel t0 t i Ht) as [E1 R1].
      rewrite E1. split; [reflexivity | exact R1].
    - destruct (get_refines t0 t i Ht) as [E1 R1]. rewrite E1. split; [reflexivity | exact R1].
  Qed.

  Lemma t_run_refines : forall ops t0 t, refines t0 t ->
    fst (t_run parse t ops) = map (t_spec parse t0) ops /\ refines t0 (snd (t_run parse t ops)).
  Proof.
    induction ops as [|op r IH]; intros t0 t Ht.
    - simpl. split; [reflexivity | exact Ht].
    - cbn [t_run map fst snd]. destruct (t_step_refines t0 t op Ht) as [E1 R1].
      destruct (IH t0 (snd (t_step parse t op)) R1) as [E2 R2].
      rewrite E1, E2. split; [reflexivity | exact R2].
  Qed.

  (* every call sequence on one table answers, call by call, what a freshly read table answers; and what every
     record means (hence what subset / write_dep read) is unchanged afterwards *)
  Theorem glyf_table_history_independent : forall (t0 : @table R S) (ops : list top),
    fst (t_run parse t0 ops) = map (t_spec parse t0) ops /\
    map (meaning parse) (snd (t_run parse t0 ops)) = map (meaning parse) t0 /\
    length (snd (t_run parse t0 ops)) = length t0.
  Proof.
    intros t0 ops. destruct (t_run_refines ops t0 t0 (refines_refl t0)) as [E HR].
    split; [exact E|]. split; [apply refines_meaning; exact HR | apply refines_length; exact HR].
  Qed.

  Theorem glyf_table_probe : forall (t0 : @table R S) (history : list top) (probe : top),
    fst (t_step parse (snd (t_run parse t0 history)) probe) = fst (t_step parse t0 probe).
  Proof.
    intros t0 h p. destruct (t_run_refines h t0 t0 (refines_refl t0)) as [_ HR].
    destruct (t_step_refines t0 _ p HR) as [E _].
    destruct (t_step_refines t0 t0 p (refines_refl t0)) as [E0 _].
    rewrite E, E0. reflexivity.
  Qed.
End Proofs.

(* the take / put-back-on-success idiom is NOT transparent: glyph 1 is made of glyph 2, glyph 2 of glyph 9
   (out of range).  The first visit fails and leaves glyph 1 and 2 empty: the same visit then answers Ok []. *)
Definition ex_parse (r : list Z) : outcome (@glyph Z) :=
  match r with
  | [] => Ok GEmpty
  | 0 :: s :: _ => Ok (GSimple s)
  | 1 :: cs => Ok (GComposite cs)
  | _ => Err Eof
  end.
Definition ex_table : @table (list Z) Z := [Present []; Present [1; 2]; Present [1; 9]; Present [0; 7]].

Example take_idiom_is_stale :
  fst (visit_take ex_parse 7 ex_table 1) = Err BadIndex /\
  fst (visit_take ex_parse 7 (snd (visit_take ex_parse 7 ex_table 1)) 1) = Ok [] /\
  map (meaning ex_parse) (snd (visit_take ex_parse 7 ex_table 1)) <> map (meaning ex_parse) ex_table /\
  fst (visit ex_parse (snd (visit ex_parse ex_table 1)) 1) = Err BadIndex /\
  fst (visit ex_parse ex_table 3) = Ok [7].
Proof. vm_compute. repeat split; try reflexivity. intro H. discriminate H. Qed.
