(* Proofs/CmapSubsetTop.v — the C08 statements: what the subsetter writes for a set of kept
   mappings, read back with the C06 reader (parse, map_glyph, Font::map_glyph), maps every kept
   character to its glyph and everything else to glyph 0. *)
From AV Require Import Base.Prelude Base.Lemmas Gen.CmapPrefs Model.MacRoman Model.Cmap Model.CmapSpec
  Model.CmapSubset Proofs.CmapProofs Proofs.CmapParseProofs Proofs.MacRomanProofs
  Proofs.CmapSubsetProofs Proofs.CmapWriteProofs Proofs.CmapKeepProofs.
Require Import ZifyBool.
Open Scope Z_scope.

(* ------------------------------------------------------------------------------------------- *)
(* sub-table level: build, write, parse, look up *)

Theorem subset_format4_correct m M st bytes :
  sorted_above (-1) M ->
  f4_from_mappings m M = Ok st -> write_subtable m st = Ok bytes ->
  parse bytes = Ok st /\
  forall c, 0 <= c -> glyph_of (map_glyph st c) = lookup0 M c.
Proof.
  intros HS HB HW. destruct st as [| |l ends starts deltas ros gids| | |];
    try (unfold f4_from_mappings in HB; destruct M as [|[c0 g0] rest]; [discriminate|];
         destruct (split_segments m (seg_new c0 g0) rest); cbn [bind] in HB; try discriminate;
         match type of HB with bind ?x _ = _ => destruct x; cbn [bind] in HB; discriminate end).
  destruct (f4_build_shape m M _ _ _ _ _ _ HS HB) as (-> & Fe & Fs & Fd & Fr & Fg & Le & Ld & Lr).
  destruct (write_f4_bounds _ _ _ _ _ _ _ _ HW) as [Bn Bl].
  split.
  - eapply parse_write_f4; eauto. unfold u16. lia.
  - apply (f4_build_correct m M 0 ends starts deltas ros gids HS HB).
    pose proof (len_nonneg ends). pose proof (len_nonneg starts). pose proof (len_nonneg deltas).
    pose proof (len_nonneg ros). lia.
Qed.

Theorem subset_format12_correct m M st bytes :
  sorted_above32 (-1) M ->
  f12_from_mappings m M = Ok st -> write_subtable m st = Ok bytes ->
  parse bytes = Ok st /\
  forall c, glyph_of (map_glyph st c) = lookup0 M c.
Proof.
  intros HS HB HW. destruct st as [| | | | |l groups];
    try (unfold f12_from_mappings in HB; destruct M as [|[c0 g0] rest]; [discriminate|];
         match type of HB with bind ?x _ = _ => destruct x; cbn [bind] in HB; discriminate end).
  destruct (f12_build_correct m M l groups HS HB) as (-> & FG & HV).
  split; [|exact HV]. eapply parse_write_f12; eauto. unfold u32. lia.
Qed.

(* format 0: the byte of every kept Mac Roman character maps to its glyph, other bytes to 0 *)
Theorem subset_format0_correct m (M : list (character * Z)) arr bytes :
  Forall (fun p => 0 <= char_code (fst p)) M -> NoDup (map fst M) ->
  Forall (fun p => 0 <= snd p <= 255) M ->
  f0_fill (repeat 0 256) M = Ok arr -> write_subtable m (F0 0 arr) = Ok bytes ->
  parse bytes = Ok (F0 0 arr) /\
  (forall u g, In (CUnicode u, g) M ->
     exists b, char_to_macroman u = Some b /\ glyph_of (map_glyph (F0 0 arr) b) = g) /\
  (forall b, 0 <= b -> (forall u g, In (CUnicode u, g) M -> char_to_macroman u <> Some b) ->
     glyph_of (map_glyph (F0 0 arr) b) = 0).
Proof.
  intros HP HN HG HF HW.
  destruct (f0_fill_spec M _ _ HP HF) as (L & U & A). rewrite repeat_length in L.
  assert (HR : Forall (fun g => 0 <= g <= 255) arr).
  { eapply f0_fill_range; [exact HG | | exact HF]. apply Forall_forall. intros x Hx. apply repeat_spec in Hx. lia. }
  assert (Hlen : len arr = 256) by (unfold len; lia).
  split; [eapply parse_write_f0; eauto; unfold u16; lia|]. split.
  - intros u g Hin. destruct (A _ _ Hin) as (u' & b & Heq & Hb). inversion Heq; subst u'.
    exists b. split; [exact Hb|].
    assert (Hu : 0 <= u).
    { rewrite Forall_forall in HP. apply (HP (CUnicode u, g) Hin). }
    destruct (macroman_chars_roundtrip u b Hu Hb) as [_ Hbr].
    pose proof (f0_fill_hit M _ _ HP HN HF u g b Hin Hb ltac:(rewrite repeat_length; lia)) as Hh.
    cbn [map_glyph]. unfold get. replace ((0 <=? b) && (b <? len arr)) with true by lia.
    rewrite (nth_error_nth' arr 0) by lia. cbn [glyph_of]. exact Hh.
  - intros b Hb Hno. cbn [map_glyph]. unfold get.
    destruct ((0 <=? b) && (b <? len arr)) eqn:E; [|reflexivity].
    rewrite (nth_error_nth' arr 0) by lia. cbn [glyph_of].
    rewrite (U (Z.to_nat b)).
    + apply nth_repeat_0.
    + intros u g Hin. rewrite Z2Nat.id by lia. eapply Hno; eauto.
Qed.

(* ------------------------------------------------------------------------------------------- *)
(* cmap table level: what Font::new selects in the written table and what Font::map_glyph returns *)

Lemma cmap_table_read m r sub st bytes :
  u16 (r_platform r) -> u16 (r_encoding r) ->
  write_subtable m (r_subtable r) = Ok sub -> parse sub = Ok st ->
  write_cmap m r = Ok bytes ->
  parse_cmap bytes = Ok [ {| er_platform := r_platform r; er_encoding := r_encoding r; er_offset := 12 |} ] /\
  forall code, font_map_glyph bytes 12 code = Ok (glyph_of (map_glyph st code)).
Proof.
  intros Hp He Hs HP HW. destruct (write_cmap_read m r bytes sub Hp He Hs HW) as [H1 H2].
  split; [exact H1|]. intros code. rewrite font_map_glyph_total, H2, HP. reflexivity.
Qed.

Lemma bind_ok_inv {A B} (x : outcome A) (f : A -> outcome B) b :
  bind x f = Ok b -> exists a, x = Ok a /\ f a = Ok b.
Proof. destruct x; cbn [bind]; intros H; try discriminate. eauto. Qed.

(* Unicode BMP (plane BMP, or the Mac Roman plane when a glyph id does not fit a byte) and symbol *)
Theorem build_cmap_format4 m M plane bytes :
  plane = XBmp \/ plane = XDivine \/ (plane = XMacRoman /\ forallb (fun p => snd p <=? 255) M = false) ->
  sorted_above (-1) (as_pairs M) ->
  build_cmap m M plane = Ok bytes ->
  charmap_info bytes = Ok (match plane with XDivine => ESymbol | _ => EUnicode end, 12) /\
  forall c, 0 <= c -> font_map_glyph bytes 12 c = Ok (lookup0 (as_pairs M) c).
Proof.
  intros Hpl HS HB. unfold build_cmap in HB. apply bind_ok_inv in HB. destruct HB as (r & HR & HW).
  assert (Hr : exists st pl en, f4_from_mappings m (as_pairs M) = Ok st /\
                 r = {| r_platform := pl; r_encoding := en; r_subtable := st |} /\
                 ((pl = 0 /\ en = 3 /\ plane <> XDivine) \/ (pl = 3 /\ en = 0 /\ plane = XDivine))).
  { unfold encoding_record_from_mappings in HR.
    destruct Hpl as [-> | [-> | [-> Hf]]]; [| |rewrite Hf in HR];
      apply bind_ok_inv in HR; destruct HR as (st & Hst & Heq); inversion Heq; subst r;
      exists st; eexists; eexists; (split; [exact Hst|]); (split; [reflexivity|]);
      try (left; repeat split; discriminate); right; repeat split; reflexivity. }
  destruct Hr as (st & pl & en & Hst & -> & Hpe).
  pose proof HW as HW'. unfold write_cmap in HW'. apply bind_ok_inv in HW'. destruct HW' as (sub & Hsub & _).
  cbn [r_subtable] in Hsub.
  destruct (subset_format4_correct m (as_pairs M) st sub HS Hst Hsub) as [HP HV].
  assert (Hu : u16 pl /\ u16 en) by (unfold u16; destruct Hpe as [(-> & -> & _) | (-> & -> & _)]; lia).
  destruct (cmap_table_read m {| r_platform := pl; r_encoding := en; r_subtable := st |} sub st bytes
              (proj1 Hu) (proj2 Hu) Hsub HP HW) as [HC HF].
  cbn [r_platform r_encoding] in HC. split.
  - unfold charmap_info. rewrite HC. cbn [bind].
    destruct Hpe as [(-> & -> & Hne) | (-> & -> & ->)].
    + replace (find_good_cmap_subtable [{| er_platform := 0; er_encoding := 3; er_offset := 12 |}])
        with (Some (EUnicode, {| er_platform := 0; er_encoding := 3; er_offset := 12 |})) by reflexivity.
      cbn [er_offset]. destruct plane; try reflexivity. contradiction.
    + reflexivity.
  - intros c Hc. rewrite HF. f_equal. apply HV. exact Hc.
Qed.

(* Unicode full repertoire *)
Theorem build_cmap_format12 m M bytes :
  sorted_above32 (-1) (as_pairs M) ->
  build_cmap m M XAstral = Ok bytes ->
  charmap_info bytes = Ok (EUnicode, 12) /\
  forall c, font_map_glyph bytes 12 c = Ok (lookup0 (as_pairs M) c).
Proof.
  intros HS HB. unfold build_cmap in HB. apply bind_ok_inv in HB. destruct HB as (r & HR & HW).
  unfold encoding_record_from_mappings in HR. apply bind_ok_inv in HR. destruct HR as (st & Hst & Heq).
  inversion Heq; subst r; clear Heq.
  pose proof HW as HW'. unfold write_cmap in HW'. apply bind_ok_inv in HW'. destruct HW' as (sub & Hsub & _).
  cbn [r_subtable] in Hsub.
  destruct (subset_format12_correct m (as_pairs M) st sub HS Hst Hsub) as [HP HV].
  assert (U0 : u16 0) by (unfold u16; lia). assert (U4 : u16 4) by (unfold u16; lia).
  destruct (cmap_table_read m {| r_platform := 0; r_encoding := 4; r_subtable := st |} sub st bytes U0 U4 Hsub HP HW) as [HC HF].
  cbn [r_platform r_encoding] in HC. split.
  - unfold charmap_info. rewrite HC. reflexivity.
  - intros c. rewrite HF, HV. reflexivity.
Qed.

(* Mac Roman byte table *)
Theorem build_cmap_format0 m M bytes :
  Forall (fun p => 0 <= char_code (fst p)) M -> NoDup (map fst M) ->
  Forall (fun p => 0 <= snd p <= 255) M ->
  build_cmap m M XMacRoman = Ok bytes ->
  charmap_info bytes = Ok (EAppleRoman, 12) /\
  (forall u g, In (CUnicode u, g) M ->
     exists b, char_to_macroman u = Some b /\ font_map_glyph bytes 12 b = Ok g) /\
  (forall b, 0 <= b -> (forall u g, In (CUnicode u, g) M -> char_to_macroman u <> Some b) ->
     font_map_glyph bytes 12 b = Ok 0).
Proof.
  intros HP HN HG HB. unfold build_cmap in HB. apply bind_ok_inv in HB. destruct HB as (r & HR & HW).
  unfold encoding_record_from_mappings in HR.
  assert (Hall : forallb (fun p : character * Z => snd p <=? 255) M = true).
  { apply forallb_forall. intros p Hp. rewrite Forall_forall in HG. specialize (HG p Hp). lia. }
  rewrite Hall in HR. apply bind_ok_inv in HR. destruct HR as (arr & Harr & Heq).
  inversion Heq; subst r; clear Heq.
  pose proof HW as HW'. unfold write_cmap in HW'. apply bind_ok_inv in HW'. destruct HW' as (sub & Hsub & _).
  cbn [r_subtable] in Hsub.
  destruct (subset_format0_correct m M arr sub HP HN HG Harr Hsub) as (HPs & HV1 & HV2).
  assert (U1 : u16 1) by (unfold u16; lia). assert (U0 : u16 0) by (unfold u16; lia).
  destruct (cmap_table_read m {| r_platform := 1; r_encoding := 0; r_subtable := F0 0 arr |} sub (F0 0 arr) bytes U1 U0 Hsub HPs HW) as [HC HF].
  cbn [r_platform r_encoding] in HC. split; [|split].
  - unfold charmap_info. rewrite HC. reflexivity.
  - intros u g Hin. destruct (HV1 u g Hin) as (b & Hb & Hg). exists b. split; [exact Hb|]. rewrite HF, Hg. reflexivity.
  - intros b Hb Hno. rewrite HF, (HV2 b Hb Hno). reflexivity.
Qed.
