(* Proofs/VariationTags.v — property C12, part e: the tag predicate is_var_table (regenerated from
   the source), the set of tables of the instance, and the MVAR value-tag table against the
   OpenType specification's table. *)
From AV Require Import Base.Prelude Base.Lemmas Gen.VariationConsts Model.Variation.
From Coq Require Import Lia String Ascii.
Local Open Scope Z_scope.

(* a tag as the big-endian value of its four bytes *)
Definition tag_of_bytes (b0 b1 b2 b3 : Z) : Z := ((b0 * 256 + b1) * 256 + b2) * 256 + b3.
Definition chr (c : ascii) : Z := Z.of_N (N_of_ascii c).

Definition ends_in_var (tag : Z) : Prop :=
  tag mod 2 ^ 24 = tag_of_bytes 0 (chr "v") (chr "a") (chr "r") \/
  tag mod 2 ^ 24 = tag_of_bytes 0 (chr "V") (chr "A") (chr "R").

Lemma is_var_table_spec tag : 0 <= tag -> (is_var_table tag = true <-> ends_in_var tag).
Proof.
  intros H. unfold is_var_table, ends_in_var.
  change VAR_MASK with (Z.ones 24). rewrite Z.land_ones by lia.
  change (tag_of_bytes 0 (chr "v") (chr "a") (chr "r")) with VAR_LOWER.
  change (tag_of_bytes 0 (chr "V") (chr "A") (chr "R")) with VAR_UPPER.
  rewrite orb_true_iff, !Z.eqb_eq. reflexivity.
Qed.

(* in terms of the bytes of the tag *)
Lemma is_var_table_bytes b0 b1 b2 b3 :
  0 <= b0 < 256 -> 0 <= b1 < 256 -> 0 <= b2 < 256 -> 0 <= b3 < 256 ->
  (is_var_table (tag_of_bytes b0 b1 b2 b3) = true <->
   (b1 = chr "v" /\ b2 = chr "a" /\ b3 = chr "r") \/ (b1 = chr "V" /\ b2 = chr "A" /\ b3 = chr "R")).
Proof.
  intros H0 H1 H2 H3. rewrite is_var_table_spec by (unfold tag_of_bytes; lia).
  unfold ends_in_var.
  assert (E : tag_of_bytes b0 b1 b2 b3 mod 2 ^ 24 = tag_of_bytes 0 b1 b2 b3).
  { unfold tag_of_bytes. symmetry. apply Z.mod_unique with (q := b0); [change (2 ^ 24) with 16777216; lia|change (2 ^ 24) with 16777216; lia]. }
  rewrite E. unfold tag_of_bytes.
  change (chr "v") with 118. change (chr "a") with 97. change (chr "r") with 114.
  change (chr "V") with 86. change (chr "A") with 65. change (chr "R") with 82.
  lia.
Qed.

(* ---------------------------------------------------------------------------------------- *)
(* the tables of the instance *)

Lemma built_and_fixed_tags_static :
  forallb (fun t => negb (is_var_table t)) (BUILT_TAGS ++ [TAG_HEAD; TAG_GLYF; TAG_LOCA]) = true.
Proof. vm_compute. reflexivity. Qed.

(* no table of the instance has a tag ending in var / VAR, whatever tables the source font has *)
Lemma output_tags_static built source_tags glyf_font t :
  incl built BUILT_TAGS -> In t (output_tags built source_tags glyf_font) -> is_var_table t = false.
Proof.
  intros Hb Hin. pose proof built_and_fixed_tags_static as F. rewrite forallb_forall in F.
  assert (Fix : forall x, In x (BUILT_TAGS ++ [TAG_HEAD; TAG_GLYF; TAG_LOCA]) -> is_var_table x = false).
  { intros x Hx. apply negb_true_iff. apply F. exact Hx. }
  unfold output_tags in Hin. apply in_app_or in Hin as [Hin|Hin].
  - apply Fix. apply in_or_app. left. apply Hb. exact Hin.
  - apply in_app_or in Hin as [Hin|Hin].
    + apply filter_In in Hin as [_ Hc]. apply andb_true_iff in Hc as [Hc _]. apply andb_true_iff in Hc as [_ Hc].
      apply negb_true_iff. exact Hc.
    + apply Fix. apply in_or_app. right. apply in_app_or in Hin as [Hin|Hin].
      * destruct Hin as [<-|[]]. left. reflexivity.
      * destruct glyf_font; [|destruct Hin]. destruct Hin as [<-|[<-|[]]]; [right; left; reflexivity|right; right; left; reflexivity].
Qed.

(* every non-variation table of the source is carried over (copied, or rebuilt under the same tag) *)
Lemma output_tags_keep built source_tags glyf_font t :
  In t source_tags -> is_var_table t = false -> is_postponed t = false ->
  In t (output_tags built source_tags glyf_font).
Proof.
  intros Hs Hv Hp. unfold output_tags.
  destruct (existsb (Z.eqb t) built) eqn:E.
  - apply existsb_exists in E as (x & Hx & Ex). apply Z.eqb_eq in Ex. subst x. apply in_or_app. left. exact Hx.
  - apply in_or_app. right. apply in_or_app. left. apply filter_In. split; [exact Hs|].
    rewrite Hp, Hv, E. reflexivity.
Qed.

(* the variation tables themselves are among those dropped *)
Example variation_tables_dropped :
  map is_var_table [tag_of_bytes (chr "f") (chr "v") (chr "a") (chr "r"); tag_of_bytes (chr "g") (chr "v") (chr "a") (chr "r");
                    tag_of_bytes (chr "a") (chr "v") (chr "a") (chr "r"); tag_of_bytes (chr "c") (chr "v") (chr "a") (chr "r");
                    tag_of_bytes (chr "H") (chr "V") (chr "A") (chr "R"); tag_of_bytes (chr "M") (chr "V") (chr "A") (chr "R");
                    tag_of_bytes (chr "V") (chr "V") (chr "A") (chr "R")]
  = [true; true; true; true; true; true; true].
Proof. vm_compute. reflexivity. Qed.

(* ---------------------------------------------------------------------------------------- *)
(* MVAR: value tags and the fields they control, from the OpenType specification ("Value tags") *)

Definition tag4 (s : string) : Z :=
  match s with
  | String a (String b (String c (String d EmptyString))) => tag_of_bytes (chr a) (chr b) (chr c) (chr d)
  | _ => 0
  end.

Definition MVAR_SPEC : list (Z * (mvar_field * mvar_field * mvar_kind)) :=
  let same (f : mvar_field) (k : mvar_kind) := (f, f, k) in
  [ (tag4 "hasc", same F_os2_version0_v0_s_typo_ascender KI16)        (* OS/2.sTypoAscender *)
  ; (tag4 "hdsc", same F_os2_version0_v0_s_typo_descender KI16)       (* OS/2.sTypoDescender *)
  ; (tag4 "hlgp", same F_os2_version0_v0_s_typo_line_gap KI16)        (* OS/2.sTypoLineGap *)
  ; (tag4 "hcla", same F_os2_version0_v0_us_win_ascent KU16)          (* OS/2.usWinAscent (unsigned) *)
  ; (tag4 "hcld", same F_os2_version0_v0_us_win_descent KU16)         (* OS/2.usWinDescent (unsigned) *)
  ; (tag4 "vasc", same F_vhea_vhea_ascender KI16)                     (* vhea.ascent *)
  ; (tag4 "vdsc", same F_vhea_vhea_descender KI16)                    (* vhea.descent *)
  ; (tag4 "vlgp", same F_vhea_vhea_line_gap KI16)                     (* vhea.lineGap *)
  ; (tag4 "hcrs", same F_hhea_caret_slope_rise KI16)                  (* hhea.caretSlopeRise *)
  ; (tag4 "hcrn", same F_hhea_caret_slope_run KI16)                   (* hhea.caretSlopeRun *)
  ; (tag4 "hcof", same F_hhea_caret_offset KI16)                      (* hhea.caretOffset *)
  ; (tag4 "vcrs", same F_vhea_vhea_caret_slope_rise KI16)             (* vhea.caretSlopeRise *)
  ; (tag4 "vcrn", same F_vhea_vhea_caret_slope_run KI16)              (* vhea.caretSlopeRun *)
  ; (tag4 "vcof", same F_vhea_vhea_caret_offset KI16)                 (* vhea.caretOffset *)
  ; (tag4 "xhgt", same F_os2_version2to4_version_sx_height KI16)      (* OS/2.sxHeight *)
  ; (tag4 "cpht", same F_os2_version2to4_version_s_cap_height KI16)   (* OS/2.sCapHeight *)
  ; (tag4 "sbxs", same F_os2_y_subscript_x_size KI16)                 (* OS/2.ySubscriptXSize *)
  ; (tag4 "sbys", same F_os2_y_subscript_y_size KI16)                 (* OS/2.ySubscriptYSize *)
  ; (tag4 "sbxo", same F_os2_y_subscript_x_offset KI16)               (* OS/2.ySubscriptXOffset *)
  ; (tag4 "sbyo", same F_os2_y_subscript_y_offset KI16)               (* OS/2.ySubscriptYOffset *)
  ; (tag4 "spxs", same F_os2_y_superscript_x_size KI16)               (* OS/2.ySuperscriptXSize *)
  ; (tag4 "spys", same F_os2_y_superscript_y_size KI16)               (* OS/2.ySuperscriptYSize *)
  ; (tag4 "spxo", same F_os2_y_superscript_x_offset KI16)             (* OS/2.ySuperscriptXOffset *)
  ; (tag4 "spyo", same F_os2_y_superscript_y_offset KI16)             (* OS/2.ySuperscriptYOffset *)
  ; (tag4 "strs", same F_os2_y_strikeout_size KI16)                   (* OS/2.yStrikeoutSize *)
  ; (tag4 "stro", same F_os2_y_strikeout_position KI16)               (* OS/2.yStrikeoutPosition *)
  ; (tag4 "unds", same F_post_header_underline_thickness KI16)        (* post.underlineThickness *)
  ; (tag4 "undo", same F_post_header_underline_position KI16)         (* post.underlinePosition *)
  ].

(* process_mvar's arms, as regenerated from the source, are exactly the specification's table:
   every value tag writes the field the specification names, reads the same field, with the
   signedness of that field *)
Lemma mvar_table_is_spec : MVAR_TABLE = MVAR_SPEC.
Proof. vm_compute. reflexivity. Qed.

Lemma mvar_target_spec tag r : mvar_target tag = Some r <-> assoc_tag tag MVAR_SPEC = Some r.
Proof. unfold mvar_target. rewrite mvar_table_is_spec. reflexivity. Qed.

(* the gasp range tags are known and deliberately ignored *)
Lemma mvar_ignored_are_gasp :
  MVAR_IGNORED = map tag4 ["gsp0"; "gsp1"; "gsp2"; "gsp3"; "gsp4"; "gsp5"; "gsp6"; "gsp7"; "gsp8"; "gsp9"]%string.
Proof. vm_compute. reflexivity. Qed.
