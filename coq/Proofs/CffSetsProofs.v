(* Proofs/CffSetsProofs.v — cvt, CFF custom charsets, FDSelect and custom encodings: reading
   the written bytes gives the value back (property C15), for every value within format limits,
   on any cursor, whatever follows.  The range formats of the charset are read with a peeking
   loop that counts ranges until n_glyphs - 1 glyphs are covered: the round trip holds exactly for
   range lists that cover n_glyphs - 1 with their last range (`covers`), and `charset_ranges_excess_dropped`
   shows what happens otherwise (the writer does not check it). *)
From AV Require Import Base.Prelude Base.Lemmas Gen.ReaderPrims Model.Reader Model.ReaderExt
  Proofs.ReaderProofs Proofs.EncodeProofs Model.TableLayout Proofs.TableLayoutProofs Proofs.RecordProofs
  Gen.TableLayouts Model.Tables Proofs.TableProofs Proofs.ArrayTableProofs Proofs.GlyphProofs Proofs.RefusalProofs
  Model.CffSets.
From Coq Require Import ZifyBool ZifyNat.
Ltac Zify.zify_post_hook ::= Z.div_mod_to_equations.
Open Scope Z_scope.

Lemma write_rec_enc t : forall vs, write_rec t vs = enc_rec t vs.
Proof. reflexivity. Qed.

Lemma write_recs_enc t recs : write_recs t recs = enc_recs t recs.
Proof. reflexivity. Qed.

Lemma size_ok t : (0 <? ty_size t) && (ty_size t <? 1000) = true -> 0 < ty_size t < USIZE.
Proof. unfold USIZE. lia. Qed.

(* ---------- cvt *)
Definition i16_ok (v : Z) : Prop := -32768 <= v <= 32767.

Lemma i16_recs vs : Forall i16_ok vs -> Forall (rec_ok [PI16]) (map (fun v => [v]) vs).
Proof.
  intros H. rewrite Forall_map. eapply Forall_impl; [|exact H]. intros v Hv. cbn [rec_ok]. split; [|exact I].
  unfold i16_ok in Hv. unfold prim_in_range. cbn. lia.
Qed.

Theorem cvt_roundtrip vs rest c :
  Forall i16_ok vs -> cgood c -> at_bytes c (cvt_write vs ++ rest) ->
  exists c', cvt_read c (2 * len vs) = Ok (vs, c') /\ advanced c c' rest.
Proof.
  intros Hv Hg Hat. unfold cvt_write in Hat. rewrite write_recs_enc in Hat.
  destruct (read_records_layout [PI16] c _ rest Hg (size_ok [PI16] eq_refl) (i16_recs vs Hv) Hat) as [c1 [E A]].
  rewrite len_map in E. unfold cvt_read. pose proof (len_nonneg vs).
  replace (2 * len vs mod 2 =? 0) with true by lia. replace (2 * len vs / 2) with (len vs) by lia.
  rewrite E. cbn [bind]. cbv beta iota. exists c1. split; [|exact A].
  rewrite map_map. cbn [hd]. rewrite map_id. reflexivity.
Qed.

Theorem cvt_odd_length_refused c l : l mod 2 <> 0 -> cvt_read c l = Err BadValue.
Proof. intros H. unfold cvt_read. replace (l mod 2 =? 0) with false by lia. reflexivity. Qed.

Theorem cvt_write_length vs : len (cvt_write vs) = 2 * len vs.
Proof.
  unfold cvt_write, write_recs. induction vs as [|v r IH]; [reflexivity|].
  cbn [map concat]. rewrite len_app, IH, len_cons. cbn [write_rec]. rewrite app_nil_r, len_write_prim. change (spec_size PI16) with 2. lia.
Qed.

(* ---------- the peeking cursor of read_range_array *)
Lemma peek_good c bs : cgood c -> at_bytes c bs ->
  exists s, ctxt_scope Debug c = Ok s /\ cgood (ctxt_new s) /\ at_bytes (ctxt_new s) bs /\ dlen s = len bs.
Proof.
  intros [[Hc Hs] [Hb [Hb0 Hb1]]] Hat. unfold at_bytes in Hat. unfold sinv in Hs. unfold dlen in *.
  unfold ctxt_scope, scope_offset, wadd. cbn [bind]. eexists. split; [reflexivity|].
  rewrite slice_from_drop by lia. rewrite Hat.
  assert (len bs = len (data (sc c)) - off c) as Hl by (rewrite <- Hat; apply len_drop; lia).
  assert (bytes_ok bs = true) as Hbb by (rewrite <- Hat; apply bytes_ok_drop; exact Hb).
  unfold cgood, cinv, sinv, at_bytes, dlen, ctxt_new; cbn [sc off data base].
  rewrite drop_0. rewrite Z.mod_small by lia. pose proof (len_nonneg bs). repeat split; try lia; assumption.
Qed.

(* the ranges cover n with their last element and not before *)
Fixpoint covers (recs : list (list Z)) (covered n : Z) : Prop :=
  match recs with
  | [] => n <= covered
  | r :: rest => covered < n /\ covers rest (covered + range_len r) n
  end.

Lemma count_ranges_covers t : forall recs fuel p covered n count rest,
  cgood p -> Forall (rec_ok t) recs -> at_bytes p (enc_recs t recs ++ rest) ->
  covers recs covered n -> (length recs <= fuel)%nat ->
  count_ranges fuel t p covered n count = Ok (count + len recs).
Proof.
  induction recs as [|r recs IH]; intros fuel p covered n count rest Hg Hok Hat Hcov Hf.
  - cbn [covers] in Hcov. destruct fuel; cbn [count_ranges]; replace (covered <? n) with false by lia;
      change (len (@nil (list Z))) with 0; rewrite Z.add_0_r; reflexivity.
  - cbn [covers] in Hcov. destruct Hcov as [Hlt Hcov]. inversion Hok as [|? ? Hr Hrs]; subst.
    destruct fuel as [|f]; [cbn in Hf; lia|]. cbn [count_ranges]. replace (covered <? n) with true by lia.
    unfold enc_recs in Hat. cbn [map concat] in Hat. rewrite <- app_assoc in Hat.
    destruct (read_ty_layout t p r _ Hg Hr Hat) as [p1 [E [Hg1 [_ Hat1]]]].
    rewrite E. cbn [bind]. cbv beta iota.
    rewrite (IH f p1 _ n (count + 1) rest Hg1 Hrs Hat1 Hcov ltac:(cbn in Hf; lia)).
    rewrite len_cons. f_equal. lia.
Qed.

Theorem read_range_array_roundtrip t recs n rest c :
  (0 <? ty_size t) && (ty_size t <? 1000) = true ->
  Forall (rec_ok t) recs -> covers recs 0 n ->
  cgood c -> at_bytes c (enc_recs t recs ++ rest) ->
  exists c', read_range_array t c n = Ok (recs, c') /\ advanced c c' rest.
Proof.
  intros Ht Hok Hcov Hg Hat. destruct (peek_good c _ Hg Hat) as [s [Es [Hgs [Hats Hl]]]].
  unfold read_range_array. rewrite Es. cbn [bind].
  rewrite (count_ranges_covers t recs _ (ctxt_new s) 0 n 0 rest Hgs Hok Hats Hcov).
  - cbn [bind]. rewrite Z.add_0_l. apply read_records_layout; try assumption. apply size_ok; exact Ht.
  - rewrite Hl, len_app, (len_enc_recs t recs Hok). pose proof (len_nonneg rest). pose proof (len_nonneg recs).
    unfold len in *. nia.
Qed.

(* ---------- charset *)
Definition charset_ok (cs : charset) (n_glyphs : Z) : Prop :=
  1 <= n_glyphs /\ Forall (rec_ok (charset_ty (fst cs))) (snd cs) /\
  ((fst cs = 0 /\ len (snd cs) = n_glyphs - 1) \/
   ((fst cs = 1 \/ fst cs = 2) /\ covers (snd cs) 0 (n_glyphs - 1))).

Theorem charset_roundtrip cs n_glyphs rest c :
  charset_ok cs n_glyphs -> cgood c -> at_bytes c (charset_write cs ++ rest) ->
  exists c', charset_read c n_glyphs = Ok (cs, c') /\ advanced c c' rest.
Proof.
  destruct cs as [fmt recs]. intros [Hn [Hok Hshape]] Hg Hat. cbn [fst snd] in *.
  unfold charset_write in Hat. cbn [fst snd] in Hat. rewrite write_recs_enc, <- app_assoc in Hat.
  assert (prim_in_range PU8 fmt = true) as Hf by (unfold prim_in_range; cbn; lia).
  destruct (read_prim_layout PU8 c fmt _ Hg Hf Hat) as [c1 [E1 [Hg1 [Hs1 Hat1]]]].
  unfold charset_read. replace (n_glyphs <? 1) with false by lia. rewrite E1. cbn [bind]. cbv beta iota.
  destruct Hshape as [[-> Hlen] | [[-> | ->] Hcov]].
  - cbn [Z.eqb]. rewrite <- Hlen.
    destruct (read_records_layout _ c1 recs rest Hg1 (size_ok (charset_ty 0) eq_refl) Hok Hat1) as [c2 [E2 [Hg2 [Hs2 Hat2]]]].
    rewrite E2. cbn [bind]. cbv beta iota. exists c2. split; [reflexivity|].
    split; [exact Hg2|]. split; [congruence|exact Hat2].
  - cbn [Z.eqb].
    destruct (read_range_array_roundtrip (charset_ty 1) recs _ rest c1 eq_refl Hok Hcov Hg1 Hat1) as [c2 [E2 [Hg2 [Hs2 Hat2]]]].
    rewrite E2. cbn [bind]. cbv beta iota. exists c2. split; [reflexivity|].
    split; [exact Hg2|]. split; [congruence|exact Hat2].
  - cbn [Z.eqb].
    destruct (read_range_array_roundtrip (charset_ty 2) recs _ rest c1 eq_refl Hok Hcov Hg1 Hat1) as [c2 [E2 [Hg2 [Hs2 Hat2]]]].
    rewrite E2. cbn [bind]. cbv beta iota. exists c2. split; [reflexivity|].
    split; [exact Hg2|]. split; [congruence|exact Hat2].
Qed.

(* what the reader does with a range list that covers n_glyphs - 1 before its last range: it stops
   early, i.e. the surplus ranges are not read back (the writer writes them without a check) *)
Theorem charset_ranges_excess_dropped t recs extra n rest c :
  (0 <? ty_size t) && (ty_size t <? 1000) = true ->
  Forall (rec_ok t) recs -> covers recs 0 n ->
  cgood c -> at_bytes c (enc_recs t (recs ++ extra) ++ rest) ->
  exists c', read_range_array t c n = Ok (recs, c') /\ advanced c c' (enc_recs t extra ++ rest).
Proof.
  intros Ht Hok Hcov Hg Hat. apply read_range_array_roundtrip; try assumption.
  unfold enc_recs in *. rewrite map_app, concat_app, <- app_assoc in Hat. exact Hat.
Qed.

(* a zero-glyph charset is refused, and formats above 2 are BadValue *)
Theorem charset_zero_glyphs_refused c : charset_read c 0 = Err BadValue.
Proof. reflexivity. Qed.

(* the glyph -> id function of a covering range list: glyph g (1-based inside the ranges) is
   first + (g - glyphs before the range - 1); stated for the first range and by shifting *)
Lemma id_in_ranges_first r rest covered gid :
  covered < gid <= covered + range_len r -> nthZ r 0 + (gid - covered - 1) <= 65535 ->
  id_in_ranges (r :: rest) covered gid = Some (nthZ r 0 + (gid - covered - 1)).
Proof.
  intros Hg Hv. cbn [id_in_ranges]. replace (gid <=? covered + range_len r) with true by lia.
  replace (nthZ r 0 + (gid - covered - 1) <=? 65535) with true by lia. reflexivity.
Qed.
Lemma id_in_ranges_skip r rest covered gid :
  covered + range_len r < gid -> id_in_ranges (r :: rest) covered gid = id_in_ranges rest (covered + range_len r) gid.
Proof. intros Hg. cbn [id_in_ranges]. replace (gid <=? covered + range_len r) with false by lia. reflexivity. Qed.

(* ---------- FDSelect *)
Definition fdselect_ok (f : fdselect) (n_glyphs : Z) : Prop :=
  (fs_fmt f = 0 /\ fs_sentinel f = 0 /\ Forall (rec_ok [PU8]) (fs_recs f) /\ len (fs_recs f) = n_glyphs) \/
  (fs_fmt f = 3 /\ Forall (rec_ok fd_range_ty) (fs_recs f) /\ prim_in_range PU16 (fs_sentinel f) = true).

Theorem fdselect_roundtrip f n_glyphs b rest c :
  fdselect_ok f n_glyphs -> fdselect_write f = Ok b -> cgood c -> at_bytes c (b ++ rest) ->
  exists c', fdselect_read c n_glyphs = Ok (f, c') /\ advanced c c' rest.
Proof.
  destruct f as [fmt recs sent]. unfold fdselect_ok. cbn [fs_fmt fs_recs fs_sentinel].
  intros [[-> [-> [Hok Hlen]]] | [-> [Hok Hs]]] Hw Hg Hat; unfold fdselect_write in Hw; cbn [fs_fmt fs_recs fs_sentinel Z.eqb] in Hw.
  - apply Ok_inj_g in Hw. subst b. rewrite write_recs_enc, <- app_assoc in Hat.
    destruct (read_prim_layout PU8 c 0 _ Hg eq_refl Hat) as [c1 [E1 [Hg1 [Hs1 Hat1]]]].
    unfold fdselect_read. rewrite E1. cbn [bind]. cbv beta iota. cbn [Z.eqb]. rewrite <- Hlen.
    destruct (read_records_layout _ c1 recs rest Hg1 (size_ok [PU8] eq_refl) Hok Hat1) as [c2 [E2 [Hg2 [Hs2 Hat2]]]].
    rewrite E2. cbn [bind]. cbv beta iota. exists c2. split; [reflexivity|].
    split; [exact Hg2|]. split; [congruence|exact Hat2].
  - destruct (try_u16 (len recs)) as [n| | |] eqn:En; try discriminate. destruct (try_u16_ok _ _ En) as [-> Hn].
    cbn [bind] in Hw. apply Ok_inj_g in Hw. subst b. rewrite write_recs_enc in Hat. rewrite <- !app_assoc in Hat.
    destruct (read_prim_layout PU8 c 3 _ Hg eq_refl Hat) as [c1 [E1 [Hg1 [Hs1 Hat1]]]].
    assert (prim_in_range PU16 (len recs) = true) as Hnr by (unfold prim_in_range; cbn; lia).
    destruct (read_prim_layout PU16 c1 _ _ Hg1 Hnr Hat1) as [c2 [E2 [Hg2 [Hs2 Hat2]]]].
    destruct (read_records_layout _ c2 recs _ Hg2 (size_ok fd_range_ty eq_refl) Hok Hat2) as [c3 [E3 [Hg3 [Hs3 Hat3]]]].
    destruct (read_prim_layout PU16 c3 sent rest Hg3 Hs Hat3) as [c4 [E4 [Hg4 [Hs4 Hat4]]]].
    unfold fdselect_read. rewrite E1. cbn [bind]. cbv beta iota. cbn [Z.eqb].
    rewrite E2. cbn [bind]. cbv beta iota. rewrite E3. cbn [bind]. cbv beta iota. rewrite E4. cbn [bind]. cbv beta iota.
    exists c4. split; [reflexivity|]. split; [exact Hg4|]. split; [congruence|exact Hat4].
Qed.

(* refusal: more than 65535 ranges do not fit the nRanges field and are not written truncated *)
Theorem fdselect_too_many_ranges_refused f :
  fs_fmt f <> 0 ->
  match fdselect_write f with
  | Ok b => len (fs_recs f) <= 65535
  | Err e => e = BadValue /\ 65535 < len (fs_recs f)
  | _ => False
  end.
Proof.
  intros Hf. unfold fdselect_write. replace (fs_fmt f =? 0) with false by lia.
  unfold try_u16. pose proof (len_nonneg (fs_recs f)).
  destruct ((0 <=? len (fs_recs f)) && (len (fs_recs f) <=? 65535)) eqn:E; cbn [bind]; [lia | split; [reflexivity | lia]].
Qed.

Theorem fdselect_format4_not_implemented c rest :
  cgood c -> at_bytes c (write_prim PU8 4 ++ rest) -> exists e, fdselect_read c 0 = Err e /\ e = NotImplemented.
Proof.
  intros Hg Hat. destruct (read_prim_layout PU8 c 4 _ Hg eq_refl Hat) as [c1 [E1 _]].
  unfold fdselect_read. rewrite E1. cbn [bind]. cbv beta iota. cbn [Z.eqb]. eexists. split; reflexivity.
Qed.

(* ---------- custom encodings *)
Definition encoding_ok (e : encoding) : Prop :=
  (fst e = 0 \/ fst e = 1) /\ Forall (rec_ok (encoding_ty (fst e))) (snd e).

Lemma try_u8_ok v r : try_u8 v = Ok r -> r = v /\ 0 <= v <= 255.
Proof. unfold try_u8. destruct ((0 <=? v) && (v <=? 255)) eqn:E; [|discriminate]. intros H; injection H as <-. lia. Qed.

Theorem encoding_roundtrip e b rest c :
  encoding_ok e -> encoding_write e = Ok b -> cgood c -> at_bytes c (b ++ rest) ->
  exists c', encoding_read c = Ok (e, c') /\ advanced c c' rest.
Proof.
  destruct e as [fmt recs]. intros [Hfmt Hok] Hw Hg Hat. cbn [fst snd] in *.
  unfold encoding_write in Hw. cbn [fst snd] in Hw.
  destruct (try_u8 (len recs)) as [n| | |] eqn:En; try discriminate. destruct (try_u8_ok _ _ En) as [-> Hn].
  cbn [bind] in Hw. apply Ok_inj_g in Hw. subst b. rewrite write_recs_enc in Hat. rewrite <- !app_assoc in Hat.
  assert (prim_in_range PU8 fmt = true) as Hf by (unfold prim_in_range; cbn; lia).
  destruct (read_prim_layout PU8 c fmt _ Hg Hf Hat) as [c1 [E1 [Hg1 [Hs1 Hat1]]]].
  assert (prim_in_range PU8 (len recs) = true) as Hnr by (unfold prim_in_range; cbn; lia).
  destruct (read_prim_layout PU8 c1 _ _ Hg1 Hnr Hat1) as [c2 [E2 [Hg2 [Hs2 Hat2]]]].
  assert ((0 <? ty_size (encoding_ty fmt)) && (ty_size (encoding_ty fmt) <? 1000) = true) as Hsz
    by (destruct Hfmt as [-> | ->]; reflexivity).
  destruct (read_records_layout _ c2 recs rest Hg2 (size_ok _ Hsz) Hok Hat2) as [c3 [E3 [Hg3 [Hs3 Hat3]]]].
  unfold encoding_read. rewrite E1. cbn [bind]. cbv beta iota.
  replace ((fmt =? 0) || (fmt =? 1)) with true by lia.
  rewrite E2. cbn [bind]. cbv beta iota. rewrite E3. cbn [bind]. cbv beta iota.
  exists c3. split; [reflexivity|]. split; [exact Hg3|]. split; [congruence|exact Hat3].
Qed.

Theorem encoding_too_many_refused e :
  match encoding_write e with
  | Ok b => len (snd e) <= 255
  | Err x => x = BadValue /\ 255 < len (snd e)
  | _ => False
  end.
Proof.
  unfold encoding_write, try_u8. pose proof (len_nonneg (snd e)).
  destruct ((0 <=? len (snd e)) && (len (snd e) <=? 255)) eqn:E; cbn [bind]; [lia | split; [reflexivity | lia]].
Qed.

(* a supplemented encoding (high bit of the format byte) is NotImplemented, other formats BadValue *)
Theorem encoding_supplement_not_implemented c fmt rest :
  cgood c -> 128 <= fmt <= 255 -> at_bytes c (write_prim PU8 fmt ++ rest) ->
  encoding_read c = Err NotImplemented.
Proof.
  intros Hg Hf Hat.
  assert (prim_in_range PU8 fmt = true) as Hr by (unfold prim_in_range; cbn; lia).
  destruct (read_prim_layout PU8 c fmt _ Hg Hr Hat) as [c1 [E1 _]].
  unfold encoding_read. rewrite E1. cbn [bind]. cbv beta iota.
  replace ((fmt =? 0) || (fmt =? 1)) with false by lia.
  assert (Z.land fmt 128 = 128) as Hl.
  { assert (forallb (fun f => Z.land f 128 =? 128) (range 128 128%nat) = true) as Hall by (vm_compute; reflexivity).
    rewrite forallb_forall in Hall. specialize (Hall fmt). apply Z.eqb_eq. apply Hall. apply range_In. lia. }
  rewrite Hl. reflexivity.
Qed.
