(* Proofs/GlyfLocaProofs.v — C16, "for every glyph in a glyf table": the loca table written by any
   conforming font compiler (short or long format) is read back exactly, GlyfTable::read_dep cuts the
   glyf table into exactly the records it was laid out from, and visiting a glyph through both tables
   is visiting that record. *)
From AV Require Import Base.Prelude Base.Lemmas Gen.GlyfConsts Gen.LocaConsts Model.GlyfSpec Model.GlyfOutline
     Model.GlyfLoca Proofs.GlyfContourProofs Proofs.GlyfDecodeProofs Proofs.GlyfCompositeProofs
     Proofs.GlyfGlyphProofs.
From Coq Require Import QArith ZifyBool ZifyNat.
Ltac Zify.zify_post_hook ::= Z.div_mod_to_equations.
Open Scope Z_scope.

(* ---- the offsets of a layout ---- *)

Lemma offsets_of_head gs s : exists tl, offsets_of s gs = s :: tl.
Proof. destruct gs; cbn [offsets_of]; eauto. Qed.

Lemma offsets_of_length : forall gs s, length (offsets_of s gs) = S (length gs).
Proof. induction gs as [|g r IH]; intros s; cbn [offsets_of length]; [reflexivity|rewrite IH; reflexivity]. Qed.

Lemma offsets_of_len gs s : len (offsets_of s gs) = len gs + 1.
Proof. unfold len. rewrite offsets_of_length. lia. Qed.

(* ---- reading the loca table back ---- *)

Lemma be32_value v : 0 <= v < 4294967296 ->
  ((v / 16777216 mod 256 * 256 + v / 65536 mod 256) * 256 + v / 256 mod 256) * 256 + v mod 256 = v.
Proof. intros H. lia. Qed.

Lemma u32s_be32 : forall l r, Forall (fun v => 0 <= v < 4294967296) l ->
  u32s (length l) (flat_map be32 l ++ r) = l.
Proof.
  induction l as [|v l IH]; intros r H; [reflexivity|].
  inversion H; subst. cbn [length flat_map]. rewrite <- app_assoc. unfold be32 at 1. cbn [app u32s].
  f_equal; [apply be32_value; assumption|]. apply IH. assumption.
Qed.

Lemma flat_be32_length l : length (flat_map be32 l) = (4 * length l)%nat.
Proof. induction l as [|v l IH]; [reflexivity|]. cbn [flat_map]. rewrite app_length, IH. cbn [be32 length]. lia. Qed.

Lemma flat_map_be16_half offs :
  flat_map (fun o => be16 (o / 2)) offs = flat_map be16 (map (fun o => o / 2) offs).
Proof. induction offs as [|o r IH]; [reflexivity|]. cbn [flat_map map]. rewrite IH. reflexivity. Qed.

Lemma loca_offsets_encode fmt offs rest :
  offs <> [] -> forallb (offset_legal fmt) offs = true ->
  loca_offsets fmt (len offs - 1) (encode_loca fmt offs ++ rest) = Ok offs.
Proof.
  intros Hne Hl. unfold loca_offsets. replace (len offs - 1 + 1) with (len offs) by lia.
  rewrite forallb_forall in Hl.
  destruct fmt; cbn [encode_loca].
  - rewrite flat_map_be16_half.
    rewrite rd_slice_app by (unfold len; rewrite flat_be16_length, map_length; lia). cbn [bind].
    f_equal. unfold len. rewrite Nat2Z.id.
    rewrite <- (map_length (fun o => o / 2) offs).
    rewrite <- (app_nil_r (flat_map be16 (map (fun o : Z => o / 2) offs))).
    rewrite u16s_be16.
    + rewrite map_map. rewrite <- (map_id offs) at 2. apply map_ext_in. intros o Ho.
      specialize (Hl o Ho). unfold offset_legal in Hl. unfold LOCA_SHORT_MULT. lia.
    + apply Forall_forall. intros v Hv. apply in_map_iff in Hv. destruct Hv as [o [Hv Ho]]. subst v.
      specialize (Hl o Ho). unfold offset_legal in Hl. lia.
  - rewrite rd_slice_app by (unfold len; rewrite flat_be32_length; lia). cbn [bind].
    f_equal. unfold len. rewrite Nat2Z.id.
    rewrite <- (app_nil_r (flat_map be32 offs)). apply u32s_be32.
    apply Forall_forall. intros o Ho. specialize (Hl o Ho). unfold offset_legal in Hl. lia.
Qed.

(* ---- cutting the glyf table ---- *)

Lemma record_of_layout pre g post :
  len g = 0 \/ 2 <= len g ->
  record_of (pre ++ g ++ post) (len pre) (len pre + len g) = Ok g.
Proof.
  intros Hg. unfold record_of.
  pose proof (len_nonneg pre). pose proof (len_nonneg g). pose proof (len_nonneg post).
  destruct (len pre + len g <? len pre) eqn:E1; [lia|].
  destruct (len pre + len g =? len pre) eqn:E2.
  - destruct g as [|b g']; [reflexivity|]. rewrite len_cons in *. pose proof (len_nonneg g'). lia.
  - rewrite !len_app.
    destruct (len pre <? len pre + (len g + len post)) eqn:E3; [|lia].
    assert (Hs : slice_from (pre ++ g ++ post) (len pre) = g ++ post).
    { rewrite slice_from_drop by (rewrite !len_app; lia).
      unfold drop, len. rewrite Nat2Z.id, skipn_app, Nat.sub_diag, skipn_all. reflexivity. }
    rewrite Hs. replace (len pre + len g - len pre) with (len g) by lia. rewrite len_app.
    destruct (len g <=? len g + len post) eqn:E4; [|lia].
    assert (Ht : take (len g) (g ++ post) = g).
    { unfold take, len. rewrite Nat2Z.id, firstn_app, Nat.sub_diag, firstn_all. cbn [firstn]. apply app_nil_r. }
    rewrite Ht.
    destruct g as [|a [|b g']].
    + rewrite len_nil in *. lia.
    + rewrite len_cons, len_nil in *. lia.
    + unfold rd_i16. cbn [rd_u16 bind]. reflexivity.
Qed.

Lemma records_of_cons2 glyf s e tl :
  records_of glyf (s :: e :: tl) = (g <- record_of glyf s e ;; t <- records_of glyf (e :: tl) ;; Ok (g :: t)).
Proof. reflexivity. Qed.

Lemma records_of_layout : forall gs pre post,
  forallb (fun g => (len g =? 0) || (2 <=? len g)) gs = true ->
  records_of (pre ++ concat gs ++ post) (offsets_of (len pre) gs) = Ok gs.
Proof.
  induction gs as [|g r IH]; intros pre post H; [reflexivity|].
  cbn [forallb] in H. apply andb_true_iff in H. destruct H as [Hg Hr].
  cbn [offsets_of]. destruct (offsets_of_head r (len pre + len g)) as [tl Htl].
  rewrite Htl, records_of_cons2, <- Htl.
  cbn [concat]. rewrite <- app_assoc.
  rewrite (record_of_layout pre g (concat r ++ post)) by lia. cbn [bind].
  specialize (IH (pre ++ g) post Hr). rewrite len_app, <- app_assoc in IH. rewrite IH. reflexivity.
Qed.

(* whatever the tables hold: every record GlyfTable::read_dep accepts is empty or starts with a
   readable contour count, and there is at least one *)
Lemma record_of_checked glyf s e g :
  record_of glyf s e = Ok g -> g = [] \/ exists v r, rd_i16 g = Ok (v, r).
Proof.
  unfold record_of. intros H.
  destruct (e <? s); [discriminate|].
  destruct (e =? s); [inversion H; left; reflexivity|].
  destruct (s <? len glyf); [|discriminate].
  destruct (e - s <=? len (slice_from glyf s)).
  - destruct (rd_i16 (take (e - s) (slice_from glyf s))) as [[v r]| | |] eqn:E; try discriminate.
    cbn [bind] in H. inversion H; subst. right. eauto.
  - destruct (read_glyph (slice_from glyf s)) as [gl| | |] eqn:E; try discriminate.
    cbn [bind] in H. inversion H; subst. right.
    unfold read_glyph in E. destruct (rd_i16 (slice_from glyf s)) as [[v r]| | |]; try discriminate. eauto.
Qed.

Lemma records_of_checked : forall offs glyf t, records_of glyf offs = Ok t -> check_records t = Ok tt.
Proof.
  induction offs as [|s offs IH]; intros glyf t H.
  - inversion H. reflexivity.
  - destruct offs as [|e tl]; [inversion H; reflexivity|].
    rewrite records_of_cons2 in H.
    destruct (record_of glyf s e) as [g| | |] eqn:Eg; try discriminate. cbn [bind] in H.
    destruct (records_of glyf (e :: tl)) as [t'| | |] eqn:Et; try discriminate. cbn [bind] in H.
    inversion H; subst. cbn [check_records].
    rewrite (IH glyf t' Et).
    destruct (record_of_checked _ _ _ _ Eg) as [Hn|[v [r Hv]]].
    + subst g. reflexivity.
    + destruct g as [|b g']; [reflexivity|]. rewrite Hv. reflexivity.
Qed.

Lemma glyf_load_table_load glyf offs t : glyf_load glyf offs = Ok t -> table_load t = Ok tt.
Proof.
  unfold glyf_load. intros H.
  destruct (len offs <? 2) eqn:E; [discriminate|].
  pose proof (records_of_checked _ _ _ H) as Hc.
  destruct offs as [|s [|e tl]].
  - rewrite len_nil in E. lia.
  - rewrite len_cons, len_nil in E. lia.
  - rewrite records_of_cons2 in H.
    destruct (record_of glyf s e) as [g| | |]; try discriminate. cbn [bind] in H.
    destruct (records_of glyf (e :: tl)) as [t'| | |]; try discriminate. cbn [bind] in H.
    inversion H; subst. unfold table_load. exact Hc.
Qed.

(* visiting a glyph through the bytes of both tables = visiting the record GlyfTable::read_dep made *)
Theorem visit_glyf_is_visit fmt n loca glyf gid t :
  glyf_table fmt n loca glyf = Ok t -> visit_glyf fmt n loca glyf gid = visit t gid.
Proof.
  intros H. unfold visit_glyf. rewrite H. cbn [bind]. unfold visit, visit_insts.
  unfold glyf_table in H. destruct (loca_offsets fmt n loca) as [offs| | |]; try discriminate.
  cbn [bind] in H. rewrite (glyf_load_table_load _ _ _ H). cbn [bind]. reflexivity.
Qed.

(* a legal layout is read back as laid out *)
Theorem glyf_table_layout fmt pre gs post lrest :
  layout_legal fmt pre gs = true ->
  glyf_table fmt (len gs) (encode_loca fmt (offsets_of (len pre) gs) ++ lrest) (pre ++ concat gs ++ post) = Ok gs.
Proof.
  unfold layout_legal. intros H.
  apply andb_true_iff in H. destruct H as [H Hoff].
  apply andb_true_iff in H. destruct H as [Hne Hrec].
  unfold glyf_table.
  replace (len gs) with (len (offsets_of (len pre) gs) - 1) at 1 by (rewrite offsets_of_len; lia).
  rewrite loca_offsets_encode; [|destruct gs; discriminate|exact Hoff]. cbn [bind].
  unfold glyf_load. rewrite offsets_of_len. pose proof (len_nonneg gs).
  destruct (len gs + 1 <? 2) eqn:E; [lia|].
  apply records_of_layout. exact Hrec.
Qed.

Theorem visit_glyf_layout fmt pre gs post lrest gid :
  layout_legal fmt pre gs = true ->
  visit_glyf fmt (len gs) (encode_loca fmt (offsets_of (len pre) gs) ++ lrest) (pre ++ concat gs ++ post) gid
  = visit gs gid.
Proof. intros H. apply visit_glyf_is_visit. apply glyf_table_layout. exact H. Qed.

(* ---------------------------------------------------------------------------------------------- *)
(* a simple glyph anywhere in a table, followed by any padding                                      *)

Theorem visit_simple_glyph_at t gid cs bbox instr chs gs pad :
  table_load t = Ok tt ->
  nth_opt t gid = Some (simple_glyph_bytes cs bbox instr chs gs ++ pad) ->
  simple_glyph_legal cs bbox instr chs gs = true ->
  exists cmds paths,
    visit t gid = Ok cmds /\
    cmds_eq cmds (map (map_cmd half) (concat paths)) /\
    Forall2 spec_path_of cs paths.
Proof.
  intros Hload Hnth H.
  destruct (simple_glyph_end_to_end cs bbox instr chs gs pad H) as [sg [paths [Hr [Hv Hp]]]].
  set (g := simple_glyph_bytes cs bbox instr chs gs ++ pad) in *.
  assert (Hg : exists b0 r, g = b0 :: r).
  { subst g. unfold simple_glyph_bytes, be16. cbn [app]. eauto. }
  destruct Hg as [b0 [r Hg]].
  exists (render [(x_id, concat paths)]), paths. split; [|split; [apply render_identity|exact Hp]].
  unfold visit, visit_insts. rewrite Hload. cbn [bind].
  unfold VISIT_FUEL. rewrite visit_outline_S.
  unfold DEPTH_START, depth_exceeded, RECURSION_LIMIT. cbn [Z.ltb Z.compare].
  unfold get_parsed_glyph. rewrite Hnth. rewrite Hg. rewrite <- Hg. rewrite Hr. cbn [bind].
  rewrite Hv. reflexivity.
Qed.

(* ... and through the bytes of both tables: for EVERY glyph id of EVERY legally laid out table *)
Theorem visit_simple_glyph_in_table fmt pre gl post lrest gid cs bbox instr chs gs pad :
  layout_legal fmt pre gl = true ->
  nth_opt gl gid = Some (simple_glyph_bytes cs bbox instr chs gs ++ pad) ->
  simple_glyph_legal cs bbox instr chs gs = true ->
  exists cmds paths,
    visit_glyf fmt (len gl) (encode_loca fmt (offsets_of (len pre) gl) ++ lrest) (pre ++ concat gl ++ post) gid
      = Ok cmds /\
    cmds_eq cmds (map (map_cmd half) (concat paths)) /\
    Forall2 spec_path_of cs paths.
Proof.
  intros Hl Hn Hs. rewrite (visit_glyf_layout fmt pre gl post lrest gid Hl).
  apply (visit_simple_glyph_at gl gid cs bbox instr chs gs pad); [|exact Hn|exact Hs].
  pose proof (glyf_table_layout fmt pre gl post [] Hl) as Ht.
  unfold glyf_table in Ht.
  destruct (loca_offsets fmt (len gl) (encode_loca fmt (offsets_of (len pre) gl) ++ [])) as [offs| | |];
    try discriminate.
  cbn [bind] in Ht. exact (glyf_load_table_load _ _ _ Ht).
Qed.
