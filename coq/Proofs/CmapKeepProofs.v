(* Proofs/CmapKeepProofs.v — MappingsToKeep::new keeps exactly the wanted mappings (keep_exact),
   the BTreeMap stays strictly sorted, and the plane it reports bounds every kept character. *)
From AV Require Import Base.Prelude Base.Lemmas Gen.CmapPrefs Model.MacRoman Model.Cmap Model.CmapSpec
  Model.CmapSubset Proofs.CmapProofs.
Require Import ZifyBool.
Open Scope Z_scope.

(* ------------------------------------------------------------------------------------------- *)
(* the order on characters *)

Lemma char_eqb_eq a b : char_eqb a b = true <-> a = b.
Proof.
  destruct a, b; cbn [char_eqb]; split; intros H; try discriminate; try (inversion H; subst; lia);
    f_equal; lia.
Qed.

Lemma char_eqb_refl a : char_eqb a a = true.
Proof. apply char_eqb_eq. reflexivity. Qed.

Lemma char_ltb_irrefl a : char_ltb a a = false.
Proof. destruct a; cbn [char_ltb]; lia. Qed.

Lemma char_ltb_trans a b c : char_ltb a b = true -> char_ltb b c = true -> char_ltb a c = true.
Proof. destruct a, b, c; cbn [char_ltb]; intros; try discriminate; try reflexivity; lia. Qed.

Lemma char_trichotomy a b : char_eqb a b = false -> char_ltb a b = false -> char_ltb b a = true.
Proof. destruct a, b; cbn [char_eqb char_ltb]; intros; try discriminate; try reflexivity; lia. Qed.

(* first entry with the key *)
Fixpoint bt_lookup (k : character) (l : list (character * Z)) : option Z :=
  match l with
  | [] => None
  | (k', v) :: t => if char_eqb k k' then Some v else bt_lookup k t
  end.

Lemma bt_lookup_insert k v l k' :
  bt_lookup k' (bt_insert k v l) = if char_eqb k' k then Some v else bt_lookup k' l.
Proof.
  induction l as [|[k1 v1] t IH]; cbn [bt_insert bt_lookup]; [reflexivity|].
  destruct (char_eqb k k1) eqn:E1.
  - apply char_eqb_eq in E1. subst k1. cbn [bt_lookup]. destruct (char_eqb k' k); reflexivity.
  - destruct (char_ltb k k1) eqn:E2; cbn [bt_lookup]; [reflexivity|].
    rewrite IH. destruct (char_eqb k' k1) eqn:E3; [|reflexivity].
    apply char_eqb_eq in E3. subst k1.
    destruct (char_eqb k' k) eqn:E4; [|reflexivity].
    apply char_eqb_eq in E4. subst k'. rewrite char_eqb_refl in E1. discriminate.
Qed.

(* strictly sorted by key, every key above [lo] *)
Fixpoint bt_sorted (l : list (character * Z)) : Prop :=
  match l with
  | [] => True
  | (k, _) :: t => (forall k' v', In (k', v') t -> char_ltb k k' = true) /\ bt_sorted t
  end.

Lemma bt_insert_in k v l k' v' :
  In (k', v') (bt_insert k v l) -> (k' = k /\ v' = v) \/ In (k', v') l.
Proof.
  induction l as [|[k1 v1] t IH]; cbn [bt_insert]; intros H.
  - destruct H as [H|[]]. inversion H. auto.
  - destruct (char_eqb k k1) eqn:E1.
    + destruct H as [H|H]; [inversion H; auto | right; right; exact H].
    + destruct (char_ltb k k1).
      * destruct H as [H|H]; [inversion H; auto | right; exact H].
      * destruct H as [H|H]; [right; left; exact H|]. destruct (IH H); [auto | right; right; assumption].
Qed.

Lemma bt_insert_sorted k v l : bt_sorted l -> bt_sorted (bt_insert k v l).
Proof.
  induction l as [|[k1 v1] t IH]; cbn [bt_insert bt_sorted]; intros H.
  - split; [intros ? ? [] | exact I].
  - destruct H as [H1 H2]. destruct (char_eqb k k1) eqn:E1.
    + apply char_eqb_eq in E1. subst k1. cbn [bt_sorted]. split; assumption.
    + destruct (char_ltb k k1) eqn:E2; cbn [bt_sorted].
      * split; [|split; assumption]. intros k' v' [Heq | Hin].
        -- inversion Heq; subst. exact E2.
        -- eapply char_ltb_trans; [exact E2 | eapply H1; eauto].
      * split; [|apply IH; exact H2]. intros k' v' Hin. apply bt_insert_in in Hin.
        destruct Hin as [[-> ->] | Hin]; [apply char_trichotomy; assumption | eapply H1; eauto].
Qed.

Lemma bt_sorted_lookup_in l k v : bt_sorted l -> (In (k, v) l <-> bt_lookup k l = Some v).
Proof.
  induction l as [|[k1 v1] t IH]; cbn [bt_sorted bt_lookup]; intros H.
  - split; [intros [] | discriminate].
  - destruct H as [H1 H2]. destruct (char_eqb k k1) eqn:E.
    + apply char_eqb_eq in E. subst k1. split.
      * intros [Heq | Hin]; [inversion Heq; reflexivity|].
        pose proof (H1 _ _ Hin) as C. rewrite char_ltb_irrefl in C. discriminate.
      * intros Heq. inversion Heq; subst. left. reflexivity.
    + rewrite <- (IH H2). split.
      * intros [Heq | Hin]; [inversion Heq; subst; rewrite char_eqb_refl in E; discriminate | exact Hin].
      * intros Hin. right. exact Hin.
Qed.

(* ------------------------------------------------------------------------------------------- *)
(* which enumerated pairs are wanted, independently of the map *)

(* the (output character, old glyph id) a pair of the source enumeration contributes, if any:
   the glyph is retained and not .notdef, the code has a character, and for a Mac Roman target the
   character is a Mac Roman character *)
Definition wanted (enc : encoding) (symbol_first_char : option Z) (glyph_ids : list Z)
           (target : cmap_target) (p : Z * Z) : option (character * Z) :=
  let '(ch, gid) := p in
  if negb (gid =? 0) && existsb (Z.eqb gid) glyph_ids then
    match output_char enc symbol_first_char ch with
    | None => None
    | Some oc =>
        match target with
        | TMacRoman => if rank (existence_of oc) <=? rank XMacRoman then Some (oc, gid) else None
        | TUnrestricted => Some (oc, gid)
        end
    end
  else None.

(* the last wanted pair for a character wins (BTreeMap::insert replaces) *)
Fixpoint last_wanted (f : Z * Z -> option (character * Z)) (oc : character) (pairs : list (Z * Z))
         (acc : option Z) : option Z :=
  match pairs with
  | [] => acc
  | p :: t =>
      match f p with
      | Some (oc', g) => last_wanted f oc t (if char_eqb oc oc' then Some g else acc)
      | None => last_wanted f oc t acc
      end
  end.

Lemma keep_step_wanted enc sfc ids target st p :
  keep_step enc sfc ids target st p =
  match wanted enc sfc ids target p with
  | Some (oc, g) =>
      (bt_insert oc g (fst st),
       match target with TMacRoman => snd st | TUnrestricted => existence_max (snd st) (existence_of oc) end)
  | None => st
  end.
Proof.
  destruct p as [ch gid], st as [kept plane]. unfold keep_step, wanted. cbn [fst snd].
  destruct (negb (gid =? 0) && existsb (Z.eqb gid) ids); [|reflexivity].
  destruct (output_char enc sfc ch) as [oc|]; [|reflexivity].
  destruct target; [reflexivity|]. destruct (rank (existence_of oc) <=? rank XMacRoman); reflexivity.
Qed.

(* C08, keep_exact: the kept glyph of a character is that of the last wanted pair for it *)
Theorem keep_fold_lookup enc sfc ids target pairs : forall st oc,
  bt_lookup oc (fst (fold_left (keep_step enc sfc ids target) pairs st)) =
  last_wanted (wanted enc sfc ids target) oc pairs (bt_lookup oc (fst st)).
Proof.
  induction pairs as [|p t IH]; intros st oc; cbn [fold_left last_wanted]; [reflexivity|].
  rewrite IH. rewrite keep_step_wanted.
  destruct (wanted enc sfc ids target p) as [[oc' g]|]; [|reflexivity].
  cbn [fst]. rewrite bt_lookup_insert. reflexivity.
Qed.

Theorem keep_fold_sorted enc sfc ids target pairs : forall st,
  bt_sorted (fst st) -> bt_sorted (fst (fold_left (keep_step enc sfc ids target) pairs st)).
Proof.
  induction pairs as [|p t IH]; intros st H; cbn [fold_left]; [exact H|].
  apply IH. rewrite keep_step_wanted.
  destruct (wanted enc sfc ids target p) as [[oc' g]|]; [|exact H].
  cbn [fst]. apply bt_insert_sorted. exact H.
Qed.

(* every kept pair comes from a wanted pair *)
Theorem keep_fold_in enc sfc ids target pairs : forall st oc g,
  In (oc, g) (fst (fold_left (keep_step enc sfc ids target) pairs st)) ->
  In (oc, g) (fst st) \/ exists p, In p pairs /\ wanted enc sfc ids target p = Some (oc, g).
Proof.
  induction pairs as [|p t IH]; intros st oc g H; cbn [fold_left] in H; [left; exact H|].
  apply IH in H. destruct H as [H | (q & Hq & Hw)].
  - rewrite keep_step_wanted in H.
    destruct (wanted enc sfc ids target p) as [[oc' g']|] eqn:EW; [|left; exact H].
    cbn [fst] in H. apply bt_insert_in in H. destruct H as [[-> ->] | H]; [|left; exact H].
    right. exists p. split; [left; reflexivity | exact EW].
  - right. exists q. split; [right; exact Hq | exact Hw].
Qed.

(* the plane bounds the existence of every kept character (Unrestricted target) *)
Theorem keep_fold_plane enc sfc ids pairs : forall st,
  (forall oc g, In (oc, g) (fst st) -> rank (existence_of oc) <= rank (snd st)) ->
  let st' := fold_left (keep_step enc sfc ids TUnrestricted) pairs st in
  forall oc g, In (oc, g) (fst st') -> rank (existence_of oc) <= rank (snd st').
Proof.
  induction pairs as [|p t IH]; intros st H; cbn [fold_left]; [exact H|].
  apply IH. rewrite keep_step_wanted.
  destruct (wanted enc sfc ids TUnrestricted p) as [[oc' g']|]; [|exact H].
  cbn [fst snd]. intros oc g Hin. apply bt_insert_in in Hin. unfold existence_max.
  destruct Hin as [[-> ->] | Hin].
  - destruct (rank (snd st) <? rank (existence_of oc')) eqn:E; lia.
  - specialize (H oc g Hin). destruct (rank (snd st) <? rank (existence_of oc')) eqn:E; lia.
Qed.

(* Mac Roman target: the plane stays Mac Roman and only Mac Roman characters are kept *)
Theorem keep_fold_macroman enc sfc ids pairs : forall st,
  snd st = XMacRoman ->
  (forall oc g, In (oc, g) (fst st) -> existence_of oc = XMacRoman) ->
  let st' := fold_left (keep_step enc sfc ids TMacRoman) pairs st in
  snd st' = XMacRoman /\ forall oc g, In (oc, g) (fst st') -> existence_of oc = XMacRoman.
Proof.
  induction pairs as [|p t IH]; intros st H1 H2; cbn [fold_left]; [split; assumption|].
  apply IH; rewrite keep_step_wanted.
  - destruct (wanted enc sfc ids TMacRoman p) as [[oc' g']|]; [cbn [snd]|]; exact H1.
  - destruct (wanted enc sfc ids TMacRoman p) as [[oc' g']|] eqn:EW; [|exact H2].
    cbn [fst]. intros oc g Hin. apply bt_insert_in in Hin. destruct Hin as [[-> ->] | Hin]; [|eapply H2; eauto].
    unfold wanted in EW. destruct p as [ch gid].
    destruct (negb (gid =? 0) && existsb (Z.eqb gid) ids); [|discriminate].
    destruct (output_char enc sfc ch) as [o|]; [|discriminate].
    destruct (rank (existence_of o) <=? rank XMacRoman) eqn:ER; [|discriminate].
    inversion EW; subst. destruct (existence_of oc'); cbn [rank] in ER; try reflexivity; lia.
Qed.
