(* Proofs/GposBytesProofs.v — (a) ValueFormat / ValueRecord decoding: for every format mask the record's fields
   are read in the order, width and signedness the format prescribes. *)
From AV Require Import Base.Prelude Base.Lemmas Gen.ReaderPrims Gen.GposConsts Model.Reader Model.Layout Model.Gpos
  Model.GposBytes Model.GposSpec Proofs.ReaderProofs Proofs.EncodeProofs.
From Coq Require Import ZifyBool.
Open Scope Z_scope.

(* the abstract record (what SinglePos / PairPos hand to Adjust::apply) is the record of the specification:
   the flag bits regenerated from the has_* getters are the valueFormat flags 0x0001, 0x0002, 0x0004, 0x0008 *)
Lemma value_record_is_spec fmt v : value_record fmt v = value_record_spec fmt v.
Proof. reflexivity. Qed.

(* ValueFormat::size = two bytes per flag among the low eight; finite sweep over the 256 masks the reader admits *)
Lemma value_format_size_sweep :
  forallb (fun f => value_format_size f =? 2 * popcount8 f) (range 0 (Z.to_nat 256)) = true.
Proof. vm_compute. reflexivity. Qed.

Lemma value_format_size_popcount fmt : 0 <= fmt <= VF_MAX -> value_format_size fmt = 2 * popcount8 fmt.
Proof.
  intros H. pose proof value_format_size_sweep as S. rewrite forallb_forall in S.
  specialize (S fmt). rewrite range_In in S. unfold VF_MAX in H. apply Z.eqb_eq. apply S. lia.
Qed.

(* ---- reading a signed 16-bit field that was written in two's complement *)
Lemma to_signed16_mod v : -32768 <= v < 32768 -> to_signed 16 (v mod 65536) = v.
Proof.
  intros H. unfold to_signed. change (2 ^ 16) with 65536. change (2 ^ (16 - 1)) with 32768.
  rewrite Z.mod_mod by lia.
  destruct (Z.ltb_spec (v mod 65536) 32768); lia.
Qed.

Lemma read_i16_chain c v rest :
  cinv c -> bytes_ok (data (sc c)) = true -> -32768 <= v < 32768 ->
  drop (off c) (data (sc c)) = be_bytes 2 (v mod 65536) ++ rest ->
  exists c', read_prim PI16 c = Ok (v, c') /\ at_rest c c' rest.
Proof.
  intros Hc Hb Hv Hd. pose proof Hc as [Hc1 Hc2]. unfold dlen in Hc1.
  assert (Hl : len (be_bytes 2 (v mod 65536)) = 2) by (rewrite len_be_bytes; reflexivity).
  pose proof (drop_len_le _ _ _ _ Hc1 Hd) as Hle. rewrite Hl in Hle.
  destruct (read_prim_exact PI16 c Hb Hc) as [[_ H]|[H _]]; [|unfold dlen in H; cbn [spec_size] in H; lia].
  exists {| sc := sc c; off := off c + spec_size PI16 |}. split.
  - rewrite H. f_equal. f_equal. rewrite Hd. cbn [spec_size]. rewrite <- Hl at 1. rewrite take_app_exact.
    unfold decode_prim. cbn [prim_signed spec_size].
    rewrite be_val_be_bytes_mod. change (256 ^ Z.of_nat 2) with 65536. rewrite Z.mod_mod by lia.
    change (8 * 2) with 16. apply to_signed16_mod. exact Hv.
  - unfold at_rest, cinv; cbn [sc off spec_size]. split; [split; [unfold dlen; lia|exact Hc2]|]. split; [reflexivity|].
    rewrite <- Hl. apply drop_after; assumption.
Qed.

Lemma read_u16_zero_chain c rest :
  cinv c -> bytes_ok (data (sc c)) = true ->
  drop (off c) (data (sc c)) = be_bytes 2 0 ++ rest ->
  exists c', read_prim PU16 c = Ok (0, c') /\ at_rest c c' rest.
Proof.
  intros Hc Hb Hd. apply (read_prim_chain PU16 c 0 rest Hc Hb); [|exact Hd].
  split; [reflexivity|]. cbn [spec_size]. lia.
Qed.

(* ---- specification encoder: the fields whose flag is set, in the order of the format, 16 bits each *)
Fixpoint enc_fields (fields : list (Z * bool)) (fmt : Z) (vals : list Z) : list Z :=
  match fields, vals with
  | (bit, _) :: t, v :: vs => (if bit_set fmt bit then be_bytes 2 (v mod 65536) else []) ++ enc_fields t fmt vs
  | _, _ => []
  end.

Fixpoint masked (fields : list (Z * bool)) (fmt : Z) (vals : list Z) : list Z :=
  match fields, vals with
  | (bit, _) :: t, v :: vs => (if bit_set fmt bit then v else 0) :: masked t fmt vs
  | _, _ => []
  end.

(* signed fields hold an i16, the device-offset fields are NULL *)
Fixpoint vals_ok (fields : list (Z * bool)) (vals : list Z) : Prop :=
  match fields, vals with
  | (_, signed) :: t, v :: vs => (if signed then -32768 <= v < 32768 else v = 0) /\ vals_ok t vs
  | [], [] => True
  | _, _ => False
  end.

Lemma at_rest_inv c c' rest : at_rest c c' rest -> bytes_ok (data (sc c)) = true ->
  cinv c' /\ bytes_ok (data (sc c')) = true /\ drop (off c') (data (sc c')) = rest.
Proof. intros (H1 & H2 & H3) Hb. split; [exact H1|split; [rewrite H2; exact Hb|exact H3]]. Qed.

Lemma at_rest_trans c c1 c2 r1 r2 : at_rest c c1 r1 -> at_rest c1 c2 r2 -> at_rest c c2 r2.
Proof. intros (A1 & A2 & A3) (B1 & B2 & B3). unfold at_rest. split; [exact B1|split; [rewrite B2; exact A2|exact B3]]. Qed.

Lemma read_fields_written m table fmt : forall fields vals c rest,
  vals_ok fields vals -> cinv c -> bytes_ok (data (sc c)) = true ->
  drop (off c) (data (sc c)) = enc_fields fields fmt vals ++ rest ->
  exists c', read_fields m table fields fmt c = Ok (masked fields fmt vals, c') /\ at_rest c c' rest.
Proof.
  induction fields as [|[bit signed] fields IH]; intros vals c rest Hok Hc Hb Hd.
  - destruct vals; [|contradiction]. cbn [read_fields masked enc_fields app] in *. exists c. split; [reflexivity|].
    unfold at_rest. repeat split; try assumption; apply Hc.
  - destruct vals as [|v vals]; [contradiction|]. cbn [vals_ok] in Hok. destruct Hok as [Hv Hok].
    cbn [read_fields masked enc_fields] in *.
    destruct (bit_set fmt bit) eqn:Eb.
    + rewrite <- app_assoc in Hd. destruct signed.
      * destruct (read_i16_chain c v _ Hc Hb Hv Hd) as (c1 & Hr & Hat). rewrite Hr. cbn [bind].
        destruct (at_rest_inv _ _ _ Hat Hb) as (Hc1 & Hb1 & Hd1).
        destruct (IH vals c1 rest Hok Hc1 Hb1 Hd1) as (c2 & Hr2 & Hat2). rewrite Hr2. cbn [bind].
        exists c2. split; [reflexivity|]. eapply at_rest_trans; eassumption.
      * subst v. change (0 mod 65536) with 0 in Hd.
        destruct (read_u16_zero_chain c _ Hc Hb Hd) as (c1 & Hr & Hat). rewrite Hr. cbn [bind].
        unfold read_device. cbn [Z.ltb Z.compare bind].
        destruct (at_rest_inv _ _ _ Hat Hb) as (Hc1 & Hb1 & Hd1).
        destruct (IH vals c1 rest Hok Hc1 Hb1 Hd1) as (c2 & Hr2 & Hat2). rewrite Hr2. cbn [bind].
        exists c2. split; [reflexivity|]. eapply at_rest_trans; eassumption.
    + cbn [app] in Hd. destruct (IH vals c rest Hok Hc Hb Hd) as (c2 & Hr2 & Hat2). rewrite Hr2. cbn [bind].
      exists c2. split; [reflexivity|exact Hat2].
Qed.

Definition adjust_vals (v : adjust) : list Z := [x_placement v; y_placement v; x_advance v; y_advance v; 0; 0; 0; 0].
Definition enc_value_record (fmt : Z) (v : adjust) : list Z := enc_fields VR_FIELDS fmt (adjust_vals v).
Definition adjust_in_range (v : adjust) : Prop :=
  -32768 <= x_placement v < 32768 /\ -32768 <= y_placement v < 32768 /\
  -32768 <= x_advance v < 32768 /\ -32768 <= y_advance v < 32768.

Lemma len_enc_fields fmt : forall fields vals, length fields = length vals ->
  len (enc_fields fields fmt vals) = 2 * fold_left (fun acc f => if bit_set fmt (fst f) then acc + 1 else acc) fields 0.
Proof.
  assert (G : forall fields a, fold_left (fun acc (f : Z * bool) => if bit_set fmt (fst f) then acc + 1 else acc) fields a
                               = a + fold_left (fun acc (f : Z * bool) => if bit_set fmt (fst f) then acc + 1 else acc) fields 0).
  { induction fields as [|f fields IH]; intros a; cbn [fold_left]; [lia|].
    rewrite IH. rewrite (IH (if bit_set fmt (fst f) then 0 + 1 else 0)). destruct (bit_set fmt (fst f)); lia. }
  induction fields as [|[bit s] fields IH]; intros vals Hl; destruct vals as [|v vals]; cbn [length] in Hl; try discriminate.
  - reflexivity.
  - cbn [enc_fields fold_left fst]. rewrite len_app, IH by lia. rewrite (G fields (if bit_set fmt bit then 0 + 1 else 0)).
    destruct (bit_set fmt bit); [rewrite len_be_bytes|rewrite len_nil]; lia.
Qed.

(* (a): for every format mask 1..255 and every record, reading the record's encoding returns exactly the
   fields the format selects (the others 0) and consumes exactly ValueFormat::size bytes; format 0 reads nothing *)
Theorem value_record_layout : forall m table fmt v c rest,
  0 <= fmt <= VF_MAX -> adjust_in_range v -> cinv c -> bytes_ok (data (sc c)) = true ->
  drop (off c) (data (sc c)) = enc_value_record fmt v ++ rest ->
  exists c', value_record_read m table fmt c = Ok (value_record_spec fmt v, c') /\ at_rest c c' rest /\
             len (enc_value_record fmt v) = (if fmt =? 0 then 0 else value_format_size fmt) /\
             value_format_size fmt = 2 * popcount8 fmt.
Proof.
  intros m table fmt v c rest Hf (R1 & R2 & R3 & R4) Hc Hb Hd.
  pose proof (value_format_size_popcount fmt Hf) as Hpop.
  unfold value_record_read, value_record_spec. destruct (fmt =? 0) eqn:E0.
  - assert (fmt = 0) by lia. subst fmt. exists c. split; [reflexivity|]. split.
    + unfold at_rest. repeat split; try apply Hc. exact Hd.
    + split; [reflexivity|exact Hpop].
  - assert (Hok : vals_ok VR_FIELDS (adjust_vals v)) by (cbn; repeat split; try lia; try reflexivity).
    destruct (read_fields_written m table fmt VR_FIELDS (adjust_vals v) c rest Hok Hc Hb Hd) as (c' & Hr & Hat).
    rewrite Hr. cbn [bind]. exists c'. split; [reflexivity|]. split; [exact Hat|]. split; [|exact Hpop].
    unfold enc_value_record. rewrite len_enc_fields by reflexivity. reflexivity.
Qed.
