(* Proofs/CompositeAgree.v — the composite-glyph reader of Model/Composite.v (C15, on the C14 cursor
   model) and the one of Model/GlyfOutline.v (C16, on the list of remaining bytes) are the same
   function: for every good cursor, C16's read_composite on the remaining bytes returns exactly the
   components C15's CompositeGlyph::read returns (arguments without their variant tag, scales in
   C16's constructors), the same error, or the same panic.  GlyfOutline.v is not changed; it is
   required without being imported because its names (glyph, simple_glyph, component, ...) would
   shadow those of Model/Tables.v. *)
From AV Require Import Base.Prelude Base.Lemmas Gen.ReaderPrims Model.Reader Model.ReaderExt
  Proofs.ReaderProofs Proofs.EncodeProofs Model.TableLayout Proofs.TableLayoutProofs Proofs.RecordProofs
  Gen.TableLayouts Model.Tables Model.Cff Proofs.TableProofs Proofs.ArrayTableProofs Proofs.CffProofs
  Proofs.RefusalProofs Proofs.GlyphProofs Gen.CffDictTables Model.CffDict Proofs.CffDictProofs
  Gen.GlyfConsts Model.Composite Proofs.CompositeProofs.
From AV Require Model.GlyfOutline.
From Coq Require Import ZifyBool ZifyNat.
Ltac Zify.zify_post_hook ::= Z.div_mod_to_equations.
Open Scope Z_scope.

Module GO := AV.Model.GlyfOutline.

(* ---------- projection of C15 values to C16 values *)
Definition proj_scale (s : cscale) : GO.cscale :=
  match s with
  | CScale a => GO.SScale a
  | CXY a b => GO.SXY a b
  | CMatrix a b c d => GO.SMatrix a b c d
  end.
Definition proj_comp (c : ccomp) : GO.component :=
  {| GO.c_flags := cc_flags c; GO.c_gid := cc_gid c; GO.c_arg1 := snd (cc_arg1 c); GO.c_arg2 := snd (cc_arg2 c);
     GO.c_scale := option_map proj_scale (cc_scale c) |}.

(* ---------- simulation between a cursor computation and a byte-list computation *)
Definition sim {A B} (f : A -> B) (oc : outcome (A * ctxt)) (ol : outcome (B * list Z)) : Prop :=
  match oc, ol with
  | Ok (a, c'), Ok (b, r) => b = f a /\ cgood c' /\ remaining c' = r
  | Err e, Err e' => e = e'
  | Panic, Panic => True
  | OOB, OOB => True
  | _, _ => False
  end.

Lemma sim_bind {A B A' B'} (f : A -> B) (g : A' -> B') oc ol
      (kc : A * ctxt -> outcome (A' * ctxt)) (kl : B * list Z -> outcome (B' * list Z)) :
  sim f oc ol ->
  (forall a c', cgood c' -> sim g (kc (a, c')) (kl (f a, remaining c'))) ->
  sim g (bind oc kc) (bind ol kl).
Proof.
  intros Hs Hk. destruct oc as [[a c']|e| |]; destruct ol as [[b r]|e'| |]; cbn [sim bind] in *; try contradiction; try assumption.
  destruct Hs as (-> & Hg & <-). apply Hk. exact Hg.
Qed.

Lemma sim_ret {A B} (f : A -> B) a c' : cgood c' -> sim f (Ok (a, c')) (Ok (f a, remaining c')).
Proof. intros Hg. cbn [sim]. auto. Qed.

(* ---------- primitives *)
Definition rd_l (p : prim) (bs : list Z) : outcome (Z * list Z) :=
  match p with
  | PU8 => GO.rd_u8 bs | PI8 => GO.rd_i8 bs | PU16 => GO.rd_u16 bs | PI16 => GO.rd_i16 bs
  | _ => Err Eof
  end.
Definition small (p : prim) : Prop := p = PU8 \/ p = PI8 \/ p = PU16 \/ p = PI16.

Lemma dec_u8 a r : decode_prim PU8 (take 1 (a :: r)) = a.
Proof. unfold decode_prim, take. change (Z.to_nat 1) with 1%nat. cbn [firstn prim_signed be_val fold_left]. lia. Qed.
Lemma dec_i8 a r : decode_prim PI8 (take 1 (a :: r)) = to_signed 8 a.
Proof.
  unfold decode_prim, take. change (Z.to_nat 1) with 1%nat. cbn [firstn prim_signed spec_size be_val fold_left].
  reflexivity.
Qed.
Lemma dec_u16 a b r : decode_prim PU16 (take 2 (a :: b :: r)) = a * 256 + b.
Proof. unfold decode_prim, take. change (Z.to_nat 2) with 2%nat. cbn [firstn prim_signed be_val fold_left]. lia. Qed.
Lemma dec_i16 a b r : decode_prim PI16 (take 2 (a :: b :: r)) = to_signed 16 (a * 256 + b).
Proof.
  unfold decode_prim, take. change (Z.to_nat 2) with 2%nat. cbn [firstn prim_signed spec_size be_val fold_left].
  change (8 * 2) with 16. f_equal; lia.
Qed.

Lemma sim_prim p c : small p -> cgood c -> sim (fun v => v) (read_prim p c) (rd_l p (remaining c)).
Proof.
  intros Hp Hg. rewrite (read_prim_refines p c Hg). unfold rd_prim_l.
  destruct (remaining c) as [|a [|b r]] eqn:Er.
  - destruct Hp as [->|[->|[->| ->]]]; cbn; reflexivity.
  - assert (len (remaining c) = 1) as Hl1 by (rewrite Er; reflexivity).
    pose proof (adv_good c 1 Hg ltac:(lia)) as [Hg1 Hr1]. rewrite Er in Hr1. change (drop 1 [a]) with (@nil Z) in Hr1.
    change (len [a]) with 1.
    destruct Hp as [->|[->|[->| ->]]]; cbn [spec_size rd_l GO.rd_u8 GO.rd_i8 GO.rd_u16 GO.rd_i16 bind].
    + change (1 <=? 1) with true. cbn [bind sim]. rewrite dec_u8. auto.
    + change (1 <=? 1) with true. cbn [bind sim]. rewrite dec_i8. auto.
    + change (2 <=? 1) with false. cbn [bind sim]. reflexivity.
    + change (2 <=? 1) with false. cbn [bind sim]. reflexivity.
  - pose proof (len_nonneg r) as Hr.
    assert (len (remaining c) = 2 + len r) as Hl2 by (rewrite Er, !len_cons; lia).
    pose proof (adv_good c 1 Hg ltac:(lia)) as [Hg1 Hr1]. rewrite Er in Hr1. change (drop 1 (a :: b :: r)) with (b :: r) in Hr1.
    pose proof (adv_good c 2 Hg ltac:(lia)) as [Hg2 Hr2]. rewrite Er in Hr2. change (drop 2 (a :: b :: r)) with r in Hr2.
    rewrite !len_cons.
    destruct Hp as [->|[->|[->| ->]]]; cbn [spec_size rd_l GO.rd_u8 GO.rd_i8 GO.rd_u16 GO.rd_i16 bind].
    + replace (1 <=? 1 + (1 + len r)) with true by lia. cbn [bind sim]. rewrite dec_u8. auto.
    + replace (1 <=? 1 + (1 + len r)) with true by lia. cbn [bind sim]. rewrite dec_i8. auto.
    + replace (2 <=? 1 + (1 + len r)) with true by lia. cbn [bind sim]. rewrite dec_u16. auto.
    + replace (2 <=? 1 + (1 + len r)) with true by lia. cbn [bind sim]. rewrite dec_i16. auto.
Qed.

(* ---------- arguments, scales, components *)
Lemma sim_arg c flags : cgood c ->
  sim (fun a : carg => snd a) (carg_read c flags)
      (GO.read_arg (arg_kind (GO.has flags cf_arg_1_and_2_are_words) (GO.has flags cf_args_are_xy_values)) (remaining c)).
Proof.
  intros Hg. unfold carg_read. change GO.has with cf_has.
  set (k := arg_kind (cf_has flags cf_arg_1_and_2_are_words) (cf_has flags cf_args_are_xy_values)).
  assert (GO.read_arg k (remaining c) = bind (rd_l (arg_prim k) (remaining c)) (fun p => Ok p)) as ->.
  { destruct k; cbn [GO.read_arg arg_prim rd_l];
      match goal with |- ?x = _ => destruct x as [[? ?]| | |]; reflexivity end. }
  eapply sim_bind with (f := fun v : Z => v).
  - apply sim_prim; [destruct k; unfold small; cbn; tauto|exact Hg].
  - intros v c' Hg'. cbn beta iota. apply (sim_ret (fun a : carg => snd a) (k, v) c' Hg').
Qed.

Lemma sim_i16 c : cgood c -> sim (fun v => v) (read_prim PI16 c) (GO.rd_i16 (remaining c)).
Proof. intros Hg. apply (sim_prim PI16 c); [unfold small; tauto|exact Hg]. Qed.
Lemma sim_u16 c : cgood c -> sim (fun v => v) (read_prim PU16 c) (GO.rd_u16 (remaining c)).
Proof. intros Hg. apply (sim_prim PU16 c); [unfold small; tauto|exact Hg]. Qed.

Lemma sim_scale_kind k c : cgood c ->
  sim proj_scale (cscale_read_kind k c) (GO.read_scale_kind k (remaining c)).
Proof.
  intros Hg. destruct k; cbn [cscale_read_kind GO.read_scale_kind].
  - eapply sim_bind with (f := fun v : Z => v); [apply sim_i16; exact Hg|].
    intros a c1 G1. cbn beta iota. apply (sim_ret proj_scale (CScale a) c1 G1).
  - eapply sim_bind with (f := fun v : Z => v); [apply sim_i16; exact Hg|].
    intros a c1 G1. cbn beta iota.
    eapply sim_bind with (f := fun v : Z => v); [apply sim_i16; exact G1|].
    intros b c2 G2. cbn beta iota. apply (sim_ret proj_scale (CXY a b) c2 G2).
  - eapply sim_bind with (f := fun v : Z => v); [apply sim_i16; exact Hg|].
    intros a c1 G1. cbn beta iota.
    eapply sim_bind with (f := fun v : Z => v); [apply sim_i16; exact G1|].
    intros b c2 G2. cbn beta iota.
    eapply sim_bind with (f := fun v : Z => v); [apply sim_i16; exact G2|].
    intros d c3 G3. cbn beta iota.
    eapply sim_bind with (f := fun v : Z => v); [apply sim_i16; exact G3|].
    intros e c4 G4. cbn beta iota. apply (sim_ret proj_scale (CMatrix a b d e) c4 G4).
Qed.

Lemma sim_scale tests flags : forall c, cgood c ->
  sim (option_map proj_scale) (cscale_read tests flags c) (GO.read_scale tests flags (remaining c)).
Proof.
  induction tests as [|[k kind] r IH]; intros c Hg; cbn [cscale_read GO.read_scale].
  - apply (sim_ret (option_map proj_scale) None c Hg).
  - change GO.has with cf_has. destruct (cf_has flags k); [|apply IH; exact Hg].
    eapply sim_bind with (f := proj_scale); [apply sim_scale_kind; exact Hg|].
    intros s c1 G1. cbn beta iota. apply (sim_ret (option_map proj_scale) (Some s) c1 G1).
Qed.

Lemma sim_component c flags : cgood c ->
  sim proj_comp (ccomp_read c flags) (GO.read_component flags (remaining c)).
Proof.
  intros Hg. unfold ccomp_read, GO.read_component.
  eapply sim_bind with (f := fun v : Z => v); [apply sim_u16; exact Hg|].
  intros gid c1 G1. cbn beta iota.
  eapply sim_bind with (f := fun a : carg => snd a); [apply sim_arg; exact G1|].
  intros a1 c2 G2. cbn beta iota.
  eapply sim_bind with (f := fun a : carg => snd a); [apply sim_arg; exact G2|].
  intros a2 c3 G3. cbn beta iota.
  eapply sim_bind with (f := option_map proj_scale); [apply sim_scale; exact G3|].
  intros sc c4 G4. cbn beta iota.
  apply (sim_ret proj_comp {| cc_flags := flags; cc_gid := gid; cc_arg1 := a1; cc_arg2 := a2; cc_scale := sc |} c4 G4).
Qed.

Definition proj_loop (r : list ccomp * bool) : list GO.component * bool := (map proj_comp (fst r), snd r).

Lemma sim_components fuel : forall c, cgood c ->
  sim proj_loop (ccomps_read fuel c) (GO.read_components fuel (remaining c)).
Proof.
  induction fuel as [|f IH]; intros c Hg; cbn [ccomps_read GO.read_components]; [exact I|].
  eapply sim_bind with (f := fun v : Z => v); [apply sim_u16; exact Hg|].
  intros w c1 G1. cbn beta iota. change GO.has with cf_has.
  eapply sim_bind with (f := proj_comp); [apply sim_component; exact G1|].
  intros comp c2 G2. cbn beta iota.
  destruct (cf_has (Z.land w CF_ALL) cf_more_components).
  - eapply sim_bind with (f := proj_loop); [apply IH; exact G2|].
    intros [cs hi'] c3 G3. cbn beta iota. unfold proj_loop at 1. cbn [fst snd].
    apply (sim_ret proj_loop (comp :: cs, cf_has (Z.land w CF_ALL) cf_we_have_instructions || hi') c3 G3).
  - apply (sim_ret proj_loop ([comp], cf_has (Z.land w CF_ALL) cf_we_have_instructions) c2 G2).
Qed.

(* ---------- slices *)
Lemma read_slice_total m c n : cgood c -> 0 <= n ->
  (n <= len (remaining c) /\ exists c', read_slice m c n = Ok (take n (remaining c), c') /\ cgood c' /\ remaining c' = drop n (remaining c))
  \/ (len (remaining c) < n /\ read_slice m c n = Err Eof).
Proof.
  intros Hg Hn. pose proof (len_remaining c Hg) as Hl. pose proof Hg as [[Hc Hs] [Hb [Hb0 Hb1]]]. unfold sinv in Hs.
  unfold read_slice, read_scope.
  destruct (Z_le_dec (off c + n) (dlen (sc c))) as [Hle|Hgt].
  - left. split; [lia|]. rewrite offset_length_complete by lia. unfold uadd.
    replace (off c + n <? USIZE) with true by lia. cbn [bind data].
    exists (adv c n). split; [reflexivity|]. apply adv_good; [exact Hg|lia].
  - right. split; [lia|]. unfold offset_length.
    destruct ((off c <? dlen (sc c)) || (n =? 0)) eqn:E1; [|reflexivity].
    rewrite slice_from_drop by (unfold dlen in *; lia).
    rewrite len_drop by (unfold dlen in *; lia).
    replace (n <=? len (data (sc c)) - off c) with false by (unfold dlen in *; lia). reflexivity.
Qed.

Definition drop_ctx {A B} (f : A -> B) (o : outcome (A * ctxt)) : outcome B :=
  match o with Ok (a, _) => Ok (f a) | Err e => Err e | Panic => Panic | OOB => OOB end.

(* Theorem: on every good cursor, C16's read_composite applied to the remaining bytes returns what
   C15's CompositeGlyph::read returns, projected to C16's component type — the same components, the
   same error, the same panic — in both arithmetic modes *)
Theorem composite_readers_agree m c :
  cgood c ->
  GO.read_composite (remaining c) = drop_ctx (fun g => map proj_comp (cg_comps g)) (cglyph_read m c).
Proof.
  intros Hg. unfold GO.read_composite, cglyph_read. rewrite bbox_ty_eq.
  pose proof Hg as [Hc [Hb _]]. pose proof (len_remaining c Hg) as Hl.
  (* the bounding box: 8 bytes on both sides *)
  unfold GO.rd_slice at 1.
  destruct (read_ty_exact [PI16; PI16; PI16; PI16] c Hb Hc) as [[Hle E]|[Hlt E]]; rewrite E;
    change (ty_size [PI16; PI16; PI16; PI16]) with 8 in *.
  2:{ replace (8 <=? len (remaining c)) with false by lia. reflexivity. }
  replace (8 <=? len (remaining c)) with true by lia. cbn [bind].
  destruct (adv_good c 8 Hg ltac:(lia)) as [G1 R1]. fold (adv c 8). rewrite <- R1.
  set (c1 := adv c 8) in *.
  pose proof (sim_components (S (length (remaining c1))) c1 G1) as Hs.
  change (drop (off c1) (data (sc c1))) with (remaining c1).
  destruct (ccomps_read (S (length (remaining c1))) c1) as [[[cs hi] c2]|e| |];
    destruct (GO.read_components (S (length (remaining c1))) (remaining c1)) as [[[cs' hi'] r2]|e'| |];
    cbn [sim] in Hs; try contradiction; cbn [bind drop_ctx]; try (subst; reflexivity).
  destruct Hs as (Hp & G2 & R2). unfold proj_loop in Hp. cbn [fst snd] in Hp. injection Hp as -> ->. subst r2.
  destruct hi.
  - pose proof (sim_u16 c2 G2) as Hs3.
    destruct (read_prim PU16 c2) as [[il c3]|e| |] eqn:E3; destruct (GO.rd_u16 (remaining c2)) as [[il' r3]|e'| |];
      cbn [sim] in Hs3; try contradiction; cbn [bind drop_ctx]; try (subst; reflexivity).
    destruct Hs3 as (-> & G3 & <-).
    assert (0 <= il) as Hil.
    { destruct (read_prim_inv _ _ _ _ G2 E3) as (R3 & _). unfold prim_in_range in R3. cbn in R3. lia. }
    unfold GO.rd_slice.
    destruct (read_slice_total m c3 il G3 Hil) as [(Hle3 & c4 & E4 & _)|(Hlt3 & E4)]; rewrite E4; cbn [bind drop_ctx cg_comps].
    + replace (il <=? len (remaining c3)) with true by lia. reflexivity.
    + replace (il <=? len (remaining c3)) with false by lia. reflexivity.
  - cbn [bind]. unfold GO.rd_slice. pose proof (len_nonneg (remaining c2)).
    destruct (read_slice_total m c2 0 G2 ltac:(lia)) as [(Hle3 & c4 & E4 & _)|(Hlt3 & E4)]; [|lia]. rewrite E4.
    replace (0 <=? len (remaining c2)) with true by lia. cbn [bind drop_ctx cg_comps]. reflexivity.
Qed.
