(* Proofs/VariationStore.v — property C12, part d: rounding of the final values, the net adjustment
   of an item variation store (sum of scalar * delta), delta-set rows, delta-set index maps, HVAR. *)
From AV Require Import Base.Prelude Base.Lemmas Gen.VariationConsts Model.Variation
  Proofs.EncodeProofs Proofs.VariationScalar Proofs.VariationPacked.
From Coq Require Import QArith Qround Lia Lqa.
Local Open Scope Z_scope.

(* ---------------------------------------------------------------------------------------- *)
(* rounding: f32::round is round-half-away-from-zero; the result is within 1/2 of the exact value
   and exact on integers *)

Lemma qfloor_unique x z : (inject_Z z <= x)%Q -> (x < inject_Z (z + 1))%Q -> Qfloor x = z.
Proof.
  intros H1 H2. pose proof (Qfloor_le x) as F1. pose proof (Qlt_floor x) as F2.
  assert (A : (inject_Z (Qfloor x) < inject_Z (z + 1))%Q) by (eapply Qle_lt_trans; eassumption).
  assert (B : (inject_Z z < inject_Z (Qfloor x + 1))%Q) by (eapply Qle_lt_trans; eassumption).
  rewrite <- Zlt_Qlt in A, B. lia.
Qed.

Lemma round_half_away_Z q z : (q == inject_Z z)%Q -> round_half_away q = z.
Proof.
  intros E. unfold round_half_away.
  destruct (Qle_bool 0 q) eqn:C.
  - apply qfloor_unique.
    + rewrite E. rewrite <- (Qplus_0_r (inject_Z z)) at 1. apply Qplus_le_r. discriminate.
    + rewrite E, inject_Z_plus. apply Qplus_lt_r. reflexivity.
  - assert (G : Qfloor (- q + (1 # 2)) = - z).
    { apply qfloor_unique.
      + rewrite E, inject_Z_opp. rewrite <- (Qplus_0_r (- inject_Z z)) at 1. apply Qplus_le_r. discriminate.
      + rewrite E, inject_Z_plus, inject_Z_opp. apply Qplus_lt_r. reflexivity. }
    rewrite G. lia.
Qed.

Lemma round_half_away_within_half q :
  (inject_Z (round_half_away q) - q <= 1 # 2)%Q /\ (q - inject_Z (round_half_away q) <= 1 # 2)%Q.
Proof.
  unfold round_half_away. destruct (Qle_bool 0 q) eqn:C.
  - pose proof (Qfloor_le (q + (1 # 2))) as F1. pose proof (Qlt_floor (q + (1 # 2))) as F2.
    rewrite inject_Z_plus in F2. change (inject_Z 1) with 1%Q in F2. split; lra.
  - pose proof (Qfloor_le (- q + (1 # 2))) as F1. pose proof (Qlt_floor (- q + (1 # 2))) as F2.
    rewrite inject_Z_plus in F2. change (inject_Z 1) with 1%Q in F2. rewrite inject_Z_opp. split; lra.
Qed.

Lemma sat_i16_id v : -32768 <= v <= 32767 -> sat_i16 v = v.
Proof. unfold sat_i16. lia. Qed.
Lemma sat_u16_id v : 0 <= v <= 65535 -> sat_u16 v = v.
Proof. unfold sat_u16. lia. Qed.

(* a zero delta leaves an i16 / u16 value exactly unchanged *)
Lemma add_round_i16_zero v d : -32768 <= v <= 32767 -> (d == 0)%Q -> add_round_i16 v d = v.
Proof.
  intros Hv Hd. unfold add_round_i16. rewrite (round_half_away_Z _ v); [apply sat_i16_id; exact Hv|].
  rewrite Hd. unfold qz. ring.
Qed.
Lemma add_round_u16_zero v d : 0 <= v <= 65535 -> (d == 0)%Q -> add_round_u16 v d = v.
Proof.
  intros Hv Hd. unfold add_round_u16. rewrite (round_half_away_Z _ v); [apply sat_u16_id; exact Hv|].
  rewrite Hd. unfold qz. ring.
Qed.

(* the rounded value is within half a unit of the exact value whenever that lies in the target range *)
Lemma add_round_i16_within_half v d :
  (inject_Z (-32768) <= qz v + d)%Q -> (qz v + d <= inject_Z 32767)%Q ->
  (inject_Z (add_round_i16 v d) - (qz v + d) <= 1 # 2)%Q /\ ((qz v + d) - inject_Z (add_round_i16 v d) <= 1 # 2)%Q.
Proof.
  intros Lo Hi. unfold add_round_i16.
  destruct (round_half_away_within_half (qz v + d)) as [A B].
  set (r := round_half_away (qz v + d)) in *.
  assert (R : -32768 <= r <= 32767).
  { split.
    - assert (C : ((-32769 # 1) < inject_Z r)%Q).
      { change (inject_Z (-32768)) with (-32768 # 1) in Lo. lra. }
      change (-32769 # 1) with (inject_Z (-32769)) in C. rewrite <- Zlt_Qlt in C. lia.
    - assert (C : (inject_Z r < (32768 # 1))%Q).
      { change (inject_Z 32767) with (32767 # 1) in Hi. lra. }
      change (32768 # 1) with (inject_Z 32768) in C. rewrite <- Zlt_Qlt in C. lia. }
  rewrite sat_i16_id by exact R. split; assumption.
Qed.

Lemma add_round_u16_within_half v d :
  (0 <= qz v + d)%Q -> (qz v + d <= inject_Z 65535)%Q ->
  (inject_Z (add_round_u16 v d) - (qz v + d) <= 1 # 2)%Q /\ ((qz v + d) - inject_Z (add_round_u16 v d) <= 1 # 2)%Q.
Proof.
  intros Lo Hi. unfold add_round_u16.
  destruct (round_half_away_within_half (qz v + d)) as [A B].
  set (r := round_half_away (qz v + d)) in *.
  assert (R : 0 <= r <= 65535).
  { split.
    - assert (C : ((-1 # 1) < inject_Z r)%Q) by lra.
      change (-1 # 1) with (inject_Z (-1)) in C. rewrite <- Zlt_Qlt in C. lia.
    - assert (C : (inject_Z r < (65536 # 1))%Q).
      { change (inject_Z 65535) with (65535 # 1) in Hi. lra. }
      change (65536 # 1) with (inject_Z 65536) in C. rewrite <- Zlt_Qlt in C. lia. }
  rewrite sat_u16_id by exact R. split; assumption.
Qed.

(* ---------------------------------------------------------------------------------------- *)
(* ItemVariationStore::adjustment = sum over the delta set of (region scalar * delta) *)

(* the specification's net adjustment for a delta-set row and the sub-table's region indices *)
Fixpoint net_adjustment (regions : list (list (Z * Z * Z))) (inst : list Z) (deltas idxs : list Z) : Q :=
  match deltas, idxs with
  | dl :: dr, ix :: ir =>
    (match nth_error regions (Z.to_nat ix) with
     | Some axes => region_product axes inst * qz dl
     | None => 0
     end + net_adjustment regions inst dr ir)%Q
  | _, _ => 0%Q
  end.

(* all region indices that are paired with a delta exist *)
Fixpoint indices_ok (nregions : nat) (deltas idxs : list Z) : Prop :=
  match deltas, idxs with
  | _ :: dr, ix :: ir => (Z.to_nat ix < nregions)%nat /\ indices_ok nregions dr ir
  | _, _ => True
  end.

Lemma adjust_sum_spec : forall deltas idxs regions inst acc,
  indices_ok (length regions) deltas idxs ->
  exists q, adjust_sum regions inst deltas idxs acc = Ok q /\ (q == acc + net_adjustment regions inst deltas idxs)%Q.
Proof.
  induction deltas as [|dl dr IH]; intros idxs regions inst acc H.
  { exists acc. cbn [adjust_sum net_adjustment]. split; [reflexivity|ring]. }
  destruct idxs as [|ix ir].
  { exists acc. cbn [adjust_sum net_adjustment]. split; [reflexivity|ring]. }
  destruct H as [Hix H]. cbn [adjust_sum net_adjustment].
  destruct (nth_error regions (Z.to_nat ix)) as [axes|] eqn:E; [|apply nth_error_None in E; lia].
  unfold region_scalar. destruct (q_is_zero (region_product axes inst)) eqn:Zr.
  - apply q_is_zero_iff in Zr. destruct (IH ir regions inst acc H) as (q & Eq & Hq).
    exists q. split; [exact Eq|]. rewrite Hq, Zr. ring.
  - destruct (IH ir regions inst (Qred (acc + region_product axes inst * qz dl)) H) as (q & Eq & Hq).
    exists q. split; [exact Eq|]. rewrite Hq, Qred_correct. ring.
Qed.

Lemma adjust_sum_bad_index : forall deltas idxs regions inst acc,
  ~ indices_ok (length regions) deltas idxs -> adjust_sum regions inst deltas idxs acc = Err BadIndex.
Proof.
  induction deltas as [|dl dr IH]; intros idxs regions inst acc H; [exfalso; apply H; exact I|].
  destruct idxs as [|ix ir]; [exfalso; apply H; exact I|].
  cbn [adjust_sum]. destruct (nth_error regions (Z.to_nat ix)) as [axes|] eqn:E; [|reflexivity].
  apply IH. intros C. apply H. split; [|exact C]. apply nth_error_Some. rewrite E. discriminate.
Qed.

(* at the default location every region with a valid non-zero-peak axis contributes nothing *)
Lemma net_adjustment_default : forall deltas idxs regions (n : nat),
  Forall (fun axes => exists k, (k < length axes)%nat /\ (k < n)%nat /\
                                let '(s, p, e) := nth k axes (0, 0, 0) in region_valid s p e /\ p <> 0) regions ->
  (net_adjustment regions (repeat 0%Z n) deltas idxs == 0)%Q.
Proof.
  induction deltas as [|dl dr IH]; intros idxs regions n H; [reflexivity|].
  destruct idxs as [|ix ir]; [reflexivity|]. cbn [net_adjustment].
  rewrite (IH ir regions n H).
  destruct (nth_error regions (Z.to_nat ix)) as [axes|] eqn:E; [|ring].
  apply nth_error_In in E. rewrite Forall_forall in H. destruct (H axes E) as (k & L1 & L2 & V).
  rewrite (region_product_default k axes n L1 L2 V). ring.
Qed.

(* ---------------------------------------------------------------------------------------- *)
(* delta-set rows *)

Lemma chunks_be_concat (sz : nat) : forall (vs : list Z) (fuel : nat),
  (0 < sz)%nat -> (length vs <= fuel)%nat ->
  chunks_be sz fuel (concat (map (be_bytes sz) vs)) = map (fun v => v mod 256 ^ Z.of_nat sz) vs.
Proof.
  induction vs as [|v vs IH]; intros fuel Hsz Hf.
  - destruct fuel; reflexivity.
  - destruct fuel as [|fuel]; [cbn [length] in Hf; lia|].
    cbn [map concat chunks_be].
    destruct (be_bytes sz v ++ concat (map (be_bytes sz) vs)) as [|b l] eqn:E.
    { exfalso. assert (L : length (be_bytes sz v ++ concat (map (be_bytes sz) vs)) = 0%nat) by (rewrite E; reflexivity).
      rewrite app_length, be_bytes_length in L. lia. }
    rewrite <- E.
    assert (F : firstn sz (be_bytes sz v ++ concat (map (be_bytes sz) vs)) = be_bytes sz v).
    { rewrite firstn_app, be_bytes_length, Nat.sub_diag, firstn_O, app_nil_r.
      rewrite <- (be_bytes_length sz v) at 1. apply firstn_all. }
    assert (S : skipn sz (be_bytes sz v ++ concat (map (be_bytes sz) vs)) = concat (map (be_bytes sz) vs)).
    { rewrite skipn_app, be_bytes_length, Nat.sub_diag, skipn_O.
      rewrite <- (be_bytes_length sz v) at 1. rewrite skipn_all. reflexivity. }
    rewrite F, S, be_val_be_bytes_mod, IH; [reflexivity|exact Hsz|cbn [length] in Hf; lia].
Qed.

(* a row as the specification lays it out: the word deltas, then the short deltas *)
Definition enc_row (long : bool) (wordv shortv : list Z) : list Z :=
  if long then concat (map (be_bytes 4) wordv) ++ concat (map (be_bytes 2) shortv)
  else concat (map (be_bytes 2) wordv) ++ concat (map (be_bytes 1) shortv).

Lemma len_concat_be (sz : nat) (vs : list Z) : len (concat (map (be_bytes sz) vs)) = Z.of_nat sz * len vs.
Proof.
  induction vs as [|v vs IH]; [cbn [map concat]; change (len (@nil Z)) with 0; lia|].
  cbn [map concat]. rewrite len_app, len_be_bytes, IH, len_cons. lia.
Qed.

Lemma signed_range_id bits (vs : list Z) : 0 < bits ->
  Forall (fun v => - 2 ^ (bits - 1) <= v < 2 ^ (bits - 1)) vs ->
  map (to_signed bits) (map (fun v => v mod 2 ^ bits) vs) = vs.
Proof.
  intros Hb H. rewrite map_map. apply map_id_in. eapply Forall_impl; [|exact H]. cbv beta.
  intros v Hv. apply to_signed_mod; assumption.
Qed.

(* delta_set_impl + DeltaSet::iter decode row `k` of a sub-table laid out by the specification:
   `before` holds k complete rows, the row has word_delta_count words and the rest shorts *)
Lemma delta_set_row (d : ivd) (k : Z) (before after wordv shortv : list Z) :
  0 <= k ->
  let long := long_deltas d in
  len wordv = word_delta_count d ->
  len wordv + len shortv = ivd_ric d ->
  len before = k * row_length d ->
  ivd_data d = before ++ enc_row long wordv shortv ++ after ->
  Forall (fun v => if long then - 2 ^ 31 <= v < 2 ^ 31 else - 2 ^ 15 <= v < 2 ^ 15) wordv ->
  Forall (fun v => if long then - 2 ^ 15 <= v < 2 ^ 15 else - 2 ^ 7 <= v < 2 ^ 7) shortv ->
  delta_set d k = Some (wordv ++ shortv).
Proof.
  intros Hk long Hw Hs Hb Hd Fw Fs.
  pose proof (len_nonneg wordv) as Nw. pose proof (len_nonneg shortv) as Ns.
  assert (RL : row_length d = if long then 2 * (len wordv + len shortv) + 2 * len wordv
                              else len wordv + len shortv + len wordv).
  { unfold row_length. fold long. rewrite <- Hw, <- Hs. destruct long; lia. }
  assert (LR : len (enc_row long wordv shortv) = row_length d).
  { rewrite RL. unfold enc_row. destruct long; rewrite len_app, !len_concat_be; lia. }
  unfold delta_set. fold long. rewrite Hd.
  assert (E1 : len (before ++ enc_row long wordv shortv ++ after) <? k * row_length d = false).
  { apply Z.ltb_ge. rewrite !len_app, Hb. pose proof (len_nonneg (enc_row long wordv shortv)). pose proof (len_nonneg after). lia. }
  rewrite E1. rewrite <- Hb, drop_app_exact.
  assert (E2 : len (enc_row long wordv shortv ++ after) <? row_length d = false).
  { apply Z.ltb_ge. rewrite len_app, LR. pose proof (len_nonneg after). lia. }
  rewrite E2. rewrite <- LR, take_app_exact.
  set (wsize := if long then 4 else 2). set (ssize := if long then 2 else 1).
  assert (Mid : word_delta_count d * wsize = len (concat (map (be_bytes (Z.to_nat wsize)) wordv))).
  { rewrite len_concat_be, <- Hw. subst wsize. destruct long; cbn; lia. }
  assert (Row : enc_row long wordv shortv
                = concat (map (be_bytes (Z.to_nat wsize)) wordv) ++ concat (map (be_bytes (Z.to_nat ssize)) shortv)).
  { unfold enc_row. subst wsize ssize. destruct long; reflexivity. }
  rewrite Row, Mid.
  assert (E3 : len (concat (map (be_bytes (Z.to_nat wsize)) wordv) ++ concat (map (be_bytes (Z.to_nat ssize)) shortv))
               <? len (concat (map (be_bytes (Z.to_nat wsize)) wordv)) = false).
  { apply Z.ltb_ge. rewrite len_app. pose proof (len_nonneg (concat (map (be_bytes (Z.to_nat ssize)) shortv))). lia. }
  rewrite E3, take_app_exact, drop_app_exact.
  assert (E4 : negb (len (concat (map (be_bytes (Z.to_nat ssize)) shortv)) mod ssize =? 0) = false).
  { apply negb_false_iff, Z.eqb_eq. rewrite len_concat_be. subst ssize. destruct long; cbn [Z.to_nat Pos.to_nat Pos.iter_op Nat.add Z.of_nat].
    - change (Z.of_nat 2) with 2. rewrite Z.mul_comm. apply Z_mod_mult.
    - apply Z.mod_1_r. }
  rewrite E4. f_equal.
  rewrite !chunks_be_concat.
  - subst wsize ssize. destruct long.
    + change (8 * 4) with 32. change (8 * 2) with 16.
      change (256 ^ Z.of_nat (Z.to_nat 4)) with (2 ^ 32). change (256 ^ Z.of_nat (Z.to_nat 2)) with (2 ^ 16).
      rewrite (signed_range_id 32 wordv) by (try lia; exact Fw).
      rewrite (signed_range_id 16 shortv) by (try lia; exact Fs). reflexivity.
    + change (8 * 2) with 16. change (8 * 1) with 8.
      change (256 ^ Z.of_nat (Z.to_nat 2)) with (2 ^ 16). change (256 ^ Z.of_nat (Z.to_nat 1)) with (2 ^ 8).
      rewrite (signed_range_id 16 wordv) by (try lia; exact Fw).
      rewrite (signed_range_id 8 shortv) by (try lia; exact Fs). reflexivity.
  - subst ssize. destruct long; cbn; lia.
  - assert (L : len (concat (map (be_bytes (Z.to_nat ssize)) shortv)) = Z.of_nat (Z.to_nat ssize) * len shortv) by apply len_concat_be.
    unfold len in L. subst ssize. destruct long; cbn [Z.to_nat Pos.to_nat Pos.iter_op Nat.add] in *; lia.
  - subst wsize. destruct long; cbn; lia.
  - assert (L : len (concat (map (be_bytes (Z.to_nat wsize)) wordv)) = Z.of_nat (Z.to_nat wsize) * len wordv) by apply len_concat_be.
    unfold len in L. subst wsize. destruct long; cbn [Z.to_nat Pos.to_nat Pos.iter_op Nat.add] in *; lia.
Qed.

(* ---------------------------------------------------------------------------------------- *)
(* delta-set index map *)

Lemma entry_format_ranges fmt : 0 <= fmt < 256 ->
  1 <= entry_size fmt <= 4 /\ 1 <= Z.land fmt INNER_INDEX_BIT_COUNT_MASK + 1 <= 16.
Proof.
  intros H.
  pose (P := fun f : Z => (1 <=? entry_size f) && (entry_size f <=? 4)
                          && (1 <=? Z.land f INNER_INDEX_BIT_COUNT_MASK + 1) && (Z.land f INNER_INDEX_BIT_COUNT_MASK + 1 <=? 16)).
  assert (E : P fmt = true) by (apply (sweep P 256); [vm_compute; reflexivity|lia]).
  subst P. cbv beta in E.
  apply andb_true_iff in E as [E D]. apply andb_true_iff in E as [E C]. apply andb_true_iff in E as [A B].
  apply Z.leb_le in A, B, C, D. lia.
Qed.

(* the specification's entry: outer index in the high bits, inner index in the low
   ((entryFormat & 0x0F) + 1) bits, stored big-endian in ((entryFormat & 0x30) >> 4) + 1 bytes *)
Definition inner_bits (fmt : Z) : Z := Z.land fmt INNER_INDEX_BIT_COUNT_MASK + 1.
Definition enc_entry (fmt : Z) (oi : Z * Z) : list Z :=
  be_bytes (Z.to_nat (entry_size fmt)) (fst oi * 2 ^ inner_bits fmt + snd oi).
Definition entry_ok (fmt : Z) (oi : Z * Z) : Prop :=
  0 <= snd oi < 2 ^ inner_bits fmt /\ 0 <= fst oi < 65536 /\
  fst oi * 2 ^ inner_bits fmt + snd oi < 256 ^ entry_size fmt.

Lemma concat_fixed_nth : forall (chunks : list (list Z)) (k : nat) (sz : Z),
  0 <= sz -> Forall (fun c => len c = sz) chunks -> (k < length chunks)%nat ->
  take sz (drop (Z.of_nat k * sz) (concat chunks)) = nth k chunks [].
Proof.
  induction chunks as [|c rest IH]; intros k sz Hsz Hall Hk; cbn [length] in Hk; [lia|].
  inversion Hall as [|? ? Hc Hrest]; subst. cbn [concat].
  destruct k as [|k].
  - cbn [nth]. change (Z.of_nat 0 * len c) with 0. rewrite drop_0. apply take_app_exact.
  - cbn [nth]. replace (Z.of_nat (S k) * len c) with (Z.of_nat k * len c + len c) by lia.
    rewrite <- drop_drop by lia. rewrite drop_app_exact. apply IH; [lia|exact Hrest|lia].
Qed.

Lemma len_concat_fixed : forall (chunks : list (list Z)) sz,
  Forall (fun c => len c = sz) chunks -> len (concat chunks) = len chunks * sz.
Proof.
  induction chunks as [|c rest IH]; intros sz H; [reflexivity|].
  inversion H; subst. cbn [concat]. rewrite len_app, (IH (len c)), len_cons by assumption. lia.
Qed.

(* DeltaSetIndexMap::entry: entry i of the map, the last entry for every i >= mapCount *)
Lemma dsim_entry_spec fmt (entries : list (Z * Z)) (i : Z) :
  0 <= fmt < 256 -> entries <> [] -> Forall (entry_ok fmt) entries -> 0 <= i ->
  dsim_entry {| dsim_format := fmt; dsim_count := len entries;
                dsim_data := concat (map (enc_entry fmt) entries) |} i
  = Ok (nth (Z.to_nat (Z.min i (len entries - 1))) entries (0, 0)).
Proof.
  intros Hf Hne Hok Hi.
  destruct (entry_format_ranges fmt Hf) as [Hes Hbits]. fold (inner_bits fmt) in Hbits.
  assert (Hlen : 0 < len entries).
  { destruct entries; [contradiction|]. rewrite len_cons. pose proof (len_nonneg entries). lia. }
  unfold dsim_entry. cbn [dsim_count dsim_format dsim_data].
  set (i' := Z.min i (len entries - 1)).
  assert (Ei : (if len entries <=? i then (if len entries =? 0 then Err BadIndex else Ok (len entries - 1)) else Ok i) = Ok i').
  { subst i'. destruct (len entries <=? i) eqn:C.
    - apply Z.leb_le in C. destruct (len entries =? 0) eqn:C0; [apply Z.eqb_eq in C0; lia|]. f_equal. lia.
    - apply Z.leb_gt in C. f_equal. lia. }
  rewrite Ei. cbn [bind].
  assert (Hi' : 0 <= i' < len entries) by (subst i'; lia).
  assert (Chunks : Forall (fun c => len c = entry_size fmt) (map (enc_entry fmt) entries)).
  { apply Forall_forall. intros c Hc. apply in_map_iff in Hc as (oi & <- & _).
    unfold enc_entry. rewrite len_be_bytes. lia. }
  assert (Ldata : len (concat (map (enc_entry fmt) entries)) = len entries * entry_size fmt).
  { rewrite (len_concat_fixed _ (entry_size fmt) Chunks). unfold len. rewrite map_length. reflexivity. }
  assert (E1 : len (concat (map (enc_entry fmt) entries)) <? i' * entry_size fmt + entry_size fmt = false).
  { apply Z.ltb_ge. rewrite Ldata. nia. }
  rewrite E1.
  replace (i' * entry_size fmt) with (Z.of_nat (Z.to_nat i') * entry_size fmt) by lia.
  rewrite (concat_fixed_nth _ (Z.to_nat i') (entry_size fmt)); [|lia|exact Chunks|rewrite map_length; unfold len in Hi'; lia].
  assert (Enth : nth (Z.to_nat i') (map (enc_entry fmt) entries) (enc_entry fmt (0, 0)) = enc_entry fmt (nth (Z.to_nat i') entries (0, 0))) by apply map_nth.
  assert (Enth' : nth (Z.to_nat i') (map (enc_entry fmt) entries) [] = enc_entry fmt (nth (Z.to_nat i') entries (0, 0))).
  { rewrite <- Enth. apply nth_indep. rewrite map_length. unfold len in Hi'. lia. }
  rewrite Enth'.
  set (oi := nth (Z.to_nat i') entries (0, 0)).
  assert (Hoi : entry_ok fmt oi).
  { rewrite Forall_forall in Hok. apply Hok. apply nth_In. unfold len in Hi'. lia. }
  destruct Hoi as (Hin & Hout & Hfit).
  assert (P : 0 < 2 ^ inner_bits fmt) by (apply Z.pow_pos_nonneg; lia).
  unfold enc_entry. rewrite be_val_be_bytes by (rewrite Z2Nat.id by lia; nia).
  fold (inner_bits fmt).
  f_equal. apply injective_projections; cbn [fst snd].
  - rewrite Z.shiftr_div_pow2 by lia.
    replace ((fst oi * 2 ^ inner_bits fmt + snd oi) / 2 ^ inner_bits fmt) with (fst oi).
    + apply Z.mod_small. lia.
    + apply Z.div_unique with (r := snd oi); [lia|lia].
  - rewrite Z.shiftl_mul_pow2 by lia. rewrite Z.mul_1_l.
    replace (2 ^ inner_bits fmt - 1) with (Z.ones (inner_bits fmt)) by (rewrite Z.ones_equiv; lia).
    rewrite Z.land_ones by lia.
    replace ((fst oi * 2 ^ inner_bits fmt + snd oi) mod 2 ^ inner_bits fmt) with (snd oi).
    + apply Z.mod_small. assert (2 ^ inner_bits fmt <= 2 ^ 16) by (apply Z.pow_le_mono_r; lia). lia.
    + apply Z.mod_unique with (q := fst oi); [lia|lia].
Qed.

(* an empty map has no last entry *)
Lemma dsim_entry_empty fmt i : 0 <= i ->
  dsim_entry {| dsim_format := fmt; dsim_count := 0; dsim_data := [] |} i = Err BadIndex.
Proof.
  intros Hi. unfold dsim_entry. cbn [dsim_count].
  destruct (0 <=? i) eqn:C; [reflexivity|apply Z.leb_gt in C; lia].
Qed.

(* reading the map header: format 0 (16-bit count) and format 1 (32-bit count) *)
Lemma read_dsim_format0 ef count data rest :
  0 <= count < 65536 -> len data = entry_size ef * count ->
  read_dsim (0 :: ef :: be_bytes 2 count ++ data ++ rest)
  = Ok {| dsim_format := ef; dsim_count := count; dsim_data := data |}.
Proof.
  intros Hc Hl. unfold read_dsim. cbn [read_u8 bind]. cbn [Z.eqb].
  cbn [be_bytes app]. unfold read_u16.
  replace (count / 256 ^ Z.of_nat 1 mod 256 * 256 + count / 256 ^ Z.of_nat 0 mod 256) with count.
  - cbn [bind]. rewrite <- Hl, take_bytes_app. reflexivity.
  - change (256 ^ Z.of_nat 1) with 256. change (256 ^ Z.of_nat 0) with 1. rewrite Z.div_1_r.
    assert (count / 256 < 256) by (apply Z.div_lt_upper_bound; lia).
    rewrite (Z.mod_small (count / 256)) by (split; [apply Z.div_pos; lia|lia]).
    pose proof (Z.div_mod count 256). lia.
Qed.

(* HVAR without an advance-width mapping: outer index 0, inner index = glyph id *)
Lemma advance_delta_no_map st lsbm inst gid :
  advance_delta {| hv_store := st; hv_adv := None; hv_lsb := lsbm |} inst gid = adjustment st 0 gid inst.
Proof. reflexivity. Qed.

(* the adjustment of an entry is the specification's net adjustment of its delta-set row *)
Lemma adjustment_spec st outer inner inst d row :
  nth_error (ivs_data st) (Z.to_nat outer) = Some d ->
  delta_set d inner = Some row ->
  indices_ok (length (ivs_regions st)) row (ivd_regions d) ->
  exists q, adjustment st outer inner inst = Ok q
            /\ (q == net_adjustment (ivs_regions st) inst row (ivd_regions d))%Q.
Proof.
  intros Hd Hr Hi. unfold adjustment. rewrite Hd, Hr.
  destruct (adjust_sum_spec row (ivd_regions d) (ivs_regions st) inst 0%Q Hi) as (q & E & Hq).
  exists q. split; [exact E|]. rewrite Hq. ring.
Qed.
