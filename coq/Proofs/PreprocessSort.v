(* Proofs/PreprocessSort.v — the stable sort of Model/Preprocess.v (slice::sort_by_key):
   permutation, sortedness, stability, and uniqueness of a sorted stable rearrangement. *)
From AV Require Import Base.Prelude Gen.PreprocessTables Model.Preprocess.
From Coq Require Import Permutation Sorted.
Open Scope Z_scope.

Section Sort.
Variable key : Z -> Z.

Definition key_le (a b : Z) : Prop := key a <= key b.
(* the elements of key k, in order *)
Definition of_key (k : Z) (l : list Z) : list Z := filter (fun c => key c =? k) l.

Lemma of_key_app k a b : of_key k (a ++ b) = of_key k a ++ of_key k b.
Proof. apply filter_app. Qed.

Lemma insert_perm x l : Permutation (x :: l) (insert_by_key key x l).
Proof.
  induction l as [|y t IH]; cbn [insert_by_key].
  - apply Permutation_refl.
  - destruct (key y <=? key x).
    + eapply perm_trans; [apply perm_swap|]. apply perm_skip. exact IH.
    + apply Permutation_refl.
Qed.

Lemma fold_insert_perm l : forall acc,
  Permutation (acc ++ l) (fold_left (fun s x => insert_by_key key x s) l acc).
Proof.
  induction l as [|x t IH]; intro acc; cbn [fold_left].
  - rewrite app_nil_r. apply Permutation_refl.
  - eapply perm_trans; [|apply IH].
    eapply perm_trans; [apply Permutation_sym, Permutation_middle|].
    change (x :: acc ++ t) with ((x :: acc) ++ t).
    apply Permutation_app_tail. apply insert_perm.
Qed.

Lemma sort_by_key_perm l : Permutation l (sort_by_key key l).
Proof. exact (fold_insert_perm l []). Qed.

Lemma sort_by_key_length l : length (sort_by_key key l) = length l.
Proof. symmetry. apply Permutation_length, sort_by_key_perm. Qed.

Lemma insert_In x l y : In y (insert_by_key key x l) <-> y = x \/ In y l.
Proof.
  split; intro H.
  - pose proof (Permutation_in y (Permutation_sym (insert_perm x l)) H) as H1.
    destruct H1 as [H1|H1]; [left; symmetry; exact H1 | right; exact H1].
  - apply (Permutation_in y (insert_perm x l)). destruct H as [H|H]; [left; symmetry; exact H | right; exact H].
Qed.

Lemma insert_sorted x l : StronglySorted key_le l -> StronglySorted key_le (insert_by_key key x l).
Proof.
  induction 1 as [|y t Hs IH Hall]; cbn [insert_by_key].
  - constructor; constructor.
  - destruct (key y <=? key x) eqn:E.
    + constructor; [exact IH|].
      rewrite Forall_forall. intros z Hz. apply insert_In in Hz. destruct Hz as [->|Hz].
      * unfold key_le. lia.
      * rewrite Forall_forall in Hall. apply Hall. exact Hz.
    + constructor.
      * constructor; assumption.
      * constructor.
        -- unfold key_le. lia.
        -- rewrite Forall_forall in *. intros z Hz. specialize (Hall z Hz). unfold key_le in *. lia.
Qed.

Lemma fold_insert_sorted l : forall acc, StronglySorted key_le acc ->
  StronglySorted key_le (fold_left (fun s x => insert_by_key key x s) l acc).
Proof.
  induction l as [|x t IH]; intros acc Hs; cbn [fold_left]; [exact Hs|].
  apply IH. apply insert_sorted. exact Hs.
Qed.

Lemma sort_by_key_sorted l : StronglySorted key_le (sort_by_key key l).
Proof. apply fold_insert_sorted. constructor. Qed.

(* an element is inserted behind every element of its own key *)
Lemma insert_of_key x l k : StronglySorted key_le l ->
  of_key k (insert_by_key key x l) = of_key k l ++ (if key x =? k then [x] else []).
Proof.
  induction 1 as [|y t Hs IH Hall]; cbn [insert_by_key].
  - unfold of_key. cbn [filter]. destruct (key x =? k); reflexivity.
  - destruct (key y <=? key x) eqn:E.
    + unfold of_key in *. cbn [filter]. destruct (key y =? k); [cbn [app]; f_equal|]; exact IH.
    + unfold of_key in *. cbn [filter].
      destruct (key x =? k) eqn:Ex.
      * (* everything from y on has a key above k *)
        assert (Hnone : filter (fun c => key c =? k) (y :: t) = []).
        { assert (Hy : (key y =? k) = false) by lia.
          cbn [filter]. rewrite Hy.
          clear IH Hs. induction t as [|z t IHt]; [reflexivity|].
          cbn [filter]. inversion Hall as [|? ? Hz Ht]; subst.
          unfold key_le in Hz. assert (Hzk : (key z =? k) = false) by lia.
          rewrite Hzk. apply IHt. exact Ht. }
        cbn [filter] in Hnone. rewrite Hnone. reflexivity.
      * rewrite app_nil_r. reflexivity.
Qed.

Lemma fold_insert_of_key l k : forall acc, StronglySorted key_le acc ->
  of_key k (fold_left (fun s x => insert_by_key key x s) l acc) = of_key k acc ++ of_key k l.
Proof.
  induction l as [|x t IH]; intros acc Hs; cbn [fold_left].
  - unfold of_key at 3. cbn [filter]. rewrite app_nil_r. reflexivity.
  - rewrite IH by (apply insert_sorted; exact Hs).
    rewrite insert_of_key by exact Hs. rewrite <- app_assoc. f_equal.
    unfold of_key. cbn [filter]. destruct (key x =? k); reflexivity.
Qed.

(* stability: the elements of each key keep their order *)
Lemma sort_by_key_stable l k : of_key k (sort_by_key key l) = of_key k l.
Proof. unfold sort_by_key. rewrite fold_insert_of_key by constructor. reflexivity. Qed.

(* a sorted list is determined by its per-key subsequences *)
Lemma of_key_In k x l : In x (of_key k l) <-> In x l /\ key x = k.
Proof. unfold of_key. rewrite filter_In. rewrite Z.eqb_eq. tauto. Qed.

Lemma sorted_stable_unique : forall l1 l2,
  StronglySorted key_le l1 -> StronglySorted key_le l2 ->
  (forall k, of_key k l1 = of_key k l2) -> l1 = l2.
Proof.
  induction l1 as [|a t1 IH]; intros l2 Hs1 Hs2 Heq.
  - destruct l2 as [|b t2]; [reflexivity|].
    specialize (Heq (key b)). unfold of_key in Heq. cbn [filter] in Heq.
    rewrite Z.eqb_refl in Heq. discriminate.
  - destruct l2 as [|b t2].
    + specialize (Heq (key a)). unfold of_key in Heq. cbn [filter] in Heq.
      rewrite Z.eqb_refl in Heq. discriminate.
    + inversion Hs1 as [|? ? Hs1' Hall1]; subst. inversion Hs2 as [|? ? Hs2' Hall2]; subst.
      assert (Hk : key a = key b).
      { destruct (Z.eq_dec (key a) (key b)) as [e|ne]; [exact e|exfalso].
        (* b occurs in t1 and a occurs in t2 *)
        assert (Hb : In b (a :: t1)).
        { apply (of_key_In (key b)). rewrite Heq. apply of_key_In. split; [left; reflexivity|reflexivity]. }
        assert (Ha : In a (b :: t2)).
        { apply (of_key_In (key a)). rewrite <- Heq. apply of_key_In. split; [left; reflexivity|reflexivity]. }
        destruct Hb as [Hb|Hb]; [subst; apply ne; reflexivity|].
        destruct Ha as [Ha|Ha]; [subst; apply ne; reflexivity|].
        rewrite Forall_forall in Hall1, Hall2.
        specialize (Hall1 b Hb). specialize (Hall2 a Ha). unfold key_le in *. lia. }
      assert (Hab : a = b).
      { pose proof (Heq (key a)) as H. unfold of_key in H. cbn [filter] in H.
        rewrite Z.eqb_refl in H. rewrite <- Hk in H. rewrite Z.eqb_refl in H. congruence. }
      subst b. f_equal. apply IH; try assumption.
      intro k. specialize (Heq k). unfold of_key in *. cbn [filter] in Heq.
      destruct (key a =? k); [congruence|exact Heq].
Qed.

(* the specification of sort_by_key: the only sorted rearrangement that keeps each key's order *)
Theorem sort_by_key_unique l l' :
  StronglySorted key_le l' -> (forall k, of_key k l' = of_key k l) -> l' = sort_by_key key l.
Proof.
  intros Hs Hk. apply sorted_stable_unique; [exact Hs|apply sort_by_key_sorted|].
  intro k. rewrite Hk. symmetry. apply sort_by_key_stable.
Qed.

Lemma sort_by_key_nil : sort_by_key key [] = [].
Proof. reflexivity. Qed.

Lemma sort_by_key_Forall (P : Z -> Prop) l : Forall P l -> Forall P (sort_by_key key l).
Proof.
  intro H. rewrite Forall_forall in *. intros x Hx. apply H.
  apply (Permutation_in x (Permutation_sym (sort_by_key_perm l))). exact Hx.
Qed.

End Sort.

(* sorting by a two-valued key is a stable partition *)
Lemma sort_by_bool_key (p : Z -> bool) l :
  sort_by_key (fun c => if p c then 0 else 1) l = filter p l ++ filter (fun c => negb (p c)) l.
Proof.
  symmetry. apply sort_by_key_unique.
  - (* sorted *)
    assert (H1 : forall m, Forall (fun c => p c = false) m -> StronglySorted (key_le (fun c => if p c then 0 else 1)) m).
    { induction m as [|x m IHm]; intro H; constructor.
      - apply IHm. inversion H; assumption.
      - inversion H as [|? ? Hx Hm]; subst. rewrite Forall_forall in *. intros y Hy.
        unfold key_le. rewrite Hx. rewrite (Hm y Hy). lia. }
    assert (H0 : forall m r, Forall (fun c => p c = true) m -> StronglySorted (key_le (fun c => if p c then 0 else 1)) r ->
                             StronglySorted (key_le (fun c => if p c then 0 else 1)) (m ++ r)).
    { induction m as [|x m IHm]; intros r H Hr; cbn [app]; [exact Hr|].
      inversion H as [|? ? Hx Hm]; subst. constructor; [apply IHm; assumption|].
      rewrite Forall_forall. intros y _. unfold key_le. rewrite Hx. destruct (p y); lia. }
    apply H0.
    + rewrite Forall_forall. intros x Hx. apply filter_In in Hx. tauto.
    + apply H1. rewrite Forall_forall. intros x Hx. apply filter_In in Hx.
      destruct Hx as [_ Hx]. destruct (p x); [discriminate|reflexivity].
  - intro k. unfold of_key. rewrite filter_app.
    induction l as [|x t IH]; [reflexivity|]. cbn [filter].
    destruct (p x) eqn:Ep; cbn [negb filter app]; rewrite Ep.
    + destruct (0 =? k); cbn [app]; [f_equal|]; exact IH.
    + destruct (1 =? k) eqn:E1.
      * (* x goes behind the (empty for this key) true part *)
        assert (Hnone : filter (fun c => (if p c then 0 else 1) =? k) (filter p t) = []).
        { clear IH. induction t as [|y t IHt]; [reflexivity|]. cbn [filter].
          destruct (p y) eqn:Ey; [cbn [filter]; rewrite Ey|]; [|exact IHt].
          assert (Hk : (0 =? k) = false) by lia. rewrite Hk. exact IHt. }
        rewrite Hnone in *. cbn [app] in *. f_equal. exact IH.
      * exact IH.
Qed.
