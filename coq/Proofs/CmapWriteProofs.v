(* Proofs/CmapWriteProofs.v — reading back what the owned cmap writers write:
   parse (write_subtable st) = Ok st for the formats the subsetter emits (0, 4, 12), the size
   facts a successful write implies, and the cmap header. *)
From AV Require Import Base.Prelude Base.Lemmas Gen.CmapPrefs Model.MacRoman Model.Cmap Model.CmapSpec
  Model.CmapSubset Proofs.CmapProofs Proofs.CmapParseProofs.
Require Import ZifyBool.
Open Scope Z_scope.

(* ------------------------------------------------------------------------------------------- *)
(* 16 and 32 bit big-endian fields *)

Lemma w16_unfold v : w16 v = [(v mod 65536) / 256 mod 256; (v mod 65536) mod 256].
Proof.
  unfold w16. cbn [be_bytes]. change (256 ^ Z.of_nat 1) with 256. change (256 ^ Z.of_nat 0) with 1.
  rewrite Z.div_1_r. reflexivity.
Qed.

Lemma w16_len v : len (w16 v) = 2.
Proof. rewrite w16_unfold. reflexivity. Qed.

Lemma be_val_w16 v : be_val (w16 v) = v mod 65536.
Proof.
  rewrite w16_unfold. unfold be_val. cbn [fold_left].
  pose proof (Z.mod_pos_bound v 65536 ltac:(lia)) as B. set (x := v mod 65536) in *.
  rewrite (Z.mod_small (x / 256) 256).
  - pose proof (Z.div_mod x 256 ltac:(lia)). lia.
  - split; [apply Z.div_pos; lia | apply Z.div_lt_upper_bound; lia].
Qed.

Lemma take_app_len {A} (a b : list A) n : len a = n -> take n (a ++ b) = a.
Proof.
  intros H. unfold take. replace (Z.to_nat n) with (length a) by (unfold len in H; lia).
  rewrite firstn_app, Nat.sub_diag, firstn_all. cbn [firstn]. apply app_nil_r.
Qed.

Lemma drop_app_len {A} (a b : list A) n : len a = n -> drop n (a ++ b) = b.
Proof.
  intros H. unfold drop. replace (Z.to_nat n) with (length a) by (unfold len in H; lia).
  rewrite skipn_app, Nat.sub_diag, skipn_all. reflexivity.
Qed.

Lemma rd_w16 v rest : rd 2 (w16 v ++ rest) = Ok (v mod 65536, rest).
Proof.
  unfold rd. rewrite len_app, w16_len. pose proof (len_nonneg rest).
  replace (2 <=? 2 + len rest) with true by lia.
  rewrite (take_app_len _ _ 2 (w16_len v)), (drop_app_len _ _ 2 (w16_len v)), be_val_w16. reflexivity.
Qed.

Lemma rd_w16_small v rest : 0 <= v <= 65535 -> rd 2 (w16 v ++ rest) = Ok (v, rest).
Proof. intros H. rewrite rd_w16, Z.mod_small by lia. reflexivity. Qed.

Lemma w32_unfold v :
  w32 v = let x := v mod 4294967296 in
          [x / 16777216 mod 256; x / 65536 mod 256; x / 256 mod 256; x mod 256].
Proof.
  unfold w32. cbn [be_bytes]. change (256 ^ Z.of_nat 3) with 16777216. change (256 ^ Z.of_nat 2) with 65536.
  change (256 ^ Z.of_nat 1) with 256. change (256 ^ Z.of_nat 0) with 1. rewrite Z.div_1_r. reflexivity.
Qed.

Lemma w32_len v : len (w32 v) = 4.
Proof. rewrite w32_unfold. reflexivity. Qed.

Lemma be_val_w32 v : be_val (w32 v) = v mod 4294967296.
Proof.
  rewrite w32_unfold. cbn zeta. unfold be_val. cbn [fold_left].
  pose proof (Z.mod_pos_bound v 4294967296 ltac:(lia)) as B. set (x := v mod 4294967296) in *.
  assert (H3 : x / 16777216 mod 256 = x / 16777216).
  { apply Z.mod_small. split; [apply Z.div_pos; lia | apply Z.div_lt_upper_bound; lia]. }
  rewrite H3.
  pose proof (Z.div_mod x 256 ltac:(lia)) as D0.
  pose proof (Z.div_mod (x / 256) 256 ltac:(lia)) as D1.
  pose proof (Z.div_mod (x / 256 / 256) 256 ltac:(lia)) as D2.
  rewrite !Z.div_div in D1, D2 by lia. rewrite Z.div_div in D2 by lia.
  change (256 * 256) with 65536 in *. change (65536 * 256) with 16777216 in *. lia.
Qed.

Lemma rd_w32 v rest : 0 <= v <= 4294967295 -> rd 4 (w32 v ++ rest) = Ok (v, rest).
Proof.
  intros Hv. unfold rd. rewrite len_app, w32_len. pose proof (len_nonneg rest).
  replace (4 <=? 4 + len rest) with true by lia.
  rewrite (take_app_len _ _ 4 (w32_len v)), (drop_app_len _ _ 4 (w32_len v)), be_val_w32.
  rewrite Z.mod_small by lia. reflexivity.
Qed.

(* arrays of 16 bit fields *)
Lemma w16s_len l : len (w16s l) = 2 * len l.
Proof.
  induction l as [|x t IH]; [reflexivity|]. unfold w16s in *. cbn [flat_map].
  rewrite len_app, w16_len, IH, len_cons. lia.
Qed.

Lemma chunks_w16s l rest : chunks 2 (length l) (w16s l ++ rest) = map w16 l.
Proof.
  induction l as [|x t IH]; [reflexivity|]. unfold w16s in *. cbn [flat_map length chunks map].
  rewrite <- app_assoc. rewrite (take_app_len _ _ 2 (w16_len x)), (drop_app_len _ _ 2 (w16_len x)).
  f_equal. exact IH.
Qed.

Lemma rd_array_w16s l rest :
  rd_array 2 (len l) (w16s l ++ rest) = Ok (map w16 l, rest).
Proof.
  unfold rd_array. rewrite len_app, w16s_len. pose proof (len_nonneg rest).
  replace (len l * 2 <=? 2 * len l + len rest) with true by lia.
  replace (Z.to_nat (len l)) with (length l) by (unfold len; lia).
  rewrite chunks_w16s. rewrite drop_app_len by (rewrite w16s_len; lia). reflexivity.
Qed.

Lemma rd_u16s_w16s l rest : Forall u16 l -> rd_u16s (len l) (w16s l ++ rest) = Ok (l, rest).
Proof.
  intros H. unfold rd_u16s. rewrite rd_array_w16s. cbn [bind]. f_equal. f_equal.
  rewrite map_map. induction H as [|x t Hx Ht IH]; [reflexivity|]. cbn [map].
  rewrite be_val_w16, Z.mod_small by (unfold u16 in Hx; lia). f_equal. exact IH.
Qed.

Lemma to_signed16_of_mod d : i16 d -> to_signed 16 (d mod 65536) = d.
Proof.
  unfold i16, to_signed. intros H. change (2 ^ 16) with 65536. change (2 ^ (16 - 1)) with 32768.
  rewrite Z.mod_mod by lia.
  destruct (Z_lt_dec d 0) as [Hn|Hn].
  - replace (d mod 65536) with (d + 65536).
    + replace (d + 65536 <? 32768) with false by lia. lia.
    + symmetry. replace d with (d + 65536 + (-1) * 65536) at 1 by lia.
      rewrite Z.mod_add by lia. apply Z.mod_small. lia.
  - rewrite Z.mod_small by lia. replace (d <? 32768) with true by lia. reflexivity.
Qed.

Lemma rd_i16s_w16s l rest : Forall i16 l -> rd_i16s (len l) (w16s l ++ rest) = Ok (l, rest).
Proof.
  intros H. unfold rd_i16s. rewrite rd_array_w16s. cbn [bind]. f_equal. f_equal.
  rewrite map_map. induction H as [|x t Hx Ht IH]; [reflexivity|]. cbn [map].
  rewrite be_val_w16, to_signed16_of_mod by exact Hx. f_equal. exact IH.
Qed.

Lemma ok_inj {A} (a b : A) : @Ok A a = Ok b -> a = b.
Proof. intros H. congruence. Qed.

(* ------------------------------------------------------------------------------------------- *)
(* format 4 *)

Lemma write_f4_bounds m l ends starts deltas ros gids bytes :
  write_subtable m (F4 l ends starts deltas ros gids) = Ok bytes ->
  len starts <= 32767 /\
  16 + 2 * (len ends + len starts + len deltas + len ros + len gids) <= 65535.
Proof.
  cbn [write_subtable]. intros H.
  destruct (65535 <? len starts) eqn:E1; [discriminate|].
  destruct (32768 <=? len starts) eqn:E2; [destruct m; discriminate|].
  match type of H with (if ?b then _ else _) = _ => destruct b eqn:E3; [|discriminate] end.
  rewrite !len_app, !w16_len, !w16s_len in E3. lia.
Qed.

Theorem parse_write_f4 m l ends starts deltas ros gids bytes :
  u16 l -> Forall u16 ends -> Forall u16 starts -> Forall i16 deltas -> Forall u16 ros -> Forall u16 gids ->
  len ends = len starts -> len deltas = len starts -> len ros = len starts ->
  write_subtable m (F4 l ends starts deltas ros gids) = Ok bytes ->
  parse bytes = Ok (F4 l ends starts deltas ros gids).
Proof.
  intros Hl He Hs Hd Hr Hg Le Ld Lr H.
  destruct (write_f4_bounds _ _ _ _ _ _ _ _ H) as [Bn Bl].
  cbn [write_subtable] in H.
  replace (65535 <? len starts) with false in H by lia.
  replace (32768 <=? len starts) with false in H by lia.
  match type of H with (if ?b then _ else _) = _ => destruct b eqn:E3; [|discriminate] end.
  apply ok_inj in H. subst bytes.
  pose proof (len_nonneg starts) as Hn. pose proof (len_nonneg gids) as Hgn.
  set (n := len starts) in *.
  rewrite !len_app, !w16_len, !w16s_len in *. rewrite Le, Ld, Lr in *. fold n in E3 |- *.
  unfold parse, rd_u16. rewrite rd_w16_small by lia. cbn [bind].
  change (4 =? 0) with false. change (4 =? 2) with false. change (4 =? 4) with true. cbv iota.
  unfold parse4, rd_u16.
  rewrite rd_w16_small by lia. cbn [bind].
  rewrite rd_w16_small by (unfold u16 in Hl; lia). cbn [bind].
  rewrite rd_w16_small by lia. cbn [bind].
  replace (Z.even (2 * n)) with true by (rewrite Z.even_mul; reflexivity). cbn [check bind].
  replace (2 * n / 2) with n by (rewrite Z.mul_comm, Z.div_mul; lia).
  rewrite rd_w16. cbn [bind]. rewrite rd_w16. cbn [bind]. rewrite rd_w16. cbn [bind].
  replace n with (len ends) at 1 by lia. rewrite rd_u16s_w16s by exact He. cbn [bind].
  rewrite rd_w16. cbn [bind].
  unfold n at 1. rewrite rd_u16s_w16s by exact Hs. cbn [bind].
  replace n with (len deltas) at 1 by lia. rewrite rd_i16s_w16s by exact Hd. cbn [bind].
  replace n with (len ros) at 1 by lia. rewrite rd_u16s_w16s by exact Hr. cbn [bind].
  match goal with |- context [check ?b] => replace b with true by lia end. cbn [check bind].
  match goal with |- context [check (Z.even ?x)] => replace x with (2 * len gids) by lia end.
  replace (Z.even (2 * len gids)) with true by (rewrite Z.even_mul; reflexivity). cbn [check bind].
  replace (2 * len gids / 2) with (len gids) by (rewrite Z.mul_comm, Z.div_mul; lia).
  rewrite <- (app_nil_r (w16s gids)). rewrite rd_u16s_w16s by exact Hg. cbn [bind]. reflexivity.
Qed.

(* ------------------------------------------------------------------------------------------- *)
(* format 12 *)

Lemma write_group_len g : len (write_group g) = 12.
Proof. unfold write_group. rewrite !len_app, !w32_len. reflexivity. Qed.

Lemma decode_write_group g :
  u32 (g_start g) -> u32 (g_end g) -> u32 (g_gid g) -> decode_group (write_group g) = g.
Proof.
  intros H1 H2 H3. unfold decode_group, write_group, u32 in *.
  rewrite (take_app_len _ _ 4 (w32_len _)).
  rewrite (drop_app_len (w32 (g_start g)) _ 4 (w32_len _)).
  rewrite (take_app_len _ _ 4 (w32_len _)).
  replace (drop 8 (w32 (g_start g) ++ w32 (g_end g) ++ w32 (g_gid g))) with (w32 (g_gid g)).
  2:{ rewrite app_assoc. symmetry. apply drop_app_len. rewrite len_app, !w32_len. reflexivity. }
  rewrite <- (app_nil_r (w32 (g_gid g))) at 1. rewrite (take_app_len _ _ 4 (w32_len _)).
  rewrite !be_val_w32, !Z.mod_small by lia. destruct g; reflexivity.
Qed.

Lemma chunks_groups gs rest :
  chunks 12 (length gs) (flat_map write_group gs ++ rest) = map write_group gs.
Proof.
  induction gs as [|g t IH]; [reflexivity|]. cbn [flat_map length chunks map].
  rewrite <- app_assoc. rewrite (take_app_len _ _ 12 (write_group_len g)), (drop_app_len _ _ 12 (write_group_len g)).
  f_equal. exact IH.
Qed.

Lemma flat_groups_len gs : len (flat_map write_group gs) = 12 * len gs.
Proof.
  induction gs as [|g t IH]; [reflexivity|]. cbn [flat_map]. rewrite len_app, write_group_len, IH, len_cons. lia.
Qed.

Theorem parse_write_f12 m l groups bytes :
  u32 l -> Forall (fun g => u32 (g_start g) /\ u32 (g_end g) /\ u32 (g_gid g)) groups ->
  write_subtable m (F12 l groups) = Ok bytes ->
  parse bytes = Ok (F12 l groups).
Proof.
  intros Hl Hg H. cbn [write_subtable] in H.
  match type of H with (if ?b then _ else _) = _ => destruct b eqn:E; [|discriminate] end.
  apply ok_inj in H. subst bytes. pose proof (len_nonneg groups) as Hn.
  unfold parse, rd_u16. rewrite rd_w16_small by lia. cbn [bind].
  change (12 =? 0) with false. change (12 =? 2) with false. change (12 =? 4) with false.
  change (12 =? 6) with false. change (12 =? 10) with false. change (12 =? 12) with true. cbv iota.
  unfold parse12, rd_u16, rd_u32.
  rewrite rd_w16_small by lia. cbn [bind]. change (0 =? 0) with true. cbn [check bind].
  rewrite rd_w32 by lia. cbn [bind].
  rewrite rd_w32 by (unfold u32 in Hl; lia). cbn [bind].
  rewrite rd_w32 by lia. cbn [bind].
  unfold rd_array. rewrite flat_groups_len.
  replace (len groups * 12 <=? 12 * len groups) with true by lia. cbn [bind].
  replace (Z.to_nat (len groups)) with (length groups) by (unfold len; lia).
  rewrite <- (app_nil_r (flat_map write_group groups)). rewrite chunks_groups.
  rewrite map_map. f_equal. f_equal. clear E Hn.
  induction Hg as [|g t (H1 & H2 & H3) Ht IH]; [reflexivity|]. cbn [map].
  rewrite decode_write_group by assumption. f_equal. exact IH.
Qed.

(* ------------------------------------------------------------------------------------------- *)
(* format 0 *)

Lemma chunks_bytes l rest : chunks 1 (length l) (l ++ rest) = map (fun b => [b]) l.
Proof.
  induction l as [|b t IH]; [reflexivity|]. cbn [length chunks map].
  change ((b :: t) ++ rest) with ([b] ++ (t ++ rest)).
  rewrite (take_app_len [b] _ 1 eq_refl), (drop_app_len [b] _ 1 eq_refl). f_equal. exact IH.
Qed.

Theorem parse_write_f0 m l gids bytes :
  u16 l -> len gids = 256 -> Forall (fun g => 0 <= g <= 255) gids ->
  write_subtable m (F0 l gids) = Ok bytes ->
  parse bytes = Ok (F0 l gids).
Proof.
  intros Hl Hn Hg H. cbn [write_subtable] in H. apply ok_inj in H. subst bytes. rewrite Hn.
  unfold parse, rd_u16. rewrite rd_w16_small by lia. cbn [bind]. change (0 =? 0) with true. cbv iota.
  unfold parse0, rd_u16. rewrite rd_w16_small by lia. cbn [bind].
  change (3 * 2 + 256 <=? 3 * 2 + 256) with true. cbn [check bind].
  rewrite rd_w16_small by (unfold u16 in Hl; lia). cbn [bind].
  unfold rd_u8s, rd_array. rewrite Hn. change (256 * 1 <=? 256) with true. cbn [bind].
  replace (Z.to_nat 256) with (length gids) by (unfold len in Hn; lia).
  replace (chunks 1 (length gids) gids) with (chunks 1 (length gids) (gids ++ []))
    by (rewrite app_nil_r; reflexivity).
  rewrite chunks_bytes. rewrite map_map.
  f_equal. f_equal. clear Hn. induction gids as [|b t IH]; [reflexivity|]. cbn [map].
  change (be_val [b]) with (0 * 256 + b). rewrite IH by (eapply Forall_inv_tail; exact Hg).
  f_equal.
Qed.

(* ------------------------------------------------------------------------------------------- *)
(* the cmap table with its single encoding record *)

Lemma write_cmap_read m r bytes sub :
  u16 (r_platform r) -> u16 (r_encoding r) ->
  write_subtable m (r_subtable r) = Ok sub ->
  write_cmap m r = Ok bytes ->
  parse_cmap bytes = Ok [ {| er_platform := r_platform r; er_encoding := r_encoding r; er_offset := 12 |} ] /\
  slice_from bytes 12 = sub.
Proof.
  intros Hp He Hs H. unfold write_cmap in H. rewrite Hs in H. cbn [bind] in H. apply ok_inj in H. subst bytes.
  split.
  - unfold parse_cmap, rd_u16. rewrite rd_w16_small by lia. cbn [bind]. change (0 =? 0) with true. cbn [check bind].
    rewrite rd_w16_small by lia. cbn [bind].
    unfold rd_array. rewrite !len_app, !w16_len, w32_len. pose proof (len_nonneg sub).
    replace (1 * 8 <=? 2 + (2 + (4 + len sub))) with true by lia. cbn [bind].
    change (Z.to_nat 1) with 1%nat. cbn [chunks map]. f_equal. f_equal.
    rewrite !app_assoc. rewrite <- !app_assoc.
    assert (H8 : len (w16 (r_platform r) ++ w16 (r_encoding r) ++ w32 12) = 8)
      by (rewrite !len_app, !w16_len, w32_len; reflexivity).
    replace (w16 (r_platform r) ++ w16 (r_encoding r) ++ w32 12 ++ sub)
      with ((w16 (r_platform r) ++ w16 (r_encoding r) ++ w32 12) ++ sub) by (rewrite <- !app_assoc; reflexivity).
    rewrite (take_app_len _ _ 8 H8).
    unfold decode_enc_rec.
    rewrite (take_app_len _ _ 2 (w16_len _)), (drop_app_len (w16 (r_platform r)) _ 2 (w16_len _)).
    rewrite (take_app_len _ _ 2 (w16_len _)).
    replace (drop 4 (w16 (r_platform r) ++ w16 (r_encoding r) ++ w32 12)) with (w32 12).
    2:{ rewrite app_assoc. symmetry. apply drop_app_len. rewrite len_app, !w16_len. reflexivity. }
    rewrite <- (app_nil_r (w32 12)). rewrite (take_app_len _ _ 4 (w32_len _)).
    rewrite !be_val_w16, be_val_w32. unfold u16 in *. rewrite !Z.mod_small by lia. reflexivity.
  - unfold slice_from. rewrite !len_app, !w16_len, w32_len. pose proof (len_nonneg sub).
    replace (12 <=? 2 + (2 + (2 + (2 + (4 + len sub))))) with true by lia.
    fold (drop 12 (w16 0 ++ w16 1 ++ w16 (r_platform r) ++ w16 (r_encoding r) ++ w32 12 ++ sub)).
    replace (w16 0 ++ w16 1 ++ w16 (r_platform r) ++ w16 (r_encoding r) ++ w32 12 ++ sub)
      with ((w16 0 ++ w16 1 ++ w16 (r_platform r) ++ w16 (r_encoding r) ++ w32 12) ++ sub)
      by (rewrite <- !app_assoc; reflexivity).
    apply drop_app_len. rewrite !len_app, !w16_len, w32_len. reflexivity.
Qed.
