(* Proofs/ContainerTotal.v — the container readers are total: for EVERY byte string, member index
   and tag they return a value or an error, never Panic / OOB (part of C01). *)
From AV Require Import Base.Prelude Base.Lemmas Gen.ReaderPrims Model.Reader Model.ReaderExt
  Proofs.ReaderProofs Gen.ContainerLayouts Model.Container.
From Coq Require Import ZifyBool ZifyNat.
Ltac Zify.zify_post_hook ::= Z.div_mod_to_equations.
Open Scope Z_scope.

Lemma read_prim_ok_inv p c v c' : cinv c -> read_prim p c = Ok (v, c') -> cinv c' /\ sc c' = sc c.
Proof.
  intros Hc H. split; [eapply read_prim_inv; eauto|].
  unfold read_prim in H. destruct (check_avail c (checked_avail p)) eqn:E; [|discriminate].
  pose proof (prim_ok_all p) as Hp. unfold prim_ok in Hp. repeat rewrite andb_true_iff in Hp.
  destruct Hp as [[[[[_ _] _] Hchk] _] _]. apply Z.eqb_eq in Hchk. rewrite Hchk in E.
  pose proof (prim_size_pos p). destruct Hc as [Hc1 Hc2].
  apply check_avail_true in E; try lia. rewrite read_unchecked_ok in H by lia. injection H as _ <-. reflexivity.
Qed.

Lemma read_seq_defined t : forall c, cinv c -> defined (read_seq t c).
Proof.
  induction t as [|p t IH]; intros c Hc; cbn [read_seq]; [apply defined_ok|].
  apply defined_bind; [apply read_prim_defined; assumption|]. intros [v c1] H1.
  apply read_prim_ok_inv in H1; [|assumption]. destruct H1 as [Hc1 _].
  apply defined_bind; [apply IH; assumption|]. intros [vs c2] _. apply defined_ok.
Qed.

Lemma read_seq_ok_inv t : forall c vs c', cinv c -> read_seq t c = Ok (vs, c') -> cinv c' /\ sc c' = sc c.
Proof.
  induction t as [|p t IH]; intros c vs c' Hc H; cbn [read_seq] in H.
  - injection H as _ <-. split; [assumption|reflexivity].
  - apply bind_ok in H. destruct H as [[v c1] [H1 H]].
    apply bind_ok in H. destruct H as [[vs' c2] [H2 H]]. injection H as _ <-.
    apply read_prim_ok_inv in H1; [|assumption]. destruct H1 as [Hc1 Hs1].
    apply IH in H2; [|assumption]. destruct H2 as [Hc2 Hs2]. split; [assumption|congruence].
Qed.

Lemma read_records_defined t c n : cinv c -> 0 <= n -> 0 < ty_size t -> defined (read_records t c n).
Proof.
  intros Hc Hn Ht. unfold read_records. rewrite read_array_is_stride.
  pose proof (read_array_stride_defined Debug t c n (ty_size t) Hc Hn (ty_size_nonneg t)) as [[[a c'] H]|[e H]];
    rewrite H; cbn [bind]; [|apply defined_err].
  apply read_array_stride_inv in H; auto; [|lia]. destruct H as [_ [Ha [Hs _]]].
  apply defined_bind; [|intros; apply defined_ok].
  unfold arr_to_vec. apply iter_collect_defined; auto. destruct Ha; lia.
Qed.

Lemma read_records_ok_inv t c n recs c' : cinv c -> 0 <= n -> 0 < ty_size t ->
  read_records t c n = Ok (recs, c') -> cinv c' /\ sc c' = sc c.
Proof.
  intros Hc Hn Ht H. unfold read_records in H. rewrite read_array_is_stride in H.
  apply bind_ok in H. destruct H as [[a c1] [H1 H]].
  apply bind_ok in H. destruct H as [items [_ H]]. injection H as _ <-.
  apply read_array_stride_inv in H1; auto; [|lia]. tauto.
Qed.

Lemma be_val_nonneg l : bytes_ok l = true -> 0 <= be_val l.
Proof.
  unfold be_val. assert (forall acc, 0 <= acc -> bytes_ok l = true ->
    0 <= fold_left (fun acc b => acc * 256 + b) l acc) as G.
  { induction l as [|x l IH]; intros acc Ha Hb; [exact Ha|]. cbn [fold_left].
    unfold bytes_ok in Hb. cbn [forallb] in Hb. apply andb_true_iff in Hb. destruct Hb as [Hx Hl].
    unfold byte_ok in Hx. apply IH; [lia|exact Hl]. }
  intros. apply G; [lia|assumption].
Qed.

Lemma read_prim_nonneg p c v c' : prim_signed p = false -> bytes_ok (data (sc c)) = true -> cinv c ->
  read_prim p c = Ok (v, c') -> 0 <= v.
Proof.
  intros Hs Hb Hc H. destruct (read_prim_exact p c Hb Hc) as [[_ H']|[_ H']]; rewrite H' in H; [|discriminate].
  injection H as <- _. unfold decode_prim. rewrite Hs. apply be_val_nonneg.
  apply bytes_ok_take, bytes_ok_drop, Hb.
Qed.

Lemma read_seq_nonneg t : forall c vs c', forallb (fun p => negb (prim_signed p)) t = true ->
  bytes_ok (data (sc c)) = true -> cinv c -> read_seq t c = Ok (vs, c') -> Forall (fun v => 0 <= v) vs.
Proof.
  induction t as [|p t IH]; intros c vs c' Hu Hb Hc H; cbn [read_seq] in H.
  - injection H as <- _. constructor.
  - cbn [forallb] in Hu. apply andb_true_iff in Hu. destruct Hu as [Hp Ht].
    apply bind_ok in H. destruct H as [[v c1] [H1 H]].
    apply bind_ok in H. destruct H as [[vs' c2] [H2 H]]. injection H as <- _.
    pose proof (read_prim_ok_inv _ _ _ _ Hc H1) as [Hc1 Hs1].
    constructor.
    + eapply read_prim_nonneg; eauto. destruct (prim_signed p); [discriminate|reflexivity].
    + eapply IH; [exact Ht| |exact Hc1|exact H2]. rewrite Hs1. exact Hb.
Qed.

Lemma hd_nonneg vs : Forall (fun v => 0 <= v) vs -> 0 <= hd 0 vs.
Proof. intros H. destruct H; cbn [hd]; lia. Qed.
Lemma nth_nonneg vs k : Forall (fun v => 0 <= v) vs -> 0 <= nth k vs 0.
Proof. intros H. revert k. induction H; intros [|k]; cbn [nth]; auto; lia. Qed.

Lemma read_offset_table_defined c : cinv c -> bytes_ok (data (sc c)) = true -> defined (read_offset_table c).
Proof.
  intros Hc Hb. unfold read_offset_table.
  apply defined_bind; [apply read_prim_defined; assumption|]. intros [ver c1] H1.
  pose proof (read_prim_ok_inv _ _ _ _ Hc H1) as [Hc1 Hs1].
  destruct (is_sfnt_magic ver); [|apply defined_err].
  apply defined_bind; [apply read_seq_defined; assumption|]. intros [hdr c2] H2.
  pose proof (read_seq_ok_inv _ _ _ _ Hc1 H2) as [Hc2 Hs2].
  assert (0 <= hd 0 hdr) as Hn.
  { apply hd_nonneg. eapply read_seq_nonneg; [| |exact Hc1|exact H2]; [reflexivity|congruence]. }
  apply defined_bind; [apply read_records_defined; auto; reflexivity|]. intros [recs c3] _. apply defined_ok.
Qed.

Lemma read_ttc_header_defined c : cinv c -> bytes_ok (data (sc c)) = true -> defined (read_ttc_header c).
Proof.
  intros Hc Hb. unfold read_ttc_header.
  apply defined_bind; [apply read_prim_defined; assumption|]. intros [tg c1] H1.
  pose proof (read_prim_ok_inv _ _ _ _ Hc H1) as [Hc1 Hs1].
  destruct (tg =? TTCF_MAGIC); [|apply defined_err].
  apply defined_bind; [apply read_seq_defined; assumption|]. intros [v c2] H2.
  pose proof (read_seq_ok_inv _ _ _ _ Hc1 H2) as [Hc2 Hs2].
  destruct ((hd 0 v =? 1) || (hd 0 v =? 2)); [|apply defined_err].
  apply defined_bind; [apply read_seq_defined; assumption|]. intros [nf c3] H3.
  pose proof (read_seq_ok_inv _ _ _ _ Hc2 H3) as [Hc3 Hs3].
  assert (0 <= hd 0 nf) as Hn.
  { apply hd_nonneg. eapply read_seq_nonneg; [| |exact Hc2|exact H3]; [reflexivity|congruence]. }
  apply defined_bind; [apply read_records_defined; auto; reflexivity|]. intros [offs c4] _. apply defined_ok.
Qed.

Definition file_ok (s : scope) : Prop := dlen s < USIZE /\ bytes_ok (data s) = true.

Lemma read_opentype_defined s : file_ok s -> defined (read_opentype s).
Proof.
  intros [Hl Hb]. assert (cinv (ctxt_new s)) as Hc by (apply cinv_new; exact Hl).
  unfold read_opentype.
  apply defined_bind; [apply read_prim_defined; assumption|]. intros [magic c1] _.
  destruct (is_sfnt_magic magic).
  - apply defined_bind; [apply read_offset_table_defined; assumption|]. intros [ot c2] _. apply defined_ok.
  - destruct (magic =? TTCF_MAGIC); [|apply defined_err].
    apply defined_bind; [apply read_ttc_header_defined; assumption|]. intros [offs c2] _. apply defined_ok.
Qed.

Lemma ot_member_defined s d idx : file_ok s -> defined (ot_member s d idx).
Proof.
  intros [Hl Hb]. destruct d as [ot|offs]; cbn [ot_member]; [apply defined_ok|].
  destruct (nth_safe offs idx) as [off|]; [|apply defined_err].
  unfold scope_offset, wadd. cbn [bind].
  set (s' := {| base := (base s + off) mod USIZE; data := slice_from (data s) off |}).
  assert (dlen s' <= dlen s) as Hd by (unfold s', dlen; cbn [data]; apply len_slice_from_le).
  apply defined_bind; [|intros [ot c] _; apply defined_ok].
  apply read_offset_table_defined.
  - apply cinv_new. unfold sinv. lia.
  - cbn [ctxt_new sc]. unfold s'; cbn [data]. apply bytes_ok_slice_from. exact Hb.
Qed.

Lemma read_woff_defined s : file_ok s -> defined (read_woff s).
Proof.
  intros [Hl Hb]. assert (cinv (ctxt_new s)) as Hc by (apply cinv_new; exact Hl).
  unfold read_woff.
  apply defined_bind; [apply read_prim_defined; assumption|]. intros [sig c1] H1.
  pose proof (read_prim_ok_inv _ _ _ _ Hc H1) as [Hc1 Hs1].
  destruct (sig =? WOFF_MAGIC); [|apply defined_err].
  apply defined_bind; [apply read_seq_defined; assumption|]. intros [h1 c2] H2.
  pose proof (read_seq_ok_inv _ _ _ _ Hc1 H2) as [Hc2 Hs2].
  destruct (nth 3 h1 1 =? 0); [|apply defined_err].
  apply defined_bind; [apply read_seq_defined; assumption|]. intros [h2 c3] H3.
  pose proof (read_seq_ok_inv _ _ _ _ Hc2 H3) as [Hc3 Hs3].
  assert (0 <= nth 2 h1 0) as Hn.
  { apply nth_nonneg. eapply read_seq_nonneg; [| |exact Hc1|exact H2]; [reflexivity|rewrite Hs1; exact Hb]. }
  apply defined_bind; [apply read_records_defined; auto; reflexivity|]. intros [entries c4] _. apply defined_ok.
Qed.

(* FontData::read + table_provider(index): total on every byte string and every index *)
Theorem font_provider_total s idx : file_ok s -> defined (font_provider s idx).
Proof.
  intros Hf. pose proof Hf as [Hl Hb]. assert (cinv (ctxt_new s)) as Hc by (apply cinv_new; exact Hl).
  unfold font_provider.
  apply defined_bind; [apply read_prim_defined; assumption|]. intros [magic c1] _.
  destruct (is_sfnt_magic magic || (magic =? TTCF_MAGIC)).
  - apply defined_bind; [apply read_opentype_defined; assumption|]. intros d _.
    apply defined_bind; [apply ot_member_defined; assumption|]. intros ot _. apply defined_ok.
  - destruct (magic =? WOFF_MAGIC).
    + apply defined_bind; [apply read_woff_defined; assumption|]. intros w _. apply defined_ok.
    + destruct (magic =? WOFF2_MAGIC); apply defined_err.
Qed.

(* table_data: total for every provider value, tag and decoder behaviour *)
Theorem provider_table_total inflate s p tag : defined (provider_table inflate s p tag).
Proof.
  destruct p as [ot|w]; cbn [provider_table].
  - unfold ot_table_data. destruct (find_record tag (ot_records ot)); [|apply defined_ok].
    apply defined_bind; [apply offset_length_defined|]. intros; apply defined_ok.
  - unfold woff_table_data. destruct (find_record tag (w_entries w)) as [e|]; [|apply defined_ok].
    apply defined_bind; [apply offset_length_defined|]. intros t _.
    destruct (negb (nth 2 e 0 =? nth 3 e 0)); [|apply defined_ok].
    destruct (inflate (data t)); [apply defined_ok|apply defined_err].
Qed.
