(* Proofs/EncodeProofs.v — big-endian spec encoders and "read after write" lemmas for the reader
   model; shared by the container / table round-trip properties. *)
From AV Require Import Base.Prelude Base.Lemmas Gen.ReaderPrims Model.Reader Model.ReaderExt Proofs.ReaderProofs.
From Coq Require Import ZifyBool ZifyNat.
Ltac Zify.zify_post_hook ::= Z.div_mod_to_equations.
Open Scope Z_scope.

(* ---------- be_bytes / be_val *)
Lemma be_bytes_length n v : length (be_bytes n v) = n.
Proof. induction n; cbn [be_bytes length]; auto. Qed.

Lemma len_be_bytes n v : len (be_bytes n v) = Z.of_nat n.
Proof. unfold len. rewrite be_bytes_length. reflexivity. Qed.

Lemma be_bytes_ok n v : bytes_ok (be_bytes n v) = true.
Proof.
  induction n; cbn [be_bytes]; [reflexivity|]. unfold bytes_ok in *. cbn [forallb]. rewrite IHn.
  rewrite andb_true_r. unfold byte_ok.
  pose proof (Z.mod_pos_bound (v / 256 ^ Z.of_nat n) 256 ltac:(lia)). lia.
Qed.

Lemma be_fold_acc l : forall acc,
  fold_left (fun acc b => acc * 256 + b) l acc = acc * 256 ^ len l + fold_left (fun acc b => acc * 256 + b) l 0.
Proof.
  induction l as [|x l IH]; intros acc.
  - cbn. change (len (@nil Z)) with 0. lia.
  - cbn [fold_left]. rewrite (IH (acc * 256 + x)). rewrite (IH (0 * 256 + x)).
    rewrite len_cons. rewrite Z.pow_add_r by (try apply len_nonneg; lia). lia.
Qed.

Lemma be_val_app a b : be_val (a ++ b) = be_val a * 256 ^ len b + be_val b.
Proof. unfold be_val. rewrite fold_left_app. apply be_fold_acc. Qed.

Lemma be_val_be_bytes_mod n : forall v, be_val (be_bytes n v) = v mod 256 ^ Z.of_nat n.
Proof.
  induction n as [|n IH]; intros v.
  - cbn. unfold be_val; cbn. rewrite Z.mod_1_r. reflexivity.
  - cbn [be_bytes]. change (?x :: be_bytes n v) with ([x] ++ be_bytes n v).
    rewrite be_val_app, len_be_bytes, IH.
    assert (0 < 256 ^ Z.of_nat n) by (apply Z.pow_pos_nonneg; lia).
    replace (256 ^ Z.of_nat (S n)) with (256 ^ Z.of_nat n * 256)
      by (rewrite Nat2Z.inj_succ; rewrite Z.pow_succ_r by lia; lia).
    rewrite Z.rem_mul_r by lia. unfold be_val; cbn [fold_left]. lia.
Qed.

Lemma be_val_be_bytes n v : 0 <= v < 256 ^ Z.of_nat n -> be_val (be_bytes n v) = v.
Proof. intros. rewrite be_val_be_bytes_mod. apply Z.mod_small; lia. Qed.

(* ---------- primitive and tuple encoders (unsigned values; signed ones are given as their
   two's-complement unsigned representative by callers that need them) *)
Definition enc_prim (p : prim) (v : Z) : list Z := be_bytes (Z.to_nat (spec_size p)) v.
Definition prim_val_ok (p : prim) (v : Z) : Prop := prim_signed p = false /\ 0 <= v < 256 ^ spec_size p.

Fixpoint enc_seq (t : ty) (vs : list Z) : list Z :=
  match t, vs with
  | p :: t', v :: vs' => enc_prim p v ++ enc_seq t' vs'
  | _, _ => []
  end.
Fixpoint seq_ok (t : ty) (vs : list Z) : Prop :=
  match t, vs with
  | [], [] => True
  | p :: t', v :: vs' => prim_val_ok p v /\ seq_ok t' vs'
  | _, _ => False
  end.

Lemma len_enc_prim p v : len (enc_prim p v) = spec_size p.
Proof. unfold enc_prim. rewrite len_be_bytes. pose proof (spec_size_nonneg p). lia. Qed.

Lemma decode_enc_prim p v : prim_val_ok p v -> decode_prim p (enc_prim p v) = v.
Proof.
  intros [Hs Hv]. unfold decode_prim, enc_prim. rewrite Hs.
  apply be_val_be_bytes. pose proof (spec_size_nonneg p). rewrite Z2Nat.id by lia. exact Hv.
Qed.

Lemma len_enc_seq t : forall vs, seq_ok t vs -> len (enc_seq t vs) = ty_size t.
Proof.
  induction t as [|p t IH]; intros [|v vs] H; cbn [seq_ok] in H; try contradiction; [reflexivity|].
  cbn [enc_seq]. change (ty_size (p :: t)) with (prim_size p + ty_size t).
  rewrite len_app. rewrite len_enc_prim. rewrite (prim_size_spec p). rewrite IH by tauto. reflexivity.
Qed.

Lemma enc_seq_ok t : forall vs, bytes_ok (enc_seq t vs) = true.
Proof.
  induction t as [|p t IH]; intros [|v vs]; try reflexivity.
  cbn [enc_seq]. rewrite bytes_ok_app. unfold enc_prim. rewrite be_bytes_ok, IH. reflexivity.
Qed.

Lemma take_app_exact {A} (a b : list A) : take (len a) (a ++ b) = a.
Proof. unfold take, len. rewrite Nat2Z.id. rewrite firstn_app, Nat.sub_diag. cbn. rewrite firstn_all, app_nil_r. reflexivity. Qed.
Lemma drop_app_exact {A} (a b : list A) : drop (len a) (a ++ b) = b.
Proof. unfold drop, len. rewrite Nat2Z.id. rewrite skipn_app, Nat.sub_diag. cbn. rewrite skipn_all. reflexivity. Qed.

Lemma decode_enc_seq t : forall vs rest, seq_ok t vs ->
  decode_ty t (enc_seq t vs ++ rest) = vs.
Proof.
  induction t as [|p t IH]; intros [|v vs] rest H; cbn [seq_ok] in H; try contradiction; [reflexivity|].
  destruct H as [Hp Hr]. cbn [enc_seq decode_ty]. rewrite <- app_assoc.
  rewrite <- (len_enc_prim p v). rewrite take_app_exact, drop_app_exact.
  rewrite decode_enc_prim by assumption. rewrite IH by assumption. reflexivity.
Qed.

(* ---------- reading what was written *)
Lemma read_prim_written p c v rest :
  cinv c -> bytes_ok (data (sc c)) = true -> prim_val_ok p v ->
  drop (off c) (data (sc c)) = enc_prim p v ++ rest ->
  read_prim p c = Ok (v, {| sc := sc c; off := off c + spec_size p |}).
Proof.
  intros Hc Hb Hv Hd.
  assert (off c + spec_size p <= dlen (sc c)) as Hle.
  { destruct Hc as [Hc _]. unfold dlen.
    assert (len (drop (off c) (data (sc c))) = len (data (sc c)) - off c) as Hl by (apply len_drop; unfold dlen in *; lia).
    rewrite Hd in Hl. rewrite len_app, len_enc_prim in Hl. pose proof (len_nonneg rest). lia. }
  destruct (read_prim_exact p c Hb Hc) as [[_ H]|[H _]]; [|lia].
  rewrite H. rewrite Hd. rewrite <- (len_enc_prim p v). rewrite take_app_exact.
  rewrite decode_enc_prim by assumption. rewrite len_enc_prim. reflexivity.
Qed.

Lemma read_seq_written t : forall c vs rest,
  cinv c -> bytes_ok (data (sc c)) = true -> seq_ok t vs ->
  drop (off c) (data (sc c)) = enc_seq t vs ++ rest ->
  read_seq t c = Ok (vs, {| sc := sc c; off := off c + ty_size t |}).
Proof.
  induction t as [|p t IH]; intros c vs rest Hc Hb Hok Hd; destruct vs as [|v vs]; cbn [seq_ok] in Hok; try contradiction.
  - cbn. destruct c; cbn. repeat f_equal. lia.
  - destruct Hok as [Hp Hr]. cbn [enc_seq] in Hd. rewrite <- app_assoc in Hd.
    cbn [read_seq]. rewrite (read_prim_written p c v _ Hc Hb Hp Hd). cbn [bind]; cbv beta iota.
    pose proof (spec_size_nonneg p) as Hsz. destruct Hc as [Hc1 Hc2].
    assert (off c + spec_size p <= dlen (sc c)) as Hle.
    { unfold dlen. assert (len (drop (off c) (data (sc c))) = len (data (sc c)) - off c) as Hl
        by (apply len_drop; unfold dlen in *; lia).
      rewrite Hd in Hl. rewrite len_app, len_enc_prim in Hl. pose proof (len_nonneg (enc_seq t vs ++ rest)). lia. }
    rewrite (IH {| sc := sc c; off := off c + spec_size p |} vs rest); cbn [sc off].
    + cbn [bind]; cbv beta iota. change (ty_size (p :: t)) with (prim_size p + ty_size t).
      rewrite (prim_size_spec p). rewrite Z.add_assoc. reflexivity.
    + unfold cinv; cbn [sc off]. split; [lia|exact Hc2].
    + exact Hb.
    + exact Hr.
    + rewrite Z.add_comm. rewrite <- drop_drop by lia. rewrite Hd.
      rewrite <- (len_enc_prim p v). apply drop_app_exact.
Qed.

(* ---------- arrays of records *)
Definition enc_records (t : ty) (recs : list (list Z)) : list Z := concat (map (enc_seq t) recs).

Lemma len_enc_records t recs : Forall (seq_ok t) recs -> len (enc_records t recs) = len recs * ty_size t.
Proof.
  induction recs as [|r recs IH]; intros H; [reflexivity|].
  inversion H as [|? ? Hr Hrest]; subst. unfold enc_records in *. cbn [map concat].
  rewrite len_app, len_cons, len_enc_seq by assumption. rewrite IH by assumption. lia.
Qed.

Lemma enc_records_ok t recs : bytes_ok (enc_records t recs) = true.
Proof.
  induction recs as [|r recs IH]; [reflexivity|]. unfold enc_records in *. cbn [map concat].
  rewrite bytes_ok_app, enc_seq_ok, IH. reflexivity.
Qed.

Lemma drop_enc_records t : forall recs (i : nat) rest, Forall (seq_ok t) recs -> (i < length recs)%nat ->
  exists rest', drop (Z.of_nat i * ty_size t) (enc_records t recs ++ rest) = enc_seq t (nth i recs []) ++ rest'.
Proof.
  induction recs as [|r recs IH]; intros i rest H Hi; cbn [length] in Hi; [lia|].
  inversion H as [|? ? Hr Hrest]; subst. unfold enc_records in *. cbn [map concat]. rewrite <- app_assoc.
  destruct i as [|i].
  - cbn [nth]. rewrite Z.mul_0_l, drop_0. eauto.
  - cbn [nth]. replace (Z.of_nat (S i) * ty_size t) with (Z.of_nat i * ty_size t + ty_size t) by lia.
    pose proof (ty_size_nonneg t).
    rewrite <- drop_drop by lia. rewrite <- (len_enc_seq t r Hr). rewrite drop_app_exact.
    rewrite (len_enc_seq t r Hr). apply IH; [assumption|lia].
Qed.

Lemma map_range_nth {A} (d : A) : forall (l : list A) (s : Z) (f : Z -> A),
  (forall i, (i < length l)%nat -> f (s + Z.of_nat i) = nth i l d) ->
  map f (range s (length l)) = l.
Proof.
  induction l as [|x l IH]; intros s f Hf; [reflexivity|].
  cbn [length range map]. f_equal.
  - specialize (Hf 0%nat ltac:(cbn; lia)). cbn in Hf. rewrite Z.add_0_r in Hf. exact Hf.
  - apply IH. intros i Hi. specialize (Hf (S i) ltac:(cbn; lia)). cbn [nth] in Hf.
    rewrite <- Hf. f_equal. lia.
Qed.

Lemma read_records_written t c recs rest :
  cinv c -> bytes_ok (data (sc c)) = true -> 0 <= base (sc c) -> base (sc c) + dlen (sc c) < USIZE ->
  0 < ty_size t < USIZE -> Forall (seq_ok t) recs ->
  drop (off c) (data (sc c)) = enc_records t recs ++ rest ->
  read_records t c (len recs) = Ok (recs, {| sc := sc c; off := off c + len recs * ty_size t |}).
Proof.
  intros Hc Hb Hb0 Hbase Ht Hrecs Hd.
  pose proof Hc as [Hc1 Hc2]. unfold sinv in Hc2.
  set (n := len recs). set (sz := ty_size t).
  assert (0 <= n) as Hn by apply len_nonneg.
  assert (len (enc_records t recs) = n * sz) as Hlen by (apply len_enc_records; assumption).
  assert (off c + n * sz <= dlen (sc c)) as Hle.
  { unfold dlen. assert (len (drop (off c) (data (sc c))) = len (data (sc c)) - off c) as Hl
      by (apply len_drop; unfold dlen in *; lia).
    rewrite Hd in Hl. rewrite len_app, Hlen in Hl. pose proof (len_nonneg rest). lia. }
  assert (0 <= n * sz) as Hnn by nia.
  unfold read_records, read_array. fold sz. unfold cmul. replace (n * sz <? USIZE) with true by lia.
  cbn [bind]. unfold read_scope. rewrite offset_length_complete by lia.
  unfold uadd. replace (off c + n * sz <? USIZE) with true by lia. cbn [bind]; cbv beta iota.
  set (a := {| a_sc := {| base := base (sc c) + off c; data := take (n * sz) (drop (off c) (data (sc c))) |};
               a_len := n; a_stride := sz; a_ty := t |}).
  assert (data (a_sc a) = enc_records t recs) as Hwin.
  { unfold a; cbn [a_sc data]. rewrite Hd. rewrite <- Hlen. apply take_app_exact. }
  assert (window_ok a) as Hw.
  { unfold a in Hwin; cbn [a_sc data] in Hwin.
    unfold window_ok, a; cbn [a_sc a_len a_stride a_ty base data]. unfold dlen; cbn [data].
    rewrite Hwin. rewrite Hlen. pose proof (enc_records_ok t recs).
    repeat split; try lia; assumption. }
  rewrite (arr_to_vec_exact Debug a Hw). cbn [bind]. f_equal. f_equal.
  unfold a at 2; cbn [a_len]. unfold n, len. rewrite Nat2Z.id.
  apply (map_range_nth []). intros i Hi. unfold item. rewrite Hwin. unfold a; cbn [a_ty a_stride]. fold sz.
  rewrite Z.add_0_l.
  destruct (drop_enc_records t recs i [] Hrecs Hi) as [rest' Hdr]. rewrite app_nil_r in Hdr.
  fold sz in Hdr. rewrite Hdr.
  assert (seq_ok t (nth i recs [])) as Hoki.
  { rewrite Forall_forall in Hrecs. apply Hrecs. apply nth_In. exact Hi. }
  unfold sz. rewrite <- (len_enc_seq t _ Hoki). rewrite take_app_exact.
  rewrite <- (app_nil_r (enc_seq t (nth i recs []))). apply decode_enc_seq. exact Hoki.
Qed.

(* ---------- chaining form: the next cursor sits exactly at the rest *)
Definition at_rest (c c' : ctxt) (rest : list Z) : Prop :=
  cinv c' /\ sc c' = sc c /\ drop (off c') (data (sc c')) = rest.

Lemma drop_len_le (d : list Z) o x rest : 0 <= o <= len d -> drop o d = x ++ rest -> o + len x <= len d.
Proof.
  intros Ho Hd. assert (len (drop o d) = len d - o) as Hl by (apply len_drop; lia).
  rewrite Hd, len_app in Hl. pose proof (len_nonneg rest). lia.
Qed.

Lemma drop_after (d : list Z) o x rest : 0 <= o <= len d -> drop o d = x ++ rest -> drop (o + len x) d = rest.
Proof.
  intros Ho Hd. rewrite Z.add_comm. rewrite <- drop_drop by (try apply len_nonneg; lia). rewrite Hd. apply drop_app_exact.
Qed.

Lemma read_seq_chain t c vs rest :
  cinv c -> bytes_ok (data (sc c)) = true -> seq_ok t vs ->
  drop (off c) (data (sc c)) = enc_seq t vs ++ rest ->
  exists c', read_seq t c = Ok (vs, c') /\ at_rest c c' rest.
Proof.
  intros Hc Hb Hok Hd. rewrite (read_seq_written t c vs rest Hc Hb Hok Hd).
  eexists; split; [reflexivity|]. pose proof Hc as [Hc1 Hc2]. unfold dlen in Hc1.
  pose proof (drop_len_le _ _ _ _ Hc1 Hd) as Hle. rewrite (len_enc_seq t vs Hok) in Hle.
  pose proof (ty_size_nonneg t). unfold at_rest, cinv; cbn [sc off].
  split; [split; [unfold dlen; lia|exact Hc2]|]. split; [reflexivity|].
  rewrite <- (len_enc_seq t vs Hok). apply drop_after; assumption.
Qed.

Lemma read_prim_chain p c v rest :
  cinv c -> bytes_ok (data (sc c)) = true -> prim_val_ok p v ->
  drop (off c) (data (sc c)) = enc_prim p v ++ rest ->
  exists c', read_prim p c = Ok (v, c') /\ at_rest c c' rest.
Proof.
  intros Hc Hb Hok Hd. rewrite (read_prim_written p c v rest Hc Hb Hok Hd).
  eexists; split; [reflexivity|]. pose proof Hc as [Hc1 Hc2]. unfold dlen in Hc1.
  pose proof (drop_len_le _ _ _ _ Hc1 Hd) as Hle. rewrite len_enc_prim in Hle.
  pose proof (spec_size_nonneg p). unfold at_rest, cinv; cbn [sc off].
  split; [split; [unfold dlen; lia|exact Hc2]|]. split; [reflexivity|].
  rewrite <- (len_enc_prim p v). apply drop_after; assumption.
Qed.

Lemma read_records_chain t c recs rest :
  cinv c -> bytes_ok (data (sc c)) = true -> 0 <= base (sc c) -> base (sc c) + dlen (sc c) < USIZE ->
  0 < ty_size t < USIZE -> Forall (seq_ok t) recs ->
  drop (off c) (data (sc c)) = enc_records t recs ++ rest ->
  exists c', read_records t c (len recs) = Ok (recs, c') /\ at_rest c c' rest.
Proof.
  intros Hc Hb Hb0 Hbase Ht Hrecs Hd.
  rewrite (read_records_written t c recs rest Hc Hb Hb0 Hbase Ht Hrecs Hd).
  eexists; split; [reflexivity|]. pose proof Hc as [Hc1 Hc2]. unfold dlen in Hc1.
  pose proof (drop_len_le _ _ _ _ Hc1 Hd) as Hle. rewrite (len_enc_records t recs Hrecs) in Hle.
  assert (0 <= len recs * ty_size t) by (pose proof (len_nonneg recs); nia).
  unfold at_rest, cinv; cbn [sc off].
  split; [split; [unfold dlen; lia|exact Hc2]|]. split; [reflexivity|].
  rewrite <- (len_enc_records t recs Hrecs). apply drop_after; assumption.
Qed.
