(* Proofs/PreprocessIndic.v — the Indic and Khmer preprocessing of Model/Preprocess.v against
   structural specifications: constrain_vowel, decompose_matra, recompose_bengali_ya_nukta,
   reorder_kannada_ra_halant_zwj, khmer::decompose_matra. *)
From AV Require Import Base.Prelude Gen.PreprocessTables Model.Preprocess
  Proofs.PreprocessSort Proofs.PreprocessRuns Proofs.PreprocessMarks Proofs.PreprocessThai.
From Coq Require Import Permutation.
Open Scope Z_scope.

(* ---- Vec operations at an offset behind a prefix ---- *)
Lemma v_get_shift (P X : list Z) k : v_get (P ++ X) (length P + k) = v_get X k.
Proof.
  unfold v_get. rewrite nth_error_app2 by lia.
  replace (length P + k - length P)%nat with k by lia. reflexivity.
Qed.

Lemma v_insert_shift (P X : list Z) k c : (k <= length X)%nat ->
  v_insert (P ++ X) (length P + k) c = Ok (P ++ firstn k X ++ c :: skipn k X).
Proof.
  intro H. unfold v_insert. rewrite app_length.
  replace (length P + k <=? length P + length X)%nat with true by (symmetry; apply Nat.leb_le; lia).
  rewrite firstn_app, skipn_app.
  replace (length P + k - length P)%nat with k by lia.
  rewrite firstn_all2 by lia. rewrite skipn_all2 by lia. cbn [app].
  rewrite <- app_assoc. reflexivity.
Qed.

Ltac nat_test_true :=
  match goal with
  | |- context [(?a <? ?b)%nat] =>
    replace (a <? b)%nat with true by (symmetry; apply Nat.ltb_lt; rewrite ?app_length; cbn [length]; lia)
  end.
Ltac nat_test_false :=
  match goal with
  | |- context [(?a <? ?b)%nat] =>
    replace (a <? b)%nat with false by (symmetry; apply Nat.ltb_ge; rewrite ?app_length; cbn [length]; lia)
  end.

Lemma app_cons_assoc {A} (P : list A) x R : P ++ x :: R = (P ++ [x]) ++ R.
Proof. rewrite <- app_assoc. reflexivity. Qed.

(* ================= constrain_vowel ================= *)
Fixpoint cv_pm (fuel : nat) (P R : list Z) : outcome (list Z) :=
  match fuel with
  | O => Err LimitExceeded
  | S f =>
    match R with
    | c1 :: c2 :: R2 =>
      match vowel_constraint c1 c2 with
      | ICBetween => cv_pm f (P ++ [c1; DOTTED_CIRCLE; c2]) R2
      | ICMaybeAfter c3 =>
        match R2 with
        | c :: R3 => if c =? c3 then cv_pm f (P ++ [c1; c2; DOTTED_CIRCLE; c]) R3
                     else cv_pm f (P ++ [c1; c2]) R2
        | [] => cv_pm f (P ++ [c1; c2]) R2
        end
      | ICNone => cv_pm f (P ++ [c1]) (c2 :: R2)
      end
    | _ => Ok (P ++ R)
    end
  end.

Lemma constrain_loop_pm : forall fuel P R,
  constrain_vowel_loop fuel (P ++ R) (length P) = cv_pm fuel P R.
Proof.
  induction fuel as [|f IH]; intros P R; cbn [constrain_vowel_loop cv_pm]; [reflexivity|].
  destruct R as [|c1 [|c2 R2]].
  - nat_test_false. reflexivity.
  - nat_test_false. reflexivity.
  - nat_test_true.
    replace (length P) with (length P + 0)%nat at 1 by lia.
    rewrite !v_get_shift. cbn [v_get nth_error bind].
    destruct (vowel_constraint c1 c2) as [|c3|].
    + rewrite v_insert_shift by (cbn [length]; lia). cbn [firstn skipn app bind].
      replace (length P + 3)%nat with (length (P ++ [c1; DOTTED_CIRCLE; c2]))
        by (rewrite app_length; cbn [length]; lia).
      replace (P ++ c1 :: DOTTED_CIRCLE :: c2 :: R2) with ((P ++ [c1; DOTTED_CIRCLE; c2]) ++ R2)
        by (rewrite <- app_assoc; reflexivity).
      apply IH.
    + destruct R2 as [|c R3].
      * nat_test_false.
        replace (length P + 2)%nat with (length (P ++ [c1; c2])) by (rewrite app_length; cbn [length]; lia).
        replace (P ++ [c1; c2]) with ((P ++ [c1; c2]) ++ []) at 1 by (rewrite app_nil_r; reflexivity).
        apply IH.
      * nat_test_true. cbn [v_get nth_error bind].
        destruct (c =? c3).
        -- rewrite v_insert_shift by (cbn [length]; lia). cbn [firstn skipn app bind].
           replace (length P + 4)%nat with (length (P ++ [c1; c2; DOTTED_CIRCLE; c]))
             by (rewrite app_length; cbn [length]; lia).
           replace (P ++ c1 :: c2 :: DOTTED_CIRCLE :: c :: R3) with ((P ++ [c1; c2; DOTTED_CIRCLE; c]) ++ R3)
             by (rewrite <- app_assoc; reflexivity).
           apply IH.
        -- replace (length P + 2)%nat with (length (P ++ [c1; c2])) by (rewrite app_length; cbn [length]; lia).
           replace (P ++ c1 :: c2 :: c :: R3) with ((P ++ [c1; c2]) ++ c :: R3)
             by (rewrite <- app_assoc; reflexivity).
           apply IH.
    + replace (length P + 1)%nat with (length (P ++ [c1])) by (rewrite app_length; cbn [length]; lia).
      rewrite app_cons_assoc. apply IH.
Qed.

(* the specification: a left-to-right scan *)
Fixpoint cv_spec (l : list Z) : list Z :=
  match l with
  | c1 :: t =>
    match t with
    | c2 :: r2 =>
      match vowel_constraint c1 c2 with
      | ICBetween => c1 :: DOTTED_CIRCLE :: c2 :: cv_spec r2
      | ICMaybeAfter c3 =>
        match r2 with
        | c :: r3 => if c =? c3 then c1 :: c2 :: DOTTED_CIRCLE :: c :: cv_spec r3
                     else c1 :: c2 :: cv_spec r2
        | [] => [c1; c2]
        end
      | ICNone => c1 :: cv_spec t
      end
    | [] => l
    end
  | [] => []
  end.

Lemma cv_pm_spec : forall fuel P R, (length R < fuel)%nat -> cv_pm fuel P R = Ok (P ++ cv_spec R).
Proof.
  induction fuel as [|f IH]; intros P R Hf; [lia|].
  cbn [cv_pm]. destruct R as [|c1 [|c2 R2]]; [reflexivity|reflexivity|].
  cbn [length] in Hf. cbn [cv_spec].
  destruct (vowel_constraint c1 c2) as [|c3|].
  - rewrite IH by lia. rewrite <- app_assoc. reflexivity.
  - destruct R2 as [|c R3].
    + rewrite IH by (cbn [length]; lia). cbn [cv_spec]. rewrite !app_nil_r. reflexivity.
    + cbn [length] in Hf. destruct (c =? c3).
      * rewrite IH by lia. rewrite <- app_assoc. reflexivity.
      * rewrite IH by (cbn [length]; lia). rewrite <- app_assoc. reflexivity.
  - rewrite IH by (cbn [length]; lia). rewrite <- app_assoc. reflexivity.
Qed.

Lemma constrain_vowel_ok cs : constrain_vowel cs = Ok (cv_spec cs).
Proof.
  unfold constrain_vowel. change cs with ([] ++ cs) at 2. change O with (length (@nil Z)).
  rewrite constrain_loop_pm. rewrite cv_pm_spec by lia. reflexivity.
Qed.

(* declaratively: the output is the input with dotted circles inserted, each one between the two
   characters of a prohibited pair, or behind the pair and in front of the third character of a
   prohibited triple *)
Inductive circled : list Z -> list Z -> Prop :=
| circled_nil : circled [] []
| circled_keep c l l' : circled l l' -> circled (c :: l) (c :: l')
| circled_between c1 c2 l l' : vowel_constraint c1 c2 = ICBetween -> circled l l' ->
    circled (c1 :: c2 :: l) (c1 :: DOTTED_CIRCLE :: c2 :: l')
| circled_after c1 c2 c3 l l' : vowel_constraint c1 c2 = ICMaybeAfter c3 -> circled l l' ->
    circled (c1 :: c2 :: c3 :: l) (c1 :: c2 :: DOTTED_CIRCLE :: c3 :: l').

Lemma circled_refl l : circled l l.
Proof. induction l; constructor; assumption. Qed.

Lemma cv_spec_circled_n : forall n l, (length l <= n)%nat -> circled l (cv_spec l).
Proof.
  induction n as [|n IH]; intros l Hn.
  - destruct l; [constructor|cbn [length] in Hn; lia].
  - destruct l as [|c1 [|c2 r2]]; [constructor|apply circled_refl|].
    cbn [length] in Hn. cbn [cv_spec].
    destruct (vowel_constraint c1 c2) as [|c3|] eqn:Ev.
    + apply circled_between; [exact Ev|]. apply IH. lia.
    + destruct r2 as [|c r3]; [apply circled_refl|].
      cbn [length] in Hn. destruct (c =? c3) eqn:Ec.
      * assert (c = c3) as -> by lia. apply circled_after; [exact Ev|]. apply IH. lia.
      * constructor. constructor. apply IH. cbn [length]. lia.
    + constructor. apply IH. cbn [length]. lia.
Qed.

Lemma cv_spec_circled l : circled l (cv_spec l).
Proof. apply (cv_spec_circled_n (length l)). lia. Qed.

Definition not_circle (c : Z) : bool := negb (c =? DOTTED_CIRCLE).

(* only dotted circles are added: without them the text is unchanged *)
Lemma circled_strip l l' : circled l l' -> filter not_circle l' = filter not_circle l.
Proof.
  assert (Hdc : not_circle DOTTED_CIRCLE = false) by (unfold not_circle; rewrite Z.eqb_refl; reflexivity).
  induction 1 as [|c l l' _ IH|c1 c2 l l' _ _ IH|c1 c2 c3 l l' _ _ IH]; cbn [filter].
  - reflexivity.
  - rewrite IH. reflexivity.
  - rewrite Hdc, IH. reflexivity.
  - rewrite Hdc, IH. reflexivity.
Qed.

(* and the input is a subsequence of the output: nothing is removed or reordered *)
Inductive subseq : list Z -> list Z -> Prop :=
| subseq_nil : subseq [] []
| subseq_keep c l l' : subseq l l' -> subseq (c :: l) (c :: l')
| subseq_add c l l' : subseq l l' -> subseq l (c :: l').

Lemma circled_subseq l l' : circled l l' -> subseq l l'.
Proof. induction 1; repeat (constructor; try assumption). Qed.

Lemma circled_length l l' : circled l l' -> (length l <= length l')%nat.
Proof. induction 1; cbn [length]; lia. Qed.

(* ================= decompose_matra ================= *)
Definition expand_matra (c : Z) : list Z :=
  match split_matra c with Some (c1 :: more) => c1 :: more | _ => [c] end.

Lemma insert_all_ok : forall more Q R, insert_all (Q ++ R) (length Q) more = Ok (Q ++ more ++ R).
Proof.
  induction more as [|p rest IH]; intros Q R; cbn [insert_all app]; [reflexivity|].
  rewrite v_insert_app. cbn [bind].
  rewrite app_cons_assoc. replace (length Q + 1)%nat with (length (Q ++ [p])) by (rewrite app_length; cbn [length]; lia).
  rewrite IH. rewrite <- app_assoc. reflexivity.
Qed.

Fixpoint dm_pm (fuel : nat) (P R : list Z) : outcome (list Z) :=
  match fuel with
  | O => Err LimitExceeded
  | S f => match R with
           | [] => Ok P
           | c :: R' => dm_pm f (P ++ expand_matra c) R'
           end
  end.

Lemma decompose_loop_pm : forall fuel P R, decompose_matra_loop fuel (P ++ R) (length P) = dm_pm fuel P R.
Proof.
  induction fuel as [|f IH]; intros P R; cbn [decompose_matra_loop dm_pm]; [reflexivity|].
  destruct R as [|c R'].
  - nat_test_false. rewrite app_nil_r. reflexivity.
  - nat_test_true. rewrite v_get_app. cbn [bind]. unfold expand_matra.
    destruct (split_matra c) as [[|c1 more]|].
    + replace (length P + 1)%nat with (length (P ++ [c])) by (rewrite app_length; cbn [length]; lia).
      rewrite app_cons_assoc. apply IH.
    + rewrite v_set_app. cbn [bind].
      rewrite (app_cons_assoc P c1 R').
      replace (length P + 1)%nat with (length (P ++ [c1])) by (rewrite app_length; cbn [length]; lia).
      rewrite insert_all_ok. cbn [bind].
      replace (length (P ++ [c1]) + length more)%nat with (length (P ++ c1 :: more))
        by (rewrite !app_length; cbn [length]; lia).
      replace ((P ++ [c1]) ++ more ++ R') with ((P ++ c1 :: more) ++ R')
        by (rewrite <- !app_assoc; reflexivity).
      apply IH.
    + replace (length P + 1)%nat with (length (P ++ [c])) by (rewrite app_length; cbn [length]; lia).
      rewrite app_cons_assoc. apply IH.
Qed.

Lemma dm_pm_spec : forall R fuel P, (length R < fuel)%nat -> dm_pm fuel P R = Ok (P ++ flat_map expand_matra R).
Proof.
  induction R as [|c R' IH]; intros fuel P Hf; (destruct fuel as [|f]; [cbn [length] in Hf; lia|]); cbn [dm_pm flat_map].
  - rewrite app_nil_r. reflexivity.
  - cbn [length] in Hf. rewrite IH by lia. rewrite <- app_assoc. reflexivity.
Qed.

Lemma decompose_matra_ok cs : decompose_matra cs = Ok (flat_map expand_matra cs).
Proof.
  unfold decompose_matra. change cs with ([] ++ cs) at 2. change O with (length (@nil Z)).
  rewrite decompose_loop_pm. rewrite dm_pm_spec by lia. reflexivity.
Qed.

(* ================= khmer::decompose_matra ================= *)
Definition expand_khmer (c : Z) : list Z :=
  if mem_z c KHMER_SPLIT_VOWELS then [KHMER_PREBASE_PART; c] else [c].

Fixpoint kd_pm (fuel : nat) (P R : list Z) : outcome (list Z) :=
  match fuel with
  | O => Err LimitExceeded
  | S f => match R with
           | [] => Ok P
           | c :: R' => kd_pm f (P ++ expand_khmer c) R'
           end
  end.

Lemma khmer_loop_pm : forall fuel P R, khmer_decompose_loop fuel (P ++ R) (length P) = kd_pm fuel P R.
Proof.
  induction fuel as [|f IH]; intros P R; cbn [khmer_decompose_loop kd_pm]; [reflexivity|].
  destruct R as [|c R'].
  - nat_test_false. rewrite app_nil_r. reflexivity.
  - nat_test_true. rewrite v_get_app. cbn [bind]. unfold expand_khmer.
    destruct (mem_z c KHMER_SPLIT_VOWELS).
    + rewrite v_insert_app. cbn [bind].
      replace (length P + 2)%nat with (length (P ++ [KHMER_PREBASE_PART; c]))
        by (rewrite app_length; cbn [length]; lia).
      replace (P ++ KHMER_PREBASE_PART :: c :: R') with ((P ++ [KHMER_PREBASE_PART; c]) ++ R')
        by (rewrite <- app_assoc; reflexivity).
      apply IH.
    + replace (length P + 1)%nat with (length (P ++ [c])) by (rewrite app_length; cbn [length]; lia).
      rewrite app_cons_assoc. apply IH.
Qed.

Lemma kd_pm_spec : forall R fuel P, (length R < fuel)%nat -> kd_pm fuel P R = Ok (P ++ flat_map expand_khmer R).
Proof.
  induction R as [|c R' IH]; intros fuel P Hf; (destruct fuel as [|f]; [cbn [length] in Hf; lia|]); cbn [kd_pm flat_map].
  - rewrite app_nil_r. reflexivity.
  - cbn [length] in Hf. rewrite IH by lia. rewrite <- app_assoc. reflexivity.
Qed.

Lemma khmer_decompose_ok cs : khmer_decompose_matra cs = Ok (flat_map expand_khmer cs).
Proof.
  unfold khmer_decompose_matra. change cs with ([] ++ cs) at 2. change O with (length (@nil Z)).
  rewrite khmer_loop_pm. rewrite kd_pm_spec by lia. reflexivity.
Qed.

(* ================= recompose_bengali_ya_nukta ================= *)
Fixpoint rc_pm (fuel : nat) (P R : list Z) : outcome (list Z) :=
  match fuel with
  | O => Err LimitExceeded
  | S f =>
    match R with
    | a :: b :: R2 =>
      if (a =? YA) && (b =? NUKTA) then rc_pm f (P ++ [YYA]) R2 else rc_pm f (P ++ [a]) (b :: R2)
    | _ => Ok (P ++ R)
    end
  end.

Lemma recompose_loop_pm : forall fuel P R, recompose_loop fuel (P ++ R) (length P) = rc_pm fuel P R.
Proof.
  induction fuel as [|f IH]; intros P R; cbn [recompose_loop rc_pm]; [reflexivity|].
  destruct R as [|a [|b R2]].
  - nat_test_false. reflexivity.
  - nat_test_false. reflexivity.
  - nat_test_true. rewrite v_get_app. cbn [bind].
    destruct (a =? YA); cbn [andb].
    + rewrite v_get_shift. cbn [v_get nth_error bind].
      destruct (b =? NUKTA).
      * rewrite v_set_app. cbn [bind].
        rewrite (app_cons_assoc P YYA (b :: R2)).
        replace (length P + 1)%nat with (length (P ++ [YYA])) by (rewrite app_length; cbn [length]; lia).
        rewrite v_remove_app. cbn [bind]. apply IH.
      * replace (length P + 1)%nat with (length (P ++ [a])) by (rewrite app_length; cbn [length]; lia).
        rewrite app_cons_assoc. apply IH.
    + replace (length P + 1)%nat with (length (P ++ [a])) by (rewrite app_length; cbn [length]; lia).
      rewrite app_cons_assoc. apply IH.
Qed.

Fixpoint rc_spec (l : list Z) : list Z :=
  match l with
  | a :: t =>
    match t with
    | b :: r2 => if (a =? YA) && (b =? NUKTA) then YYA :: rc_spec r2 else a :: rc_spec t
    | [] => l
    end
  | [] => []
  end.

Lemma rc_pm_spec : forall fuel P R, (length R < fuel)%nat -> rc_pm fuel P R = Ok (P ++ rc_spec R).
Proof.
  induction fuel as [|f IH]; intros P R Hf; [lia|].
  cbn [rc_pm]. destruct R as [|a [|b R2]]; [reflexivity|reflexivity|].
  cbn [length] in Hf. cbn [rc_spec].
  destruct ((a =? YA) && (b =? NUKTA)).
  - rewrite IH by lia. rewrite <- app_assoc. reflexivity.
  - rewrite IH by (cbn [length]; lia). rewrite <- app_assoc. reflexivity.
Qed.

Lemma recompose_ok cs : recompose_bengali_ya_nukta cs = Ok (rc_spec cs).
Proof.
  unfold recompose_bengali_ya_nukta. change cs with ([] ++ cs) at 2. change O with (length (@nil Z)).
  rewrite recompose_loop_pm. rewrite rc_pm_spec by lia. reflexivity.
Qed.

(* YYA written back as YA NUKTA *)
Definition unrecompose (c : Z) : list Z := if c =? YYA then [YA; NUKTA] else [c].

Lemma rc_spec_content_n : forall n l, (length l <= n)%nat ->
  flat_map unrecompose (rc_spec l) = flat_map unrecompose l.
Proof.
  assert (Hya : unrecompose YA = [YA]) by (vm_compute; reflexivity).
  assert (Hnu : unrecompose NUKTA = [NUKTA]) by (vm_compute; reflexivity).
  assert (Hyya : unrecompose YYA = [YA; NUKTA]) by (vm_compute; reflexivity).
  induction n as [|n IH]; intros l Hn.
  - destruct l; [reflexivity|cbn [length] in Hn; lia].
  - destruct l as [|a [|b r2]]; [reflexivity|reflexivity|].
    cbn [length] in Hn. cbn [rc_spec].
    destruct ((a =? YA) && (b =? NUKTA)) eqn:E.
    + apply andb_true_iff in E. destruct E as [Ea Eb].
      assert (a = YA) as -> by lia. assert (b = NUKTA) as -> by lia.
      cbn [flat_map]. rewrite Hyya, Hya, Hnu. cbn [app]. f_equal. f_equal. apply IH. lia.
    + cbn [flat_map]. f_equal. apply (IH (b :: r2)). cbn [length]. lia.
Qed.

Lemma rc_spec_content l : flat_map unrecompose (rc_spec l) = flat_map unrecompose l.
Proof. apply (rc_spec_content_n (length l)). lia. Qed.

(* ================= reorder_kannada_ra_halant_zwj ================= *)
Definition kn_spec (cs : list Z) : list Z :=
  if starts_with cs KANNADA_PREFIX then
    match cs with a :: b :: c :: rest => a :: c :: b :: rest | _ => cs end
  else cs.

Lemma starts_with_prefix : forall pre cs, starts_with cs pre = true -> exists rest, cs = pre ++ rest.
Proof.
  induction pre as [|p pre IH]; intros cs H.
  - exists cs. reflexivity.
  - destruct cs as [|c cs]; cbn [starts_with] in H; [discriminate|].
    apply andb_true_iff in H. destruct H as [Hc Hr]. assert (c = p) as -> by lia.
    destruct (IH cs Hr) as (rest & ->). exists rest. reflexivity.
Qed.

Lemma kannada_ok cs : reorder_kannada_ra_halant_zwj cs = Ok (kn_spec cs).
Proof.
  unfold reorder_kannada_ra_halant_zwj, kn_spec.
  destruct (starts_with cs KANNADA_PREFIX) eqn:E; [|reflexivity].
  apply starts_with_prefix in E. destruct E as (rest & ->).
  unfold KANNADA_PREFIX, KANNADA_SWAP. reflexivity.
Qed.

Lemma kn_spec_perm cs : Permutation cs (kn_spec cs).
Proof.
  unfold kn_spec. destruct (starts_with cs KANNADA_PREFIX); [|apply Permutation_refl].
  destruct cs as [|x [|y [|z rest]]]; try apply Permutation_refl.
  apply perm_skip. apply perm_swap.
Qed.

(* the swap is exactly: RA HALANT ZWJ rest  ->  RA ZWJ HALANT rest *)
Lemma kn_spec_prefix rest :
  kn_spec (KANNADA_PREFIX ++ rest) =
  match KANNADA_PREFIX with x :: y :: z :: nil => x :: z :: y :: rest | _ => KANNADA_PREFIX ++ rest end.
Proof. unfold kn_spec, KANNADA_PREFIX. cbn [app starts_with]. rewrite !Z.eqb_refl. destruct rest; reflexivity. Qed.

Lemma kn_spec_other cs : starts_with cs KANNADA_PREFIX = false -> kn_spec cs = cs.
Proof. intro H. unfold kn_spec. rewrite H. reflexivity. Qed.

Section IndicClass.
Variable class : Z -> Z.

(* ================= preprocess_indic / preprocess_khmer ================= *)
Definition indic_tail (s : indic_script) (x : list Z) : list Z :=
  if is_ya_nukta_script s then rc_spec x else if is_ra_halant_script s then kn_spec x else x.

Definition indic_p (s : indic_script) (cs : list Z) : list Z :=
  indic_tail s (sort_p class (flat_map expand_matra (cv_spec cs))).

Lemma preprocess_indic_ok cs tag s : indic_script_of tag = Ok s ->
  preprocess_indic class cs tag = Ok (indic_p s cs).
Proof.
  intro Hs. unfold preprocess_indic, indic_p, indic_tail. rewrite Hs. cbn [bind].
  rewrite constrain_vowel_ok. cbn [bind]. rewrite decompose_matra_ok. cbn [bind].
  rewrite sort_ok. cbn [bind].
  destruct (is_ya_nukta_script s); [apply recompose_ok|].
  destruct (is_ra_halant_script s); [apply kannada_ok|reflexivity].
Qed.

Definition khmer_p (cs : list Z) : list Z := sort_p class (flat_map expand_khmer cs).

Lemma preprocess_khmer_ok cs : preprocess_khmer class cs = Ok (khmer_p cs).
Proof. unfold preprocess_khmer, khmer_p. rewrite khmer_decompose_ok. cbn [bind]. apply sort_ok. Qed.

Lemma khmer_p_perm cs : Permutation (flat_map expand_khmer cs) (khmer_p cs).
Proof. apply sort_p_perm. Qed.

(* content of the Indic output, up to the ya-nukta recomposition *)
Lemma indic_p_content s cs :
  Permutation (flat_map unrecompose (flat_map expand_matra (cv_spec cs)))
              (flat_map unrecompose (indic_p s cs)).
Proof.
  unfold indic_p, indic_tail.
  destruct (is_ya_nukta_script s).
  - rewrite rc_spec_content. apply Permutation_flat_map. apply sort_p_perm.
  - apply Permutation_flat_map. destruct (is_ra_halant_script s).
    + eapply perm_trans; [apply sort_p_perm|apply kn_spec_perm].
    + apply sort_p_perm.
Qed.

(* without recomposition: a plain permutation of the expanded text *)
Lemma indic_p_perm s cs : is_ya_nukta_script s = false ->
  Permutation (flat_map expand_matra (cv_spec cs)) (indic_p s cs).
Proof.
  intro H. unfold indic_p, indic_tail. rewrite H. destruct (is_ra_halant_script s).
  - eapply perm_trans; [apply sort_p_perm|apply kn_spec_perm].
  - apply sort_p_perm.
Qed.

End IndicClass.
