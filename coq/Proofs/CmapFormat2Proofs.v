(* Proofs/CmapFormat2Proofs.v — format 2 single lookups against the OpenType rules, for the codes
   the format defines (one-byte codes whose key is 0, two-byte codes whose lead byte has a key
   8k, k <> 0).  Partial: nothing is proved about other codes, nor about mappings_fn for format 2. *)
From AV Require Import Base.Prelude Base.Lemmas Gen.CmapPrefs Model.MacRoman Model.Cmap Model.CmapSpec
  Proofs.CmapProofs.
Require Import ZifyBool.
Open Scope Z_scope.

Lemma get_chunks_word n d i :
  0 <= i < Z.of_nat n -> 2 * Z.of_nat n <= len d ->
  get (map be_val (chunks 2 n d)) i = Some (be_val (take 2 (drop (2 * i) d))).
Proof.
  revert d i. induction n as [|n IH]; intros d i Hi Hl; [lia|].
  cbn [chunks map]. rewrite get_cons. destruct (i =? 0) eqn:E.
  - assert (i = 0) by lia. subst. change (2 * 0) with 0. rewrite drop_0. reflexivity.
  - pose proof (len_nonneg d).
    rewrite IH by (try lia; rewrite len_drop by lia; lia).
    rewrite drop_drop by lia. replace (2 * (i - 1) + 2) with (2 * i) by lia. reflexivity.
Qed.

Lemma get_exists {A} (l : list A) i : 0 <= i < len l -> exists x, get l i = Some x.
Proof.
  intros H. unfold get. replace ((0 <=? i) && (i <? len l)) with true by lia.
  destruct (nth_error l (Z.to_nat i)) eqn:E; [eauto|].
  apply nth_error_None in E. unfold len in H. lia.
Qed.

(* the sub-array read of SubHeader::glyph_index_sub_array, entry idx *)
Lemma f2_glyph_word sh k scope idx :
  0 <= k -> 0 <= sh_ro sh -> 0 <= idx < sh_count sh ->
  8 * k + 6 + sh_ro sh + 2 * sh_count sh <= len scope ->
  f2_glyph sh k scope idx =
  match word_at scope (8 * k + 6 + sh_ro sh + 2 * idx) with
  | Some w => Ok (if w =? 0 then 0 else (w + sh_delta sh) mod 65536)
  | None => Err BadIndex
  end.
Proof.
  intros Hk Hro Hidx Hlen. unfold f2_glyph, glyph_index_sub_array.
  replace (0 <? sh_count sh) with true by lia.
  replace (k * 8 + 8 - 2 + sh_ro sh) with (8 * k + 6 + sh_ro sh) by lia.
  set (off := 8 * k + 6 + sh_ro sh) in *.
  rewrite slice_from_drop by lia.
  unfold rd_u16s, rd_array. rewrite len_drop by lia.
  replace (sh_count sh * 2 <=? len scope - off) with true by lia.
  cbn [bind].
  rewrite get_chunks_word by (try lia; rewrite len_drop by lia; lia).
  cbn [ok_or bind]. rewrite drop_drop by lia.
  unfold word_at. replace (2 * idx + off) with (off + 2 * idx) by lia.
  replace ((0 <=? off + 2 * idx) && (off + 2 * idx + 2 <=? len scope)) with true by lia.
  reflexivity.
Qed.

(* which sub-header the implementation consults *)
Lemma f2_header_choice keys c lo k :
  0 <= c <= 65535 -> len keys = 256 -> f2_selects keys c lo k ->
  0 <= lo < 256 /\
  exists lbi, get keys (c mod 256) = Some lbi /\
    exists kv, get keys (if ((c / 256) mod 256 =? 0) && (lbi =? 0) then c mod 256 else (c / 256) mod 256) = Some kv /\
               kv / 8 = k.
Proof.
  intros Hc Hlen (Hlo & Hcls).
  pose proof (Z.mod_pos_bound c 256 ltac:(lia)) as Hm.
  assert (Hhi : 0 <= c / 256 < 256).
  { split; [apply Z.div_pos; lia | apply Z.div_lt_upper_bound; lia]. }
  rewrite (Z.mod_small (c / 256) 256) by lia.
  split; [lia|].
  destruct Hcls as [(H0 & HK & ->) | (H0 & HK & Hk)].
  - subst lo. exists 0. split; [exact HK|]. rewrite H0. cbn [Z.eqb andb].
    exists 0. split; [exact HK | reflexivity].
  - destruct (get_exists keys (c mod 256) ltac:(lia)) as [lbi Hlbi].
    exists lbi. split; [exact Hlbi|].
    replace (c / 256 =? 0) with false by lia. cbn [andb].
    exists (8 * k). split; [exact HK|]. rewrite Z.mul_comm. apply Z.div_mul. lia.
Qed.

Theorem f2_complete l keys headers scope c g :
  len keys = 256 ->
  (forall k sh, get headers k = Some sh -> 0 <= sh_ro sh) ->
  f2_assigns keys headers scope c g ->
  map_glyph (F2 l keys headers scope) c = Ok (Some g).
Proof.
  intros Hlen Hro H. cbn [map_glyph]. unfold f2_map_glyph.
  inversion H as [c0 lo k sh w Hc Hsel Hsh Hrange Hin Hw | c0 lo k sh Hc Hsel Hsh Hout]; subst.
  - destruct (f2_header_choice keys c lo k Hc Hlen Hsel) as (Hlo & lbi & Hlbi & kv & Hkv & Hk).
    rewrite Hlbi. cbn [ok_or bind]. rewrite Hkv. cbn [ok_or bind]. rewrite Hk, Hsh. cbn [ok_or bind].
    destruct Hsel as [Hlo' _]. rewrite <- Hlo'.
    unfold sh_contains. replace ((sh_first sh <=? lo) && (lo <? sh_first sh + sh_count sh)) with true by lia.
    cbn [negb].
    pose proof (get_range _ _ _ Hsh) as Hkr.
    rewrite f2_glyph_word; try lia; [|eapply Hro; eauto].
    rewrite Hw. reflexivity.
  - destruct (f2_header_choice keys c lo k Hc Hlen Hsel) as (Hlo & lbi & Hlbi & kv & Hkv & Hk).
    rewrite Hlbi. cbn [ok_or bind]. rewrite Hkv. cbn [ok_or bind]. rewrite Hk, Hsh. cbn [ok_or bind].
    destruct Hsel as [Hlo' _]. rewrite <- Hlo'.
    unfold sh_contains. replace ((sh_first sh <=? lo) && (lo <? sh_first sh + sh_count sh)) with false by lia.
    reflexivity.
Qed.

Theorem f2_sound l keys headers scope c lo k sh g :
  len keys = 256 -> 0 <= c <= 65535 -> 0 <= sh_ro sh ->
  f2_selects keys c lo k -> get headers k = Some sh ->
  map_glyph (F2 l keys headers scope) c = Ok (Some g) ->
  f2_assigns keys headers scope c g.
Proof.
  intros Hlen Hc Hro Hsel Hsh H. cbn [map_glyph] in H. unfold f2_map_glyph in H.
  destruct (f2_header_choice keys c lo k Hc Hlen Hsel) as (Hlo & lbi & Hlbi & kv & Hkv & Hk).
  rewrite Hlbi in H. cbn [ok_or bind] in H. rewrite Hkv in H. cbn [ok_or bind] in H.
  rewrite Hk, Hsh in H. cbn [ok_or bind] in H.
  pose proof Hsel as [Hlo' _]. rewrite <- Hlo' in H.
  unfold sh_contains in H.
  destruct ((sh_first sh <=? lo) && (lo <? sh_first sh + sh_count sh)) eqn:E; cbn [negb] in H.
  - (* inside the subrange: the read succeeded, so the sub-array lies inside the table *)
    pose proof (get_range _ _ _ Hsh) as Hkr.
    assert (Hin : 8 * k + 6 + sh_ro sh + 2 * sh_count sh <= len scope).
    { unfold f2_glyph, glyph_index_sub_array in H.
      replace (0 <? sh_count sh) with true in H by lia.
      unfold rd_u16s, rd_array in H.
      destruct (sh_count sh * 2 <=? len (slice_from scope (k * 8 + 8 - 2 + sh_ro sh))) eqn:EL;
        [|cbn [bind] in H; discriminate].
      unfold slice_from in EL. destruct (k * 8 + 8 - 2 + sh_ro sh <=? len scope) eqn:EO.
      - fold (drop (k * 8 + 8 - 2 + sh_ro sh) scope) in EL. rewrite len_drop in EL by lia. lia.
      - unfold len in EL. cbn [length] in EL. lia. }
    rewrite f2_glyph_word in H by lia.
    destruct (word_at scope (8 * k + 6 + sh_ro sh + 2 * (lo - sh_first sh))) as [w|] eqn:EW;
      cbn [bind] in H; [|discriminate].
    inversion H; subst g.
    eapply A2_subrange; eauto. lia.
  - inversion H; subst g. eapply A2_outside; eauto. lia.
Qed.

(* ------------------------------------------------------------------------------------------- *)
(* a witness: single bytes 0x20..0x7F through sub-header 0, lead byte 0x81 with second bytes
   0x41, 0x42 through sub-header 1 (idDelta 5, second entry 0 = missing glyph) *)
Definition be16 (v : Z) : list Z := [v / 256; v mod 256].
Definition ex2_keys : list Z := repeat 0 129 ++ [8] ++ repeat 0 126.
Definition ex2_headers : list sub_header :=
  [ {| sh_first := 32; sh_count := 96; sh_delta := 0; sh_ro := 10 |};
    {| sh_first := 65; sh_count := 2; sh_delta := 5; sh_ro := 194 |} ].
Definition ex2_scope : list Z :=
  flat_map be16 [32; 96; 0; 10; 65; 2; 5; 194] ++ flat_map be16 (range 1 96) ++ flat_map be16 [300; 0].
Definition ex2 : subtable := F2 0 ex2_keys ex2_headers ex2_scope.

Lemma ex2_selects_two_byte : f2_selects ex2_keys 33089 65 1.   (* 0x8141 *)
Proof. unfold f2_selects. split; [reflexivity|]. right. repeat split; try reflexivity; lia. Qed.

Lemma ex2_assigns_two_byte : f2_assigns ex2_keys ex2_headers ex2_scope 33089 305.
Proof.
  pose proof (A2_subrange ex2_keys ex2_headers ex2_scope 33089 65 1
                {| sh_first := 65; sh_count := 2; sh_delta := 5; sh_ro := 194 |} 300) as H.
  cbn [sh_first sh_count sh_delta sh_ro] in H. apply H; clear H.
  - lia.
  - exact ex2_selects_two_byte.
  - reflexivity.
  - lia.
  - vm_compute. discriminate.
  - vm_compute. reflexivity.
Qed.
