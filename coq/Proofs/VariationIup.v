(* Proofs/VariationIup.v — inferred deltas for un-referenced points (property C12, part c):
   a declarative specification of the OpenType rule (nearest referenced neighbours before and after
   in cyclic order within the contour; per direction: equal coordinates, outside, between) and the
   theorem that the model of infer_unreferenced_points / infer_contour / infer_delta / do_infer
   computes exactly that, contour by contour. *)
From AV Require Import Base.Prelude Base.Lemmas Gen.VariationConsts Model.Variation Proofs.VariationScalar.
From Coq Require Import QArith Lia.
Local Open Scope Z_scope.

(* ---------------------------------------------------------------------------------------- *)
(* specification *)

Definition referenced (m : emap) (i : Z) : Prop := ref_at m i <> None.

(* n is the nearest referenced point after the un-referenced point t, going round the contour [s, e] *)
Definition is_next (m : emap) (s e t n : Z) : Prop :=
  s <= n <= e /\ referenced m n /\
  ((t < n /\ forall j, t < j < n -> ~ referenced m j)
   \/ (n < t /\ (forall j, t < j <= e -> ~ referenced m j) /\ forall j, s <= j < n -> ~ referenced m j)).

(* p is the nearest referenced point before t, going round the contour *)
Definition is_prev (m : emap) (s e t p : Z) : Prop :=
  s <= p <= e /\ referenced m p /\
  ((p < t /\ forall j, p < j < t -> ~ referenced m j)
   \/ (t < p /\ (forall j, s <= j < t -> ~ referenced m j) /\ forall j, p < j <= e -> ~ referenced m j)).

(* the inferred delta in one direction, from the coordinates of prev / target / next and the deltas
   of prev / next *)
Inductive infer_axis_spec (pc tc nc pd nd : Z) : Q -> Prop :=
| IA_same_coord_same_delta : pc = nc -> pd = nd -> infer_axis_spec pc tc nc pd nd (qz pd)
| IA_same_coord_other_delta : pc = nc -> pd <> nd -> infer_axis_spec pc tc nc pd nd 0%Q
| IA_below : pc <> nc -> tc <= Z.min pc nc ->
    (* not between: the delta of whichever neighbour has the smaller coordinate *)
    infer_axis_spec pc tc nc pd nd (qz (if pc <? nc then pd else nd))
| IA_above : pc <> nc -> Z.max pc nc <= tc ->
    infer_axis_spec pc tc nc pd nd (qz (if nc <? pc then pd else nd))
| IA_between : forall q, pc <> nc -> Z.min pc nc < tc < Z.max pc nc ->
    (* linear interpolation between the two neighbours *)
    (q == qz pd + qz (tc - pc) / qz (nc - pc) * (qz nd - qz pd))%Q ->
    infer_axis_spec pc tc nc pd nd q.

(* ---------------------------------------------------------------------------------------- *)
(* do_infer *)

Lemma do_infer_spec pc tc nc pd nd : infer_axis_spec pc tc nc pd nd (do_infer pc tc nc pd nd).
Proof.
  unfold do_infer.
  destruct (pc =? nc) eqn:E1.
  - apply Z.eqb_eq in E1. destruct (pd =? nd) eqn:E2.
    + apply Z.eqb_eq in E2. apply IA_same_coord_same_delta; assumption.
    + apply Z.eqb_neq in E2. apply IA_same_coord_other_delta; assumption.
  - apply Z.eqb_neq in E1. destruct (tc <=? Z.min pc nc) eqn:E2.
    + apply Z.leb_le in E2.
      replace (if pc <? nc then qz pd else qz nd) with (qz (if pc <? nc then pd else nd)) by (destruct (pc <? nc); reflexivity).
      apply IA_below; assumption.
    + apply Z.leb_gt in E2. destruct (Z.max pc nc <=? tc) eqn:E3.
      * apply Z.leb_le in E3.
        replace (if nc <? pc then qz pd else qz nd) with (qz (if nc <? pc then pd else nd)) by (destruct (nc <? pc); reflexivity).
        apply IA_above; assumption.
      * apply Z.leb_gt in E3. apply IA_between; [assumption|lia|]. ring.
Qed.

(* the interpolated value lies between the two deltas' values at the ends: at prev's coordinate it
   would be prev's delta, at next's coordinate next's delta (stated as the two limiting identities) *)
Lemma interpolation_at_prev pc nc pd nd : pc <> nc ->
  (qz pd + qz (pc - pc) / qz (nc - pc) * (qz nd - qz pd) == qz pd)%Q.
Proof.
  intros H. replace (pc - pc) with 0 by lia. rewrite qdiv_zero. ring.
Qed.

Lemma interpolation_at_next pc nc pd nd : pc <> nc ->
  (qz pd + qz (nc - pc) / qz (nc - pc) * (qz nd - qz pd) == qz nd)%Q.
Proof.
  intros H.
  assert (E : (qz (nc - pc) / qz (nc - pc) == 1)%Q).
  { unfold Qdiv. apply Qmult_inv_r. unfold qz. intros C.
    unfold Qeq in C. cbn [inject_Z Qnum Qden] in C. lia. }
  rewrite E. ring.
Qed.

(* ---------------------------------------------------------------------------------------- *)
(* the searches over the dense map of explicit deltas *)

Lemma find_first_some : forall n m lo i d,
  find_first m lo n = Some (i, d) ->
  lo <= i < lo + Z.of_nat n /\ ref_at m i = Some d /\ forall j, lo <= j < i -> ref_at m j = None.
Proof.
  induction n as [|n IH]; intros m lo i d H; cbn [find_first] in H; [discriminate|].
  destruct (ref_at m lo) as [d0|] eqn:E.
  - injection H as <- <-. split; [lia|]. split; [exact E|]. intros j Hj. lia.
  - apply IH in H as (A & B & C). split; [lia|]. split; [exact B|].
    intros j Hj. destruct (Z.eq_dec j lo) as [->|N]; [exact E|]. apply C. lia.
Qed.

Lemma find_first_none : forall n m lo,
  find_first m lo n = None -> forall j, lo <= j < lo + Z.of_nat n -> ref_at m j = None.
Proof.
  induction n as [|n IH]; intros m lo H j Hj; [lia|].
  cbn [find_first] in H. destruct (ref_at m lo) as [d0|] eqn:E; [discriminate|].
  destruct (Z.eq_dec j lo) as [->|N]; [exact E|]. apply (IH m (lo + 1) H). lia.
Qed.

Lemma find_last_none : forall n m lo,
  find_last m lo n = None -> forall j, lo <= j < lo + Z.of_nat n -> ref_at m j = None.
Proof.
  induction n as [|n IH]; intros m lo H j Hj; [lia|].
  cbn [find_last] in H. destruct (find_last m (lo + 1) n) as [[? ?]|] eqn:E; [discriminate|].
  destruct (ref_at m lo) eqn:E0; [discriminate|].
  destruct (Z.eq_dec j lo) as [->|N]; [exact E0|]. apply (IH m (lo + 1) E). lia.
Qed.

Lemma find_last_some : forall n m lo i d,
  find_last m lo n = Some (i, d) ->
  lo <= i < lo + Z.of_nat n /\ ref_at m i = Some d /\ forall j, i < j < lo + Z.of_nat n -> ref_at m j = None.
Proof.
  induction n as [|n IH]; intros m lo i d H; cbn [find_last] in H; [discriminate|].
  destruct (find_last m (lo + 1) n) as [[i1 d1]|] eqn:E.
  - injection H as <- <-. apply IH in E as (A & B & C). split; [lia|]. split; [exact B|].
    intros j Hj. apply C. lia.
  - destruct (ref_at m lo) as [d0|] eqn:E0; [|discriminate]. injection H as <- <-.
    split; [lia|]. split; [exact E0|].
    intros j Hj. apply (find_last_none n m (lo + 1) E). lia.
Qed.

Lemma find_first_complete : forall n m lo j d,
  lo <= j < lo + Z.of_nat n -> ref_at m j = Some d -> find_first m lo n <> None.
Proof.
  intros n m lo j d Hj Hr C. rewrite (find_first_none n m lo C j Hj) in Hr. discriminate.
Qed.

Lemma find_last_complete : forall n m lo j d,
  lo <= j < lo + Z.of_nat n -> ref_at m j = Some d -> find_last m lo n <> None.
Proof.
  intros n m lo j d Hj Hr C. rewrite (find_last_none n m lo C j Hj) in Hr. discriminate.
Qed.

Lemma referenced_iff m i : referenced m i <-> exists d, ref_at m i = Some d.
Proof.
  unfold referenced. destruct (ref_at m i) as [d|]; split; intros H.
  - exists d. reflexivity.
  - discriminate.
  - contradiction.
  - destruct H as [d H]. discriminate.
Qed.

Lemma not_referenced_iff m i : ~ referenced m i <-> ref_at m i = None.
Proof.
  unfold referenced. destruct (ref_at m i); split; intros H; try reflexivity; try discriminate.
  - exfalso. apply H. discriminate.
  - intros C. contradiction.
Qed.

(* next_ref / prev_ref compute the neighbours the specification names *)
Lemma next_ref_spec m s e t n d :
  s <= t <= e -> ref_at m t = None -> next_ref m s e t = Some (n, d) ->
  is_next m s e t n /\ ref_at m n = Some d.
Proof.
  intros Ht Hu H. unfold next_ref in H.
  destruct (find_first m t (Z.to_nat (e - t + 1))) as [[i di]|] eqn:E1.
  - injection H as <- <-. apply find_first_some in E1 as (A & B & C).
    rewrite Z2Nat.id in A by lia.
    assert (i <> t) by (intros ->; rewrite Hu in B; discriminate).
    split; [|exact B]. unfold is_next. split; [lia|]. split; [apply referenced_iff; eauto|].
    left. split; [lia|]. intros j Hj. apply not_referenced_iff. apply C. lia.
  - pose proof (find_first_none _ _ _ E1) as N1. rewrite Z2Nat.id in N1 by lia.
    apply find_first_some in H as (A & B & C). rewrite Z2Nat.id in A by lia.
    split; [|exact B]. unfold is_next. split; [lia|]. split; [apply referenced_iff; eauto|].
    right. split; [lia|]. split.
    + intros j Hj. apply not_referenced_iff. apply N1. lia.
    + intros j Hj. apply not_referenced_iff. apply C. lia.
Qed.

Lemma prev_ref_spec m s e t p d :
  s <= t <= e -> ref_at m t = None -> prev_ref m s e t = Some (p, d) ->
  is_prev m s e t p /\ ref_at m p = Some d.
Proof.
  intros Ht Hu H. unfold prev_ref in H.
  destruct (find_last m s (Z.to_nat (t - s))) as [[i di]|] eqn:E1.
  - injection H as <- <-. apply find_last_some in E1 as (A & B & C).
    rewrite Z2Nat.id in A, C by lia.
    split; [|exact B]. unfold is_prev. split; [lia|]. split; [apply referenced_iff; eauto|].
    left. split; [lia|]. intros j Hj. apply not_referenced_iff. apply C. lia.
  - pose proof (find_last_none _ _ _ E1) as N1. rewrite Z2Nat.id in N1 by lia.
    apply find_last_some in H as (A & B & C). rewrite Z2Nat.id in A, C by lia.
    assert (p <> t) by (intros ->; rewrite Hu in B; discriminate).
    split; [|exact B]. unfold is_prev. split; [lia|]. split; [apply referenced_iff; eauto|].
    right. split; [lia|]. split.
    + intros j Hj. apply not_referenced_iff. apply N1. lia.
    + intros j Hj. apply not_referenced_iff. apply C. lia.
Qed.

(* the specification names at most one next and one prev *)
Lemma is_next_unique m s e t n1 n2 : is_next m s e t n1 -> is_next m s e t n2 -> n1 = n2.
Proof.
  intros (A1 & R1 & D1) (A2 & R2 & D2).
  destruct D1 as [[L1 N1]|(L1 & N1 & M1)]; destruct D2 as [[L2 N2]|(L2 & N2 & M2)].
  - destruct (Z.lt_trichotomy n1 n2) as [C|[C|C]]; [exfalso; apply (N2 n1); [lia|exact R1]|exact C|exfalso; apply (N1 n2); [lia|exact R2]].
  - exfalso. apply (N2 n1); [lia|exact R1].
  - exfalso. apply (N1 n2); [lia|exact R2].
  - destruct (Z.lt_trichotomy n1 n2) as [C|[C|C]]; [exfalso; apply (M2 n1); [lia|exact R1]|exact C|exfalso; apply (M1 n2); [lia|exact R2]].
Qed.

Lemma is_prev_unique m s e t p1 p2 : is_prev m s e t p1 -> is_prev m s e t p2 -> p1 = p2.
Proof.
  intros (A1 & R1 & D1) (A2 & R2 & D2).
  destruct D1 as [[L1 N1]|(L1 & N1 & M1)]; destruct D2 as [[L2 N2]|(L2 & N2 & M2)].
  - destruct (Z.lt_trichotomy p1 p2) as [C|[C|C]]; [exfalso; apply (N1 p2); [lia|exact R2]|exact C|exfalso; apply (N2 p1); [lia|exact R1]].
  - exfalso. apply (N2 p1); [lia|exact R1].
  - exfalso. apply (N1 p2); [lia|exact R2].
  - destruct (Z.lt_trichotomy p1 p2) as [C|[C|C]]; [exfalso; apply (M1 p2); [lia|exact R2]|exact C|exfalso; apply (M2 p1); [lia|exact R1]].
Qed.

(* when the contour has a referenced point, both neighbours exist (the unwraps cannot fail) *)
Lemma next_ref_exists m s e t r d :
  s <= t <= e -> s <= r <= e -> ref_at m t = None -> ref_at m r = Some d -> next_ref m s e t <> None.
Proof.
  intros Ht Hr Hu Hd. unfold next_ref.
  destruct (find_first m t (Z.to_nat (e - t + 1))) as [[i di]|] eqn:E1; [discriminate|].
  pose proof (find_first_none _ _ _ E1) as N1. rewrite Z2Nat.id in N1 by lia.
  assert (r <> t) by (intros ->; rewrite Hu in Hd; discriminate).
  destruct (Z_lt_le_dec r t) as [C|C].
  - apply (find_first_complete _ m s r d); [rewrite Z2Nat.id by lia; lia|exact Hd].
  - rewrite (N1 r) in Hd by lia. discriminate.
Qed.

Lemma prev_ref_exists m s e t r d :
  s <= t <= e -> s <= r <= e -> ref_at m t = None -> ref_at m r = Some d -> prev_ref m s e t <> None.
Proof.
  intros Ht Hr Hu Hd. unfold prev_ref.
  destruct (find_last m s (Z.to_nat (t - s))) as [[i di]|] eqn:E1; [discriminate|].
  pose proof (find_last_none _ _ _ E1) as N1. rewrite Z2Nat.id in N1 by lia.
  assert (r <> t) by (intros ->; rewrite Hu in Hd; discriminate).
  destruct (Z_lt_le_dec r t) as [C|C].
  - rewrite (N1 r) in Hd by lia. discriminate.
  - apply (find_last_complete _ m t r d); [rewrite Z2Nat.id by lia; lia|exact Hd].
Qed.

(* ---------------------------------------------------------------------------------------- *)
(* list updates *)

Lemma set_nth_length {A} (v : A) : forall l i, length (set_nth l i v) = length l.
Proof.
  induction l as [|x l IH]; intros i; [reflexivity|]. destruct i; cbn [set_nth length]; [reflexivity|]. rewrite IH. reflexivity.
Qed.

Lemma nth_set_nth_eq {A} (v d : A) : forall l i, (i < length l)%nat -> nth i (set_nth l i v) d = v.
Proof.
  induction l as [|x l IH]; intros i H; cbn [length] in H; [lia|].
  destruct i; cbn [set_nth nth]; [reflexivity|]. apply IH. lia.
Qed.

Lemma nth_set_nth_neq {A} (v d : A) : forall l i j, i <> j -> nth j (set_nth l i v) d = nth j l d.
Proof.
  induction l as [|x l IH]; intros i j H; [reflexivity|].
  destruct i; destruct j; cbn [set_nth nth]; try reflexivity; try lia. apply IH. lia.
Qed.

Lemma fill_range_length {A} (v : A) : forall n l lo, length (fill_range l lo n v) = length l.
Proof.
  induction n as [|n IH]; intros l lo; cbn [fill_range]; [reflexivity|]. rewrite IH, set_nth_length. reflexivity.
Qed.

Lemma fill_range_nth {A} (v d : A) : forall n l lo j,
  (lo + n <= length l)%nat ->
  nth j (fill_range l lo n v) d = if ((lo <=? j) && (j <? lo + n))%nat then v else nth j l d.
Proof.
  induction n as [|n IH]; intros l lo j H; cbn [fill_range].
  - destruct (lo <=? j)%nat eqn:E1; destruct (j <? lo + 0)%nat eqn:E2; cbn [andb]; try reflexivity.
    apply Nat.leb_le in E1. apply Nat.ltb_lt in E2. lia.
  - rewrite IH by (rewrite set_nth_length; lia).
    destruct (S lo <=? j)%nat eqn:E1; destruct (j <? S lo + n)%nat eqn:E2; cbn [andb].
    + apply Nat.leb_le in E1. apply Nat.ltb_lt in E2.
      assert ((lo <=? j)%nat = true) as -> by (apply Nat.leb_le; lia).
      assert ((j <? lo + S n)%nat = true) as -> by (apply Nat.ltb_lt; lia). reflexivity.
    + apply Nat.leb_le in E1. apply Nat.ltb_ge in E2.
      assert ((j <? lo + S n)%nat = false) as -> by (apply Nat.ltb_ge; lia). rewrite andb_false_r.
      apply nth_set_nth_neq. lia.
    + apply Nat.leb_gt in E1. apply Nat.ltb_lt in E2.
      destruct (Nat.eq_dec j lo) as [->|N].
      * assert ((lo <=? lo)%nat = true) as -> by (apply Nat.leb_le; lia).
        assert ((lo <? lo + S n)%nat = true) as -> by (apply Nat.ltb_lt; lia). cbn [andb].
        apply nth_set_nth_eq. lia.
      * assert ((lo <=? j)%nat = false) as -> by (apply Nat.leb_gt; lia). cbn [andb].
        apply nth_set_nth_neq. lia.
    + apply Nat.leb_gt in E1. apply Nat.ltb_ge in E2.
      assert ((j <? lo + S n)%nat = false) as -> by (apply Nat.ltb_ge; lia). rewrite andb_false_r.
      apply nth_set_nth_neq. lia.
Qed.

(* ---------------------------------------------------------------------------------------- *)
(* the specification of one contour and the theorem *)

Definition dnth (deltas : list qpair) (t : Z) : qpair := nth (Z.to_nat t) deltas (0%Q, 0%Q).

(* what the rule prescribes for point t of the contour [s, e] *)
Definition point_spec (m : emap) (coords : list (Z * Z)) (s e t : Z) (v : qpair) : Prop :=
  match ref_at m t with
  | Some d => v = qd d                                   (* referenced: its own delta *)
  | None =>
    exists p dp n dn cp ct cn,
      is_prev m s e t p /\ ref_at m p = Some dp /\ is_next m s e t n /\ ref_at m n = Some dn /\
      nth_opt coords p = Some cp /\ nth_opt coords t = Some ct /\ nth_opt coords n = Some cn /\
      infer_axis_spec (fst cp) (fst ct) (fst cn) (fst dp) (fst dn) (fst v) /\
      infer_axis_spec (snd cp) (snd ct) (snd cn) (snd dp) (snd dn) (snd v)
  end.

Lemma nth_opt_some {A} (l : list A) (i : Z) : 0 <= i < len l -> exists x, nth_opt l i = Some x.
Proof.
  intros H. unfold nth_opt. destruct (i <? 0) eqn:E; [apply Z.ltb_lt in E; lia|].
  destruct (nth_error l (Z.to_nat i)) eqn:E2; [eauto|].
  apply nth_error_None in E2. unfold len in H. lia.
Qed.

Lemma infer_delta_spec m coords s e t p dp n dn :
  0 <= s -> e < len coords -> s <= t <= e ->
  is_prev m s e t p -> ref_at m p = Some dp -> is_next m s e t n -> ref_at m n = Some dn ->
  ref_at m t = None ->
  exists v, infer_delta coords t (p, dp) (n, dn) = Ok v /\ point_spec m coords s e t v.
Proof.
  intros Hs He Ht Hp Rp Hn Rn Hu.
  pose proof Hp as (Ap & _). pose proof Hn as (An & _).
  destruct (nth_opt_some coords p) as [cp Cp]; [lia|].
  destruct (nth_opt_some coords t) as [ct Ct]; [lia|].
  destruct (nth_opt_some coords n) as [cn Cn]; [lia|].
  unfold infer_delta. cbn [fst snd]. rewrite Cp, Ct, Cn.
  eexists. split; [reflexivity|].
  unfold point_spec. rewrite Hu.
  exists p, dp, n, dn, cp, ct, cn. cbn [fst snd].
  refine (conj Hp (conj Rp (conj Hn (conj Rn (conj Cp (conj Ct (conj Cn (conj _ _)))))))); apply do_infer_spec.
Qed.

(* the loop of infer_contour from target t on: every un-referenced point from t to e receives the
   specified delta, nothing else changes *)
Lemma infer_contour_from_spec : forall (k : nat) m coords s e t deltas r dr,
  0 <= s -> e < len coords -> s <= t -> t + Z.of_nat k = e + 1 ->
  (Z.to_nat e < length deltas)%nat ->
  s <= r <= e -> ref_at m r = Some dr ->
  exists deltas',
    infer_contour_from m coords s e t k deltas = Ok deltas' /\
    length deltas' = length deltas /\
    (forall j, t <= j <= e -> ref_at m j = None -> point_spec m coords s e j (dnth deltas' j)) /\
    (forall j, 0 <= j -> ~ (t <= j <= e /\ ref_at m j = None) -> dnth deltas' j = dnth deltas j).
Proof.
  induction k as [|k IH]; intros m coords s e t deltas r dr Hs He Hst Hk Hlen Hr Hdr.
  - exists deltas. cbn [infer_contour_from]. split; [reflexivity|]. split; [reflexivity|]. split.
    + intros j Hj. lia.
    + intros j _ _. reflexivity.
  - cbn [infer_contour_from]. destruct (ref_at m t) as [dt|] eqn:Et.
    + destruct (IH m coords s e (t + 1) deltas r dr) as (d' & E & L & A & B); try assumption; try lia.
      exists d'. split; [exact E|]. split; [exact L|]. split.
      * intros j Hj Hu. destruct (Z.eq_dec j t) as [->|N]; [rewrite Et in Hu; discriminate|]. apply A; [lia|exact Hu].
      * intros j H0 Hn. apply B; [exact H0|]. intros [C1 C2]. apply Hn. split; [lia|exact C2].
    + assert (Ht : s <= t <= e) by lia.
      destruct (next_ref m s e t) as [[n dn]|] eqn:En;
        [|exfalso; exact (next_ref_exists m s e t r dr Ht Hr Et Hdr En)].
      destruct (prev_ref m s e t) as [[p dp]|] eqn:Ep;
        [|exfalso; exact (prev_ref_exists m s e t r dr Ht Hr Et Hdr Ep)].
      destruct (next_ref_spec m s e t n dn Ht Et En) as [Sn Rn].
      destruct (prev_ref_spec m s e t p dp Ht Et Ep) as [Sp Rp].
      destruct (infer_delta_spec m coords s e t p dp n dn Hs He Ht Sp Rp Sn Rn Et) as (v & Ev & Pv).
      rewrite Ev. cbn [bind].
      destruct (IH m coords s e (t + 1) (set_nth deltas (Z.to_nat t) v) r dr) as (d' & E & L & A & B);
        try assumption; try lia.
      { rewrite set_nth_length. exact Hlen. }
      exists d'. split; [exact E|]. split; [rewrite L; apply set_nth_length|]. split.
      * intros j Hj Hu. destruct (Z.eq_dec j t) as [->|N].
        -- rewrite B; [|lia|intros [C _]; lia].
           unfold dnth. rewrite nth_set_nth_eq; [exact Pv|lia].
        -- apply A; [lia|exact Hu].
      * intros j H0 Hn. rewrite B; [|exact H0|intros [C1 C2]; apply Hn; split; [lia|exact C2]].
        unfold dnth. apply nth_set_nth_neq. intros C. apply Hn.
        assert (j = t) by lia. subst j. split; [lia|exact Et].
Qed.

(* counting referenced points *)
Lemma count_ref_zero : forall n m lo, count_ref m lo n = 0 -> forall j, lo <= j < lo + Z.of_nat n -> ref_at m j = None.
Proof.
  induction n as [|n IH]; intros m lo H j Hj; [lia|].
  cbn [count_ref] in H.
  assert (P : forall k m lo, 0 <= count_ref m lo k).
  { clear. induction k as [|k IHk]; intros m lo; cbn [count_ref]; [lia|]. specialize (IHk m (lo + 1)). destruct (ref_at m lo); lia. }
  pose proof (P n m (lo + 1)).
  destruct (ref_at m lo) eqn:E; [lia|].
  destruct (Z.eq_dec j lo) as [->|N]; [exact E|]. apply (IH m (lo + 1)); lia.
Qed.

Lemma count_ref_nonneg : forall k m lo, 0 <= count_ref m lo k.
Proof.
  induction k as [|k IHk]; intros m lo; cbn [count_ref]; [lia|]. specialize (IHk m (lo + 1)). destruct (ref_at m lo); lia.
Qed.

Lemma count_ref_le : forall k m lo, count_ref m lo k <= Z.of_nat k.
Proof.
  induction k as [|k IHk]; intros m lo; cbn [count_ref]; [lia|]. specialize (IHk m (lo + 1)). destruct (ref_at m lo); lia.
Qed.

Lemma count_ref_pos_exists : forall n m lo, 0 < count_ref m lo n -> exists j d, lo <= j < lo + Z.of_nat n /\ ref_at m j = Some d.
Proof.
  induction n as [|n IH]; intros m lo H; cbn [count_ref] in H; [lia|].
  destruct (ref_at m lo) as [d|] eqn:E.
  - exists lo, d. split; [lia|exact E].
  - destruct (IH m (lo + 1)) as (j & d & A & B); [lia|]. exists j, d. split; [lia|exact B].
Qed.

Lemma count_ref_full : forall n m lo, count_ref m lo n = Z.of_nat n -> forall j, lo <= j < lo + Z.of_nat n -> ref_at m j <> None.
Proof.
  induction n as [|n IH]; intros m lo H j Hj; [lia|].
  cbn [count_ref] in H. pose proof (count_ref_le n m (lo + 1)).
  destruct (ref_at m lo) eqn:E; [|lia].
  destruct (Z.eq_dec j lo) as [->|N]; [rewrite E; discriminate|]. apply (IH m (lo + 1)); lia.
Qed.

Lemma count_ref_one : forall n m lo i d,
  count_ref m lo n = 1 -> find_first m lo n = Some (i, d) ->
  forall j, lo <= j < lo + Z.of_nat n -> j <> i -> ref_at m j = None.
Proof.
  induction n as [|n IH]; intros m lo i d H F j Hj Hne; [lia|].
  cbn [count_ref] in H. cbn [find_first] in F.
  destruct (ref_at m lo) as [d0|] eqn:E.
  - injection F as <- <-. apply (count_ref_zero n m (lo + 1)); lia.
  - destruct (Z.eq_dec j lo) as [->|N]; [exact E|]. apply (IH m (lo + 1) i d); try assumption; lia.
Qed.

(* THE per-contour theorem.  For a contour [s, e] of a glyph (0 <= s <= e < number of points) whose
   referenced points carry their explicit deltas in `deltas`, one iteration of
   infer_unreferenced_points succeeds and
   - if no point of the contour is referenced, changes nothing;
   - otherwise every point of the contour ends with the delta the specification prescribes
     (its own delta if referenced, the inferred delta otherwise);
   - points outside the contour are untouched. *)
Lemma infer_one_contour_spec m coords s e deltas :
  0 <= s <= e -> e < len coords -> (Z.to_nat e < length deltas)%nat ->
  (forall j d, s <= j <= e -> ref_at m j = Some d -> dnth deltas j = qd d) ->
  exists deltas',
    infer_one_contour m coords s e deltas = Ok deltas' /\
    length deltas' = length deltas /\
    (forall j, 0 <= j -> ~ (s <= j <= e) -> dnth deltas' j = dnth deltas j) /\
    ((forall j, s <= j <= e -> ref_at m j = None) -> deltas' = deltas) /\
    ((exists r, s <= r <= e /\ referenced m r) ->
     forall j, s <= j <= e -> point_spec m coords s e j (dnth deltas' j)).
Proof.
  intros Hse He Hlen Hexp. unfold infer_one_contour.
  set (n := Z.to_nat (e - s + 1)).
  assert (Hn : Z.of_nat n = e - s + 1) by (unfold n; rewrite Z2Nat.id; lia).
  pose proof (count_ref_nonneg n m s) as C0. pose proof (count_ref_le n m s) as C1.
  destruct (count_ref m s n =? 0) eqn:E0.
  { (* no referenced point *)
    apply Z.eqb_eq in E0. pose proof (count_ref_zero n m s E0) as Z0.
    exists deltas. split; [reflexivity|]. split; [reflexivity|]. split; [intros; reflexivity|]. split; [intros; reflexivity|].
    intros (r & Hr & Rr). exfalso. apply Rr. apply Z0. lia. }
  apply Z.eqb_neq in E0.
  destruct (count_ref_pos_exists n m s) as (r & dr & Hr & Rr); [lia|].
  assert (Hr' : s <= r <= e) by lia.
  assert (NotAllNone : ~ (forall j, s <= j <= e -> ref_at m j = None)).
  { intros C. rewrite (C r Hr') in Rr. discriminate. }
  destruct (count_ref m s n =? 1) eqn:E1.
  { (* exactly one referenced point: its delta for the whole contour *)
    apply Z.eqb_eq in E1.
    destruct (find_first m s n) as [[i d]|] eqn:F;
      [|exfalso; exact (find_first_complete n m s r dr Hr Rr F)].
    pose proof (find_first_some n m s i d F) as (Ai & Ri & _).
    pose proof (count_ref_one n m s i d E1 F) as Only.
    assert (Hfill : forall j, 0 <= j -> dnth (fill_range deltas (Z.to_nat s) n (qd d)) j
                                = if (s <=? j) && (j <=? e) then qd d else dnth deltas j).
    { intros j Hj. unfold dnth. rewrite fill_range_nth by lia.
      destruct (s <=? j) eqn:A; destruct (j <=? e) eqn:B; cbn [andb].
      - apply Z.leb_le in A, B.
        assert ((Z.to_nat s <=? Z.to_nat j)%nat = true) as -> by (apply Nat.leb_le; lia).
        assert ((Z.to_nat j <? Z.to_nat s + n)%nat = true) as -> by (apply Nat.ltb_lt; lia). reflexivity.
      - apply Z.leb_le in A. apply Z.leb_gt in B.
        assert ((Z.to_nat j <? Z.to_nat s + n)%nat = false) as -> by (apply Nat.ltb_ge; lia). rewrite andb_false_r. reflexivity.
      - apply Z.leb_gt in A.
        assert ((Z.to_nat s <=? Z.to_nat j)%nat = false) as -> by (apply Nat.leb_gt; lia). reflexivity.
      - apply Z.leb_gt in A.
        assert ((Z.to_nat s <=? Z.to_nat j)%nat = false) as -> by (apply Nat.leb_gt; lia). reflexivity. }
    eexists. split; [reflexivity|]. split; [apply fill_range_length|]. split.
    - intros j Hj Hout. rewrite Hfill by exact Hj.
      destruct (s <=? j) eqn:A; destruct (j <=? e) eqn:B; cbn [andb]; try reflexivity.
      apply Z.leb_le in A, B. lia.
    - split; [intros C; contradiction|].
      intros _ j Hj. rewrite Hfill by lia.
      assert ((s <=? j) && (j <=? e) = true) as -> by (apply andb_true_iff; split; apply Z.leb_le; lia).
      unfold point_spec. destruct (ref_at m j) as [dj|] eqn:Ej.
      + destruct (Z.eq_dec j i) as [->|N]; [rewrite Ri in Ej; injection Ej as <-; reflexivity|].
        rewrite (Only j) in Ej by lia. discriminate.
      + (* prev = next = i: equal coordinates, equal deltas *)
        assert (Nji : j <> i) by (intros ->; rewrite Ri in Ej; discriminate).
        assert (Hi : s <= i <= e) by lia.
        destruct (nth_opt_some coords i) as [ci Ci]; [lia|].
        destruct (nth_opt_some coords j) as [cj Cj]; [lia|].
        exists i, d, i, d, ci, cj, ci. cbn [qd fst snd].
        assert (Ref : referenced m i) by (apply referenced_iff; eauto).
        assert (Pv : is_prev m s e j i).
        { unfold is_prev. split; [lia|]. split; [exact Ref|].
          destruct (Z_lt_le_dec i j) as [C|C].
          - left. split; [lia|]. intros k Hk. apply not_referenced_iff. apply Only; lia.
          - right. split; [lia|]. split; intros k Hk; apply not_referenced_iff; apply Only; lia. }
        assert (Nx : is_next m s e j i).
        { unfold is_next. split; [lia|]. split; [exact Ref|].
          destruct (Z_lt_le_dec j i) as [C|C].
          - left. split; [lia|]. intros k Hk. apply not_referenced_iff. apply Only; lia.
          - right. split; [lia|]. split; intros k Hk; apply not_referenced_iff; apply Only; lia. }
        refine (conj Pv (conj Ri (conj Nx (conj Ri (conj Ci (conj Cj (conj Ci (conj _ _))))))));
          apply IA_same_coord_same_delta; reflexivity. }
  destruct (count_ref m s n =? e - s + 1) eqn:E2.
  { (* every point referenced: nothing to infer *)
    apply Z.eqb_eq in E2. rewrite <- Hn in E2. pose proof (count_ref_full n m s E2) as Full.
    exists deltas. split; [reflexivity|]. split; [reflexivity|]. split; [intros; reflexivity|]. split; [intros; reflexivity|].
    intros _ j Hj. unfold point_spec. destruct (ref_at m j) as [dj|] eqn:Ej.
    - apply Hexp; assumption.
    - exfalso. apply (Full j); [lia|exact Ej]. }
  (* some but not all referenced: infer_contour *)
  unfold infer_contour. fold n.
  destruct (infer_contour_from_spec n m coords s e s deltas r dr) as (d' & E & L & A & B); try lia; try assumption.
  exists d'. split; [exact E|]. split; [exact L|]. split.
  - intros j Hj Hout. apply B; [exact Hj|]. intros [C _]. contradiction.
  - split; [intros C; contradiction|].
    intros _ j Hj. destruct (ref_at m j) as [dj|] eqn:Ej.
    + rewrite B; [|lia|intros [_ C]; rewrite Ej in C; discriminate].
      unfold point_spec. rewrite Ej. apply Hexp; assumption.
    + apply A; assumption.
Qed.

(* ---------------------------------------------------------------------------------------- *)
(* all contours of a glyph *)

(* endPtsOfContours increasing and inside the glyph's points, from `begin` on *)
Fixpoint contours_wf (ncoords begin : Z) (endpts : list Z) : Prop :=
  match endpts with
  | [] => True
  | e :: r => begin <= e < ncoords /\ contours_wf ncoords (e + 1) r
  end.

Fixpoint contour_ranges (begin : Z) (endpts : list Z) : list (Z * Z) :=
  match endpts with [] => [] | e :: r => (begin, e) :: contour_ranges (e + 1) r end.

Lemma contour_ranges_lower : forall endpts ncoords begin s e,
  contours_wf ncoords begin endpts -> In (s, e) (contour_ranges begin endpts) -> begin <= s /\ s <= e < ncoords.
Proof.
  induction endpts as [|e0 r IH]; intros ncoords begin s e W H; [destruct H|].
  destruct W as [W0 W]. cbn [contour_ranges] in H. destruct H as [H|H].
  - injection H as <- <-. lia.
  - destruct (IH ncoords (e0 + 1) s e W H). lia.
Qed.

(* the contour-by-contour result for a whole glyph: with well-formed contour end points the loop
   never fails; each contour that has a referenced point satisfies the specification; contours
   without referenced points and all points outside the contours (the phantom points) keep their
   explicit deltas *)
Lemma infer_contours_spec : forall endpts m coords begin deltas,
  0 <= begin -> contours_wf (len coords) begin endpts ->
  (len coords <= Z.of_nat (length deltas)) ->
  (forall j d, begin <= j -> ref_at m j = Some d -> dnth deltas j = qd d) ->
  exists deltas',
    infer_contours m coords begin endpts deltas = Ok deltas' /\
    length deltas' = length deltas /\
    (forall j, 0 <= j -> (forall s e, In (s, e) (contour_ranges begin endpts) -> ~ (s <= j <= e)) ->
               dnth deltas' j = dnth deltas j) /\
    (forall s e, In (s, e) (contour_ranges begin endpts) ->
       ((forall j, s <= j <= e -> ref_at m j = None) -> forall j, s <= j <= e -> dnth deltas' j = dnth deltas j) /\
       ((exists r, s <= r <= e /\ referenced m r) -> forall j, s <= j <= e -> point_spec m coords s e j (dnth deltas' j))).
Proof.
  induction endpts as [|e0 rest IH]; intros m coords begin deltas Hb W Hlen Hexp.
  - exists deltas. cbn [infer_contours contour_ranges]. split; [reflexivity|]. split; [reflexivity|].
    split; [intros; reflexivity|]. intros s e [].
  - destruct W as [W0 W]. cbn [infer_contours].
    assert (G : (e0 <? begin) || (len coords <=? e0) = false).
    { apply orb_false_iff. split; [apply Z.ltb_ge; lia|apply Z.leb_gt; lia]. }
    rewrite G.
    destruct (infer_one_contour_spec m coords begin e0 deltas) as (d1 & E1 & L1 & Out1 & None1 & Some1);
      [lia|lia|lia|intros j d Hj Hr; apply Hexp; [lia|exact Hr]|].
    rewrite E1. cbn [bind].
    destruct (IH m coords (e0 + 1) d1) as (d2 & E2 & L2 & Out2 & In2); [lia|exact W|rewrite L1; exact Hlen| |].
    { intros j d Hj Hr. rewrite Out1; [|lia|lia]. apply Hexp; [lia|exact Hr]. }
    exists d2. split; [exact E2|]. split; [rewrite L2; exact L1|]. split.
    + intros j Hj Hnot. rewrite Out2; [|exact Hj|].
      * apply Out1; [exact Hj|]. apply (Hnot begin e0). left. reflexivity.
      * intros s e Hin. apply Hnot. right. exact Hin.
    + intros s e Hin. cbn [contour_ranges] in Hin. destruct Hin as [Hin|Hin].
      * injection Hin as <- <-.
        assert (Keep : forall j, begin <= j <= e0 -> dnth d2 j = dnth d1 j).
        { intros j Hj. apply Out2; [lia|]. intros s e Hin.
          destruct (contour_ranges_lower rest (len coords) (e0 + 1) s e W Hin). lia. }
        split.
        -- intros Hn j Hj. rewrite Keep by exact Hj. rewrite (None1 Hn). reflexivity.
        -- intros Hs j Hj. rewrite Keep by exact Hj. apply Some1; assumption.
      * destruct (In2 s e Hin) as [A B].
        destruct (contour_ranges_lower rest (len coords) (e0 + 1) s e W Hin) as [Lo Hi].
        split.
        -- intros Hn j Hj. rewrite (A Hn j Hj). apply Out1; lia.
        -- exact B.
Qed.

(* malformed contour end points (not increasing, or beyond the glyph's points) are rejected with an
   error; before the fix the first case panicked inside BTreeMap::range *)
Lemma infer_contours_rejects m coords begin e rest deltas :
  (e < begin \/ len coords <= e) -> infer_contours m coords begin (e :: rest) deltas = Err BadValue.
Proof.
  intros H. cbn [infer_contours].
  assert (G : (e <? begin) || (len coords <=? e) = true).
  { apply orb_true_iff. destruct H; [left; apply Z.ltb_lt; lia|right; apply Z.leb_le; lia]. }
  rewrite G. reflexivity.
Qed.

(* ---------------------------------------------------------------------------------------- *)
(* the dense map of explicit deltas *)

Lemma nth_error_set_nth_eq {A} (v : A) : forall l i, (i < length l)%nat -> nth_error (set_nth l i v) i = Some v.
Proof.
  induction l as [|x l IH]; intros i H; cbn [length] in H; [lia|].
  destruct i; cbn [set_nth nth_error]; [reflexivity|]. apply IH. lia.
Qed.

Lemma nth_error_set_nth_neq {A} (v : A) : forall l i j, i <> j -> nth_error (set_nth l i v) j = nth_error l j.
Proof.
  induction l as [|x l IH]; intros i j H; [reflexivity|].
  destruct i; destruct j; cbn [set_nth nth_error]; try reflexivity; try lia. apply IH. lia.
Qed.

(* the delta recorded for point i: that of the last pair naming i (a map insert replaces) *)
Fixpoint last_assoc (i : Z) (pairs : list (Z * (Z * Z))) (acc : option (Z * Z)) : option (Z * Z) :=
  match pairs with
  | [] => acc
  | (k, d) :: r => last_assoc i r (if k =? i then Some d else acc)
  end.

Lemma fold_emap_ref : forall pairs (m : emap) i,
  0 <= i < len m -> Forall (fun p => 0 <= fst p < len m) pairs ->
  ref_at (fold_left (fun m p => set_nth m (Z.to_nat (fst p)) (Some (snd p))) pairs m) i
  = last_assoc i pairs (ref_at m i).
Proof.
  induction pairs as [|[k d] r IH]; intros m i Hi Hp; cbn [fold_left last_assoc]; [reflexivity|].
  inversion Hp as [|? ? Hk Hr]; subst. cbn [fst snd] in *.
  rewrite IH.
  - f_equal. unfold ref_at, nth_opt.
    destruct (i <? 0) eqn:E; [apply Z.ltb_lt in E; lia|].
    destruct (k =? i) eqn:Ek.
    + apply Z.eqb_eq in Ek. subst k. rewrite nth_error_set_nth_eq; [reflexivity|unfold len in Hi; lia].
    + apply Z.eqb_neq in Ek. rewrite nth_error_set_nth_neq; [reflexivity|lia].
  - unfold len. rewrite set_nth_length. exact Hi.
  - eapply Forall_impl; [|exact Hr]. cbv beta. intros p Hpp. unfold len. rewrite set_nth_length. exact Hpp.
Qed.

Lemma ref_at_repeat_none n i : ref_at (repeat None n) i = None.
Proof.
  unfold ref_at, nth_opt. destruct (i <? 0); [reflexivity|].
  destruct (nth_error (repeat None n) (Z.to_nat i)) as [o|] eqn:E; [|reflexivity].
  apply nth_error_In in E. apply repeat_spec in E. subst o. reflexivity.
Qed.

(* build_emap: an error exactly when some point number is out of range (including the phantom
   points np = points + 4), otherwise the map of last deltas *)
Lemma build_emap_spec np pairs :
  0 <= np -> Forall (fun p => 0 <= fst p) pairs ->
  (Exists (fun p => np <= fst p) pairs /\ build_emap np pairs = Err BadIndex)
  \/ (Forall (fun p => fst p < np) pairs /\
      exists m, build_emap np pairs = Ok m /\ len m = np /\
                forall i, 0 <= i < np -> ref_at m i = last_assoc i pairs None).
Proof.
  intros Hnp Hpos. unfold build_emap.
  destruct (existsb (fun p => np <=? fst p) pairs) eqn:E.
  - left. split; [|reflexivity]. apply existsb_exists in E as (p & Hin & Hp). apply Exists_exists.
    exists p. split; [exact Hin|apply Z.leb_le; exact Hp].
  - right.
    assert (B : Forall (fun p => fst p < np) pairs).
    { apply Forall_forall. intros p Hin.
      destruct (Z_lt_le_dec (fst p) np) as [C|C]; [exact C|exfalso].
      assert (existsb (fun p => np <=? fst p) pairs = true).
      { apply existsb_exists. exists p. split; [exact Hin|apply Z.leb_le; exact C]. }
      rewrite E in H. discriminate. }
    split; [exact B|]. eexists. split; [reflexivity|].
    assert (L0 : len (repeat (@None (Z * Z)) (Z.to_nat np)) = np) by (unfold len; rewrite repeat_length; lia).
    assert (L : forall ps (m : emap), length (fold_left (fun m p => set_nth m (Z.to_nat (fst p)) (Some (snd p))) ps m) = length m).
    { induction ps as [|p ps IHp]; intros m; cbn [fold_left]; [reflexivity|]. rewrite IHp, set_nth_length. reflexivity. }
    split; [unfold len; rewrite L, repeat_length; lia|].
    intros i Hi. rewrite fold_emap_ref.
    + rewrite ref_at_repeat_none. reflexivity.
    + rewrite L0. exact Hi.
    + rewrite L0. rewrite Forall_forall in *. intros p Hin. specialize (Hpos p Hin). specialize (B p Hin). lia.
Qed.
