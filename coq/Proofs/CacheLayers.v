(* Proofs/CacheLayers.v — history independence of the two modelled cache layers of allsorts (C03):
   the GSUB feature caches (get_supported_features, get_lookups_cache_index) and the glyph-lookup layer of Font
   (GlyphCache, embedded_images slot, set_embedded_image_filter). *)
From AV Require Import Base.Prelude Base.Lemmas Gen.CacheSites Model.Cache Proofs.CacheProofs.
Open Scope Z_scope.

(* ------------------------------------------------------------------------------------------------ *)
(** * list and key facts *)

Lemma nth_opt_app_some {T} (l r : list T) i y : nth_opt l i = Some y -> nth_opt (l ++ r) i = Some y.
Proof.
  unfold nth_opt. destruct (i <? 0); [discriminate|]. intros H.
  rewrite nth_error_app1; [exact H|]. apply nth_error_Some. congruence.
Qed.

Lemma nth_opt_app_len {T} (l : list T) x : nth_opt (l ++ [x]) (len l) = Some x.
Proof.
  unfold nth_opt, len. destruct (Z.of_nat (length l) <? 0) eqn:H; [apply Z.ltb_lt in H; lia|].
  rewrite Nat2Z.id, nth_error_app2 by lia. rewrite Nat.sub_diag. reflexivity.
Qed.

Lemma nth_opt_cons {T} (x : T) l n : 0 < n -> nth_opt (x :: l) n = nth_opt l (n - 1).
Proof.
  intros Hn. unfold nth_opt.
  destruct (n <? 0) eqn:H1; [apply Z.ltb_lt in H1; lia|].
  destruct (n - 1 <? 0) eqn:H2; [apply Z.ltb_lt in H2; lia|].
  replace (Z.to_nat n) with (S (Z.to_nat (n - 1))) by lia. reflexivity.
Qed.

Lemma optz_eqb_spec a b : optz_eqb a b = true <-> a = b.
Proof.
  destruct a as [x|], b as [y|]; cbn [optz_eqb]; split; intros H; try discriminate; try reflexivity.
  - apply Z.eqb_eq in H. congruence.
  - inversion H. apply Z.eqb_refl.
Qed.

Lemma skey_eqb_spec a b : skey_eqb a b = true <-> a = b.
Proof.
  destruct a as [s1 l1], b as [s2 l2]. unfold skey_eqb. cbn [fst snd].
  rewrite andb_true_iff, Z.eqb_eq, optz_eqb_spec. split; [intros [H1 H2]; congruence | intros H; inversion H; auto].
Qed.

Lemma ikey_eqb_spec a b : ikey_eqb a b = true <-> a = b.
Proof.
  destruct a as [[[s1 l1] m1] f1], b as [[[s2 l2] m2] f2]. unfold ikey_eqb.
  rewrite !andb_true_iff, !Z.eqb_eq, !optz_eqb_spec.
  split; [intros [[[H1 H2] H3] H4]; congruence | intros H; inversion H; auto].
Qed.

(* ------------------------------------------------------------------------------------------------ *)
(** * 4. GSUB feature caches *)

Definition norm_fv (fv : option fts) : fts := match fv with Some f => f | None => FNoSubst end.
Definition fv_key (fv : option fts) : option Z := match fv with Some f => fts_cache_key f | None => None end.

Lemma find_langsys_feature_norm g ls tag fv :
  find_langsys_feature g ls tag fv = find_langsys_feature g ls tag (Some (norm_fv fv)).
Proof. destruct fv; reflexivity. Qed.

Lemma build_lookups_loop_norm g ls m fv t : forall acc,
  build_lookups_loop g ls m fv t acc = build_lookups_loop g ls m (Some (norm_fv fv)) t acc.
Proof.
  induction t as [| [fm ftag] r IH]; intros acc; cbn [build_lookups_loop]; [reflexivity|].
  destruct (mask_contains m fm); [| apply IH].
  rewrite (find_langsys_feature_norm g ls ftag fv).
  destruct (find_langsys_feature g ls ftag (Some (norm_fv fv))) as [[lk|] | e | |]; cbn [bind]; try reflexivity.
  - apply IH.
  - destruct (ftag =? TAG_VRT2); [| apply IH].
    rewrite (find_langsys_feature_norm g ls TAG_VERT fv).
    destruct (find_langsys_feature g ls TAG_VERT (Some (norm_fv fv))) as [[lk|] | e | |]; cbn [bind];
      try reflexivity; apply IH.
Qed.

(* the substitution table a key stands for: record (offset - 1) of the FeatureVariations table *)
Definition fts_of_key (g : gsub) (k : option Z) : option fts :=
  match k with
  | None => None
  | Some off =>
      match g_fvars g with
      | Some recs =>
          match nth_opt recs (off - 1) with
          | Some (_, STable l) => Some (FTable off l)
          | _ => None
          end
      | None => None
      end
  end.

(* a substitution handle that really belongs to this table (every handle feature_variations returns does) *)
Definition fv_valid (g : gsub) (fv : option fts) : Prop :=
  match fv with
  | Some (FTable off l) => exists recs c, g_fvars g = Some recs /\ nth_opt recs (off - 1) = Some (c, STable l)
  | _ => True
  end.

Lemma fv_matches_valid recs t : forall i f, fv_matches recs i t = Some f ->
  match f with
  | FTable off l => i < off /\ exists c, nth_opt recs (off - 1 - i) = Some (c, STable l)
  | FNoSubst => True
  end.
Proof.
  induction recs as [| [c s] r IH]; intros i f H; cbn [fv_matches] in H; [discriminate|].
  destruct (condset_matches t c).
  - inversion H; subst f. destruct s as [| l]; [exact I|]. split; [lia|]. exists c.
    replace (i + 1 - 1 - i) with 0 by lia. reflexivity.
  - specialize (IH (i + 1) f H). destruct f as [| off l]; [exact I|].
    destruct IH as [Hlt [c' Hn]]. split; [lia|]. exists c'.
    rewrite nth_opt_cons by lia. replace (off - 1 - i - 1) with (off - 1 - (i + 1)) by lia. exact Hn.
Qed.

Lemma feature_variations_valid g tuple : fv_valid g (feature_variations g tuple).
Proof.
  unfold feature_variations, fv_valid.
  destruct tuple as [t|]; [| exact I]. destruct (g_fvars g) as [recs|] eqn:Hr; [| exact I].
  destruct (fv_matches recs 0 t) as [f|] eqn:Hm; [| exact I].
  pose proof (fv_matches_valid recs t 0 f Hm) as Hv. destruct f as [| off l]; [exact I|].
  destruct Hv as [_ [c Hn]]. exists recs, c. split; [reflexivity|].
  replace (off - 1) with (off - 1 - 0) by lia. exact Hn.
Qed.

Lemma norm_fts_of_key g fv : fv_valid g fv -> norm_fv (fts_of_key g (fv_key fv)) = norm_fv fv.
Proof.
  destruct fv as [[| off l]|]; cbn [fv_key fts_cache_key fts_of_key norm_fv fv_valid]; try reflexivity.
  intros [recs [c [Hr Hn]]]. rewrite Hr, Hn. reflexivity.
Qed.

(* the value get_lookups_cache_index computes and stores, as a function of its arguments *)
Definition lookups_with (g : gsub) (s : Z) (lang : option Z) (m : Z) (fv : option fts) : outcome (list (Z * Z)) :=
  match find_script_or_default g s with
  | Some sc =>
      match find_langsys_or_default sc lang with
      | Some ls => build_lookups_default g ls m fv
      | None => Ok []
      end
  | None => Ok []
  end.

(* ... and as a function of the key alone *)
Definition lookups_of_key (g : gsub) (k : Z * option Z * Z * option Z) : outcome (list (Z * Z)) :=
  let '(s, l, m, fk) := k in lookups_with g s l m (fts_of_key g fk).

(* the key of get_lookups_cache_index captures every argument the lookup list depends on *)
Lemma lookups_with_key g s l m fv :
  fv_valid g fv -> lookups_with g s l m fv = lookups_of_key g (s, l, m, fv_key fv).
Proof.
  intros Hv. unfold lookups_of_key, lookups_with.
  destruct (find_script_or_default g s) as [sc|]; [| reflexivity].
  destruct (find_langsys_or_default sc l) as [ls|]; [| reflexivity].
  unfold build_lookups_default.
  rewrite (build_lookups_loop_norm g ls m fv), (build_lookups_loop_norm g ls m (fts_of_key g (fv_key fv))).
  rewrite (norm_fts_of_key g fv Hv). reflexivity.
Qed.

Lemma from_tag_loop_bounded t tag :
  Forall (fun e => Z.land (snd e) MASK_ALL = snd e) t ->
  Z.land (from_tag_loop t tag) MASK_ALL = from_tag_loop t tag.
Proof.
  induction t as [| [tg m] r IH]; intros H; cbn [from_tag_loop]; [reflexivity|].
  inversion H; subst. destruct (tg =? tag); [assumption | apply IH; assumption].
Qed.

Lemma FROM_TAG_bounded : Forall (fun e => Z.land (snd e) MASK_ALL = snd e) FROM_TAG.
Proof.
  apply Forall_forall. intros e He.
  assert (Hb : forallb (fun e => Z.land (snd e) MASK_ALL =? snd e) FROM_TAG = true) by (vm_compute; reflexivity).
  rewrite forallb_forall in Hb. apply Z.eqb_eq. apply Hb. exact He.
Qed.

Lemma from_tag_bounded tag : Z.land (from_tag tag) MASK_ALL = from_tag tag.
Proof. apply from_tag_loop_bounded. exact FROM_TAG_bounded. Qed.

Lemma make_supported_bounded g idx : forall acc m,
  Z.land acc MASK_ALL = acc -> make_supported_features_mask g idx acc = Ok m -> Z.land m MASK_ALL = m.
Proof.
  induction idx as [| fi r IH]; intros acc m Hacc H; cbn [make_supported_features_mask] in H.
  - inversion H; subst. exact Hacc.
  - destruct (nth_feature_record g fi) as [rec | e | |]; cbn [bind] in H; try discriminate.
    apply (IH (Z.lor acc (from_tag (fst rec)))); [| exact H].
    rewrite Z.land_lor_distr_l, Hacc, from_tag_bounded. reflexivity.
Qed.

Lemma supported_load_bounded g s l m : supported_features_load g s l = Ok m -> Z.land m MASK_ALL = m.
Proof.
  unfold supported_features_load.
  destruct (find_script_or_default g s) as [sc|]; [| intros H; inversion H; reflexivity].
  destruct (find_langsys_or_default sc l) as [ls|]; [| intros H; inversion H; reflexivity].
  apply make_supported_bounded. reflexivity.
Qed.

(* invariant of the three RefCells: every stored value is what a fresh table computes for its key *)
Record linv (g : gsub) (c : lcache) : Prop := mk_linv {
  li_sup : forall k m, mfind skey_eqb k (c_supported c) = Some m ->
                       supported_features_load g (fst k) (snd k) = Ok m;
  li_idx : forall k i, mfind ikey_eqb k (c_index c) = Some i ->
                       exists l, nth_opt (c_lookups c) i = Some l /\ lookups_of_key g k = Ok l;
  li_zero : nth_opt (c_lookups c) 0 = Some []
}.

Lemma linv_new g : linv g new_lcache.
Proof. constructor; cbn [new_lcache c_supported c_index c_lookups mfind]; try discriminate. reflexivity. Qed.

Lemma gsf_step g c s lang :
  linv g c ->
  fst (get_supported_features g c s lang) = supported_features_load g s lang /\
  linv g (snd (get_supported_features g c s lang)).
Proof.
  intros Hinv. unfold get_supported_features.
  destruct (mfind skey_eqb (s, lang) (c_supported c)) as [bits|] eqn:Hf.
  - cbn [fst snd]. split; [| exact Hinv].
    pose proof (li_sup g c Hinv _ _ Hf) as Hl. cbn [fst snd] in Hl.
    rewrite Hl. rewrite (supported_load_bounded g s lang bits Hl). reflexivity.
  - destruct (supported_features_load g s lang) as [m | e | |] eqn:Hl; cbn [fst snd]; split; auto.
    destruct Hinv as [H1 H2 H3]. constructor; cbn [c_supported c_index c_lookups]; [| exact H2 | exact H3].
    intros k m' Hk. cbn [mfind] in Hk. destruct (skey_eqb k (s, lang)) eqn:E.
    + apply skey_eqb_spec in E. subst k. inversion Hk; subst. exact Hl.
    + apply H1. exact Hk.
Qed.

Lemma glci_step g c s lang fv m :
  linv g c -> fv_valid g fv ->
  (i <- fst (get_lookups_cache_index g c s lang fv m) ;;
   cached_lookups_at (snd (get_lookups_cache_index g c s lang fv m)) i) = lookups_with g s lang m fv /\
  linv g (snd (get_lookups_cache_index g c s lang fv m)).
Proof.
  intros Hinv Hv. unfold get_lookups_cache_index. fold (fv_key fv).
  pose proof (lookups_with_key g s lang m fv Hv) as Hkey.
  destruct (mfind ikey_eqb (s, lang, m, fv_key fv) (c_index c)) as [index|] eqn:Hf.
  - cbn [fst snd bind]. split; [| exact Hinv].
    destruct (li_idx g c Hinv _ _ Hf) as [l [Hn Hl]].
    unfold cached_lookups_at. rewrite Hn, Hkey, Hl. reflexivity.
  - destruct Hinv as [H1 H2 H3].
    assert (Hmiss : forall (l : list (Z * Z)) (c' : lcache) (idx : Z),
               c_supported c' = c_supported c ->
               c_index c' = ((s, lang, m, fv_key fv), idx) :: c_index c ->
               (forall i y, nth_opt (c_lookups c) i = Some y -> nth_opt (c_lookups c') i = Some y) ->
               nth_opt (c_lookups c') idx = Some l ->
               lookups_with g s lang m fv = Ok l ->
               linv g c').
    { intros l c' idx Es Ei Hmono Hnew Hval. constructor.
      - rewrite Es. exact H1.
      - intros k i Hk. rewrite Ei in Hk. cbn [mfind] in Hk.
        destruct (ikey_eqb k (s, lang, m, fv_key fv)) eqn:E.
        + apply ikey_eqb_spec in E. subst k. inversion Hk; subst i. exists l. split; [exact Hnew|].
          rewrite <- Hkey. exact Hval.
        + destruct (H2 _ _ Hk) as [l' [Hn Hl]]. exists l'. split; [apply Hmono; exact Hn | exact Hl].
      - apply Hmono. exact H3. }
    unfold lookups_with in *.
    destruct (find_script_or_default g s) as [sc|] eqn:Hsc.
    + destruct (find_langsys_or_default sc lang) as [ls|] eqn:Hls.
      * destruct (build_lookups_default g ls m fv) as [lookups | e | |] eqn:Hb; cbn [fst snd bind];
          try (split; [reflexivity | constructor; assumption]).
        split.
        -- unfold cached_lookups_at. cbn [c_lookups]. rewrite nth_opt_app_len. reflexivity.
        -- apply (Hmiss lookups _ (len (c_lookups c))); cbn [c_supported c_index c_lookups]; auto.
           ++ intros i y Hy. apply nth_opt_app_some. exact Hy.
           ++ apply nth_opt_app_len.
      * cbn [fst snd bind]. split.
        -- unfold cached_lookups_at. cbn [c_lookups]. rewrite H3. reflexivity.
        -- apply (Hmiss [] _ 0); cbn [c_supported c_index c_lookups]; auto.
    + cbn [fst snd bind]. split.
      * unfold cached_lookups_at. cbn [c_lookups]. rewrite H3. reflexivity.
      * apply (Hmiss [] _ 0); cbn [c_supported c_index c_lookups]; auto.
Qed.

Lemma bind_assoc {A B C} (x : outcome A) (f : A -> outcome B) (h : B -> outcome C) :
  (a <- x ;; b <- f a ;; h b) = (b <- (a <- x ;; f a) ;; h b).
Proof. destruct x; reflexivity. Qed.

Lemma l_step_spec g c op : linv g c -> fst (l_step g c op) = l_spec g op /\ linv g (snd (l_step g c op)).
Proof.
  intros Hinv. destruct op as [s lang tuple m | s lang m]; cbn [l_step l_spec].
  - pose proof (glci_step g c s lang (feature_variations g tuple) m Hinv (feature_variations_valid g tuple))
      as [Hres Hinv'].
    destruct (get_lookups_cache_index g c s lang (feature_variations g tuple) m) as [r c'] eqn:Hq.
    cbn [fst snd] in *. split; [| exact Hinv'].
    rewrite bind_assoc, Hres. reflexivity.
  - unfold features_supported.
    pose proof (gsf_step g c s lang Hinv) as [Hres Hinv'].
    destruct (get_supported_features g c s lang) as [r c'] eqn:Hq. cbn [fst snd] in *. split; [| exact Hinv'].
    rewrite Hres. destruct (supported_features_load g s lang); reflexivity.
Qed.

Lemma l_run_spec g ops : forall c, linv g c -> l_run g c ops = map (l_spec g) ops.
Proof.
  induction ops as [| op r IH]; intros c Hinv; cbn [l_run map]; [reflexivity|].
  pose proof (l_step_spec g c op Hinv) as [Hres Hinv'].
  destruct (l_step g c op) as [res c'] eqn:Hs. cbn [fst snd] in *. rewrite Hres, (IH c' Hinv'). reflexivity.
Qed.

(* every call on one long-lived LayoutCache returns what the same call returns on a fresh one *)
Theorem layout_history_independent (g : gsub) (ops : list lop) :
  l_run g new_lcache ops = map (l_spec g) ops.
Proof. apply l_run_spec. apply linv_new. Qed.

Theorem layout_probe (g : gsub) (history : list lop) (probe : lop) :
  l_run g new_lcache (history ++ [probe]) = map (l_spec g) history ++ l_run g new_lcache [probe].
Proof. rewrite !layout_history_independent, map_app. reflexivity. Qed.

(* ------------------------------------------------------------------------------------------------ *)
(** * 5. the glyph-lookup layer *)

Definition ginv (fs : font_static) (st : font_state) : Prop :=
  (st_glyph_cache st = None \/
   st_glyph_cache st = Some (glyph_spec fs (st_filter st) DOTTED_CIRCLE NotRequired None)) /\
  lazy_ok (images_load fs (st_filter st)) (st_images st).

Lemma glyph_spec_not_required fs f1 f2 ch vs :
  glyph_spec fs f1 ch NotRequired vs = glyph_spec fs f2 ch NotRequired vs.
Proof. reflexivity. Qed.

Lemma ginv_new fs : ginv fs font_new.
Proof. split; [left; reflexivity | left; reflexivity]. Qed.

Lemma embedded_images_step fs st :
  ginv fs st ->
  fst (embedded_images fs st) = images_load fs (st_filter st) /\
  ginv fs (snd (embedded_images fs st)) /\
  st_filter (snd (embedded_images fs st)) = st_filter st /\
  st_glyph_cache (snd (embedded_images fs st)) = st_glyph_cache st.
Proof.
  intros [Hg Hl]. unfold embedded_images.
  pose proof (get_or_load_transparent (images_load fs (st_filter st)) (st_images st) Hl) as [Hr Hs].
  destruct (get_or_load (st_images st) (images_load fs (st_filter st))) as [r slot] eqn:Hq.
  cbn [fst snd st_filter st_glyph_cache st_images] in *.
  split; [exact Hr|]. split; [| split; reflexivity].
  split; cbn [st_filter st_glyph_cache st_images]; assumption.
Qed.

Lemma has_embedded_images_step fs st :
  ginv fs st ->
  fst (has_embedded_images fs st) = images_spec fs (st_filter st) /\
  ginv fs (snd (has_embedded_images fs st)) /\
  st_filter (snd (has_embedded_images fs st)) = st_filter st /\
  st_glyph_cache (snd (has_embedded_images fs st)) = st_glyph_cache st.
Proof.
  intros Hinv. unfold has_embedded_images, images_spec.
  pose proof (embedded_images_step fs st Hinv) as [Hr [Hi [Hf Hg]]].
  destruct (embedded_images fs st) as [r st'] eqn:Hq. cbn [fst snd] in *.
  rewrite Hr. auto.
Qed.

Lemma map_unicode_to_glyph_step fs st ch mp vs :
  ginv fs st ->
  fst (map_unicode_to_glyph fs st ch mp vs) = glyph_spec fs (st_filter st) ch mp vs /\
  ginv fs (snd (map_unicode_to_glyph fs st ch mp vs)) /\
  st_filter (snd (map_unicode_to_glyph fs st ch mp vs)) = st_filter st /\
  st_glyph_cache (snd (map_unicode_to_glyph fs st ch mp vs)) = st_glyph_cache st.
Proof.
  intros Hinv. unfold map_unicode_to_glyph, glyph_spec, lookup_glyph_index_with_variation.
  set (used := resolve_default_presentation fs ch vs).
  destruct mp.
  - destruct (used =? VS16) eqn:H16.
    + pose proof (has_embedded_images_step fs st Hinv) as [Hr [Hi [Hf Hg]]].
      destruct (has_embedded_images fs st) as [b st'] eqn:Hq. cbn [fst snd] in *.
      rewrite Hr. auto.
    + cbn [fst snd]. destruct ((used =? VS15) && has_glyph_outlines fs); cbn [fst snd]; auto.
  - cbn [fst snd]. auto.
Qed.

Lemma lookup_glyph_index_step fs st ch mp vs :
  ginv fs st ->
  fst (lookup_glyph_index fs st ch mp vs) = Ok (glyph_spec fs (st_filter st) ch mp vs) /\
  ginv fs (snd (lookup_glyph_index fs st ch mp vs)) /\
  st_filter (snd (lookup_glyph_index fs st ch mp vs)) = st_filter st.
Proof.
  intros Hinv. unfold lookup_glyph_index.
  pose proof (map_unicode_to_glyph_step fs st ch mp vs Hinv) as [Hr [Hi [Hf Hg]]].
  set (cached_path := match mp, vs with NotRequired, None => true | _, _ => false end).
  destruct cached_path eqn:Hcp; cbn [negb].
  - assert (mp = NotRequired /\ vs = None) as [-> ->].
    { unfold cached_path in Hcp. destruct mp, vs; try discriminate; auto. }
    unfold glyph_cache_get.
    destruct (ch =? DOTTED_CIRCLE) eqn:Hdc.
    + apply Z.eqb_eq in Hdc. subst ch.
      destruct (st_glyph_cache st) as [r|] eqn:Hc.
      * cbn [fst snd]. destruct Hinv as [[Hn | Hs] Hl]; [congruence|].
        rewrite Hs in Hc. inversion Hc; subst r. auto.
      * destruct (map_unicode_to_glyph fs st DOTTED_CIRCLE NotRequired None) as [[g used] st'] eqn:Hq.
        cbn [fst snd] in *. unfold glyph_cache_put. rewrite Z.eqb_refl, Hg. cbn [fst snd].
        split; [rewrite Hr; reflexivity|]. split; [| cbn [st_filter]; exact Hf].
        destruct Hi as [_ Hl]. split; cbn [st_glyph_cache st_filter st_images]; [| exact Hl].
        right. rewrite Hf, <- Hr. reflexivity.
    + destruct (map_unicode_to_glyph fs st ch NotRequired None) as [[g used] st'] eqn:Hq.
      cbn [fst snd] in *. unfold glyph_cache_put. rewrite Hdc. cbn [fst snd].
      split; [rewrite Hr; reflexivity|]. split; [| cbn [st_filter]; exact Hf].
      destruct Hi as [Hgc Hl]. split; cbn [st_glyph_cache st_filter st_images]; assumption.
  - destruct (map_unicode_to_glyph fs st ch mp vs) as [r st'] eqn:Hq. cbn [fst snd] in *.
    split; [rewrite Hr; reflexivity|]. auto.
Qed.

Lemma set_filter_step fs st flags : ginv fs st -> ginv fs (set_embedded_image_filter st flags).
Proof.
  intros [Hg Hl]. unfold set_embedded_image_filter. split; cbn [st_glyph_cache st_filter st_images].
  - destruct Hg as [Hn | Hs]; [left; exact Hn | right]. rewrite Hs. reflexivity.
  - destruct (flags =? st_filter st) eqn:E; [| left; reflexivity].
    apply Z.eqb_eq in E. subst flags. exact Hl.
Qed.

Lemma g_step_spec fs st op :
  ginv fs st ->
  fst (g_step fs st op) = g_spec fs (st_filter st) op /\
  ginv fs (snd (g_step fs st op)) /\
  st_filter (snd (g_step fs st op)) = match op with GFilter fl => fl | _ => st_filter st end.
Proof.
  intros Hinv. destruct op as [ch mp vs | flags | | |]; cbn [g_step g_spec].
  - pose proof (lookup_glyph_index_step fs st ch mp vs Hinv) as [Hr [Hi Hf]].
    destruct (lookup_glyph_index fs st ch mp vs) as [r st'] eqn:Hq. cbn [fst snd] in *.
    rewrite Hr. cbn [bind]. destruct (glyph_spec fs (st_filter st) ch mp vs) as [g u]. cbn [fst snd]. auto.
  - cbn [fst snd]. split; [reflexivity|]. split; [apply set_filter_step; exact Hinv | reflexivity].
  - pose proof (has_embedded_images_step fs st Hinv) as [Hr [Hi [Hf Hg]]].
    destruct (has_embedded_images fs st) as [b st'] eqn:Hq. cbn [fst snd] in *. rewrite Hr. auto.
  - pose proof (embedded_images_step fs st Hinv) as [Hr [Hi [Hf Hg]]].
    destruct (embedded_images fs st) as [r st'] eqn:Hq. cbn [fst snd] in *. rewrite Hr. auto.
  - pose proof (lookup_glyph_index_step fs st DOTTED_CIRCLE NotRequired None Hinv) as [Hr [Hi Hf]].
    destruct (lookup_glyph_index fs st DOTTED_CIRCLE NotRequired None) as [r st'] eqn:Hq. cbn [fst snd] in *.
    rewrite Hr. cbn [bind]. auto.
Qed.

Lemma g_run_spec fs ops : forall st, ginv fs st -> g_run fs st ops = g_spec_run fs (st_filter st) ops.
Proof.
  induction ops as [| op r IH]; intros st Hinv; cbn [g_run g_spec_run]; [reflexivity|].
  pose proof (g_step_spec fs st op Hinv) as [Hres [Hinv' Hf]].
  destruct (g_step fs st op) as [res st'] eqn:Hs. cbn [fst snd] in *.
  rewrite Hres, (IH st' Hinv'), Hf. reflexivity.
Qed.

(* every lookup_glyph_index / has_embedded_images call on one long-lived Font returns the pure function of its
   arguments and of the filter currently set - the GlyphCache and the embedded_images slot are invisible *)
Theorem glyph_history_independent (fs : font_static) (ops : list gop) :
  g_run fs font_new ops = g_spec_run fs DEFAULT_IMAGE_FILTER ops.
Proof. apply (g_run_spec fs ops font_new). apply ginv_new. Qed.

(* ------------------------------------------------------------------------------------------------ *)
(** * 6. the generated site table *)

Definition str_mem (x : String.string) (l : list String.string) : bool := existsb (String.eqb x) l.

(* every parameter (or self field) the stored value is computed from is part of the key, fixed on the cached
   path, or constant for the lifetime of the object; and the key components are injective views of parameters *)
Definition site_ok (s : site) : bool :=
  s_key_injective s &&
  forallb (fun v => str_mem v (s_key s) || str_mem v (s_pinned s) || str_mem v (s_const s)) (s_loader s).

Lemma str_mem_In x l : str_mem x l = true <-> In x l.
Proof.
  unfold str_mem. rewrite existsb_exists. split.
  - intros [y [Hy E]]. apply String.eqb_eq in E. subst y. exact Hy.
  - intros H. exists x. split; [exact H | apply String.eqb_refl].
Qed.

Lemma site_ok_spec s :
  site_ok s = true ->
  s_key_injective s = true /\
  forall v, In v (s_loader s) -> In v (s_key s) \/ In v (s_pinned s) \/ In v (s_const s).
Proof.
  unfold site_ok. rewrite andb_true_iff, forallb_forall. intros [Hi Hl]. split; [exact Hi|].
  intros v Hv. specialize (Hl v Hv). rewrite !orb_true_iff, !str_mem_In in Hl. tauto.
Qed.

Lemma sites_ok : forallb site_ok sites = true.
Proof. vm_compute. reflexivity. Qed.

(* ------------------------------------------------------------------------------------------------ *)
(** * 7. the key of get_lookups_cache_index as an instance of the generic condition, and the old keys refuted *)

(* arguments of get_lookups_cache_index: (script, language, mask, variation tuple) *)
Definition li_arg : Type := Z * option Z * Z * option (list Z).
Definition li_f (g : gsub) (a : li_arg) : outcome (list (Z * Z)) :=
  let '(s, l, m, t) := a in lookups_spec g s l t m.
Definition li_key (g : gsub) (a : li_arg) : Z * option Z * Z * option Z :=
  let '(s, l, m, t) := a in (s, l, m, fv_key (feature_variations g t)).

Lemma li_key_captures g :
  key_captures (li_f g) (li_key g) (fun _ => true) (fun _ => true).
Proof.
  intros [[[s1 l1] m1] t1] [[[s2 l2] m2] t2] _ _ Hk _. unfold li_key in Hk. inversion Hk; subst.
  unfold li_f. change (lookups_with g s2 l2 m2 (feature_variations g t1) = lookups_with g s2 l2 m2 (feature_variations g t2)).
  rewrite !lookups_with_key by apply feature_variations_valid. congruence.
Qed.

(* the key before the fixes: no feature-table substitution, language None folded into DFLT *)
Definition li_key_no_fv (a : li_arg) : Z * option Z * Z :=
  let '(s, l, m, _) := a in (s, l, m).
Definition li_key_lang_dflt (g : gsub) (a : li_arg) : Z * Z * Z * option Z :=
  let '(s, l, m, t) := a in
  (s, match l with Some x => x | None => TAG_DFLT end, m, fv_key (feature_variations g t)).

Definition TAG_RVRN : Z := 1920365166.
Definition TAG_LIGA : Z := 1818847073.
Definition TAG_LATN : Z := 1818326126.
Definition MASK_RVRN : Z := 35184372088832.
Definition MASK_LIGA : Z := 4194304.

(* rvrn -> lookup 1, replaced by lookup 3 when axis 0 is in [0, 1] *)
Definition g_f13 : gsub :=
  mk_gsub [(TAG_RVRN, [1]); (TAG_LIGA, [2])]
          [mk_script TAG_DFLT (Some [0; 1]) []]
          (Some [(CSet [(0, 0, 16384)], STable [(0, [3])])]).

(* a LangSys record tagged DFLT next to a different default LangSys *)
Definition g_f15 : gsub :=
  mk_gsub [(TAG_LIGA, [2]); (TAG_LIGA, [3])]
          [mk_script TAG_LATN (Some [0]) [(TAG_DFLT, [1])]]
          None.

Lemma f13_values :
  li_f g_f13 (TAG_LATN, None, MASK_RVRN, Some [8192]) = Ok [(3, TAG_RVRN)] /\
  li_f g_f13 (TAG_LATN, None, MASK_RVRN, Some [-8192]) = Ok [(1, TAG_RVRN)].
Proof. split; vm_compute; reflexivity. Qed.

Lemma f15_values :
  li_f g_f15 (TAG_LATN, Some TAG_DFLT, MASK_LIGA, None) = Ok [(3, TAG_LIGA)] /\
  li_f g_f15 (TAG_LATN, None, MASK_LIGA, None) = Ok [(2, TAG_LIGA)].
Proof. split; vm_compute; reflexivity. Qed.

Definition key3_eqb (a b : Z * option Z * Z) : bool :=
  let '(s1, l1, m1) := a in let '(s2, l2, m2) := b in (s1 =? s2) && optz_eqb l1 l2 && (m1 =? m2).
Lemma key3_eqb_spec a b : key3_eqb a b = true <-> a = b.
Proof.
  destruct a as [[s1 l1] m1], b as [[s2 l2] m2]. unfold key3_eqb.
  rewrite !andb_true_iff, !Z.eqb_eq, optz_eqb_spec.
  split; [intros [[H1 H2] H3]; congruence | intros H; inversion H; auto].
Qed.

Definition key4z_eqb (a b : Z * Z * Z * option Z) : bool :=
  let '(s1, l1, m1, f1) := a in let '(s2, l2, m2, f2) := b in
  (s1 =? s2) && (l1 =? l2) && (m1 =? m2) && optz_eqb f1 f2.
Lemma key4z_eqb_spec a b : key4z_eqb a b = true <-> a = b.
Proof.
  destruct a as [[[s1 l1] m1] f1], b as [[[s2 l2] m2] f2]. unfold key4z_eqb.
  rewrite !andb_true_iff, !Z.eqb_eq, optz_eqb_spec.
  split; [intros [[[H1 H2] H3] H4]; congruence | intros H; inversion H; auto].
Qed.

(* F13: with the key (script, language, mask) one earlier call at another tuple changes the answer *)
Lemma f13_old_key_refuted :
  let q := query key3_eqb (li_f g_f13) li_key_no_fv (fun _ => true) (fun _ => true) in
  let r := run key3_eqb (li_f g_f13) li_key_no_fv (fun _ => true) (fun _ => true) in
  fst (q (r [] [(TAG_LATN, None, MASK_RVRN, Some [8192])]) (TAG_LATN, None, MASK_RVRN, Some [-8192]))
  <> fst (q [] (TAG_LATN, None, MASK_RVRN, Some [-8192])).
Proof.
  cbv zeta.
  apply (memo_refuted key3_eqb key3_eqb_spec (li_f g_f13) li_key_no_fv (fun _ => true) (fun _ => true));
    try reflexivity.
  destruct f13_values as [-> ->]. discriminate.
Qed.

(* F15: with None folded into DFLT an earlier call with the explicit tag changes the answer *)
Lemma f15_old_key_refuted :
  let q := query key4z_eqb (li_f g_f15) (li_key_lang_dflt g_f15) (fun _ => true) (fun _ => true) in
  let r := run key4z_eqb (li_f g_f15) (li_key_lang_dflt g_f15) (fun _ => true) (fun _ => true) in
  fst (q (r [] [(TAG_LATN, Some TAG_DFLT, MASK_LIGA, None)]) (TAG_LATN, None, MASK_LIGA, None))
  <> fst (q [] (TAG_LATN, None, MASK_LIGA, None)).
Proof.
  cbv zeta.
  apply (memo_refuted key4z_eqb key4z_eqb_spec (li_f g_f15) (li_key_lang_dflt g_f15) (fun _ => true) (fun _ => true));
    try reflexivity.
  destruct f15_values as [-> ->]. discriminate.
Qed.

(* F14: a GlyphCache keyed by the character alone and filled by every query *)
Definition fs_f14 : font_static := mk_font_static [(DOTTED_CIRCLE, 3)] [] GTF_GLYF 0.
Definition lg_f (a : Z * presentation * option Z) : Z * Z :=
  let '(ch, mp, vs) := a in glyph_spec fs_f14 DEFAULT_IMAGE_FILTER ch mp vs.
Definition lg_key_ch (a : Z * presentation * option Z) : Z := let '(ch, _, _) := a in ch.

Lemma f14_old_key_refuted :
  let q := query Z.eqb lg_f lg_key_ch (fun _ => true) (fun _ => true) in
  let r := run Z.eqb lg_f lg_key_ch (fun _ => true) (fun _ => true) in
  fst (q (r [] [(DOTTED_CIRCLE, Required, Some 16)]) (DOTTED_CIRCLE, NotRequired, None))
  <> fst (q [] (DOTTED_CIRCLE, NotRequired, None)).
Proof.
  cbv zeta.
  apply (memo_refuted Z.eqb Z.eqb_eq lg_f lg_key_ch (fun _ => true) (fun _ => true)); try reflexivity.
  vm_compute. discriminate.
Qed.

(* set_embedded_image_filter without the reset: the slot filled under the default filter answers for filter 0 *)
Definition fs_img : font_static := mk_font_static [] [] GTF_SBIX GTF_SBIX.
Lemma filter_without_reset_is_stale :
  let st1 := snd (has_embedded_images fs_img font_new) in
  let st_old := mk_font_state (st_glyph_cache st1) (st_images st1) 0 in
  fst (has_embedded_images fs_img st_old) = true /\ images_spec fs_img 0 = false /\
  fst (has_embedded_images fs_img (set_embedded_image_filter st1 0)) = false.
Proof. vm_compute. auto. Qed.

(* the site records of the unfixed sources do not meet the obligation *)
Import String.StringSyntax.
Open Scope string_scope.
Lemma old_sites_fail :
  site_ok (mk_site "get_lookups_cache_index" "src/gsub.rs" ["script_tag"; "opt_lang_tag"; "feature_mask"]
                   ["gsub_cache"; "script_tag"; "opt_lang_tag"; "feature_variations"; "feature_mask"] []
                   ["gsub_cache"] false) = false /\
  site_ok (mk_site "lookup_glyph_index.glyph_cache" "src/font.rs" ["ch"]
                   ["self"; "ch"; "match_presentation"; "variation_selector"] [] ["self"] true) = false /\
  site_ok (mk_site "embedded_images.embedded_images" "src/font.rs" []
                   ["embedded_image_filter"; "font_table_provider"; "glyph_table_flags"; "maxp_table"] []
                   ["font_table_provider"; "glyph_table_flags"; "maxp_table"] true) = false.
Proof. vm_compute. auto. Qed.
Close Scope string_scope.
