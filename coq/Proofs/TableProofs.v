(* Proofs/TableProofs.v — the generic layout theorem instantiated with the layouts extracted from
   the Rust source (Gen/TableLayouts.v), and the tables assembled from several layouts
   (maxp 0.5/1.0, OS/2 versions). *)
From AV Require Import Base.Prelude Base.Lemmas Gen.ReaderPrims Model.Reader Model.ReaderExt
  Proofs.ReaderProofs Proofs.EncodeProofs Model.TableLayout Proofs.TableLayoutProofs Gen.TableLayouts Model.Tables.
From Coq Require Import ZifyBool ZifyNat.
Ltac Zify.zify_post_hook ::= Z.div_mod_to_equations.
Open Scope Z_scope.

(* ---------- obligations decided by computation on the regenerated layouts: reader and writer of
   every table agree field by field (names, primitive types, order, constants vs. discarded reads,
   enum value sets) *)
Lemma head_compat : compat head_read head_write = true. Proof. vm_compute. reflexivity. Qed.
Lemma hhea_compat : compat hhea_read hhea_write = true. Proof. vm_compute. reflexivity. Qed.
Lemma maxp_v1_compat : compat maxp_v1_read maxp_v1_write = true. Proof. vm_compute. reflexivity. Qed.
Lemma long_hor_metric_compat : compat long_hor_metric_read long_hor_metric_write = true. Proof. vm_compute. reflexivity. Qed.
Lemma name_record_compat : compat name_record_read name_record_write = true. Proof. vm_compute. reflexivity. Qed.
Lemma langtag_record_compat : compat langtag_record_read langtag_record_write = true. Proof. vm_compute. reflexivity. Qed.
Lemma table_record_compat : compat table_record_read table_record_write = true. Proof. vm_compute. reflexivity. Qed.
Lemma bounding_box_compat : compat bounding_box_read bounding_box_write = true. Proof. vm_compute. reflexivity. Qed.
Lemma post_header_compat : compat post_header_read post_header_write = true. Proof. vm_compute. reflexivity. Qed.
Lemma os2_base_compat : compat os2_base_read os2_base_write = true. Proof. vm_compute. reflexivity. Qed.
Lemma os2_version0_compat : compat os2_version0_read os2_version0_write = true. Proof. vm_compute. reflexivity. Qed.
Lemma os2_version1_compat : compat os2_version1_read os2_version1_write = true. Proof. vm_compute. reflexivity. Qed.
Lemma os2_version2to4_compat : compat os2_version2to4_read os2_version2to4_write = true. Proof. vm_compute. reflexivity. Qed.
Lemma os2_version5_compat : compat os2_version5_read os2_version5_write = true. Proof. vm_compute. reflexivity. Qed.

(* destructure a value list of known length *)
Ltac explode vs Hl :=
  repeat (destruct vs as [|? vs]; cbn [length] in Hl; try discriminate Hl).

(* ---------- head: the magic number is checked by the reader, so it is part of "within format limits" *)
Definition HEAD_MAGIC : Z := 1594834165.   (* 0x5F0F3CF5 *)

Theorem head_roundtrip fill vs rest c :
  vals_okb (strip_asserts head_read) vs = true -> nth 4 vs 0 = HEAD_MAGIC ->
  cgood c -> at_bytes c (write_items fill head_write vs ++ rest) ->
  exists c', read_items head_read [] c = Ok (readback fill head_write vs, c') /\ advanced c c' rest.
Proof.
  intros Hv Hm Hg Hat. apply layout_roundtrip; try assumption; [exact head_compat|].
  pose proof (vals_okb_length _ _ Hv) as Hl. vm_compute in Hl. clear Hv Hat.
  explode vs Hl. cbn [nth] in Hm. subst. vm_compute. reflexivity.
Qed.

Theorem hhea_roundtrip vs rest c :
  vals_okb (strip_asserts hhea_read) vs = true ->
  cgood c -> at_bytes c (write_items false hhea_write vs ++ rest) ->
  exists c', read_items hhea_read [] c = Ok (vs, c') /\ advanced c c' rest.
Proof.
  intros Hv Hg Hat.
  assert (asserts_hold hhea_read [] (wire false hhea_write vs) = true) as Ha.
  { pose proof (vals_okb_length _ _ Hv) as Hl. vm_compute in Hl. clear Hv Hat.
    explode vs Hl. vm_compute. reflexivity. }
  destruct (layout_roundtrip _ _ false vs rest c hhea_compat Hv Ha Hg Hat) as [c' [E A]].
  exists c'. split; [|exact A]. rewrite E.
  rewrite (readback_id hhea_read hhea_write vs hhea_compat eq_refl Hv). reflexivity.
Qed.

(* ---------- layouts without checks and placeholders: the value comes back as it is *)
Lemma plain_roundtrip rl wl vs rest c :
  compat rl wl = true -> no_asserts rl = true -> no_holes wl = true -> vals_okb rl vs = true ->
  cgood c -> at_bytes c (write_items false wl vs ++ rest) ->
  exists c', read_items rl [] c = Ok (vs, c') /\ advanced c c' rest.
Proof.
  intros Hc Hn Hh Hv Hg Hat.
  destruct (layout_roundtrip_simple rl wl vs rest c Hc Hn Hv Hg Hat) as [c' [E A]].
  exists c'. split; [|exact A]. rewrite E.
  assert (strip_asserts rl = rl) as Hs.
  { clear -Hn. induction rl as [|it rl IH]; [reflexivity|]. destruct it; cbn [no_asserts strip_asserts] in *; try discriminate; rewrite IH by exact Hn; reflexivity. }
  rewrite (readback_id rl wl vs Hc Hh); [reflexivity|]. rewrite Hs. exact Hv.
Qed.

(* ---------- maxp: version 0.5 or 1.0 according to the presence of the subtable *)
Definition maxp_ok (t : maxp) : Prop :=
  prim_in_range PU16 (fst t) = true /\
  match snd t with Some sv => vals_okb maxp_v1_read sv = true | None => True end.

Definition maxp_hdr_w : list witem := [WField "version"%fname PU32; WField "num_glyphs"%fname PU16].
Lemma maxp_hdr_compat : compat maxp_header_read maxp_hdr_w = true. Proof. vm_compute. reflexivity. Qed.

Theorem maxp_roundtrip (t : maxp) rest c :
  maxp_ok t -> cgood c -> at_bytes c (maxp_write t ++ rest) ->
  exists c', maxp_read c = Ok (t, c') /\ advanced c c' rest.
Proof.
  destruct t as [ng sub]. intros [Hng Hsub] Hg Hat. cbn [fst snd] in *. unfold maxp_write in Hat. cbn [fst snd] in Hat.
  unfold maxp_read. destruct sub as [sv|].
  - change (write_items false maxp_header_write_v1 [ng]) with (write_items false maxp_hdr_w [65536; ng]) in Hat.
    rewrite <- app_assoc in Hat.
    assert (vals_okb maxp_header_read [65536; ng] = true) as Hv by (cbn [vals_okb maxp_header_read]; rewrite Hng; reflexivity).
    destruct (plain_roundtrip _ _ _ _ c maxp_hdr_compat eq_refl eq_refl Hv Hg Hat) as [c1 [E1 A1]].
    rewrite E1. cbn [bind nth]. cbv beta iota. change (65536 =? maxp_v1_version) with true. cbv iota.
    destruct (plain_roundtrip _ _ sv rest c1 maxp_v1_compat eq_refl eq_refl Hsub (proj1 A1) (proj2 (proj2 A1))) as [c2 [E2 A2]].
    rewrite E2. cbn [bind]. exists c2. split; [reflexivity|]. eapply advanced_trans; eassumption.
  - change (write_items false maxp_header_write_v05 [ng]) with (write_items false maxp_hdr_w [20480; ng]) in Hat.
    assert (vals_okb maxp_header_read [20480; ng] = true) as Hv by (cbn [vals_okb maxp_header_read]; rewrite Hng; reflexivity).
    destruct (plain_roundtrip _ _ _ _ c maxp_hdr_compat eq_refl eq_refl Hv Hg Hat) as [c1 [E1 A1]].
    rewrite E1. cbn [bind nth]. cbv beta iota. change (20480 =? maxp_v1_version) with false. cbv iota.
    exists c1. split; [reflexivity|exact A1].
Qed.

(* ---------- OS/2 *)
Definition is_some {A} (o : option A) : bool := match o with Some _ => true | None => false end.
Definition opt_ok (rl : list ritem) (o : option (list Z)) : Prop :=
  match o with Some v => vals_okb rl v = true | None => True end.

Lemma read_opt_written rl wl (o : option (list Z)) rest c :
  compat rl wl = true -> no_asserts rl = true -> no_holes wl = true -> opt_ok rl o ->
  cgood c -> at_bytes c (write_opt wl o ++ rest) ->
  exists c', read_opt (is_some o) rl c = Ok (o, c') /\ advanced c c' rest.
Proof.
  intros Hc Hn Hh Ho Hg Hat. destruct o as [v|]; cbn [is_some read_opt write_opt opt_ok] in *.
  - destruct (plain_roundtrip rl wl v rest c Hc Hn Hh Ho Hg Hat) as [c' [E A]].
    exists c'. rewrite E. split; [reflexivity|exact A].
  - exists c. split; [reflexivity|]. unfold advanced. cbn [app] in Hat. auto.
Qed.

(* the struct is well-formed when the version tails nest the way the format defines them:
   v5 implies v2-4 implies v1, and a v2-4 tail implies the v0 tail (a table that long is >= 78 bytes) *)
Definition os2_wf (t : os2) : Prop :=
  vals_okb os2_base_read (o_base t) = true /\
  opt_ok os2_version0_read (o_v0 t) /\ opt_ok os2_version1_read (o_v1 t) /\
  opt_ok os2_version2to4_read (o_v2 t) /\ opt_ok os2_version5_read (o_v5 t) /\
  (is_some (o_v5 t) = true -> is_some (o_v2 t) = true) /\
  (is_some (o_v2 t) = true -> is_some (o_v1 t) = true) /\
  (is_some (o_v2 t) = true -> is_some (o_v0 t) = true).

(* the writer's declared normalisation: the version field is recomputed (2-3 become 4, >5 becomes 5) *)
Definition os2_normalise (t : os2) : os2 :=
  {| o_base := os2_write_version t :: tl (o_base t); o_v0 := o_v0 t; o_v1 := o_v1 t; o_v2 := o_v2 t; o_v5 := o_v5 t |}.

Lemma os2_version_conds t : os2_wf t ->
  (os2_v1_min_version <=? os2_write_version t) = is_some (o_v1 t) /\
  (os2_v2_min_version <=? os2_write_version t) = is_some (o_v2 t) /\
  (os2_v5_min_version <=? os2_write_version t) = is_some (o_v5 t).
Proof.
  intros [_ [_ [_ [_ [_ [H52 [H21 _]]]]]]]. unfold os2_write_version.
  destruct (o_v5 t), (o_v2 t), (o_v1 t); cbn [is_some] in *;
    try (specialize (H52 eq_refl); discriminate); try (specialize (H21 eq_refl); discriminate);
    vm_compute; auto.
Qed.

Lemma os2_base_norm_ok t : os2_wf t -> vals_okb os2_base_read (os2_write_version t :: tl (o_base t)) = true.
Proof.
  intros [Hb _]. destruct (o_base t) as [|b0 bs]; [discriminate Hb|]. cbn [tl].
  change os2_base_read with (RRead "version"%fname PU16 true :: tl os2_base_read) in *.
  cbn [vals_okb] in *. apply andb_true_iff in Hb. destruct Hb as [_ Hb]. rewrite Hb.
  unfold os2_write_version. destruct (o_v5 t), (o_v2 t), (o_v1 t); reflexivity.
Qed.

Theorem os2_roundtrip (t : os2) table_size rest c :
  os2_wf t -> (os2_v0_min_size <=? table_size) = is_some (o_v0 t) ->
  cgood c -> at_bytes c (os2_write t ++ rest) ->
  exists c', os2_read c table_size = Ok (os2_normalise t, c') /\ advanced c c' rest.
Proof.
  intros Hwf Hsz Hg Hat. pose proof (os2_version_conds t Hwf) as [C1 [C2 C5]].
  pose proof (os2_base_norm_ok t Hwf) as Hb. destruct Hwf as [_ [H0 [H1 [H2 [H5 _]]]]].
  unfold os2_write in Hat. rewrite <- !app_assoc in Hat.
  destruct (plain_roundtrip _ _ _ _ c os2_base_compat eq_refl eq_refl Hb Hg Hat) as [c1 [E1 A1]].
  unfold os2_read. rewrite E1. cbn [bind hd]. cbv beta iota.
  rewrite Hsz, C1, C2, C5.
  destruct (read_opt_written _ _ (o_v0 t) _ c1 os2_version0_compat eq_refl eq_refl H0 (proj1 A1) (proj2 (proj2 A1))) as [c2 [E2 A2]].
  rewrite E2. cbn [bind]. cbv beta iota.
  destruct (read_opt_written _ _ (o_v1 t) _ c2 os2_version1_compat eq_refl eq_refl H1 (proj1 A2) (proj2 (proj2 A2))) as [c3 [E3 A3]].
  rewrite E3. cbn [bind]. cbv beta iota.
  destruct (read_opt_written _ _ (o_v2 t) _ c3 os2_version2to4_compat eq_refl eq_refl H2 (proj1 A3) (proj2 (proj2 A3))) as [c4 [E4 A4]].
  rewrite E4. cbn [bind]. cbv beta iota.
  destruct (read_opt_written _ _ (o_v5 t) _ c4 os2_version5_compat eq_refl eq_refl H5 (proj1 A4) (proj2 (proj2 A4))) as [c5 [E5 A5]].
  rewrite E5. cbn [bind]. cbv beta iota.
  exists c5. split; [reflexivity|].
  eapply advanced_trans; [exact A1|]. eapply advanced_trans; [exact A2|]. eapply advanced_trans; [exact A3|].
  eapply advanced_trans; [exact A4|exact A5].
Qed.

Lemma vals_okb_strip rl : forall v, vals_okb rl v = true -> vals_okb (strip_asserts rl) v = true.
Proof.
  induction rl as [|it rl IH]; intros v H; [exact H|].
  destruct it as [n p keep|n k|n p vals|n p mask|n k]; cbn [strip_asserts vals_okb] in *.
  - destruct keep; [|apply IH; exact H]. destruct v; [discriminate|]. apply andb_true_iff in H. destruct H as [H1 H]. rewrite H1, (IH _ H). reflexivity.
  - apply IH; exact H.
  - destruct v; [discriminate|]. apply andb_true_iff in H. destruct H as [H1 H]. rewrite H1, (IH _ H). reflexivity.
  - destruct v; [discriminate|]. apply andb_true_iff in H. destruct H as [H1 H]. rewrite H1, (IH _ H). reflexivity.
  - apply andb_true_iff in H. destruct H as [H1 H]. rewrite H1, (IH _ H). reflexivity.
Qed.

(* the table length a directory would record for the written table selects the v0 tail correctly *)
Lemma opt_len rl wl (o : option (list Z)) n :
  opt_ok rl o ->
  (forall v, vals_okb (strip_asserts rl) v = true -> len (write_items false wl v) = n) ->
  len (write_opt wl o) = if is_some o then n else 0.
Proof.
  intros Ho Hn. destruct o as [v|]; cbn [write_opt is_some]; [|reflexivity].
  apply Hn. apply vals_okb_strip. exact Ho.
Qed.

Theorem os2_written_length_selects_v0 t :
  os2_wf t -> (os2_v0_min_size <=? len (os2_write t)) = is_some (o_v0 t).
Proof.
  intros Hwf. pose proof (os2_base_norm_ok t Hwf) as Hb.
  destruct Hwf as [_ [H0 [H1 [H2 [H5 [H52 [H21 H20]]]]]]].
  unfold os2_write. rewrite !len_app.
  rewrite (len_write_items _ _ _ false os2_base_compat (vals_okb_strip _ _ Hb)).
  rewrite (opt_len _ _ (o_v0 t) 10 H0) by (intros v Hv; rewrite (len_write_items _ _ _ false os2_version0_compat Hv); reflexivity).
  rewrite (opt_len _ _ (o_v1 t) 8 H1) by (intros v Hv; rewrite (len_write_items _ _ _ false os2_version1_compat Hv); reflexivity).
  rewrite (opt_len _ _ (o_v2 t) 10 H2) by (intros v Hv; rewrite (len_write_items _ _ _ false os2_version2to4_compat Hv); reflexivity).
  rewrite (opt_len _ _ (o_v5 t) 4 H5) by (intros v Hv; rewrite (len_write_items _ _ _ false os2_version5_compat Hv); reflexivity).
  change (fold_right _ 0 (wslots os2_base_write)) with 68. change os2_v0_min_size with 78.
  destruct (o_v0 t), (o_v1 t), (o_v2 t), (o_v5 t); cbn [is_some] in *;
    try (specialize (H52 eq_refl); discriminate); try (specialize (H21 eq_refl); discriminate);
    try (specialize (H20 eq_refl); discriminate); reflexivity.
Qed.

(* parse-write-parse: the normalisation is idempotent, so a second round changes nothing *)
Lemma os2_normalise_idem t : os2_normalise (os2_normalise t) = os2_normalise t.
Proof. unfold os2_normalise, os2_write_version; cbn [o_base o_v0 o_v1 o_v2 o_v5 tl]. reflexivity. Qed.
Lemma os2_write_normalise t : os2_write (os2_normalise t) = os2_write t.
Proof. unfold os2_write, os2_normalise, os2_write_version; cbn [o_base o_v0 o_v1 o_v2 o_v5 tl]. reflexivity. Qed.
